import NanoVerif.Model.Proto
import NanoVerif.Driver.Tensor
/-!
  Line-protocol driver: one op per line on stdin (`<family> <op> <args…>`), one result line per op on stdout.
  `#` lines are echoed as `#`. Unknown or malformed ops print `bad-op` (never a default value).
-/
open NanoVerif

def dispatch (line : String) : String :=
  let toks := (line.trimAscii.toString.splitOn " ").filter (· ≠ "")
  match toks with
  | [] => "#"
  | fam :: rest =>
    if fam.startsWith "#" then "#" else
    let r : Option String :=
      match fam with
      | "tensor" => Driver.Tensor.handle rest
      | _ => none
    r.getD "bad-op"

partial def loop (h : IO.FS.Stream) (out : IO.FS.Stream) : IO Unit := do
  let line ← h.getLine
  if line.isEmpty then return ()
  out.putStrLn (dispatch line)
  loop h out

def main : IO Unit := do
  let stdin ← IO.getStdin
  let stdout ← IO.getStdout
  loop stdin stdout
