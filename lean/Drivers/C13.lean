import NanoVerif.Model.DriverMain
/-! line-protocol driver of C13 (must not import Mathlib, directly or indirectly); stub until the family exists -/
open NanoVerif

def handle (_fam : String) (_rest : List String) : Option String := none

def main : IO Unit := DriverMain.run handle
