import NanoVerif.Model.DriverMain
import NanoVerif.Driver.Tuner
/-! line-protocol driver of C13 (must not import Mathlib, directly or indirectly) -/
open NanoVerif

def handle (fam : String) (rest : List String) : Option String :=
  match fam with
  | "tuner" => Driver.Tuner.handle rest
  | _ => none

def main : IO Unit := DriverMain.run handle
