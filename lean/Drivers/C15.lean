import NanoVerif.Model.DriverMain
import NanoVerif.Driver.Codec
/-! line-protocol driver of C15 (must not import Mathlib, directly or indirectly) -/
open NanoVerif

def handle (fam : String) (rest : List String) : Option String :=
  match fam with
  | "codec" => Driver.Codec.handle rest
  | _ => none

def main : IO Unit := DriverMain.run handle
