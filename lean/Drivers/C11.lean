import NanoVerif.Model.DriverMain
import NanoVerif.Driver.EarlyStopping
import NanoVerif.Driver.Boost
/-! line-protocol driver of C11 (must not import Mathlib, directly or indirectly) -/
open NanoVerif

def handle (fam : String) (rest : List String) : Option String :=
  match fam with
  | "es" => Driver.EarlyStopping.handle rest
  | "gbloop" => Driver.Boost.handle rest
  | "gbres" => Driver.BoostFit.handleGbres rest
  | "mlres" => Driver.BoostFit.handleMlres rest
  | _ => none

def main : IO Unit := DriverMain.run handle
