import NanoVerif.Model.DriverMain
import NanoVerif.Driver.Scaling
/-! line-protocol driver of C14 (must not import Mathlib, directly or indirectly) -/
open NanoVerif

def handle (fam : String) (rest : List String) : Option String :=
  match fam with
  | "scaling" => Driver.Scaling.handle rest
  | _ => none

def main : IO Unit := DriverMain.run handle
