import NanoVerif.Model.DriverMain
import NanoVerif.Driver.WLearner
/-! line-protocol driver of C10 (must not import Mathlib, directly or indirectly) -/
open NanoVerif

def handle (fam : String) (rest : List String) : Option String :=
  match fam with
  | "wl" => Driver.WLearner.handle rest
  | _ => none

def main : IO Unit := DriverMain.run handle
