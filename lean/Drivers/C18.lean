import NanoVerif.Model.DriverMain
import NanoVerif.Driver.Reduce
/-! line-protocol driver of C18 (must not import Mathlib, directly or indirectly) -/
open NanoVerif

def handle (fam : String) (rest : List String) : Option String :=
  match fam with
  | "reduce" => Driver.Reduce.handle rest
  | _ => none

def main : IO Unit := DriverMain.run handle
