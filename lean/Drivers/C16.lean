import NanoVerif.Model.DriverMain
import NanoVerif.Driver.Tensor
/-! line-protocol driver of C16 (must not import Mathlib, directly or indirectly) -/
open NanoVerif

def handle (fam : String) (rest : List String) : Option String :=
  match fam with
  | "tensor" => Driver.Tensor.handle rest
  | _ => none

def main : IO Unit := DriverMain.run handle
