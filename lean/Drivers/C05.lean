import NanoVerif.Model.DriverMain
import NanoVerif.Driver.Penalty
/-! line-protocol driver of C05 (must not import Mathlib, directly or indirectly) -/
open NanoVerif

def handle (fam : String) (rest : List String) : Option String := Driver.Penalty.handle fam rest

def main : IO Unit := DriverMain.run handle
