import NanoVerif.Model.DriverMain
import NanoVerif.Driver.Solver
import NanoVerif.Driver.SolverNM
/-! line-protocol driver of C02 (must not import Mathlib, directly or indirectly) -/
open NanoVerif

def handle (fam : String) (rest : List String) : Option String :=
  match fam with
  | "solver2" => Driver.Solver.handleC02 rest
  | "solvernm" => Driver.SolverNM.handle rest
  | _ => none

def main : IO Unit := DriverMain.run handle
