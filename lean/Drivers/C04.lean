import NanoVerif.Model.DriverMain
import NanoVerif.Driver.Program
/-! line-protocol driver of C04 (must not import Mathlib, directly or indirectly) -/
open NanoVerif

def handle (fam : String) (rest : List String) : Option String :=
  match fam with
  | "program" => Driver.Program.handle rest
  | _ => none

def main : IO Unit := DriverMain.run handle
