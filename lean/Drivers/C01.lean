import NanoVerif.Model.DriverMain
import NanoVerif.Driver.Solver
import NanoVerif.Driver.SolverStep
/-! line-protocol driver of C01 (must not import Mathlib, directly or indirectly) -/
open NanoVerif

def handle (fam : String) (rest : List String) : Option String :=
  match fam with
  | "solver" => Driver.Solver.handleC01 rest
  | "ls0" => Driver.SolverStep.handle rest
  | _ => none

def main : IO Unit := DriverMain.run handle
