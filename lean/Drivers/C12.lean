import NanoVerif.Model.DriverMain
import NanoVerif.Driver.Split
/-! line-protocol driver of C12 (must not import Mathlib, directly or indirectly) -/
open NanoVerif

def handle (fam : String) (rest : List String) : Option String :=
  match fam with
  | "split" => Driver.Split.handle rest
  | _ => none

def main : IO Unit := DriverMain.run handle
