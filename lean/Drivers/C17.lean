import NanoVerif.Model.DriverMain
import NanoVerif.Driver.Pool
/-! line-protocol driver of C17 (must not import Mathlib, directly or indirectly) -/
open NanoVerif

def handle (fam : String) (rest : List String) : Option String :=
  match fam with
  | "pool" => Driver.Pool.handle rest
  | _ => none

def main : IO Unit := DriverMain.run handle
