import NanoVerif.Model.DriverMain
import NanoVerif.Driver.Parameter
/-! line-protocol driver of C19 (must not import Mathlib, directly or indirectly) -/
open NanoVerif

def handle (fam : String) (rest : List String) : Option String :=
  Driver.Parameter.handle fam rest

def main : IO Unit := DriverMain.run handle
