import NanoVerif.Model.DriverMain
import NanoVerif.Driver.Loss
import NanoVerif.Driver.Functions
/-! line-protocol driver of C06 (must not import Mathlib, directly or indirectly) -/
open NanoVerif

def handle (fam : String) (rest : List String) : Option String :=
  match fam with
  | "loss" => Driver.Loss.handle rest
  | "fn" => Driver.Functions.handleFn rest
  | "ct" => Driver.Functions.handleCt rest
  | _ => none

def main : IO Unit := DriverMain.run handle
