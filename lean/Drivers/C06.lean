import NanoVerif.Model.DriverMain
import NanoVerif.Driver.Loss
import NanoVerif.Driver.Functions
/-! line-protocol driver of C06 (must not import Mathlib, directly or indirectly) -/
open NanoVerif

/-- a trailing `#tag` is the generator's bookkeeping (which corner case the op was built to hit) -/
def dropTag (ts : List String) : List String :=
  match ts.getLast? with
  | some t => if t.startsWith "#" then ts.dropLast else ts
  | none => ts

def handle (fam : String) (rest0 : List String) : Option String :=
  let rest := dropTag rest0
  match fam with
  | "loss" => Driver.Loss.handle rest
  | "fn" => Driver.Functions.handleFn rest
  | "ct" => Driver.Functions.handleCt rest
  | "fbase" => Driver.Functions.handleFbase rest
  | _ => none

def main : IO Unit := DriverMain.run handle
