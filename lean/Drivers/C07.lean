import NanoVerif.Model.DriverMain
import NanoVerif.Driver.LSearch
/-! line-protocol driver of C07 (must not import Mathlib, directly or indirectly) -/
open NanoVerif

def handle (fam : String) (rest : List String) : Option String :=
  match fam with
  | "ls" => Driver.LSearch.handle rest
  | _ => none

def main : IO Unit := DriverMain.run handle
