import NanoVerif.Model.DriverMain
import NanoVerif.Driver.Stats
/-! line-protocol driver of C20 (must not import Mathlib, directly or indirectly) -/
open NanoVerif

def handle (fam : String) (rest : List String) : Option String :=
  match fam with
  | "stats" => Driver.Stats.handle rest
  | _ => none

def main : IO Unit := DriverMain.run handle
