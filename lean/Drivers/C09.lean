import NanoVerif.Model.DriverMain
import NanoVerif.Driver.Objective
import NanoVerif.Driver.Reduce
/-! line-protocol driver of C09 (must not import Mathlib, directly or indirectly) -/
open NanoVerif

def handle (fam : String) (rest : List String) : Option String :=
  match fam with
  | "objective" => Driver.Objective.handle rest
  | "iter" => Driver.Objective.handleIterAll rest      -- histories on one flatten_iterator_t (model: Model/Iterator.lean)
  | "reduce" => Driver.Reduce.handle rest   -- `reduce sum`: sum_reduce of reduce.h on explicit schedules (model: Model/Reduce.lean)
  | _ => none

def main : IO Unit := DriverMain.run handle
