import NanoVerif.Model.DriverMain
import NanoVerif.Driver.Objective
/-! line-protocol driver of C09 (must not import Mathlib, directly or indirectly) -/
open NanoVerif

def handle (fam : String) (rest : List String) : Option String :=
  match fam with
  | "objective" => Driver.Objective.handle rest
  | _ => none

def main : IO Unit := DriverMain.run handle
