import NanoVerif.Model.DriverMain
import NanoVerif.Driver.Bundle
/-! line-protocol driver of C03 (must not import Mathlib, directly or indirectly) -/
open NanoVerif

def handle (fam : String) (rest : List String) : Option String :=
  match fam with
  | "bundle" => Driver.Bundle.handleBundle rest
  | "ellipsoid" => Driver.Bundle.handleEllipsoid rest
  | _ => none

def main : IO Unit := DriverMain.run handle
