import NanoVerif.Model.DriverMain
import NanoVerif.Driver.Dataset
/-! line-protocol driver of C08 (must not import Mathlib, directly or indirectly) -/
open NanoVerif

def handle (fam : String) (rest : List String) : Option String :=
  match fam with
  | "dataset" => Driver.Dataset.handle rest
  | _ => none

def main : IO Unit := DriverMain.run handle
