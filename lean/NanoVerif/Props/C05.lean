import NanoVerif.Proofs.AugLag
import NanoVerif.Proofs.PenaltySolver
import NanoVerif.Proofs.PenaltyState
import NanoVerif.Proofs.PenaltyGen
import Mathlib.Algebra.Order.Ring.Abs
import Mathlib.Algebra.Order.Field.Rat
import Mathlib.Tactic.NormNum
/-!
  C05 — property theorems: the penalty / augmented-Lagrangian functions of `Model/Penalty.lean` (the three `do_vgrad`s as
  coded) equal the defining formulas of the header comments of `include/nano/function/penalty.h` (value and gradient),
  coincide with the objective on feasible points, and the augmented-Lagrangian outer loop reports `converged` only at
  points that are feasible within `epsilon` — for every inner-solver behaviour.

  All statements are about exact arithmetic: `α` is an arbitrary linear ordered field. Helper lemmas and the
  specification-side definitions (`linearDef`, `quadraticDef`, `alDef`, `…Grad`, `Feasible`, `Consistent`) live in
  `Proofs/Penalty.lean` and `Proofs/AugLag.lean`.

  Translation round: the per-constraint kernels of the three `do_vgrad`s, `make_ro1`, `make_criterion`, the decisions and updates of
  both outer loops and `solver_t::more_precise` are regenerated from the C++ text on every check (`Gen/PenaltyKernels.lean`,
  `Gen/AugLagStep.lean`, by `tools/props/c05_translate.py`); `Proofs/PenaltyGen.lean` proves, for every scalar type, that the model's
  definitions ARE the generated ones (`model_…_is_generated`), so every theorem below is about the formulas of the current source.
-/
namespace NanoVerif.Penalty
open NanoVerif.Constraint
set_option linter.unusedSectionVars false

variable {α : Type} [Field α] [LinearOrder α] [IsStrictOrderedRing α]

/-! ### the constraint kinds -/

/-- `nano::valid` (three kinds coded directly, eight through `vgrad`) is the violation measure of the property:
    `|h(x)|` for an equality, `max(g(x), 0)` for an inequality. -/
theorem valid_eq_violation (c : C α) (x : List α) :
    c.valid x = if c.isEq then |(c.vgrad x).1| else max (c.vgrad x).1 0 := by
  cases c <;> simp only [C.valid, C.vgrad, C.isEq, absv_eq_abs, cmax_eq_max, if_true, Bool.false_eq_true, if_false]
  -- `constant_t` is coded as `fabs(value - x(dim))`, its function value as `x(dim) - value`
  exact abs_sub_comm _ _

/-- a point violates no constraint (`valid = 0`) iff the equality is zero / the inequality non-positive -/
theorem valid_eq_zero_iff (c : C α) (x : List α) :
    c.valid x = 0 ↔ if c.isEq then (c.vgrad x).1 = 0 else (c.vgrad x).1 ≤ 0 := by
  rw [valid_eq_violation]
  cases c.isEq
  · simp only [Bool.false_eq_true, if_false]
    constructor
    · intro h; rw [← h]; exact le_max_left _ _
    · intro h; exact max_eq_right h
  · simp only [if_true]; exact abs_eq_zero

/-- the gradient of a compatible constraint has the dimension of the function; for the functional kinds this is
    the contract of the wrapped function, named as the hypothesis `hf` -/
theorem vgrad_length_of_compatible (n : Nat) (c : C α) (x : List α) (hx : x.length = n)
    (hc : c.compatible n = true)
    (hf : ∀ size f, (c = .funEq size f ∨ c = .funIneq size f) → (f x).2.length = n) :
    (c.vgrad x).2.length = n := by
  cases c with
  | constant v d => simp [C.vgrad, unitVec, hx]
  | minimum v d => simp [C.vgrad, unitVec, hx]
  | maximum v d => simp [C.vgrad, unitVec, hx]
  | ballEq o r =>
    simp only [C.compatible, Bool.and_eq_true, decide_eq_true_eq] at hc
    simp [C.vgrad, ballVgrad, vsub, hx, hc.1]
  | ballIneq o r =>
    simp only [C.compatible, Bool.and_eq_true, decide_eq_true_eq] at hc
    simp [C.vgrad, ballVgrad, vsub, hx, hc.1]
  | linEq q r => simpa [C.vgrad, linVgrad, C.compatible] using hc
  | linIneq q r => simpa [C.vgrad, linVgrad, C.compatible] using hc
  | quadEq P q r =>
    simp only [C.compatible, Bool.and_eq_true, decide_eq_true_eq] at hc
    simp [C.vgrad, quadVgrad, vadd, matVec, matTVec, hx, hc.1.1, hc.2]
  | quadIneq P q r =>
    simp only [C.compatible, Bool.and_eq_true, decide_eq_true_eq] at hc
    simp [C.vgrad, quadVgrad, vadd, matVec, matTVec, hx, hc.1.1, hc.2]
  | funEq size f => exact hf size f (Or.inl rfl)
  | funIneq size f => exact hf size f (Or.inr rfl)

/-! ### the scalar outer functions: the coefficients used in the gradients are their (sub)derivatives -/

/-- `sgn` is a sub-gradient of `|·|` (also at `0`, where the code picks `+1`) -/
theorem abs_subgradient (y z : α) : |y| + sgn y * (z - y) ≤ |z| := by
  unfold sgn
  split
  · rw [abs_of_nonneg ‹_›]; have := le_abs_self z; linarith
  · rw [abs_of_neg (not_le.mp ‹_›)]; have := neg_abs_le z; linarith

/-- `step` is a sub-gradient of `max(0, ·)` (also at `0`, where the code picks `0`) -/
theorem hinge_subgradient (y z : α) : max 0 y + step y * (z - y) ≤ max 0 z := by
  unfold step
  split
  · rw [max_eq_right (le_of_lt ‹_›)]; have := le_max_right 0 z; linarith
  · rw [max_eq_left (not_lt.mp ‹_›)]; have := le_max_left 0 z; linarith

/-- `2 y` is the derivative of `y ↦ y^2`: the first-order remainder is exactly quadratic -/
theorem sq_derivative (y z : α) : z ^ 2 - y ^ 2 - 2 * y * (z - y) = (z - y) ^ 2 := by ring

/-- `2 max(0, y)` is the derivative of `y ↦ max(0, y)^2`: the first-order remainder is at most quadratic -/
theorem hinge_sq_derivative (y z : α) :
    |(max 0 z) ^ 2 - (max 0 y) ^ 2 - 2 * max 0 y * (z - y)| ≤ (z - y) ^ 2 := by
  rw [abs_le]
  rcases le_total 0 y with hy | hy <;> rcases le_total 0 z with hz | hz
  · rw [max_eq_right hy, max_eq_right hz]; constructor <;> nlinarith [sq_nonneg (z - y)]
  · rw [max_eq_right hy, max_eq_left hz]; constructor <;> nlinarith [sq_nonneg (z - y), sq_nonneg z, sq_nonneg y]
  · rw [max_eq_left hy, max_eq_right hz]; constructor <;> nlinarith [sq_nonneg (z - y), sq_nonneg z, sq_nonneg y]
  · rw [max_eq_left hy, max_eq_left hz]; constructor <;> nlinarith [sq_nonneg (z - y)]

/-- `ro max(0, y + miu/ro)` is the derivative of the augmented-Lagrangian term `y ↦ ro/2 max(0, y + miu/ro)^2` -/
theorem al_term_derivative (ro miu y z : α) (hro : 0 < ro) :
    |ro / 2 * (max 0 (z + miu / ro)) ^ 2 - ro / 2 * (max 0 (y + miu / ro)) ^ 2
        - ro * max 0 (y + miu / ro) * (z - y)| ≤ ro / 2 * (z - y) ^ 2 := by
  have h := hinge_sq_derivative (y + miu / ro) (z + miu / ro)
  have e : z + miu / ro - (y + miu / ro) = z - y := by ring
  rw [e] at h
  have hr : 0 ≤ ro / 2 := by linarith
  have : ro / 2 * (max 0 (z + miu / ro)) ^ 2 - ro / 2 * (max 0 (y + miu / ro)) ^ 2
        - ro * max 0 (y + miu / ro) * (z - y)
      = ro / 2 * ((max 0 (z + miu / ro)) ^ 2 - (max 0 (y + miu / ro)) ^ 2 - 2 * max 0 (y + miu / ro) * (z - y)) := by
    ring
  rw [this, abs_mul, abs_of_nonneg hr]
  exact mul_le_mul_of_nonneg_left h hr

/-! ### the three penalty functions equal their definitions (value and gradient) -/

/-- `linear_penalty_function_t::do_vgrad` returns `f(x) + c Σ_j |h_j(x)| + c Σ_i max(0, g_i(x))` and the gradient
    `∇f + c Σ_j sgn(h_j) ∇h_j + c Σ_i step(g_i) ∇g_i` — for any list of evaluated constraints and any `c`. -/
theorem linear_penalty_eq_def (c : α) (f : α × List α) (es : List (Eval α))
    (hes : ∀ e ∈ es, e.gc.length = f.2.length) :
    (linearPenalty c f es).1 = linearDef c f.1 es ∧
    (linearPenalty c f es).2.length = f.2.length ∧
    ∀ i, (linearPenalty c f es).2.getD i 0 = linearDefGrad c f.2 es i := by
  have h := penaltyVgrad_spec (fun fc => c * absv fc) (fun fc => c * (if 0 ≤ fc then 1 else -1)) f.2.length es f.1 f.2
    rfl hes
  obtain ⟨h1, h2, h3⟩ := h
  refine ⟨?_, h2, fun i => ?_⟩
  · show (penaltyVgrad (linearOp c) f.1 f.2 es).1 = _
    unfold linearOp linearDef
    rw [h1, ← sum_map_mul_left, ← sum_map_mul_left]
    congr 1
    · congr 1
      exact sum_map_congr _ _ _ (fun e _ => by rw [absv_eq_abs])
    · apply sum_map_congr
      intro e _
      split
      · rw [absv_eq_abs, abs_of_pos ‹_›, max_eq_right (le_of_lt ‹_›)]
      · rw [max_eq_left (not_lt.mp ‹_›), mul_zero]
  · show (penaltyVgrad (linearOp c) f.1 f.2 es).2.getD i 0 = _
    unfold linearOp linearDefGrad
    rw [h3 i, ← sum_map_mul_left, ← sum_map_mul_left]
    congr 1
    · congr 1
      exact sum_map_congr _ _ _ (fun e _ => by unfold sgn; ring)
    · apply sum_map_congr
      intro e _
      unfold step
      split
      · rw [if_pos (le_of_lt ‹_›)]; ring
      · ring

/-- `quadratic_penalty_function_t::do_vgrad` returns `f(x) + c Σ_j h_j(x)^2 + c Σ_i max(0, g_i(x))^2` and the gradient
    `∇f + c Σ_j 2 h_j ∇h_j + c Σ_i 2 max(0, g_i) ∇g_i`. -/
theorem quadratic_penalty_eq_def (c : α) (f : α × List α) (es : List (Eval α))
    (hes : ∀ e ∈ es, e.gc.length = f.2.length) :
    (quadraticPenalty c f es).1 = quadraticDef c f.1 es ∧
    (quadraticPenalty c f es).2.length = f.2.length ∧
    ∀ i, (quadraticPenalty c f es).2.getD i 0 = quadraticDefGrad c f.2 es i := by
  have h := penaltyVgrad_spec (fun fc => c * fc * fc) (fun fc => c * 2 * fc) f.2.length es f.1 f.2 rfl hes
  obtain ⟨h1, h2, h3⟩ := h
  refine ⟨?_, h2, fun i => ?_⟩
  · show (penaltyVgrad (quadraticOp c) f.1 f.2 es).1 = _
    unfold quadraticOp quadraticDef
    rw [h1, ← sum_map_mul_left, ← sum_map_mul_left]
    congr 1
    · congr 1
      exact sum_map_congr _ _ _ (fun e _ => by ring)
    · apply sum_map_congr
      intro e _
      split
      · rw [max_eq_right (le_of_lt ‹_›)]; ring
      · rw [max_eq_left (not_lt.mp ‹_›)]; ring
  · show (penaltyVgrad (quadraticOp c) f.1 f.2 es).2.getD i 0 = _
    unfold quadraticOp quadraticDefGrad
    rw [h3 i, ← sum_map_mul_left, ← sum_map_mul_left]
    congr 1
    · congr 1
      exact sum_map_congr _ _ _ (fun e _ => by ring)
    · apply sum_map_congr
      intro e _
      split
      · rw [max_eq_right (le_of_lt ‹_›)]; ring
      · rw [max_eq_left (not_lt.mp ‹_›)]; ring

/-- `augmented_lagrangian_function_t::do_vgrad` returns
    `f(x) + ro/2 Σ_j (h_j(x) + lambda_j/ro)^2 + ro/2 Σ_i max(0, g_i(x) + miu_i/ro)^2` and the gradient
    `∇f + ro Σ_j (h_j + lambda_j/ro) ∇h_j + ro Σ_i max(0, g_i + miu_i/ro) ∇g_i`, under exactly the constructor's asserts
    (one `lambda` per equality, one `miu` per inequality); any `ro` (the formulas agree even for `ro ≤ 0`). -/
theorem al_eq_def (ro : α) (lambda miu : List α) (f : α × List α) (es : List (Eval α))
    (hes : ∀ e ∈ es, e.gc.length = f.2.length)
    (hl : lambda.length = (eqs es).length) (hm : miu.length = (ineqs es).length) :
    ∃ r, augLagrangian ro lambda miu f es = some r ∧
      r.1 = alDef ro lambda miu f.1 es ∧ r.2.length = f.2.length ∧
      ∀ i, r.2.getD i 0 = alDefGrad ro lambda miu f.2 es i :=
  alVgrad_spec ro f.2.length es lambda miu f.1 f.2 rfl hes hl hm

/-- the error branch of `al_eq_def`: a multiplier vector of the wrong size (the constructor's `assert`) has no value -/
theorem al_none_of_size_mismatch (ro : α) (lambda miu : List α) (f : α × List α) (es : List (Eval α))
    (h : lambda.length ≠ (eqs es).length ∨ miu.length ≠ (ineqs es).length) :
    augLagrangian ro lambda miu f es = none :=
  alVgrad_none ro es lambda miu f.1 f.2 h

/-! ### the same for a list of constraints of the modelled kinds: the header formulas verbatim -/

theorem eqs_map_evalC (φ : α → α) (cs : List (C α)) (x : List α) :
    (eqs (cs.map (evalC x))).map (fun e => φ e.fc) = (evalEq cs x).map φ := by
  induction cs with
  | nil => simp [eqs, evalEq]
  | cons c cs ih =>
    simp only [List.map_cons, eqs_cons]
    cases h : c.isEq
    · have : (evalC x c).isEq = false := h
      simp only [this, Bool.false_eq_true, if_false, ih]
      simp [evalEq, h]
    · have : (evalC x c).isEq = true := h
      simp only [this, if_true, List.map_cons, ih]
      simp [evalEq, h, evalC]

theorem ineqs_map_evalC (φ : α → α) (cs : List (C α)) (x : List α) :
    (ineqs (cs.map (evalC x))).map (fun e => φ e.fc) = (evalIneq cs x).map φ := by
  induction cs with
  | nil => simp [ineqs, evalIneq]
  | cons c cs ih =>
    simp only [List.map_cons, ineqs_cons]
    cases h : c.isEq
    · have : (evalC x c).isEq = false := h
      simp only [this, Bool.false_eq_true, if_false, List.map_cons, ih]
      simp [evalIneq, h, evalC]
    · have : (evalC x c).isEq = true := h
      simp only [this, if_true, ih]
      simp [evalIneq, h]

/-- value of the linear penalty of `f` with the constraints `cs` at `x`, with `h = evalEq cs x`, `g = evalIneq cs x` -/
theorem linear_penalty_value_eq_header (c : α) (f : List α → α × List α) (cs : List (C α)) (x : List α)
    (hlen : ∀ k ∈ cs, (k.vgrad x).2.length = (f x).2.length) :
    (linearPenaltyAt c f cs x).1
      = (f x).1 + c * ((evalEq cs x).map (fun h => |h|)).sum + c * ((evalIneq cs x).map (fun g => max 0 g)).sum := by
  have h := (linear_penalty_eq_def c (f x) (cs.map (evalC x)) (by
    intro e he
    obtain ⟨k, hk, rfl⟩ := List.mem_map.mp he
    exact hlen k hk)).1
  unfold linearPenaltyAt
  rw [h, linearDef, eqs_map_evalC (fun h => |h|), ineqs_map_evalC (fun g => max 0 g)]

/-- value of the quadratic penalty of `f` with the constraints `cs` at `x` -/
theorem quadratic_penalty_value_eq_header (c : α) (f : List α → α × List α) (cs : List (C α)) (x : List α)
    (hlen : ∀ k ∈ cs, (k.vgrad x).2.length = (f x).2.length) :
    (quadraticPenaltyAt c f cs x).1
      = (f x).1 + c * ((evalEq cs x).map (fun h => h ^ 2)).sum
          + c * ((evalIneq cs x).map (fun g => (max 0 g) ^ 2)).sum := by
  have h := (quadratic_penalty_eq_def c (f x) (cs.map (evalC x)) (by
    intro e he
    obtain ⟨k, hk, rfl⟩ := List.mem_map.mp he
    exact hlen k hk)).1
  unfold quadraticPenaltyAt
  rw [h, quadraticDef, eqs_map_evalC (fun h => h ^ 2), ineqs_map_evalC (fun g => (max 0 g) ^ 2)]

/-! ### the penalties coincide with the objective on feasible points -/

theorem feasible_eqs {es : List (Eval α)} (h : Feasible es) : ∀ e ∈ eqs es, e.fc = 0 := by
  intro e he
  obtain ⟨hmem, heq⟩ := mem_eqs he
  have := h e hmem
  rwa [heq, if_pos rfl] at this

theorem feasible_ineqs {es : List (Eval α)} (h : Feasible es) : ∀ e ∈ ineqs es, e.fc ≤ 0 := by
  intro e he
  obtain ⟨hmem, heq⟩ := mem_ineqs he
  have := h e hmem
  rwa [heq, if_neg (by simp)] at this

theorem zipWith_sum_zero {β γ : Type} (f : β → γ → α) :
    ∀ (l1 : List β) (l2 : List γ), (∀ b ∈ l1, ∀ c ∈ l2, f b c = 0) → (List.zipWith f l1 l2).sum = 0
  | [], _, _ => by simp
  | _ :: _, [], _ => by simp
  | b :: l1, c :: l2, h => by
    simp only [List.zipWith_cons_cons, List.sum_cons]
    rw [h b (by simp) c (by simp), zipWith_sum_zero f l1 l2 (fun b' hb' c' hc' => h b' (by simp [hb']) c' (by simp [hc'])),
      add_zero]

/-- At a feasible point (every `h_j = 0`, every `g_i ≤ 0`) the linear and the quadratic penalty return the objective's
    value for every penalty parameter, the augmented Lagrangian does so with zero multipliers; the quadratic penalty and
    the augmented Lagrangian also return the objective's gradient (the linear penalty adds the sub-gradient `c ∇h_j` of
    `c |h_j|` at `h_j = 0`, as coded). -/
theorem penalty_eq_objective_on_feasible (c ro : α) (lambda miu : List α) (f : α × List α) (es : List (Eval α))
    (hes : ∀ e ∈ es, e.gc.length = f.2.length) (hfeas : Feasible es)
    (hl : lambda.length = (eqs es).length) (hm : miu.length = (ineqs es).length)
    (hl0 : ∀ l ∈ lambda, l = 0) (hm0 : ∀ m ∈ miu, m = 0) :
    (linearPenalty c f es).1 = f.1 ∧
    (quadraticPenalty c f es).1 = f.1 ∧ (∀ i, (quadraticPenalty c f es).2.getD i 0 = f.2.getD i 0) ∧
    ∃ r, augLagrangian ro lambda miu f es = some r ∧ r.1 = f.1 ∧ ∀ i, r.2.getD i 0 = f.2.getD i 0 := by
  have he := feasible_eqs hfeas
  have hi := feasible_ineqs hfeas
  refine ⟨?_, ?_, ?_, ?_⟩
  · rw [(linear_penalty_eq_def c f es hes).1, linearDef,
      sum_map_zero _ _ (fun e h => by rw [he e h, abs_zero]),
      sum_map_zero _ _ (fun e h => max_eq_left (hi e h))]
    ring
  · rw [(quadratic_penalty_eq_def c f es hes).1, quadraticDef,
      sum_map_zero _ _ (fun e h => by rw [he e h]; ring),
      sum_map_zero _ _ (fun e h => by rw [max_eq_left (hi e h)]; ring)]
    ring
  · intro i
    rw [(quadratic_penalty_eq_def c f es hes).2.2 i, quadraticDefGrad,
      sum_map_zero _ _ (fun e h => by rw [he e h]; ring),
      sum_map_zero _ _ (fun e h => by rw [max_eq_left (hi e h)]; ring)]
    ring
  · obtain ⟨r, hr, h1, _, h3⟩ := al_eq_def ro lambda miu f es hes hl hm
    refine ⟨r, hr, ?_, fun i => ?_⟩
    · rw [h1, alDef,
        zipWith_sum_zero _ _ _ (fun e h l hl' => by rw [he e h, hl0 l hl']; simp),
        zipWith_sum_zero _ _ _ (fun e h m hm' => by rw [hm0 m hm', zero_div, add_zero, max_eq_left (hi e h)]; ring)]
      ring
    · rw [h3 i, alDefGrad,
        zipWith_sum_zero _ _ _ (fun e h l hl' => by rw [he e h, hl0 l hl']; simp),
        zipWith_sum_zero _ _ _ (fun e h m hm' => by rw [hm0 m hm', zero_div, add_zero, max_eq_left (hi e h)]; ring)]
      ring

/-! ### the outer loop of the augmented-Lagrangian solver -/

/-- `make_criterion` dominates the feasibility residual whenever `miu ≥ 0` and `ro > 0`:
    `max(max_j |h_j|, max_i max(g_i, 0)) ≤ max(|h|_inf, |max(g, -miu/ro)|_inf)`. -/
theorem criterion_ge_violation (c : St α) (miu : List α) (ro : α) (hro : 0 < ro)
    (hm : ∀ m ∈ miu, 0 ≤ m) (hlen : miu.length = c.cineq.length) :
    violation c ≤ criterion c miu ro :=
  criterion_ge_violation_st c miu ro hro hm hlen

/-- `make_ro1` returns a positive penalty parameter (`std::clamp` to `[ro_min, ro_max]`, `0 < ro_min ≤ ro_max`) -/
theorem makeRo1_pos (fx : α) (s : St α) (tiny roMin roMax : α) (h0 : 0 < roMin) (h1 : roMin ≤ roMax) :
    0 < makeRo1 fx s tiny roMin roMax := by
  unfold makeRo1 clamp
  simp only
  split
  · exact h0
  · split
    · exact lt_of_lt_of_le h0 h1
    · exact lt_of_lt_of_le h0 (not_lt.mp ‹_›)

/-- one step keeps the multipliers of the inequalities non-negative, whatever the oracle answers -/
theorem alStep_miu_nonneg (cs : List (C α)) (p : Params α) (hmiuMax : 0 ≤ p.miuMax) (s : ALState α) (a : Answer α)
    (hs : ∀ m ∈ s.miu, 0 ≤ m) : ∀ m ∈ (alStep cs p s a).1.miu, 0 ≤ m := by
  unfold alStep
  simp only
  split
  · exact hs
  · intro m hm
    obtain ⟨i, hi, rfl⟩ := List.mem_iff_getElem.mp hm
    simp only [List.getElem_zipWith, cmin_eq_min, cmax_eq_max]
    exact le_min (le_max_right _ _) hmiuMax

/-- one step keeps `bstate` a state of the constrained function, whatever the oracle answers -/
theorem alStep_best_eq (cs : List (C α)) (p : Params α) (s : ALState α) (a : Answer α)
    (hs : s.best = mkState cs s.best.x) : (alStep cs p s a).1.best = mkState cs (alStep cs p s a).1.best.x := by
  unfold alStep
  simp only
  split <;> (split <;> first | rfl | exact hs)

/-- The multiplier estimates `miu` of the inequalities are non-negative in every state the outer loop reaches — for
    every inner-solver behaviour (`miu_max ≥ 0` is the parameter's domain). -/
theorem miu_nonneg_invariant (cs : List (C α)) (p : Params α) (hmiuMax : 0 ≤ p.miuMax)
    (inner : Nat → ALState α → Answer α) (x0 : List α) (ro1 : α) (fuel : Nat) :
    ∀ m ∈ (alLoop cs p inner fuel (alInit cs x0 ro1)).miu, 0 ≤ m := by
  have key : ∀ (fuel : Nat) (s : ALState α), (∀ m ∈ s.miu, 0 ≤ m) → ∀ m ∈ (alLoop cs p inner fuel s).miu, 0 ≤ m := by
    intro fuel
    induction fuel with
    | zero => intro s hs; exact hs
    | succ fuel ih =>
      intro s hs
      have := alStep_miu_nonneg cs p hmiuMax s (inner s.iters s) hs
      simp only [alLoop]
      split
      · exact this
      · exact ih _ this
  apply key
  intro m hm
  simp only [alInit, List.mem_map] at hm
  obtain ⟨_, _, rfl⟩ := hm
  exact le_refl _

/-- The constraint values stored in the state the solver returns are those of the function's constraints at the
    returned point (`bstate.update` re-evaluates them) — for every inner-solver behaviour, no hypothesis. -/
theorem al_state_constraints_recomputed (cs : List (C α)) (p : Params α)
    (inner : Nat → ALState α → Answer α) (x0 : List α) (ro1 : α) (fuel : Nat) :
    let r := alLoop cs p inner fuel (alInit cs x0 ro1)
    r.best.ceq = evalEq cs r.best.x ∧ r.best.cineq = evalIneq cs r.best.x := by
  have key : ∀ (fuel : Nat) (s : ALState α), s.best = mkState cs s.best.x →
      (alLoop cs p inner fuel s).best = mkState cs (alLoop cs p inner fuel s).best.x := by
    intro fuel
    induction fuel with
    | zero => intro s hs; exact hs
    | succ fuel ih =>
      intro s hs
      have := alStep_best_eq cs p s (inner s.iters s) hs
      simp only [alLoop]
      split
      · exact this
      · exact ih _ this
  have h := key fuel (alInit cs x0 ro1) rfl
  intro r
  constructor
  · show r.best.ceq = (mkState cs r.best.x).ceq
    rw [← h]
  · show r.best.cineq = (mkState cs r.best.x).cineq
    rw [← h]

/-- Loop invariant: the feasibility residual of `bstate` never exceeds `old_criterion`, in every state the outer loop
    reaches (also the stopped ones), for every inner solver whose answers are states of the constrained function. -/
theorem al_best_violation_le_criterion (cs : List (C α)) (p : Params α) (hgamma : 1 < p.gamma)
    (hmiuMax : 0 ≤ p.miuMax) (inner : Nat → ALState α → Answer α) (hinner : ∀ k s, Consistent cs (inner k s))
    (x0 : List α) (ro1 : α) (hro : 0 < ro1) (fuel : Nat) :
    violation (alLoop cs p inner fuel (alInit cs x0 ro1)).best ≤ (alLoop cs p inner fuel (alInit cs x0 ro1)).oldCrit :=
  (alLoop_inv cs p hgamma hmiuMax inner hinner fuel _ (alInit_inv cs x0 ro1 hro)).2.2.1

/-- **For every inner-solver behaviour** (`inner` is an arbitrary function of the iteration number and the loop state
    whose answers are states of the constrained function), every objective, every starting point and every number of
    outer iterations: if the augmented-Lagrangian loop ends with status `converged`, then at the returned point every
    equality satisfies `|h_j(x)| ≤ epsilon` and every inequality `max(0, g_i(x)) ≤ epsilon` — the values being those of
    the function's constraints evaluated at the returned point. -/
theorem al_converged_feasible (cs : List (C α)) (p : Params α) (hgamma : 1 < p.gamma) (hmiuMax : 0 ≤ p.miuMax)
    (inner : Nat → ALState α → Answer α) (hinner : ∀ k s, Consistent cs (inner k s))
    (x0 : List α) (ro1 : α) (hro : 0 < ro1) (fuel : Nat) :
    let r := alLoop cs p inner fuel (alInit cs x0 ro1)
    r.status = 1 →
      (∀ h ∈ evalEq cs r.best.x, |h| ≤ p.eps) ∧ (∀ g ∈ evalIneq cs r.best.x, max 0 g ≤ p.eps) := by
  intro r hst
  have h := alLoop_inv cs p hgamma hmiuMax inner hinner fuel _ (alInit_inv cs x0 ro1 hro)
  have hv := violation_le_iff _ _ (h.1 hst)
  have hb := h.2.1
  have e1 : r.best.ceq = evalEq cs r.best.x := by
    show r.best.ceq = (mkState cs r.best.x).ceq
    rw [← hb]
  have e2 : r.best.cineq = evalIneq cs r.best.x := by
    show r.best.cineq = (mkState cs r.best.x).cineq
    rw [← hb]
  rw [← e1, ← e2]
  exact hv

/-- the same with the inner solver reduced to what it is free to choose — the point it returns and the two validity
    flags — and the starting penalty computed by `make_ro1` -/
theorem al_converged_feasible_solver (cs : List (C α)) (p : Params α) (hgamma : 1 < p.gamma) (hmiuMax : 0 ≤ p.miuMax)
    (innerX : Nat → ALState α → List α × Bool × Bool)
    (x0 : List α) (fx0 tiny roMin roMax : α) (h0 : 0 < roMin) (h1 : roMin ≤ roMax) (fuel : Nat) :
    let inner : Nat → ALState α → Answer α :=
      fun k s => ⟨mkState cs (innerX k s).1, (innerX k s).2.1, (innerX k s).2.2⟩
    let r := alLoop cs p inner fuel (alInit cs x0 (makeRo1 fx0 (mkState cs x0) tiny roMin roMax))
    r.status = 1 →
      (∀ h ∈ evalEq cs r.best.x, |h| ≤ p.eps) ∧ (∀ g ∈ evalIneq cs r.best.x, max 0 g ≤ p.eps) := by
  intro inner
  exact al_converged_feasible cs p hgamma hmiuMax inner (fun _ _ => rfl) x0 _
    (makeRo1_pos fx0 _ tiny roMin roMax h0 h1) fuel

/-! ### the outer loop of the linear-penalty and the quadratic-penalty solver (`solver_penalty_t::minimize`)

  In all theorems `inner` — the inner solver together with the objective — is an arbitrary function of the outer
  iteration and the loop state, the constraint list, the parameters, the starting point and `max_outer_iters` are
  arbitrary; `r.calls` is the ghost log of the calls of the inner solver, in order. -/

/-- the state the solver returns satisfies `PFin` -/
theorem penSolve_fin (cs : List (C α)) (p : PParams α) (penalty0 eps0 : α) (maxOuters : Nat)
    (inner : Nat → PState α → PAnswer α) (x0 : List α) :
    PFin cs p penalty0 eps0 x0 inner (penSolve cs p penalty0 eps0 maxOuters inner x0) :=
  (penLoop_fin cs p penalty0 eps0 x0 inner maxOuters _ (penInit_run cs p penalty0 eps0 x0 inner)).1

theorem map_absv (l : List α) : l.map absv = l.map (fun v => |v|) :=
  List.map_congr_left (fun v _ => absv_eq_abs v)

/-- **status `converged` ⇒ the documented stopping test held at the returned point**: the returned point is the answer
    of the last call of the inner solver, that answer was valid, and it differs from the point the call was started at
    (the last valid answer before it, `x0` when none) by less than `epsilon * max(1, |start|_inf)` in the sup norm.
    Nothing else is implied: see `pen_converged_not_feasible`. -/
theorem pen_converged_stopping_test (cs : List (C α)) (p : PParams α) (penalty0 eps0 : α) (maxOuters : Nat)
    (inner : Nat → PState α → PAnswer α) (x0 : List α) :
    let r := penSolve cs p penalty0 eps0 maxOuters inner x0
    r.status = 1 → ∃ (init : List (PCall α)) (last : PCall α), r.calls = init ++ [last] ∧ last.iterOk = true ∧
      r.best.x = last.cx ∧ last.start = lastValid x0 init ∧
      maxL ((vsub r.best.x last.start).map (fun v => |v|)) < p.eps * max 1 (maxL (last.start.map (fun v => |v|))) := by
  intro r hst
  have hfin := penSolve_fin cs p penalty0 eps0 maxOuters inner x0
  obtain ⟨init, last, hcalls, _, hok, hx, _, hcase⟩ := hfin.stopped (by rw [hst]; decide)
  have hcall := hfin.sched.call init last [] hcalls
  refine ⟨init, last, hcalls, hok, hx, hcall.start_eq, ?_⟩
  rcases hcase with ⟨_, hconv⟩ | ⟨h2, _⟩
  · rw [hcall.xconv_eq] at hconv
    have := of_decide_eq_true hconv
    rw [map_absv, map_absv, cmax_eq_max] at this
    rw [hx]; exact this
  · rw [hst] at h2; cases h2

/-- the same, coordinate by coordinate -/
theorem pen_converged_step_small (cs : List (C α)) (p : PParams α) (penalty0 eps0 : α) (maxOuters : Nat)
    (inner : Nat → PState α → PAnswer α) (x0 : List α) :
    let r := penSolve cs p penalty0 eps0 maxOuters inner x0
    r.status = 1 → ∃ (init : List (PCall α)) (last : PCall α), r.calls = init ++ [last] ∧
      ∀ d ∈ vsub r.best.x last.start, |d| < p.eps * max 1 (maxL (last.start.map (fun v => |v|))) := by
  intro r hst
  obtain ⟨init, last, hcalls, _, _, _, hlt⟩ := pen_converged_stopping_test cs p penalty0 eps0 maxOuters inner x0 hst
  refine ⟨init, last, hcalls, fun d hd => lt_of_le_of_lt ?_ hlt⟩
  exact le_maxL (List.mem_map.mpr ⟨d, hd, rfl⟩)

/-- The penalty parameter passed to the inner solver at its `k`-th call (`k` = the number of calls before it) is
    `penalty0 * eta^k`: positive, at least `penalty0`, multiplied by `eta` from one call to the next, and never above
    `penalty0 * eta^(max_outer_iters - 1)` (`penalty0 > 0`, `eta > 1`: the registered domains). -/
theorem pen_penalty_schedule (cs : List (C α)) (p : PParams α) (penalty0 eps0 : α) (maxOuters : Nat)
    (inner : Nat → PState α → PAnswer α) (x0 : List α) (h0 : 0 < penalty0) (heta : 1 < p.eta) :
    let r := penSolve cs p penalty0 eps0 maxOuters inner x0
    ∀ (l1 : List (PCall α)) (c : PCall α) (l2 : List (PCall α)), r.calls = l1 ++ c :: l2 →
      c.penalty = penalty0 * p.eta ^ l1.length ∧ 0 < c.penalty ∧ penalty0 ≤ c.penalty ∧
      c.penalty ≤ penalty0 * p.eta ^ (maxOuters - 1) ∧
      (∀ (d : PCall α) (l3 : List (PCall α)), l2 = d :: l3 → d.penalty = c.penalty * p.eta) := by
  intro r l1 c l2 hcalls
  have hfin := penSolve_fin cs p penalty0 eps0 maxOuters inner x0
  have hle := (penLoop_fin cs p penalty0 eps0 x0 inner maxOuters _ (penInit_run cs p penalty0 eps0 x0 inner)).2.1
  have hcall := hfin.sched.call l1 c l2 hcalls
  have heta1 : (1 : α) ≤ p.eta := le_of_lt heta
  have hlen : l1.length ≤ maxOuters - 1 := by
    have h1 : r.calls.length = r.iters := hfin.calls_len
    have h2 : r.iters ≤ 0 + maxOuters := hle
    rw [hcalls] at h1
    simp only [List.length_append, List.length_cons] at h1
    omega
  have hpow : (1 : α) ≤ p.eta ^ l1.length := one_le_pow₀ heta1
  refine ⟨hcall.penalty_eq, ?_, ?_, ?_, ?_⟩
  · rw [hcall.penalty_eq]; exact mul_pos h0 (lt_of_lt_of_le one_pos hpow)
  · rw [hcall.penalty_eq]; nlinarith
  · rw [hcall.penalty_eq]
    exact mul_le_mul_of_nonneg_left (pow_le_pow_right₀ heta1 hlen) (le_of_lt h0)
  · intro d l3 hl2
    have hd := hfin.sched.call (l1 ++ [c]) d l3 (by rw [hcalls, hl2]; simp)
    rw [hd.penalty_eq, hcall.penalty_eq, List.length_append, List.length_singleton, pow_succ, mul_assoc]

/-- The constraint values stored in the state the solver returns are those of the function's constraints at the
    returned point (`bstate.update(cstate.x())` and the constructor both re-evaluate them: never stale), and the two
    feasibility residuals `kkt_optimality_test1/2` are derived from them — no hypothesis. -/
theorem pen_state_constraints_recomputed (cs : List (C α)) (p : PParams α) (penalty0 eps0 : α) (maxOuters : Nat)
    (inner : Nat → PState α → PAnswer α) (x0 : List α) :
    let r := penSolve cs p penalty0 eps0 maxOuters inner x0
    r.best.ceq = evalEq cs r.best.x ∧ r.best.cineq = evalIneq cs r.best.x ∧
    kktTest2 r.best = maxL ((evalEq cs r.best.x).map (fun h => |h|)) ∧
    kktTest1 r.best = maxL ((evalIneq cs r.best.x).map (fun g => max g 0)) ∧
    violation r.best = max (kktTest2 r.best) (kktTest1 r.best) := by
  intro r
  have hb := (penSolve_fin cs p penalty0 eps0 maxOuters inner x0).best_eq
  have e1 : r.best.ceq = evalEq cs r.best.x := by rw [hb]; rfl
  have e2 : r.best.cineq = evalIneq cs r.best.x := by rw [hb]; rfl
  refine ⟨e1, e2, ?_, ?_, ?_⟩
  · unfold kktTest2; rw [e1, map_absv]
  · unfold kktTest1; rw [e2]
    congr 1
    exact List.map_congr_left (fun g _ => cmax_eq_max g 0)
  · unfold violation kktTest1 kktTest2; rw [cmax_eq_max]

/-- The returned point is the last valid answer of the inner solver, `x0` when there was none: it is `x0` or the point
    `cstate.x()` of an answer `inner k s` with `cstate.valid()`. (Not the best point seen: the loop keeps no record of the
    earlier answers.) -/
theorem pen_returned_point (cs : List (C α)) (p : PParams α) (penalty0 eps0 : α) (maxOuters : Nat)
    (inner : Nat → PState α → PAnswer α) (x0 : List α) :
    let r := penSolve cs p penalty0 eps0 maxOuters inner x0
    r.best.x = lastValid x0 r.calls ∧
    (r.best.x = x0 ∨ ∃ (k : Nat) (s : PState α), k < r.iters ∧ (inner k s).iterOk = true ∧ r.best.x = (inner k s).cx) := by
  intro r
  have hfin := penSolve_fin cs p penalty0 eps0 maxOuters inner x0
  have hx : r.best.x = lastValid x0 r.calls := by rw [hfin.best_eq]; rfl
  refine ⟨hx, ?_⟩
  rcases lastValid_mem x0 r.calls with h | ⟨c, hc, hok, he⟩
  · exact Or.inl (hx.trans h)
  · right
    obtain ⟨l1, l2, hl⟩ := List.append_of_mem hc
    obtain ⟨s, hs1, _, _, _, hans⟩ := (hfin.sched.call l1 c l2 hl).answer
    refine ⟨l1.length, s, ?_, ?_, ?_⟩
    · rw [← hfin.calls_len, hl]; simp
    · rw [hans]; exact hok
    · rw [hans, hx, he]

/-- The number of outer iterations equals the number of calls of the inner solver and is at most `max_outer_iters`;
    status `max_iters` means that all of them were used, any other status that at least one call was made. -/
theorem pen_iteration_count (cs : List (C α)) (p : PParams α) (penalty0 eps0 : α) (maxOuters : Nat)
    (inner : Nat → PState α → PAnswer α) (x0 : List α) :
    let r := penSolve cs p penalty0 eps0 maxOuters inner x0
    r.calls.length = r.iters ∧ r.iters ≤ maxOuters ∧ (r.status = 0 → r.iters = maxOuters) ∧ (r.status ≠ 0 → 1 ≤ r.iters) := by
  intro r
  obtain ⟨hfin, h1, h2, h3⟩ := penLoop_fin cs p penalty0 eps0 x0 inner maxOuters _ (penInit_run cs p penalty0 eps0 x0 inner)
  refine ⟨hfin.calls_len, ?_, ?_, ?_⟩
  · have : r.iters ≤ 0 + maxOuters := h1
    omega
  · intro h
    have : r.iters = 0 + maxOuters := h2 h
    omega
  · intro h
    have : 0 < r.iters := h3 h
    omega

/-- Every call of the inner solver is started at the last valid answer before it (`x0` when none), in a loop state that
    carries the penalty parameter and the precision recorded for the call; its record is the oracle's answer. -/
theorem pen_start_points (cs : List (C α)) (p : PParams α) (penalty0 eps0 : α) (maxOuters : Nat)
    (inner : Nat → PState α → PAnswer α) (x0 : List α) :
    let r := penSolve cs p penalty0 eps0 maxOuters inner x0
    ∀ (l1 : List (PCall α)) (c : PCall α) (l2 : List (PCall α)), r.calls = l1 ++ c :: l2 →
      c.start = lastValid x0 l1 ∧ c.xconv = xConverged c.start c.cx p.eps ∧
      ∃ s : PState α, s.iters = l1.length ∧ s.penalty = c.penalty ∧ s.innerEps = c.innerEps ∧ s.best.x = c.start ∧
        inner l1.length s = ⟨c.cx, c.iterOk, c.bvalid⟩ := by
  intro r l1 c l2 hcalls
  have hcall := (penSolve_fin cs p penalty0 eps0 maxOuters inner x0).sched.call l1 c l2 hcalls
  exact ⟨hcall.start_eq, hcall.xconv_eq, hcall.answer⟩

/-- The status is `max_iters`, `converged` or `failed`. Only the last call can stop the loop: every call before it
    either failed (`!cstate.valid()`) or was valid, did not meet the stopping test and left a valid `bstate`.
    `failed` means: the last answer was valid, did not meet the stopping test, and `bstate` became invalid when updated
    to it. A failing inner solver alone never yields `failed`: the loop increases the penalty and tries again. -/
theorem pen_status_meaning (cs : List (C α)) (p : PParams α) (penalty0 eps0 : α) (maxOuters : Nat)
    (inner : Nat → PState α → PAnswer α) (x0 : List α) :
    let r := penSolve cs p penalty0 eps0 maxOuters inner x0
    (r.status = 0 ∨ r.status = 1 ∨ r.status = 2) ∧
    (r.status = 0 → ∀ c ∈ r.calls, NonStop c) ∧
    (r.status ≠ 0 → ∃ (init : List (PCall α)) (last : PCall α), r.calls = init ++ [last] ∧ (∀ c ∈ init, NonStop c) ∧
      last.iterOk = true ∧ (r.status = 1 ↔ last.xconv = true) ∧
      (r.status = 2 ↔ (last.xconv = false ∧ last.bvalid = false))) := by
  intro r
  have hfin := penSolve_fin cs p penalty0 eps0 maxOuters inner x0
  refine ⟨?_, fun h => (hfin.running h).1, fun h => ?_⟩
  · by_cases h : r.status = 0
    · exact Or.inl h
    · obtain ⟨_, _, _, _, _, _, _, hcase⟩ := hfin.stopped h
      rcases hcase with ⟨h1, _⟩ | ⟨h2, _⟩
      · exact Or.inr (Or.inl h1)
      · exact Or.inr (Or.inr h2)
  · obtain ⟨init, last, hcalls, hns, hok, _, _, hcase⟩ := hfin.stopped h
    refine ⟨init, last, hcalls, hns, hok, ?_, ?_⟩
    · rcases hcase with ⟨h1, hc⟩ | ⟨h2, hc, _⟩
      · exact ⟨fun _ => hc, fun _ => h1⟩
      · constructor
        · intro h1; rw [h1] at h2; cases h2
        · intro h1; rw [h1] at hc; cases hc
    · rcases hcase with ⟨h1, hc⟩ | ⟨h2, hc, hb⟩
      · constructor
        · intro h2; rw [h2] at h1; cases h1
        · intro h2; rw [h2.1] at hc; cases hc
      · exact ⟨fun _ => ⟨hc, hb⟩, fun _ => h2⟩

/-- The precision `solver::epsilon` of the inner solver at a call is `epsilon0 * epsilonK^m`, `m` = the number of valid
    answers before it (`more_precise` after every iteration that goes on with a valid answer): positive and at most
    `epsilon0` for `0 < epsilonK ≤ 1`. -/
theorem pen_inner_precision (cs : List (C α)) (p : PParams α) (penalty0 eps0 : α) (maxOuters : Nat)
    (inner : Nat → PState α → PAnswer α) (x0 : List α) (h0 : 0 < eps0) (hK0 : 0 < p.epsK) (hK1 : p.epsK ≤ 1) :
    let r := penSolve cs p penalty0 eps0 maxOuters inner x0
    ∀ (l1 : List (PCall α)) (c : PCall α) (l2 : List (PCall α)), r.calls = l1 ++ c :: l2 →
      c.innerEps = eps0 * p.epsK ^ (l1.countP (fun d => d.iterOk)) ∧ 0 < c.innerEps ∧ c.innerEps ≤ eps0 := by
  intro r l1 c l2 hcalls
  have hcall := (penSolve_fin cs p penalty0 eps0 maxOuters inner x0).sched.call l1 c l2 hcalls
  refine ⟨hcall.innerEps_eq, ?_, ?_⟩
  · rw [hcall.innerEps_eq]; exact mul_pos h0 (pow_pos hK0 _)
  · rw [hcall.innerEps_eq]
    have : p.epsK ^ (l1.countP (fun d => d.iterOk)) ≤ 1 := pow_le_one₀ (le_of_lt hK0) hK1
    nlinarith

/-- `solver_linear_penalty_t`: at its `k`-th call the inner solver is given the linear penalty function of the objective
    with the penalty parameter `penalty0 * eta^k` and is started at the last valid answer. -/
theorem linear_penalty_solver_inner_objective (f : List α → α × List α) (cs : List (C α)) (p : PParams α)
    (penalty0 eps0 : α) (maxOuters : Nat) (solver : InnerSolver α) (x0 : List α) :
    let r := linearPenaltySolve f cs p penalty0 eps0 maxOuters solver x0
    ∀ (l1 : List (PCall α)) (c : PCall α) (l2 : List (PCall α)), r.calls = l1 ++ c :: l2 →
      (⟨c.cx, c.iterOk, c.bvalid⟩ : PAnswer α)
        = solver l1.length (linearPenaltyAt (penalty0 * p.eta ^ l1.length) f cs) c.innerEps (lastValid x0 l1) := by
  intro r l1 c l2 hcalls
  have hcall := (penSolve_fin cs p penalty0 eps0 maxOuters
    (fun k s => solver k (linearPenaltyAt s.penalty f cs) s.innerEps s.best.x) x0).sched.call l1 c l2 hcalls
  obtain ⟨s, _, h2, h3, h4, h5⟩ := hcall.answer
  rw [← h5]
  simp only [h2, h3, h4, hcall.penalty_eq, hcall.start_eq]

/-- `solver_quadratic_penalty_t`: the same with the quadratic penalty function. -/
theorem quadratic_penalty_solver_inner_objective (f : List α → α × List α) (cs : List (C α)) (p : PParams α)
    (penalty0 eps0 : α) (maxOuters : Nat) (solver : InnerSolver α) (x0 : List α) :
    let r := quadraticPenaltySolve f cs p penalty0 eps0 maxOuters solver x0
    ∀ (l1 : List (PCall α)) (c : PCall α) (l2 : List (PCall α)), r.calls = l1 ++ c :: l2 →
      (⟨c.cx, c.iterOk, c.bvalid⟩ : PAnswer α)
        = solver l1.length (quadraticPenaltyAt (penalty0 * p.eta ^ l1.length) f cs) c.innerEps (lastValid x0 l1) := by
  intro r l1 c l2 hcalls
  have hcall := (penSolve_fin cs p penalty0 eps0 maxOuters
    (fun k s => solver k (quadraticPenaltyAt s.penalty f cs) s.innerEps s.best.x) x0).sched.call l1 c l2 hcalls
  obtain ⟨s, _, h2, h3, h4, h5⟩ := hcall.answer
  rw [← h5]
  simp only [h2, h3, h4, hcall.penalty_eq, hcall.start_eq]

/-! ### the augmented-Lagrangian loop: iteration count and returned point -/

/-- the augmented-Lagrangian loop makes at most `fuel` (= `max_outer_iters`) outer iterations, one inner solve each -/
theorem al_iteration_count (cs : List (C α)) (p : Params α) (inner : Nat → ALState α → Answer α) :
    ∀ (fuel : Nat) (s : ALState α), (alLoop cs p inner fuel s).iters ≤ s.iters + fuel := by
  intro fuel
  induction fuel with
  | zero => intro s; exact le_refl _
  | succ fuel ih =>
    intro s
    have hstep : (alStep cs p s (inner s.iters s)).1.iters = s.iters + 1 := by
      unfold alStep; simp only; split <;> rfl
    simp only [alLoop]
    split
    · omega
    · have := ih (alStep cs p s (inner s.iters s)).1
      omega

/-- The point the augmented-Lagrangian solver returns is `x0` or the point of a valid answer of the inner solver: any
    property of `x0` and of all valid answers holds of it. -/
theorem al_returned_point (cs : List (C α)) (p : Params α) (inner : Nat → ALState α → Answer α) (x0 : List α) (ro1 : α)
    (fuel : Nat) (P : List α → Prop) (h0 : P x0) (hans : ∀ k s, (inner k s).iterOk = true → P (inner k s).cstate.x) :
    P (alLoop cs p inner fuel (alInit cs x0 ro1)).best.x := by
  have key : ∀ (fuel : Nat) (s : ALState α), P s.best.x → P (alLoop cs p inner fuel s).best.x := by
    intro fuel
    induction fuel with
    | zero => intro s hs; exact hs
    | succ fuel ih =>
      intro s hs
      have hstep : P (alStep cs p s (inner s.iters s)).1.best.x := by
        have hb : P (if alImproved s (inner s.iters s) then mkState cs (inner s.iters s).cstate.x else s.best).x := by
          split
          · have hi : alImproved s (inner s.iters s) = true := ‹_›
            simp only [alImproved, Bool.and_eq_true] at hi
            exact hans _ _ hi.1
          · exact hs
        unfold alStep; simp only; split <;> exact hb
      simp only [alLoop]
      split
      · exact hstep
      · exact ih _ hstep
  exact key fuel _ h0

/-- The feasibility residuals `kkt_optimality_test1/2` of the state the augmented-Lagrangian solver returns are derived from
    the constraint values of the problem recomputed at the returned point — no hypothesis, every inner-solver behaviour. -/
theorem al_state_residuals (cs : List (C α)) (p : Params α) (inner : Nat → ALState α → Answer α) (x0 : List α) (ro1 : α)
    (fuel : Nat) :
    let r := alLoop cs p inner fuel (alInit cs x0 ro1)
    kktTest2 r.best = maxL ((evalEq cs r.best.x).map (fun h => |h|)) ∧
    kktTest1 r.best = maxL ((evalIneq cs r.best.x).map (fun g => max g 0)) ∧
    violation r.best = max (kktTest2 r.best) (kktTest1 r.best) := by
  intro r
  obtain ⟨e1, e2⟩ := al_state_constraints_recomputed cs p inner x0 ro1 fuel
  refine ⟨?_, ?_, ?_⟩
  · unfold kktTest2; rw [e1, map_absv]
  · unfold kktTest1; rw [e2]
    congr 1
    exact List.map_congr_left (fun g _ => cmax_eq_max g 0)
  · unfold violation kktTest1 kktTest2; rw [cmax_eq_max]

/-- The penalty parameter `ro` of the augmented-Lagrangian loop follows the documented schedule: in every state the loop
    reaches (any number of outer iterations) it is `ro1 * gamma^j` for some `j` not above the number of iterations made —
    positive, at least the starting value `ro1`, at most `ro1 * gamma^max_outer_iters` (`ro1 > 0`, `gamma > 1`). -/
theorem al_penalty_schedule (cs : List (C α)) (p : Params α) (hgamma : 1 < p.gamma)
    (inner : Nat → ALState α → Answer α) (x0 : List α) (ro1 : α) (hro : 0 < ro1) (fuel : Nat) :
    let r := alLoop cs p inner fuel (alInit cs x0 ro1)
    (∃ j, j ≤ r.iters ∧ r.ro = ro1 * p.gamma ^ j) ∧ 0 < r.ro ∧ ro1 ≤ r.ro ∧ r.ro ≤ ro1 * p.gamma ^ fuel := by
  have hg1 : (1 : α) ≤ p.gamma := le_of_lt hgamma
  have hstep : ∀ (s : ALState α) (a : Answer α), (∃ j, j ≤ s.iters ∧ s.ro = ro1 * p.gamma ^ j) →
      ∃ j, j ≤ (alStep cs p s a).1.iters ∧ (alStep cs p s a).1.ro = ro1 * p.gamma ^ j := by
    intro s a ⟨j, hj, hro⟩
    unfold alStep
    simp only
    split
    · exact ⟨j, by simp only; omega, hro⟩
    · simp only
      split
      · exact ⟨j + 1, by omega, by rw [hro, pow_succ]; ring⟩
      · exact ⟨j, by omega, hro⟩
  have key : ∀ (fuel : Nat) (s : ALState α), (∃ j, j ≤ s.iters ∧ s.ro = ro1 * p.gamma ^ j) →
      ∃ j, j ≤ (alLoop cs p inner fuel s).iters ∧ (alLoop cs p inner fuel s).ro = ro1 * p.gamma ^ j := by
    intro fuel
    induction fuel with
    | zero => intro s h; exact h
    | succ fuel ih =>
      intro s h
      have := hstep s (inner s.iters s) h
      simp only [alLoop]
      split
      · exact this
      · exact ih _ this
  intro r
  obtain ⟨j, hj, hr⟩ := key fuel (alInit cs x0 ro1) ⟨0, Nat.zero_le _, by simp [alInit]⟩
  have hit : r.iters ≤ 0 + fuel := al_iteration_count cs p inner fuel (alInit cs x0 ro1)
  have hj : j ≤ r.iters := hj
  have hr : r.ro = ro1 * p.gamma ^ j := hr
  have hpow : (1 : α) ≤ p.gamma ^ j := one_le_pow₀ hg1
  refine ⟨⟨j, hj, hr⟩, ?_, ?_, ?_⟩
  · rw [hr]; exact mul_pos hro (lt_of_lt_of_le one_pos hpow)
  · rw [hr]; nlinarith
  · rw [hr]
    exact mul_le_mul_of_nonneg_left (pow_le_pow_right₀ hg1 (by omega)) (le_of_lt hro)

/-! ### `solver_state_t`: the gradient of the Lagrangian, the KKT residuals, the stored multipliers -/

/-- `update_constraints` leaves in `m_lgx` the gradient of the Lagrangian `∇f + Σ_j meq_j ∇h_j + Σ_i mineq_i ∇g_i`,
    component by component — for any constraint list, under the sizes the constructor establishes. -/
theorem lagrangian_grad_eq_def (gx : List α) (es : List (Eval α)) (meq mineq : List α)
    (hes : ∀ e ∈ es, e.gc.length = gx.length) (hl : meq.length = (eqs es).length)
    (hm : mineq.length = (ineqs es).length) :
    ∃ r, lagrangianGrad gx es meq mineq = some r ∧ r.length = gx.length ∧
      ∀ i, r.getD i 0 = gx.getD i 0 + (List.zipWith (fun e m => m * e.gc.getD i 0) (eqs es) meq).sum
        + (List.zipWith (fun e m => m * e.gc.getD i 0) (ineqs es) mineq).sum := by
  obtain ⟨ps, h1, h2, h3⟩ := assignMult_spec gx.length es meq mineq hl hm hes
  obtain ⟨h4, h5⟩ := foldl_axpy_spec gx.length ps gx rfl h2
  refine ⟨_, by simp [lagrangianGrad, h1], h4, fun i => ?_⟩
  rw [h5 i, h3 i, add_assoc]

/-- `kkt_optimality_test3` vanishes exactly when every stored multiplier of an inequality is non-negative -/
theorem kkt3_eq_zero_iff (mineq : List α) : kkt3 mineq = 0 ↔ ∀ m ∈ mineq, 0 ≤ m := by
  unfold kkt3
  rw [maxL_eq_zero_iff (by
    intro x hx
    obtain ⟨m, _, rfl⟩ := List.mem_map.mp hx
    rw [cmax_eq_max]; exact le_max_right _ _)]
  constructor
  · intro h m hm
    have := h _ (List.mem_map.mpr ⟨m, hm, rfl⟩)
    rw [cmax_eq_max] at this
    have h2 : -m ≤ max (-m) 0 := le_max_left _ _
    linarith
  · intro h x hx
    obtain ⟨m, hm, rfl⟩ := List.mem_map.mp hx
    rw [cmax_eq_max]
    exact max_eq_right (by have := h m hm; linarith)

/-- `kkt_optimality_test() ≤ ε` makes the state an ε-KKT point of the stored quantities: every inequality at most `ε`,
    every equality within `ε`, every inequality multiplier at least `-ε`, complementarity `|mineq_i g_i| ≤ ε`, and every
    component of the Lagrangian gradient within `ε`. -/
theorem kktAll_le_imp_eps_kkt (ceq cineq mineq lgx : List α) (ε : α) (h : kktAll ceq cineq mineq lgx ≤ ε) :
    (∀ g ∈ cineq, g ≤ ε) ∧ (∀ v ∈ ceq, |v| ≤ ε) ∧ (∀ m ∈ mineq, -ε ≤ m) ∧
    (∀ (i : Nat) (h1 : i < mineq.length) (h2 : i < cineq.length), |mineq[i] * cineq[i]| ≤ ε) ∧
    (∀ l ∈ lgx, |l| ≤ ε) ∧ 0 ≤ ε := by
  unfold kktAll at h
  simp only [cmax_eq_max, max_le_iff] at h
  obtain ⟨⟨⟨⟨h1, h2⟩, h3⟩, h4⟩, h5⟩ := h
  refine ⟨?_, ?_, ?_, ?_, ?_, le_trans (maxL_nonneg _) h1⟩
  · intro g hg
    have : cmax g 0 ≤ kkt1 cineq := le_maxL (List.mem_map.mpr ⟨g, hg, rfl⟩)
    rw [cmax_eq_max] at this
    exact le_trans (le_max_left _ _) (le_trans this h1)
  · intro v hv
    have : absv v ≤ kkt2 ceq := le_maxL (List.mem_map.mpr ⟨v, hv, rfl⟩)
    rw [absv_eq_abs] at this
    exact le_trans this h2
  · intro m hm
    have : cmax (-m) 0 ≤ kkt3 mineq := le_maxL (List.mem_map.mpr ⟨m, hm, rfl⟩)
    rw [cmax_eq_max] at this
    have h6 : -m ≤ ε := le_trans (le_max_left _ _) (le_trans this h3)
    linarith
  · intro i i1 i2
    have hmem : absv (mineq[i] * cineq[i]) ∈ List.zipWith (fun m g => absv (m * g)) mineq cineq := by
      have hi : i < (List.zipWith (fun m g => absv (m * g)) mineq cineq).length := by simp [i1, i2]
      have := List.getElem_mem hi
      simpa [List.getElem_zipWith] using this
    have : absv (mineq[i] * cineq[i]) ≤ kkt4 mineq cineq := le_maxL hmem
    rw [absv_eq_abs] at this
    exact le_trans this h4
  · intro l hl
    have : absv l ≤ kkt5 lgx := le_maxL (List.mem_map.mpr ⟨l, hl, rfl⟩)
    rw [absv_eq_abs] at this
    exact le_trans this h5

/-- The state the augmented-Lagrangian solver returns stores one multiplier per constraint, those of the inequalities
    non-negative: its `kkt_optimality_test3` is exactly zero — for every inner-solver behaviour (`miu_max ≥ 0`). -/
theorem al_returned_multipliers (cs : List (C α)) (p : Params α) (hmiuMax : 0 ≤ p.miuMax)
    (inner : Nat → ALState α → Answer α) (x0 : List α) (ro1 : α) (fuel : Nat) :
    let r := alLoop cs p inner fuel (alInit cs x0 ro1)
    (∀ m ∈ r.bmineq, 0 ≤ m) ∧ kkt3 r.bmineq = 0 ∧ r.bmeq.length = countEq cs ∧ r.bmineq.length = countIneq cs := by
  intro r
  have h := alLoop_multInv cs p hmiuMax inner fuel _ (alInit_multInv cs x0 ro1)
  exact ⟨h.bmineq_nonneg, (kkt3_eq_zero_iff _).mpr h.bmineq_nonneg, h.bmeq_len, h.bmineq_len⟩

/-- with zero multipliers (every state the penalty solvers return: they never pass multipliers to `update`) the Lagrangian
    gradient is the objective's gradient and `test3 = test4 = 0` -/
theorem zero_multipliers_state (gx : List α) (es : List (Eval α)) (cineq : List α)
    (hes : ∀ e ∈ es, e.gc.length = gx.length) :
    (∃ r, lagrangianGrad gx es (zeros (eqs es).length) (zeros (ineqs es).length) = some r ∧ r.length = gx.length ∧
      ∀ i, r.getD i 0 = gx.getD i 0) ∧
    kkt3 (zeros (ineqs es).length : List α) = 0 ∧ kkt4 (zeros (ineqs es).length) cineq = 0 := by
  refine ⟨?_, ?_, ?_⟩
  · obtain ⟨r, h1, h2, h3⟩ := lagrangian_grad_eq_def gx es (zeros (eqs es).length) (zeros (ineqs es).length) hes
      (by simp [zeros]) (by simp [zeros])
    refine ⟨r, h1, h2, fun i => ?_⟩
    rw [h3 i, zipWith_sum_zero, zipWith_sum_zero]
    · ring
    · intro e _ m hm
      rw [List.eq_of_mem_replicate hm]; ring
    · intro e _ m hm
      rw [List.eq_of_mem_replicate hm]; ring
  · rw [kkt3_eq_zero_iff]
    intro m hm
    rw [List.eq_of_mem_replicate hm]
  · unfold kkt4
    apply le_antisymm _ (maxL_nonneg _)
    apply maxL_le (le_refl _)
    intro x hx
    obtain ⟨i, hi, rfl⟩ := List.mem_iff_getElem.mp hx
    simp only [List.getElem_zipWith, zeros, List.getElem_replicate, zero_mul, absv_eq_abs, abs_zero, le_refl]

/-! ### non-vacuity: concrete instances over `ℚ` -/

section Examples

/-- objective `f(x) = x₀ + x₁` -/
private def exF : List ℚ → ℚ × List ℚ := fun x => (x.getD 0 0 + x.getD 1 0, [1, 1])

/-- `h(x) = x₀ - 1 = 0` and `g(x) = x₁ - 0 ≤ 0` -/
private def exCs : List (C ℚ) := [.constant 1 0, .maximum 0 1]

-- at `x = (3, 2)` both constraints are violated (`h = 2`, `g = 2`)
example : linearPenaltyAt 2 exF exCs [3, 2] = (13, [3, 3]) := by decide +kernel
example : quadraticPenaltyAt 2 exF exCs [3, 2] = (21, [9, 9]) := by decide +kernel
example : augLagrangianAt 2 [1] [4] exF exCs [3, 2] = some (109 / 4, [6, 9]) := by decide +kernel
-- the assert of the constructor: a missing multiplier has no value
example : augLagrangianAt 2 [] [4] exF exCs [3, 2] = none := by decide +kernel
-- at `x = (1, -1)` the point is feasible: all three coincide with the objective (`f = 0`)
example : (linearPenaltyAt 2 exF exCs [1, -1]).1 = 0 ∧ quadraticPenaltyAt 2 exF exCs [1, -1] = (0, [1, 1]) ∧
    augLagrangianAt 2 [0] [0] exF exCs [1, -1] = some (0, [1, 1]) := by decide +kernel
-- the hypotheses of the `*_eq_def` theorems hold for this instance
example : ∀ k ∈ exCs, (k.vgrad [3, 2]).2.length = (exF [3, 2]).2.length := by decide +kernel
-- an incompatible constraint is refused by `constrain`
example : (constrain 2 ([.constant 1 2, .ballIneq [0, 0] 0, .linEq [1] 0, .maximum 0 1] : List (C ℚ))).length = 1 := by
  decide +kernel

/-- one inequality `g(x) = x₀ - 1 ≤ 0` in one dimension -/
private def exCs1 : List (C ℚ) := [.maximum 1 0]

private def exP : Params ℚ := ⟨1 / 10, 1 / 2, 10, 100, -100, 100⟩

/-- an inner solver that returns `3/2`, then `1`, then `1` (always valid states of the constrained function) -/
private def exInner : Nat → ALState ℚ → Answer ℚ := fun k _ =>
  ⟨mkState exCs1 [if k = 0 then 3 / 2 else 1], true, true⟩

/-- an inner solver that fails at once -/
private def exInnerBad : Nat → ALState ℚ → Answer ℚ := fun _ _ => ⟨mkState exCs1 [7], false, true⟩

-- the hypotheses of `al_converged_feasible` are satisfiable …
example : 1 < exP.gamma ∧ 0 ≤ exP.miuMax ∧ (∀ k s, Consistent exCs1 (exInner k s)) ∧ (0 : ℚ) < 1 :=
  ⟨by decide +kernel, by decide +kernel, fun _ _ => rfl, by decide +kernel⟩
-- … and its premise is reached by a run that needs three outer iterations (the criterion is below `epsilon` at the
-- second one, where the iterate still moves): from the infeasible `x0 = 3` (`g = 2`) the loop returns `x = 1`
example : (alLoop exCs1 exP exInner 10 (alInit exCs1 [3] 1)).status = 1 ∧
    (alLoop exCs1 exP exInner 10 (alInit exCs1 [3] 1)).iters = 3 ∧
    (alLoop exCs1 exP exInner 10 (alInit exCs1 [3] 1)).best.x = [1] ∧
    (alLoop exCs1 exP exInner 10 (alInit exCs1 [3] 1)).miu = [1 / 2] := by decide +kernel
-- the conclusion is not trivially true: the starting point violates it
example : ¬ (∀ g ∈ evalIneq exCs1 [3], max 0 g ≤ exP.eps) := by decide +kernel
-- with two outer iterations only the status stays `max_iters`, with a failing inner solver it is `failed`
example : (alLoop exCs1 exP exInner 2 (alInit exCs1 [3] 1)).status = 0 ∧
    (alLoop exCs1 exP exInnerBad 10 (alInit exCs1 [3] 1)).status = 2 := by decide +kernel

/-! #### the penalty solvers -/

private def exPP : PParams ℚ := ⟨1 / 1000, 5, 1 / 2⟩

/-- an inner solver that returns `3/2`, then `1`, then `1` (always valid) -/
private def exInnerP : Nat → PState ℚ → PAnswer ℚ := fun k _ => ⟨[if k = 0 then 3 / 2 else 1], true, true⟩

/-- an inner solver that fails twice and then returns `7` -/
private def exInnerPF : Nat → PState ℚ → PAnswer ℚ := fun k _ => ⟨[7], decide (2 ≤ k), true⟩

-- the hypotheses of `pen_penalty_schedule` and `pen_inner_precision` hold for the registered defaults
example : (0 : ℚ) < 10 ∧ 1 < exPP.eta ∧ (0 : ℚ) < 1 / 100 ∧ 0 < exPP.epsK ∧ exPP.epsK ≤ 1 := by decide +kernel
-- a run that converges at the third outer iteration: penalties 10, 50, 250; the starting points chain through the answers;
-- the stored constraint value is that of `g(x) = x - 1` at the returned point
example : (penSolve exCs1 exPP 10 (1 / 100) 20 exInnerP [3]).status = 1 ∧
    (penSolve exCs1 exPP 10 (1 / 100) 20 exInnerP [3]).iters = 3 ∧
    (penSolve exCs1 exPP 10 (1 / 100) 20 exInnerP [3]).best.x = [1] ∧
    (penSolve exCs1 exPP 10 (1 / 100) 20 exInnerP [3]).best.cineq = [0] ∧
    (penSolve exCs1 exPP 10 (1 / 100) 20 exInnerP [3]).calls.map (·.penalty) = [10, 50, 250] ∧
    (penSolve exCs1 exPP 10 (1 / 100) 20 exInnerP [3]).calls.map (·.start) = [[3], [3 / 2], [1]] ∧
    (penSolve exCs1 exPP 10 (1 / 100) 20 exInnerP [3]).calls.map (·.innerEps) = [1 / 100, 1 / 200, 1 / 400] := by
  decide +kernel
-- a failing inner solver: the penalty grows, `bstate` and the inner precision stay; the returned point is the last valid answer
example : (penSolve exCs1 exPP 10 (1 / 100) 20 exInnerPF [3]).status = 1 ∧
    (penSolve exCs1 exPP 10 (1 / 100) 20 exInnerPF [3]).iters = 4 ∧
    (penSolve exCs1 exPP 10 (1 / 100) 20 exInnerPF [3]).best.x = [7] ∧
    (penSolve exCs1 exPP 10 (1 / 100) 20 exInnerPF [3]).best.cineq = [6] ∧
    (penSolve exCs1 exPP 10 (1 / 100) 20 exInnerPF [3]).calls.map (·.start) = [[3], [3], [3], [7]] ∧
    (penSolve exCs1 exPP 10 (1 / 100) 20 exInnerPF [3]).calls.map (·.penalty) = [10, 50, 250, 1250] ∧
    (penSolve exCs1 exPP 10 (1 / 100) 20 exInnerPF [3]).calls.map (·.innerEps) = [1 / 100, 1 / 100, 1 / 100, 1 / 200] := by
  decide +kernel
-- an inner solver that always fails: all outer iterations are used, the status stays `max_iters`, `x0` is returned;
-- a valid answer that makes `bstate` invalid: `failed`; two outer iterations only: `max_iters`
example : (penSolve exCs1 exPP 10 (1 / 100) 20 (fun _ _ => ⟨[7], false, true⟩) [3]).status = 0 ∧
    (penSolve exCs1 exPP 10 (1 / 100) 20 (fun _ _ => ⟨[7], false, true⟩) [3]).iters = 20 ∧
    (penSolve exCs1 exPP 10 (1 / 100) 20 (fun _ _ => ⟨[7], false, true⟩) [3]).best.x = [3] ∧
    (penSolve exCs1 exPP 10 (1 / 100) 20 (fun _ _ => ⟨[7], true, false⟩) [3]).status = 2 ∧
    (penSolve exCs1 exPP 10 (1 / 100) 2 exInnerP [3]).status = 0 ∧
    (penSolve exCs1 exPP 10 (1 / 100) 2 exInnerP [3]).iters = 2 := by
  decide +kernel
-- `al_iteration_count`, `al_returned_point` on the run of the augmented-Lagrangian example
example : (alLoop exCs1 exP exInner 10 (alInit exCs1 [3] 1)).iters ≤ 0 + 10 ∧
    (alLoop exCs1 exP exInner 10 (alInit exCs1 [3] 1)).best.x = (exInner 1 (alInit exCs1 [3] 1)).cstate.x := by
  decide +kernel

-- the state the augmented-Lagrangian loop keeps is NOT the best one seen: `bstate` is replaced whenever the criterion improves on
-- that of the PREVIOUS iteration (`old_criterion = criterion` every iteration). Criteria 1/10, 1/2, 3/10 (from 2 at `x0`):
-- the loop returns the third answer (`|h| = 3/10`) although the first one had `|h| = 1/10`
example : (alLoop [.constant 1 0] exP (fun k _ => ⟨mkState [.constant 1 0] [if k = 0 then 11 / 10 else if k = 1 then 3 / 2 else 13 / 10],
      true, true⟩) 3 (alInit [.constant 1 0] [3] 1)).best.x = [13 / 10] ∧
    (alLoop [.constant 1 0] exP (fun k _ => ⟨mkState [.constant 1 0] [if k = 0 then 11 / 10 else if k = 1 then 3 / 2 else 13 / 10],
      true, true⟩) 3 (alInit [.constant 1 0] [3] 1)).status = 0 := by
  decide +kernel

-- `solver_state_t`: the Lagrangian gradient of `exCs` (h = x₀ - 1, g = x₁) at multipliers 3 and 2: ∇f + 3 ∇h + 2 ∇g; the residuals
example : lagrangianGrad [1, 1] (exCs.map (evalC [3, 2])) [3] [2] = some ([4, 3] : List ℚ) ∧
    lagrangianGrad [1, 1] (exCs.map (evalC [3, 2])) [] [2] = (none : Option (List ℚ)) ∧
    kkt3 ([2, -1 / 2] : List ℚ) = 1 / 2 ∧ kkt3 ([2, 0] : List ℚ) = 0 ∧ kkt4 ([2, 3] : List ℚ) [-1, 1 / 2] = 2 ∧
    kktAll ([1 / 10] : List ℚ) [-1, 1 / 5] [2, 0] [1 / 4, -1 / 3] = 2 := by decide +kernel
-- the hypotheses of `lagrangian_grad_eq_def` hold for this instance, and `kktAll ≤ ε` is reachable
example : (∀ e ∈ exCs.map (evalC [3, 2]), e.gc.length = ([1, 1] : List ℚ).length) ∧
    ([3] : List ℚ).length = (eqs (exCs.map (evalC [3, 2]))).length ∧
    kktAll ([1 / 10] : List ℚ) [-1, 1 / 5] [0, 0] [1 / 4, -1 / 3] ≤ 1 / 3 := by decide +kernel
-- the run of the augmented-Lagrangian example stores the multiplier estimate of the iteration that produced the returned point
example : (alLoop exCs1 exP exInner 10 (alInit exCs1 [3] 1)).bmineq = [1 / 2] ∧
    (alLoop exCs1 exP exInner 10 (alInit exCs1 [3] 1)).bmeq = [] := by decide +kernel

/-- objective `f(x) = x₀²` -/
private def exF2 : List ℚ → ℚ × List ℚ := fun x => (x.getD 0 0 * x.getD 0 0, [2 * x.getD 0 0])

/-- `g(x) = 1 - x₀ ≤ 0` -/
private def exCs2 : List (C ℚ) := [.minimum 1 0]

/-- `x = 1/2` minimises `x² + max(0, 1 - x)²` over all points -/
private theorem exQuadMin (ys : List ℚ) :
    (quadraticPenaltyAt 1 exF2 exCs2 [1 / 2]).1 ≤ (quadraticPenaltyAt 1 exF2 exCs2 ys).1 := by
  have h1 : (quadraticPenaltyAt 1 exF2 exCs2 [1 / 2]).1 = 1 / 2 := by decide +kernel
  rw [h1]
  simp only [quadraticPenaltyAt, quadraticPenalty, exCs2, List.map, evalC, C.vgrad, C.isEq, penaltyVgrad, Bool.false_or,
    exF2, quadraticOp]
  split
  · rename_i h
    simp only [decide_eq_true_eq] at h
    nlinarith [sq_nonneg (2 * ys.getD 0 0 - 1)]
  · rename_i h
    simp only [decide_eq_true_eq, not_lt] at h
    nlinarith

end Examples

/-- **`converged` does not imply feasibility for the penalty solvers.** A run of the quadratic-penalty solver inside the
    registered parameter domains, with an *exact* inner solver (its answer is a global minimiser of the penalty function it
    was given), on `min x²  s.t.  x ≥ 1`: started at `x0 = 1/2` — the minimiser of `x² + 1·max(0, 1 - x)²` — the first inner
    solve returns `x0`, the iterate has not moved, the status is `converged` after one outer iteration, and the returned
    point violates the constraint by `1/2`, five hundred times `epsilon`. -/
theorem pen_converged_not_feasible :
    ∃ (f : List ℚ → ℚ × List ℚ) (cs : List (C ℚ)) (p : PParams ℚ) (penalty0 eps0 : ℚ) (maxOuters : Nat)
      (solver : InnerSolver ℚ) (x0 : List ℚ),
      0 < p.eps ∧ p.eps ≤ 1 / 10 ∧ 1 < p.eta ∧ p.eta ≤ 1000 ∧ 0 < p.epsK ∧ p.epsK ≤ 1 ∧ 0 < penalty0 ∧ penalty0 ≤ 1000 ∧
      0 < eps0 ∧ eps0 ≤ 1 / 100 ∧ 10 ≤ maxOuters ∧ maxOuters ≤ 100 ∧
      (quadraticPenaltySolve f cs p penalty0 eps0 maxOuters solver x0).status = 1 ∧
      (quadraticPenaltySolve f cs p penalty0 eps0 maxOuters solver x0).iters = 1 ∧
      500 * p.eps ≤ violation (quadraticPenaltySolve f cs p penalty0 eps0 maxOuters solver x0).best ∧
      (∀ ys : List ℚ, (quadraticPenaltyAt penalty0 f cs (quadraticPenaltySolve f cs p penalty0 eps0 maxOuters solver x0).best.x).1
        ≤ (quadraticPenaltyAt penalty0 f cs ys).1) := by
  refine ⟨exF2, exCs2, ⟨1 / 1000, 5, 1 / 2⟩, 1, 1 / 1000000, 20, fun _ _ _ x => ⟨x, true, true⟩, [1 / 2],
    by decide +kernel, by decide +kernel, by decide +kernel, by decide +kernel, by decide +kernel, by decide +kernel,
    by decide +kernel, by decide +kernel, by decide +kernel, by decide +kernel, by decide, by decide,
    by decide +kernel, by decide +kernel, by decide +kernel, ?_⟩
  have hx : (quadraticPenaltySolve exF2 exCs2 ⟨1 / 1000, 5, 1 / 2⟩ 1 (1 / 1000000) 20 (fun _ _ _ x => ⟨x, true, true⟩)
      [1 / 2]).best.x = [1 / 2] := by decide +kernel
  rw [hx]
  exact exQuadMin


end NanoVerif.Penalty
