import NanoVerif.Proofs.AugLag
import Mathlib.Algebra.Order.Ring.Abs
import Mathlib.Algebra.Order.Field.Rat
import Mathlib.Tactic.NormNum
/-!
  C05 — property theorems: the penalty / augmented-Lagrangian functions of `Model/Penalty.lean` (the three `do_vgrad`s as
  coded) equal the defining formulas of the header comments of `include/nano/function/penalty.h` (value and gradient),
  coincide with the objective on feasible points, and the augmented-Lagrangian outer loop reports `converged` only at
  points that are feasible within `epsilon` — for every inner-solver behaviour.

  All statements are about exact arithmetic: `α` is an arbitrary linear ordered field. Helper lemmas and the
  specification-side definitions (`linearDef`, `quadraticDef`, `alDef`, `…Grad`, `Feasible`, `Consistent`) live in
  `Proofs/Penalty.lean` and `Proofs/AugLag.lean`.
-/
namespace NanoVerif.Penalty
open NanoVerif.Constraint
set_option linter.unusedSectionVars false

variable {α : Type} [Field α] [LinearOrder α] [IsStrictOrderedRing α]

/-! ### the constraint kinds -/

/-- `nano::valid` (three kinds coded directly, eight through `vgrad`) is the violation measure of the property:
    `|h(x)|` for an equality, `max(g(x), 0)` for an inequality. -/
theorem valid_eq_violation (c : C α) (x : List α) :
    c.valid x = if c.isEq then |(c.vgrad x).1| else max (c.vgrad x).1 0 := by
  cases c <;> simp only [C.valid, C.vgrad, C.isEq, absv_eq_abs, cmax_eq_max, if_true, Bool.false_eq_true, if_false]
  -- `constant_t` is coded as `fabs(value - x(dim))`, its function value as `x(dim) - value`
  exact abs_sub_comm _ _

/-- a point violates no constraint (`valid = 0`) iff the equality is zero / the inequality non-positive -/
theorem valid_eq_zero_iff (c : C α) (x : List α) :
    c.valid x = 0 ↔ if c.isEq then (c.vgrad x).1 = 0 else (c.vgrad x).1 ≤ 0 := by
  rw [valid_eq_violation]
  cases c.isEq
  · simp only [Bool.false_eq_true, if_false]
    constructor
    · intro h; rw [← h]; exact le_max_left _ _
    · intro h; exact max_eq_right h
  · simp only [if_true]; exact abs_eq_zero

/-- the gradient of a compatible constraint has the dimension of the function; for the functional kinds this is
    the contract of the wrapped function, named as the hypothesis `hf` -/
theorem vgrad_length_of_compatible (n : Nat) (c : C α) (x : List α) (hx : x.length = n)
    (hc : c.compatible n = true)
    (hf : ∀ size f, (c = .funEq size f ∨ c = .funIneq size f) → (f x).2.length = n) :
    (c.vgrad x).2.length = n := by
  cases c with
  | constant v d => simp [C.vgrad, unitVec, hx]
  | minimum v d => simp [C.vgrad, unitVec, hx]
  | maximum v d => simp [C.vgrad, unitVec, hx]
  | ballEq o r =>
    simp only [C.compatible, Bool.and_eq_true, decide_eq_true_eq] at hc
    simp [C.vgrad, ballVgrad, vsub, hx, hc.1]
  | ballIneq o r =>
    simp only [C.compatible, Bool.and_eq_true, decide_eq_true_eq] at hc
    simp [C.vgrad, ballVgrad, vsub, hx, hc.1]
  | linEq q r => simpa [C.vgrad, linVgrad, C.compatible] using hc
  | linIneq q r => simpa [C.vgrad, linVgrad, C.compatible] using hc
  | quadEq P q r =>
    simp only [C.compatible, Bool.and_eq_true, decide_eq_true_eq] at hc
    simp [C.vgrad, quadVgrad, vadd, matVec, matTVec, hx, hc.1.1, hc.2]
  | quadIneq P q r =>
    simp only [C.compatible, Bool.and_eq_true, decide_eq_true_eq] at hc
    simp [C.vgrad, quadVgrad, vadd, matVec, matTVec, hx, hc.1.1, hc.2]
  | funEq size f => exact hf size f (Or.inl rfl)
  | funIneq size f => exact hf size f (Or.inr rfl)

/-! ### the scalar outer functions: the coefficients used in the gradients are their (sub)derivatives -/

/-- `sgn` is a sub-gradient of `|·|` (also at `0`, where the code picks `+1`) -/
theorem abs_subgradient (y z : α) : |y| + sgn y * (z - y) ≤ |z| := by
  unfold sgn
  split
  · rw [abs_of_nonneg ‹_›]; have := le_abs_self z; linarith
  · rw [abs_of_neg (not_le.mp ‹_›)]; have := neg_abs_le z; linarith

/-- `step` is a sub-gradient of `max(0, ·)` (also at `0`, where the code picks `0`) -/
theorem hinge_subgradient (y z : α) : max 0 y + step y * (z - y) ≤ max 0 z := by
  unfold step
  split
  · rw [max_eq_right (le_of_lt ‹_›)]; have := le_max_right 0 z; linarith
  · rw [max_eq_left (not_lt.mp ‹_›)]; have := le_max_left 0 z; linarith

/-- `2 y` is the derivative of `y ↦ y^2`: the first-order remainder is exactly quadratic -/
theorem sq_derivative (y z : α) : z ^ 2 - y ^ 2 - 2 * y * (z - y) = (z - y) ^ 2 := by ring

/-- `2 max(0, y)` is the derivative of `y ↦ max(0, y)^2`: the first-order remainder is at most quadratic -/
theorem hinge_sq_derivative (y z : α) :
    |(max 0 z) ^ 2 - (max 0 y) ^ 2 - 2 * max 0 y * (z - y)| ≤ (z - y) ^ 2 := by
  rw [abs_le]
  rcases le_total 0 y with hy | hy <;> rcases le_total 0 z with hz | hz
  · rw [max_eq_right hy, max_eq_right hz]; constructor <;> nlinarith [sq_nonneg (z - y)]
  · rw [max_eq_right hy, max_eq_left hz]; constructor <;> nlinarith [sq_nonneg (z - y), sq_nonneg z, sq_nonneg y]
  · rw [max_eq_left hy, max_eq_right hz]; constructor <;> nlinarith [sq_nonneg (z - y), sq_nonneg z, sq_nonneg y]
  · rw [max_eq_left hy, max_eq_left hz]; constructor <;> nlinarith [sq_nonneg (z - y)]

/-- `ro max(0, y + miu/ro)` is the derivative of the augmented-Lagrangian term `y ↦ ro/2 max(0, y + miu/ro)^2` -/
theorem al_term_derivative (ro miu y z : α) (hro : 0 < ro) :
    |ro / 2 * (max 0 (z + miu / ro)) ^ 2 - ro / 2 * (max 0 (y + miu / ro)) ^ 2
        - ro * max 0 (y + miu / ro) * (z - y)| ≤ ro / 2 * (z - y) ^ 2 := by
  have h := hinge_sq_derivative (y + miu / ro) (z + miu / ro)
  have e : z + miu / ro - (y + miu / ro) = z - y := by ring
  rw [e] at h
  have hr : 0 ≤ ro / 2 := by linarith
  have : ro / 2 * (max 0 (z + miu / ro)) ^ 2 - ro / 2 * (max 0 (y + miu / ro)) ^ 2
        - ro * max 0 (y + miu / ro) * (z - y)
      = ro / 2 * ((max 0 (z + miu / ro)) ^ 2 - (max 0 (y + miu / ro)) ^ 2 - 2 * max 0 (y + miu / ro) * (z - y)) := by
    ring
  rw [this, abs_mul, abs_of_nonneg hr]
  exact mul_le_mul_of_nonneg_left h hr

/-! ### the three penalty functions equal their definitions (value and gradient) -/

/-- `linear_penalty_function_t::do_vgrad` returns `f(x) + c Σ_j |h_j(x)| + c Σ_i max(0, g_i(x))` and the gradient
    `∇f + c Σ_j sgn(h_j) ∇h_j + c Σ_i step(g_i) ∇g_i` — for any list of evaluated constraints and any `c`. -/
theorem linear_penalty_eq_def (c : α) (f : α × List α) (es : List (Eval α))
    (hes : ∀ e ∈ es, e.gc.length = f.2.length) :
    (linearPenalty c f es).1 = linearDef c f.1 es ∧
    (linearPenalty c f es).2.length = f.2.length ∧
    ∀ i, (linearPenalty c f es).2.getD i 0 = linearDefGrad c f.2 es i := by
  have h := penaltyVgrad_spec (fun fc => c * absv fc) (fun fc => c * (if 0 ≤ fc then 1 else -1)) f.2.length es f.1 f.2
    rfl hes
  obtain ⟨h1, h2, h3⟩ := h
  refine ⟨?_, h2, fun i => ?_⟩
  · show (penaltyVgrad (linearOp c) f.1 f.2 es).1 = _
    unfold linearOp linearDef
    rw [h1, ← sum_map_mul_left, ← sum_map_mul_left]
    congr 1
    · congr 1
      exact sum_map_congr _ _ _ (fun e _ => by rw [absv_eq_abs])
    · apply sum_map_congr
      intro e _
      split
      · rw [absv_eq_abs, abs_of_pos ‹_›, max_eq_right (le_of_lt ‹_›)]
      · rw [max_eq_left (not_lt.mp ‹_›), mul_zero]
  · show (penaltyVgrad (linearOp c) f.1 f.2 es).2.getD i 0 = _
    unfold linearOp linearDefGrad
    rw [h3 i, ← sum_map_mul_left, ← sum_map_mul_left]
    congr 1
    · congr 1
      exact sum_map_congr _ _ _ (fun e _ => by unfold sgn; ring)
    · apply sum_map_congr
      intro e _
      unfold step
      split
      · rw [if_pos (le_of_lt ‹_›)]; ring
      · ring

/-- `quadratic_penalty_function_t::do_vgrad` returns `f(x) + c Σ_j h_j(x)^2 + c Σ_i max(0, g_i(x))^2` and the gradient
    `∇f + c Σ_j 2 h_j ∇h_j + c Σ_i 2 max(0, g_i) ∇g_i`. -/
theorem quadratic_penalty_eq_def (c : α) (f : α × List α) (es : List (Eval α))
    (hes : ∀ e ∈ es, e.gc.length = f.2.length) :
    (quadraticPenalty c f es).1 = quadraticDef c f.1 es ∧
    (quadraticPenalty c f es).2.length = f.2.length ∧
    ∀ i, (quadraticPenalty c f es).2.getD i 0 = quadraticDefGrad c f.2 es i := by
  have h := penaltyVgrad_spec (fun fc => c * fc * fc) (fun fc => c * 2 * fc) f.2.length es f.1 f.2 rfl hes
  obtain ⟨h1, h2, h3⟩ := h
  refine ⟨?_, h2, fun i => ?_⟩
  · show (penaltyVgrad (quadraticOp c) f.1 f.2 es).1 = _
    unfold quadraticOp quadraticDef
    rw [h1, ← sum_map_mul_left, ← sum_map_mul_left]
    congr 1
    · congr 1
      exact sum_map_congr _ _ _ (fun e _ => by ring)
    · apply sum_map_congr
      intro e _
      split
      · rw [max_eq_right (le_of_lt ‹_›)]; ring
      · rw [max_eq_left (not_lt.mp ‹_›)]; ring
  · show (penaltyVgrad (quadraticOp c) f.1 f.2 es).2.getD i 0 = _
    unfold quadraticOp quadraticDefGrad
    rw [h3 i, ← sum_map_mul_left, ← sum_map_mul_left]
    congr 1
    · congr 1
      exact sum_map_congr _ _ _ (fun e _ => by ring)
    · apply sum_map_congr
      intro e _
      split
      · rw [max_eq_right (le_of_lt ‹_›)]; ring
      · rw [max_eq_left (not_lt.mp ‹_›)]; ring

/-- `augmented_lagrangian_function_t::do_vgrad` returns
    `f(x) + ro/2 Σ_j (h_j(x) + lambda_j/ro)^2 + ro/2 Σ_i max(0, g_i(x) + miu_i/ro)^2` and the gradient
    `∇f + ro Σ_j (h_j + lambda_j/ro) ∇h_j + ro Σ_i max(0, g_i + miu_i/ro) ∇g_i`, under exactly the constructor's asserts
    (one `lambda` per equality, one `miu` per inequality); any `ro` (the formulas agree even for `ro ≤ 0`). -/
theorem al_eq_def (ro : α) (lambda miu : List α) (f : α × List α) (es : List (Eval α))
    (hes : ∀ e ∈ es, e.gc.length = f.2.length)
    (hl : lambda.length = (eqs es).length) (hm : miu.length = (ineqs es).length) :
    ∃ r, augLagrangian ro lambda miu f es = some r ∧
      r.1 = alDef ro lambda miu f.1 es ∧ r.2.length = f.2.length ∧
      ∀ i, r.2.getD i 0 = alDefGrad ro lambda miu f.2 es i :=
  alVgrad_spec ro f.2.length es lambda miu f.1 f.2 rfl hes hl hm

/-- the error branch of `al_eq_def`: a multiplier vector of the wrong size (the constructor's `assert`) has no value -/
theorem al_none_of_size_mismatch (ro : α) (lambda miu : List α) (f : α × List α) (es : List (Eval α))
    (h : lambda.length ≠ (eqs es).length ∨ miu.length ≠ (ineqs es).length) :
    augLagrangian ro lambda miu f es = none :=
  alVgrad_none ro es lambda miu f.1 f.2 h

/-! ### the same for a list of constraints of the modelled kinds: the header formulas verbatim -/

theorem eqs_map_evalC (φ : α → α) (cs : List (C α)) (x : List α) :
    (eqs (cs.map (evalC x))).map (fun e => φ e.fc) = (evalEq cs x).map φ := by
  induction cs with
  | nil => simp [eqs, evalEq]
  | cons c cs ih =>
    simp only [List.map_cons, eqs_cons]
    cases h : c.isEq
    · have : (evalC x c).isEq = false := h
      simp only [this, Bool.false_eq_true, if_false, ih]
      simp [evalEq, h]
    · have : (evalC x c).isEq = true := h
      simp only [this, if_true, List.map_cons, ih]
      simp [evalEq, h, evalC]

theorem ineqs_map_evalC (φ : α → α) (cs : List (C α)) (x : List α) :
    (ineqs (cs.map (evalC x))).map (fun e => φ e.fc) = (evalIneq cs x).map φ := by
  induction cs with
  | nil => simp [ineqs, evalIneq]
  | cons c cs ih =>
    simp only [List.map_cons, ineqs_cons]
    cases h : c.isEq
    · have : (evalC x c).isEq = false := h
      simp only [this, Bool.false_eq_true, if_false, List.map_cons, ih]
      simp [evalIneq, h, evalC]
    · have : (evalC x c).isEq = true := h
      simp only [this, if_true, ih]
      simp [evalIneq, h]

/-- value of the linear penalty of `f` with the constraints `cs` at `x`, with `h = evalEq cs x`, `g = evalIneq cs x` -/
theorem linear_penalty_value_eq_header (c : α) (f : List α → α × List α) (cs : List (C α)) (x : List α)
    (hlen : ∀ k ∈ cs, (k.vgrad x).2.length = (f x).2.length) :
    (linearPenaltyAt c f cs x).1
      = (f x).1 + c * ((evalEq cs x).map (fun h => |h|)).sum + c * ((evalIneq cs x).map (fun g => max 0 g)).sum := by
  have h := (linear_penalty_eq_def c (f x) (cs.map (evalC x)) (by
    intro e he
    obtain ⟨k, hk, rfl⟩ := List.mem_map.mp he
    exact hlen k hk)).1
  unfold linearPenaltyAt
  rw [h, linearDef, eqs_map_evalC (fun h => |h|), ineqs_map_evalC (fun g => max 0 g)]

/-- value of the quadratic penalty of `f` with the constraints `cs` at `x` -/
theorem quadratic_penalty_value_eq_header (c : α) (f : List α → α × List α) (cs : List (C α)) (x : List α)
    (hlen : ∀ k ∈ cs, (k.vgrad x).2.length = (f x).2.length) :
    (quadraticPenaltyAt c f cs x).1
      = (f x).1 + c * ((evalEq cs x).map (fun h => h ^ 2)).sum
          + c * ((evalIneq cs x).map (fun g => (max 0 g) ^ 2)).sum := by
  have h := (quadratic_penalty_eq_def c (f x) (cs.map (evalC x)) (by
    intro e he
    obtain ⟨k, hk, rfl⟩ := List.mem_map.mp he
    exact hlen k hk)).1
  unfold quadraticPenaltyAt
  rw [h, quadraticDef, eqs_map_evalC (fun h => h ^ 2), ineqs_map_evalC (fun g => (max 0 g) ^ 2)]

/-! ### the penalties coincide with the objective on feasible points -/

theorem feasible_eqs {es : List (Eval α)} (h : Feasible es) : ∀ e ∈ eqs es, e.fc = 0 := by
  intro e he
  obtain ⟨hmem, heq⟩ := mem_eqs he
  have := h e hmem
  rwa [heq, if_pos rfl] at this

theorem feasible_ineqs {es : List (Eval α)} (h : Feasible es) : ∀ e ∈ ineqs es, e.fc ≤ 0 := by
  intro e he
  obtain ⟨hmem, heq⟩ := mem_ineqs he
  have := h e hmem
  rwa [heq, if_neg (by simp)] at this

theorem zipWith_sum_zero {β γ : Type} (f : β → γ → α) :
    ∀ (l1 : List β) (l2 : List γ), (∀ b ∈ l1, ∀ c ∈ l2, f b c = 0) → (List.zipWith f l1 l2).sum = 0
  | [], _, _ => by simp
  | _ :: _, [], _ => by simp
  | b :: l1, c :: l2, h => by
    simp only [List.zipWith_cons_cons, List.sum_cons]
    rw [h b (by simp) c (by simp), zipWith_sum_zero f l1 l2 (fun b' hb' c' hc' => h b' (by simp [hb']) c' (by simp [hc'])),
      add_zero]

/-- At a feasible point (every `h_j = 0`, every `g_i ≤ 0`) the linear and the quadratic penalty return the objective's
    value for every penalty parameter, the augmented Lagrangian does so with zero multipliers; the quadratic penalty and
    the augmented Lagrangian also return the objective's gradient (the linear penalty adds the sub-gradient `c ∇h_j` of
    `c |h_j|` at `h_j = 0`, as coded). -/
theorem penalty_eq_objective_on_feasible (c ro : α) (lambda miu : List α) (f : α × List α) (es : List (Eval α))
    (hes : ∀ e ∈ es, e.gc.length = f.2.length) (hfeas : Feasible es)
    (hl : lambda.length = (eqs es).length) (hm : miu.length = (ineqs es).length)
    (hl0 : ∀ l ∈ lambda, l = 0) (hm0 : ∀ m ∈ miu, m = 0) :
    (linearPenalty c f es).1 = f.1 ∧
    (quadraticPenalty c f es).1 = f.1 ∧ (∀ i, (quadraticPenalty c f es).2.getD i 0 = f.2.getD i 0) ∧
    ∃ r, augLagrangian ro lambda miu f es = some r ∧ r.1 = f.1 ∧ ∀ i, r.2.getD i 0 = f.2.getD i 0 := by
  have he := feasible_eqs hfeas
  have hi := feasible_ineqs hfeas
  refine ⟨?_, ?_, ?_, ?_⟩
  · rw [(linear_penalty_eq_def c f es hes).1, linearDef,
      sum_map_zero _ _ (fun e h => by rw [he e h, abs_zero]),
      sum_map_zero _ _ (fun e h => max_eq_left (hi e h))]
    ring
  · rw [(quadratic_penalty_eq_def c f es hes).1, quadraticDef,
      sum_map_zero _ _ (fun e h => by rw [he e h]; ring),
      sum_map_zero _ _ (fun e h => by rw [max_eq_left (hi e h)]; ring)]
    ring
  · intro i
    rw [(quadratic_penalty_eq_def c f es hes).2.2 i, quadraticDefGrad,
      sum_map_zero _ _ (fun e h => by rw [he e h]; ring),
      sum_map_zero _ _ (fun e h => by rw [max_eq_left (hi e h)]; ring)]
    ring
  · obtain ⟨r, hr, h1, _, h3⟩ := al_eq_def ro lambda miu f es hes hl hm
    refine ⟨r, hr, ?_, fun i => ?_⟩
    · rw [h1, alDef,
        zipWith_sum_zero _ _ _ (fun e h l hl' => by rw [he e h, hl0 l hl']; simp),
        zipWith_sum_zero _ _ _ (fun e h m hm' => by rw [hm0 m hm', zero_div, add_zero, max_eq_left (hi e h)]; ring)]
      ring
    · rw [h3 i, alDefGrad,
        zipWith_sum_zero _ _ _ (fun e h l hl' => by rw [he e h, hl0 l hl']; simp),
        zipWith_sum_zero _ _ _ (fun e h m hm' => by rw [hm0 m hm', zero_div, add_zero, max_eq_left (hi e h)]; ring)]
      ring

/-! ### the outer loop of the augmented-Lagrangian solver -/

/-- `make_criterion` dominates the feasibility residual whenever `miu ≥ 0` and `ro > 0`:
    `max(max_j |h_j|, max_i max(g_i, 0)) ≤ max(|h|_inf, |max(g, -miu/ro)|_inf)`. -/
theorem criterion_ge_violation (c : St α) (miu : List α) (ro : α) (hro : 0 < ro)
    (hm : ∀ m ∈ miu, 0 ≤ m) (hlen : miu.length = c.cineq.length) :
    violation c ≤ criterion c miu ro :=
  criterion_ge_violation_st c miu ro hro hm hlen

/-- `make_ro1` returns a positive penalty parameter (`std::clamp` to `[ro_min, ro_max]`, `0 < ro_min ≤ ro_max`) -/
theorem makeRo1_pos (fx : α) (s : St α) (tiny roMin roMax : α) (h0 : 0 < roMin) (h1 : roMin ≤ roMax) :
    0 < makeRo1 fx s tiny roMin roMax := by
  unfold makeRo1 clamp
  simp only
  split
  · exact h0
  · split
    · exact lt_of_lt_of_le h0 h1
    · exact lt_of_lt_of_le h0 (not_lt.mp ‹_›)

/-- one step keeps the multipliers of the inequalities non-negative, whatever the oracle answers -/
theorem alStep_miu_nonneg (cs : List (C α)) (p : Params α) (hmiuMax : 0 ≤ p.miuMax) (s : ALState α) (a : Answer α)
    (hs : ∀ m ∈ s.miu, 0 ≤ m) : ∀ m ∈ (alStep cs p s a).1.miu, 0 ≤ m := by
  unfold alStep
  simp only
  split
  · exact hs
  · intro m hm
    obtain ⟨i, hi, rfl⟩ := List.mem_iff_getElem.mp hm
    simp only [List.getElem_zipWith, cmin_eq_min, cmax_eq_max]
    exact le_min (le_max_right _ _) hmiuMax

/-- one step keeps `bstate` a state of the constrained function, whatever the oracle answers -/
theorem alStep_best_eq (cs : List (C α)) (p : Params α) (s : ALState α) (a : Answer α)
    (hs : s.best = mkState cs s.best.x) : (alStep cs p s a).1.best = mkState cs (alStep cs p s a).1.best.x := by
  unfold alStep
  simp only
  split <;> (split <;> first | rfl | exact hs)

/-- The multiplier estimates `miu` of the inequalities are non-negative in every state the outer loop reaches — for
    every inner-solver behaviour (`miu_max ≥ 0` is the parameter's domain). -/
theorem miu_nonneg_invariant (cs : List (C α)) (p : Params α) (hmiuMax : 0 ≤ p.miuMax)
    (inner : Nat → ALState α → Answer α) (x0 : List α) (ro1 : α) (fuel : Nat) :
    ∀ m ∈ (alLoop cs p inner fuel (alInit cs x0 ro1)).miu, 0 ≤ m := by
  have key : ∀ (fuel : Nat) (s : ALState α), (∀ m ∈ s.miu, 0 ≤ m) → ∀ m ∈ (alLoop cs p inner fuel s).miu, 0 ≤ m := by
    intro fuel
    induction fuel with
    | zero => intro s hs; exact hs
    | succ fuel ih =>
      intro s hs
      have := alStep_miu_nonneg cs p hmiuMax s (inner s.iters s) hs
      simp only [alLoop]
      split
      · exact this
      · exact ih _ this
  apply key
  intro m hm
  simp only [alInit, List.mem_map] at hm
  obtain ⟨_, _, rfl⟩ := hm
  exact le_refl _

/-- The constraint values stored in the state the solver returns are those of the function's constraints at the
    returned point (`bstate.update` re-evaluates them) — for every inner-solver behaviour, no hypothesis. -/
theorem al_state_constraints_recomputed (cs : List (C α)) (p : Params α)
    (inner : Nat → ALState α → Answer α) (x0 : List α) (ro1 : α) (fuel : Nat) :
    let r := alLoop cs p inner fuel (alInit cs x0 ro1)
    r.best.ceq = evalEq cs r.best.x ∧ r.best.cineq = evalIneq cs r.best.x := by
  have key : ∀ (fuel : Nat) (s : ALState α), s.best = mkState cs s.best.x →
      (alLoop cs p inner fuel s).best = mkState cs (alLoop cs p inner fuel s).best.x := by
    intro fuel
    induction fuel with
    | zero => intro s hs; exact hs
    | succ fuel ih =>
      intro s hs
      have := alStep_best_eq cs p s (inner s.iters s) hs
      simp only [alLoop]
      split
      · exact this
      · exact ih _ this
  have h := key fuel (alInit cs x0 ro1) rfl
  intro r
  constructor
  · show r.best.ceq = (mkState cs r.best.x).ceq
    rw [← h]
  · show r.best.cineq = (mkState cs r.best.x).cineq
    rw [← h]

/-- Loop invariant: the feasibility residual of `bstate` never exceeds `old_criterion`, in every state the outer loop
    reaches (also the stopped ones), for every inner solver whose answers are states of the constrained function. -/
theorem al_best_violation_le_criterion (cs : List (C α)) (p : Params α) (hgamma : 1 < p.gamma)
    (hmiuMax : 0 ≤ p.miuMax) (inner : Nat → ALState α → Answer α) (hinner : ∀ k s, Consistent cs (inner k s))
    (x0 : List α) (ro1 : α) (hro : 0 < ro1) (fuel : Nat) :
    violation (alLoop cs p inner fuel (alInit cs x0 ro1)).best ≤ (alLoop cs p inner fuel (alInit cs x0 ro1)).oldCrit :=
  (alLoop_inv cs p hgamma hmiuMax inner hinner fuel _ (alInit_inv cs x0 ro1 hro)).2.2.1

/-- **For every inner-solver behaviour** (`inner` is an arbitrary function of the iteration number and the loop state
    whose answers are states of the constrained function), every objective, every starting point and every number of
    outer iterations: if the augmented-Lagrangian loop ends with status `converged`, then at the returned point every
    equality satisfies `|h_j(x)| ≤ epsilon` and every inequality `max(0, g_i(x)) ≤ epsilon` — the values being those of
    the function's constraints evaluated at the returned point. -/
theorem al_converged_feasible (cs : List (C α)) (p : Params α) (hgamma : 1 < p.gamma) (hmiuMax : 0 ≤ p.miuMax)
    (inner : Nat → ALState α → Answer α) (hinner : ∀ k s, Consistent cs (inner k s))
    (x0 : List α) (ro1 : α) (hro : 0 < ro1) (fuel : Nat) :
    let r := alLoop cs p inner fuel (alInit cs x0 ro1)
    r.status = 1 →
      (∀ h ∈ evalEq cs r.best.x, |h| ≤ p.eps) ∧ (∀ g ∈ evalIneq cs r.best.x, max 0 g ≤ p.eps) := by
  intro r hst
  have h := alLoop_inv cs p hgamma hmiuMax inner hinner fuel _ (alInit_inv cs x0 ro1 hro)
  have hv := violation_le_iff _ _ (h.1 hst)
  have hb := h.2.1
  have e1 : r.best.ceq = evalEq cs r.best.x := by
    show r.best.ceq = (mkState cs r.best.x).ceq
    rw [← hb]
  have e2 : r.best.cineq = evalIneq cs r.best.x := by
    show r.best.cineq = (mkState cs r.best.x).cineq
    rw [← hb]
  rw [← e1, ← e2]
  exact hv

/-- the same with the inner solver reduced to what it is free to choose — the point it returns and the two validity
    flags — and the starting penalty computed by `make_ro1` -/
theorem al_converged_feasible_solver (cs : List (C α)) (p : Params α) (hgamma : 1 < p.gamma) (hmiuMax : 0 ≤ p.miuMax)
    (innerX : Nat → ALState α → List α × Bool × Bool)
    (x0 : List α) (fx0 tiny roMin roMax : α) (h0 : 0 < roMin) (h1 : roMin ≤ roMax) (fuel : Nat) :
    let inner : Nat → ALState α → Answer α :=
      fun k s => ⟨mkState cs (innerX k s).1, (innerX k s).2.1, (innerX k s).2.2⟩
    let r := alLoop cs p inner fuel (alInit cs x0 (makeRo1 fx0 (mkState cs x0) tiny roMin roMax))
    r.status = 1 →
      (∀ h ∈ evalEq cs r.best.x, |h| ≤ p.eps) ∧ (∀ g ∈ evalIneq cs r.best.x, max 0 g ≤ p.eps) := by
  intro inner
  exact al_converged_feasible cs p hgamma hmiuMax inner (fun _ _ => rfl) x0 _
    (makeRo1_pos fx0 _ tiny roMin roMax h0 h1) fuel

/-! ### non-vacuity: concrete instances over `ℚ` -/

section Examples

/-- objective `f(x) = x₀ + x₁` -/
private def exF : List ℚ → ℚ × List ℚ := fun x => (x.getD 0 0 + x.getD 1 0, [1, 1])

/-- `h(x) = x₀ - 1 = 0` and `g(x) = x₁ - 0 ≤ 0` -/
private def exCs : List (C ℚ) := [.constant 1 0, .maximum 0 1]

-- at `x = (3, 2)` both constraints are violated (`h = 2`, `g = 2`)
example : linearPenaltyAt 2 exF exCs [3, 2] = (13, [3, 3]) := by decide +kernel
example : quadraticPenaltyAt 2 exF exCs [3, 2] = (21, [9, 9]) := by decide +kernel
example : augLagrangianAt 2 [1] [4] exF exCs [3, 2] = some (109 / 4, [6, 9]) := by decide +kernel
-- the assert of the constructor: a missing multiplier has no value
example : augLagrangianAt 2 [] [4] exF exCs [3, 2] = none := by decide +kernel
-- at `x = (1, -1)` the point is feasible: all three coincide with the objective (`f = 0`)
example : (linearPenaltyAt 2 exF exCs [1, -1]).1 = 0 ∧ quadraticPenaltyAt 2 exF exCs [1, -1] = (0, [1, 1]) ∧
    augLagrangianAt 2 [0] [0] exF exCs [1, -1] = some (0, [1, 1]) := by decide +kernel
-- the hypotheses of the `*_eq_def` theorems hold for this instance
example : ∀ k ∈ exCs, (k.vgrad [3, 2]).2.length = (exF [3, 2]).2.length := by decide +kernel
-- an incompatible constraint is refused by `constrain`
example : (constrain 2 ([.constant 1 2, .ballIneq [0, 0] 0, .linEq [1] 0, .maximum 0 1] : List (C ℚ))).length = 1 := by
  decide +kernel

/-- one inequality `g(x) = x₀ - 1 ≤ 0` in one dimension -/
private def exCs1 : List (C ℚ) := [.maximum 1 0]

private def exP : Params ℚ := ⟨1 / 10, 1 / 2, 10, 100, -100, 100⟩

/-- an inner solver that returns `3/2`, then `1`, then `1` (always valid states of the constrained function) -/
private def exInner : Nat → ALState ℚ → Answer ℚ := fun k _ =>
  ⟨mkState exCs1 [if k = 0 then 3 / 2 else 1], true, true⟩

/-- an inner solver that fails at once -/
private def exInnerBad : Nat → ALState ℚ → Answer ℚ := fun _ _ => ⟨mkState exCs1 [7], false, true⟩

-- the hypotheses of `al_converged_feasible` are satisfiable …
example : 1 < exP.gamma ∧ 0 ≤ exP.miuMax ∧ (∀ k s, Consistent exCs1 (exInner k s)) ∧ (0 : ℚ) < 1 :=
  ⟨by decide +kernel, by decide +kernel, fun _ _ => rfl, by decide +kernel⟩
-- … and its premise is reached by a run that needs three outer iterations (the criterion is below `epsilon` at the
-- second one, where the iterate still moves): from the infeasible `x0 = 3` (`g = 2`) the loop returns `x = 1`
example : (alLoop exCs1 exP exInner 10 (alInit exCs1 [3] 1)).status = 1 ∧
    (alLoop exCs1 exP exInner 10 (alInit exCs1 [3] 1)).iters = 3 ∧
    (alLoop exCs1 exP exInner 10 (alInit exCs1 [3] 1)).best.x = [1] ∧
    (alLoop exCs1 exP exInner 10 (alInit exCs1 [3] 1)).miu = [1 / 2] := by decide +kernel
-- the conclusion is not trivially true: the starting point violates it
example : ¬ (∀ g ∈ evalIneq exCs1 [3], max 0 g ≤ exP.eps) := by decide +kernel
-- with two outer iterations only the status stays `max_iters`, with a failing inner solver it is `failed`
example : (alLoop exCs1 exP exInner 2 (alInit exCs1 [3] 1)).status = 0 ∧
    (alLoop exCs1 exP exInnerBad 10 (alInit exCs1 [3] 1)).status = 2 := by decide +kernel

end Examples

end NanoVerif.Penalty
