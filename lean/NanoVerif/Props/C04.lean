import NanoVerif.Proofs.ProgramStart
import Mathlib.Algebra.Order.Field.Rat
import Mathlib.Tactic.NormNum
import Mathlib.Analysis.Real.Sqrt
/-!
  C04 — LP/QP interior point: `converged` means feasible and optimal as stated.

  Property theorems about `Model/Program.lean`, `Model/ProgramNewton.lean`, `Model/ProgramSolve.lean` (the model of
  `src/program/solver.cpp` and the files it uses), for every linear ordered field `α` (exact arithmetic), every program,
  every point, every answer of the oracles (Newton step, row reduction, least-squares start).
  Conventions of the statements:
  * vectors are lists, `LeV` is componentwise `≤` between vectors of equal length, `Feasible P x` is `A x = b ∧ G x ≤ h`,
    `IsArgmin P x` says `x` minimises the objective over the feasible set;
  * `WF P`: every row of `Q, A, G` has `n = |c|` entries and `Q` is empty (LP) or has `n` rows; the length hypotheses on
    `x, u, v, dx, …` are the shapes the C++ code allocates (`NewtonShapes`: the oracle answers with `dx ∈ ℝⁿ, du ∈ ℝᵐ, dv ∈ ℝᵖ`);
  * `Convex P`: the form `a, b ↦ a·(Q b)` is symmetric and positive semidefinite on vectors of length `n`
    (the solver does not check it; `quadratic_program_t::convex()` is the caller's business);
  * `min_norm > 0` and `ParOk par` (`0 < s0 < 1`, `0 ≤ beta ≤ 1`, `0 < numeric_limits::max()`) are the constants / parameter
    domains of the code; `sqrt` is an arbitrary function unless a hypothesis says what is used of it.

  GAP TABLE — every function of the anchored files (modelled = hand-written Lean definition run against the code by
  `driver_c04`; translated = regenerated into `Gen/ProgramDone.lean` on every check; oracle = parameter of the model with
  the stated contract; outside = not in the model, with the reason):

  src/program/solver.cpp
    make_x0                              modelled    `makeX0`
    make_smax                            modelled    `makeSmax`, `smaxLoop`
    ::normalize                          modelled    `normDenom`, `normalizePair`
    reducer_t, program_t::program_t      modelled    `prepare` (= reduce, then `normalize`), constant blocks of `m_lmat` in `kktMat`
    program_t::n / p / m / Q             modelled    `Prog.n / p / m`, `Prog.Q`
    program_t::feasible                  translated  `feasible`
    program_t::solve                     modelled    `topLeftOf`, `kktMat`, `kktVecOf`;  `m_ldlt.compute/solve` = ORACLE, contract
                                                     `kktMat · lsol = kktVec` (`newton_solution_is_newton_direction`,
                                                     `noineq_exact_solution_optimal`); monitored at run time on every logged step
    program_t::update                    modelled    `objective`, `gradObj`, `update`
    solver_t::solver_t                   outside     parameter registration is C19; the domains enter as `ParOk`, the values as `Params`
    solver_t::solve (4 overloads)        modelled    `solveTop`
    solver_t::solve_with_inequality      modelled    `start`, `hessvar`, `newtonRhs`, `duOf`, `stage1`, `stage2`, `stage2Fail`,
                                                     `iterate`, `exitKind`, `loop`, `solveIneq`; `m_ldlt_rcond / m_ldlt_positive`
                                                     outside (read from Eigen, only printed)
    solver_t::solve_without_inequality   modelled    `kktTopLeft0`, `kktVec0`, `kktApprox`, `noineq`, `solveNoineq`
    solver_t::done                       translated  `doneStatus` (+ `done`)
  src/program/state.cpp
    solver_state_t ctors                 modelled    the `nan` fill of `start` / `solveIneq`
    solver_state_t::residual             modelled    `residual`
    solver_state_t::update (m_kkt)       modelled    `cabs`, `normInf`, `lagGrad`, `kktTest` (`kkt_test_le_iff`)
    operator<<                           outside     printing
  src/program/util.cpp
    ::reduce(A), program::reduce(A, b)   oracle      Eigen FullPivLU; contract `RowEquiv` (same row space of `[A|b]`) ⇒ same solutions
                                                     (`reduce_contract_same_solutions`, `prepared_same_feasible_set`); the contract is
                                                     checked at run time on every call (python monitor: exact rank, residuals)
    is_psd                               outside     not called by the solver (convexity is a hypothesis, `Convex`)
  src/program/constrained.cpp
    linear_constrained_t::feasible       outside     not called by the solver; the python oracle evaluates feasibility itself
    make_strictly_feasible               modelled    `msfEval`, `msfLoop`, `makeStrictlyFeasible`; the LDLT solve of the normal equations
                                                     is an ORACLE without contract (`default_start_strictly_feasible` holds for every answer)
  src/program/linear.cpp, quadratic.cpp
    constructors                         modelled    `Prog` (an LP has `Q = []`);  make_Q (upper-triangular input) outside: not used here
  include/nano/program/stack.h
    update_size, update_data, make_size, stack   outside  template plumbing that copies the caller's blocks; covered by the correspondence
                                                     (the harness states every program through `constrain(...)`, the model normalises
                                                     the stated data itself and must reproduce the logged normalised `A, b, G, h`)
  include/nano/program/equality.h, inequality.h
    make_equality / make_inequality      outside     constructors used by the harness (same remark)
    feasible / deviation, make_less / make_greater   outside   not called by the solver
-/
set_option linter.unusedSectionVars false
set_option linter.unusedVariables false

namespace NanoVerif.Program
variable {α : Type} [Field α] [LinearOrder α] [IsStrictOrderedRing α]

/-! ### normalisation -/

/-- The normalised program (rows of `[A|b]` and of `[G|h]` divided by `max(min_norm, ‖·‖, ‖·‖)`) has exactly the
    feasible set of the caller's program, whatever `sqrt` returns. -/
theorem normalise_same_feasible_set [Sqrt α] (minNorm : α) (hmin : 0 < minNorm) (P : Prog α) (x : List α) :
    Feasible (normalize minNorm P).2 x ↔ Feasible P x :=
  feasible_normalize minNorm hmin P x

/-- … and exactly the same minimisers (the objective is divided by `mufx > 0`). -/
theorem normalise_same_argmin [Sqrt α] (minNorm : α) (hmin : 0 < minNorm) (P : Prog α) (x : List α) :
    IsArgmin (normalize minNorm P).2 x ↔ IsArgmin P x := by
  have hm := mufx_pos minNorm hmin P
  unfold IsArgmin
  rw [feasible_normalize minNorm hmin]
  constructor
  · rintro ⟨hf, h⟩
    refine ⟨hf, fun y hy => ?_⟩
    have := h y ((feasible_normalize minNorm hmin P y).2 hy)
    rwa [objective_normalize _ hmin, objective_normalize _ hmin, div_le_div_iff_of_pos_right hm] at this
  · rintro ⟨hf, h⟩
    refine ⟨hf, fun y hy => ?_⟩
    have := h y ((feasible_normalize minNorm hmin P y).1 hy)
    rwa [objective_normalize _ hmin, objective_normalize _ hmin, div_le_div_iff_of_pos_right hm]

/-- `state.m_fx *= m_mufx`: the objective value the solver reports is the caller's objective at `x`
    (not the normalised one), at every `update`. -/
theorem reported_fx_is_objective [Sqrt α] (minNorm : α) (hmin : 0 < minNorm) (P : Prog α) (miu : α)
    (x u v : List α) (st : St α) :
    (update (normalize minNorm P).2 (normalize minNorm P).1 miu x u v st).fx = objective P x := by
  have hm := mufx_pos minNorm hmin P
  rw [update_fx, objective_normalize _ hmin, div_mul_cancel₀ _ (ne_of_gt hm)]

/-! ### the iterates stay in the interior -/

/-- A step `0 ≤ s ≤ s0 · make_smax(u, du)` with `0 < s0 < 1` keeps every multiplier strictly positive. -/
theorem u_stays_nonneg (big s0 s : α) (u du : List α) (hu : ∀ a ∈ u, 0 < a)
    (hs0 : 0 < s0) (hs01 : s0 < 1) (hs : 0 ≤ s) (hle : s ≤ s0 * makeSmax big u du) :
    ∀ a ∈ move u s du, 0 < a := by
  apply move_pos u du s hs hu
  intro p hp hlt
  have hpos : 0 < p.1 := hu p.1 (List.of_mem_zip (a := p.1) (b := p.2) hp).1
  have h1 := makeSmax_le big u du p hp hlt
  have hneg : 0 < -p.2 := by linarith
  have h2 : makeSmax big u du * (-p.2) ≤ p.1 := by
    have := mul_le_mul_of_nonneg_right h1 (le_of_lt hneg)
    have e : -p.1 / p.2 * (-p.2) = p.1 := by
      have : p.2 ≠ 0 := ne_of_lt hlt
      field_simp
    linarith
  have h3 : s * (-p.2) ≤ s0 * makeSmax big u du * (-p.2) := mul_le_mul_of_nonneg_right hle (le_of_lt hneg)
  have h4 : s0 * (makeSmax big u du * (-p.2)) ≤ s0 * p.1 := mul_le_mul_of_nonneg_left h2 (le_of_lt hs0)
  have h5 : s0 * p.1 < p.1 := by nlinarith
  have h6 : s0 * makeSmax big u du * (-p.2) = s0 * (makeSmax big u du * (-p.2)) := by ring
  linarith

/-- Stage 1 of the backtracking returns only a step `s ∈ [0, s_init]` with `G (x + s dx) < h` componentwise. -/
theorem Gx_lt_h_invariant (P : Prog α) (beta : α) (hb0 : 0 ≤ beta) (hb1 : beta ≤ 1) (x dx : List α)
    (k : Nat) (sInit s : α) (hs : 0 ≤ sInit) (h : stage1 P beta x dx k sInit = some s) :
    (∀ a ∈ slack P (move x s dx), a < 0) ∧ 0 ≤ s ∧ s ≤ sInit := by
  obtain ⟨h1, h2, h3⟩ := stage1_spec P beta hb0 hb1 x dx k sInit s hs h
  exact ⟨(maxLt_iff _ _).1 h1, h2, h3⟩

/-- Whenever the loop body hands `(x', u', v')` to the next iteration, `G x' < h` and `u' > 0` again
    (stage 2 only shortens the step of stage 1; `G x < h` is convex). -/
theorem iterate_keeps_interior [Sqrt α] [FinTest α] (P : Prog α) (mufx : α) (par : Params α)
    (x u v dx du dv x' u' v' : List α) (st st' : St α) (ok : Bool)
    (hbig : 0 < par.big) (hs0 : 0 < par.s0) (hs01 : par.s0 < 1) (hb0 : 0 ≤ par.beta) (hb1 : par.beta ≤ 1)
    (hxl : x.length = dx.length) (hint : ∀ a ∈ slack P x, a < 0) (hu : ∀ a ∈ u, 0 < a)
    (h : iterate P mufx par x u v st ok dx du dv = .next x' u' v' st') :
    (∀ a ∈ slack P x', a < 0) ∧ (∀ a ∈ u', 0 < a) := by
  have hsm : 0 < makeSmax par.big u du := makeSmax_pos par.big hbig u du hu
  have hinit : 0 ≤ par.s0 * makeSmax par.big u du := le_of_lt (mul_pos hs0 hsm)
  unfold iterate at h
  split at h
  · cases h
  · split at h
    · cases h
    · rename_i s1 hs1
      obtain ⟨g1, g2, g3⟩ := Gx_lt_h_invariant P par.beta hb0 hb1 x dx par.maxLs _ s1 hinit hs1
      dsimp only at h
      split at h
      · cases h
      · rename_i s2 st2 hs2
        obtain ⟨k1, k2, _, _⟩ := stage2_spec P mufx par.miu par.alpha par.beta hb0 hb1 x u v dx du dv _ par.maxLs s1 s2
          st st2 g2 hs2
        split at h
        · cases h
        · split at h
          · cases h
          · simp only [Outcome.next.injEq] at h
            obtain ⟨rfl, rfl, _, _⟩ := h
            exact ⟨slack_interp P.G P.h x dx s1 s2 hxl hint g1 k1 k2,
              u_stays_nonneg par.big par.s0 s2 u du hu hs0 hs01 k1 (le_trans k2 g3)⟩

/-! ### the status decision -/

/-- `solver_t::done` reports `converged` exactly when the feasibility test passes and all three of
    `eta`, `‖rdual‖₂`, `‖rprim‖₂` are below `epsilon`. -/
theorem converged_iff_done_test (feas : Bool) (eta rd rp eps : α) :
    doneStatus feas eta rd rp eps = .converged ↔ feas = true ∧ eta < eps ∧ rd < eps ∧ rp < eps := by
  unfold doneStatus
  cases feas
  · simp
  · by_cases h : cmax3 eta rd rp < eps
    · simp [h, (cmax3_lt_iff eta rd rp eps).1 h]
    · have : ¬ (eta < eps ∧ rd < eps ∧ rp < eps) := fun hh => h ((cmax3_lt_iff eta rd rp eps).2 hh)
      simp [h, this]

theorem done_converged [Sqrt α] (P : Prog α) (par : Params α) (x : List α) (st : St α)
    (h : done P par x st = .converged) :
    feasible P par.eps2 x = true ∧ st.eta < par.epsilon ∧ norm2 st.rdual < par.epsilon ∧
      norm2 st.rprim < par.epsilon :=
  (converged_iff_done_test _ _ _ _ _).1 h

/-- What `converged` out of the loop body means: the returned point passes `program_t::feasible`
    (`‖A x − b‖₂ < ε₂`, `max(G x − h) < ε₂` on the normalised program), the returned `eta`, `‖rdual‖₂`, `‖rprim‖₂` are
    below `epsilon`, and they — like the reported `fx` — are those of the returned `(x', u', v')` on every path
    (since the fix 51e9911 also when stage 2 runs out of trials: the state is reverted before `done`). -/
theorem iterate_converged_sound [Sqrt α] [FinTest α] (P : Prog α) (mufx : α) (par : Params α)
    (x u v dx du dv x' u' v' : List α) (st stp st' : St α) (ok : Bool)
    (hst : st = update P mufx par.miu x u v stp)
    (h : iterate P mufx par x u v st ok dx du dv = .stop .converged x' u' v' st') :
    (feasible P par.eps2 x' = true ∧ st'.eta < par.epsilon ∧ norm2 st'.rdual < par.epsilon ∧
      norm2 st'.rprim < par.epsilon) ∧
    ∃ stq, st' = update P mufx par.miu x' u' v' stq := by
  unfold iterate at h
  split at h
  · simp only [Outcome.stop.injEq] at h
    obtain ⟨hd, rfl, rfl, rfl, rfl⟩ := h
    exact ⟨done_converged P par x st hd, ⟨stp, hst⟩⟩
  · split at h
    · simp only [Outcome.stop.injEq] at h
      obtain ⟨hd, rfl, rfl, rfl, rfl⟩ := h
      exact ⟨done_converged P par x st hd, ⟨stp, hst⟩⟩
    · rename_i s1 hs1
      dsimp only at h
      split at h
      · rename_i stT hs2
        simp only [Outcome.stop.injEq] at h
        obtain ⟨hd, rfl, rfl, rfl, rfl⟩ := h
        exact ⟨done_converged P par x _ hd, ⟨stT, rfl⟩⟩
      · rename_i s2 st2 hs2
        obtain ⟨_, _, ⟨stq, hq⟩, _⟩ := stage2_spec' P mufx par.miu par.alpha par.beta x u v dx du dv _ par.maxLs s1 s2
          st st2 hs2
        split at h
        · simp at h
        · split at h
          · simp only [Outcome.stop.injEq] at h
            obtain ⟨hd, rfl, rfl, rfl, rfl⟩ := h
            exact ⟨done_converged P par _ st2 hd, ⟨stq, hq⟩⟩
          · cases h

/-- The equality-only path reports `converged` exactly when the residual is finite and the logged solution of the KKT
    system passes the `isApprox` test `‖K z − r‖² ≤ ε₂² min(‖K z‖², ‖r‖²)`. -/
theorem noineq_converged_sound [Sqrt α] [FinTest α] (P : Prog α) (mufx : α) (par : Params α) (x v : List α) :
    (noineq P mufx par x v).1 = .converged ↔
      FinTest.isFin (residual (noineq P mufx par x v).2) = true ∧ kktApprox P par.eps2 x v = true := by
  simp only [noineq]
  cases h1 : FinTest.isFin (residual (update P mufx par.miu x [] v ⟨0, 0, [], [], []⟩)) <;>
    cases h2 : kktApprox P par.eps2 x v <;> simp

/-! ### `converged` ⇒ ε-KKT ⇒ the objective is within the stated bound of the optimum -/

/-- Duality-gap inequality at any point of the iteration: for a convex program, `u ≥ 0` and ANY feasible `x*`,
    `f(x) − f(x*) ≤ eta + |rdual·(x − x*)| + |v·rprim|` with the `eta`, `rdual`, `rprim` that `update` computes.
    (`hG`: on the equality-only path `m_eta` is set to 0 by the caller of `update`.) -/
theorem kkt_gap_bound (P : Prog α) (wf : WF P) (cvx : Convex P) (mufx miu : α) (x u v xs : List α) (st : St α)
    (hx : x.length = P.n) (hxs : xs.length = P.n) (hu : u.length = P.G.length) (hv : v.length = P.A.length)
    (hG : P.G = [] → st.eta = 0) (hupos : ∀ a ∈ u, 0 ≤ a) (hfeas : Feasible P xs) :
    objective P x - objective P xs ≤
      (update P mufx miu x u v st).eta + |dot (update P mufx miu x u v st).rdual (vsub x xs)| +
        |dot v (update P mufx miu x u v st).rprim| :=
  gap_bound P wf cvx mufx miu x u v xs st hx hxs hu hv hG hupos hfeas

/-- The same with norms (Cauchy–Schwarz for `rdual·(x − x*)`, Hölder 1/∞ and `‖·‖∞ ≤ ‖·‖₂` for `v·rprim`):
    `f(x) − f(x*) ≤ eta + ‖rdual‖₂ ‖x − x*‖₂ + ‖v‖₁ ‖rprim‖₂`. Used of `sqrt`: `sqrt y ≥ 0`, `sqrt y · sqrt y = y` for `y ≥ 0`. -/
theorem kkt_gap_bound_norm [Sqrt α] (hsqrt : ∀ y : α, 0 ≤ y → 0 ≤ Sqrt.sqrt y ∧ Sqrt.sqrt y * Sqrt.sqrt y = y)
    (P : Prog α) (wf : WF P) (cvx : Convex P) (mufx miu : α) (x u v xs : List α) (st : St α)
    (hx : x.length = P.n) (hxs : xs.length = P.n) (hu : u.length = P.G.length) (hv : v.length = P.A.length)
    (hG : P.G = [] → st.eta = 0) (hupos : ∀ a ∈ u, 0 ≤ a) (hfeas : Feasible P xs) :
    objective P x - objective P xs ≤
      (update P mufx miu x u v st).eta + norm2 (update P mufx miu x u v st).rdual * norm2 (vsub x xs) +
        norm1 v * norm2 (update P mufx miu x u v st).rprim :=
  gap_bound_norm hsqrt P wf cvx mufx miu x u v xs st hx hxs hu hv hG hupos hfeas

/-- The bound of the property statement: if the `done` test passes at `(x, u, v)` on the NORMALISED program then, in the
    CALLER's units and against ANY point `x*` feasible for the caller's program,
    `f(x) − f(x*) ≤ mufx · ε · (1 + ‖x − x*‖₂ + ‖v‖₁)` where `mufx = max(min_norm, ‖Q‖_F, ‖c‖₂)` (the `M` of the
    statement; its `1e-8` is `ε = 1e-10` with the 100× allowance, its `‖u‖₁` term is slack). -/
theorem converged_gap_bound [Sqrt α] (hsqrt : ∀ y : α, 0 ≤ y → 0 ≤ Sqrt.sqrt y ∧ Sqrt.sqrt y * Sqrt.sqrt y = y)
    (minNorm : α) (hmin : 0 < minNorm) (P : Prog α) (wf : WF P) (cvx : Convex P) (miu eps : α)
    (x u v xs : List α) (st : St α)
    (hx : x.length = P.n) (hxs : xs.length = P.n) (hu : u.length = P.G.length) (hv : v.length = P.A.length)
    (hG : P.G = [] → st.eta = 0) (hupos : ∀ a ∈ u, 0 ≤ a) (hfeas : Feasible P xs)
    (heta : (update (normalize minNorm P).2 (normalize minNorm P).1 miu x u v st).eta < eps)
    (hrd : norm2 (update (normalize minNorm P).2 (normalize minNorm P).1 miu x u v st).rdual < eps)
    (hrp : norm2 (update (normalize minNorm P).2 (normalize minNorm P).1 miu x u v st).rprim < eps) :
    objective P x - objective P xs ≤
      (normalize minNorm P).1 * (eps * (1 + norm2 (vsub x xs) + norm1 v)) :=
  gap_bound_converged hsqrt minNorm hmin P wf cvx miu eps x u v xs st hx hxs hu hv hG hupos hfeas heta hrd hrp

/-! ### equivalent restatements describe the same mathematical program -/

/-- inequality rows rescaled by positive factors -/
theorem restatement_equiv_scale_ineq (P : Prog α) (w x : List α) (hw : ∀ a ∈ w, 0 < a)
    (hwl : w.length = P.G.length) (hhl : P.h.length = P.G.length) :
    Feasible { P with G := scaleRows w P.G, h := vmul w P.h } x ↔ Feasible P x :=
  feasible_scale_ineq P w x hw hwl hhl

/-- equality rows rescaled by non-zero factors (either sign) -/
theorem restatement_equiv_scale_eq (P : Prog α) (w x : List α) (hw : ∀ a ∈ w, a ≠ 0)
    (hwl : w.length = P.A.length) (hbl : P.b.length = P.A.length) :
    Feasible { P with A := scaleRows w P.A, b := vmul w P.b } x ↔ Feasible P x :=
  feasible_scale_eq P w x hw hwl hbl

/-- an equality row that is a linear combination `Σ tᵢ (Aᵢ | bᵢ)` of the others is appended -/
theorem restatement_equiv_combined_eq (P : Prog α) (wf : WF P) (t x : List α) (hx : x.length = P.n)
    (ht : t.length = P.A.length) (hbl : P.b.length = P.A.length) :
    Feasible { P with A := P.A ++ [tmv P.n P.A t], b := P.b ++ [dot t P.b] } x ↔ Feasible P x :=
  feasible_combined_eq P wf t x hx ht hbl

/-- an equality row is duplicated -/
theorem restatement_equiv_dup_eq (P : Prog α) (r : List α) (bi : α) (x : List α) (hmem : (r, bi) ∈ P.A.zip P.b)
    (hbl : P.b.length = P.A.length) :
    Feasible { P with A := P.A ++ [r], b := P.b ++ [bi] } x ↔ Feasible P x :=
  feasible_dup_eq P r bi x hmem hbl

/-- the objective multiplied by `κ > 0`: same feasible set, same minimisers, `f' = κ f` -/
theorem restatement_equiv_scale_obj (P : Prog α) (k : α) (hk : 0 < k) (x : List α) :
    (IsArgmin { P with Q := P.Q.map (smul k), c := smul k P.c } x ↔ IsArgmin P x) ∧
      objective { P with Q := P.Q.map (smul k), c := smul k P.c } x = k * objective P x :=
  argmin_scale_obj P k hk x

/-- the rows of `[A|b]` and of `[G|h]` permuted -/
theorem restatement_equiv_perm_rows (P P' : Prog α) (x : List α)
    (hA : (P.A.zip P.b).Perm (P'.A.zip P'.b)) (hG : (P.G.zip P.h).Perm (P'.G.zip P'.h))
    (hb : P.b.length = P.A.length) (hb' : P'.b.length = P'.A.length)
    (hh : P.h.length = P.G.length) (hh' : P'.h.length = P'.G.length) :
    Feasible P' x ↔ Feasible P x :=
  feasible_perm_rows P P' x hA hG hb hb' hh hh'

/-- the variables permuted (`idx` a permutation of `0 … n−1`; columns of `A`, `G`, rows and columns of `Q`, entries of
    `c` and of the point): same feasibility, same objective value, hence the same minimisers up to the permutation -/
theorem restatement_equiv_perm_vars (P : Prog α) (wf : WF P) (idx : List Nat) (hidx : idx.Perm (List.range P.n))
    (x : List α) (hx : x.length = P.n) :
    (Feasible (permVars idx P) (pick 0 idx x) ↔ Feasible P x) ∧
      objective (permVars idx P) (pick 0 idx x) = objective P x :=
  perm_vars_equiv P wf idx hidx x hx

/-! ### the Newton step: the linear system handed to LDLT -/

/-- Contract of the LDLT oracle ⇒ Newton direction. If `(dx, dv)` solves the system `m_lmat · z = m_lvec` the code
    assembles (`kktMat`, `kktVec`) EXACTLY, and `du` is what the code computes from `dx`, then `(dx, du, dv)` is the
    Newton direction of the residual map at `(x, u, v)`:
    * the dual residual (affine) satisfies `rdual(x + s dx, u + s du, v + s dv) = (1 − s) rdual(x, u, v)` for every `s`,
    * so does the primal residual `A x − b`,
    * and `u ∘ (G dx) + (G x − h) ∘ du = rcent` (the centrality residual linearised at fixed `η / (μ m)`),
    i.e. `r + J·Δ = 0` block by block. -/
theorem newton_solution_is_newton_direction (P : Prog α) (wf : WF P) (mufx miu : α) (x u v dx dv : List α)
    (st0 st1 : St α) (hG : P.G ≠ []) (hx : x.length = P.n) (hdx : dx.length = P.n) (hu : u.length = P.G.length)
    (hv : v.length = P.A.length) (hdv : dv.length = P.A.length) (hh : P.h.length = P.G.length)
    (hint : ∀ a ∈ slack P x, a < 0)
    (hsol : mv (kktMat P (kktTopLeft P x u)) (dx ++ dv) = kktVec P x (update P mufx miu x u v st0)) :
    (∀ s, (update P mufx miu (move x s dx) (move u s (duOf P x u dx (update P mufx miu x u v st0))) (move v s dv) st1).rdual =
        smul (1 - s) (update P mufx miu x u v st0).rdual) ∧
    (P.A ≠ [] → ∀ s, vsub (mv P.A (move x s dx)) P.b = smul (1 - s) (vsub (mv P.A x) P.b)) ∧
    vadd (hmul u (mv P.G dx)) (hmul (slack P x) (duOf P x u dx (update P mufx miu x u v st0))) =
      (update P mufx miu x u v st0).rcent := by
  have hrd := update_rdual_length P wf mufx miu x u v st0 hx
  obtain ⟨e1, e2⟩ := kkt_system_blocks P wf (hessvar P x u) (hessvar_rows P wf x u) (hessvar_length P wf x u)
    (newtonRhs P x (update P mufx miu x u v st0))
    (by simp [newtonRhs, hrd, tmv_length _ _ _ wf.Grows]) dx dv hdx hsol
  refine ⟨fun s => newton_rdual P wf mufx miu x u v dx dv st0 st1 s hG hx hdx hu hv hdv hh e1, ?_,
    newton_rcent P mufx miu x u v dx st0 hG hu hh (fun a ha => ne_of_lt (hint a ha))⟩
  intro hA s
  have hA' : P.A.isEmpty = false := by cases h : P.A <;> simp_all
  apply newton_rprim x dx s (by rw [hx, hdx])
  rw [e2]
  simp [newtonRhs, update_rprim, hA']

/-- The equality-only path: an EXACT solution `(x, v)` of the system `[[Q, Aᵀ], [A, 0]] (x, v) = (−c, b)` the code assembles
    is a minimiser of the (convex) program. -/
theorem noineq_exact_solution_optimal (P : Prog α) (wf : WF P) (cvx : Convex P) (x v : List α) (hG : P.G = [])
    (hh : P.h = [])
    (hx : x.length = P.n) (hv : v.length = P.A.length)
    (hsol : mv (kktMat P (kktTopLeft0 P)) (x ++ v) = kktVec0 P) :
    Feasible P x ∧ ∀ y : List α, y.length = P.n → Feasible P y → objective P x ≤ objective P y := by
  obtain ⟨e1, e2⟩ := noineq_exact P wf 1 1 x v ⟨0, 0, [], [], []⟩ hG hx hv hsol
  refine ⟨⟨e2, by simp [hG, hh, mv]⟩, fun y hyl hy => ?_⟩
  have key := gap_bound P wf cvx 1 1 x [] v y ⟨0, 0, [], [], []⟩ hx hyl (by simp [hG]) hv (fun _ => rfl) (by simp) hy
  rw [update_eta, update_rprim, e1] at key
  have hz : vsub (mv P.A x) P.b = zeros P.A.length ∨ P.A.isEmpty = true := by
    left
    rw [e2]
    have : ∀ b : List α, vsub b b = zeros b.length := by
      intro b; induction b with
      | nil => rfl
      | cons a b ih => simp only [vsub, List.zipWith_cons_cons, sub_self] at ih ⊢; rw [ih]; simp [zeros, List.replicate_succ]
    rw [this]
    congr 1
    rw [← e2]; simp
  simp only [hG, List.isEmpty_nil, if_true] at key
  rw [dot_zeros] at key
  rcases hz with hz | hz
  · by_cases hA : P.A.isEmpty
    · simp only [hA, if_true, dot_nil_right] at key
      simp at key; linarith
    · simp only [hA, if_false, Bool.false_eq_true, hz] at key
      rw [dot_comm, dot_zeros] at key
      simp at key; linarith
  · simp only [hz, if_true, dot_nil_right] at key
    simp at key; linarith

/-! ### every exit of the solver, with the status it reports -/

/-- Complete case split of one pass through the loop body of `solve_with_inequality` (six exits, `ExitKind`): unstable
    linear system / stage 1 failed (→ `done` on the unchanged state), stage 2 failed (→ state reverted to `(x, u, v)`, `done`),
    non-finite residuals after the step (→ `failed`), no further progress (→ `done` at the new point), continue. -/
theorem iterate_exit_cases [Sqrt α] [FinTest α] (P : Prog α) (mufx : α) (par : Params α) (x u v : List α) (st : St α)
    (ok : Bool) (dx du dv : List α) :
    (ok = false ∧ exitKind P mufx par x u v st ok dx du dv = .unstable ∧
      iterate P mufx par x u v st ok dx du dv = .stop (done P par x st) x u v st) ∨
    (ok = true ∧ stage1 P par.beta x dx par.maxLs (par.s0 * makeSmax par.big u du) = none ∧
      exitKind P mufx par x u v st ok dx du dv = .stage1Failed ∧
      iterate P mufx par x u v st ok dx du dv = .stop (done P par x st) x u v st) ∨
    (∃ s1 stT, ok = true ∧ stage1 P par.beta x dx par.maxLs (par.s0 * makeSmax par.big u du) = some s1 ∧
      stage2 P mufx par.miu par.alpha par.beta x u v dx du dv (residual st) par.maxLs s1 st = (none, stT) ∧
      exitKind P mufx par x u v st ok dx du dv = .stage2Failed ∧
      iterate P mufx par x u v st ok dx du dv =
        .stop (done P par x (update P mufx par.miu x u v stT)) x u v (update P mufx par.miu x u v stT)) ∨
    (∃ s1 s2 st2, ok = true ∧ stage1 P par.beta x dx par.maxLs (par.s0 * makeSmax par.big u du) = some s1 ∧
      stage2 P mufx par.miu par.alpha par.beta x u v dx du dv (residual st) par.maxLs s1 st = (some s2, st2) ∧
      ((finAfter st2 = false ∧ exitKind P mufx par x u v st ok dx du dv = .nonFinite ∧
          iterate P mufx par x u v st ok dx du dv = .stop .failed (move x s2 dx) (move u s2 du) (move v s2 dv) st2) ∨
       (finAfter st2 = true ∧ noProgressTest par st st2 ∧ exitKind P mufx par x u v st ok dx du dv = .noProgress ∧
          iterate P mufx par x u v st ok dx du dv =
            .stop (done P par (move x s2 dx) st2) (move x s2 dx) (move u s2 du) (move v s2 dv) st2) ∨
       (finAfter st2 = true ∧ ¬ noProgressTest par st st2 ∧ exitKind P mufx par x u v st ok dx du dv = .continues ∧
          iterate P mufx par x u v st ok dx du dv = .next (move x s2 dx) (move u s2 du) (move v s2 dv) st2))) :=
  iterate_cases P mufx par x u v st ok dx du dv

/-- The status of a stopping exit, as equivalences: `converged` ⇔ the exit is not the non-finite one and the returned
    point passes `program_t::feasible` with `eta, ‖rdual‖₂, ‖rprim‖₂ < epsilon` of the RETURNED state (in particular the
    'no further progress' exit does not accept `converged` from `eta` alone); `unbounded` ⇔ feasible but not ε-KKT;
    `unfeasible` ⇔ the feasibility test fails (the two heuristics of `solver_t::done`); `failed` ⇔ non-finite exit. -/
theorem iterate_status_iff [Sqrt α] [FinTest α] (P : Prog α) (mufx : α) (par : Params α) (x u v : List α) (st : St α)
    (ok : Bool) (dx du dv : List α) (status : Status) (x' u' v' : List α) (st' : St α)
    (h : iterate P mufx par x u v st ok dx du dv = .stop status x' u' v' st') :
    (status = .converged ↔ exitKind P mufx par x u v st ok dx du dv ≠ .nonFinite ∧ feasible P par.eps2 x' = true ∧
        st'.eta < par.epsilon ∧ norm2 st'.rdual < par.epsilon ∧ norm2 st'.rprim < par.epsilon) ∧
    (status = .unbounded ↔ exitKind P mufx par x u v st ok dx du dv ≠ .nonFinite ∧ feasible P par.eps2 x' = true ∧
        ¬ (st'.eta < par.epsilon ∧ norm2 st'.rdual < par.epsilon ∧ norm2 st'.rprim < par.epsilon)) ∧
    (status = .unfeasible ↔ exitKind P mufx par x u v st ok dx du dv ≠ .nonFinite ∧ feasible P par.eps2 x' = false) ∧
    (status = .failed ↔ exitKind P mufx par x u v st ok dx du dv = .nonFinite) ∧ status ≠ .maxIters :=
  iterate_converged_iff P mufx par x u v st ok dx du dv status x' u' v' st' h

/-- A starting point is refused — `unfeasible` at once, `m_iters = 0`, `m_x = x0` — exactly when it is not strictly inside
    the inequalities (`∃ i, (G x0 − h)ᵢ ≥ 0`), whether or not the program is feasible. -/
theorem solve_refused_start_iff [Sqrt α] [FinTest α] (P : Prog α) (mufx : α) (par : Params α) (nan : α) (newton : Newton α)
    (x0 : List α) (hne : slack P x0 ≠ []) :
    (start P mufx par.miu nan x0 = none ↔ ∃ a ∈ slack P x0, 0 ≤ a) ∧
    (start P mufx par.miu nan x0 = none → (solveIneq P mufx par nan newton x0).status = .unfeasible ∧
      (solveIneq P mufx par nan newton x0).iters = 0 ∧ (solveIneq P mufx par nan newton x0).x = x0) := by
  refine ⟨?_, solveIneq_refused P mufx par nan newton x0⟩
  rw [start_none_iff]
  exact ⟨fun h => h.resolve_left hne, Or.inr⟩

/-- Every exit of `solve_with_inequality` after an accepted start, for every Newton oracle and every `max_iters`:
    the returned `(x, u, v)` has `G x < h`, `u > 0`, and the returned `fx, eta, rdual, rprim, rcent` are those of the returned
    point (`Inv`); the status is `max_iters` with `m_iters = max_iters` after `max_iters` continuing iterations, or iteration
    `m_iters < max_iters` took a stopping exit whose status (`iterate_status_iff`) and state are returned. -/
theorem solve_exits [Sqrt α] [FinTest α] (P : Prog α) (mufx : α) (par : Params α) (pok : ParOk par) (nan : α)
    (newton : Newton α) (hsh : NewtonShapes P newton) (x0 u0 v0 : List α) (st0 : St α) (hx0 : x0.length = P.n)
    (hh : P.h.length = P.G.length) (hs : start P mufx par.miu nan x0 = some (u0, v0, st0)) :
    Inv P mufx par.miu (solveIneq P mufx par nan newton x0).x (solveIneq P mufx par nan newton x0).u
        (solveIneq P mufx par nan newton x0).v (solveIneq P mufx par nan newton x0).st ∧
    (((solveIneq P mufx par nan newton x0).status = .maxIters ∧ (solveIneq P mufx par nan newton x0).iters = par.maxIters ∧
        Reaches P mufx par newton 0 x0 u0 v0 st0 par.maxIters (solveIneq P mufx par nan newton x0).x
          (solveIneq P mufx par nan newton x0).u (solveIneq P mufx par nan newton x0).v (solveIneq P mufx par nan newton x0).st) ∨
     (∃ j xj uj vj stj, j < par.maxIters ∧ Reaches P mufx par newton 0 x0 u0 v0 st0 j xj uj vj stj ∧
        Inv P mufx par.miu xj uj vj stj ∧ (solveIneq P mufx par nan newton x0).iters = j ∧
        iterate P mufx par xj uj vj stj (newton j xj uj vj stj).1 (newton j xj uj vj stj).2.1 (newton j xj uj vj stj).2.2.1
          (newton j xj uj vj stj).2.2.2 =
          .stop (solveIneq P mufx par nan newton x0).status (solveIneq P mufx par nan newton x0).x
            (solveIneq P mufx par nan newton x0).u (solveIneq P mufx par nan newton x0).v
            (solveIneq P mufx par nan newton x0).st)) :=
  solveIneq_exits P mufx par pok nan newton hsh x0 u0 v0 st0 hx0 hh hs

/-- `converged` from the whole `solve_with_inequality` is truthful about the returned state. -/
theorem solve_converged_sound [Sqrt α] [FinTest α] (P : Prog α) (mufx : α) (par : Params α) (pok : ParOk par) (nan : α)
    (newton : Newton α) (hsh : NewtonShapes P newton) (x0 : List α) (hx0 : x0.length = P.n)
    (hh : P.h.length = P.G.length) (hc : (solveIneq P mufx par nan newton x0).status = .converged) :
    Inv P mufx par.miu (solveIneq P mufx par nan newton x0).x (solveIneq P mufx par nan newton x0).u
        (solveIneq P mufx par nan newton x0).v (solveIneq P mufx par nan newton x0).st ∧ P.G ≠ [] ∧
    feasible P par.eps2 (solveIneq P mufx par nan newton x0).x = true ∧
    (solveIneq P mufx par nan newton x0).st.eta < par.epsilon ∧
    norm2 (solveIneq P mufx par nan newton x0).st.rdual < par.epsilon ∧
    norm2 (solveIneq P mufx par nan newton x0).st.rprim < par.epsilon :=
  solveIneq_converged_sound P mufx par pok nan newton hsh x0 hx0 hh hc

/-- END TO END, no hypothesis about the run other than its answer: whenever `solve_with_inequality` — on the normalised
    program, with ANY Newton oracle, any starting point, any `max_iters`, through any exit — reports `converged`, the
    returned point satisfies, in the caller's units and against every point `x*` feasible for the CALLER's convex program,
    `f(x) − f(x*) ≤ mufx · ε · (1 + ‖x − x*‖₂ + ‖v‖₁)`, `mufx = max(min_norm, ‖Q‖_F, ‖c‖₂)`.
    (The hypotheses `u ≥ 0`, "the residuals are those of the returned point", `eta, ‖rdual‖, ‖rprim‖ < ε` of
    `converged_gap_bound` are discharged by the loop invariant and the exit analysis.) -/
theorem solve_converged_gap_bound [Sqrt α] [FinTest α]
    (hsqrt : ∀ y : α, 0 ≤ y → 0 ≤ Sqrt.sqrt y ∧ Sqrt.sqrt y * Sqrt.sqrt y = y)
    (P0 : Prog α) (wf : WF P0) (cvx : Convex P0) (par : Params α) (pok : ParOk par) (hmin : 0 < par.minNorm) (nan : α)
    (newton : Newton α) (hsh : NewtonShapes (normalize par.minNorm P0).2 newton) (x0 xs : List α)
    (hx0 : x0.length = P0.n) (hxs : xs.length = P0.n) (hh : P0.h.length = P0.G.length) (hfeas : Feasible P0 xs)
    (hc : (solveIneq (normalize par.minNorm P0).2 (normalize par.minNorm P0).1 par nan newton x0).status = .converged) :
    objective P0 (solveIneq (normalize par.minNorm P0).2 (normalize par.minNorm P0).1 par nan newton x0).x - objective P0 xs ≤
      (normalize par.minNorm P0).1 * (par.epsilon * (1 +
        norm2 (vsub (solveIneq (normalize par.minNorm P0).2 (normalize par.minNorm P0).1 par nan newton x0).x xs) +
        norm1 (solveIneq (normalize par.minNorm P0).2 (normalize par.minNorm P0).1 par nan newton x0).v)) := by
  have hn := normalize_n par.minNorm P0
  have hGl : (normalize par.minNorm P0).2.G.length = P0.G.length := by simp [normalize, normalizePair]
  have hAl : (normalize par.minNorm P0).2.A.length = P0.A.length := by simp [normalize, normalizePair]
  have hhl : (normalize par.minNorm P0).2.h.length = P0.h.length := by simp [normalize, normalizePair]
  obtain ⟨⟨i1, i2, i3, _, i5, ⟨stq, i6⟩⟩, hG, _, f2, f3, f4⟩ :=
    solveIneq_converged_sound (normalize par.minNorm P0).2 (normalize par.minNorm P0).1 par pok nan newton hsh x0
      (by rw [hn, hx0]) (by rw [hhl, hGl, hh]) hc
  rw [i6] at f2 f3 f4
  have hG0 : P0.G ≠ [] := by
    intro h0
    apply hG
    apply List.length_eq_zero_iff.mp
    rw [hGl, h0]; rfl
  exact gap_bound_converged hsqrt par.minNorm hmin P0 wf cvx par.miu par.epsilon _ _ _ xs stq (by rw [i1, hn])
    hxs (by rw [i2, hGl]) (by rw [i3, hAl]) (fun h => absurd h hG0) (fun a ha => le_of_lt (i5 a ha)) hfeas f2 f3 f4

/-! ### `reduce`, the starting point, the KKT test -/

/-- Contract of `program::reduce` ⇒ nothing is lost: rows `[A'|b']` with the row space of `[A|b]` have the same solution
    set, consistent or not. -/
theorem reduce_contract_same_solutions (n : Nat) (A : List (List α)) (b : List α) (A' : List (List α)) (b' x : List α)
    (hA : ∀ r ∈ A, r.length = n) (hA' : ∀ r ∈ A', r.length = n) (hx : x.length = n) (h : RowEquiv n A b A' b') :
    mv A' x = b' ↔ mv A x = b :=
  reduce_same_solutions n A b A' b' x hA hA' hx h

/-- … so the program the solver works on (`program_t::program_t`: reduce, then three normalisations) has exactly the
    caller's feasible set, and its objective is the caller's divided by `mufx > 0`. -/
theorem prepared_same_feasible_set [Sqrt α] (minNorm : α) (hmin : 0 < minNorm) (P0 : Prog α) (wf : WF P0)
    (reduce : List (List α) → List α → List (List α) × List α)
    (hrows : ∀ r ∈ (reduce P0.A P0.b).1, r.length = P0.n)
    (hc : RowEquiv P0.n P0.A P0.b (reduce P0.A P0.b).1 (reduce P0.A P0.b).2) (x : List α) (hx : x.length = P0.n) :
    (Feasible (prepare minNorm reduce P0).2 x ↔ Feasible P0 x) ∧
    objective (prepare minNorm reduce P0).2 x = objective P0 x / (prepare minNorm reduce P0).1 ∧
    0 < (prepare minNorm reduce P0).1 :=
  ⟨prepare_same_feasible minNorm hmin P0 wf reduce hrows hc x hx, prepare_objective minNorm hmin P0 reduce x⟩

/-- The default start: whatever the least-squares oracle answers, a point returned by `make_strictly_feasible` is strictly
    inside the caller's inequalities, and the solver (which tests the NORMALISED inequalities) does not refuse it;
    when no point is found `make_x0` hands over the origin. -/
theorem default_start_strictly_feasible [Sqrt α] (minNorm : α) (hmin : 0 < minNorm) (P : Prog α) (gamma : α) (rounds : Nat)
    (lsq : α → List α) (mufx miu nan : α) :
    (∀ x, makeStrictlyFeasible P gamma rounds lsq = some x → makeX0 P gamma rounds lsq = x ∧ (∀ a ∈ slack P x, a < 0) ∧
      (slack P x ≠ [] → start (normalize minNorm P).2 mufx miu nan x ≠ none)) ∧
    (makeStrictlyFeasible P gamma rounds lsq = none → makeX0 P gamma rounds lsq = zeros P.n) := by
  constructor
  · intro x hx
    have hi := (makeStrictlyFeasible_some P gamma rounds lsq x hx).1
    refine ⟨by simp [makeX0, hx], hi, fun hne => (start_accepts_iff minNorm hmin P mufx miu nan x hne).2 hi⟩
  · intro h
    simp [makeX0, h]

/-- A user `x0` is accepted exactly when it is strictly inside the CALLER's inequalities (normalisation does not move the
    boundary); otherwise the answer is `unfeasible` (`solve_refused_start_iff`). -/
theorem user_start_accepted_iff [Sqrt α] (minNorm : α) (hmin : 0 < minNorm) (P : Prog α) (mufx miu nan : α) (x0 : List α)
    (hne : slack P x0 ≠ []) :
    start (normalize minNorm P).2 mufx miu nan x0 ≠ none ↔ ∀ a ∈ slack P x0, a < 0 :=
  start_accepts_iff minNorm hmin P mufx miu nan x0 hne

/-- `m_kkt ≤ ε` ⇔ each of the KKT conditions `solver_state_t::update` evaluates holds within `ε`. As coded, the
    stationarity test `|∇f(x) + Aᵀv + Gᵀu|∞` is part of it only when the caller stated at least one constraint (`kktTest`). -/
theorem kkt_test_le_iff (P : Prog α) (unc : Bool) (x u v : List α) (eps : α) :
    kktTest P unc x u v ≤ eps ↔ 0 ≤ eps ∧
      (P.G ≠ [] → (∀ a ∈ slack P x, a ≤ eps) ∧ (∀ a ∈ u, -a ≤ eps) ∧ ∀ a ∈ hmul u (slack P x), |a| ≤ eps) ∧
      (P.A ≠ [] → ∀ a ∈ vsub (mv P.A x) P.b, |a| ≤ eps) ∧
      (unc = false → ∀ a ∈ lagGrad P x u v, |a| ≤ eps) :=
  kktTest_le_iff P unc x u v eps

/-! ### non-vacuity: `min ½x₀² + 3x₁  s.t.  x₀ + x₁ = 1,  −x₁ ≤ 0`, optimum `x* = (1, 0)`, `u* = 2`, `v* = −1` -/

def exP (α : Type) [Field α] : Prog α := ⟨[[1, 0], [0, 0]], [0, 3], [[1, 1]], [1], [[0, -1]], [0]⟩

theorem exP_wf : WF (exP α) := by
  constructor <;> simp [exP, Prog.n]

theorem exP_feasible : Feasible (exP α) [1, 0] := by
  constructor
  · simp [exP, mv, dot]
  · simp [exP, mv, dot, LeV]

theorem exP_convex : Convex (exP α) := by
  constructor
  · intro a b ha hb
    match a, b, ha, hb with
    | [a0, a1], [b0, b1], _, _ => simp [exP, mv, dot]; ring
  · intro d hd
    match d, hd with
    | [d0, d1], _ => simp [exP, mv, dot]; exact mul_self_nonneg d0

/-- the KKT point has zero residuals and zero `eta` (ℚ): the ε-KKT hypotheses are satisfiable and the bound is then tight -/
example : (update (exP ℚ) 1 10 [1, 0] [2] [-1] ⟨0, 0, [], [], []⟩).rdual = [0, 0] ∧
    (update (exP ℚ) 1 10 [1, 0] [2] [-1] ⟨0, 0, [], [], []⟩).rprim = [0] ∧
    (update (exP ℚ) 1 10 [1, 0] [2] [-1] ⟨0, 0, [], [], []⟩).eta = 0 := by
  norm_num [update, exP, gradObj, slack, mv, dot, vadd, vsub, tmv, zeros, Prog.n, Prog.m, List.replicate_succ, axpy]

/-- `make_smax` is the textbook ratio test -/
example : makeSmax (1000 : ℚ) [1, 2] [-2, 1] = 1 / 2 := by
  norm_num [makeSmax, smaxLoop, cmin]

/-- stage 1 backtracks once (`x ≤ 1`, from `x = 0` along `dx = 3`: `s = 1/2` leaves the interior, `s = 1/4` does not):
    the hypothesis of `Gx_lt_h_invariant` is satisfiable with a step that is not the initial one -/
example : stage1 (⟨[], [0], [], [], [[1]], [1]⟩ : Prog ℚ) (1 / 2) [0] [3] 5 (1 / 2) = some (1 / 4) := by
  norm_num [stage1, maxLt, maxCoeff, slack, move, mv, dot, vadd, vsub, smul]

example : doneStatus true (1 / 10 : ℚ) (1 / 10) (1 / 10) (1 / 5) = .converged ∧
    doneStatus true (1 / 10 : ℚ) (1 / 2) (1 / 10) (1 / 5) = .unbounded ∧
    doneStatus false (1 / 10 : ℚ) (1 / 10) (1 / 10) (1 / 5) = .unfeasible := by
  refine ⟨?_, ?_, ?_⟩ <;> norm_num [doneStatus, cmax3, cmax]

/-! ### non-vacuity of the gap-closing theorems -/

/-- `min x  s.t.  −x ≤ 0` at `x = 1, u = 1`: the system the code assembles is `[1]·dx = −9/10`; its solution is the Newton
    direction (hypotheses of `newton_solution_is_newton_direction`) -/
def exL (α : Type) [Field α] : Prog α := ⟨[], [1], [], [], [[-1]], [0]⟩

example : mv (kktMat (exL ℚ) (kktTopLeft (exL ℚ) [1] [1])) ([-9 / 10] ++ []) =
    kktVec (exL ℚ) [1] (update (exL ℚ) 1 10 [1] [1] [] ⟨0, 0, [], [], []⟩) := by
  norm_num [exL, kktMat, kktTopLeft, topLeftOf, hessvar, mmul, transp, rowScale, vdivE, slack, mv, dot, vsub, smul, tmv, axpy,
    zeros, mneg, vneg, kktVec, kktVecOf, newtonRhs, update, gradObj, vadd, Prog.n, Prog.m, Prog.p, List.replicate]

example : WF (exL ℚ) ∧ (∀ a ∈ slack (exL ℚ) [1], a < 0) := by
  refine ⟨by constructor <;> simp [exL, Prog.n], ?_⟩
  norm_num [exL, slack, mv, dot, vsub]

/-- `min ½x² − x` without constraints: the system is `[1]·x = 1` (hypotheses of `noineq_exact_solution_optimal`) -/
example : mv (kktMat (⟨[[1]], [-1], [], [], [], []⟩ : Prog ℚ) (kktTopLeft0 ⟨[[1]], [-1], [], [], [], []⟩)) ([1] ++ []) =
    kktVec0 (⟨[[1]], [-1], [], [], [], []⟩ : Prog ℚ) := by
  norm_num [kktMat, kktTopLeft0, topLeftOf, zeroM, msub, vsub, zeros, transp, mv, dot, kktVec0, kktVecOf, vneg, Prog.n, Prog.p,
    List.replicate]

section runQ
/-- for the runs below `sqrt` and `isfinite` may be anything: the theorems about exits and statuses do not use them -/
local instance : Sqrt ℚ := ⟨fun x => x⟩
local instance : FinTest ℚ := ⟨fun _ => true⟩

def exPar : Params ℚ := ⟨1 / 1000, 1 / 100000000, 1000000, 99 / 100, 10, 1 / 100, 9 / 10, 2, 0, 3, 5⟩
/-- an oracle that declares every system unstable: the first iteration leaves through `done` -/
def exNewton : Newton ℚ := fun _ _ _ _ _ => (false, [0], [0], [])

theorem exPar_ok : ParOk exPar := by constructor <;> norm_num [exPar]
theorem exNewton_shapes : NewtonShapes (exL ℚ) exNewton := by intro k x u v st; simp [exNewton, exL, Prog.n]

/-- `solve_with_inequality` on `min x s.t. −x ≤ 0` from `x0 = 1` with `epsilon = 2` reports `converged`
    (the hypothesis of `solve_converged_sound`, an exit of `solve_exits`, a `.stop` for `iterate_status_iff`) -/
example : (solveIneq (exL ℚ) 1 exPar 0 exNewton [1]).status = .converged := by
  norm_num [solveIneq, start, slack, exL, mv, dot, vsub, maxCoeff, update, gradObj, objective, vadd, tmv, axpy, zeros, Prog.n,
    Prog.m, Prog.p, loop, exPar, exNewton, iterate, done, doneStatus, feasible, maxLt, cmax3, cmax, norm2, sumsq, Sqrt.sqrt,
    exitKind, List.replicate]

/-- a refused start: `x0 = −1` violates `−x ≤ 0` -/
example : start (exL ℚ) 1 10 0 [-1] = none := by
  norm_num [start, slack, exL, mv, dot, vsub, maxCoeff]
end runQ

/-- `reduce` contract: `{x = 1, 2x = 2}` and `{x = 1}` have the same row space -/
example : RowEquiv 1 ([[1], [2]] : List (List ℚ)) [1, 2] [[1]] [1] := by
  refine ⟨⟨rfl, ?_⟩, ⟨rfl, ?_⟩⟩
  · intro p hp
    simp only [List.zip_cons_cons, List.zip_nil_right, List.mem_singleton] at hp
    subst hp
    exact ⟨[1, 0], by norm_num [tmv, axpy, zeros, List.replicate], by norm_num [dot]⟩
  · intro p hp
    simp only [List.zip_cons_cons, List.zip_nil_right, List.mem_cons, List.mem_nil_iff, or_false] at hp
    rcases hp with rfl | rfl
    · exact ⟨[1], by norm_num [tmv, axpy, zeros, List.replicate], by norm_num [dot]⟩
    · exact ⟨[2], by norm_num [tmv, axpy, zeros, List.replicate], by norm_num [dot]⟩

/-- `make_strictly_feasible` on `x ≤ 0` with the exact least-squares answer `x = −y`: the first trial `y = 1` succeeds -/
example : makeStrictlyFeasible (⟨[], [1], [], [], [[1]], [0]⟩ : Prog ℚ) (3 / 10) 50 (fun y => [-y]) = some [-1] := by
  norm_num [makeStrictlyFeasible, msfLoop, msfEval, maxLt, maxCoeff, slack, mv, dot, vsub]

/-- a program without any constraint: `m_kkt = 0` at a point that is NOT stationary (`min ½(x+y)² + x + 3y`, Q singular, at `(−1, 0)`:
    `Q x + c = (0, 2)`), replayed on the code by the corpus line "m_kkt without stationarity" -/
example : kktTest (⟨[[1, 1], [1, 1]], [1, 3], [], [], [], []⟩ : Prog ℚ) true [-1, 0] [] [] = 0 ∧
    lagGrad (⟨[[1, 1], [1, 1]], [1, 3], [], [], [], []⟩ : Prog ℚ) [-1, 0] [] [] = [0, 2] := by
  norm_num [kktTest, lagGrad, gradObj, mv, dot, vadd, tmv, zeros, Prog.n, List.replicate]

/-- the KKT point of `exP` has `m_kkt = 0` -/
example : kktTest (exP ℚ) false [1, 0] [2] [-1] ≤ 0 := by
  norm_num [kktTest, exP, slack, mv, dot, vsub, normInf, cmax, cabs, hmul, lagGrad, gradObj, vadd, tmv, axpy, zeros, Prog.n,
    List.replicate]

/-! the square-root hypothesis is satisfiable (ℝ), together with all the other hypotheses of the gap bounds -/
section real
noncomputable local instance : Sqrt ℝ := ⟨Real.sqrt⟩

theorem hsqrtReal : ∀ y : ℝ, 0 ≤ y → 0 ≤ Sqrt.sqrt y ∧ Sqrt.sqrt y * Sqrt.sqrt y = y :=
  fun y hy => ⟨Real.sqrt_nonneg y, Real.mul_self_sqrt hy⟩

example : objective (exP ℝ) [2, 1] - objective (exP ℝ) [1, 0] ≤
    (update (exP ℝ) 1 10 [2, 1] [2] [-1] ⟨0, 0, [], [], []⟩).eta +
      norm2 (update (exP ℝ) 1 10 [2, 1] [2] [-1] ⟨0, 0, [], [], []⟩).rdual * norm2 (vsub [2, 1] [1, 0]) +
      norm1 [-1] * norm2 (update (exP ℝ) 1 10 [2, 1] [2] [-1] ⟨0, 0, [], [], []⟩).rprim :=
  kkt_gap_bound_norm hsqrtReal (exP ℝ) exP_wf exP_convex 1 10 [2, 1] [2] [-1] [1, 0] ⟨0, 0, [], [], []⟩
    rfl rfl rfl rfl (by simp [exP]) (by simp) exP_feasible

/-- every hypothesis of `converged_gap_bound` holds for some `ε` (the three residual tests are plain inequalities) -/
example : ∃ eps : ℝ, objective (exP ℝ) [2, 1] - objective (exP ℝ) [1, 0] ≤
    (normalize (1 / 1000) (exP ℝ)).1 * (eps * (1 + norm2 (vsub [2, 1] [1, 0]) + norm1 [-1])) := by
  refine ⟨max (max
    (update (normalize (1 / 1000) (exP ℝ)).2 (normalize (1 / 1000) (exP ℝ)).1 10 [2, 1] [2] [-1] ⟨0, 0, [], [], []⟩).eta
    (norm2 (update (normalize (1 / 1000) (exP ℝ)).2 (normalize (1 / 1000) (exP ℝ)).1 10 [2, 1] [2] [-1] ⟨0, 0, [], [], []⟩).rdual))
    (norm2 (update (normalize (1 / 1000) (exP ℝ)).2 (normalize (1 / 1000) (exP ℝ)).1 10 [2, 1] [2] [-1] ⟨0, 0, [], [], []⟩).rprim)
    + 1, ?_⟩
  apply converged_gap_bound hsqrtReal (1 / 1000) (by norm_num) (exP ℝ) exP_wf exP_convex 10 _ [2, 1] [2] [-1] [1, 0]
    ⟨0, 0, [], [], []⟩ rfl rfl rfl rfl (by simp [exP]) (by simp) exP_feasible
  · exact lt_of_le_of_lt (le_trans (le_max_left _ _) (le_max_left _ _)) (lt_add_one _)
  · exact lt_of_le_of_lt (le_trans (le_max_right _ _) (le_max_left _ _)) (lt_add_one _)
  · exact lt_of_le_of_lt (le_max_right _ _) (lt_add_one _)

/-! every hypothesis of the end-to-end theorem `solve_converged_gap_bound` holds for a run over ℝ (`min x s.t. −x ≤ 0`
    from `x0 = 1`, `epsilon = 2`, an oracle that declares the first system unstable) -/
noncomputable local instance : FinTest ℝ := ⟨fun _ => true⟩

noncomputable def exParR : Params ℝ := ⟨1 / 1000, 1 / 100000000, 1000000, 99 / 100, 10, 1 / 100, 9 / 10, 2, 0, 3, 5⟩
noncomputable def exNewtonR : Newton ℝ := fun _ _ _ _ _ => (false, [0], [0], [])

theorem exL_norm : normalize exParR.minNorm (exL ℝ) = (1, exL ℝ) := by
  norm_num [normalize, normalizePair, normDenom, exParR, exL, normF, norm2, sumsqM, sumsq, dot, Sqrt.sqrt, cmax3, cmax,
    vdivs, Real.sqrt_zero, Real.sqrt_one]

theorem exRun_converged :
    (solveIneq (normalize exParR.minNorm (exL ℝ)).2 (normalize exParR.minNorm (exL ℝ)).1 exParR 0 exNewtonR [1]).status =
      .converged := by
  rw [exL_norm]
  norm_num [solveIneq, start, slack, exL, mv, dot, vsub, maxCoeff, update, gradObj, objective, vadd, tmv, axpy, zeros, Prog.n,
    Prog.m, Prog.p, loop, exParR, exNewtonR, iterate, done, doneStatus, feasible, maxLt, cmax3, cmax, norm2, sumsq, Sqrt.sqrt,
    exitKind, List.replicate, Real.sqrt_zero]

example : objective (exL ℝ)
      (solveIneq (normalize exParR.minNorm (exL ℝ)).2 (normalize exParR.minNorm (exL ℝ)).1 exParR 0 exNewtonR [1]).x -
      objective (exL ℝ) [0] ≤
    (normalize exParR.minNorm (exL ℝ)).1 * (exParR.epsilon * (1 +
      norm2 (vsub (solveIneq (normalize exParR.minNorm (exL ℝ)).2 (normalize exParR.minNorm (exL ℝ)).1 exParR 0 exNewtonR [1]).x [0]) +
      norm1 (solveIneq (normalize exParR.minNorm (exL ℝ)).2 (normalize exParR.minNorm (exL ℝ)).1 exParR 0 exNewtonR [1]).v)) :=
  solve_converged_gap_bound hsqrtReal (exL ℝ) (by constructor <;> simp [exL, Prog.n])
    ⟨fun a b _ _ => by simp [exL, mv], fun d _ => by simp [exL, mv]⟩ exParR (by constructor <;> norm_num [exParR])
    (by norm_num [exParR]) 0 exNewtonR (by intro k x u v st; simp [exNewtonR, exL, normalize, normalizePair, Prog.n])
    [1] [0] rfl rfl rfl (by constructor <;> simp [exL, mv, dot, LeV]) exRun_converged
end real

end NanoVerif.Program
