import NanoVerif.Proofs.ProgramRestate
import Mathlib.Algebra.Order.Field.Rat
import Mathlib.Tactic.NormNum
import Mathlib.Analysis.Real.Sqrt
/-!
  C04 — LP/QP interior point: `converged` means feasible and optimal as stated.

  Property theorems about `Model/Program.lean` (the model of `src/program/solver.cpp`), for every linear ordered field
  `α` (exact arithmetic), every program, every point, every answer of the oracles (Newton step, row reduction).
  Conventions of the statements:
  * vectors are lists, `LeV` is componentwise `≤` between vectors of equal length, `Feasible P x` is `A x = b ∧ G x ≤ h`,
    `IsArgmin P x` says `x` minimises the objective over the feasible set;
  * `WF P`: every row of `Q, A, G` has `n = |c|` entries and `Q` is empty (LP) or has `n` rows; the length hypotheses on
    `x, u, v, dx, …` are the shapes the C++ code allocates;
  * `Convex P`: the form `a, b ↦ a·(Q b)` is symmetric and positive semidefinite on vectors of length `n`
    (the solver does not check it; `quadratic_program_t::convex()` is the caller's business);
  * `min_norm > 0`, `0 < s0 < 1`, `0 ≤ beta ≤ 1`, `0 < numeric_limits::max()` are the constants / parameter domains of
    the code; `sqrt` is an arbitrary function unless a hypothesis says what is used of it.
-/
set_option linter.unusedSectionVars false
set_option linter.unusedVariables false

namespace NanoVerif.Program
variable {α : Type} [Field α] [LinearOrder α] [IsStrictOrderedRing α]

/-! ### normalisation -/

/-- The normalised program (rows of `[A|b]` and of `[G|h]` divided by `max(min_norm, ‖·‖, ‖·‖)`) has exactly the
    feasible set of the caller's program, whatever `sqrt` returns. -/
theorem normalise_same_feasible_set [Sqrt α] (minNorm : α) (hmin : 0 < minNorm) (P : Prog α) (x : List α) :
    Feasible (normalize minNorm P).2 x ↔ Feasible P x :=
  feasible_normalize minNorm hmin P x

/-- … and exactly the same minimisers (the objective is divided by `mufx > 0`). -/
theorem normalise_same_argmin [Sqrt α] (minNorm : α) (hmin : 0 < minNorm) (P : Prog α) (x : List α) :
    IsArgmin (normalize minNorm P).2 x ↔ IsArgmin P x := by
  have hm := mufx_pos minNorm hmin P
  unfold IsArgmin
  rw [feasible_normalize minNorm hmin]
  constructor
  · rintro ⟨hf, h⟩
    refine ⟨hf, fun y hy => ?_⟩
    have := h y ((feasible_normalize minNorm hmin P y).2 hy)
    rwa [objective_normalize _ hmin, objective_normalize _ hmin, div_le_div_iff_of_pos_right hm] at this
  · rintro ⟨hf, h⟩
    refine ⟨hf, fun y hy => ?_⟩
    have := h y ((feasible_normalize minNorm hmin P y).1 hy)
    rwa [objective_normalize _ hmin, objective_normalize _ hmin, div_le_div_iff_of_pos_right hm]

/-- `state.m_fx *= m_mufx`: the objective value the solver reports is the caller's objective at `x`
    (not the normalised one), at every `update`. -/
theorem reported_fx_is_objective [Sqrt α] (minNorm : α) (hmin : 0 < minNorm) (P : Prog α) (miu : α)
    (x u v : List α) (st : St α) :
    (update (normalize minNorm P).2 (normalize minNorm P).1 miu x u v st).fx = objective P x := by
  have hm := mufx_pos minNorm hmin P
  rw [update_fx, objective_normalize _ hmin, div_mul_cancel₀ _ (ne_of_gt hm)]

/-! ### the iterates stay in the interior -/

/-- A step `0 ≤ s ≤ s0 · make_smax(u, du)` with `0 < s0 < 1` keeps every multiplier strictly positive. -/
theorem u_stays_nonneg (big s0 s : α) (u du : List α) (hu : ∀ a ∈ u, 0 < a)
    (hs0 : 0 < s0) (hs01 : s0 < 1) (hs : 0 ≤ s) (hle : s ≤ s0 * makeSmax big u du) :
    ∀ a ∈ move u s du, 0 < a := by
  apply move_pos u du s hs hu
  intro p hp hlt
  have hpos : 0 < p.1 := hu p.1 (List.of_mem_zip (a := p.1) (b := p.2) hp).1
  have h1 := makeSmax_le big u du p hp hlt
  have hneg : 0 < -p.2 := by linarith
  have h2 : makeSmax big u du * (-p.2) ≤ p.1 := by
    have := mul_le_mul_of_nonneg_right h1 (le_of_lt hneg)
    have e : -p.1 / p.2 * (-p.2) = p.1 := by
      have : p.2 ≠ 0 := ne_of_lt hlt
      field_simp
    linarith
  have h3 : s * (-p.2) ≤ s0 * makeSmax big u du * (-p.2) := mul_le_mul_of_nonneg_right hle (le_of_lt hneg)
  have h4 : s0 * (makeSmax big u du * (-p.2)) ≤ s0 * p.1 := mul_le_mul_of_nonneg_left h2 (le_of_lt hs0)
  have h5 : s0 * p.1 < p.1 := by nlinarith
  have h6 : s0 * makeSmax big u du * (-p.2) = s0 * (makeSmax big u du * (-p.2)) := by ring
  linarith

/-- Stage 1 of the backtracking returns only a step `s ∈ [0, s_init]` with `G (x + s dx) < h` componentwise. -/
theorem Gx_lt_h_invariant (P : Prog α) (beta : α) (hb0 : 0 ≤ beta) (hb1 : beta ≤ 1) (x dx : List α)
    (k : Nat) (sInit s : α) (hs : 0 ≤ sInit) (h : stage1 P beta x dx k sInit = some s) :
    (∀ a ∈ slack P (move x s dx), a < 0) ∧ 0 ≤ s ∧ s ≤ sInit := by
  obtain ⟨h1, h2, h3⟩ := stage1_spec P beta hb0 hb1 x dx k sInit s hs h
  exact ⟨(maxLt_iff _ _).1 h1, h2, h3⟩

/-- Whenever the loop body hands `(x', u', v')` to the next iteration, `G x' < h` and `u' > 0` again
    (stage 2 only shortens the step of stage 1; `G x < h` is convex). -/
theorem iterate_keeps_interior [Sqrt α] [FinTest α] (P : Prog α) (mufx : α) (par : Params α)
    (x u v dx du dv x' u' v' : List α) (st st' : St α) (ok : Bool)
    (hbig : 0 < par.big) (hs0 : 0 < par.s0) (hs01 : par.s0 < 1) (hb0 : 0 ≤ par.beta) (hb1 : par.beta ≤ 1)
    (hxl : x.length = dx.length) (hint : ∀ a ∈ slack P x, a < 0) (hu : ∀ a ∈ u, 0 < a)
    (h : iterate P mufx par x u v st ok dx du dv = .next x' u' v' st') :
    (∀ a ∈ slack P x', a < 0) ∧ (∀ a ∈ u', 0 < a) := by
  have hsm : 0 < makeSmax par.big u du := makeSmax_pos par.big hbig u du hu
  have hinit : 0 ≤ par.s0 * makeSmax par.big u du := le_of_lt (mul_pos hs0 hsm)
  unfold iterate at h
  split at h
  · cases h
  · split at h
    · cases h
    · rename_i s1 hs1
      obtain ⟨g1, g2, g3⟩ := Gx_lt_h_invariant P par.beta hb0 hb1 x dx par.maxLs _ s1 hinit hs1
      dsimp only at h
      split at h
      · cases h
      · rename_i s2 st2 hs2
        obtain ⟨k1, k2, _, _⟩ := stage2_spec P mufx par.miu par.alpha par.beta hb0 hb1 x u v dx du dv _ par.maxLs s1 s2
          st st2 g2 hs2
        split at h
        · cases h
        · split at h
          · cases h
          · simp only [Outcome.next.injEq] at h
            obtain ⟨rfl, rfl, _, _⟩ := h
            exact ⟨slack_interp P.G P.h x dx s1 s2 hxl hint g1 k1 k2,
              u_stays_nonneg par.big par.s0 s2 u du hu hs0 hs01 k1 (le_trans k2 g3)⟩

/-! ### the status decision -/

/-- `solver_t::done` reports `converged` exactly when the feasibility test passes and all three of
    `eta`, `‖rdual‖₂`, `‖rprim‖₂` are below `epsilon`. -/
theorem converged_iff_done_test (feas : Bool) (eta rd rp eps : α) :
    doneStatus feas eta rd rp eps = .converged ↔ feas = true ∧ eta < eps ∧ rd < eps ∧ rp < eps := by
  unfold doneStatus
  cases feas
  · simp
  · by_cases h : cmax3 eta rd rp < eps
    · simp [h, (cmax3_lt_iff eta rd rp eps).1 h]
    · have : ¬ (eta < eps ∧ rd < eps ∧ rp < eps) := fun hh => h ((cmax3_lt_iff eta rd rp eps).2 hh)
      simp [h, this]

theorem done_converged [Sqrt α] (P : Prog α) (par : Params α) (x : List α) (st : St α)
    (h : done P par x st = .converged) :
    feasible P par.eps2 x = true ∧ st.eta < par.epsilon ∧ norm2 st.rdual < par.epsilon ∧
      norm2 st.rprim < par.epsilon :=
  (converged_iff_done_test _ _ _ _ _).1 h

/-- What `converged` out of the loop body means: the returned point passes `program_t::feasible`
    (`‖A x − b‖₂ < ε₂`, `max(G x − h) < ε₂` on the normalised program), the returned `eta`, `‖rdual‖₂`, `‖rprim‖₂` are
    below `epsilon`, and they — like the reported `fx` — are those of the returned `(x', u', v')` on every path
    (since the fix 51e9911 also when stage 2 runs out of trials: the state is reverted before `done`). -/
theorem iterate_converged_sound [Sqrt α] [FinTest α] (P : Prog α) (mufx : α) (par : Params α)
    (x u v dx du dv x' u' v' : List α) (st stp st' : St α) (ok : Bool)
    (hst : st = update P mufx par.miu x u v stp)
    (h : iterate P mufx par x u v st ok dx du dv = .stop .converged x' u' v' st') :
    (feasible P par.eps2 x' = true ∧ st'.eta < par.epsilon ∧ norm2 st'.rdual < par.epsilon ∧
      norm2 st'.rprim < par.epsilon) ∧
    ∃ stq, st' = update P mufx par.miu x' u' v' stq := by
  unfold iterate at h
  split at h
  · simp only [Outcome.stop.injEq] at h
    obtain ⟨hd, rfl, rfl, rfl, rfl⟩ := h
    exact ⟨done_converged P par x st hd, ⟨stp, hst⟩⟩
  · split at h
    · simp only [Outcome.stop.injEq] at h
      obtain ⟨hd, rfl, rfl, rfl, rfl⟩ := h
      exact ⟨done_converged P par x st hd, ⟨stp, hst⟩⟩
    · rename_i s1 hs1
      dsimp only at h
      split at h
      · rename_i stT hs2
        simp only [Outcome.stop.injEq] at h
        obtain ⟨hd, rfl, rfl, rfl, rfl⟩ := h
        exact ⟨done_converged P par x _ hd, ⟨stT, rfl⟩⟩
      · rename_i s2 st2 hs2
        obtain ⟨_, _, ⟨stq, hq⟩, _⟩ := stage2_spec' P mufx par.miu par.alpha par.beta x u v dx du dv _ par.maxLs s1 s2
          st st2 hs2
        split at h
        · simp at h
        · split at h
          · simp only [Outcome.stop.injEq] at h
            obtain ⟨hd, rfl, rfl, rfl, rfl⟩ := h
            exact ⟨done_converged P par _ st2 hd, ⟨stq, hq⟩⟩
          · cases h

/-- The equality-only path reports `converged` exactly when the residual is finite and the logged solution of the KKT
    system passes the `isApprox` test `‖K z − r‖² ≤ ε₂² min(‖K z‖², ‖r‖²)`. -/
theorem noineq_converged_sound [Sqrt α] [FinTest α] (P : Prog α) (mufx : α) (par : Params α) (x v : List α) :
    (noineq P mufx par x v).1 = .converged ↔
      FinTest.isFin (residual (noineq P mufx par x v).2) = true ∧ kktApprox P par.eps2 x v = true := by
  simp only [noineq]
  cases h1 : FinTest.isFin (residual (update P mufx par.miu x [] v ⟨0, 0, [], [], []⟩)) <;>
    cases h2 : kktApprox P par.eps2 x v <;> simp

/-! ### `converged` ⇒ ε-KKT ⇒ the objective is within the stated bound of the optimum -/

/-- Duality-gap inequality at any point of the iteration: for a convex program, `u ≥ 0` and ANY feasible `x*`,
    `f(x) − f(x*) ≤ eta + |rdual·(x − x*)| + |v·rprim|` with the `eta`, `rdual`, `rprim` that `update` computes.
    (`hG`: on the equality-only path `m_eta` is set to 0 by the caller of `update`.) -/
theorem kkt_gap_bound (P : Prog α) (wf : WF P) (cvx : Convex P) (mufx miu : α) (x u v xs : List α) (st : St α)
    (hx : x.length = P.n) (hxs : xs.length = P.n) (hu : u.length = P.G.length) (hv : v.length = P.A.length)
    (hG : P.G = [] → st.eta = 0) (hupos : ∀ a ∈ u, 0 ≤ a) (hfeas : Feasible P xs) :
    objective P x - objective P xs ≤
      (update P mufx miu x u v st).eta + |dot (update P mufx miu x u v st).rdual (vsub x xs)| +
        |dot v (update P mufx miu x u v st).rprim| :=
  gap_bound P wf cvx mufx miu x u v xs st hx hxs hu hv hG hupos hfeas

/-- The same with norms (Cauchy–Schwarz for `rdual·(x − x*)`, Hölder 1/∞ and `‖·‖∞ ≤ ‖·‖₂` for `v·rprim`):
    `f(x) − f(x*) ≤ eta + ‖rdual‖₂ ‖x − x*‖₂ + ‖v‖₁ ‖rprim‖₂`. Used of `sqrt`: `sqrt y ≥ 0`, `sqrt y · sqrt y = y` for `y ≥ 0`. -/
theorem kkt_gap_bound_norm [Sqrt α] (hsqrt : ∀ y : α, 0 ≤ y → 0 ≤ Sqrt.sqrt y ∧ Sqrt.sqrt y * Sqrt.sqrt y = y)
    (P : Prog α) (wf : WF P) (cvx : Convex P) (mufx miu : α) (x u v xs : List α) (st : St α)
    (hx : x.length = P.n) (hxs : xs.length = P.n) (hu : u.length = P.G.length) (hv : v.length = P.A.length)
    (hG : P.G = [] → st.eta = 0) (hupos : ∀ a ∈ u, 0 ≤ a) (hfeas : Feasible P xs) :
    objective P x - objective P xs ≤
      (update P mufx miu x u v st).eta + norm2 (update P mufx miu x u v st).rdual * norm2 (vsub x xs) +
        norm1 v * norm2 (update P mufx miu x u v st).rprim :=
  gap_bound_norm hsqrt P wf cvx mufx miu x u v xs st hx hxs hu hv hG hupos hfeas

/-- The bound of the property statement: if the `done` test passes at `(x, u, v)` on the NORMALISED program then, in the
    CALLER's units and against ANY point `x*` feasible for the caller's program,
    `f(x) − f(x*) ≤ mufx · ε · (1 + ‖x − x*‖₂ + ‖v‖₁)` where `mufx = max(min_norm, ‖Q‖_F, ‖c‖₂)` (the `M` of the
    statement; its `1e-8` is `ε = 1e-10` with the 100× allowance, its `‖u‖₁` term is slack). -/
theorem converged_gap_bound [Sqrt α] (hsqrt : ∀ y : α, 0 ≤ y → 0 ≤ Sqrt.sqrt y ∧ Sqrt.sqrt y * Sqrt.sqrt y = y)
    (minNorm : α) (hmin : 0 < minNorm) (P : Prog α) (wf : WF P) (cvx : Convex P) (miu eps : α)
    (x u v xs : List α) (st : St α)
    (hx : x.length = P.n) (hxs : xs.length = P.n) (hu : u.length = P.G.length) (hv : v.length = P.A.length)
    (hG : P.G = [] → st.eta = 0) (hupos : ∀ a ∈ u, 0 ≤ a) (hfeas : Feasible P xs)
    (heta : (update (normalize minNorm P).2 (normalize minNorm P).1 miu x u v st).eta < eps)
    (hrd : norm2 (update (normalize minNorm P).2 (normalize minNorm P).1 miu x u v st).rdual < eps)
    (hrp : norm2 (update (normalize minNorm P).2 (normalize minNorm P).1 miu x u v st).rprim < eps) :
    objective P x - objective P xs ≤
      (normalize minNorm P).1 * (eps * (1 + norm2 (vsub x xs) + norm1 v)) :=
  gap_bound_converged hsqrt minNorm hmin P wf cvx miu eps x u v xs st hx hxs hu hv hG hupos hfeas heta hrd hrp

/-! ### equivalent restatements describe the same mathematical program -/

/-- inequality rows rescaled by positive factors -/
theorem restatement_equiv_scale_ineq (P : Prog α) (w x : List α) (hw : ∀ a ∈ w, 0 < a)
    (hwl : w.length = P.G.length) (hhl : P.h.length = P.G.length) :
    Feasible { P with G := scaleRows w P.G, h := vmul w P.h } x ↔ Feasible P x :=
  feasible_scale_ineq P w x hw hwl hhl

/-- equality rows rescaled by non-zero factors (either sign) -/
theorem restatement_equiv_scale_eq (P : Prog α) (w x : List α) (hw : ∀ a ∈ w, a ≠ 0)
    (hwl : w.length = P.A.length) (hbl : P.b.length = P.A.length) :
    Feasible { P with A := scaleRows w P.A, b := vmul w P.b } x ↔ Feasible P x :=
  feasible_scale_eq P w x hw hwl hbl

/-- an equality row that is a linear combination `Σ tᵢ (Aᵢ | bᵢ)` of the others is appended -/
theorem restatement_equiv_combined_eq (P : Prog α) (wf : WF P) (t x : List α) (hx : x.length = P.n)
    (ht : t.length = P.A.length) (hbl : P.b.length = P.A.length) :
    Feasible { P with A := P.A ++ [tmv P.n P.A t], b := P.b ++ [dot t P.b] } x ↔ Feasible P x :=
  feasible_combined_eq P wf t x hx ht hbl

/-- an equality row is duplicated -/
theorem restatement_equiv_dup_eq (P : Prog α) (r : List α) (bi : α) (x : List α) (hmem : (r, bi) ∈ P.A.zip P.b)
    (hbl : P.b.length = P.A.length) :
    Feasible { P with A := P.A ++ [r], b := P.b ++ [bi] } x ↔ Feasible P x :=
  feasible_dup_eq P r bi x hmem hbl

/-- the objective multiplied by `κ > 0`: same feasible set, same minimisers, `f' = κ f` -/
theorem restatement_equiv_scale_obj (P : Prog α) (k : α) (hk : 0 < k) (x : List α) :
    (IsArgmin { P with Q := P.Q.map (smul k), c := smul k P.c } x ↔ IsArgmin P x) ∧
      objective { P with Q := P.Q.map (smul k), c := smul k P.c } x = k * objective P x :=
  argmin_scale_obj P k hk x

/-- the rows of `[A|b]` and of `[G|h]` permuted -/
theorem restatement_equiv_perm_rows (P P' : Prog α) (x : List α)
    (hA : (P.A.zip P.b).Perm (P'.A.zip P'.b)) (hG : (P.G.zip P.h).Perm (P'.G.zip P'.h))
    (hb : P.b.length = P.A.length) (hb' : P'.b.length = P'.A.length)
    (hh : P.h.length = P.G.length) (hh' : P'.h.length = P'.G.length) :
    Feasible P' x ↔ Feasible P x :=
  feasible_perm_rows P P' x hA hG hb hb' hh hh'

/-- the variables permuted (`idx` a permutation of `0 … n−1`; columns of `A`, `G`, rows and columns of `Q`, entries of
    `c` and of the point): same feasibility, same objective value, hence the same minimisers up to the permutation -/
theorem restatement_equiv_perm_vars (P : Prog α) (wf : WF P) (idx : List Nat) (hidx : idx.Perm (List.range P.n))
    (x : List α) (hx : x.length = P.n) :
    (Feasible (permVars idx P) (pick 0 idx x) ↔ Feasible P x) ∧
      objective (permVars idx P) (pick 0 idx x) = objective P x :=
  perm_vars_equiv P wf idx hidx x hx

/-! ### non-vacuity: `min ½x₀² + 3x₁  s.t.  x₀ + x₁ = 1,  −x₁ ≤ 0`, optimum `x* = (1, 0)`, `u* = 2`, `v* = −1` -/

def exP (α : Type) [Field α] : Prog α := ⟨[[1, 0], [0, 0]], [0, 3], [[1, 1]], [1], [[0, -1]], [0]⟩

theorem exP_wf : WF (exP α) := by
  constructor <;> simp [exP, Prog.n]

theorem exP_feasible : Feasible (exP α) [1, 0] := by
  constructor
  · simp [exP, mv, dot]
  · simp [exP, mv, dot, LeV]

theorem exP_convex : Convex (exP α) := by
  constructor
  · intro a b ha hb
    match a, b, ha, hb with
    | [a0, a1], [b0, b1], _, _ => simp [exP, mv, dot]; ring
  · intro d hd
    match d, hd with
    | [d0, d1], _ => simp [exP, mv, dot]; exact mul_self_nonneg d0

/-- the KKT point has zero residuals and zero `eta` (ℚ): the ε-KKT hypotheses are satisfiable and the bound is then tight -/
example : (update (exP ℚ) 1 10 [1, 0] [2] [-1] ⟨0, 0, [], [], []⟩).rdual = [0, 0] ∧
    (update (exP ℚ) 1 10 [1, 0] [2] [-1] ⟨0, 0, [], [], []⟩).rprim = [0] ∧
    (update (exP ℚ) 1 10 [1, 0] [2] [-1] ⟨0, 0, [], [], []⟩).eta = 0 := by
  norm_num [update, exP, gradObj, slack, mv, dot, vadd, vsub, tmv, zeros, Prog.n, Prog.m, List.replicate_succ, axpy]

/-- `make_smax` is the textbook ratio test -/
example : makeSmax (1000 : ℚ) [1, 2] [-2, 1] = 1 / 2 := by
  norm_num [makeSmax, smaxLoop, cmin]

/-- stage 1 backtracks once (`x ≤ 1`, from `x = 0` along `dx = 3`: `s = 1/2` leaves the interior, `s = 1/4` does not):
    the hypothesis of `Gx_lt_h_invariant` is satisfiable with a step that is not the initial one -/
example : stage1 (⟨[], [0], [], [], [[1]], [1]⟩ : Prog ℚ) (1 / 2) [0] [3] 5 (1 / 2) = some (1 / 4) := by
  norm_num [stage1, maxLt, maxCoeff, slack, move, mv, dot, vadd, vsub, smul]

example : doneStatus true (1 / 10 : ℚ) (1 / 10) (1 / 10) (1 / 5) = .converged ∧
    doneStatus true (1 / 10 : ℚ) (1 / 2) (1 / 10) (1 / 5) = .unbounded ∧
    doneStatus false (1 / 10 : ℚ) (1 / 10) (1 / 10) (1 / 5) = .unfeasible := by
  refine ⟨?_, ?_, ?_⟩ <;> norm_num [doneStatus, cmax3, cmax]

/-! the square-root hypothesis is satisfiable (ℝ), together with all the other hypotheses of the gap bounds -/
section real
noncomputable local instance : Sqrt ℝ := ⟨Real.sqrt⟩

theorem hsqrtReal : ∀ y : ℝ, 0 ≤ y → 0 ≤ Sqrt.sqrt y ∧ Sqrt.sqrt y * Sqrt.sqrt y = y :=
  fun y hy => ⟨Real.sqrt_nonneg y, Real.mul_self_sqrt hy⟩

example : objective (exP ℝ) [2, 1] - objective (exP ℝ) [1, 0] ≤
    (update (exP ℝ) 1 10 [2, 1] [2] [-1] ⟨0, 0, [], [], []⟩).eta +
      norm2 (update (exP ℝ) 1 10 [2, 1] [2] [-1] ⟨0, 0, [], [], []⟩).rdual * norm2 (vsub [2, 1] [1, 0]) +
      norm1 [-1] * norm2 (update (exP ℝ) 1 10 [2, 1] [2] [-1] ⟨0, 0, [], [], []⟩).rprim :=
  kkt_gap_bound_norm hsqrtReal (exP ℝ) exP_wf exP_convex 1 10 [2, 1] [2] [-1] [1, 0] ⟨0, 0, [], [], []⟩
    rfl rfl rfl rfl (by simp [exP]) (by simp) exP_feasible

/-- every hypothesis of `converged_gap_bound` holds for some `ε` (the three residual tests are plain inequalities) -/
example : ∃ eps : ℝ, objective (exP ℝ) [2, 1] - objective (exP ℝ) [1, 0] ≤
    (normalize (1 / 1000) (exP ℝ)).1 * (eps * (1 + norm2 (vsub [2, 1] [1, 0]) + norm1 [-1])) := by
  refine ⟨max (max
    (update (normalize (1 / 1000) (exP ℝ)).2 (normalize (1 / 1000) (exP ℝ)).1 10 [2, 1] [2] [-1] ⟨0, 0, [], [], []⟩).eta
    (norm2 (update (normalize (1 / 1000) (exP ℝ)).2 (normalize (1 / 1000) (exP ℝ)).1 10 [2, 1] [2] [-1] ⟨0, 0, [], [], []⟩).rdual))
    (norm2 (update (normalize (1 / 1000) (exP ℝ)).2 (normalize (1 / 1000) (exP ℝ)).1 10 [2, 1] [2] [-1] ⟨0, 0, [], [], []⟩).rprim)
    + 1, ?_⟩
  apply converged_gap_bound hsqrtReal (1 / 1000) (by norm_num) (exP ℝ) exP_wf exP_convex 10 _ [2, 1] [2] [-1] [1, 0]
    ⟨0, 0, [], [], []⟩ rfl rfl rfl rfl (by simp [exP]) (by simp) exP_feasible
  · exact lt_of_le_of_lt (le_trans (le_max_left _ _) (le_max_left _ _)) (lt_add_one _)
  · exact lt_of_le_of_lt (le_trans (le_max_right _ _) (le_max_left _ _)) (lt_add_one _)
  · exact lt_of_le_of_lt (le_max_right _ _) (lt_add_one _)
end real

end NanoVerif.Program
