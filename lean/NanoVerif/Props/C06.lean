import NanoVerif.Gen.Flags
import NanoVerif.Proofs.C06Enet
import NanoVerif.Proofs.C06Deriv
import NanoVerif.Proofs.C06GradFn2
import NanoVerif.Proofs.C06GradLoss
import NanoVerif.Proofs.C06GradComp
import NanoVerif.Proofs.C06GradKink3
import NanoVerif.Proofs.C06Maxquad
import NanoVerif.Proofs.C06Batch
import NanoVerif.Proofs.C06Base
import NanoVerif.Proofs.C06Strong
import NanoVerif.Proofs.C06Gen
import NanoVerif.Proofs.C06Sizes
import NanoVerif.Proofs.C06Length
/-!
  C06 — values, gradients and convexity flags of functions, losses and constraints are truthful.

  Everything is stated about the executable models `Model/Loss.lean` / `Model/Functions.lean` (the definitions the driver
  runs at `Float` against the implementation), in exact arithmetic: over an arbitrary linear ordered field `α` for the
  piecewise-polynomial kernels (with an arbitrary, unused `Transc α`), over `ℝ` where exp / log / atan occur.
  `X_subgrad` is the inequality of the statement, `f(z) ≥ f(x) + g(x)·(z − x) (+ μ/2 ‖z − x‖²)`, for the value `f` and the
  (sub-)gradient `g` the code returns, for ALL points `x`, `z` of the right dimension.
  `X_hasDerivAt_line` is the first clause of the statement, "the returned (sub)gradient is the derivative of the returned
  value": `HasDerivAt (fun t => f (x + t • d)) (g(x)·d) 0` for ALL `x`, `d` — unconditional for the objects that declare
  themselves smooth, at every point off the kinks / ties (`…_off_kinks`, `…_off_ties`) for the others.
  `flags_covered` / `smooth_covered` / `gradient_covered` / `strong_covered` tie the theorems to the flags the implementation
  declares (`Gen/Flags.lean`, regenerated on every run).

  ## Gap table (gap-closing round): every function of the anchored files
  status: `modelled` (Lean definition named), `translated` (regenerated into Gen/), `oracle` (parameter of the model, contract
  stated; how the contract is checked), `outside` (why).

  src/function/benchmark/*.cpp (`do_vgrad`, constructors, `make`, `clone`)
    sphere, axis_ellipsoid, schumer_steiglitz, qing, styblinski_tang, chung_reynolds, sargan, zakharov, rotated_ellipsoid,
    trid, chained_lq, rosenbrock, dixon_price, powell, maxq, maxhilb, chained_cb3I/II, exponential, cauchy ::do_vgrad
                                        modelled   Fn.sphereF/G … Fn.cauchyF/G (Model/Functions.lean)
    kinks, quadratic, geometric ::do_vgrad
                                        modelled   Fn.kinksF/G, quadraticF/G, geomF/G; the matrices drawn at construction
                                                   (make_random_matrix / _vector, seed 42) are ORACLE parameters: reproduced in the
                                                   harness with the constructor's own calls and handed to the model; contract of
                                                   `quadratic` (A self-adjoint, PSD, μ ≤ λ_min) monitored on every `fn flags` op
                                                   (python Jacobi), theorem under the contract: quadratic_subgrad(_mu)
    maxquad ::do_vgrad                  modelled   Fn.maxquadF/G; the two `fill()` (exp/cos/sin formulas) are ORACLE: recomputed in
                                                   the harness by a copy of the formulas; contract (A_k symmetric, diagonally
                                                   dominant, non-negative diagonal ⇒ PSD by Gershgorin, not formalised) monitored
                                                   on every `fn flags maxquad` op
    elastic_net.cpp function_enet_t<tloss>::do_vgrad, elastic_net.h loss_{mse,mae,cauchy,hinge,logistic}_t
                                        modelled   Fn.enetF/G, enetMseV/G … enetLogisticV/G
    linear.cpp synthetic_linear_t / _sclass_t / _scalar_t (random data of the elastic-net prototypes)
                                        oracle     data produced by the constructor's own calls in the harness; the theorems hold
                                                   for EVERY data matrix / bias / targets (no contract needed)
    every constructor's `function_t(id, size)` and `make(dims, summands)`
                                        modelled   FnBase.SizeRule / sizeBy / makeSize; sizes_covered (dump for dims 1..32),
                                                   powell_size, powell_gradient_complete
    every constructor's convex(…) / smooth(…) / strong_convexity(…)
                                        dumped     Gen/Flags.lean rows (run-time dump); flags_covered … strong_values_covered
    clone()                             outside    C19's subject (clone canonical form)
  src/function.cpp
    function_t::function_t, convex / smooth / strong_convexity setters + getters (function.h)
                                        dumped     Gen/Flags.lean (what the getters return after construction)
    constrain ×4, valid, constraints    modelled   FnBase.step (.cg / .cb / .cd / .cv / .valid), function_constrain_acceptance,
                                                   function_constraints_invariant, function_box_counts, function_valid_iff
    vgrad (call counters), fcalls, gcalls, clear_statistics
                                        modelled   FnBase.step (.eval / .clr), function_call_counters
    name                                outside    a string; no clause of the statement
    make(dims, summands) base version   outside    returns null; never reached through the factory
    all()                               dumped     the ids of Gen/Flags.lean; static_checks: ≥ 48 prototypes
    make(config, regex)                 outside    a filter over `all()` by the flags + the dims schedule 1,2,3,4,8,…: test utility
  src/function/util.cpp
    grad_accuracy                       outside    the library's own difference-quotient test (used by its unit tests); the
                                                   python oracle evaluates the same clause independently (check_cd)
    is_convex                           outside    the library's own chord test; run as a MONITOR in every `fn cvx` op: it must accept
                                                   every pair of an object whose sub-gradient inequality holds (key is_convex-rejects)
    convex(matrix), strong_convexity(matrix)
                                        oracle     Eigen eigenvalues; contract "PSD iff convex, μ = max(0, λ_min)" monitored on every
                                                   quadratic-constraint op and every `fn flags quadratic` op by python Jacobi rotations;
                                                   theorems under the contract: cquad_subgrad(_mu), quadratic_subgrad(_mu)
  include/nano/loss/flatten.h
    flatten_loss_t::error / value / vgrad (loop over the samples of 4-D tensors)
                                        modelled   Loss.batchMap / batchFlat / sampleAt (Model/LossBatch.lean); loss_batch_*
    detail::{exponential,hinge,squared_hinge,savage,tangent,mae,mse,cauchy}_t::value / vgrad
                                        translated Gen/LossKernels.lean <k>V / <k>G / <k>Value / <k>Vgrad = the model's text by rfl
                                                   (model_loss_*_are_generated)
    detail::logistic_t::value / vgrad   translated Gen/LossKernels.lean logisticV / logisticG (scalar loop body), rfl
    detail::classnll_t::value / vgrad   modelled   Loss.classnllV / classnllG (hand-written: two loops, running maximum)
    static constexpr convex / smooth    translated Gen.LossKernels.kernelFlags; static_checks compares with the run-time dump
  include/nano/loss/error.h
    absdiff_t::error                    translated Gen.LossKernels.absdiffError = Loss.absdiffE by rfl
    mclass_t::error                     translated Gen.LossKernels.mclassEdge / mclassWrong; model_count_edges_is_generated (induction)
    sclass_t::error                     modelled   Loss.sclassE / argmax (hand-written: branch on the number of outputs)
  include/nano/loss/class.h  is_pos_target  modelled  Loss.isPos / `0 < t`;  class_target: outside (target construction, C08)
  src/loss/pinball.cpp
    pinball_loss_t::value / vgrad       translated Gen.LossKernels.pinballV / pinballG, rfl;  error = value: modelled (Err.value)
    constructor (alpha ∈ [0, 1])        modelled   hypothesis of pinball_subgrad / loss_nonneg; necessity: pinball_negative_outside_domain
  src/loss.cpp  loss_t::all()           modelled   Loss.parseId (17 ids);  convex / smooth setters: dumped (Gen/Flags.lean)
  src/function/constraint.cpp
    ::vgrad ×7                          modelled   Fn.ballF/G, linearF/G, cquadF/G, minimumF/G, maximumF/G (and Constraint.C.vgrad, C05)
    ::convex / ::smooth / ::strong_convexity ×5 and their visitors
                                        dumped     Gen/Flags.lean ct rows; quadratic: ORACLE nano::convex (see util.cpp) on the
                                                   SYMMETRIC part (`symmetrized`): cquad_flags_need_symmetric_part
    ::valid ×11, ::compatible ×5, is_equality, count_equalities / _inequalities
                                        modelled   Constraint.C.valid / compatible / isEq / countEq / countIneq (C05's model), used by
                                                   FnBase.step; function_valid_iff, function_constraints_invariant
    functional_t ctors / operator=      outside    deep copy of the wrapped function (C19 clone)
  src/linear/function.cpp, src/gboost/function.cpp (scale / bias / grads), src/tuner/surrogate.cpp (fit / quadratic)
    do_vgrad                            modelled   as COMPOSITIONS: affine_comp_subgrad / sum_subgrad / ridge_(partial_)subgrad_mu and the
                                                   _hasDerivAt_line versions (the loss kernel's inequality / derivative is inherited);
                                                   their plumbing (iterator, accumulators, threads) is C09's model (Model/ObjectiveIter.lean),
                                                   the surrogate's feature map and fit are C13's (Model/TunerSurrogate.lean: quadTerms,
                                                   fitValue / fitGrad, quadValue / quadGrad); here: search on the real objects incl.
                                                   multi-output and subset-of-samples cases (`linsub`, `gbiassub`)
    constructors (convex / smooth / strong_convexity from the loss and the regularisation)
                                        outside    flags returned with every cd / cvx / climb answer and tested against them; the
                                                   declared μ of linear::function_t is the OPEN FINDING (bias direction)
    surrogate_tuner_t::do_optimize      outside    C13
-/
set_option linter.unusedSectionVars false
set_option linter.unusedVariables false

namespace NanoVerif.C06
open NanoVerif.Loss NanoVerif.Fn NanoVerif.Gen.Flags

/-! ## losses: the sub-gradient inequality of every kernel flagged convex -/

section field
variable {α : Type} [Field α] [LinearOrder α] [IsStrictOrderedRing α] [Transc α]

/-- sums of scalar kernels: if every `k(t, ·)` lies above its tangents with slope `g(t, ·)`, then the multi-output loss
    `Σ_i k(t_i, o_i)` lies above its tangent planes with gradient `[g(t_i, o_i)]_i` -/
theorem elementwise_sum_subgrad (k g : α → α → α) (hk : ∀ t x z, k t z ≥ k t x + g t x * (z - x))
    (t x z : List α) (hx : x.length = t.length) (hz : z.length = t.length) :
    sum2 k t z ≥ sum2 k t x + dot (map2 g t x) (vsub z x) :=
  sum2_subgrad k g hk t x z hx hz

theorem mae_subgrad (a eps : α) (t x z : List α) (hx : x.length = t.length) (hz : z.length = t.length) :
    value .mae a eps t z ≥ value .mae a eps t x + dot (vgrad .mae a t x) (vsub z x) :=
  sum2_subgrad maeV maeG maeK_subgrad t x z hx hz

theorem mse_subgrad (a eps : α) (t x z : List α) (hx : x.length = t.length) (hz : z.length = t.length) :
    value .mse a eps t z ≥ value .mse a eps t x + dot (vgrad .mse a t x) (vsub z x) :=
  sum2_subgrad_scaled (1 / 2) mseV mseG mseK_subgrad t x z hx hz

theorem hinge_subgrad (a eps : α) (t x z : List α) (hx : x.length = t.length) (hz : z.length = t.length) :
    value .hinge a eps t z ≥ value .hinge a eps t x + dot (vgrad .hinge a t x) (vsub z x) :=
  sum2_subgrad hingeV hingeG hingeK_subgrad t x z hx hz

theorem sqhinge_subgrad (a eps : α) (t x z : List α) (hx : x.length = t.length) (hz : z.length = t.length) :
    value .sqhinge a eps t z ≥ value .sqhinge a eps t x + dot (vgrad .sqhinge a t x) (vsub z x) :=
  sum2_subgrad sqhingeV sqhingeG sqhingeK_subgrad t x z hx hz

/-- pinball, for every `alpha` of the parameter's domain `[0, 1]` -/
theorem pinball_subgrad (a eps : α) (h0 : 0 ≤ a) (h1 : a ≤ 1) (t x z : List α)
    (hx : x.length = t.length) (hz : z.length = t.length) :
    value .pinball a eps t z ≥ value .pinball a eps t x + dot (vgrad .pinball a t x) (vsub z x) :=
  sum2_subgrad (pinballV a) (pinballG a) (pinballK_subgrad a h0 h1) t x z hx hz

end field

theorem exponential_subgrad (a eps : ℝ) (t x z : List ℝ) (hx : x.length = t.length) (hz : z.length = t.length) :
    value .exponential a eps t z ≥ value .exponential a eps t x + dot (vgrad .exponential a t x) (vsub z x) :=
  sum2_subgrad expV expG expK_subgrad t x z hx hz

/-- logistic as coded (both branches of the `x < 1` switch) -/
theorem logistic_subgrad (a eps : ℝ) (t x z : List ℝ) (hx : x.length = t.length) (hz : z.length = t.length) :
    value .logistic a eps t z ≥ value .logistic a eps t x + dot (vgrad .logistic a t x) (vsub z x) :=
  sum2_subgrad logisticV logisticG logisticK_subgrad t x z hx hz

/-- class negative log-likelihood without the `ε` inside the logarithm: for ANY shifts (the code uses the maximal
    output), the soft-max minus the positive-target indicator is a gradient inequality of log-sum-exp -/
theorem classnll_subgrad (cx cz : ℝ) (t x z : List ℝ) (hne : t ≠ []) (hx : x.length = t.length)
    (hz : z.length = t.length) :
    classnllShift 0 cz t z ≥ classnllShift 0 cx t x + dot (classnllGShift cx t x) (vsub z x) := by
  have hxne : x ≠ [] := by intro h; rw [h] at hx; exact hne (List.eq_nil_of_length_eq_zero hx.symm)
  have hl : z.length = x.length := by rw [hz, hx]
  have h := lse_tangent cx cz x z hxne hl
  unfold classnllShift classnllGShift
  simp only [tlog_eq, zero_add]
  rw [classnllG_dot cx (expSum cx x) t x z hx hz]
  linarith

/-- class negative log-likelihood AS CODED (`value` has `+ε` inside the logarithm, `vgrad` has not; shift = maximal
    output): the inequality holds up to the additive constant `log(1 + ε)` (≤ 2.3e-16 for the machine epsilon) -/
theorem classnll_subgrad_eps (a eps : ℝ) (heps : 0 ≤ eps) (t x z : List ℝ) (hne : t ≠ [])
    (hx : x.length = t.length) (hz : z.length = t.length) :
    value .classnll a eps t z ≥ value .classnll a eps t x + dot (vgrad .classnll a t x) (vsub z x)
      - Real.log (1 + eps) := by
  have hxne : x ≠ [] := by intro h; rw [h] at hx; exact hne (List.eq_nil_of_length_eq_zero hx.symm)
  have hzne : z ≠ [] := by intro h; rw [h] at hz; exact hne (List.eq_nil_of_length_eq_zero hz.symm)
  have h0 := classnll_subgrad (maxCoeff x) (maxCoeff z) t x z hne hx hz
  have hSz := expSum_pos (maxCoeff z) z hzne
  have hSx := expSum_pos (maxCoeff x) x hxne
  have hSx1 := expSum_ge_one (maxCoeff x) x (maxCoeff_mem x hxne)
  show classnllV eps t z ≥ classnllV eps t x + dot (classnllG t x) (vsub z x) - Real.log (1 + eps)
  unfold classnllV classnllG classnllShift at *
  simp only [tlog_eq, zero_add] at *
  -- log(ε + S_z) ≥ log S_z   and   log(ε + S_x) ≤ log S_x + log(1 + ε)  (S_x ≥ 1)
  have hz1 : Real.log (expSum (maxCoeff z) z) ≤ Real.log (eps + expSum (maxCoeff z) z) :=
    Real.log_le_log hSz (by linarith)
  have hx1 : Real.log (eps + expSum (maxCoeff x) x) ≤ Real.log (expSum (maxCoeff x) x) + Real.log (1 + eps) := by
    rw [← Real.log_mul (ne_of_gt hSx) (by linarith)]
    apply Real.log_le_log (by linarith)
    nlinarith
  linarith

/-! ## values and errors -/

/-- every loss value is non-negative (class-nll: see `classnll_nonneg`); pinball for `alpha ∈ [0, 1]` -/
theorem loss_nonneg (k : Kind) (hk : k ≠ .classnll) (a eps : ℝ) (h0 : 0 ≤ a) (h1 : a ≤ 1) (t o : List ℝ) :
    0 ≤ value k a eps t o := by
  cases k with
  | mae => exact sum2_nonneg _ maeV_nonneg t o
  | mse => exact mul_nonneg (by norm_num) (sum2_nonneg _ mseV_nonneg t o)
  | cauchy => exact mul_nonneg (by norm_num) (sum2_nonneg _ cauchyV_nonneg t o)
  | hinge => exact sum2_nonneg _ hingeV_nonneg t o
  | sqhinge => exact sum2_nonneg _ sqhingeV_nonneg t o
  | savage => exact sum2_nonneg _ savageV_nonneg t o
  | tangent => exact sum2_nonneg _ tangentV_nonneg t o
  | logistic => exact sum2_nonneg _ logisticV_nonneg t o
  | exponential => exact sum2_nonneg _ expV_nonneg t o
  | classnll => exact absurd rfl hk
  | pinball => exact sum2_nonneg _ (pinballV_nonneg a h0 h1) t o

/-- class-nll is non-negative when exactly one target is positive (the single-label case it is meant for):
    target `t1 ++ tk :: t2` with `tk > 0` and no other positive entry. With zero or several positive targets it can be
    negative (see the example at the end). -/
theorem classnll_nonneg (a eps : ℝ) (heps : 0 ≤ eps) (t1 t2 o1 o2 : List ℝ) (tk ok : ℝ)
    (h1 : t1.length = o1.length) (htk : 0 < tk)
    (hn1 : ∀ v ∈ t1, ¬ 0 < v) (hn2 : ∀ v ∈ t2, ¬ 0 < v) :
    0 ≤ value .classnll a eps (t1 ++ tk :: t2) (o1 ++ ok :: o2) := by
  show 0 ≤ classnllV eps (t1 ++ tk :: t2) (o1 ++ ok :: o2)
  unfold classnllV classnllShift
  set c := maxCoeff (o1 ++ ok :: o2)
  have hp : posSum (t1 ++ tk :: t2) (o1 ++ ok :: o2) = ok := by
    rw [posSum_append t1 o1 _ _ h1, posSum_nonpos_targets t1 o1 hn1]
    simp only [posSum, htk, if_true]
    rw [posSum_nonpos_targets t2 o2 hn2]; ring
  rw [hp]
  simp only [tlog_eq]
  have hS : Real.exp (ok - c) ≤ eps + expSum c (o1 ++ ok :: o2) := by
    rw [expSum_append]
    simp only [expSum, texp_eq]
    have := expSum_nonneg c o1; have := expSum_nonneg c o2
    linarith
  have := Real.log_le_log (Real.exp_pos _) hS
  rw [Real.log_exp] at this
  linarith

/-- every error measure is non-negative -/
theorem error_nonneg (k : Kind) (e : Err) (a eps : ℝ) (t o : List ℝ)
    (hv : e = .value → k ≠ .classnll ∧ 0 ≤ a ∧ a ≤ 1) : 0 ≤ error k e a eps t o := by
  cases e with
  | absdiff => exact absdiffE_nonneg t o
  | mclass => exact mclassE_nonneg eps t o
  | sclass => exact sclassE_nonneg eps t o
  | value => obtain ⟨h1, h2, h3⟩ := hv rfl; exact loss_nonneg k h1 a eps h2 h3 t o

section field
variable {α : Type} [Field α] [LinearOrder α] [IsStrictOrderedRing α]

/-- `argmax o` (the model of `maxCoeff(&idx)`) is the position of the first maximum -/
theorem argmax_spec (o : List α) (hne : o ≠ []) :
    ∃ mv, o[argmax o]? = some mv ∧ (∀ (j : Nat) (v : α), o[j]? = some v → v ≤ mv) ∧
      (∀ (j : Nat), j < argmax o → ∀ (v : α), o[j]? = some v → v < mv) :=
  argmax_spec_aux o hne

/-- single-label 0-1 error with more than one output: no error iff the target at the arg-max of the outputs is positive -/
theorem sclass_error_iff_argmax (eps : α) (t o : List α) (hn : t.length > 1) (hl : o.length = t.length) :
    (sclassE eps t o = 0 ↔ ∃ ti, t[argmax o]? = some ti ∧ 0 < ti) ∧ (sclassE eps t o = 0 ∨ sclassE eps t o = 1) := by
  unfold sclassE
  simp only [hn, if_true]
  have hone : o ≠ [] := by intro h; rw [h] at hl; simp at hl; omega
  obtain ⟨mv, hmv, _, _⟩ := argmax_spec_aux o hone
  have hidx : argmax o < t.length := by
    rw [← hl]
    by_contra hc
    have : o[argmax o]? = none := List.getElem?_eq_none (by omega)
    rw [this] at hmv; cases hmv
  rw [List.getElem?_eq_getElem hidx]
  simp only
  by_cases hp : 0 < t[argmax o]
  · simp [hp]
  · simp [hp]

/-- multi-label 0-1 error for `±1` targets: the number of outputs that do not decide for their target, where an output
    decides for the positive label iff `o ≥ ε` and for the negative label iff `o ≤ -ε` (the sign rule with a dead zone
    of width `ε` around 0 that always counts as an error) -/
theorem mclass_error_eq_count_sign (eps : α) (t o : List α) (ht : ∀ v ∈ t, v = 1 ∨ v = -1) :
    mclassE eps t o = ((countWrong eps t o : Nat) : α) := by
  unfold mclassE; rw [countEdges_eq_countWrong eps t o ht]

/-- binary classification (one output, `s-*` losses): no error iff the output decides for the target's sign -/
theorem binary_error_iff_sign (eps t o : α) (ht : t = 1 ∨ t = -1) :
    sclassE eps [t] [o] = 0 ↔ ((t = 1 ∧ eps ≤ o) ∨ (t = -1 ∧ o ≤ -eps)) := by
  unfold sclassE mclassE
  simp only [List.length_singleton, gt_iff_lt, lt_irrefl, if_false, countEdges, Nat.add_zero]
  have h := edge_lt_iff eps t o ht
  by_cases hc : t * o < eps
  · have := h.1 hc
    simp [hc, this]
  · have : (t = 1 ∧ eps ≤ o) ∨ (t = -1 ∧ o ≤ -eps) := by
      by_contra h2; exact hc (h.2 h2)
    simp [hc, this]

end field

/-! ## benchmark functions flagged convex -/

section field
variable {α : Type} [Field α] [LinearOrder α] [IsStrictOrderedRing α]

/-- sphere, declared `strong_convexity = 2` -/
theorem sphere_subgrad (x z : List α) (hl : z.length = x.length) :
    sphereF z ≥ sphereF x + dot (sphereG x) (vsub z x) + 2 / 2 * dot (vsub z x) (vsub z x) := by
  rw [sphere_aux x z hl]; simp

/-- axis-parallel ellipsoid, declared `strong_convexity = 2` -/
theorem axis_ellipsoid_subgrad (x z : List α) (hl : z.length = x.length) :
    axisF z ≥ axisF x + dot (axisG x) (vsub z x) + 2 / 2 * dot (vsub z x) (vsub z x) := axis_aux x z hl

theorem schumer_steiglitz_subgrad (x z : List α) (hl : z.length = x.length) :
    schumerF z ≥ schumerF x + dot (schumerG x) (vsub z x) := schumer_aux x z hl

theorem chung_reynolds_subgrad (x z : List α) (hl : z.length = x.length) :
    chungF z ≥ chungF x + dot (chungG x) (vsub z x) := chung_aux x z hl

theorem sargan_subgrad (x z : List α) (hl : z.length = x.length) :
    sarganF z ≥ sarganF x + dot (sarganG x) (vsub z x) := sargan_aux x z hl

theorem zakharov_subgrad (x z : List α) (hl : z.length = x.length) :
    zakharovF z ≥ zakharovF x + dot (zakharovG x) (vsub z x) := zakharov_aux x z hl

theorem rotated_ellipsoid_subgrad (x z : List α) (hl : z.length = x.length) :
    rotF 0 z ≥ rotF 0 x + dot (rotG 0 x) (vsub z x) := by
  have := rot_aux x z 0 0 hl
  simpa using this

theorem trid_subgrad (x z : List α) (hl : z.length = x.length) :
    tridF z ≥ tridF x + dot (tridG x) (vsub z x) := trid_aux x z hl

/-- random quadratic `x·(a + ½ A x)`: convex under the hypothesis that `A` (drawn as `I + R Rᵀ` at construction) is
    self-adjoint and positive semi-definite; the declared strong-convexity coefficient (smallest eigenvalue computed
    by Eigen) is tested only -/
theorem quadratic_subgrad (a : List α) (A : List (List α)) (x z : List α) (n : Nat)
    (hA : A.length = n) (ha : a.length = n) (hx : x.length = n) (hz : z.length = n)
    (hsym : ∀ u v : List α, u.length = n → v.length = n → dot u (mulVec A v) = dot v (mulVec A u))
    (hpsd : ∀ d : List α, d.length = n → 0 ≤ dot d (mulVec A d)) :
    quadraticF a A z ≥ quadraticF a A x + dot (quadraticG a A x) (vsub z x) := by
  have h := quadform_aux A a x z n hA ha hx hz hsym hpsd
  unfold quadraticF quadraticG
  have e : ∀ y : List α, y.length = n → dot y (vadd a (smul (1 / 2) (mulVec A y))) =
      1 / 2 * dot y (mulVec A y) + dot a y := by
    intro y hy
    rw [dot_comm, dot_vadd_left _ _ _ (by rw [smul_length, mulVec_length, ha, hA]), dot_smul_left,
      dot_comm (mulVec A y) y]; ring
  rw [e z hz, e x hx]
  have hl : z.length = x.length := by rw [hz, hx]
  have e2 : dot (vadd a (mulVec A x)) (vsub z x) = dot (vadd (mulVec A x) a) (vsub z x) := by
    rw [dot_vadd_left _ _ _ (by rw [mulVec_length, ha, hA]), dot_vadd_left _ _ _ (by rw [mulVec_length, ha, hA])]; ring
  rw [e2]; exact h

/-- MAXQUAD `max_k x·(A_k x − b_k)` with the gradient `2 A_k x − b_k` of the first maximal `k`: convex under the hypothesis
    that every `A_k` is self-adjoint and positive semi-definite (the constructor fills symmetric, diagonally dominant
    matrices with a positive diagonal from exp/cos/sin formulas; the harness recomputes them and hands them to the model) -/
theorem maxquad_subgrad (As : List (List (List α))) (bs : List (List α)) (x z : List α) (n : Nat)
    (hne : As ≠ []) (hl : As.length = bs.length)
    (hA : ∀ A ∈ As, A.length = n ∧
      (∀ u v : List α, u.length = n → v.length = n → dot u (mulVec A v) = dot v (mulVec A u)) ∧
      (∀ d : List α, d.length = n → 0 ≤ dot d (mulVec A d)))
    (hb : ∀ b ∈ bs, b.length = n) (hx : x.length = n) (hz : z.length = n) :
    maxquadF As bs z ≥ maxquadF As bs x + dot (maxquadG As bs x) (vsub z x) :=
  maxquad_aux As bs x z n hne hl hA hb hx hz

/-- MAXQ `max_i x_i²` with the gradient of the first maximal coordinate -/
theorem maxq_subgrad (x z : List α) (hne : x ≠ []) (hl : z.length = x.length) :
    maxqF z ≥ maxqF x + dot (maxqG x) (vsub z x) := maxq_aux x z hne hl

/-- MAXHILB `max_i |Σ_j x_j / (i + j + 1)|` with the signed row of the first maximal entry -/
theorem maxhilb_subgrad (x z : List α) (hne : x ≠ []) (hl : z.length = x.length) :
    maxhilbF z ≥ maxhilbF x + dot (maxhilbG x) (vsub z x) := maxhilb_aux x z hne hl

/-- chained LQ: `Σ_i max(v1, v2)(x_i, x_{i+1})` with the branch rule `v2 > v1` -/
theorem chained_lq_subgrad (x z : List α) (hl : z.length = x.length) :
    chainedLqF z ≥ chainedLqF x + dot (chainedLqG x) (vsub z x) :=
  pair_subgrad lqPiece lqPieceG lqPiece_aux x z hl

/-- kinks `Σ_rows Σ_j |x_j − K(row, j)| − offset` for every matrix `K` with rows of the right length -/
theorem kinks_subgrad (K : List (List α)) (off : α) (x z : List α) (hl : z.length = x.length)
    (hK : ∀ r ∈ K, r.length = x.length) :
    kinksF K off z ≥ kinksF K off x + dot (kinksG K x) (vsub z x) := by
  -- `kinksF`/`kinksG` do not use `Transc`; any instance will do
  exact kinks_aux K off x z hl hK

end field

/-- chained CB3 I (as fixed by 525488d: `>=` in the branch selection). With the former `>` the third branch was taken
    at a tie `v1 = v2 > v3`, for which `cb3_select` — the step "the selected piece attains the maximum" — is false. -/
theorem chained_cb3I_subgrad (x z : List ℝ) (hl : z.length = x.length) :
    cb3IF z ≥ cb3IF x + dot (cb3IG x) (vsub z x) := cb3I_aux x z hl

theorem chained_cb3II_subgrad (x z : List ℝ) (hl : z.length = x.length) :
    cb3IIF z ≥ cb3IIF x + dot (cb3IIG x) (vsub z x) := cb3II_aux x z hl

/-- exponential `exp(1 + ‖x‖²/n)`, declared `strong_convexity = 2 / n` -/
theorem exponential_fn_subgrad (x z : List ℝ) (hne : x ≠ []) (hl : z.length = x.length) :
    expfnF z ≥ expfnF x + dot (expfnG x) (vsub z x) + (2 / (x.length : ℝ)) / 2 * dot (vsub z x) (vsub z x) :=
  expfn_aux x z hne hl

/-- geometric optimisation `Σ_k exp(a_k + A_k·x)` for every `a`, `A` of matching shapes -/
theorem geometric_subgrad (a : List ℝ) (A : List (List ℝ)) (x z : List ℝ) (ha : a.length = A.length)
    (hrows : ∀ r ∈ A, r.length = x.length) (hl : z.length = x.length) :
    geomF a A z ≥ geomF a A x + dot (geomG a A x) (vsub z x) := geom_aux a A x z ha hrows hl

/-! ## constraint kinds -/

section field
variable {α : Type} [Field α] [LinearOrder α] [IsStrictOrderedRing α]

/-- euclidean ball (equality and inequality kinds), declared `strong_convexity = 2` -/
theorem ball_subgrad (o : List α) (r : α) (x z : List α) (hx : x.length = o.length) (hz : z.length = o.length) :
    ballF o r z ≥ ballF o r x + dot (ballG o x) (vsub z x) + 2 / 2 * dot (vsub z x) (vsub z x) := by
  rw [ball_aux o r x z hx hz]; simp

/-- linear (equality and inequality kinds): equality, hence convex -/
theorem linear_subgrad (q : List α) (r : α) (x z : List α) (hl : z.length = x.length) :
    linearF q r z ≥ linearF q r x + dot (linearG q x) (vsub z x) := le_of_eq (linear_aux q r x z hl).symm

/-- quadratic (equality and inequality kinds), as repaired by 78c1895 (gradient of the symmetric part): convex for
    EVERY square `P` whose quadratic form is non-negative — no symmetry hypothesis. (`nano::convex` decides
    `d·Pd ≥ 0` through Eigen's eigenvalues of `(P + Pᵀ)/2`: tested only. With the former gradient `P x + q` this
    theorem needs `P` self-adjoint; the search found the failing non-symmetric inputs.) -/
theorem cquad_subgrad (P : List (List α)) (q : List α) (r : α) (x z : List α) (n : Nat)
    (hP : P.length = n) (hrows : ∀ r ∈ P, r.length = n) (hq : q.length = n) (hx : x.length = n) (hz : z.length = n)
    (hpsd : ∀ d : List α, d.length = n → 0 ≤ dot d (mulVec P d)) :
    cquadF P q r z ≥ cquadF P q r x + dot (cquadG P q x) (vsub z x) := by
  have h := quadform_sym_aux P q x z n hP hrows hq hx hz hpsd
  unfold cquadF cquadG
  linarith

theorem minimum_subgrad (v : α) (d : Nat) (x z : List α) (hl : z.length = x.length) (hd : d < x.length) :
    minimumF v d z ≥ minimumF v d x + dot (minimumG d x) (vsub z x) := le_of_eq (minimum_aux v d x z hl hd).symm

/-- `maximum_t` and `constant_t` -/
theorem maximum_subgrad (v : α) (d : Nat) (x z : List α) (hl : z.length = x.length) (hd : d < x.length) :
    maximumF v d z ≥ maximumF v d x + dot (maximumG d x) (vsub z x) := le_of_eq (maximum_aux v d x z hl hd).symm

/-! ## composition: what the ML objectives inherit from their loss -/

/-- composition with an affine map `x ↦ b + A x` (predictions of a linear model as a function of its weights, of the
    bias, of the scale of a weak learner, of the coefficients of the quadratic surrogate): the outer function's inequality
    is inherited with the gradient `Aᵀ g_h(b + A x)` -/
theorem affine_comp_subgrad (h : List α → α) (gh : List α → List α) (A : List (List α)) (b : List α) (n : Nat)
    (hrows : ∀ r ∈ A, r.length = n) (hb : b.length = A.length)
    (hgh : ∀ u : List α, u.length = A.length → (gh u).length = A.length)
    (hh : ∀ u v : List α, u.length = A.length → v.length = A.length → h v ≥ h u + dot (gh u) (vsub v u))
    (x z : List α) (hx : x.length = n) (hz : z.length = n) :
    h (vadd b (mulVec A z)) ≥ h (vadd b (mulVec A x)) + dot (tmulVec n A (gh (vadd b (mulVec A x)))) (vsub z x) :=
  affine_comp_aux h gh A b n hrows hb hgh hh x z hx hz

/-- sums (over samples, loss + regulariser) keep the inequality -/
theorem sum_subgrad (f1 f2 : List α → α) (g1 g2 : List α → List α) (x z : List α)
    (hg : (g1 x).length = (g2 x).length)
    (h1 : f1 z ≥ f1 x + dot (g1 x) (vsub z x)) (h2 : f2 z ≥ f2 x + dot (g2 x) (vsub z x)) :
    f1 z + f2 z ≥ f1 x + f2 x + dot (vadd (g1 x) (g2 x)) (vsub z x) := sum_aux f1 f2 g1 g2 x z hg h1 h2

/-- a ridge term `c/2 ‖x‖²` on ALL coordinates yields the strong-convexity term with `μ = c` (elastic-net prototypes:
    `strong_convexity(alpha2)`) -/
theorem ridge_subgrad_mu (f : List α → α) (g : List α → List α) (c : α) (x z : List α)
    (hl : z.length = x.length) (hg : (g x).length = x.length) (h : f z ≥ f x + dot (g x) (vsub z x)) :
    f z + c / 2 * dot z z ≥ f x + c / 2 * dot x x + dot (vadd (g x) (smul c x)) (vsub z x)
      + c / 2 * dot (vsub z x) (vsub z x) := ridge_aux f g c x z hl hg h

/-- a ridge term on the weights `W` of `W ++ b` only (the linear model: the bias is not regularised) yields the
    strong-convexity term for the `W`-part of the displacement ONLY — not `μ/2 ‖z − x‖²` as `linear::function_t`
    declares (known finding `linear-function:strong-convexity:bias-direction`; counter-example at the end) -/
theorem ridge_partial_subgrad_mu (f : List α → α) (g : List α → List α) (c : α) (Wx bx Wz bz : List α)
    (hW : Wz.length = Wx.length) (hb : bz.length = bx.length)
    (hg : (g (Wx ++ bx)).length = (Wx ++ bx).length)
    (h : f (Wz ++ bz) ≥ f (Wx ++ bx) + dot (g (Wx ++ bx)) (vsub (Wz ++ bz) (Wx ++ bx))) :
    f (Wz ++ bz) + c / 2 * dot Wz Wz ≥ f (Wx ++ bx) + c / 2 * dot Wx Wx
      + dot (vadd (g (Wx ++ bx)) (smul c Wx ++ List.replicate bx.length 0)) (vsub (Wz ++ bz) (Wx ++ bx))
      + c / 2 * dot (vsub Wz Wx) (vsub Wz Wx) := ridge_partial_aux f g c Wx bx Wz bz hW hb hg h

end field

/-! ## the elastic-net prototypes (`mse|mae|hinge|logistic + ridge|lasso|elasticnet`) -/

/-- `loss(inputs·x + b, targets)/N + α₁‖x‖₁ + ½‖√α₂ x‖²` with the gradient the code returns: convex with the declared
    `strong_convexity(α₂)` for EVERY kernel lying above its tangents, every data matrix, bias, targets, `α₁, α₂ ≥ 0` -/
theorem elastic_net_subgrad (kV kG : ℝ → ℝ → ℝ) (hk : ∀ t x z, kV t z ≥ kV t x + kG t x * (z - x))
    (a1 a2 : ℝ) (h1 : 0 ≤ a1) (h2 : 0 ≤ a2) (A : List (List ℝ)) (b : ℝ) (t x z : List ℝ)
    (hne : t ≠ []) (hA : A.length = t.length) (hrows : ∀ r ∈ A, r.length = x.length) (hl : z.length = x.length) :
    enetF kV a1 a2 A b t z ≥ enetF kV a1 a2 A b t x + dot (enetG kG a1 a2 A b t x) (vsub z x)
      + a2 / 2 * dot (vsub z x) (vsub z x) := enet_aux kV kG hk a1 a2 h1 h2 A b t x z hne hA hrows hl

/-- the four convex kernels of elastic_net.h satisfy the hypothesis of `elastic_net_subgrad` (cauchy does not: the
    cauchy prototypes are declared non-convex) -/
theorem elastic_net_kernels :
    (∀ t x z : ℝ, enetMseV t z ≥ enetMseV t x + enetMseG t x * (z - x)) ∧
    (∀ t x z : ℝ, maeV t z ≥ maeV t x + maeG t x * (z - x)) ∧
    (∀ t x z : ℝ, enetHingeV t z ≥ enetHingeV t x + enetHingeG t x * (z - x)) ∧
    (∀ t x z : ℝ, enetLogisticV t z ≥ enetLogisticV t x + enetLogisticG t x * (z - x)) :=
  ⟨enetMseK, maeK_subgrad, enetHingeK, enetLogisticK⟩

/-! ## the returned gradient is the derivative (smooth scalar kernels, target fixed, as functions of the output) -/

theorem mse_hasDerivAt (t o : ℝ) : HasDerivAt (fun o => 1 / 2 * mseV t o) (mseG t o) o := mse_deriv t o
theorem sqhinge_hasDerivAt (t o : ℝ) : HasDerivAt (fun o => sqhingeV t o) (sqhingeG t o) o := sqhinge_deriv t o
theorem logistic_hasDerivAt (t o : ℝ) : HasDerivAt (fun o => logisticV t o) (logisticG t o) o := logistic_deriv t o
theorem exponential_hasDerivAt (t o : ℝ) : HasDerivAt (fun o => expV t o) (expG t o) o := exponential_deriv t o
theorem cauchy_hasDerivAt (t o : ℝ) : HasDerivAt (fun o => 1 / 2 * cauchyV t o) (Loss.cauchyG t o) o := cauchy_deriv t o
theorem savage_hasDerivAt (t o : ℝ) : HasDerivAt (fun o => savageV t o) (savageG t o) o := savage_deriv t o
theorem tangent_hasDerivAt (t o : ℝ) : HasDerivAt (fun o => tangentV t o) (tangentG t o) o := tangent_deriv t o

/-! ## the returned gradient is the derivative of the returned value along EVERY line

  `line x d t = x + t • d` (`Proofs/C06Line.lean`). For a value `f` and the gradient `g` the code returns with it,

      HasDerivAt (fun t : ℝ => f (line x d t)) (dot (g x) d) 0        for all x, d of the dimension of f

  says that the directional derivative at `x` along `d` exists and is `g(x)·d` — the exact statement whose two sides
  the central differences along random directions of the oracle estimate. All smooth benchmark functions (convex or
  not), all smooth losses as functions of the prediction vector, all smooth constraint kinds. -/

/-- the statement at `t = 0` for all points gives the derivative at every `t₀` of the line (at the point `x + t₀ d`) -/
theorem hasDerivAt_line_everywhere (f : List ℝ → ℝ) (g : List ℝ → List ℝ)
    (h : ∀ x d : List ℝ, d.length = x.length → HasDerivAt (fun t : ℝ => f (line x d t)) (dot (g x) d) 0)
    (x d : List ℝ) (hd : d.length = x.length) (t0 : ℝ) :
    HasDerivAt (fun t : ℝ => f (line x d t)) (dot (g (line x d t0)) d) t0 :=
  line_deriv_at f x d t0 _ hd (h (line x d t0) d (by rw [line_length x d t0 hd, hd]))

/-! ### benchmark functions declared smooth -/

theorem sphere_hasDerivAt_line (x d : List ℝ) (hd : d.length = x.length) :
    HasDerivAt (fun t : ℝ => sphereF (line x d t)) (dot (sphereG x) d) 0 := sphere_grad x d hd

theorem axis_ellipsoid_hasDerivAt_line (x d : List ℝ) (hd : d.length = x.length) :
    HasDerivAt (fun t : ℝ => axisF (line x d t)) (dot (axisG x) d) 0 := axis_grad x d hd

theorem schumer_steiglitz_hasDerivAt_line (x d : List ℝ) (hd : d.length = x.length) :
    HasDerivAt (fun t : ℝ => schumerF (line x d t)) (dot (schumerG x) d) 0 := schumer_grad x d hd

/-- non-convex -/
theorem qing_hasDerivAt_line (x d : List ℝ) (hd : d.length = x.length) :
    HasDerivAt (fun t : ℝ => qingF (line x d t)) (dot (qingG x) d) 0 := qing_grad x d hd

/-- non-convex -/
theorem styblinski_tang_hasDerivAt_line (x d : List ℝ) (hd : d.length = x.length) :
    HasDerivAt (fun t : ℝ => styblinskiF (line x d t)) (dot (styblinskiG x) d) 0 := styblinski_grad x d hd

theorem chung_reynolds_hasDerivAt_line (x d : List ℝ) (hd : d.length = x.length) :
    HasDerivAt (fun t : ℝ => chungF (line x d t)) (dot (chungG x) d) 0 := chung_grad x d hd

theorem sargan_hasDerivAt_line (x d : List ℝ) (hd : d.length = x.length) :
    HasDerivAt (fun t : ℝ => sarganF (line x d t)) (dot (sarganG x) d) 0 := sargan_grad x d hd

theorem zakharov_hasDerivAt_line (x d : List ℝ) (hd : d.length = x.length) :
    HasDerivAt (fun t : ℝ => zakharovF (line x d t)) (dot (zakharovG x) d) 0 := zakharov_grad x d hd

/-- `exp(1 + ‖x‖²/n)` (for `n = 0` the model divides by zero as the code would; the statement still holds) -/
theorem exponential_fn_hasDerivAt_line (x d : List ℝ) (hd : d.length = x.length) :
    HasDerivAt (fun t : ℝ => expfnF (line x d t)) (dot (expfnG x) d) 0 := expfn_grad x d hd

/-- non-convex; `log1p(‖x‖²)`: the argument of the logarithm is `≥ 1`, no hypothesis is needed -/
theorem cauchy_fn_hasDerivAt_line (x d : List ℝ) (hd : d.length = x.length) :
    HasDerivAt (fun t : ℝ => Fn.cauchyF (line x d t)) (dot (Fn.cauchyG x) d) 0 := cauchyfn_grad x d hd

/-- the running sums and the reverse accumulation of the gradient -/
theorem rotated_ellipsoid_hasDerivAt_line (x d : List ℝ) (hd : d.length = x.length) :
    HasDerivAt (fun t : ℝ => rotF 0 (line x d t)) (dot (rotG 0 x) d) 0 := rot_grad x d hd

theorem trid_hasDerivAt_line (x d : List ℝ) (hd : d.length = x.length) :
    HasDerivAt (fun t : ℝ => tridF (line x d t)) (dot (tridG x) d) 0 := trid_grad x d hd

/-- non-convex -/
theorem rosenbrock_hasDerivAt_line (x d : List ℝ) (hd : d.length = x.length) :
    HasDerivAt (fun t : ℝ => rosenbrockF (line x d t)) (dot (rosenbrockG x) d) 0 := rosenbrock_grad x d hd

/-- non-convex -/
theorem dixon_price_hasDerivAt_line (x d : List ℝ) (hd : d.length = x.length) :
    HasDerivAt (fun t : ℝ => dixonF (line x d t)) (dot (dixonG x) d) 0 := dixon_grad x d hd

/-- non-convex; any dimension (the code asks for a multiple of four; trailing coordinates do not enter value or gradient) -/
theorem powell_hasDerivAt_line (x d : List ℝ) (hd : d.length = x.length) :
    HasDerivAt (fun t : ℝ => powellF (line x d t)) (dot (powellG x) d) 0 := powell_grad x d hd

/-- `x·(a + ½ A x)` with the returned gradient `a + A x`: the derivative exactly under the hypothesis that `A` is
    self-adjoint (the constructor draws `A = I + R Rᵀ`); for a non-symmetric `A` the derivative is `a + ½(A + Aᵀ)x` -/
theorem quadratic_hasDerivAt_line (a : List ℝ) (A : List (List ℝ)) (x d : List ℝ) (n : Nat)
    (hA : A.length = n) (ha : a.length = n) (hx : x.length = n) (hd : d.length = n)
    (hsym : ∀ u v : List ℝ, u.length = n → v.length = n → dot u (mulVec A v) = dot v (mulVec A u)) :
    HasDerivAt (fun t : ℝ => quadraticF a A (line x d t)) (dot (quadraticG a A x) d) 0 :=
  quadratic_grad a A x d n hA ha hx hd hsym

theorem geometric_hasDerivAt_line (a : List ℝ) (A : List (List ℝ)) (x d : List ℝ) (ha : a.length = A.length)
    (hrows : ∀ r ∈ A, r.length = x.length) (hd : d.length = x.length) :
    HasDerivAt (fun t : ℝ => geomF a A (line x d t)) (dot (geomG a A x) d) 0 := geom_grad a A x d ha hrows hd

/-- the smooth elastic-net prototypes (`α₁ = 0`, ids `<loss>+ridge[α₂]`): for EVERY kernel whose `kG` is the derivative
    of `kV`, every data matrix, bias and targets -/
theorem elastic_net_ridge_hasDerivAt_line (kV kG : ℝ → ℝ → ℝ) (hk : ∀ t o, HasDerivAt (fun o => kV t o) (kG t o) o)
    (a2 : ℝ) (h2 : 0 ≤ a2) (A : List (List ℝ)) (b : ℝ) (t x d : List ℝ)
    (hA : A.length = t.length) (hrows : ∀ r ∈ A, r.length = x.length) (hd : d.length = x.length) :
    HasDerivAt (fun s : ℝ => enetF kV 0 a2 A b t (line x d s)) (dot (enetG kG 0 a2 A b t x) d) 0 :=
  enet_ridge_grad_aux kV kG hk a2 h2 A b t x d hA hrows hd

/-- the smooth kernels of elastic_net.h satisfy the hypothesis of `elastic_net_ridge_hasDerivAt_line` (the cauchy
    kernel too, although `cauchy+ridge` does not declare itself smooth) -/
theorem elastic_net_smooth_kernels :
    (∀ t o : ℝ, HasDerivAt (fun o => enetMseV t o) (enetMseG t o) o) ∧
    (∀ t o : ℝ, HasDerivAt (fun o => enetLogisticV t o) (enetLogisticG t o) o) ∧
    (∀ t o : ℝ, HasDerivAt (fun o => enetCauchyV t o) (enetCauchyG t o) o) :=
  ⟨enetMse_deriv, enetLogistic_deriv, enetCauchy_deriv⟩

/-! ### losses declared smooth, as functions of the prediction vector (any number of outputs) -/

/-- mse, cauchy, squared hinge (differentiable also on its kink), savage, tangent, logistic (with the `x < 1` switch as
    coded), exponential: `loss_t::vgrad` is the gradient of `loss_t::value` -/
theorem loss_hasDerivAt_line (k : Kind) (hk : smoothKind k = true) (a eps : ℝ) (t o d : List ℝ)
    (ho : o.length = t.length) (hd : d.length = t.length) :
    HasDerivAt (fun s : ℝ => value k a eps t (line o d s)) (dot (vgrad k a t o) d) 0 :=
  loss_grad_aux k hk a eps t o d ho hd

/-- class negative log-likelihood without the `ε` inside the logarithm, for ANY shift rule (the code shifts by the
    maximal output, which moves with the point): soft-max minus the positive-target indicator is the gradient -/
theorem classnll_shift_hasDerivAt_line (c : List ℝ → ℝ) (t o d : List ℝ) (hne : t ≠ [])
    (ho : o.length = t.length) (hd : d.length = t.length) :
    HasDerivAt (fun s : ℝ => classnllShift 0 (c (line o d s)) t (line o d s))
      (dot (classnllGShift (c o) t o) d) 0 := classnll_shift_grad c t o d hne ho hd

/-- `s-classnll` with `ε = 0`: `vgrad` is the gradient of `value` -/
theorem classnll_hasDerivAt_line (a : ℝ) (t o d : List ℝ) (hne : t ≠ [])
    (ho : o.length = t.length) (hd : d.length = t.length) :
    HasDerivAt (fun s : ℝ => value .classnll a 0 t (line o d s)) (dot (vgrad .classnll a t o) d) 0 :=
  classnll_grad_aux a t o d hne ho hd

/-- `s-classnll` AS CODED (`ε` inside the logarithm of the value, none in the gradient, shift = maximal output): the
    value lies within `log(1 + ε)` (≤ 2.3e-16) of the `ε = 0` value whose gradient the code returns exactly — the
    returned gradient is not the exact derivative of the returned value, but of a function uniformly this close -/
theorem classnll_value_eps_close (a eps : ℝ) (heps : 0 ≤ eps) (t o : List ℝ) (hne : o ≠ []) :
    0 ≤ value .classnll a eps t o - value .classnll a 0 t o ∧
    value .classnll a eps t o - value .classnll a 0 t o ≤ Real.log (1 + eps) := by
  have hS := expSum_pos (maxCoeff o) o hne
  have hS1 := expSum_ge_one (maxCoeff o) o (maxCoeff_mem o hne)
  show 0 ≤ classnllV eps t o - classnllV 0 t o ∧ classnllV eps t o - classnllV 0 t o ≤ Real.log (1 + eps)
  unfold classnllV classnllShift
  simp only [tlog_eq, zero_add]
  have h1 : Real.log (expSum (maxCoeff o) o) ≤ Real.log (eps + expSum (maxCoeff o) o) :=
    Real.log_le_log hS (by linarith)
  have h2 : Real.log (eps + expSum (maxCoeff o) o) ≤ Real.log (expSum (maxCoeff o) o) + Real.log (1 + eps) := by
    rw [← Real.log_mul (ne_of_gt hS) (by linarith)]
    apply Real.log_le_log (by linarith)
    nlinarith
  constructor <;> linarith

/-! ### objects NOT declared smooth: the returned sub-gradient is the derivative wherever no kink / tie is hit

  ("the (sub)gradient returned with a value is the derivative of that value wherever it is differentiable"): the side
  conditions below say that the point `x` avoids the kinks of the formula; on a kink the code returns one sub-gradient
  (the `X_subgrad` theorems). -/

/-- mae: every output differs from its target -/
theorem mae_hasDerivAt_line_off_kinks (a eps : ℝ) (t o d : List ℝ) (ho : o.length = t.length)
    (hd : d.length = t.length) (hk : All2 (fun ti oi => oi ≠ ti) t o) :
    HasDerivAt (fun s : ℝ => value .mae a eps t (line o d s)) (dot (vgrad .mae a t o) d) 0 :=
  mae_grad_off a eps t o d ho hd hk

/-- hinge: no output on the margin `t_i o_i = 1` -/
theorem hinge_hasDerivAt_line_off_kinks (a eps : ℝ) (t o d : List ℝ) (ho : o.length = t.length)
    (hd : d.length = t.length) (hk : All2 (fun ti oi => 1 - ti * oi ≠ 0) t o) :
    HasDerivAt (fun s : ℝ => value .hinge a eps t (line o d s)) (dot (vgrad .hinge a t o) d) 0 :=
  hinge_grad_off a eps t o d ho hd hk

/-- pinball (any `alpha`): every output differs from its target -/
theorem pinball_hasDerivAt_line_off_kinks (a eps : ℝ) (t o d : List ℝ) (ho : o.length = t.length)
    (hd : d.length = t.length) (hk : All2 (fun ti oi => oi ≠ ti) t o) :
    HasDerivAt (fun s : ℝ => value .pinball a eps t (line o d s)) (dot (vgrad .pinball a t o) d) 0 :=
  pinball_grad_off a eps t o d ho hd hk

/-- the elastic-net prototypes that do not declare themselves smooth (`lasso`, `elasticnet`, and `ridge` with the mae /
    hinge kernel): at a point without zero coordinate — or any point when there is no `ℓ₁` term, `α₁ = 0` — whose outputs
    avoid the kinks of the kernel (`P`; `True` for a smooth kernel) -/
theorem elastic_net_hasDerivAt_line_off_kinks (P : ℝ → ℝ → Prop) (kV kG : ℝ → ℝ → ℝ)
    (hk : ∀ t o, P t o → HasDerivAt (fun o => kV t o) (kG t o) o)
    (a1 a2 : ℝ) (h2 : 0 ≤ a2) (A : List (List ℝ)) (b : ℝ) (t x d : List ℝ)
    (hA : A.length = t.length) (hrows : ∀ r ∈ A, r.length = x.length) (hd : d.length = x.length)
    (hP : All2 P t (enetOutputs A b x)) (hx0 : a1 = 0 ∨ ∀ v ∈ x, v ≠ 0) :
    HasDerivAt (fun s : ℝ => enetF kV a1 a2 A b t (line x d s)) (dot (enetG kG a1 a2 A b t x) d) 0 :=
  enet_grad_off_aux P kV kG hk a1 a2 h2 A b t x d hA hrows hd hP hx0

/-- the two non-smooth kernels of elastic_net.h off their kinks (the smooth ones: `elastic_net_smooth_kernels`) -/
theorem elastic_net_kernels_off_kinks :
    (∀ t o : ℝ, o ≠ t → HasDerivAt (fun o => maeV t o) (maeG t o) o) ∧
    (∀ t o : ℝ, 1 + -o * t ≠ 0 → HasDerivAt (fun o => enetHingeV t o) (enetHingeG t o) o) :=
  ⟨mae_deriv_off, enetHinge_deriv_off⟩

/-- chained LQ: no pair on the tie `v1 = v2` of its two pieces -/
theorem chained_lq_hasDerivAt_line_off_ties (x d : List ℝ) (hd : d.length = x.length)
    (hQ : AllPairs (fun a b => lqV1 a b ≠ lqV2 a b) x) :
    HasDerivAt (fun t : ℝ => chainedLqF (line x d t)) (dot (chainedLqG x) d) 0 := chained_lq_grad_off x d hd hQ

/-- chained CB3 I: in every pair one of the three pieces is the strict maximum -/
theorem chained_cb3I_hasDerivAt_line_off_ties (x d : List ℝ) (hd : d.length = x.length)
    (hQ : AllPairs (fun a b => strictMax3 (cbV1 a b) (cbV2 a b) (cbV3 a b)) x) :
    HasDerivAt (fun t : ℝ => cb3IF (line x d t)) (dot (cb3IG x) d) 0 := cb3I_grad_off x d hd hQ

/-- chained CB3 II: one of the three sums is the strict maximum -/
theorem chained_cb3II_hasDerivAt_line_off_ties (x d : List ℝ) (hd : d.length = x.length)
    (hs : strictMax3 (pairSum cbV1 x) (pairSum cbV2 x) (pairSum cbV3 x)) :
    HasDerivAt (fun t : ℝ => cb3IIF (line x d t)) (dot (cb3IIG x) d) 0 := cb3II_grad_off x d hd hs

/-- kinks: no coordinate on a kink of any row -/
theorem kinks_hasDerivAt_line_off_kinks (K : List (List ℝ)) (off : ℝ) (x d : List ℝ) (hd : d.length = x.length)
    (hK : ∀ r ∈ K, r.length = x.length) (hk : ∀ r ∈ K, All2 (fun k xi => xi ≠ k) r x) :
    HasDerivAt (fun t : ℝ => kinksF K off (line x d t)) (dot (kinksG K x) d) 0 := kinks_grad_off K off x d hd hK hk

/-- MAXQ: `x_idx²` is the strict maximum -/
theorem maxq_hasDerivAt_line_off_ties (x d : List ℝ) (hd : d.length = x.length) (idx : Nat) (hidx : idx < x.length)
    (hs : ∀ j, j < x.length → j ≠ idx → x.getD j 0 * x.getD j 0 < x.getD idx 0 * x.getD idx 0) :
    HasDerivAt (fun t : ℝ => maxqF (line x d t)) (dot (maxqG x) d) 0 := maxq_grad_off x d hd idx hidx hs

/-- MAXQUAD: the `idx`-th quadratic is the strict maximum (and its matrix acts symmetrically on `x`, `d`) -/
theorem maxquad_hasDerivAt_line_off_ties (As : List (List (List ℝ))) (bs : List (List ℝ)) (x d : List ℝ)
    (hl : As.length = bs.length) (hd : d.length = x.length)
    (hshape : ∀ k, k < As.length → (As.getD k []).length = (bs.getD k []).length)
    (idx : Nat) (hidx : idx < As.length)
    (hsym : dot x (mulVec (As.getD idx []) d) = dot d (mulVec (As.getD idx []) x))
    (hs : ∀ j, j < As.length → j ≠ idx → (mqVals As bs x).getD j 0 < (mqVals As bs x).getD idx 0) :
    HasDerivAt (fun t : ℝ => maxquadF As bs (line x d t)) (dot (maxquadG As bs x) d) 0 :=
  maxquad_grad_off As bs x d hl hd hshape idx hidx hsym hs

/-- MAXHILB: `|W_idx·x|` is the strict maximum and not zero -/
theorem maxhilb_hasDerivAt_line_off_ties (x d : List ℝ) (hd : d.length = x.length) (idx : Nat) (hidx : idx < x.length)
    (hnz : dot x ((hilbert x.length : List (List ℝ)).getD idx []) ≠ 0)
    (hs : ∀ j, j < x.length → j ≠ idx →
      abs' (dot ((hilbert x.length : List (List ℝ)).getD j []) x) <
        abs' (dot ((hilbert x.length : List (List ℝ)).getD idx []) x)) :
    HasDerivAt (fun t : ℝ => maxhilbF (line x d t)) (dot (maxhilbG x) d) 0 := maxhilb_grad_off x d hd idx hidx hnz hs

/-! ### constraint kinds (all declared smooth); the two functional kinds wrap a function: see the theorems above -/

theorem ball_hasDerivAt_line (o : List ℝ) (r : ℝ) (x d : List ℝ) (hx : x.length = o.length) (hd : d.length = o.length) :
    HasDerivAt (fun t : ℝ => ballF o r (line x d t)) (dot (ballG o x) d) 0 := ball_grad_aux o r x d hx hd

theorem linear_hasDerivAt_line (q : List ℝ) (r : ℝ) (x d : List ℝ) (hd : d.length = x.length) :
    HasDerivAt (fun t : ℝ => linearF q r (line x d t)) (dot (linearG q x) d) 0 := linear_grad_aux q r x d hd

/-- quadratic (equality and inequality kinds) with the symmetrised gradient `½(P + Pᵀ)x + q` (78c1895): the derivative
    for EVERY square `P`, symmetric or not, definite or not (with the former gradient `P x + q` this needs `P`
    self-adjoint) -/
theorem cquad_hasDerivAt_line (P : List (List ℝ)) (q : List ℝ) (r : ℝ) (x d : List ℝ) (n : Nat)
    (hP : P.length = n) (hrows : ∀ r ∈ P, r.length = n) (hq : q.length = n) (hx : x.length = n) (hd : d.length = n) :
    HasDerivAt (fun t : ℝ => cquadF P q r (line x d t)) (dot (cquadG P q x) d) 0 :=
  cquad_grad_aux P q r x d n hP hrows hq hx hd

theorem minimum_hasDerivAt_line (v : ℝ) (k : Nat) (x d : List ℝ) (hd : d.length = x.length) :
    HasDerivAt (fun t : ℝ => minimumF v k (line x d t)) (dot (minimumG k x) d) 0 := minimum_grad_aux v k x d hd

/-- `maximum_t` and `constant_t` -/
theorem maximum_hasDerivAt_line (v : ℝ) (k : Nat) (x d : List ℝ) (hd : d.length = x.length) :
    HasDerivAt (fun t : ℝ => maximumF v k (line x d t)) (dot (maximumG k x) d) 0 := maximum_grad_aux v k x d hd

/-! ### composition: what the smooth ML objectives inherit from their loss -/

/-- composition with an affine map `x ↦ b + A x`: the gradient `Aᵀ g_h(b + A x)` is the derivative when `g_h` is -/
theorem affine_comp_hasDerivAt_line (h : List ℝ → ℝ) (gh : List ℝ → List ℝ) (A : List (List ℝ)) (b : List ℝ) (n : Nat)
    (hrows : ∀ r ∈ A, r.length = n) (hb : b.length = A.length)
    (hgh : ∀ u : List ℝ, u.length = A.length → (gh u).length = A.length)
    (hh : ∀ u w : List ℝ, u.length = A.length → w.length = A.length →
      HasDerivAt (fun t : ℝ => h (line u w t)) (dot (gh u) w) 0)
    (x d : List ℝ) (hx : x.length = n) (hd : d.length = n) :
    HasDerivAt (fun t : ℝ => h (vadd b (mulVec A (line x d t))))
      (dot (tmulVec n A (gh (vadd b (mulVec A x)))) d) 0 :=
  affine_comp_grad_aux h gh A b n hrows hb hgh hh x d hx hd

theorem sum_hasDerivAt_line (f1 f2 : List ℝ → ℝ) (g1 g2 x d : List ℝ) (hg : g1.length = g2.length)
    (h1 : HasDerivAt (fun t : ℝ => f1 (line x d t)) (dot g1 d) 0)
    (h2 : HasDerivAt (fun t : ℝ => f2 (line x d t)) (dot g2 d) 0) :
    HasDerivAt (fun t : ℝ => f1 (line x d t) + f2 (line x d t)) (dot (vadd g1 g2) d) 0 :=
  sum_grad_aux f1 f2 g1 g2 x d hg h1 h2

theorem ridge_hasDerivAt_line (f : List ℝ → ℝ) (g : List ℝ) (c : ℝ) (x d : List ℝ) (hd : d.length = x.length)
    (hg : g.length = x.length) (h : HasDerivAt (fun t : ℝ => f (line x d t)) (dot g d) 0) :
    HasDerivAt (fun t : ℝ => f (line x d t) + c / 2 * dot (line x d t) (line x d t))
      (dot (vadd g (smul c x)) d) 0 := ridge_grad_aux f g c x d hd hg h

/-! ## the declared flags (regenerated from the implementation on every run: `Gen/Flags.lean`) -/

/-- objects whose convexity inequality is a theorem above (about their model) -/
def provenConvex : List Obj := [
  .fn_maxq, .fn_maxquad, .fn_maxhilb, .fn_chained_lq, .fn_chained_cb3I, .fn_chained_cb3II, .fn_trid, .fn_kinks, .fn_sargan, .fn_sphere, .fn_zakharov,
  .fn_quadratic, .fn_exponential, .fn_chung_reynolds, .fn_axis_ellipsoid, .fn_schumer_steiglitz, .fn_rotated_ellipsoid,
  .fn_geometric_optimization,
  -- elastic-net prototypes: `elastic_net_subgrad` + `elastic_net_kernels`
  .fn_mse_ridge_1, .fn_mse_ridge_100, .fn_mse_ridge_10000, .fn_mse_ridge_1e_06, .fn_mse_lasso_1, .fn_mse_lasso_100,
  .fn_mse_lasso_10000, .fn_mse_lasso_1e_06, .fn_mse_elasticnet_1_1, .fn_mse_elasticnet_100_100,
  .fn_mse_elasticnet_10000_10000, .fn_mse_elasticnet_1e_06_1e_06, .fn_mae_ridge_1, .fn_mae_lasso_1,
  .fn_mae_elasticnet_1_1, .fn_hinge_ridge_1, .fn_hinge_lasso_1, .fn_hinge_elasticnet_1_1, .fn_logistic_ridge_1,
  .fn_logistic_lasso_1, .fn_logistic_elasticnet_1_1,
  .loss_mae, .loss_mse, .loss_m_hinge, .loss_s_hinge, .loss_m_squared_hinge, .loss_s_squared_hinge, .loss_s_classnll,
  .loss_m_logistic, .loss_s_logistic, .loss_s_exponential, .loss_m_exponential, .loss_pinball,
  .ct_constant, .ct_minimum, .ct_maximum, .ct_ball_eq, .ct_ball_ineq, .ct_linear_eq, .ct_linear_ineq,
  .ct_quadratic_eq_psd, .ct_quadratic_ineq_psd, .ct_functional_eq_sphere, .ct_functional_ineq_sphere]

/-- objects flagged convex whose inequality is only tested by the search (with the reason) -/
def testedOnly : List (Obj × String) := []

set_option maxRecDepth 100000 in
/-- every object that DECLARES itself convex (any dimension of the dump) owns a convexity theorem or is on the explicit
    tested-only list: flipping a flag to `convex` in the source (e.g. rosenbrock) breaks this theorem -/
theorem flags_covered :
    (rows.all fun r => !r.convex || provenConvex.contains r.obj || (testedOnly.map Prod.fst).contains r.obj) = true := by
  decide

/-- objects that DECLARE themselves smooth and own a "gradient = derivative along every line" theorem above (about
    their model); the functional constraint kinds wrap sphere / rosenbrock -/
def provenSmooth : List (Obj × String) := [
  (.fn_trid, "trid_hasDerivAt_line"), (.fn_qing, "qing_hasDerivAt_line"), (.fn_cauchy, "cauchy_fn_hasDerivAt_line"),
  (.fn_sargan, "sargan_hasDerivAt_line"), (.fn_powell, "powell_hasDerivAt_line"), (.fn_sphere, "sphere_hasDerivAt_line"),
  (.fn_zakharov, "zakharov_hasDerivAt_line"), (.fn_quadratic, "quadratic_hasDerivAt_line"),
  (.fn_rosenbrock, "rosenbrock_hasDerivAt_line"), (.fn_exponential, "exponential_fn_hasDerivAt_line"),
  (.fn_dixon_price, "dixon_price_hasDerivAt_line"), (.fn_chung_reynolds, "chung_reynolds_hasDerivAt_line"),
  (.fn_axis_ellipsoid, "axis_ellipsoid_hasDerivAt_line"), (.fn_styblinski_tang, "styblinski_tang_hasDerivAt_line"),
  (.fn_schumer_steiglitz, "schumer_steiglitz_hasDerivAt_line"),
  (.fn_rotated_ellipsoid, "rotated_ellipsoid_hasDerivAt_line"),
  (.fn_geometric_optimization, "geometric_hasDerivAt_line"),
  (.fn_mse_ridge_1, "elastic_net_ridge_hasDerivAt_line"), (.fn_mse_ridge_100, "elastic_net_ridge_hasDerivAt_line"),
  (.fn_mse_ridge_10000, "elastic_net_ridge_hasDerivAt_line"), (.fn_mse_ridge_1e_06, "elastic_net_ridge_hasDerivAt_line"),
  (.fn_logistic_ridge_1, "elastic_net_ridge_hasDerivAt_line"),
  (.loss_mse, "loss_hasDerivAt_line"), (.loss_cauchy, "loss_hasDerivAt_line"),
  (.loss_m_squared_hinge, "loss_hasDerivAt_line"), (.loss_s_squared_hinge, "loss_hasDerivAt_line"),
  (.loss_m_savage, "loss_hasDerivAt_line"), (.loss_s_savage, "loss_hasDerivAt_line"),
  (.loss_m_tangent, "loss_hasDerivAt_line"), (.loss_s_tangent, "loss_hasDerivAt_line"),
  (.loss_m_logistic, "loss_hasDerivAt_line"), (.loss_s_logistic, "loss_hasDerivAt_line"),
  (.loss_s_exponential, "loss_hasDerivAt_line"), (.loss_m_exponential, "loss_hasDerivAt_line"),
  (.loss_s_classnll, "classnll_hasDerivAt_line + classnll_value_eps_close"),
  (.ct_constant, "maximum_hasDerivAt_line"), (.ct_minimum, "minimum_hasDerivAt_line"),
  (.ct_maximum, "maximum_hasDerivAt_line"), (.ct_ball_eq, "ball_hasDerivAt_line"), (.ct_ball_ineq, "ball_hasDerivAt_line"),
  (.ct_linear_eq, "linear_hasDerivAt_line"), (.ct_linear_ineq, "linear_hasDerivAt_line"),
  (.ct_quadratic_eq_psd, "cquad_hasDerivAt_line"), (.ct_quadratic_ineq_psd, "cquad_hasDerivAt_line"),
  (.ct_quadratic_eq_indefinite, "cquad_hasDerivAt_line"), (.ct_quadratic_ineq_indefinite, "cquad_hasDerivAt_line"),
  (.ct_functional_eq_sphere, "sphere_hasDerivAt_line"), (.ct_functional_ineq_sphere, "sphere_hasDerivAt_line"),
  (.ct_functional_eq_rosenbrock, "rosenbrock_hasDerivAt_line"),
  (.ct_functional_ineq_rosenbrock, "rosenbrock_hasDerivAt_line")]

/-- objects flagged smooth whose gradient is only tested by difference quotients (with the reason) -/
def testedOnlySmooth : List (Obj × String) := []

set_option maxRecDepth 100000 in
/-- every object that DECLARES itself smooth (any dimension of the dump) owns a derivative theorem or is on the explicit
    tested-only list: a flag flipped to `smooth` in the source (e.g. of maxq or of a lasso prototype), or a new smooth
    prototype, breaks this theorem -/
theorem smooth_covered :
    (rows.all fun r => !r.smooth || (provenSmooth.map Prod.fst).contains r.obj ||
      (testedOnlySmooth.map Prod.fst).contains r.obj) = true := by
  decide

/-- objects NOT declared smooth that own a "sub-gradient = derivative off the kinks / ties" theorem (`cauchy+ridge`
    is smooth in fact: `elastic_net_ridge_hasDerivAt_line` with the cauchy kernel of `elastic_net_smooth_kernels`) -/
def provenOffKinks : List (Obj × String) := [
  (.fn_maxq, "maxq_hasDerivAt_line_off_ties"), (.fn_maxquad, "maxquad_hasDerivAt_line_off_ties"), (.fn_maxhilb, "maxhilb_hasDerivAt_line_off_ties"),
  (.fn_chained_lq, "chained_lq_hasDerivAt_line_off_ties"), (.fn_chained_cb3I, "chained_cb3I_hasDerivAt_line_off_ties"),
  (.fn_chained_cb3II, "chained_cb3II_hasDerivAt_line_off_ties"), (.fn_kinks, "kinks_hasDerivAt_line_off_kinks"),
  (.fn_mse_lasso_1, "elastic_net_hasDerivAt_line_off_kinks"), (.fn_mse_lasso_100, "elastic_net_hasDerivAt_line_off_kinks"),
  (.fn_mse_lasso_10000, "elastic_net_hasDerivAt_line_off_kinks"),
  (.fn_mse_lasso_1e_06, "elastic_net_hasDerivAt_line_off_kinks"),
  (.fn_mse_elasticnet_1_1, "elastic_net_hasDerivAt_line_off_kinks"),
  (.fn_mse_elasticnet_100_100, "elastic_net_hasDerivAt_line_off_kinks"),
  (.fn_mse_elasticnet_10000_10000, "elastic_net_hasDerivAt_line_off_kinks"),
  (.fn_mse_elasticnet_1e_06_1e_06, "elastic_net_hasDerivAt_line_off_kinks"),
  (.fn_mae_ridge_1, "elastic_net_hasDerivAt_line_off_kinks"), (.fn_mae_lasso_1, "elastic_net_hasDerivAt_line_off_kinks"),
  (.fn_mae_elasticnet_1_1, "elastic_net_hasDerivAt_line_off_kinks"),
  (.fn_hinge_ridge_1, "elastic_net_hasDerivAt_line_off_kinks"), (.fn_hinge_lasso_1, "elastic_net_hasDerivAt_line_off_kinks"),
  (.fn_hinge_elasticnet_1_1, "elastic_net_hasDerivAt_line_off_kinks"),
  (.fn_cauchy_ridge_1, "elastic_net_ridge_hasDerivAt_line"), (.fn_cauchy_lasso_1, "elastic_net_hasDerivAt_line_off_kinks"),
  (.fn_cauchy_elasticnet_1_1, "elastic_net_hasDerivAt_line_off_kinks"),
  (.fn_logistic_lasso_1, "elastic_net_hasDerivAt_line_off_kinks"),
  (.fn_logistic_elasticnet_1_1, "elastic_net_hasDerivAt_line_off_kinks"),
  (.loss_mae, "mae_hasDerivAt_line_off_kinks"), (.loss_m_hinge, "hinge_hasDerivAt_line_off_kinks"),
  (.loss_s_hinge, "hinge_hasDerivAt_line_off_kinks"), (.loss_pinball, "pinball_hasDerivAt_line_off_kinks")]

/-- objects not declared smooth whose gradient is only tested by difference quotients (with the reason) -/
def testedOnlyOffKinks : List (Obj × String) := []

set_option maxRecDepth 100000 in
/-- every registered object owns a derivative theorem (unconditional if it declares itself smooth, off its kinks / ties
    otherwise) or is on one of the two explicit tested-only lists -/
theorem gradient_covered :
    (rows.all fun r =>
      (provenSmooth.map Prod.fst).contains r.obj || (testedOnlySmooth.map Prod.fst).contains r.obj ||
      (!r.smooth && ((provenOffKinks.map Prod.fst).contains r.obj ||
        (testedOnlyOffKinks.map Prod.fst).contains r.obj))) = true := by
  decide

/-- objects whose declared strong-convexity coefficient is part of a theorem above -/
def provenStrong : List Obj := [
  .fn_sphere, .fn_axis_ellipsoid, .fn_exponential, .ct_ball_eq, .ct_ball_ineq, .ct_functional_eq_sphere,
  .ct_functional_ineq_sphere,
  -- `elastic_net_subgrad` carries the `α₂/2 ‖z − x‖²` term
  .fn_mse_ridge_1, .fn_mse_ridge_100, .fn_mse_ridge_10000, .fn_mse_ridge_1e_06, .fn_mse_elasticnet_1_1,
  .fn_mse_elasticnet_100_100, .fn_mse_elasticnet_10000_10000, .fn_mse_elasticnet_1e_06_1e_06, .fn_mae_ridge_1,
  .fn_mae_elasticnet_1_1, .fn_hinge_ridge_1, .fn_hinge_elasticnet_1_1, .fn_logistic_ridge_1,
  .fn_logistic_elasticnet_1_1]

def testedOnlyStrong : List (Obj × String) := [
  (.fn_quadratic, "smallest eigenvalue of A computed by Eigen"),
  (.ct_quadratic_eq_psd, "smallest eigenvalue of (P + Pᵀ)/2 computed by Eigen"),
  (.ct_quadratic_ineq_psd, "smallest eigenvalue of (P + Pᵀ)/2 computed by Eigen")]

set_option maxRecDepth 100000 in
/-- every CONVEX object that declares a positive strong-convexity coefficient owns a theorem with the `μ`-term or is on
    the tested-only list (the non-convex cauchy+ridge / cauchy+elasticnet prototypes also declare one; the statement only
    speaks about objects declaring themselves convex) -/
theorem strong_covered :
    (rows.all fun r => !(r.convex && r.strong) || provenStrong.contains r.obj ||
      (testedOnlyStrong.map Prod.fst).contains r.obj) = true := by
  decide

/-- the elastic-net prototypes declare `strong_convexity(alpha2)`: the factor in their id (1, 100, 1e4, 1e6 as binary64
    bit patterns; 0 for the lasso prototypes) — the `μ` of `elastic_net_subgrad` -/
def enetMuBits : List (Obj × Nat) := [
  (.fn_mse_ridge_1, 0x3FF0000000000000), (.fn_mse_ridge_100, 0x4059000000000000),
  (.fn_mse_ridge_10000, 0x40C3880000000000), (.fn_mse_ridge_1e_06, 0x412E848000000000),
  (.fn_mse_lasso_1, 0), (.fn_mse_lasso_100, 0), (.fn_mse_lasso_10000, 0), (.fn_mse_lasso_1e_06, 0),
  (.fn_mse_elasticnet_1_1, 0x3FF0000000000000), (.fn_mse_elasticnet_100_100, 0x4059000000000000),
  (.fn_mse_elasticnet_10000_10000, 0x40C3880000000000), (.fn_mse_elasticnet_1e_06_1e_06, 0x412E848000000000),
  (.fn_mae_ridge_1, 0x3FF0000000000000), (.fn_mae_lasso_1, 0), (.fn_mae_elasticnet_1_1, 0x3FF0000000000000),
  (.fn_hinge_ridge_1, 0x3FF0000000000000), (.fn_hinge_lasso_1, 0), (.fn_hinge_elasticnet_1_1, 0x3FF0000000000000),
  (.fn_logistic_ridge_1, 0x3FF0000000000000), (.fn_logistic_lasso_1, 0),
  (.fn_logistic_elasticnet_1_1, 0x3FF0000000000000)]

/-- the VALUE of the declared coefficient is the one the theorems carry: 2 (bits 0x4000…) for sphere, axis-ellipsoid, the
    euclidean ball (and the functional constraint wrapping sphere); `2 / dims` for exponential — checked on the dumped
    dimensions that are powers of two, where `2 / 2^k = 2^(1-k)` has the bit pattern `(1024 - k) · 2^52` -/
def expectedMuBits (r : Row) : Option Nat :=
  if [Obj.fn_sphere, .fn_axis_ellipsoid, .ct_ball_eq, .ct_ball_ineq, .ct_functional_eq_sphere,
      .ct_functional_ineq_sphere].contains r.obj then some 0x4000000000000000
  else if r.obj = .fn_exponential then
    (if r.dims = 2 ^ r.dims.log2 then some ((1024 - r.dims.log2) * 2 ^ 52) else none)
  else if [Obj.ct_constant, .ct_minimum, .ct_maximum, .ct_linear_eq, .ct_linear_ineq, .ct_quadratic_eq_indefinite,
      .ct_quadratic_ineq_indefinite].contains r.obj then some 0   -- affine kinds; `max(0, λ_min)` of an indefinite P
  else if [Obj.ct_quadratic_eq_psd, .ct_quadratic_ineq_psd].contains r.obj then
    some 0x3FF0000000000000                                       -- the representative P = I: λ_min = 1 (`cquad_subgrad_mu`)
  else (enetMuBits.lookup r.obj)

set_option maxRecDepth 100000 in
theorem strong_values_covered :
    (rows.all fun r => match expectedMuBits r with | some b => r.muBits == b | none => true) = true := by
  decide

/-! ## non-vacuity -/

-- the table is not empty and contains convex, non-convex, strongly convex rows
set_option maxRecDepth 100000 in
example : rows.length > 300 ∧ (rows.any fun r => r.convex) ∧ (rows.any fun r => !r.convex) ∧
    (rows.any fun r => r.strong) := by decide
-- rosenbrock is declared non-convex and is on no list: flipping its flag makes `flags_covered` false
set_option maxRecDepth 100000 in
example : (rows.filter fun r => (expectedMuBits r).isSome).length ≥ 160 := by decide
example : ¬ provenConvex.contains Obj.fn_rosenbrock ∧ ¬ (testedOnly.map Prod.fst).contains Obj.fn_rosenbrock := by decide

-- hinge on both sides of and on the kink (t = 1): value and sub-gradient as coded
example : hingeV (1 : ℚ) 0 = 1 ∧ hingeG (1 : ℚ) 0 = -1 ∧ hingeV (1 : ℚ) 1 = 0 ∧ hingeG (1 : ℚ) 1 = -1 / 2 ∧
    hingeV (1 : ℚ) 2 = 0 ∧ hingeG (1 : ℚ) 2 = 0 := by
  unfold hingeV hingeG max0 sign'; norm_num

-- the hypotheses of `quadratic_subgrad` / `cquad_subgrad` are satisfiable: the 2x2 identity
example : ∃ A : List (List ℚ), A.length = 2 ∧
    (∀ u v : List ℚ, u.length = 2 → v.length = 2 → dot u (mulVec A v) = dot v (mulVec A u)) ∧
    (∀ d : List ℚ, d.length = 2 → 0 ≤ dot d (mulVec A d)) := by
  refine ⟨[[1, 0], [0, 1]], rfl, ?_, ?_⟩
  · intro u v hu hv
    match u, v, hu, hv with
    | [a, b], [c, d], _, _ => simp [mulVec, dot]; ring
  · intro d hd
    match d, hd with
    | [a, b], _ => simp [mulVec, dot]; nlinarith [mul_self_nonneg a, mul_self_nonneg b]

-- the tie of chained_cb3 at which the former `>` selected an inactive piece: v1 = v2 exactly at (3/2, -13/64)
example : cbV1 (3 / 2 : ℝ) (-13 / 64) = cbV2 (3 / 2 : ℝ) (-13 / 64) := by unfold cbV1 cbV2; norm_num

-- chained LQ on its tie (1, 0): both pieces are equal and the code returns the gradient of the first one
example : lqV1 (1 : ℚ) 0 = lqV2 (1 : ℚ) 0 ∧ lqPieceG (1 : ℚ) 0 = (-1, -1) := by
  unfold lqPieceG lqV2 lqV1; norm_num

-- one-hot targets exist in the form `classnll_nonneg` asks for; with two positive targets the value is negative:
-- outputs (10, 10), targets (1, 1): log(0 + 2) - 20 + 10 < 0
example : classnllShift (0 : ℝ) 10 [1, 1] [10, 10] < 0 := by
  unfold classnllShift
  simp only [expSum, posSum, tlog_eq, texp_eq]
  norm_num
  have h2 : Real.log 2 ≤ 2 - 1 := Real.log_le_sub_one_of_pos (by norm_num)
  have e : Real.exp 0 + Real.exp 0 = 2 := by rw [Real.exp_zero]; norm_num
  linarith [e ▸ h2]

-- the declared strong convexity of the linear model fails along the bias: one sample, input 0, target 2, mae loss,
-- ridge coefficient c on the weight only. F(w, b) = |b - 2| + c/2 w²; x = (0, 0), z = (0, 1), g(x) = (0, -1):
-- F(z) = 1 < F(x) + g·(z - x) + c/2 ‖z - x‖² = 1 + c/2 for every c > 0
example (c : ℚ) (hc : 0 < c) :
    let F : List ℚ → ℚ := fun p => maeV 2 (p.getD 1 0) + c / 2 * (p.getD 0 0 * p.getD 0 0)
    F [0, 1] < F [0, 0] + dot [c * 0, maeG 2 0] (vsub [0, 1] [0, 0]) + c / 2 * dot (vsub [0, 1] [0, 0]) (vsub [0, 1] [0, 0]) := by
  simp only [List.getD_cons_zero, List.getD_cons_succ, vsub, dot, maeV, maeG, abs', sign']
  norm_num
  linarith

-- smooth declarations exist, non-smooth ones too, and no non-smooth object is on the proven-smooth list by accident:
-- maxq (declared non-smooth) is on neither list, so declaring it smooth makes `smooth_covered` false
set_option maxRecDepth 100000 in
example : (rows.any fun r => r.smooth) ∧ (rows.any fun r => !r.smooth) ∧
    ¬ (provenSmooth.map Prod.fst).contains Obj.fn_maxq ∧ ¬ (testedOnlySmooth.map Prod.fst).contains Obj.fn_maxq := by
  decide

-- exactly the seven element-wise kinds of `loss_hasDerivAt_line` are smooth kinds (mae, hinge, pinball are not; classnll
-- has its own theorem)
example : ([Kind.mae, .mse, .cauchy, .hinge, .sqhinge, .savage, .tangent, .logistic, .exponential, .classnll,
    .pinball].filter smoothKind) = [.mse, .cauchy, .sqhinge, .savage, .tangent, .logistic, .exponential] := by decide

-- the line and the directional derivative are what they should be on a concrete input: rosenbrock at (0, 0) has the
-- gradient (-2, 0); along d = (1, 1) the derivative of t ↦ 100 (t - t²)² + (t - 1)² at 0 is -2
example : line [0, 0] [1, 1] (3 : ℝ) = [3, 3] ∧ dot (rosenbrockG ([0, 0] : List ℝ)) [1, 1] = -2 := by
  constructor
  · simp
  · simp [rosenbrockG, pairGrad, rosenPieceG, dot]

-- the hypotheses of `quadratic_hasDerivAt_line` / `geometric_hasDerivAt_line` are satisfiable (2x2 identity)
example : ∃ A : List (List ℝ), A.length = 2 ∧ (∀ r ∈ A, r.length = 2) ∧
    (∀ u v : List ℝ, u.length = 2 → v.length = 2 → dot u (mulVec A v) = dot v (mulVec A u)) := by
  refine ⟨[[1, 0], [0, 1]], rfl, by simp, ?_⟩
  intro u v hu hv
  match u, v, hu, hv with
  | [a, b], [c, d], _, _ => simp [mulVec, dot]; ring

-- the symmetry hypothesis of `quadratic_hasDerivAt_line` is needed: for A = [[0, 1], [0, 0]], a = 0, x = (0, 1),
-- d = (1, 0) the value along the line is t/2 (derivative 1/2) while the returned gradient gives (A x)·d = 1
example : ¬ HasDerivAt (fun t : ℝ => quadraticF [0, 0] [[0, 1], [0, 0]] (line [0, 1] [1, 0] t))
    (dot (quadraticG [0, 0] [[0, 1], [0, 0]] [0, 1]) [1, 0]) 0 := by
  intro h
  have e : (fun t : ℝ => quadraticF [0, 0] [[0, 1], [0, 0]] (line [0, 1] [1, 0] t)) = fun t => t * (1 / 2) := by
    funext t; simp [quadraticF, mulVec, dot, vadd, smul]
  have hv : dot (quadraticG ([0, 0] : List ℝ) [[0, 1], [0, 0]] [0, 1]) [1, 0] = 1 := by
    simp [quadraticG, mulVec, dot, vadd]
  rw [e, hv] at h
  have h2 : HasDerivAt (fun t : ℝ => t * (1 / 2)) (1 / 2) 0 := by
    simpa using (hasDerivAt_id' (0 : ℝ)).mul_const (1 / 2 : ℝ)
  have := h.unique h2
  norm_num at this

-- `classnll_value_eps_close` is not vacuous and its lower bound is attained only at ε = 0: one output 0, ε = 1:
-- log(1 + 1) - log(1) = log 2 > 0
example : value .classnll (0 : ℝ) 1 [1] [0] - value .classnll (0 : ℝ) 0 [1] [0] = Real.log 2 := by
  show classnllV (1 : ℝ) [1] [0] - classnllV (0 : ℝ) [1] [0] = Real.log 2
  simp [classnllV, classnllShift, maxCoeff, expSum, posSum]
  norm_num

-- the side conditions of the off-kink theorems are satisfiable:
-- mae / pinball / kinks (outputs differ from targets), hinge (off the margin)
example : All2 (fun ti oi : ℝ => oi ≠ ti) [1, -1] [0, 0] ∧ All2 (fun ti oi : ℝ => 1 - ti * oi ≠ 0) [1, -1] [0, 3] := by
  simp [All2]; norm_num
-- chained LQ at (0, 0, 0): v1 = 0 ≠ v2 = -1 in both pairs
example : AllPairs (fun a b : ℝ => lqV1 a b ≠ lqV2 a b) [0, 0, 0] := by
  simp [AllPairs, lqV1, lqV2]
-- chained CB3 at (0, 0): v1 = 0, v2 = 8, v3 = 2: the second piece is the strict maximum (CB3 I and II)
example : AllPairs (fun a b : ℝ => strictMax3 (cbV1 a b) (cbV2 a b) (cbV3 a b)) [0, 0] ∧
    strictMax3 (pairSum cbV1 ([0, 0] : List ℝ)) (pairSum cbV2 [0, 0]) (pairSum cbV3 [0, 0]) := by
  have h : strictMax3 (cbV1 (0 : ℝ) 0) (cbV2 0 0) (cbV3 0 0) := by
    right; left
    simp only [cbV1, cbV2, cbV3, texp_eq]; norm_num
  exact ⟨⟨h, trivial⟩, by simpa [pairSum] using h⟩
-- MAXQ at (1, 2): the second coordinate is the strict maximum
example : ∀ j, j < ([1, 2] : List ℝ).length → j ≠ 1 →
    ([1, 2] : List ℝ).getD j 0 * ([1, 2] : List ℝ).getD j 0 < ([1, 2] : List ℝ).getD 1 0 * ([1, 2] : List ℝ).getD 1 0 := by
  intro j hj hne
  have : j = 0 := by simp at hj; omega
  subst this; norm_num
-- MAXHILB at (1, 1): W x = (3/2, 5/6): the first row is the strict maximum and not zero
example : dot ([1, 1] : List ℝ) ((hilbert 2 : List (List ℝ)).getD 0 []) = 3 / 2 ∧
    abs' (dot ((hilbert 2 : List (List ℝ)).getD 1 []) [1, 1]) < abs' (dot ((hilbert 2 : List (List ℝ)).getD 0 []) [1, 1]) := by
  simp [hilbert, dot, abs', List.range, List.range.loop]; norm_num

-- the hypotheses of `maxquad_subgrad` / `maxquad_hasDerivAt_line_off_ties` are satisfiable: two quadratics in two
-- dimensions (identity, b = (0,0) and b = (1,1)); at x = (1, 1) the values are 2 and 0: the first is the strict maximum
example : ∃ (As : List (List (List ℚ))) (bs : List (List ℚ)), As ≠ [] ∧ As.length = bs.length ∧
    (∀ A ∈ As, A.length = 2 ∧
      (∀ u v : List ℚ, u.length = 2 → v.length = 2 → dot u (mulVec A v) = dot v (mulVec A u)) ∧
      (∀ d : List ℚ, d.length = 2 → 0 ≤ dot d (mulVec A d))) ∧ (∀ b ∈ bs, b.length = 2) ∧
    mqVals As bs [1, 1] = [2, 0] := by
  refine ⟨[[[1, 0], [0, 1]], [[1, 0], [0, 1]]], [[0, 0], [1, 1]], by simp, rfl, ?_, by simp, ?_⟩
  · intro A hA
    have hA' : A = [[1, 0], [0, 1]] := by simpa using hA
    subst hA'
    refine ⟨rfl, ?_, ?_⟩
    · intro u v hu hv
      match u, v, hu, hv with
      | [a, b], [c, d], _, _ => simp [mulVec, dot]; ring
    · intro d hd
      match d, hd with
      | [a, b], _ => simp [mulVec, dot]; nlinarith [mul_self_nonneg a, mul_self_nonneg b]
  · simp [mqVals, mulVec, dot, vsub]; norm_num

/-! ## gap-closing round: the tensor interface of the losses (per-sample independence) -/

section field
variable {α : Type} [Field α] [LinearOrder α] [IsStrictOrderedRing α] [Transc α]

/-- "The loss and error of a sample depend only on that sample's target and prediction": in `loss_t::value / error` on 4-D
    tensors with `n = d1·d2·d3` scalars per sample (`Model/LossBatch.lean`), entry `i` is the kernel applied to block `i` of
    the two buffers — so two calls whose tensors agree on sample `i` (whatever the other samples, whatever the two batch sizes)
    agree on entry `i` -/
theorem loss_batch_entry_own_sample (k : Kind) (e : Err) (a eps : α) (n m m' : Nat) (T O T' O' : List α) (i : Nat)
    (hi : i < m) (hi' : i < m') (hT : sampleAt n i T = sampleAt n i T') (hO : sampleAt n i O = sampleAt n i O') :
    (batchValues k a eps n m T O)[i]? = (batchValues k a eps n m' T' O')[i]? ∧
    (batchErrors k e a eps n m T O)[i]? = (batchErrors k e a eps n m' T' O')[i]? ∧
    (batchValues k a eps n m T O)[i]? = some (value k a eps (sampleAt n i T) (sampleAt n i O)) ∧
    (batchErrors k e a eps n m T O)[i]? = some (error k e a eps (sampleAt n i T) (sampleAt n i O)) :=
  ⟨batchMap_entry_own_sample _ n m m' T O T' O' i hi hi' hT hO, batchMap_entry_own_sample _ n m m' T O T' O' i hi hi' hT hO,
    batchMap_getElem? _ n m T O i hi, batchMap_getElem? _ n m T O i hi⟩

/-- a batch of samples = each sample alone (values and errors): the call on the one-sample tensors holding sample `i`
    returns exactly entry `i` of the batch call — any `m`, any `n` (nothing has to divide anything) -/
theorem loss_batch_eq_each_alone (k : Kind) (e : Err) (a eps : α) (n m : Nat) (T O : List α) (i : Nat) (hi : i < m) :
    (batchValues k a eps n m T O)[i]? = (batchValues k a eps n 1 (sampleAt n i T) (sampleAt n i O))[0]? ∧
    (batchErrors k e a eps n m T O)[i]? = (batchErrors k e a eps n 1 (sampleAt n i T) (sampleAt n i O))[0]? :=
  ⟨(batchMap_each_alone _ n m T O i hi).2, (batchMap_each_alone _ n m T O i hi).2⟩

/-- the gradient tensor of `loss_t::vgrad`: it has `m · n` scalars, block `i` is the per-sample gradient of sample `i`
    (every block is written, none is written twice), and it is what the call on sample `i` alone returns -/
theorem loss_batch_vgrad_own_sample (k : Kind) (a : α) (n m : Nat) (T O : List α) (i : Nat) (hi : i < m)
    (hT : m * n ≤ T.length) (hO : m * n ≤ O.length) :
    (batchVgrads k a n m T O).length = m * n ∧
    sampleAt n i (batchVgrads k a n m T O) = vgrad k a (sampleAt n i T) (sampleAt n i O) ∧
    sampleAt n i (batchVgrads k a n m T O) = batchVgrads k a n 1 (sampleAt n i T) (sampleAt n i O) := by
  have hg : ∀ t o : List α, t.length = n → o.length = n → (vgrad k a t o).length = n :=
    fun t o ht ho => by rw [vgrad_length k a t o (by rw [ht, ho]), ho]
  have h2 := batchFlat_sampleAt (vgrad k a) n hg m T O i hi hT hO
  have h2' : sampleAt n i (batchVgrads k a n m T O) = vgrad k a (sampleAt n i T) (sampleAt n i O) := h2
  refine ⟨batchFlat_length (vgrad k a) n hg m T O hT hO, h2', ?_⟩
  rw [h2']
  simp [batchVgrads, batchFlat, sampleAt_take]

/-- two batches one after the other = one batch of both -/
theorem loss_batch_append (k : Kind) (a eps : α) (n m1 m2 : Nat) (T1 O1 T2 O2 : List α)
    (hT : T1.length = m1 * n) (hO : O1.length = m1 * n) :
    batchValues k a eps n (m1 + m2) (T1 ++ T2) (O1 ++ O2) =
      batchValues k a eps n m1 T1 O1 ++ batchValues k a eps n m2 T2 O2 :=
  batchMap_append _ n m1 m2 T1 O1 T2 O2 hT hO

end field

/-! ## gap-closing round: the hypothesis of `classnll_nonneg` is necessary (witnesses replayed on the code: corpus/C06) -/

/-- two positive targets: `s-classnll` AS CODED (machine `ε` inside the logarithm, shift by the maximal output) is negative
    at outputs (10, 10): `log(ε + 2) − 20 + 10 < 0` for every `0 ≤ ε ≤ 1` -/
theorem classnll_negative_two_positives (a eps : ℝ) (h0 : 0 ≤ eps) (h1 : eps ≤ 1) :
    value .classnll a eps [1, 1] [10, 10] < 0 := by
  show classnllV eps [1, 1] [10, 10] < 0
  have hm : maxCoeff ([10, 10] : List ℝ) = 10 := by simp [maxCoeff]
  unfold classnllV classnllShift
  rw [hm]
  simp only [expSum, posSum, tlog_eq, texp_eq]
  norm_num
  have hl : Real.log (eps + (Real.exp 0 + Real.exp 0)) ≤ eps + (Real.exp 0 + Real.exp 0) - 1 :=
    Real.log_le_sub_one_of_pos (by rw [Real.exp_zero]; linarith)
  rw [Real.exp_zero] at hl
  norm_num at hl
  linarith

/-- no positive target: negative at outputs (−10, −10): `log(ε + 2) − 0 − 10 < 0` -/
theorem classnll_negative_no_positive (a eps : ℝ) (h0 : 0 ≤ eps) (h1 : eps ≤ 1) :
    value .classnll a eps [-1, -1] [-10, -10] < 0 := by
  show classnllV eps [-1, -1] [-10, -10] < 0
  have hm : maxCoeff ([-10, -10] : List ℝ) = -10 := by simp [maxCoeff]
  unfold classnllV classnllShift
  rw [hm]
  simp only [expSum, posSum, tlog_eq, texp_eq]
  norm_num
  have hl : Real.log (eps + (Real.exp 0 + Real.exp 0)) ≤ eps + (Real.exp 0 + Real.exp 0) - 1 :=
    Real.log_le_sub_one_of_pos (by rw [Real.exp_zero]; linarith)
  rw [Real.exp_zero] at hl
  norm_num at hl
  linarith

/-- the hypothesis `alpha ∈ [0, 1]` of `loss_nonneg` / `pinball_subgrad` is necessary: with `alpha = 2` the pinball value of
    target 0, output 1 is `−1`. The implementation cannot be brought there: the parameter `loss::pinball::alpha` has the
    domain `[0, 1]` and refuses the assignment (replayed: corpus/C06, `#rejected-alpha`). -/
theorem pinball_negative_outside_domain (eps : ℝ) : value .pinball 2 eps [0] [1] = -1 := by
  simp [value, sum2, pinballV, max0]; norm_num

/-! ## gap-closing round: declared strong-convexity coefficients of the quadratic objects are valid moduli -/

section field
variable {α : Type} [Field α] [LinearOrder α] [IsStrictOrderedRing α] [Transc α]

/-- random quadratic: ANY `μ` with `μ ‖d‖² ≤ d·A d` (in particular the smallest eigenvalue of the self-adjoint `A`, which
    `nano::strong_convexity` asks Eigen for) is a valid modulus; the gap is exactly `½ (z − x)·A(z − x)` -/
theorem quadratic_subgrad_mu (a : List α) (A : List (List α)) (x z : List α) (n : Nat) (mu : α)
    (hA : A.length = n) (ha : a.length = n) (hx : x.length = n) (hz : z.length = n)
    (hsym : ∀ u v : List α, u.length = n → v.length = n → dot u (mulVec A v) = dot v (mulVec A u))
    (hmu : ∀ d : List α, d.length = n → mu * dot d d ≤ dot d (mulVec A d)) :
    quadraticF a A z ≥ quadraticF a A x + dot (quadraticG a A x) (vsub z x) + mu / 2 * dot (vsub z x) (vsub z x) := by
  have hl : z.length = x.length := by rw [hz, hx]
  have hgap := quadform_gap A a x z n hA ha hx hz hsym
  have hd := hmu (vsub z x) (by rw [vsub_length z x hl, hx])
  unfold quadraticF quadraticG
  have e : ∀ y : List α, y.length = n → dot y (vadd a (smul (1 / 2) (mulVec A y))) =
      1 / 2 * dot y (mulVec A y) + dot a y := by
    intro y hy
    rw [dot_comm, dot_vadd_left _ _ _ (by rw [smul_length, mulVec_length, ha, hA]), dot_smul_left,
      dot_comm (mulVec A y) y]; ring
  rw [e z hz, e x hx]
  have e2 : dot (vadd a (mulVec A x)) (vsub z x) = dot (vadd (mulVec A x) a) (vsub z x) := by
    rw [dot_vadd_left _ _ _ (by rw [mulVec_length, ha, hA]), dot_vadd_left _ _ _ (by rw [mulVec_length, ha, hA])]; ring
  rw [e2]
  linarith

/-- quadratic constraint kinds: ANY `μ` with `μ ‖d‖² ≤ d·P d` is a valid modulus for the symmetrised gradient — for every
    square `P`, symmetric or not (`d·P d = d·((P + Pᵀ)/2) d`: the flags must come from the SYMMETRIC part, see
    `cquad_flags_need_symmetric_part`) -/
theorem cquad_subgrad_mu (P : List (List α)) (q : List α) (r : α) (x z : List α) (n : Nat) (mu : α)
    (hP : P.length = n) (hrows : ∀ r ∈ P, r.length = n) (hq : q.length = n) (hx : x.length = n) (hz : z.length = n)
    (hmu : ∀ d : List α, d.length = n → mu * dot d d ≤ dot d (mulVec P d)) :
    cquadF P q r z ≥ cquadF P q r x + dot (cquadG P q x) (vsub z x) + mu / 2 * dot (vsub z x) (vsub z x) := by
  have hl : z.length = x.length := by rw [hz, hx]
  have hgap := quadform_sym_gap P q x z n hP hrows hq hx hz
  have hd := hmu (vsub z x) (by rw [vsub_length z x hl, hx])
  unfold cquadF cquadG
  linarith

/-- why the flags of a quadratic constraint must be computed from the symmetric part: `P = [[1, 4], [0, 1]]` has the
    eigenvalues 1, 1 (it is triangular), so a test on the spectrum of `P` itself declares the constraint convex with `μ = 1`;
    its quadratic form is negative at `d = (1, −1)` and the convexity inequality fails between `x = 0` and `z = (1, −1)`
    (replayed on the code: corpus/C06, third line) -/
theorem cquad_flags_need_symmetric_part :
    dot ([1, -1] : List α) (mulVec [[1, 4], [0, 1]] [1, -1]) < 0 ∧
    cquadF [[1, 4], [0, 1]] [0, 0] (0 : α) [1, -1] <
      cquadF [[1, 4], [0, 1]] [0, 0] (0 : α) [0, 0] + dot (cquadG [[1, 4], [0, 1]] [0, 0] [0, 0]) (vsub [1, -1] [0, 0]) := by
  constructor
  · simp [mulVec, dot]; norm_num
  · simp [cquadF, cquadG, mulVec, tmulVec, dot, vsub, vadd, smul]; norm_num

end field

/-! ## gap-closing round: `make(dims, summands)`, gradient buffers, the `function_t` base class -/

/-- `size()` of every registered prototype for EVERY requested dims 1..32 is the model's rule (`Gen/Flags.lean: sizes`,
    dumped from the implementation on every run): `dims`, `max(dims, 2)` (rosenbrock, elastic-net), `max(4, dims − dims % 4)`
    (powell). A prototype keeping a `dims` that its formulas do not cover breaks this theorem. -/
theorem sizes_covered :
    (sizes.all fun p => p.2 == (List.range 32).map (fun d => FnBase.sizeBy (sizeRuleOf p.1) (d + 1))) = true :=
  sizes_covered_table

/-- … and the rule the driver looks up by the registered id is the same one -/
theorem size_rule_by_id :
    (sizes.all fun p => decide (FnBase.sizeRuleOfId p.1.rawId = sizeRuleOf p.1)) = true := size_rule_by_id_table

/-- powell: the size is a positive multiple of four, the largest one not above `dims` -/
theorem powell_size (d : Nat) :
    4 ∣ FnBase.sizeBy .powell d ∧ 4 ≤ FnBase.sizeBy .powell d ∧ FnBase.sizeBy .powell d ≤ max 4 d ∧
      (4 ≤ d → d < FnBase.sizeBy .powell d + 4) := powell_size_spec d

section field
variable {α : Type} [Field α] [LinearOrder α] [IsStrictOrderedRing α]

/-- powell writes EVERY gradient component exactly when the dimension is a multiple of four — which `size()` always is
    (`powell_size`); for any other length the trailing `length % 4` coordinates enter neither value nor gradient: the model
    returns a SHORTER gradient (the harness pre-fills the buffer with a sentinel and the oracle rejects unwritten entries) -/
theorem powell_gradient_complete : ∀ (x : List α), (powellG x).length = x.length - x.length % 4
  | [] => rfl
  | [_] => rfl
  | [_, _] => rfl
  | [_, _, _] => rfl
  | a :: b :: c :: d :: r => by
    have ih := powell_gradient_complete r
    simp only [powellG, List.length_cons, ih]
    omega

theorem powell_value_ignores_tail (a b c d : α) (r : List α) (hr : r.length < 4) :
    powellF (a :: b :: c :: d :: r) = powellF [a, b, c, d] := by
  match r, hr with
  | [], _ => rfl
  | [_], _ => simp [powellF]
  | [_, _], _ => simp [powellF]
  | [_, _, _], _ => simp [powellF]

end field

section base
variable {α : Type} [Add α] [Sub α] [Mul α] [Div α] [Neg α] [LT α] [DecidableLT α] [OfNat α 0] [OfNat α 1] [OfNat α 2]
open NanoVerif.FnBase NanoVerif.Constraint

/-- `function_t::constrain` (all four overloads), for EVERY history on a fresh function: the size never changes, constraints
    are only appended, and every stored constraint is compatible with the function (dimensions in range, coefficient sizes
    right, radius positive) — so `vgrad` / `valid` of a stored constraint at a point of the function is well-defined -/
theorem function_constraints_invariant (eps : α) (n : Nat) (ops : List (Op α)) :
    (run eps (fresh n) ops).1.size = n ∧ BaseInv (run eps (fresh n : St α) ops).1 ∧
    countEq (run eps (fresh n : St α) ops).1.cons + countIneq (run eps (fresh n : St α) ops).1.cons =
      (run eps (fresh n : St α) ops).1.cons.length :=
  ⟨run_size eps ops _, run_inv eps ops _ (fresh_inv n), count_total _⟩

/-- acceptance rules: a generic constraint iff `compatible`; the box overloads iff `min < max` (and the dimension in range /
    both vectors of the function's size with `max − min > 0` everywhere); a refused call leaves the function unchanged -/
theorem function_constrain_acceptance (eps : α) (s : St α) :
    (∀ c : C α, ((step eps s (.cg c)).2 = some true ↔ c.compatible s.size = true) ∧
      ((step eps s (.cg c)).2 ≠ some true → (step eps s (.cg c)).1 = s)) ∧
    (∀ lo hi : α, ((step eps s (.cb lo hi)).2 = some true ↔ lo < hi) ∧
      ((step eps s (.cb lo hi)).2 ≠ some true → (step eps s (.cb lo hi)).1 = s)) ∧
    (∀ (lo hi : α) (dim : Int), ((step eps s (.cd lo hi dim)).2 = some true ↔ (lo < hi ∧ 0 ≤ dim ∧ dim < (s.size : Int))) ∧
      ((step eps s (.cd lo hi dim)).2 ≠ some true → (step eps s (.cd lo hi dim)).1 = s)) ∧
    (∀ lo hi : List α, ((step eps s (.cv lo hi)).2 = some true ↔
        (lo.length = s.size ∧ hi.length = s.size ∧ allPos lo hi = true)) ∧
      ((step eps s (.cv lo hi)).2 ≠ some true → (step eps s (.cv lo hi)).1 = s)) :=
  ⟨fun c => ⟨(cg_accepted_iff eps s c).1, (cg_accepted_iff eps s c).2.2⟩,
   fun lo hi => ⟨(cb_accepted_iff eps s lo hi).1, (cb_accepted_iff eps s lo hi).2.2⟩,
   fun lo hi d => ⟨(cd_accepted_iff eps s lo hi d).1, (cd_accepted_iff eps s lo hi d).2.2⟩,
   fun lo hi => ⟨(cv_accepted_iff eps s lo hi).1, (cv_accepted_iff eps s lo hi).2.2⟩⟩

/-- an accepted `constrain(min, max)` stores `2 · size` inequalities and no equality -/
theorem function_box_counts (eps : α) (s : St α) (lo hi : α) (h : lo < hi) :
    countIneq (step eps s (.cb lo hi)).1.cons = countIneq s.cons + 2 * s.size ∧
    countEq (step eps s (.cb lo hi)).1.cons = countEq s.cons := cb_counts eps s lo hi h

/-- `function_t::valid(x)`: every stored constraint is violated by less than the machine epsilon -/
theorem function_valid_iff (eps : α) (s : St α) (x : List α) :
    (step eps s (.valid x)).2 = some true ↔ ∀ c ∈ s.cons, c.valid x < eps := valid_answer_iff eps s x

/-- `function_t::vgrad` counts calls: between two `clear_statistics`, `fcalls` = the number of calls, `gcalls` = the number
    of calls with a gradient buffer of the function's size; and for EVERY history `gcalls ≤ fcalls` -/
theorem function_call_counters (eps : α) (n : Nat) (ops : List (Op α)) :
    (noClr ops = true → (run eps (fresh n : St α) ops).1.fcalls = evalCount ops ∧
      (run eps (fresh n : St α) ops).1.gcalls = gradCount n ops) ∧
    (run eps (fresh n : St α) ops).1.gcalls ≤ (run eps (fresh n : St α) ops).1.fcalls := by
  refine ⟨fun h => ?_, run_calls_le eps ops _ (Nat.le_refl 0)⟩
  have := run_calls eps ops (fresh n : St α) h
  simpa [fresh] using this

end base

/-! ### non-vacuity of the gap-closing theorems -/

-- three samples of two scalars: the second sample as a block, and as the loop sees it
example : sampleAt 2 1 [1, 2, 3, 4, 5, 6] = [3, 4] ∧
    batchMap (fun (t o : List Nat) => t.sum + o.sum) 2 3 [1, 2, 3, 4, 5, 6] [0, 0, 1, 1, 2, 2] = [3, 9, 15] := by decide
-- a batch of 3 samples of 2 outputs, mse at ℚ: values (1/2, 0, 2), the gradient buffer has 6 entries
example : batchValues .mse (0 : ℝ) 0 2 3 [0, 0, 1, 1, 2, 2] [1, 0, 1, 1, 0, 2] = [1 / 2, 0, 2] ∧
    batchVgrads .mse (0 : ℝ) 2 3 [0, 0, 1, 1, 2, 2] [1, 0, 1, 1, 0, 2] = [1, 0, 0, 0, -2, 0] := by
  simp [batchValues, batchVgrads, batchMap, batchFlat, value, vgrad, sum2, map2, mseV, mseG]
-- the hypotheses of `quadratic_subgrad_mu` are satisfiable with a positive modulus: A = 2 I, μ = 2
example : ∃ (A : List (List ℚ)) (mu : ℚ), 0 < mu ∧ ∀ d : List ℚ, d.length = 2 → mu * dot d d ≤ dot d (mulVec A d) := by
  refine ⟨[[2, 0], [0, 2]], 2, by norm_num, ?_⟩
  intro d hd
  match d, hd with
  | [a, b], _ => simp [mulVec, dot]; nlinarith
-- sizes: the table has 48 prototypes; powell at dims 1..9 is 4 4 4 4 4 4 4 8 8
set_option maxRecDepth 100000 in
example : sizes.length = 48 ∧ (List.range 9).map (fun d => FnBase.sizeBy .powell (d + 1)) = [4, 4, 4, 4, 4, 4, 4, 8, 8] := by
  decide
-- powell in 5 dimensions as the seeded change had it: the model's gradient has 4 entries (the fifth is never written)
example : (powellG ([1, 2, 3, 4, 5] : List ℚ)).length = 4 := by simp [powellG]
-- a history on a fresh 2-dimensional function (integer scalars, ε = 1): an accepted box, a refused box (min = max), a
-- dimension out of range, one value-only and one gradient call, a feasible and an infeasible point:
-- 4 constraints, 2 calls, 1 gradient call
def baseHistory : List (FnBase.Op Int) := [.cb (-1) 1, .cb 0 0, .cd 0 1 2, .eval 0, .eval 2, .valid [0, 0], .valid [2, 0]]
example : (FnBase.run (1 : Int) (FnBase.fresh 2) baseHistory).1.cons.length = 4 ∧
    (FnBase.run (1 : Int) (FnBase.fresh 2) baseHistory).1.fcalls = 2 ∧
    (FnBase.run (1 : Int) (FnBase.fresh 2) baseHistory).1.gcalls = 1 ∧
    (FnBase.run (1 : Int) (FnBase.fresh 2) baseHistory).2 =
      [some true, some false, some false, none, none, some true, some false] := by
  decide

end NanoVerif.C06
