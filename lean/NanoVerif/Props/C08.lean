import NanoVerif.Proofs.DatasetHistory
import NanoVerif.Proofs.DatasetGradientViews
import NanoVerif.Proofs.DatasetGenCustom
/-!
  C08 — all dataset views agree with the stored feature values, including missing ones.

  Property theorems about `Model/Mask.lean` + `Model/Dataset.lean` (the model of mask.h, datasource.h/.cpp, iterator.h,
  generator/*.h, generator.cpp, dataset.cpp; addressing through the C16 tensor model). Core Lean only. Helper lemmas live in
  `Proofs/Dataset*.lean`. Layers:

    concrete  pools + ranges + bit masks, `visit` = slice/reshape, iterators, encoders writing into a row buffer, flag bytes
    abstract  `D = Storage.stored : feature → sample → Option value`, the documented encodings (`viewOf`, `encodeView`,
              `oneHot`, `productOf`, `targetRow`), the flag rule `absStep`

  Hypotheses: `Storage.WF` / `Dataset.WF` (established by `resize`, preserved by `set`, `add` and every history operation:
  `wf_reachable`, `run_keeps`), `ClassValuesOk` (labels and hits are non-negative: `classValuesOk_resize`,
  `classValuesOk_set`), and — for the statements that go through `dataset_t::select` — `Dataset.NonDegenerate` (no gradient
  feature derived from a 3x3 image: the open finding `gradient-1x1-select-unwritten`, characterised by `selectUnwritten_iff`).
  No theorem is `_partial`. Outside the theorems (correspondence / oracle only): the batching of the flatten / targets
  iterators, binary64 conversions of the stored values and binary64 rounding inside the image kernels.
-/
namespace NanoVerif.Dataset
open NanoVerif.Tensor NanoVerif.Mask

/-! ### bit mask, ranges, storage -/

/-- MSB-first bit mask (mask.h:31-44): after `setbit m s`, bit `s'` reads as set iff `s' = s` or it was set before — setting a
    bit never disturbs another sample (in particular not its 7 neighbours in the same byte). -/
theorem getbit_setbit (m : List Nat) (s s' : Nat) (hs : s / 8 < m.length) :
    getbit (setbit m s) s' = (decide (s = s') || getbit m s') :=
  getbit_setbit' m s s' hs

/-- The `update_size_storage` loop hands out, per pool, consecutive row ranges: the ranges of the features stored in pool `p`
    tile `[sizes[p], final size of p)` in feature order (hence they are pairwise disjoint and nothing is left over), every
    feature gets exactly `comps` rows, one range per feature. -/
theorem ranges_disjoint_tile (sizes : List Nat) (feats : List Feature) (p : Nat)
    (hp : ∀ f ∈ feats, f.pool.code < sizes.length) :
    (assignRanges sizes feats).1.length = feats.length ∧
    (assignRanges sizes feats).2.length = sizes.length ∧
    Tile (sizes.getD p 0) ((assignRanges sizes feats).2.getD p 0) (poolRanges p feats (assignRanges sizes feats).1) ∧
    (∀ (i : Nat) (f : Feature) (r : Nat × Nat), feats[i]? = some f → (assignRanges sizes feats).1[i]? = some r → r.2 = r.1 + f.comps) := by
  obtain ⟨h1, h2, _, h4, _⟩ := assignRanges_spec feats sizes hp
  exact ⟨h1, h2, assignRanges_tile p feats sizes hp, fun i f r hf hr => (h4 i f r hf hr).2.1⟩

/-- **storage refines the abstract map** `D : feature → sample → Option value`: `set` (through the sliced + reshaped view of the
    typed pool, plus the mask bit) is a point update of `D` — the written value is read back, every other (feature, sample)
    keeps its value or stays missing, whatever pools and ranges the features share. -/
theorem storage_refines (st st' : Storage) (h : st.WF) (s f : Nat) (v : List Int) (hset : st.set s f v = some st')
    (f' s' : Nat) (hf' : f' < st.feats.length) (hs' : s' < st.samples) :
    st'.stored f' s' = if f' = f ∧ s' = s then some v else st.stored f' s' :=
  storage_refines' st st' h s f v hset f' s' hf' hs'

/-- never set ⇒ missing -/
theorem stored_never_set (n : Nat) (feats : List Feature) (target f s : Nat) :
    (resize n feats target).stored f s = none :=
  stored_never_set' n feats target f s

/-- datasets built by `resize`, `set`, `add` satisfy the hypotheses of the C08 theorems -/
theorem wf_reachable :
    (∀ (n : Nat) (feats : List Feature) (t : Nat), 0 < n → (resize n feats t).WF) ∧
    (∀ (st st' : Storage) (s f : Nat) (v : List Int), st.WF → st.set s f v = some st' → st'.WF) ∧
    (∀ st : Storage, st.WF → (⟨st, []⟩ : Dataset).WF) ∧
    (∀ (ds ds' : Dataset) (k : GKind) (l1 l2 : List Nat), ds.WF → ds.add k l1 l2 = some ds' → ds'.WF ∧ ds'.st = ds.st) :=
  ⟨fun n feats t hn => resize_wf n feats t hn,
   fun st st' s f v h hset => set_wf st st' h s f v hset,
   fun st h => ⟨h, by simp⟩,
   fun ds ds' k l1 l2 h hadd => ⟨(add_wf ds ds' k l1 l2 h hadd).1, (add_wf ds ds' k l1 l2 h hadd).2.1⟩⟩

/-! ### bookkeeping -/

/-- **columns add up**: `columns()` is the sum of the columns of all the features (`classes − 1` / `classes` / `size(dims)`),
    the per-generator counts `m_generator_mapping` add up to it, and (for fitted generators) each generator's count is what
    its `flatten` writes (`process().colsize`). -/
theorem columns_total (ds : Dataset) :
    ds.columns = (ds.featureList.map featureColumns).sum ∧
    ds.genColumns.sum = ds.columns ∧
    ds.genColumns.length = ds.gens.length ∧
    ((∀ g ∈ ds.gens, g.WF ds.st) →
      ds.genColumns = ds.gens.map (fun g => ((List.range g.features).map g.colsize).sum)) :=
  columns_total' ds

/-- **column → feature**: `column2feature c = f` exactly for the columns of the block reserved for feature `f`: the blocks
    follow each other in feature order, feature `f` owns `[colOffset f, colOffset f + columns f)`. -/
theorem column2feature_spec (ds : Dataset) (c f : Nat) :
    ds.column2feature c = some f ↔
      ∃ desc, ds.featureList[f]? = some desc ∧
        colOffset ds.featureList f ≤ c ∧ c < colOffset ds.featureList f + featureColumns desc := by
  unfold Dataset.column2feature Dataset.colMap
  rw [colMapFrom_getElem?]
  constructor
  · rintro ⟨j, rfl, desc, h1, h2, h3⟩
    exact ⟨desc, by simpa using h1, by simpa using h2, by simpa using h3⟩
  · rintro ⟨desc, h1, h2, h3⟩
    exact ⟨f, by omega, desc, h1, h2, h3⟩

section
variable {α : Type} [Scalar α]

/-! ### per-feature views, missing values, products, targets -/

/-- **identity features equal the stored values**: with no flag set, the per-feature view of feature `i` of an identity
    generator lists, for every position of the sample list (any order, repetitions allowed), the stored value of the original
    feature at that sample, missing values as −1 / NaN. -/
theorem identity_eq_stored (st : Storage) (g : Gen) (i : Nat) (m : FMap) (samples : List Nat)
    (hm : g.mapping[i]? = some m) (hk : g.kind ≠ .product) (hk' : ∀ k, g.kind ≠ .gradient k)
    (hk'' : ∀ c, g.kind ≠ .custom c) (hflag : g.infos.getD i 0 = 0) :
    g.select (α := α) st i samples =
      some (viewOf g.kind m (samples.map (fun s => st.stored (st.inputIndex m.orig) s))) := by
  have h1 := shuffledAll_of_flag0 g i hflag
  have h2 := shouldDrop_of_flag0 g i hflag
  unfold Gen.select
  simp only [hm, Option.bind_eq_bind, Option.bind_some, h1, h2, iterate_nil]
  cases hkind : g.kind <;> simp_all [viewOf]

/-- **missing values are marked**: −1 (labels, every hit of a multi-label row), NaN (scalars, every component of a tensor,
    every column of the dense encodings, products with a missing factor) -/
theorem missing_marked (classes size colsize : Nat) :
    encSclass none = -1 ∧
    encMclass classes none = List.replicate classes (-1) ∧
    encScalar (α := α) none = Scalar.nan ∧
    encStruct (α := α) size none = List.replicate size Scalar.nan ∧
    encProduct (α := α) none = Scalar.nan ∧
    flatSclass (α := α) colsize none = List.replicate colsize Scalar.nan ∧
    flatMclass (α := α) colsize none = List.replicate colsize Scalar.nan ∧
    (∀ desc : Feature, (targetRow (α := α) desc none) = List.replicate
        (match desc.type with | .sclass => desc.classes | .mclass => desc.classes | _ => desc.dimSize) Scalar.nan) := by
  refine ⟨rfl, rfl, rfl, rfl, rfl, rfl, rfl, ?_⟩
  intro desc
  unfold targetRow
  cases desc.type <;> rfl

/-- **product features are the product of their two sources** (NaN when either factor is missing): both the per-feature view
    and the dense column -/
theorem product_spec (st : Storage) (g : Gen) (i : Nat) (m : FMap) (samples : List Nat)
    (hm : g.mapping[i]? = some m) (hk : g.kind = .product) (hflag : g.infos.getD i 0 = 0) :
    g.select (α := α) st i samples =
      some (.scalar (samples.map (fun s =>
        productOf (st.stored (st.inputIndex m.orig) s) (st.stored (st.inputIndex m.orig2) s)))) ∧
    g.segments (α := α) st i samples =
      samples.map (fun s => [productOf (st.stored (st.inputIndex m.orig) s) (st.stored (st.inputIndex m.orig2) s)]) := by
  have h1 := shuffledAll_of_flag0 g i hflag
  have h2 := shouldDrop_of_flag0 g i hflag
  have hm' : g.mapping.getD i default = m := by simp [List.getD_eq_getElem?_getD, hm]
  constructor
  · unfold Gen.select
    simp only [hm, Option.bind_eq_bind, Option.bind_some, h1, h2, hk, iterate2, iterSample_nil, List.map_map]
    simp only [Bool.false_eq_true, if_false, Option.pure_def, Option.some.injEq, View.scalar.injEq]
    congr 1
    funext s
    simp only [Function.comp, productOf, encProduct]
    cases st.stored (st.inputIndex m.orig) s <;> cases st.stored (st.inputIndex m.orig2) s <;> rfl
  · unfold Gen.segments
    simp only [hm', h1, h2, hk, iterate2, iterSample_nil, List.map_map]
    simp only [Bool.false_eq_true, if_false]
    congr 1
    funext s
    simp only [Function.comp, productOf, encProduct]
    cases st.stored (st.inputIndex m.orig) s <;> cases st.stored (st.inputIndex m.orig2) s <;> rfl

/-- **targets**: one row per position of the sample list; a single-label target is one-hot ±1 over all `classes` columns,
    a multi-label target is `hit * 2 − 1`, a continuous target its values (row-major), a missing one NaN; the reported
    dimensions are `(classes, 1, 1)` resp. the feature's dims; an unsupervised dataset throws. -/
theorem targets_spec (ds : Dataset) (samples : List Int) (ss : List Nat) (hs : ds.checkSamples samples = some ss) :
    (ds.st.target = none → ds.targets (α := α) samples = none) ∧
    (∀ t desc, ds.st.target = some t → ds.target = some desc →
      ds.targets (α := α) samples = some (ds.targetDims, ss.map (fun s => targetRow desc (ds.st.stored t s))) ∧
      ds.targetDims = (match desc.type with
        | .sclass => (desc.classes, 1, 1) | .mclass => (desc.classes, 1, 1) | _ => (desc.d0, desc.d1, desc.d2))) ∧
    (∀ desc : Feature, ∀ l : Int, desc.type = .sclass → 0 ≤ l →
      targetRow (α := α) desc (some [l]) = oneHot desc.classes l.toNat) ∧
    (∀ desc : Feature, ∀ v : List Int, desc.type = .mclass →
      targetRow (α := α) desc (some v) =
        v.map (fun h => Scalar.sub (Scalar.mul (Scalar.ofInt h) (Scalar.ofInt 2)) (Scalar.ofInt 1))) ∧
    (∀ desc : Feature, ∀ v : List Int, desc.type ≠ .sclass → desc.type ≠ .mclass →
      targetRow (α := α) desc (some v) = v.map Scalar.ofInt) := by
  refine ⟨?_, ?_, ?_, ?_, ?_⟩
  · intro h
    simp [Dataset.targets, hs, h]
  · intro t desc ht hd
    constructor
    · simp [Dataset.targets, hs, ht, hd]
    · simp only [Dataset.targetDims, hd]
      cases desc.type <;> rfl
  · intro desc l ht _
    simp [targetRow, ht, oneHot, headI]
  · intro desc v ht
    simp [targetRow, ht]
  · intro desc v h1 h2
    unfold targetRow
    cases hty : desc.type <;> simp_all [encStruct]

/-! ### the flattened view -/

/-- **the flattened view is the documented encoding of the per-feature views**: for any sample list (any order, repetitions)
    and any (not cleared) buffer of the right shape, `flatten` returns, side by side in feature order, `encodeView` of what
    `select` returns for each feature — one-hot ±1 with `classes − 1` columns, `2·hit − 1`, identity, row-major, NaN for
    missing — whatever the drop / shuffle flags; and every `select` involved succeeds. -/
theorem flatten_eq_encode_select (ds : Dataset) (hwf : ds.WF) (hnd : ds.NonDegenerate) (hcls : ClassValuesOk ds.st)
    (samples : List Int)
    (ss : List Nat) (hs : ds.checkSamples samples = some ss) (buf0 : List (List α)) (hlen : buf0.length = ss.length)
    (hrows : ∀ r ∈ buf0, r.length = ds.columns) :
    ds.flattenInto samples buf0 = some (hcatRows ss.length
      ((List.range ds.features).map (fun f => encodeView (ds.featureCols f) (ds.selectAuto (α := α) samples f)))) ∧
    ∀ f, f < ds.features → ∃ o, ds.select (α := α) samples (f : Int) o = some (ds.selectAuto samples f) := by
  -- per dataset feature: the facts about its generator
  have key : ∀ f, f < ds.features → ∃ gi i g, ds.featMap[f]? = some (gi, i) ∧ ds.gens[gi]? = some g ∧
      ds.featureCols f = g.colsize i ∧
      ∃ v, ds.selectAuto (α := α) samples f = v ∧
        ds.select (α := α) samples (f : Int) (kindOverload g.kind) = some v ∧
        g.segments (α := α) ds.st i ss = encodeView (g.colsize i) v := by
    intro f hf
    have hf' : f < ds.featMap.length := hf
    have hfm : ds.featMap[f]? = some ((ds.featMap[f]'hf').1, (ds.featMap[f]'hf').2) := by
      rw [List.getElem?_eq_getElem hf']
    obtain ⟨g, desc, hg, hi, hfeat, hc, hsel⟩ := select_eq_gen (α := α) ds hwf samples ss hs f _ _ hfm
      (fun g hg => hnd g (List.mem_of_getElem? hg))
    have hgwf := hwf.gens g (List.mem_of_getElem? hg)
    have hi' : (ds.featMap[f]'hf').2 < g.mapping.length := hi
    obtain ⟨v, hv, hseg⟩ := segments_eq_encode (α := α) ds.st hcls g hgwf _ _ (List.getElem?_eq_getElem hi') ss
    refine ⟨_, _, g, hfm, hg, ?_, v, ?_, by rw [hsel, hv], hseg⟩
    · simp [Dataset.featureCols, hfeat, hc]
    · unfold Dataset.selectAuto
      rw [hfm]
      simp only [hg, Option.bind_some, hsel, hv, Option.getD_some]
  constructor
  · rw [flatten_blocks ds hwf samples ss hs buf0 hlen hrows]
    congr 2
    -- both lists enumerate the features in dataset order
    have h1 : (List.range ds.features).map (fun f => encodeView (ds.featureCols f) (ds.selectAuto (α := α) samples f)) =
        ds.featMap.map (fun p => match ds.gens[p.1]? with
          | some g => g.segments (α := α) ds.st p.2 ss
          | none => []) := by
      apply List.ext_getElem?
      intro f
      by_cases hf : f < ds.features
      · obtain ⟨gi, i, g, hfm, hg, hc, v, hauto, _, hseg⟩ := key f hf
        simp only [List.getElem?_map, List.getElem?_range hf, Option.map_some, hfm, hg]
        rw [hc, hauto, hseg]
      · have hf' : ¬ f < ds.featMap.length := hf
        simp only [List.getElem?_map]
        rw [List.getElem?_eq_none (by simpa using hf), List.getElem?_eq_none (by omega)]
        rfl
    rw [h1]
    unfold Dataset.featMap
    symm
    apply featMapFrom_map (fun g i => g.segments (α := α) ds.st i ss)
    intro j g i hg
    simp [hg]
  · intro f hf
    obtain ⟨gi, i, g, _, _, _, v, hauto, hsel, _⟩ := key f hf
    exact ⟨kindOverload g.kind, by rw [hsel, hauto]⟩

/-! ### drop / shuffle histories -/

/-- **histories**: after ANY sequence of `drop / undrop / shuffle / unshuffle` calls (invalid feature indices included), the
    view `select` returns for a feature is the spec view of the stored values transformed by the feature's current flag,
    where the flags evolve by the documented rule `absStep` — dropped ⇒ exactly that feature is missing, shuffled ⇒ exactly
    that feature is read through the reported permutation, every other feature is untouched. -/
theorem history_view (ds : Dataset) (hwf : ds.WF) (ops : List HOp) (samples : List Int) (ss : List Nat)
    (hs : ds.checkSamples samples = some ss) (f gi i : Nat) (g : Gen) (m : FMap)
    (hfm : ds.featMap[f]? = some (gi, i)) (hg : ds.gens[gi]? = some g) (hm : g.mapping[i]? = some m)
    (hnd : g.NonDegenerate) :
    (ds.run ops).select (α := α) samples (f : Int) (kindOverload g.kind) =
      some (specSelect ds.st g.kind m (absRun ds.features ds.flag ops f) ss) := by
  obtain ⟨hst, hwf', hfm', hgens, hflag⟩ := run_keeps ops ds hwf
  obtain ⟨g', hg', hshape⟩ := hgens gi g hg
  have hk : g'.kind = g.kind := congrArg Prod.fst hshape
  have hmap : g'.mapping = g.mapping := congrArg Prod.snd hshape
  have hs' : (ds.run ops).checkSamples samples = some ss := by
    simpa [Dataset.checkSamples, hst] using hs
  obtain ⟨g'', desc, hg'', _, _, _, hsel⟩ :=
    select_eq_gen (α := α) (ds.run ops) hwf' samples ss hs' f gi i (by rw [hfm']; exact hfm)
      (fun g₂ hg₂ => by
        rw [hg'] at hg₂
        cases hg₂
        intro k hk2 m2 hm2
        exact hnd k (by rw [← hk]; exact hk2) m2 (by rw [← hmap]; exact hm2))
  rw [hg'] at hg''
  cases hg''
  rw [← hk, hsel, select_by_flag (α := α) (ds.run ops).st g' i m (by rw [hmap]; exact hm) ss, hst]
  congr 2
  rw [← hflag f]
  simp [Dataset.flag, hfm', hfm, hg']

/-- **undoing restores the original views**: after `undrop` (resp. `unshuffle`, which as coded also clears every flag) at the
    end of any history, every flag is cleared: `select` returns the plain view of the stored values again; in particular
    `undrop` + `unshuffle` restore the original. -/
theorem history_restore (n : Nat) (F : Nat → Flag) (ops : List HOp) (f : Nat) :
    absRun n F (ops ++ [.undrop]) f = .none ∧ absRun n F (ops ++ [.unshuffle]) f = .none ∧
    absRun n F (ops ++ [.undrop, .unshuffle]) f = .none := by
  simp [absRun, List.foldl_append, absStep]

/-- **shuffling permutes by the reported bijection**: the view of a shuffled feature at position `k` is the plain value of
    sample `p[ss[k]]`; when the reported `p` is a permutation of all the samples, reading all the samples in order reads the
    sample list `p`, i.e. every stored value exactly once (a rearrangement of the unshuffled view, nothing lost or
    duplicated). -/
theorem shuffle_is_reported_bijection (st : Storage) (k : GKind) (m : FMap) (p ss : List Nat) (N : Nat)
    (hN : 0 < N) (hp : p.Perm (List.range N)) :
    specSelect (α := α) st k m (.shuffled p) ss = plainView st k m (ss.map (fun s => p.getD s 0)) ∧
    specSelect (α := α) st k m (.shuffled p) (List.range N) = plainView st k m p ∧
    ((List.range N).map (fun s => p.getD s 0)).Perm (List.range N) := by
  obtain ⟨hl, hmap⟩ := getD_of_perm_range p N hp
  have hne : p.isEmpty = false := by
    cases p with
    | nil => simp at hl; omega
    | cons _ _ => rfl
  have hit : ∀ l : List Nat, l.map (iterSample p) = l.map (fun s => p.getD s 0) := by
    intro l
    apply List.map_congr_left
    intro s _
    simp [iterSample, hne]
  refine ⟨?_, ?_, ?_⟩
  · simp only [specSelect, hit]
  · simp only [specSelect, hit, hmap]
  · rw [hmap]; exact hp

end

/-- the permutation reported by `shuffled()` right after `shuffle()` is the one the views are read through -/
theorem shuffled_reports (ds : Dataset) (hwf : ds.WF) (f : Nat) (hf : f < ds.features) (p : List Nat)
    (hp : p.length = ds.st.samples) (hN : 0 < ds.st.samples) (samples : List Int) (ss : List Nat)
    (hs : ds.checkSamples samples = some ss) :
    (ds.step (.shuffle f p)).shuffled (Int.ofNat f) samples = some (ss.map (fun s => p.getD s 0)) ∧
    (ds.step (.shuffle f p)).flag f = .shuffled p := by
  have hok := flagsOk_of_wf ds hwf
  obtain ⟨hst, _, hfm', _⟩ := step_keeps ds hwf (.shuffle f p)
  have hflag := step_flag ds hok (.shuffle f p) f
  simp only [absStep, hf, if_true] at hflag
  refine ⟨?_, hflag⟩
  obtain ⟨h1, _⟩ := onFeature_spec ds hok f (fun g i => g.shuffle i p) (fun _ _ => rfl)
  obtain ⟨gi, i, g, hfm, hg, hi, hon⟩ := h1 hf
  have hstep : ds.step (.shuffle f p) = { ds with gens := ds.gens.modify gi (fun g => g.shuffle i p) } := by
    simp only [Dataset.step, Dataset.shuffle, hon, Option.getD_some]
  have hss : ∀ s ∈ ss, s < p.length := by
    intro s hs'
    unfold Dataset.checkSamples at hs
    split at hs
    · rename_i hall
      cases hs
      simp only [List.mem_map] at hs'
      obtain ⟨x, hx, rfl⟩ := hs'
      have := (List.all_eq_true.1 hall) x hx
      simp only [decide_eq_true_eq, Int.ofNat_eq_natCast] at this
      rw [hp]; omega
    · cases hs
  have hfeat' : (ds.step (.shuffle f p)).features = ds.features := by simp [Dataset.features, hfm']
  unfold Dataset.shuffled
  have hcs : (ds.step (.shuffle f p)).checkSamples samples = some ss := by
    simpa [Dataset.checkSamples, hst] using hs
  rw [hcs, checkFeature_ofNat, hfeat', if_pos hf]
  simp only [Option.bind_eq_bind, Option.bind_some, hfm', hfm]
  rw [hstep]
  simp only [List.getElem?_modify, if_true, hg, Option.map_eq_map, Option.map_some, Option.bind_some]
  have hall : (g.shuffle i p).shuffledAll i = p := by
    rw [shuffledAll_flag, flagOf_shuffle _ _ _ _ hi]
    simp
  rw [hall]
  have hne : p.isEmpty = false := by
    cases p with
    | nil => simp at hp; omega
    | cons _ _ => rfl
  simp only [hne, Bool.false_eq_true, if_false]
  clear hcs hs
  induction ss with
  | nil => rfl
  | cons s ss ih =>
    have hs0 := hss s List.mem_cons_self
    have := ih (fun x hx => hss x (List.mem_cons_of_mem _ hx))
    simp only [List.mapM_cons, List.getElem?_eq_getElem hs0, Option.bind_eq_bind, Option.bind_some, this,
      List.map_cons, Option.pure_def, List.getD_eq_getElem?_getD, Option.getD_some]


/-! ### the gradient generator (elemwise_gradient.h/.cpp, gradient.h) -/

/-- **which features the gradient generator makes** (`do_fit`): from the structured input features it was given (all of them
    for the default constructor), each one with at least 3 rows and 3 columns yields — in this order — for every input channel
    and every mode 0..3 (gx, gy, magnitude, angle) one feature with the mapping row
    `(original, classes, 1, rows − 2, cols − 2, channel, mode)`; a feature below 3x3 yields nothing. -/
theorem gradient_dims_spec (st : Storage) (k : Kernel3) (l1 l2 : List Nat) (g : Gen)
    (h : fit st (.gradient k) l1 l2 = some g) :
    ∃ sel, selectFeatures st (kindAccepts (.gradient k)) l1 = some sel ∧ g.kind = .gradient k ∧
      g.mapping = gradientMapping sel ∧
      (∀ s ∈ sel, ∃ f, st.inputFeature s.orig = some f ∧ f.isStruct = true ∧
        s.classes = f.classes ∧ s.d0 = f.d0 ∧ s.d1 = f.d1 ∧ s.d2 = f.d2) ∧
      (∀ m, m ∈ g.mapping ↔ ∃ s ∈ sel, 3 ≤ s.d1 ∧ 3 ≤ s.d2 ∧ ∃ ch, ch < s.d0 ∧ ∃ ty, ty < 4 ∧
        m = { s with d0 := 1, d1 := s.d1 - 2, d2 := s.d2 - 2, chan := ch, mode := ty }) := by
  unfold fit at h
  simp only [Option.bind_eq_bind, Option.pure_def] at h
  cases h1 : selectFeatures st (kindAccepts (.gradient k)) l1 with
  | none => rw [h1] at h; simp at h
  | some sel =>
    rw [h1] at h
    simp only [Option.bind_some, Option.some.injEq] at h
    subst h
    refine ⟨sel, rfl, rfl, rfl, ?_, fun m => gradientMapping_mem sel m⟩
    intro s hs
    obtain ⟨f, hf, hacc, hd⟩ := selectFeatures_mem st _ l1 sel h1 s hs
    exact ⟨f, hf, by simpa [kindAccepts] using hacc, hd⟩

/-- **feature count**: `4 * channels` generated features per selected image of at least 3x3, none for the others -/
theorem gradient_features_count (sel : List FMap) :
    (gradientMapping sel).length = (sel.map (fun s => if 3 ≤ s.d1 ∧ 3 ≤ s.d2 then 4 * s.d0 else 0)).sum := by
  induction sel with
  | nil => rfl
  | cons s sel ih =>
    have hs : gradientMapping (s :: sel) = gradientMapping [s] ++ gradientMapping sel := by
      simp [gradientMapping]
    rw [hs, List.length_append, ih, List.map_cons, List.sum_cons]
    congr 1
    unfold gradientMapping
    simp only [List.flatMap_cons, List.flatMap_nil, List.append_nil]
    split
    · rw [loop2_length, Nat.mul_comm]
    · rfl

/-- **descriptor and column bookkeeping of a gradient feature**: named `<kernel>::<gx|gy|gg|theta>(<source>[channel::<c>])`,
    a `float64` feature of dims `(1, rows − 2, cols − 2)` without labels; the columns `update()` reserves for it are the
    `(rows − 2) * (cols − 2)` columns its `flatten` writes; it is described as a *scalar* feature exactly when the source image
    is 3x3 (then `dataset_t::select` routes it to the scalar overload, which the generator does not implement: the open
    finding), as a structured one otherwise. -/
theorem gradient_descriptor_spec (st : Storage) (g : Gen) (hg : g.WF st) (k : Kernel3) (hk : g.kind = .gradient k)
    (i : Nat) (m : FMap) (hm : g.mapping[i]? = some m) :
    ∃ f desc, st.inputFeature m.orig = some f ∧ f.isStruct = true ∧ 3 ≤ f.d1 ∧ 3 ≤ f.d2 ∧ m.chan < f.d0 ∧ m.mode < 4 ∧
      g.feature st i = some desc ∧
      desc = ⟨k.name ++ gradModeName m.mode ++ "(" ++ f.name ++ "[channel::" ++ toString m.chan ++ "])", .float64,
        1, f.d1 - 2, f.d2 - 2, 0⟩ ∧
      g.colsize i = (f.d1 - 2) * (f.d2 - 2) ∧ featureColumns desc = g.colsize i ∧
      (desc.isScalar = true ↔ (f.d1 = 3 ∧ f.d2 = 3)) ∧ (desc.isStruct = true ↔ ¬ (f.d1 = 3 ∧ f.d2 = 3)) := by
  obtain ⟨f, hf, hacc, hdesc, _⟩ := hg.rows i m hm
  rw [hk] at hacc hdesc
  have hdeg := gradient_degenerate_iff k m f hdesc
  obtain ⟨_, h0, h1, h2, hch, hmode, h3, h4⟩ := hdesc
  have e1 : m.d1 = f.d1 - 2 := by omega
  have e2 : m.d2 = f.d2 - 2 := by omega
  refine ⟨f, _, hf, by simpa [kindAccepts] using hacc, by omega, by omega, hch, hmode, ?_, rfl, ?_, ?_, ?_, ?_⟩
  · simp [Gen.feature, hm, hk, hf, h0, e1, e2]
  · rw [← e1, ← e2]
    simp [Gen.colsize, hm, hk]
  · rw [← e1, ← e2]
    simp [Gen.colsize, hm, hk, featureColumns, Feature.dimSize]
  · rw [← e1, ← e2]
    simp only [Feature.isScalar, Feature.isClass, Feature.dimSize, Bool.and_eq_true, Bool.not_eq_true',
      Bool.or_eq_false_iff, decide_eq_false_iff_not, beq_iff_eq, Nat.one_mul]
    constructor
    · rintro ⟨_, h⟩
      exact Classical.not_not.1 (fun hn => by have := hdeg.2 hn; omega)
    · intro h
      refine ⟨⟨by simp, by simp⟩, ?_⟩
      have : ¬ (1 < m.d1 * m.d2) := fun hlt => hdeg.1 hlt h
      have : 1 ≤ m.d1 * m.d2 := Nat.mul_le_mul h3 h4
      omega
  · rw [← e1, ← e2]
    simp only [Feature.isStruct, Feature.isClass, Feature.dimSize, Bool.and_eq_true, Bool.not_eq_true',
      Bool.or_eq_false_iff, decide_eq_false_iff_not, decide_eq_true_eq, Nat.one_mul]
    constructor
    · rintro ⟨_, h⟩
      exact hdeg.1 h
    · intro h
      exact ⟨⟨by simp, by simp⟩, hdeg.2 h⟩

section
variable {α : Type} [Scalar α]

/-- **every output pixel is the kernel sum over its 3x3 neighbourhood**: for a mapping row of a fitted gradient generator
    (source feature `f`, channel `m.chan`, mode `m.mode`) and a stored sample `v` of `d0 * d1 * d2` values, `process` writes
    `(rows − 2) * (cols − 2)` values; the one at the row-major position `index [rows − 2, cols − 2] [r, c]` is
    `gradMode mode gx gy` with `gx = k0·(P(r,c+2) − P(r,c)) + k1·(P(r+1,c+2) − P(r+1,c)) + k2·(P(r+2,c+2) − P(r+2,c))` and
    `gy = k0·(P(r+2,c) − P(r,c)) + k1·(P(r+2,c+1) − P(r,c+1)) + k2·(P(r+2,c+2) − P(r,c+2))` (`gxAt`, `gyAt`), where
    `P(i,j)` is the value at offset `index [d0, d1, d2] [channel, i, j]` of the sample (C16 addressing); all nine offsets of
    the neighbourhood are inside the sample's buffer. For every image size, channel, kernel and mode. -/
theorem gradient_pixel_spec (k : Kernel3) (f : Feature) (m : FMap) (v : List Int)
    (hdesc : rowDescribes (.gradient k) m f) (hlen : v.length = f.d0 * f.d1 * f.d2)
    (r c : Nat) (hr : r < m.d1) (hc : c < m.d2) :
    (encGradient (α := α) k f m (some v)).length = m.d1 * m.d2 ∧
    (encGradient (α := α) k f m (some v))[index [m.d1, m.d2] [r, c]]? = some (gradientAt k f m v r c) ∧
    gradientAt (α := α) k f m v r c =
      gradMode m.mode (gxAt (makeKernel k) (srcPixel f v m.chan) r c) (gyAt (makeKernel k) (srcPixel f v m.chan) r c) ∧
    (∀ i j, i ≤ 2 → j ≤ 2 → index [f.d0, f.d1, f.d2] [m.chan, r + i, c + j] < v.length) := by
  have hd := hdesc
  obtain ⟨_, _, h1, h2, hch, _⟩ := hd
  refine ⟨encGradient_length k f m _ hdesc, ?_, rfl, ?_⟩
  · rw [encGradient_some k f m v hdesc]
    have hidx : index [m.d1, m.d2] [r, c] = r * m.d2 + c := by simp [index, size]
    rw [hidx]
    exact loop2_getElem? m.d1 m.d2 _ r c hr hc
  · intro i j hi hj
    rw [hlen]
    exact index3_lt f.d0 f.d1 f.d2 m.chan (r + i) (c + j) hch (by omega) (by omega)

/-- **kernels as coded** (`make_kernel3x3`): the three coefficients are `a/d, b/d, c/d` with integer numerators that are
    symmetric (`a = c`) and sum to the denominator (the smoothing weights are normalised); the vertical gradient is the
    horizontal gradient of the transposed image at the transposed position (the `gy` mask is the transpose of the `gx`
    mask), for any kernel coefficients and any image. -/
theorem gradient_kernel_spec (k : Kernel3) (kk : α × α × α) (P : Nat → Nat → α) (r c : Nat) :
    (makeKernel (α := α) k =
      (Scalar.div (Scalar.ofInt k.nums.1) (Scalar.ofInt k.den), Scalar.div (Scalar.ofInt k.nums.2.1) (Scalar.ofInt k.den),
       Scalar.div (Scalar.ofInt k.nums.2.2) (Scalar.ofInt k.den))) ∧
    k.nums.1 = k.nums.2.2 ∧ k.nums.1 + k.nums.2.1 + k.nums.2.2 = k.den ∧ 0 < k.den ∧
    gyAt kk P r c = gxAt kk (fun i j => P j i) c r := by
  refine ⟨rfl, ?_, ?_, ?_, rfl⟩ <;> cases k <;> decide

/-- **views of a gradient feature** for ANY flag state of the generator: `select` (structured overload) returns, per position
    of the sample list, the gradient map of the stored image (`gradientValue`: `gradientOf` of a given sample — see
    `gradient_pixel_spec` —, NaN everywhere for a missing one), all NaN when the feature is dropped, read through the
    permutation when it is shuffled; the block `flatten` writes is the same rows, row-major, `(rows − 2) * (cols − 2)` columns. -/
theorem gradient_select_spec (st : Storage) (g : Gen) (hg : g.WF st) (k : Kernel3) (hk : g.kind = .gradient k)
    (i : Nat) (m : FMap) (hm : g.mapping[i]? = some m) (ss : List Nat) :
    ∃ src, st.inputFeature m.orig = some src ∧ rowDescribes (.gradient k) m src ∧
      g.select (α := α) st i ss = some (.struct 1 m.d1 m.d2 (gradientSpecRows st k src m (g.flagOf i) ss)) ∧
      g.segments (α := α) st i ss = gradientSpecRows st k src m (g.flagOf i) ss ∧
      (∀ row ∈ gradientSpecRows (α := α) st k src m (g.flagOf i) ss, row.length = g.colsize i) := by
  obtain ⟨src, hf, _, hdesc, _⟩ := hg.rows i m hm
  rw [hk] at hdesc
  refine ⟨src, hf, hdesc, ?_, segments_gradient st g k hk i m hm src hf hdesc ss, ?_⟩
  · rw [select_by_flag st g i m hm ss, hk, specSelect_gradient st k src m _ ss hf hdesc]
  · intro row hrow
    rw [gradientSpecRows_width st k src m _ ss row hrow]
    simp [Gen.colsize, List.getD_eq_getElem?_getD, hm, hk]

/-- **missing images**: a sample whose source image is missing yields NaN in every pixel of the per-feature view and in every
    column of the flattened view (as coded: `dataset_t::flatten` writes NaN; only the flatten *iterator* turns NaN into 0
    afterwards, dataset/stats.cpp), whatever the kernel, channel and mode; a given sample yields `gradientOf`. -/
theorem gradient_missing_spec (k : Kernel3) (src : Feature) (m : FMap) (v : List Int) :
    encGradient (α := α) k src m none = List.replicate (m.d1 * m.d2) Scalar.nan ∧
    gradientValue (α := α) k src m none = List.replicate (m.d1 * m.d2) Scalar.nan ∧
    gradientValue (α := α) k src m (some v) = gradientOf k src m v :=
  ⟨rfl, rfl, rfl⟩

/-- **histories through the gradient generator**: after ANY sequence of `drop / undrop / shuffle / unshuffle` calls on the
    dataset, the structured view of a (non-degenerate) gradient feature is the gradient of the stored images transformed by
    the feature's current flag (`absRun`): dropped ⇒ all NaN, shuffled ⇒ the images of the samples `p[s]`, otherwise the
    images of the samples themselves; flags of other features do not matter. -/
theorem gradient_history_view (ds : Dataset) (hwf : ds.WF) (ops : List HOp) (samples : List Int) (ss : List Nat)
    (hs : ds.checkSamples samples = some ss) (f gi i : Nat) (g : Gen) (k : Kernel3) (m : FMap)
    (hfm : ds.featMap[f]? = some (gi, i)) (hg : ds.gens[gi]? = some g) (hk : g.kind = .gradient k)
    (hm : g.mapping[i]? = some m) (hnd : g.NonDegenerate) :
    ∃ src, ds.st.inputFeature m.orig = some src ∧ rowDescribes (.gradient k) m src ∧
      (ds.run ops).select (α := α) samples (f : Int) .struct =
        some (.struct 1 m.d1 m.d2 (gradientSpecRows ds.st k src m (absRun ds.features ds.flag ops f) ss)) := by
  obtain ⟨src, hf, _, hdesc, _⟩ := (hwf.gens g (List.mem_of_getElem? hg)).rows i m hm
  rw [hk] at hdesc
  refine ⟨src, hf, hdesc, ?_⟩
  have h := history_view (α := α) ds hwf ops samples ss hs f gi i g m hfm hg hm hnd
  rw [hk] at h
  rw [← specSelect_gradient ds.st k src m _ ss hf hdesc]
  exact h

end

/-- **the open finding, characterised**: `dataset_t::select` hands a buffer to an overload the owning generator does not
    implement (descriptor check passed, `do_select` empty) exactly for the scalar overload on a gradient feature whose output
    map is 1x1 — i.e. whose source image is 3x3 (`gradient_descriptor_spec`); for every other feature of a well-formed
    dataset and every overload the call is either rejected or served. The flag says whether the feature is dropped (then the
    buffer was filled with NaN before the dispatch; otherwise it comes back unwritten). -/
theorem selectUnwritten_iff (ds : Dataset) (hwf : ds.WF) (f : Nat) (o : Overload) (d : Bool) :
    ds.selectForeign f o = some d ↔
      ∃ gi i g k m, ds.featMap[f]? = some (gi, i) ∧ ds.gens[gi]? = some g ∧ g.kind = .gradient k ∧
        g.mapping[i]? = some m ∧ m.d1 = 1 ∧ m.d2 = 1 ∧ o = .scalar ∧ d = g.shouldDrop i := by
  unfold Dataset.selectForeign
  cases hfm : ds.featMap[f]? with
  | none => simp
  | some p =>
    obtain ⟨gi, i⟩ := p
    obtain ⟨_, g, hg, hi⟩ := featMapFrom_getElem? 0 ds.gens f gi i hfm
    simp only [Nat.sub_zero] at hg
    have hgwf := hwf.gens g (List.mem_of_getElem? hg)
    obtain ⟨desc, hd, _⟩ := featureColumns_eq_colsize ds.st g hgwf i hi
    have hfeat : ds.feature f = some desc := by simp [Dataset.feature, hfm, hg, hd]
    have hi' : i < g.mapping.length := hi
    have hm : g.mapping[i]? = some g.mapping[i] := List.getElem?_eq_getElem hi'
    simp only [hg, hfeat]
    constructor
    · intro h
      split at h
      · rename_i hcond
        simp only [Bool.and_eq_true, bne_iff_ne, ne_eq] at hcond
        obtain ⟨hmatch, hne⟩ := hcond
        cases h
        by_cases hnd : g.NonDegenerate
        · have := kindOverload_matches ds.st g hgwf hnd i desc hd
          have := matches_unique _ _ desc hmatch this
          rw [generated_eq_code, this] at hne
          exact absurd rfl hne
        · -- a degenerate gradient row exists; the descriptor of THIS row decides
          cases hk : g.kind with
          | gradient k =>
            obtain ⟨src, desc', hsrc, _, _, _, _, _, hd', hdesc', _, _, hsc, hst⟩ :=
              gradient_descriptor_spec ds.st g hgwf k hk i _ hm
            rw [hd] at hd'
            cases hd'
            obtain ⟨src2, hsrc2, _, hrow, _⟩ := hgwf.rows i _ hm
            rw [hk] at hrow
            rw [hsrc] at hsrc2
            cases hsrc2
            by_cases h33 : src.d1 = 3 ∧ src.d2 = 3
            · have hsc' := hsc.2 h33
              have ho : o = .scalar := matches_unique _ _ desc hmatch (by simpa [Overload.matches] using hsc')
              obtain ⟨_, _, r1, r2, _⟩ := hrow
              exact ⟨gi, i, g, k, _, rfl, hg, hk, hm, by omega, by omega, ho, rfl⟩
            · have hst' := hst.2 h33
              have ho : o = .struct := matches_unique _ _ desc hmatch (by simpa [Overload.matches] using hst')
              rw [hk, ho] at hne
              exact absurd rfl hne
          | sclassId | mclassId | scalarId | structId | product | custom _ =>
            all_goals exact absurd (fun k' hk' => by rw [hk] at hk'; cases hk') hnd
      · cases h
    · rintro ⟨gi', i', g', k, m, hfm', hg', hk, hm', e1, e2, ho, hdd⟩
      cases hfm'
      rw [hg] at hg'
      cases hg'
      rw [hm] at hm'
      cases hm'
      obtain ⟨src, desc', hsrc, _, _, _, _, _, hd', _, _, _, hsc, _⟩ :=
        gradient_descriptor_spec ds.st g hgwf k hk i _ hm
      rw [hd] at hd'
      cases hd'
      obtain ⟨src2, hsrc2, _, hrow, _⟩ := hgwf.rows i _ hm
      rw [hk] at hrow
      rw [hsrc] at hsrc2
      cases hsrc2
      obtain ⟨_, _, r1, r2, _⟩ := hrow
      have hsc' := hsc.2 ⟨by omega, by omega⟩
      subst ho
      have : (Overload.scalar.matches desc && g.kind.generated != Overload.scalar.code) = true := by
        simp [Overload.matches, hsc', hk, GKind.generated, Overload.code]
      rw [if_pos this, hdd]

/-- **when the open finding cannot occur**: a fitted gradient generator has no degenerate (1x1) feature iff none of the
    images it derives features from is exactly 3x3 -/
theorem gradient_nondegenerate_iff (st : Storage) (g : Gen) (hg : g.WF st) (k : Kernel3) (hk : g.kind = .gradient k) :
    g.NonDegenerate ↔
      ∀ (i : Nat) (m : FMap) (src : Feature), g.mapping[i]? = some m → st.inputFeature m.orig = some src →
        ¬ (src.d1 = 3 ∧ src.d2 = 3) := by
  constructor
  · intro h i m src hm hsrc
    obtain ⟨f, hf, _, hdesc, _⟩ := hg.rows i m hm
    rw [hk] at hdesc
    rw [hsrc] at hf
    cases hf
    exact (gradient_degenerate_iff k m src hdesc).1 (h k hk m (List.mem_of_getElem? hm))
  · intro h k' hk' m hmem
    obtain ⟨i, hi, rfl⟩ := List.getElem_of_mem hmem
    have hm : g.mapping[i]? = some g.mapping[i] := List.getElem?_eq_getElem hi
    obtain ⟨f, hf, _, hdesc, _⟩ := hg.rows i _ hm
    rw [hk] at hdesc
    exact (gradient_degenerate_iff k _ f hdesc).2 (h i _ f hm hf)

/-! ### non-vacuity of the gradient theorems: a concrete image dataset, evaluated with exact fractions -/

/-- exact fractions `n / d` (not normalised; `d = 0` plays NaN): enough to evaluate the kernels exactly -/
structure Frac where
  n : Int
  d : Int
deriving DecidableEq, Repr

instance fracScalar : Scalar Frac :=
  ⟨fun n => ⟨n, 1⟩, ⟨0, 0⟩, fun a b => ⟨a.n * b.n, a.d * b.d⟩, fun a b => ⟨a.n * b.d - b.n * a.d, a.d * b.d⟩,
   fun a b => ⟨a.n * b.d + b.n * a.d, a.d * b.d⟩, fun a b => ⟨a.n * b.d, a.d * b.n⟩, fun _ => ⟨0, 0⟩, fun _ _ => ⟨0, 0⟩⟩

def Frac.same (a b : Frac) : Bool :=
  (a.d == 0 && b.d == 0) || (a.d != 0 && b.d != 0 && a.n * b.d == b.n * a.d)

def Frac.sameRows (x y : List (List Frac)) : Bool :=
  x.length == y.length && (List.zipWith (fun r e => r.length == e.length && (List.zipWith Frac.same r e).all id) x y).all id

/-- a 1-channel 3x4 image, a 2x5 one (below 3x3), a 2-channel 3x3 one -/
def exGFeats : List Feature :=
  [⟨"img", .int16, 1, 3, 4, 0⟩, ⟨"tiny", .int8, 1, 2, 5, 0⟩, ⟨"img33", .uint8, 2, 3, 3, 0⟩]

def exGImage : List Int := [1, 2, 4, 7, 0, 3, 5, 9, 2, 2, 6, 8]

/-- 2 samples; sample 1 has no `img` -/
def exGWrites : List (Nat × Nat × List Int) :=
  [(0, 0, exGImage), (0, 1, [1, 2, 3, 4, 5, 6, 7, 8, 9, 10]), (0, 2, [1, 2, 3, 4, 5, 6, 7, 8, 9, 9, 8, 7, 6, 5, 4, 3, 2, 1]),
   (1, 2, [0, 0, 0, 0, 5, 0, 0, 0, 0, 1, 1, 1, 1, 1, 1, 1, 1, 1])]

def exGStorage : Option Storage :=
  exGWrites.foldlM (fun st w => st.set w.1 w.2.1 w.2.2) (resize 2 exGFeats 9)

/-- sobel gradients of `img` and `tiny` (the latter yields nothing), then the structured features as they are -/
def exGGens : List (GKind × List Nat × List Nat) := [(.gradient .sobel, [0, 1], []), (.structId, [], [])]

def exGDataset : Option Dataset :=
  exGStorage.bind (fun st => exGGens.foldlM (fun (ds : Dataset) k => ds.add k.1 k.2.1 k.2.2) ⟨st, []⟩)

/-- the same with the prewitt gradients of the 3x3 image: the degenerate case -/
def exGDataset33 : Option Dataset :=
  exGStorage.bind (fun st => [(GKind.gradient .prewitt, [2], ([] : List Nat))].foldlM
    (fun (ds : Dataset) k => ds.add k.1 k.2.1 k.2.2) ⟨st, []⟩)

-- the hypotheses of `gradient_history_view` / `gradient_select_spec` / `flatten_eq_encode_select` hold for `exGDataset`:
-- well-formed, no degenerate feature, feature 1 is row 1 of the gradient generator
example : ∃ ds g m, exGDataset = some ds ∧ ds.WF ∧ ds.NonDegenerate ∧ ClassValuesOk ds.st ∧ ds.featMap[1]? = some (0, 1) ∧
    ds.gens[0]? = some g ∧ g.kind = .gradient .sobel ∧ g.WF ds.st ∧ g.mapping[1]? = some m := by
  obtain ⟨st, hst⟩ : ∃ st, exGStorage = some st := Option.isSome_iff_exists.1 (by decide)
  obtain ⟨ds, hds⟩ : ∃ ds, exGDataset = some ds := Option.isSome_iff_exists.1 (by decide)
  have h0 := resize_wf 2 exGFeats 9 (by decide)
  obtain ⟨hwf, hcls, _⟩ := sets_wf exGWrites _ st h0 (classValuesOk_resize 2 exGFeats 9) hst (by decide)
  have hadd : exGGens.foldlM (fun (ds : Dataset) k => ds.add k.1 k.2.1 k.2.2) ⟨st, []⟩ = some ds := by
    simpa [exGDataset, hst] using hds
  obtain ⟨h1, h2, _⟩ := adds_wf exGGens ⟨st, []⟩ ds ⟨hwf, by simp⟩ (by simp) hadd
  have hnd : (exGDataset.map (fun ds => ds.gens.all Gen.nonDegenerateB)) = some true := by decide
  have hfm : (exGDataset.map (fun ds => ds.featMap[1]?)) = some (some (0, 1)) := by decide
  have hk : (exGDataset.map (fun ds => (ds.gens[0]?).map (fun g => (g.kind, g.mapping[1]?.isSome)))) =
      some (some (.gradient .sobel, true)) := by decide
  rw [hds] at hnd hfm hk
  simp only [Option.map_some, Option.some.injEq] at hnd hfm hk
  cases hg : ds.gens[0]? with
  | none => rw [hg] at hk; simp at hk
  | some g =>
    rw [hg] at hk
    simp only [Option.map_some, Option.some.injEq, Prod.mk.injEq] at hk
    obtain ⟨m, hm⟩ := Option.isSome_iff_exists.1 hk.2
    refine ⟨ds, g, m, hds, h1, ?_, by rw [h2]; exact hcls, hfm, hg, hk.1, h1.gens g (List.mem_of_getElem? hg), hm⟩
    intro g' hg'
    exact (nonDegenerateB_iff g').1 (List.all_eq_true.1 hnd g' hg')

-- `gradient_dims_spec` / `gradient_features_count`: the 3x4 image yields 4 features of dims (1, 1, 2), the 2x5 image none;
-- then the three structured features: 7 features, 4 * 2 + 12 + 10 + 18 = 48 columns
example : (exGDataset.map (fun ds => (ds.features, ds.columns, ds.gens.map (·.mapping.length)))) = some (7, 48, [4, 3]) := by
  decide
example : (exGDataset.map (fun ds => ds.featureList.take 4)) =
    some [⟨"sobel::gx(img[channel::0])", .float64, 1, 1, 2, 0⟩, ⟨"sobel::gy(img[channel::0])", .float64, 1, 1, 2, 0⟩,
          ⟨"sobel::gg(img[channel::0])", .float64, 1, 1, 2, 0⟩, ⟨"sobel::theta(img[channel::0])", .float64, 1, 1, 2, 0⟩] := by
  decide
-- `gradient_pixel_spec`: its hypotheses hold for row `gx` of the image above, and the two output pixels are 17/4 and 23/4
-- (gx), 3/4 and 5/4 (gy)
example : rowDescribes (.gradient .sobel) ⟨0, 0, 1, 1, 2, 0, 0, 0⟩ ⟨"img", .int16, 1, 3, 4, 0⟩ ∧
    exGImage.length = 1 * 3 * 4 := by
  simp [rowDescribes, exGImage]
example : (encGradient (α := Frac) .sobel ⟨"img", .int16, 1, 3, 4, 0⟩ ⟨0, 0, 1, 1, 2, 0, 0, 0⟩ (some exGImage)).length = 2 ∧
    Frac.same (gradientAt .sobel ⟨"img", .int16, 1, 3, 4, 0⟩ ⟨0, 0, 1, 1, 2, 0, 0, 0⟩ exGImage 0 0) ⟨17, 4⟩ = true ∧
    Frac.same (gradientAt .sobel ⟨"img", .int16, 1, 3, 4, 0⟩ ⟨0, 0, 1, 1, 2, 0, 0, 0⟩ exGImage 0 1) ⟨23, 4⟩ = true ∧
    Frac.same (gradientAt .sobel ⟨"img", .int16, 1, 3, 4, 0⟩ ⟨0, 0, 1, 1, 2, 0, 0, 1⟩ exGImage 0 0) ⟨3, 4⟩ = true ∧
    Frac.same (gradientAt .sobel ⟨"img", .int16, 1, 3, 4, 0⟩ ⟨0, 0, 1, 1, 2, 0, 0, 1⟩ exGImage 0 1) ⟨5, 4⟩ = true := by
  decide
-- `gradient_kernel_spec`: the coefficients of the three kernels, exactly
example : Frac.same (makeKernel (α := Frac) .sobel).2.1 ⟨1, 2⟩ = true ∧ Frac.same (makeKernel (α := Frac) .scharr).1 ⟨3, 16⟩ = true ∧
    Frac.same (makeKernel (α := Frac) .prewitt).2.2 ⟨1, 3⟩ = true := by decide
-- `gradient_select_spec` / `gradient_missing_spec`: the flattened gradient columns of samples [0, 1, 0]: gx, gy exact, magnitude
-- and angle have no exact value (NaN of `Frac`); sample 1 has no image: NaN everywhere
example : (exGDataset.bind (fun ds => ds.flatten (α := Frac) [0, 1, 0] ⟨0, 0⟩)).map
    (fun rows => Frac.sameRows (rows.map (·.take 8))
      [[⟨17, 4⟩, ⟨23, 4⟩, ⟨3, 4⟩, ⟨5, 4⟩, ⟨0, 0⟩, ⟨0, 0⟩, ⟨0, 0⟩, ⟨0, 0⟩],
       [⟨0, 0⟩, ⟨0, 0⟩, ⟨0, 0⟩, ⟨0, 0⟩, ⟨0, 0⟩, ⟨0, 0⟩, ⟨0, 0⟩, ⟨0, 0⟩],
       [⟨17, 4⟩, ⟨23, 4⟩, ⟨3, 4⟩, ⟨5, 4⟩, ⟨0, 0⟩, ⟨0, 0⟩, ⟨0, 0⟩, ⟨0, 0⟩]]) = some true := by decide
-- `gradient_history_view`: shuffling the gy feature by [1, 0] swaps its two rows, dropping gx makes it NaN, the other
-- gradient features keep their views
example : (exGDataset.bind (fun ds => ((ds.run [.shuffle 1 [1, 0], .drop 0]).flatten (α := Frac) [0, 1] ⟨0, 0⟩))).map
    (fun rows => Frac.sameRows (rows.map (·.take 4))
      [[⟨0, 0⟩, ⟨0, 0⟩, ⟨0, 0⟩, ⟨0, 0⟩], [⟨0, 0⟩, ⟨0, 0⟩, ⟨3, 4⟩, ⟨5, 4⟩]]) = some true := by decide
-- `selectUnwritten_iff`: in the 3x3 stack every gradient feature is 1x1, described as scalar, and the scalar select is the
-- unserved overload (not dropped: unwritten); in `exGDataset` no feature has one
example : (exGDataset33.map (fun ds => (ds.features, (ds.feature 5).map (fun f => (f.name, f.isScalar)),
    ds.selectForeign 5 .scalar, ds.selectForeign 5 .struct, (ds.step (.drop 5)).selectForeign 5 .scalar))) =
    some (8, some ("prewitt::gy(img33[channel::1])", true), some false, none, some true) := by decide
example : (exGDataset.map (fun ds => (List.range ds.features).all (fun f =>
    [Overload.sclass, .mclass, .scalar, .struct].all (fun o => ds.selectForeign f o == none)))) = some true := by decide

/-! ### computers plugged into the generator templates (elemwise.h, pairwise.h, elemwise_input.h, pairwise_input.h) -/

/-- **which features a template generator makes** (`do_fit` of the 4 + 16 input selections): element-wise — the given input
    features (all for the default constructor) of the selected kind, in order; pair-wise — `make_pairwise` of the selection of
    kind 1 from the first list and of kind 2 from the second; every row's source(s) are input features of the selected
    kind(s), and the flags start cleared. -/
theorem custom_fit_spec (st : Storage) (c : Custom) (l1 l2 : List Nat) (g : Gen) (h : fit st (.custom c) l1 l2 = some g) :
    g.kind = .custom c ∧ g.WF st ∧ g.infos = List.replicate g.mapping.length 0 ∧
    (c.in2 = none → selectFeatures st c.in1.accepts l1 = some g.mapping) ∧
    (∀ k2, c.in2 = some k2 → ∃ m1 m2, selectFeatures st c.in1.accepts l1 = some m1 ∧
      selectFeatures st k2.accepts l2 = some m2 ∧ g.mapping = makePairwise m1 m2) ∧
    (∀ (i : Nat) (m : FMap), g.mapping[i]? = some m → ∃ f1, st.inputFeature m.orig = some f1 ∧ c.in1.accepts f1 = true ∧
      ∀ k2, c.in2 = some k2 → ∃ f2, st.inputFeature m.orig2 = some f2 ∧ k2.accepts f2 = true) := by
  have hwf := fit_wf st _ l1 l2 g h
  have hinf := fit_infos st _ l1 l2 g h
  have hkind : g.kind = .custom c := by
    have h' := h
    unfold fit at h'
    simp only [Option.bind_eq_bind, Option.pure_def] at h'
    cases hc2 : c.in2 with
    | none =>
      simp only [hc2] at h'
      cases h1 : selectFeatures st (kindAccepts (.custom c)) l1 with
      | none => rw [h1] at h'; simp at h'
      | some m1 => rw [h1] at h'; simp only [Option.bind_some, Option.some.injEq] at h'; subst h'; rfl
    | some k2 =>
      simp only [hc2] at h'
      cases h1 : selectFeatures st (kindAccepts (.custom c)) l1 with
      | none => simp [h1] at h'
      | some m1 =>
        cases h2 : selectFeatures st k2.accepts l2 with
        | none => simp [h1, h2] at h'
        | some m2 => simp [h1, h2] at h'; subst h'; rfl
  refine ⟨hkind, hwf, hinf, ?_, ?_, ?_⟩
  · intro hc
    unfold fit at h
    simp only [Option.bind_eq_bind, Option.pure_def, hc] at h
    cases h1 : selectFeatures st (kindAccepts (.custom c)) l1 with
    | none => rw [h1] at h; simp at h
    | some m1 =>
      rw [h1] at h
      simp only [Option.bind_some, Option.some.injEq] at h
      subst h
      exact h1
  · intro k2 hc
    unfold fit at h
    simp only [Option.bind_eq_bind, Option.pure_def, hc] at h
    cases h1 : selectFeatures st (kindAccepts (.custom c)) l1 with
    | none => simp [h1] at h
    | some m1 =>
      cases h2 : selectFeatures st k2.accepts l2 with
      | none => simp [h1, h2] at h
      | some m2 =>
        simp [h1, h2] at h
        subst h
        exact ⟨m1, m2, h1, rfl, rfl⟩
  · intro i m hm
    obtain ⟨f1, hf1, hacc, _, _⟩ := hwf.rows i m hm
    rw [hkind] at hacc
    exact ⟨f1, hf1, hacc, fun k2 hc => hwf.rows2 c k2 hkind hc i m hm⟩

section
variable {α : Type} [Scalar α]

/-- **views of a template generator's feature**, for ANY flag state: the per-feature view is the operator's result at every
    position of the sample list (`customValue`: a function of the stored value(s); missing as soon as one input is missing),
    as labels / hit rows / scalars / tensors with the markers −1 / NaN; all markers when dropped, read through the
    permutation when shuffled; and the block `flatten` writes is the documented encoding of that view (one-hot ±1 over
    `classes − 1` columns with the guard `class_index < colsize`, `2·hit − 1`, identity, row-major; NaN for missing). -/
theorem custom_select_spec (st : Storage) (hcls : ClassValuesOk st) (g : Gen) (hg : g.WF st) (c : Custom)
    (hk : g.kind = .custom c) (i : Nat) (m : FMap) (hm : g.mapping[i]? = some m) (ss : List Nat) :
    g.select (α := α) st i ss = some (customSpecView st c m (g.flagOf i) ss) ∧
    g.segments (α := α) st i ss = encodeView (customCols c.out) (customSpecView st c m (g.flagOf i) ss) ∧
    g.colsize i = customCols c.out ∧
    (∀ s, st.stored (st.inputIndex m.orig) s = none → customValue st c m s = none) ∧
    (∀ s, c.in2 ≠ none → st.stored (st.inputIndex m.orig2) s = none → customValue st c m s = none) := by
  have hsel : g.select (α := α) st i ss = some (customSpecView st c m (g.flagOf i) ss) := by
    rw [select_by_flag st g i m hm ss, hk, specSelect_custom]
  have hcol : g.colsize i = customCols c.out := by simp [Gen.colsize, hk]
  refine ⟨hsel, ?_, hcol, ?_, ?_⟩
  · obtain ⟨v, hv, hseg⟩ := segments_eq_encode (α := α) st hcls g hg i m hm ss
    rw [hsel] at hv
    cases hv
    rw [hseg, hcol]
  · intro s hs
    unfold customValue
    cases c.in2 <;> simp [hs]
  · intro s hc hs
    unfold customValue
    cases hc2 : c.in2 with
    | none => exact absurd hc2 hc
    | some k2 =>
      simp only [hs]
      cases st.stored (st.inputIndex m.orig) s <;> rfl

end

/-- **descriptors of a template generator's features**: named `<name>(<source>)` resp. `<name>(<source1>,<source2>)`; a
    single-label feature with 3 labels, a multi-label one with 2, a `float64` scalar, a `float64` tensor of dims `(3,1,1)`;
    the columns reserved are the columns written, and `dataset_t::select` accepts exactly the overload the generator
    implements. -/
theorem custom_descriptor_spec (st : Storage) (g : Gen) (hg : g.WF st) (c : Custom) (hk : g.kind = .custom c)
    (i : Nat) (m : FMap) (hm : g.mapping[i]? = some m) :
    ∃ name, g.feature st i = some (customDesc c.out name) ∧
      featureColumns (customDesc c.out name) = g.colsize i ∧
      (∀ o : Overload, o.matches (customDesc c.out name) = true ↔ o = c.out) ∧ g.kind.generated = c.out.code := by
  have hi : i < g.features := (List.getElem?_eq_some_iff.1 hm).1
  obtain ⟨desc, hd, hcols⟩ := featureColumns_eq_colsize st g hg i hi
  have hmatch : ∀ name, c.out.matches (customDesc c.out name) = true := by
    intro name
    cases c.out <;>
      simp [customDesc, Overload.matches, Feature.isSclass, Feature.isMclass, Feature.isScalar, Feature.isStruct,
        Feature.isClass, Feature.dimSize]
  have hname : ∃ name, desc = customDesc c.out name := by
    obtain ⟨f, hf, _, _, _⟩ := hg.rows i m hm
    unfold Gen.feature at hd
    simp only [hm, Option.bind_eq_bind, Option.bind_some, hk, hf] at hd
    cases hc2 : c.in2 with
    | none =>
      simp only [hc2, Option.pure_def, Option.some.injEq] at hd
      exact ⟨_, hd.symm⟩
    | some k2 =>
      obtain ⟨f2, hf2, _⟩ := hg.rows2 c k2 hk hc2 i m hm
      simp only [hc2, hf2, Option.bind_some, Option.pure_def, Option.some.injEq] at hd
      exact ⟨_, hd.symm⟩
  obtain ⟨name, rfl⟩ := hname
  refine ⟨name, hd, hcols, ?_, by rw [hk]; rfl⟩
  intro o
  constructor
  · intro h
    exact matches_unique o c.out _ h (hmatch name)
  · rintro rfl
    exact hmatch name

/-! ### range checks -/

section
variable {α : Type} [Scalar α]

/-- A sample index `< 0` or `≥ samples()` anywhere in the list makes every sample-indexed accessor throw; a feature index
    `< 0` or `≥ features()` makes every feature-indexed accessor throw (nothing is read). -/
theorem index_out_of_range_rejected (ds : Dataset) (samples : List Int) (f : Int) (o : Overload) (buf0 : List (List α))
    (perm : List Nat) :
    ((∃ s ∈ samples, s < 0 ∨ Int.ofNat ds.st.samples ≤ s) →
      (ds.select (α := α) samples f o = none ∧ ds.flattenInto samples buf0 = none ∧
       ds.targets (α := α) samples = none ∧ ds.selectTarget (α := α) samples o = none ∧
       ds.shuffled f samples = none)) ∧
    ((f < 0 ∨ Int.ofNat ds.features ≤ f) →
      (ds.select (α := α) samples f o = none ∧ (ds.checkFeature f).bind ds.feature = none ∧
       ds.drop f = none ∧ ds.shuffle f perm = none ∧ ds.shuffled f samples = none)) := by
  constructor
  · intro h
    have hc := checkSamples_none ds samples h
    simp [Dataset.select, Dataset.flattenInto, Dataset.targets, Dataset.selectTarget, Dataset.shuffled, hc]
  · intro h
    have hc := checkFeature_none ds f h
    refine ⟨?_, ?_, ?_, ?_, ?_⟩
    · simp only [Dataset.select, hc]
      cases ds.checkSamples samples <;> simp
    · simp [hc]
    · simp [Dataset.drop, Dataset.onFeature, hc]
    · simp [Dataset.shuffle, Dataset.onFeature, hc]
    · simp only [Dataset.shuffled, hc]
      cases ds.checkSamples samples <;> simp

/-- the empty index list is a list of sample indices: it yields empty views, not an exception -/
theorem empty_index_list_accepted (ds : Dataset) :
    ds.checkSamples [] = some [] ∧
    ds.flattenInto (α := α) [] [] = some [] ∧
    (∀ t desc, ds.st.target = some t → ds.target = some desc →
      ds.targets (α := α) [] = some (ds.targetDims, [])) := by
  refine ⟨rfl, ?_, ?_⟩
  · simp [Dataset.flattenInto, Dataset.checkSamples, flattenGens_nil]
  · intro t desc ht hd
    simp [Dataset.targets, Dataset.checkSamples, ht, hd]

end

/-! ### non-vacuity: a concrete dataset (exact scalars, `none` plays NaN) -/

/-- exact scalars for the examples -/
instance exampleScalar : Scalar (Option Int) :=
  ⟨some, none, fun a b => a.bind (fun x => b.map (x * ·)), fun a b => a.bind (fun x => b.map (x - ·)),
   fun a b => a.bind (fun x => b.map (x + ·)),
   fun a b => a.bind (fun x => b.bind (fun y => if y ≠ 0 ∧ x % y = 0 then some (x / y) else none)),
   fun _ => none, fun _ _ => none⟩

/-- 3 samples; a 3-class label, an int16 scalar, a 2-label multi-label feature, a 1x2x1 tensor, a second scalar -/
def exFeats : List Feature :=
  [⟨"f0", .sclass, 1, 1, 1, 3⟩, ⟨"f1", .int16, 1, 1, 1, 0⟩, ⟨"f2", .mclass, 1, 1, 1, 2⟩, ⟨"f3", .float64, 1, 2, 1, 0⟩,
   ⟨"f4", .int16, 1, 1, 1, 0⟩]

def exWrites : List (Nat × Nat × List Int) :=
  [(0, 0, [2]), (2, 0, [0]), (0, 1, [-5]), (1, 1, [7]), (1, 2, [1, 0]), (2, 3, [4, -4]), (1, 4, [3]), (2, 4, [2])]

/-- the harness's `do_load`: `resize`, then one `set` per given value -/
def exStorage : Option Storage :=
  exWrites.foldlM (fun st w => st.set w.1 w.2.1 w.2.2) (resize 3 exFeats 9)

def exGens : List (GKind × List Nat × List Nat) :=
  [(.sclassId, [], []), (.scalarId, [1], []), (.mclassId, [], []), (.structId, [], []), (.product, [1, 4], [1, 4])]

def exDataset : Option Dataset :=
  exStorage.bind (fun st => exGens.foldlM (fun (ds : Dataset) k => ds.add k.1 k.2.1 k.2.2) ⟨st, []⟩)

-- the hypotheses of the theorems hold for it (so the theorems say something about this dataset and its 2^… histories)
example : ∃ ds, exDataset = some ds ∧ ds.WF ∧ ClassValuesOk ds.st ∧ ∀ f, ds.flag f = .none := by
  have hst : ∃ st, exStorage = some st := by
    have : exStorage.isSome = true := by decide
    exact Option.isSome_iff_exists.1 this
  obtain ⟨st, hst⟩ := hst
  have hds : ∃ ds, exDataset = some ds := by
    have : exDataset.isSome = true := by decide
    exact Option.isSome_iff_exists.1 this
  obtain ⟨ds, hds⟩ := hds
  have h0 := resize_wf 3 exFeats 9 (by decide)
  obtain ⟨hwf, hcls, _⟩ := sets_wf exWrites _ st h0 (classValuesOk_resize 3 exFeats 9) hst (by decide)
  have hadd : exGens.foldlM (fun (ds : Dataset) k => ds.add k.1 k.2.1 k.2.2) ⟨st, []⟩ = some ds := by
    simpa [exDataset, hst] using hds
  obtain ⟨h1, h2, h3⟩ := adds_wf exGens ⟨st, []⟩ ds ⟨hwf, by simp⟩ (by simp) hadd
  exact ⟨ds, hds, h1, by rw [h2]; exact hcls, flag_fresh ds h3⟩

-- the two int16 scalars share the int16 pool (rows 0 and 1), the label and the hits share the uint8 pool (rows 0 and 1..2)
example : (exStorage.map (·.ranges)) = some [(0, 1), (0, 1), (1, 3), (0, 2), (1, 2)] := by decide
-- D: set values are read back, everything else is missing
example : (exStorage.map (fun st => [st.stored 0 0, st.stored 0 1, st.stored 2 1, st.stored 3 2, st.stored 4 0])) =
    some [some [2], none, some [1, 0], some [4, -4], none] := by decide
-- bookkeeping: 7 features (label, scalar f1, hits, tensor, 3 products), 2 + 1 + 2 + 2 + 3 columns
example : (exDataset.map (fun ds => (ds.features, ds.columns, ds.colMap))) =
    some (7, 10, [0, 0, 1, 2, 2, 3, 3, 4, 5, 6]) := by decide
-- the flattened view of samples [2, 0, 0] (a repetition): one-hot over 2 columns (class 2 = all −1), NaN for missing
example : (exDataset.bind (fun ds => ds.flatten (α := Option Int) [2, 0, 0] none)) =
    some [[some 1, some (-1), none, none, none, some 4, some (-4), none, none, some 4],
          [some (-1), some (-1), some (-5), none, none, none, none, some 25, none, none],
          [some (-1), some (-1), some (-5), none, none, none, none, some 25, none, none]] := by decide
-- index 3 = samples() is rejected, -1 is rejected, the empty list is an empty view
example : (exDataset.bind (fun ds => ds.flatten (α := Option Int) [3] none)) = none := by decide
example : (exDataset.bind (fun ds => ds.flatten (α := Option Int) [0, -1] none)) = none := by decide
example : (exDataset.bind (fun ds => ds.flatten (α := Option Int) [] none)) = some [] := by decide
-- drop makes exactly that feature missing; shuffle reads it through the permutation; undrop restores
example : (exDataset.bind (fun ds => ((ds.step (.drop 1)).select (α := Option Int) [0, 1, 2] 1 .scalar).map
    (fun v => match v with | .scalar x => x | _ => []))) = some [none, none, none] := by decide
example : (exDataset.bind (fun ds => ((ds.step (.shuffle 1 [2, 0, 1])).select (α := Option Int) [0, 1, 2] 1 .scalar).map
    (fun v => match v with | .scalar x => x | _ => []))) = some [none, some (-5), some 7] := by decide
example : (exDataset.bind (fun ds => ((ds.run [.drop 1, .shuffle 0 [1, 2, 0], .undrop]).select (α := Option Int)
    [0, 1, 2] 1 .scalar).map (fun v => match v with | .scalar x => x | _ => []))) =
    some [some (-5), some 7, none] := by decide

/-! non-vacuity of the template-generator theorems (`custom_*`): `exStorage` with a scalar → label computer on every scalar
    feature and a (struct, sclass) → scalar pair-wise computer -/

def exCGens : List (GKind × List Nat × List Nat) :=
  [(.custom ⟨.scalar, none, .sclass⟩, [], []), (.custom ⟨.struct, some .sclass, .scalar⟩, [], [])]

def exCDataset : Option Dataset :=
  exStorage.bind (fun st => exCGens.foldlM (fun (ds : Dataset) k => ds.add k.1 k.2.1 k.2.2) ⟨st, []⟩)

-- the hypotheses of `custom_select_spec` / `custom_descriptor_spec` / `flatten_eq_encode_select` / `history_view` hold
example : ∃ ds, exCDataset = some ds ∧ ds.WF ∧ ds.NonDegenerate ∧ ClassValuesOk ds.st ∧
    (ds.gens.map (·.kind)) = exCGens.map (·.1) := by
  obtain ⟨st, hst⟩ : ∃ st, exStorage = some st := Option.isSome_iff_exists.1 (by decide)
  obtain ⟨ds, hds⟩ : ∃ ds, exCDataset = some ds := Option.isSome_iff_exists.1 (by decide)
  have h0 := resize_wf 3 exFeats 9 (by decide)
  obtain ⟨hwf, hcls, _⟩ := sets_wf exWrites _ st h0 (classValuesOk_resize 3 exFeats 9) hst (by decide)
  have hadd : exCGens.foldlM (fun (ds : Dataset) k => ds.add k.1 k.2.1 k.2.2) ⟨st, []⟩ = some ds := by
    simpa [exCDataset, hst] using hds
  obtain ⟨h1, h2, _⟩ := adds_wf exCGens ⟨st, []⟩ ds ⟨hwf, by simp⟩ (by simp) hadd
  have hnd : (exCDataset.map (fun ds => ds.gens.all Gen.nonDegenerateB)) = some true := by decide
  have hk : (exCDataset.map (fun ds => ds.gens.map (·.kind))) = some (exCGens.map (·.1)) := by decide
  rw [hds] at hnd hk
  simp only [Option.map_some, Option.some.injEq] at hnd hk
  exact ⟨ds, hds, h1, fun g hg => (nonDegenerateB_iff g).1 (List.all_eq_true.1 hnd g hg), by rw [h2]; exact hcls, hk⟩
-- `custom_fit_spec` / `custom_descriptor_spec`: labels of the two scalars f1, f4; the pair (f3, f0); 2 + 2 + 1 columns
example : (exCDataset.map (fun ds => (ds.featureList, ds.colMap))) =
    some ([⟨"lab(f1)", .sclass, 1, 1, 1, 3⟩, ⟨"lab(f4)", .sclass, 1, 1, 1, 3⟩, ⟨"sum(f3,f0)", .float64, 1, 1, 1, 0⟩],
          [0, 0, 1, 1, 2]) := by decide
-- `custom_select_spec`: labels `value mod 3` (−5 ↦ 1, 7 ↦ 1, 3 ↦ 0, 2 ↦ 2 = the class without a column), missing ↦ NaN;
-- the pair needs both values: only sample 2 has the tensor (4, −4) (summary 4 − 8 = −4) and the label 0: −4 + 2·0
example : (exCDataset.bind (fun ds => ds.flatten (α := Option Int) [0, 1, 2] none)) =
    some [[some (-1), some 1, none, none, none],
          [some (-1), some 1, some 1, some (-1), none],
          [none, none, some (-1), some (-1), some (-4)]] := by decide
example : (exCDataset.bind (fun ds => ((ds.run [.shuffle 1 [2, 0, 1], .drop 0]).select (α := Option Int) [0, 1, 2] 1 .sclass).map
    (fun v => match v with | .sclass x => x | _ => []))) = some [2, -1, 0] := by decide

end NanoVerif.Dataset
