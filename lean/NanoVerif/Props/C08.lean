import NanoVerif.Proofs.DatasetHistory
/-!
  C08 — all dataset views agree with the stored feature values, including missing ones.

  Property theorems about `Model/Mask.lean` + `Model/Dataset.lean` (the model of mask.h, datasource.h/.cpp, iterator.h,
  generator/*.h, generator.cpp, dataset.cpp; addressing through the C16 tensor model). Core Lean only. Helper lemmas live in
  `Proofs/Dataset*.lean`. Layers:

    concrete  pools + ranges + bit masks, `visit` = slice/reshape, iterators, encoders writing into a row buffer, flag bytes
    abstract  `D = Storage.stored : feature → sample → Option value`, the documented encodings (`viewOf`, `encodeView`,
              `oneHot`, `productOf`, `targetRow`), the flag rule `absStep`

  Hypotheses: `Storage.WF` / `Dataset.WF` (established by `resize`, preserved by `set`, `add` and every history operation:
  `wf_reachable`, `run_keeps`), `ClassValuesOk` (labels and hits are non-negative: `classValuesOk_resize`,
  `classValuesOk_set`). No theorem is `_partial`. Outside the theorems (correspondence / oracle only): the gradient
  generator, the batching of the flatten / targets iterators, binary64 conversions of the stored values.
-/
namespace NanoVerif.Dataset
open NanoVerif.Tensor NanoVerif.Mask

/-! ### bit mask, ranges, storage -/

/-- MSB-first bit mask (mask.h:31-44): after `setbit m s`, bit `s'` reads as set iff `s' = s` or it was set before — setting a
    bit never disturbs another sample (in particular not its 7 neighbours in the same byte). -/
theorem getbit_setbit (m : List Nat) (s s' : Nat) (hs : s / 8 < m.length) :
    getbit (setbit m s) s' = (decide (s = s') || getbit m s') :=
  getbit_setbit' m s s' hs

/-- The `update_size_storage` loop hands out, per pool, consecutive row ranges: the ranges of the features stored in pool `p`
    tile `[sizes[p], final size of p)` in feature order (hence they are pairwise disjoint and nothing is left over), every
    feature gets exactly `comps` rows, one range per feature. -/
theorem ranges_disjoint_tile (sizes : List Nat) (feats : List Feature) (p : Nat)
    (hp : ∀ f ∈ feats, f.pool.code < sizes.length) :
    (assignRanges sizes feats).1.length = feats.length ∧
    (assignRanges sizes feats).2.length = sizes.length ∧
    Tile (sizes.getD p 0) ((assignRanges sizes feats).2.getD p 0) (poolRanges p feats (assignRanges sizes feats).1) ∧
    (∀ (i : Nat) (f : Feature) (r : Nat × Nat), feats[i]? = some f → (assignRanges sizes feats).1[i]? = some r → r.2 = r.1 + f.comps) := by
  obtain ⟨h1, h2, _, h4, _⟩ := assignRanges_spec feats sizes hp
  exact ⟨h1, h2, assignRanges_tile p feats sizes hp, fun i f r hf hr => (h4 i f r hf hr).2.1⟩

/-- **storage refines the abstract map** `D : feature → sample → Option value`: `set` (through the sliced + reshaped view of the
    typed pool, plus the mask bit) is a point update of `D` — the written value is read back, every other (feature, sample)
    keeps its value or stays missing, whatever pools and ranges the features share. -/
theorem storage_refines (st st' : Storage) (h : st.WF) (s f : Nat) (v : List Int) (hset : st.set s f v = some st')
    (f' s' : Nat) (hf' : f' < st.feats.length) (hs' : s' < st.samples) :
    st'.stored f' s' = if f' = f ∧ s' = s then some v else st.stored f' s' :=
  storage_refines' st st' h s f v hset f' s' hf' hs'

/-- never set ⇒ missing -/
theorem stored_never_set (n : Nat) (feats : List Feature) (target f s : Nat) :
    (resize n feats target).stored f s = none :=
  stored_never_set' n feats target f s

/-- datasets built by `resize`, `set`, `add` satisfy the hypotheses of the C08 theorems -/
theorem wf_reachable :
    (∀ (n : Nat) (feats : List Feature) (t : Nat), 0 < n → (resize n feats t).WF) ∧
    (∀ (st st' : Storage) (s f : Nat) (v : List Int), st.WF → st.set s f v = some st' → st'.WF) ∧
    (∀ st : Storage, st.WF → (⟨st, []⟩ : Dataset).WF) ∧
    (∀ (ds ds' : Dataset) (k : GKind) (l1 l2 : List Nat), ds.WF → ds.add k l1 l2 = some ds' → ds'.WF ∧ ds'.st = ds.st) :=
  ⟨fun n feats t hn => resize_wf n feats t hn,
   fun st st' s f v h hset => set_wf st st' h s f v hset,
   fun st h => ⟨h, by simp⟩,
   fun ds ds' k l1 l2 h hadd => ⟨(add_wf ds ds' k l1 l2 h hadd).1, (add_wf ds ds' k l1 l2 h hadd).2.1⟩⟩

/-! ### bookkeeping -/

/-- **columns add up**: `columns()` is the sum of the columns of all the features (`classes − 1` / `classes` / `size(dims)`),
    the per-generator counts `m_generator_mapping` add up to it, and (for fitted generators) each generator's count is what
    its `flatten` writes (`process().colsize`). -/
theorem columns_total (ds : Dataset) :
    ds.columns = (ds.featureList.map featureColumns).sum ∧
    ds.genColumns.sum = ds.columns ∧
    ds.genColumns.length = ds.gens.length ∧
    ((∀ g ∈ ds.gens, g.WF ds.st) →
      ds.genColumns = ds.gens.map (fun g => ((List.range g.features).map g.colsize).sum)) :=
  columns_total' ds

/-- **column → feature**: `column2feature c = f` exactly for the columns of the block reserved for feature `f`: the blocks
    follow each other in feature order, feature `f` owns `[colOffset f, colOffset f + columns f)`. -/
theorem column2feature_spec (ds : Dataset) (c f : Nat) :
    ds.column2feature c = some f ↔
      ∃ desc, ds.featureList[f]? = some desc ∧
        colOffset ds.featureList f ≤ c ∧ c < colOffset ds.featureList f + featureColumns desc := by
  unfold Dataset.column2feature Dataset.colMap
  rw [colMapFrom_getElem?]
  constructor
  · rintro ⟨j, rfl, desc, h1, h2, h3⟩
    exact ⟨desc, by simpa using h1, by simpa using h2, by simpa using h3⟩
  · rintro ⟨desc, h1, h2, h3⟩
    exact ⟨f, by omega, desc, h1, h2, h3⟩

section
variable {α : Type} [Scalar α]

/-! ### per-feature views, missing values, products, targets -/

/-- **identity features equal the stored values**: with no flag set, the per-feature view of feature `i` of an identity
    generator lists, for every position of the sample list (any order, repetitions allowed), the stored value of the original
    feature at that sample, missing values as −1 / NaN. -/
theorem identity_eq_stored (st : Storage) (g : Gen) (i : Nat) (m : FMap) (samples : List Nat)
    (hm : g.mapping[i]? = some m) (hk : g.kind ≠ .product) (hflag : g.infos.getD i 0 = 0) :
    g.select (α := α) st i samples =
      some (viewOf g.kind m (samples.map (fun s => st.stored (st.inputIndex m.orig) s))) := by
  have h1 := shuffledAll_of_flag0 g i hflag
  have h2 := shouldDrop_of_flag0 g i hflag
  unfold Gen.select
  simp only [hm, Option.bind_eq_bind, Option.bind_some, h1, h2, iterate_nil]
  cases hkind : g.kind <;> simp_all [viewOf]

/-- **missing values are marked**: −1 (labels, every hit of a multi-label row), NaN (scalars, every component of a tensor,
    every column of the dense encodings, products with a missing factor) -/
theorem missing_marked (classes size colsize : Nat) :
    encSclass none = -1 ∧
    encMclass classes none = List.replicate classes (-1) ∧
    encScalar (α := α) none = Scalar.nan ∧
    encStruct (α := α) size none = List.replicate size Scalar.nan ∧
    encProduct (α := α) none = Scalar.nan ∧
    flatSclass (α := α) colsize none = List.replicate colsize Scalar.nan ∧
    flatMclass (α := α) colsize none = List.replicate colsize Scalar.nan ∧
    (∀ desc : Feature, (targetRow (α := α) desc none) = List.replicate
        (match desc.type with | .sclass => desc.classes | .mclass => desc.classes | _ => desc.dimSize) Scalar.nan) := by
  refine ⟨rfl, rfl, rfl, rfl, rfl, rfl, rfl, ?_⟩
  intro desc
  unfold targetRow
  cases desc.type <;> rfl

/-- **product features are the product of their two sources** (NaN when either factor is missing): both the per-feature view
    and the dense column -/
theorem product_spec (st : Storage) (g : Gen) (i : Nat) (m : FMap) (samples : List Nat)
    (hm : g.mapping[i]? = some m) (hk : g.kind = .product) (hflag : g.infos.getD i 0 = 0) :
    g.select (α := α) st i samples =
      some (.scalar (samples.map (fun s =>
        productOf (st.stored (st.inputIndex m.orig) s) (st.stored (st.inputIndex m.orig2) s)))) ∧
    g.segments (α := α) st i samples =
      samples.map (fun s => [productOf (st.stored (st.inputIndex m.orig) s) (st.stored (st.inputIndex m.orig2) s)]) := by
  have h1 := shuffledAll_of_flag0 g i hflag
  have h2 := shouldDrop_of_flag0 g i hflag
  have hm' : g.mapping.getD i default = m := by simp [List.getD_eq_getElem?_getD, hm]
  constructor
  · unfold Gen.select
    simp only [hm, Option.bind_eq_bind, Option.bind_some, h1, h2, hk, iterate2, iterSample_nil, List.map_map]
    simp only [Bool.false_eq_true, if_false, Option.pure_def, Option.some.injEq, View.scalar.injEq]
    congr 1
    funext s
    simp only [Function.comp, productOf, encProduct]
    cases st.stored (st.inputIndex m.orig) s <;> cases st.stored (st.inputIndex m.orig2) s <;> rfl
  · unfold Gen.segments
    simp only [hm', h1, h2, hk, iterate2, iterSample_nil, List.map_map]
    simp only [Bool.false_eq_true, if_false]
    congr 1
    funext s
    simp only [Function.comp, productOf, encProduct]
    cases st.stored (st.inputIndex m.orig) s <;> cases st.stored (st.inputIndex m.orig2) s <;> rfl

/-- **targets**: one row per position of the sample list; a single-label target is one-hot ±1 over all `classes` columns,
    a multi-label target is `hit * 2 − 1`, a continuous target its values (row-major), a missing one NaN; the reported
    dimensions are `(classes, 1, 1)` resp. the feature's dims; an unsupervised dataset throws. -/
theorem targets_spec (ds : Dataset) (samples : List Int) (ss : List Nat) (hs : ds.checkSamples samples = some ss) :
    (ds.st.target = none → ds.targets (α := α) samples = none) ∧
    (∀ t desc, ds.st.target = some t → ds.target = some desc →
      ds.targets (α := α) samples = some (ds.targetDims, ss.map (fun s => targetRow desc (ds.st.stored t s))) ∧
      ds.targetDims = (match desc.type with
        | .sclass => (desc.classes, 1, 1) | .mclass => (desc.classes, 1, 1) | _ => (desc.d0, desc.d1, desc.d2))) ∧
    (∀ desc : Feature, ∀ l : Int, desc.type = .sclass → 0 ≤ l →
      targetRow (α := α) desc (some [l]) = oneHot desc.classes l.toNat) ∧
    (∀ desc : Feature, ∀ v : List Int, desc.type = .mclass →
      targetRow (α := α) desc (some v) =
        v.map (fun h => Scalar.sub (Scalar.mul (Scalar.ofInt h) (Scalar.ofInt 2)) (Scalar.ofInt 1))) ∧
    (∀ desc : Feature, ∀ v : List Int, desc.type ≠ .sclass → desc.type ≠ .mclass →
      targetRow (α := α) desc (some v) = v.map Scalar.ofInt) := by
  refine ⟨?_, ?_, ?_, ?_, ?_⟩
  · intro h
    simp [Dataset.targets, hs, h]
  · intro t desc ht hd
    constructor
    · simp [Dataset.targets, hs, ht, hd]
    · simp only [Dataset.targetDims, hd]
      cases desc.type <;> rfl
  · intro desc l ht _
    simp [targetRow, ht, oneHot, headI]
  · intro desc v ht
    simp [targetRow, ht]
  · intro desc v h1 h2
    unfold targetRow
    cases hty : desc.type <;> simp_all [encStruct]

/-! ### the flattened view -/

/-- **the flattened view is the documented encoding of the per-feature views**: for any sample list (any order, repetitions)
    and any (not cleared) buffer of the right shape, `flatten` returns, side by side in feature order, `encodeView` of what
    `select` returns for each feature — one-hot ±1 with `classes − 1` columns, `2·hit − 1`, identity, row-major, NaN for
    missing — whatever the drop / shuffle flags; and every `select` involved succeeds. -/
theorem flatten_eq_encode_select (ds : Dataset) (hwf : ds.WF) (hcls : ClassValuesOk ds.st) (samples : List Int)
    (ss : List Nat) (hs : ds.checkSamples samples = some ss) (buf0 : List (List α)) (hlen : buf0.length = ss.length)
    (hrows : ∀ r ∈ buf0, r.length = ds.columns) :
    ds.flattenInto samples buf0 = some (hcatRows ss.length
      ((List.range ds.features).map (fun f => encodeView (ds.featureCols f) (ds.selectAuto (α := α) samples f)))) ∧
    ∀ f, f < ds.features → ∃ o, ds.select (α := α) samples (f : Int) o = some (ds.selectAuto samples f) := by
  -- per dataset feature: the facts about its generator
  have key : ∀ f, f < ds.features → ∃ gi i g, ds.featMap[f]? = some (gi, i) ∧ ds.gens[gi]? = some g ∧
      ds.featureCols f = g.colsize i ∧
      ∃ v, ds.selectAuto (α := α) samples f = v ∧
        ds.select (α := α) samples (f : Int) (kindOverload g.kind) = some v ∧
        g.segments (α := α) ds.st i ss = encodeView (g.colsize i) v := by
    intro f hf
    have hf' : f < ds.featMap.length := hf
    have hfm : ds.featMap[f]? = some ((ds.featMap[f]'hf').1, (ds.featMap[f]'hf').2) := by
      rw [List.getElem?_eq_getElem hf']
    obtain ⟨g, desc, hg, hi, hfeat, hc, hsel⟩ := select_eq_gen (α := α) ds hwf samples ss hs f _ _ hfm
    have hgwf := hwf.gens g (List.mem_of_getElem? hg)
    have hi' : (ds.featMap[f]'hf').2 < g.mapping.length := hi
    obtain ⟨v, hv, hseg⟩ := segments_eq_encode (α := α) ds.st hcls g hgwf _ _ (List.getElem?_eq_getElem hi') ss
    refine ⟨_, _, g, hfm, hg, ?_, v, ?_, by rw [hsel, hv], hseg⟩
    · simp [Dataset.featureCols, hfeat, hc]
    · unfold Dataset.selectAuto
      rw [hfm]
      simp only [hg, Option.bind_some, hsel, hv, Option.getD_some]
  constructor
  · rw [flatten_blocks ds hwf samples ss hs buf0 hlen hrows]
    congr 2
    -- both lists enumerate the features in dataset order
    have h1 : (List.range ds.features).map (fun f => encodeView (ds.featureCols f) (ds.selectAuto (α := α) samples f)) =
        ds.featMap.map (fun p => match ds.gens[p.1]? with
          | some g => g.segments (α := α) ds.st p.2 ss
          | none => []) := by
      apply List.ext_getElem?
      intro f
      by_cases hf : f < ds.features
      · obtain ⟨gi, i, g, hfm, hg, hc, v, hauto, _, hseg⟩ := key f hf
        simp only [List.getElem?_map, List.getElem?_range hf, Option.map_some, hfm, hg]
        rw [hc, hauto, hseg]
      · have hf' : ¬ f < ds.featMap.length := hf
        simp only [List.getElem?_map]
        rw [List.getElem?_eq_none (by simpa using hf), List.getElem?_eq_none (by omega)]
        rfl
    rw [h1]
    unfold Dataset.featMap
    symm
    apply featMapFrom_map (fun g i => g.segments (α := α) ds.st i ss)
    intro j g i hg
    simp [hg]
  · intro f hf
    obtain ⟨gi, i, g, _, _, _, v, hauto, hsel, _⟩ := key f hf
    exact ⟨kindOverload g.kind, by rw [hsel, hauto]⟩

/-! ### drop / shuffle histories -/

/-- **histories**: after ANY sequence of `drop / undrop / shuffle / unshuffle` calls (invalid feature indices included), the
    view `select` returns for a feature is the spec view of the stored values transformed by the feature's current flag,
    where the flags evolve by the documented rule `absStep` — dropped ⇒ exactly that feature is missing, shuffled ⇒ exactly
    that feature is read through the reported permutation, every other feature is untouched. -/
theorem history_view (ds : Dataset) (hwf : ds.WF) (ops : List HOp) (samples : List Int) (ss : List Nat)
    (hs : ds.checkSamples samples = some ss) (f gi i : Nat) (g : Gen) (m : FMap)
    (hfm : ds.featMap[f]? = some (gi, i)) (hg : ds.gens[gi]? = some g) (hm : g.mapping[i]? = some m) :
    (ds.run ops).select (α := α) samples (f : Int) (kindOverload g.kind) =
      some (specSelect ds.st g.kind m (absRun ds.features ds.flag ops f) ss) := by
  obtain ⟨hst, hwf', hfm', hgens, hflag⟩ := run_keeps ops ds hwf
  obtain ⟨g', hg', hshape⟩ := hgens gi g hg
  have hk : g'.kind = g.kind := congrArg Prod.fst hshape
  have hmap : g'.mapping = g.mapping := congrArg Prod.snd hshape
  have hs' : (ds.run ops).checkSamples samples = some ss := by
    simpa [Dataset.checkSamples, hst] using hs
  obtain ⟨g'', desc, hg'', _, _, _, hsel⟩ :=
    select_eq_gen (α := α) (ds.run ops) hwf' samples ss hs' f gi i (by rw [hfm']; exact hfm)
  rw [hg'] at hg''
  cases hg''
  rw [← hk, hsel, select_by_flag (α := α) (ds.run ops).st g' i m (by rw [hmap]; exact hm) ss, hst]
  congr 2
  rw [← hflag f]
  simp [Dataset.flag, hfm', hfm, hg']

/-- **undoing restores the original views**: after `undrop` (resp. `unshuffle`, which as coded also clears every flag) at the
    end of any history, every flag is cleared: `select` returns the plain view of the stored values again; in particular
    `undrop` + `unshuffle` restore the original. -/
theorem history_restore (n : Nat) (F : Nat → Flag) (ops : List HOp) (f : Nat) :
    absRun n F (ops ++ [.undrop]) f = .none ∧ absRun n F (ops ++ [.unshuffle]) f = .none ∧
    absRun n F (ops ++ [.undrop, .unshuffle]) f = .none := by
  simp [absRun, List.foldl_append, absStep]

/-- **shuffling permutes by the reported bijection**: the view of a shuffled feature at position `k` is the plain value of
    sample `p[ss[k]]`; when the reported `p` is a permutation of all the samples, reading all the samples in order reads the
    sample list `p`, i.e. every stored value exactly once (a rearrangement of the unshuffled view, nothing lost or
    duplicated). -/
theorem shuffle_is_reported_bijection (st : Storage) (k : GKind) (m : FMap) (p ss : List Nat) (N : Nat)
    (hN : 0 < N) (hp : p.Perm (List.range N)) :
    specSelect (α := α) st k m (.shuffled p) ss = plainView st k m (ss.map (fun s => p.getD s 0)) ∧
    specSelect (α := α) st k m (.shuffled p) (List.range N) = plainView st k m p ∧
    ((List.range N).map (fun s => p.getD s 0)).Perm (List.range N) := by
  obtain ⟨hl, hmap⟩ := getD_of_perm_range p N hp
  have hne : p.isEmpty = false := by
    cases p with
    | nil => simp at hl; omega
    | cons _ _ => rfl
  have hit : ∀ l : List Nat, l.map (iterSample p) = l.map (fun s => p.getD s 0) := by
    intro l
    apply List.map_congr_left
    intro s _
    simp [iterSample, hne]
  refine ⟨?_, ?_, ?_⟩
  · simp only [specSelect, hit]
  · simp only [specSelect, hit, hmap]
  · rw [hmap]; exact hp

end

/-- the permutation reported by `shuffled()` right after `shuffle()` is the one the views are read through -/
theorem shuffled_reports (ds : Dataset) (hwf : ds.WF) (f : Nat) (hf : f < ds.features) (p : List Nat)
    (hp : p.length = ds.st.samples) (hN : 0 < ds.st.samples) (samples : List Int) (ss : List Nat)
    (hs : ds.checkSamples samples = some ss) :
    (ds.step (.shuffle f p)).shuffled (Int.ofNat f) samples = some (ss.map (fun s => p.getD s 0)) ∧
    (ds.step (.shuffle f p)).flag f = .shuffled p := by
  have hok := flagsOk_of_wf ds hwf
  obtain ⟨hst, _, hfm', _⟩ := step_keeps ds hwf (.shuffle f p)
  have hflag := step_flag ds hok (.shuffle f p) f
  simp only [absStep, hf, if_true] at hflag
  refine ⟨?_, hflag⟩
  obtain ⟨h1, _⟩ := onFeature_spec ds hok f (fun g i => g.shuffle i p) (fun _ _ => rfl)
  obtain ⟨gi, i, g, hfm, hg, hi, hon⟩ := h1 hf
  have hstep : ds.step (.shuffle f p) = { ds with gens := ds.gens.modify gi (fun g => g.shuffle i p) } := by
    simp only [Dataset.step, Dataset.shuffle, hon, Option.getD_some]
  have hss : ∀ s ∈ ss, s < p.length := by
    intro s hs'
    unfold Dataset.checkSamples at hs
    split at hs
    · rename_i hall
      cases hs
      simp only [List.mem_map] at hs'
      obtain ⟨x, hx, rfl⟩ := hs'
      have := (List.all_eq_true.1 hall) x hx
      simp only [decide_eq_true_eq, Int.ofNat_eq_natCast] at this
      rw [hp]; omega
    · cases hs
  have hfeat' : (ds.step (.shuffle f p)).features = ds.features := by simp [Dataset.features, hfm']
  unfold Dataset.shuffled
  have hcs : (ds.step (.shuffle f p)).checkSamples samples = some ss := by
    simpa [Dataset.checkSamples, hst] using hs
  rw [hcs, checkFeature_ofNat, hfeat', if_pos hf]
  simp only [Option.bind_eq_bind, Option.bind_some, hfm', hfm]
  rw [hstep]
  simp only [List.getElem?_modify, if_true, hg, Option.map_eq_map, Option.map_some, Option.bind_some]
  have hall : (g.shuffle i p).shuffledAll i = p := by
    rw [shuffledAll_flag, flagOf_shuffle _ _ _ _ hi]
    simp
  rw [hall]
  have hne : p.isEmpty = false := by
    cases p with
    | nil => simp at hp; omega
    | cons _ _ => rfl
  simp only [hne, Bool.false_eq_true, if_false]
  clear hcs hs
  induction ss with
  | nil => rfl
  | cons s ss ih =>
    have hs0 := hss s List.mem_cons_self
    have := ih (fun x hx => hss x (List.mem_cons_of_mem _ hx))
    simp only [List.mapM_cons, List.getElem?_eq_getElem hs0, Option.bind_eq_bind, Option.bind_some, this,
      List.map_cons, Option.pure_def, List.getD_eq_getElem?_getD, Option.getD_some]

/-! ### range checks -/

section
variable {α : Type} [Scalar α]

/-- A sample index `< 0` or `≥ samples()` anywhere in the list makes every sample-indexed accessor throw; a feature index
    `< 0` or `≥ features()` makes every feature-indexed accessor throw (nothing is read). -/
theorem index_out_of_range_rejected (ds : Dataset) (samples : List Int) (f : Int) (o : Overload) (buf0 : List (List α))
    (perm : List Nat) :
    ((∃ s ∈ samples, s < 0 ∨ Int.ofNat ds.st.samples ≤ s) →
      (ds.select (α := α) samples f o = none ∧ ds.flattenInto samples buf0 = none ∧
       ds.targets (α := α) samples = none ∧ ds.selectTarget (α := α) samples o = none ∧
       ds.shuffled f samples = none)) ∧
    ((f < 0 ∨ Int.ofNat ds.features ≤ f) →
      (ds.select (α := α) samples f o = none ∧ (ds.checkFeature f).bind ds.feature = none ∧
       ds.drop f = none ∧ ds.shuffle f perm = none ∧ ds.shuffled f samples = none)) := by
  constructor
  · intro h
    have hc := checkSamples_none ds samples h
    simp [Dataset.select, Dataset.flattenInto, Dataset.targets, Dataset.selectTarget, Dataset.shuffled, hc]
  · intro h
    have hc := checkFeature_none ds f h
    refine ⟨?_, ?_, ?_, ?_, ?_⟩
    · simp only [Dataset.select, hc]
      cases ds.checkSamples samples <;> simp
    · simp [hc]
    · simp [Dataset.drop, Dataset.onFeature, hc]
    · simp [Dataset.shuffle, Dataset.onFeature, hc]
    · simp only [Dataset.shuffled, hc]
      cases ds.checkSamples samples <;> simp

/-- the empty index list is a list of sample indices: it yields empty views, not an exception -/
theorem empty_index_list_accepted (ds : Dataset) :
    ds.checkSamples [] = some [] ∧
    ds.flattenInto (α := α) [] [] = some [] ∧
    (∀ t desc, ds.st.target = some t → ds.target = some desc →
      ds.targets (α := α) [] = some (ds.targetDims, [])) := by
  refine ⟨rfl, ?_, ?_⟩
  · simp [Dataset.flattenInto, Dataset.checkSamples, flattenGens_nil]
  · intro t desc ht hd
    simp [Dataset.targets, Dataset.checkSamples, ht, hd]

end

/-! ### non-vacuity: a concrete dataset (exact scalars, `none` plays NaN) -/

/-- exact scalars for the examples -/
instance exampleScalar : Scalar (Option Int) :=
  ⟨some, none, fun a b => a.bind (fun x => b.map (x * ·)), fun a b => a.bind (fun x => b.map (x - ·))⟩

/-- 3 samples; a 3-class label, an int16 scalar, a 2-label multi-label feature, a 1x2x1 tensor, a second scalar -/
def exFeats : List Feature :=
  [⟨"f0", .sclass, 1, 1, 1, 3⟩, ⟨"f1", .int16, 1, 1, 1, 0⟩, ⟨"f2", .mclass, 1, 1, 1, 2⟩, ⟨"f3", .float64, 1, 2, 1, 0⟩,
   ⟨"f4", .int16, 1, 1, 1, 0⟩]

def exWrites : List (Nat × Nat × List Int) :=
  [(0, 0, [2]), (2, 0, [0]), (0, 1, [-5]), (1, 1, [7]), (1, 2, [1, 0]), (2, 3, [4, -4]), (1, 4, [3]), (2, 4, [2])]

/-- the harness's `do_load`: `resize`, then one `set` per given value -/
def exStorage : Option Storage :=
  exWrites.foldlM (fun st w => st.set w.1 w.2.1 w.2.2) (resize 3 exFeats 9)

def exGens : List (GKind × List Nat × List Nat) :=
  [(.sclassId, [], []), (.scalarId, [1], []), (.mclassId, [], []), (.structId, [], []), (.product, [1, 4], [1, 4])]

def exDataset : Option Dataset :=
  exStorage.bind (fun st => exGens.foldlM (fun (ds : Dataset) k => ds.add k.1 k.2.1 k.2.2) ⟨st, []⟩)

-- the hypotheses of the theorems hold for it (so the theorems say something about this dataset and its 2^… histories)
example : ∃ ds, exDataset = some ds ∧ ds.WF ∧ ClassValuesOk ds.st ∧ ∀ f, ds.flag f = .none := by
  have hst : ∃ st, exStorage = some st := by
    have : exStorage.isSome = true := by decide
    exact Option.isSome_iff_exists.1 this
  obtain ⟨st, hst⟩ := hst
  have hds : ∃ ds, exDataset = some ds := by
    have : exDataset.isSome = true := by decide
    exact Option.isSome_iff_exists.1 this
  obtain ⟨ds, hds⟩ := hds
  have h0 := resize_wf 3 exFeats 9 (by decide)
  obtain ⟨hwf, hcls, _⟩ := sets_wf exWrites _ st h0 (classValuesOk_resize 3 exFeats 9) hst (by decide)
  have hadd : exGens.foldlM (fun (ds : Dataset) k => ds.add k.1 k.2.1 k.2.2) ⟨st, []⟩ = some ds := by
    simpa [exDataset, hst] using hds
  obtain ⟨h1, h2, h3⟩ := adds_wf exGens ⟨st, []⟩ ds ⟨hwf, by simp⟩ (by simp) hadd
  exact ⟨ds, hds, h1, by rw [h2]; exact hcls, flag_fresh ds h3⟩

-- the two int16 scalars share the int16 pool (rows 0 and 1), the label and the hits share the uint8 pool (rows 0 and 1..2)
example : (exStorage.map (·.ranges)) = some [(0, 1), (0, 1), (1, 3), (0, 2), (1, 2)] := by decide
-- D: set values are read back, everything else is missing
example : (exStorage.map (fun st => [st.stored 0 0, st.stored 0 1, st.stored 2 1, st.stored 3 2, st.stored 4 0])) =
    some [some [2], none, some [1, 0], some [4, -4], none] := by decide
-- bookkeeping: 7 features (label, scalar f1, hits, tensor, 3 products), 2 + 1 + 2 + 2 + 3 columns
example : (exDataset.map (fun ds => (ds.features, ds.columns, ds.colMap))) =
    some (7, 10, [0, 0, 1, 2, 2, 3, 3, 4, 5, 6]) := by decide
-- the flattened view of samples [2, 0, 0] (a repetition): one-hot over 2 columns (class 2 = all −1), NaN for missing
example : (exDataset.bind (fun ds => ds.flatten (α := Option Int) [2, 0, 0] none)) =
    some [[some 1, some (-1), none, none, none, some 4, some (-4), none, none, some 4],
          [some (-1), some (-1), some (-5), none, none, none, none, some 25, none, none],
          [some (-1), some (-1), some (-5), none, none, none, none, some 25, none, none]] := by decide
-- index 3 = samples() is rejected, -1 is rejected, the empty list is an empty view
example : (exDataset.bind (fun ds => ds.flatten (α := Option Int) [3] none)) = none := by decide
example : (exDataset.bind (fun ds => ds.flatten (α := Option Int) [0, -1] none)) = none := by decide
example : (exDataset.bind (fun ds => ds.flatten (α := Option Int) [] none)) = some [] := by decide
-- drop makes exactly that feature missing; shuffle reads it through the permutation; undrop restores
example : (exDataset.bind (fun ds => ((ds.step (.drop 1)).select (α := Option Int) [0, 1, 2] 1 .scalar).map
    (fun v => match v with | .scalar x => x | _ => []))) = some [none, none, none] := by decide
example : (exDataset.bind (fun ds => ((ds.step (.shuffle 1 [2, 0, 1])).select (α := Option Int) [0, 1, 2] 1 .scalar).map
    (fun v => match v with | .scalar x => x | _ => []))) = some [none, some (-5), some 7] := by decide
example : (exDataset.bind (fun ds => ((ds.run [.drop 1, .shuffle 0 [1, 2, 0], .undrop]).select (α := Option Int)
    [0, 1, 2] 1 .scalar).map (fun v => match v with | .scalar x => x | _ => []))) =
    some [some (-5), some 7, none] := by decide


end NanoVerif.Dataset
