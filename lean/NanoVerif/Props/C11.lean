import NanoVerif.Proofs.EarlyStopping
import NanoVerif.Proofs.Boost
import NanoVerif.Proofs.BoostFit
import NanoVerif.Proofs.MLResult
import NanoVerif.Proofs.BoostFitTop
import Mathlib.Data.List.Induction
import Mathlib.Tactic.FieldSimp
import Mathlib.Tactic.NormNum
/-!
  C11 — property theorems: the early-stopping monitor (`early_stopping_t::done`, regenerated from the source into
  `Gen/EarlyStopping.lean`) over every history of calls, and the bookkeeping of the boosting round loop / the fold
  averaging (`Model/Boost.lean`).

  All theorems are over an arbitrary ordered field `α`, every ε (positivity is assumed only where stated), every
  patience, every history `h : List (Call α)` — a call carries the mean training error, the mean validation error, the
  number of weak learners `n`, the number of validation samples and a name `idx` for its per-sample tensor.
  `Improves eps best c` is the specification of "accepted" (see `Model/EarlyStopping.lean`).
  The initial `m_value = DBL_MAX` enters as the hypothesis `c.valid < v0 - eps` on observed validation errors.

  ### Gap table (every function of the anchored files; `modelled` = hand-written Lean definition tied by a correspondence family,
  `translated` = regenerated into Gen/, `oracle` = a parameter of the model with the stated contract, `outside` = not in any model)

  | file: function | status |
  |---|---|
  | gboost/early_stopping.cpp: constructor, `done` | translated — `Gen.EarlyStopping.init`, `done` (family `es`) |
  | gboost/model.cpp: `make_params` | outside (the grid of the `global` ratio is C13's parameter space); only "one parameter in `global` mode" is used |
  | … `decode_params` | modelled — `BoostFit.startRatio` (gbloop: ratio column of the rows) |
  | … `selected` | modelled — `foldResult.trainValues / validValues` |
  | … `make_cluster` | modelled (dimension only) — `clusterGroups`; the cluster itself is C10's `splitOne`; monitor: `len(x) = 1` in gboost mode |
  | … `::fit` | modelled — `fitStart`, `shrunk`, `roundStep`, `roundLoop`, `fitRun`, `foldResult`, `fitFold` (control: `Boost.step/loop/fit`, tied by gbloop; data flow: rows, ratios, tune scan tied by the gbloop extension `X`). Oracles: bias fit `b`; `gfunction.gradients` (inside the weak-learner fit oracle); `sampler.sample` (oracle here, modelled by C12 `Split.gboostSample`; contract monitored with hook H3b); `wlearner->fit` (C10's models; here `RoundOr.cands`); the scaling solve `RoundOr.x/xmin` (objective: C09); `loss.error/value` = `Env.err/loss` (C06) |
  | … `gboost_model_t` constructor / copies / `prototypes` / `read` / `write` / `features` | outside (C19 parameters, C15 serialization) |
  | … `gboost_model_t::fit` | modelled — `gboostFit` = `MLResult.runTune` ∘ `gbBatch` (tuning), `optimumOf`, `foldModels`, `finalize` (clear, sum, merge, scale by 1/folds; gbloop `M`), `finalValues`, `storeFinal` |
  | … `do_predict` | modelled — `Boost.predict`, `modelOut` (family `fit`: prediction = bias + Σ) |
  | gboost/result.cpp: constructor | modelled (`rows`); copies: outside |
  | … `update` (both) | modelled — `statsRow` columns 0-4 (families `gbres`, gbloop `X`); columns 5-7 (solver calls, status): outside |
  | … `done` | modelled — `foldResult` (`take round`, rows `take (round+1)`, then `merge` = oracle with `MergeLaw`, proved for C10's model) |
  | gboost/util.cpp: `evaluate` | oracle — `Env.err / Env.loss` per sample (C06 kernels) |
  | … `tune_shrinkage` | modelled — `shrinkValue`, `shrinkScan`, `tuneShrinkage` (gbloop `X` with hook H3b: every grid value and the answer); the residue of the in-place `+= / -=` at double is outside |
  | … `mean_loss`, `mean_error` | modelled — `EarlyStopping.meanError` inside `statsRow` (bit-exact in `gbres`, gbloop `X`) |
  | gboost/sampler.cpp: constructor, `sample` | oracle — `RoundOr.fitSamples` / `sampleOf` (`off` coded); C12 owns the model; monitored (⊆ train, size, no repetition for `subsample`) |
  | linear.cpp: `make_x0`, `::fit` | oracle — `LinearFit.Env.solve params samples extra` (the warm-start argument is modelled: which trial's data is handed over) |
  | … `linear_t::fit` | modelled — `linearFit` = `callback`, `batchFit`, `MLResult.runTune`, `optimumOf`, `refit`; family `fit linear` (python recomputation), `mlres` for the storage |
  | … constructor, `read`, `write`, `all`, `do_predict` | outside / oracle `evalOn` |
  | linear/util.cpp: `predict`, `evaluate` | oracle — `Env.evalOn` (python recomputes `W x + b` sample by sample) |
  | … `feature_importance`, `sparsity_ratio`, `make_param_space` | outside (not in the statement; the space is C13's) |
  | machine/tune.cpp: `tune` | modelled — C13 `Tune.runBatch` (imported) under `MLResult.runTune`, `cbOf` |
  | machine/result.cpp: constructors, `add`, `optimum_trial`, `closest_trial`, `params`, `value`, `values`, `extra(t,f)` | modelled by C13 (`Tune.Result.*`, imported); here `optimumOf`, `meanValidErr`, `extraOf` (family `mlres`) |
  | … `store(trial, fold, …)`, `store(final)`, `stats(t,f,split,kind)`, `stats(kind)`, `extra()` | modelled — `storeCell`, `store`, `storeFinal`, `stats`, `Full.stats` (family `mlres`) |
  | … `make_random_path`, `log_path`, `refit_log_path` | outside |
  | machine/stats.cpp: `store_stats`, `load_stats` | modelled by C20 — `Stats.storeStats` (imported) |
  | learner.cpp: `predict` | modelled through `modelOut` (zeroed buffer + `do_predict`); `evaluate`: oracle; `critical_compatible`, `fit_dataset`, `read`, `write`: outside |
  | wlearner/util.cpp: `scale`, `merge` | oracle with contracts `ScaleLaw`, `MergeLaw` — both PROVED for C10's model of the code (`Proofs/BoostFitC10.lean`); `clone`: outside |

  Hypotheses re-examined: `ScaleLaw` is needed in `local` mode only and is necessary there (kernel-checked witness `envBad` below; on
  the real code: mutation M1 of the report); `MergeLaw` enters only through `done`/`finalize`; the `DBL_MAX` hypothesis `hv` of the older
  theorems is necessary for `snap = round + 1` (witness below; corpus op with an infinite validation error) — the new theorems avoid it
  (`snap - 1 = round` holds in both cases, the constructor snapshot being the bias-only values); nothing is `_partial`.
-/
namespace NanoVerif.EarlyStopping
open NanoVerif.Gen.EarlyStopping

set_option linter.unusedSectionVars false

variable {α : Type} [Field α] [LinearOrder α] [IsStrictOrderedRing α]

/-- `done` answers true at the call `c` following the history `pre` ⇔ the training error is below ε, or the call is not
    accepted and the number of learners reached `round + patience` (round = the recorded one). -/
theorem es_stop_iff (eps : α) (pat : Nat) (s0 : State α) (pre : List (Call α)) (c : Call α) :
    (answers eps pat s0 (pre ++ [c])).getLast? = some true ↔
      (c.train < eps ∨ (¬ Improves eps (stateAfter eps pat s0 pre).value c ∧ (stateAfter eps pat s0 pre).round + pat ≤ c.n)) := by
  rw [answers_append]
  simp only [answers, List.getLast?_append, List.getLast?_singleton, Option.some_or, Option.some.injEq]
  exact done_stop_iff eps pat _ c

/-- The full invariant. After any history, either nothing was ever accepted (the state is still the initial one and
    no call improved on it), or the state records exactly one call `c` of the history — its learner count, its
    validation error, its per-sample tensor — that call was accepted when it was made, **and no later call had a
    training error below ε, lacked validation samples, or improved on the recorded validation error by more than ε**. -/
theorem es_no_missed_improvement (eps : α) (pat : Nat) (s0 : State α) (h : List (Call α)) :
    (stateAfter eps pat s0 h = s0 ∧ ∀ c ∈ h, ¬ Improves eps s0.value c) ∨
    (∃ pre c post, h = pre ++ c :: post ∧ Improves eps (stateAfter eps pat s0 pre).value c ∧
        stateAfter eps pat s0 h = record c ∧ ∀ d ∈ post, ¬ Improves eps c.valid d) := by
  induction h using List.reverseRecOn with
  | nil => exact Or.inl ⟨rfl, by simp⟩
  | append_singleton h d ih =>
    rw [stateAfter_snoc]
    rcases done_state_cases eps pat (stateAfter eps pat s0 h) d with ⟨hs, hni⟩ | ⟨hs, hi⟩
    · -- not accepted: the state stays
      rw [hs]
      rcases ih with ⟨h0, hall⟩ | ⟨pre, c, post, rfl, hacc, hst, hpost⟩
      · left
        refine ⟨h0, ?_⟩
        intro c hc
        rcases List.mem_append.mp hc with hc | hc
        · exact hall c hc
        · have : c = d := by simpa using hc
          subst this; rw [h0] at hni; exact hni
      · right
        refine ⟨pre, c, post ++ [d], by simp, hacc, hst, ?_⟩
        intro e he
        rcases List.mem_append.mp he with he | he
        · exact hpost e he
        · have : e = d := by simpa using he
          subst this; rw [hst] at hni; exact hni
    · -- accepted: the state records d
      right
      exact ⟨h, d, [], rfl, hi, hs, by simp⟩

/-- the stored round / value / per-sample snapshot are those of a call of the history that was accepted when made
    (stated with the `DBL_MAX` hypothesis: every observed validation error is below `v0 - ε`) -/
theorem es_snapshot_is_accepted (eps : α) (pat : Nat) (v0 : α) (h : List (Call α)) (hne : h ≠ [])
    (hv : ∀ c ∈ h, c.valid < v0 - eps) :
    ∃ pre c post, h = pre ++ c :: post ∧ Improves eps (stateAfter eps pat (init v0) pre).value c ∧
      stateAfter eps pat (init v0) h = record c := by
  rcases es_no_missed_improvement eps pat (init v0) h with ⟨_, hall⟩ | ⟨pre, c, post, e, hacc, hst, _⟩
  · obtain ⟨c, hc⟩ := List.exists_mem_of_ne_nil h hne
    exact absurd (Or.inr (Or.inl (hv c hc))) (hall c hc)
  · exact ⟨pre, c, post, e, hacc, hst⟩

/-- the first call of a fresh monitor is accepted whenever its validation error is below `v0 - ε` (`v0 = DBL_MAX`) -/
theorem es_first_call_accepted (eps : α) (pat : Nat) (v0 : α) (c : Call α) (hv : c.valid < v0 - eps) :
    (done eps pat (init v0) c).1 = record c :=
  done_state_of_improves eps pat (init v0) c (Or.inr (Or.inl hv))

/-- one call: the state is unchanged, or the call had a training error below ε, or no validation samples, or the
    stored validation error dropped by more than ε -/
theorem es_strict_improvement (eps : α) (pat : Nat) (s0 : State α) (pre : List (Call α)) (c : Call α) :
    stateAfter eps pat s0 (pre ++ [c]) = stateAfter eps pat s0 pre ∨ c.train < eps ∨ c.nvalid = 0 ∨
      (stateAfter eps pat s0 (pre ++ [c])).value < (stateAfter eps pat s0 pre).value - eps := by
  rw [stateAfter_snoc]
  rcases done_state_cases eps pat (stateAfter eps pat s0 pre) c with ⟨hs, _⟩ | ⟨hs, hi⟩
  · exact Or.inl hs
  · rcases hi with h1 | h2 | h3
    · exact Or.inr (Or.inl h1)
    · right; right; right; rw [hs]; exact h2
    · exact Or.inr (Or.inr (Or.inl h3))

/-- over any stretch of calls with validation samples and training error ≥ ε (pure validation monitoring), ε > 0: the
    state is unchanged or the stored validation error dropped by more than ε — successive accepted values decrease -/
theorem es_value_decreases (eps : α) (heps : 0 < eps) (pat : Nat) (s : State α) (post : List (Call α))
    (hp : ∀ d ∈ post, ¬ d.train < eps ∧ d.nvalid ≠ 0) :
    stateAfter eps pat s post = s ∨ (stateAfter eps pat s post).value < s.value - eps := by
  induction post using List.reverseRecOn with
  | nil => exact Or.inl rfl
  | append_singleton l d ih =>
    have ih' := ih (fun e he => hp e (List.mem_append.mpr (Or.inl he)))
    have hd := hp d (by simp)
    rcases es_strict_improvement eps pat s l d with h | h | h | h
    · rw [h]; exact ih'
    · exact absurd h hd.1
    · exact absurd h hd.2
    · rcases ih' with e | e
      · rw [e] at h; exact Or.inr h
      · right; linarith

/-- with learner counts that never decrease along the history (and start at or above the initial round, 0), the
    recorded round never exceeds the current number of learners: `result.done(round)` erases inside the vector -/
theorem es_round_le_learners (eps : α) (pat : Nat) (s0 : State α) (h : List (Call α)) (c : Call α)
    (hmono : List.Pairwise (fun a b : Call α => a.n ≤ b.n) (h ++ [c])) (h0 : s0.round ≤ c.n) :
    (stateAfter eps pat s0 (h ++ [c])).round ≤ c.n := by
  rcases es_no_missed_improvement eps pat s0 (h ++ [c]) with ⟨hs, _⟩ | ⟨pre, d, post, e, _, hst, _⟩
  · rw [hs]; exact h0
  · rw [hst]
    show d.n ≤ c.n
    rcases List.eq_nil_or_concat post with hp | ⟨post', x, hp⟩
    · subst hp
      have : pre ++ [d] = h ++ [c] := e.symm
      have := List.append_inj' this rfl
      have hdc : d = c := by simpa using this.2
      rw [hdc]
    · subst hp
      have e' : h ++ [c] = (pre ++ d :: post') ++ [x] := by rw [e]; simp
      have := List.append_inj' e' rfl
      have hx : c = x := by simpa using this.2
      rw [e] at hmono
      have hp2 := (List.pairwise_append.mp hmono).2.1
      have := (List.pairwise_cons.mp hp2).1 x (by simp)
      rw [hx]; exact this

/-- without validation samples the monitor never stops for lack of improvement: a `true` means training error < ε -/
theorem no_valid_never_patience_stops (eps : α) (pat : Nat) (s0 : State α) (pre : List (Call α)) (c : Call α)
    (hnv : c.nvalid = 0) (h : (answers eps pat s0 (pre ++ [c])).getLast? = some true) : c.train < eps := by
  rcases (es_stop_iff eps pat s0 pre c).mp h with h1 | ⟨h2, _⟩
  · exact h1
  · exact absurd (Or.inr (Or.inr hnv)) h2

/-- a training error below ε always stops, and that call is the recorded one -/
theorem es_train_stops (eps : α) (pat : Nat) (s0 : State α) (pre : List (Call α)) (c : Call α) (ht : c.train < eps) :
    (answers eps pat s0 (pre ++ [c])).getLast? = some true ∧ stateAfter eps pat s0 (pre ++ [c]) = record c := by
  refine ⟨(es_stop_iff eps pat s0 pre c).mpr (Or.inl ht), ?_⟩
  rw [stateAfter_snoc]
  exact done_state_of_improves eps pat _ c (Or.inl ht)

/-- The fit loop (`n_k = k`), patience ≥ 1, observed validation errors below `v0 - ε`: if the calls `h` all answered
    false and the next call `d` answers true although its training error is not below ε, then the recorded call `c` is
    followed by **exactly `patience`** calls (the last one being `d`), none of which was accepted — the monitor stops at
    the first call that is `patience` rounds past the snapshot, and reports the snapshot's round `c.n = |pre|`. -/
theorem es_patience_rounds (eps : α) (pat : Nat) (hpat : 1 ≤ pat) (v0 : α) (h : List (Call α)) (d : Call α)
    (hnum : FitNumbered (h ++ [d])) (hv : ∀ c ∈ h ++ [d], c.valid < v0 - eps)
    (hfalse : ∀ b ∈ answers eps pat (init v0) h, b = false)
    (htrue : (done eps pat (stateAfter eps pat (init v0) h) d).2 = true) (hd : ¬ d.train < eps) :
    ∃ pre c post, h = pre ++ c :: post ∧ Improves eps (stateAfter eps pat (init v0) pre).value c ∧
      stateAfter eps pat (init v0) (h ++ [d]) = record c ∧ c.n = pre.length ∧
      (∀ e ∈ post ++ [d], ¬ Improves eps c.valid e) ∧ (post ++ [d]).length = pat := by
  have hstop := (done_stop_iff eps pat _ d).mp htrue
  rcases hstop with h1 | ⟨hni, hle⟩
  · exact absurd h1 hd
  rcases es_no_missed_improvement eps pat (init v0) h with ⟨hs, hall⟩ | ⟨pre, c, post, e, hacc, hst, hpost⟩
  · -- nothing accepted so far: impossible under the DBL_MAX hypothesis
    rw [hs] at hni
    exact absurd (Or.inr (Or.inl (hv d (by simp)))) hni
  · have hcn : c.n = pre.length := hnum pre c (post ++ [d]) (by rw [e]; simp)
    have hdn : d.n = h.length := hnum h d [] rfl
    rw [hst] at hni hle
    have hlen : h.length = pre.length + 1 + post.length := by rw [e]; simp; omega
    have hsd : stateAfter eps pat (init v0) (h ++ [d]) = record c := by
      rw [stateAfter_snoc, hst]; exact done_state_of_not_improves eps pat _ d hni
    refine ⟨pre, c, post, e, hacc, hsd, hcn, ?_, ?_⟩
    · intro x hx
      rcases List.mem_append.mp hx with hx | hx
      · exact hpost x hx
      · have : x = d := by simpa using hx
        subst this; exact hni
    · -- lower bound from the stop at d, upper bound from the `false` of the call before d
      have hlow : pat ≤ post.length + 1 := by
        have : (record c).round = c.n := rfl
        rw [this, hcn, hdn, hlen] at hle; omega
      have hup : post.length + 1 ≤ pat := by
        rcases List.eq_nil_or_concat post with hp | ⟨post', x, hp⟩
        · subst hp; simpa using hpat
        · subst hp
          -- the state before x is still `record c`
          have hpre : stateAfter eps pat (init v0) (pre ++ [c]) = record c := by
            rw [stateAfter_snoc]; exact done_state_of_improves eps pat _ c hacc
          have hbx : stateAfter eps pat (init v0) (pre ++ c :: post') = record c := by
            have : pre ++ c :: post' = (pre ++ [c]) ++ post' := by simp
            rw [this, stateAfter_append, hpre]
            exact stateAfter_of_no_improve eps pat _ post' (fun y hy => hpost y (by simp [hy]))
          have hxn : x.n = pre.length + 1 + post'.length := by
            have := hnum (pre ++ c :: post') x [d] (by rw [e]; simp)
            rw [this]; simp; omega
          have hxa : (done eps pat (record c) x).2 = false := by
            apply hfalse
            have : h = (pre ++ c :: post') ++ [x] := by rw [e]; simp
            rw [this, answers_append, hbx]
            simp [answers]
          have hxni : ¬ Improves eps (record c).value x := hpost x (by simp)
          have : ¬ ((record c).round + pat ≤ x.n) := by
            intro hle'
            have := (done_stop_iff eps pat (record c) x).mpr (Or.inr ⟨hxni, hle'⟩)
            rw [hxa] at this; exact absurd this (by simp)
          have hr : (record c).round = c.n := rfl
          rw [hr, hcn, hxn] at this
          simp; omega
      simp; omega

/-- Converse: from a state recording round `r`, calls that do not improve on the stored value and see `r+1, r+2, …`
    learners are answered `false` as long as fewer than `patience` of them were made and `true` from the `patience`-th
    on — the monitor does not stop early and does not stop late. -/
theorem es_patience_rounds_conv (eps : α) (pat : Nat) (s : State α) (l : List (Call α))
    (hni : ∀ e ∈ l, ¬ Improves eps s.value e)
    (hnum : ∀ pre e post, l = pre ++ e :: post → e.n = s.round + pre.length + 1)
    (pre : List (Call α)) (e : Call α) (post : List (Call α)) (hl : l = pre ++ e :: post) :
    ((done eps pat (stateAfter eps pat s pre) e).2 = true ↔ pat ≤ pre.length + 1) := by
  have hpre : stateAfter eps pat s pre = s :=
    stateAfter_of_no_improve eps pat s pre (fun y hy => hni y (by rw [hl]; simp [hy]))
  have he : ¬ Improves eps s.value e := hni e (by rw [hl]; simp)
  have hn := hnum pre e post hl
  rw [hpre, done_stop_iff]
  constructor
  · rintro (h1 | ⟨_, h2⟩)
    · exact absurd (Or.inl h1) he
    · omega
  · intro h; exact Or.inr ⟨he, by omega⟩

/-! ### non-vacuity (ℚ, ε = 1/4, patience 2): an accepted, a rejected, a too-small and an exactly-ε improvement -/

def mk (t v : ℚ) (n : Nat) : Call ℚ := { train := t, valid := v, n := n, ntrain := 1, nvalid := 1, idx := n + 1 }

/-- history: 1, 1/2 (accepted), 1/4 (improvement of exactly ε: rejected), 3/8 (rejected; patience reached → stop) -/
def ex1 : List (Call ℚ) := [mk 1 1 0, mk 1 (1/2) 1, mk 1 (1/4) 2, mk 1 (3/8) 3]

example : answers (1/4 : ℚ) 2 (init 1000) ex1 = [false, false, false, true] := by decide +kernel
example : (stateAfter (1/4 : ℚ) 2 (init 1000) ex1).round = 1 ∧ (stateAfter (1/4 : ℚ) 2 (init 1000) ex1).value = 1/2 ∧
    (stateAfter (1/4 : ℚ) 2 (init 1000) ex1).snap = 2 := by decide +kernel
example : FitNumbered ex1 := by
  intro pre c post h
  match pre, h with
  | [], h => simp [ex1] at h; rw [← h.1]; rfl
  | [_], h => simp [ex1] at h; rw [← h.2.1]; rfl
  | [_, _], h => simp [ex1] at h; rw [← h.2.2.1]; rfl
  | [_, _, _], h => simp [ex1] at h; rw [← h.2.2.2.1]; rfl
  | _ :: _ :: _ :: _ :: _ :: _, h => simp [ex1] at h
example : Improves (1/4 : ℚ) 1 (mk 1 (1/2) 1) ∧ ¬ Improves (1/4 : ℚ) (1/2) (mk 1 (1/4) 2) := by
  unfold Improves mk; norm_num
/-- training error below ε stops at once and records the call -/
example : answers (1/4 : ℚ) 2 (init 1000) [mk 1 1 0, mk (1/8) 2 1] = [false, true] ∧
    (stateAfter (1/4 : ℚ) 2 (init 1000) [mk 1 1 0, mk (1/8) 2 1]).round = 1 := by decide +kernel
/-- without validation samples: never stops, always records the last call -/
example : answers (1/4 : ℚ) 1 (init 1000)
      [{ train := 1, valid := 0, n := 0, ntrain := 1, nvalid := 0, idx := 1 },
       { train := 1, valid := 0, n := 1, ntrain := 1, nvalid := 0, idx := 2 },
       { train := 1, valid := 0, n := 2, ntrain := 1, nvalid := 0, idx := 3 }] = [false, false, false] := by decide +kernel

end NanoVerif.EarlyStopping

namespace NanoVerif.Boost
open NanoVerif.Gen.EarlyStopping NanoVerif.EarlyStopping

set_option linter.unusedSectionVars false

variable {L X α : Type} [Field α] [LinearOrder α] [IsStrictOrderedRing α]

/-- for every behaviour of the iterations (any learners, any errors, no-learner and scaling-failure exits, any
    `max_rounds`): when the loop is left, the recorded round is at most the number of learners appended so far, so
    `erase(begin() + round, end())` stays inside the vector -/
theorem fold_round_le_learners (eps : α) (pat ntrain nvalid maxRounds : Nat) (vmax train0 valid0 : α)
    (evs : List (RoundEv L α)) :
    (fitLoop eps pat ntrain nvalid maxRounds vmax train0 valid0 evs).es.round ≤
      (fitLoop eps pat ntrain nvalid maxRounds vmax train0 valid0 evs).learners.length :=
  (fitLoop_inv eps pat ntrain nvalid maxRounds vmax train0 valid0 evs).1

/-- `result.done(optimum.round())` keeps **exactly** the first `round` of the learners the iterations appended (also
    when the loop was left through the scaling-failure branch, whose learner is appended without a `done` call) -/
theorem fold_keeps_round_learners (eps : α) (pat ntrain nvalid maxRounds : Nat) (vmax train0 valid0 : α)
    (evs : List (RoundEv L α)) :
    (fit eps pat ntrain nvalid maxRounds vmax train0 valid0 evs).1.length =
        (fit eps pat ntrain nvalid maxRounds vmax train0 valid0 evs).2.round ∧
    (fit eps pat ntrain nvalid maxRounds vmax train0 valid0 evs).1 =
        (learnersOf (evs.take maxRounds)).take (fit eps pat ntrain nvalid maxRounds vmax train0 valid0 evs).2.round := by
  obtain ⟨hle, ⟨k, hk⟩, _⟩ := fitLoop_inv eps pat ntrain nvalid maxRounds vmax train0 valid0 evs
  unfold fit
  dsimp only
  refine ⟨by rw [List.length_take]; omega, ?_⟩
  rw [hk] at hle ⊢
  rw [List.take_take]
  congr 1
  rw [List.length_take] at hle
  omega

/-- (first call accepted, i.e. `valid0 < DBL_MAX - ε`) the per-sample values the monitor hands back are those of the
    call made when exactly `round` learners were present — the statistics reported for the fold are those of the model
    that is kept -/
theorem fold_model_is_snapshot_model (eps : α) (pat ntrain nvalid maxRounds : Nat) (vmax train0 valid0 : α)
    (evs : List (RoundEv L α)) (hv : valid0 < vmax - eps) :
    (fit eps pat ntrain nvalid maxRounds vmax train0 valid0 evs).2.snap =
      (fit (L := L) eps pat ntrain nvalid maxRounds vmax train0 valid0 evs).2.round + 1 :=
  (fitLoop_inv eps pat ntrain nvalid maxRounds vmax train0 valid0 evs).2.2 hv

/-! ### the loop and the monitor: every history the loop can produce -/

/-- For every behaviour of the iterations: the monitor with which `::fit` reaches `result.done` is a fresh monitor driven
    over the calls the fit made (`fitCalls`: the one on the bias-only model, then one per regular round); these calls are
    numbered like the histories of `es_patience_rounds` (the `k`-th call sees `k` learners), and every call but the last
    one answered `false` — so all the theorems about histories apply to the loop. -/
theorem fit_monitor_history (eps : α) (pat ntrain nvalid maxRounds : Nat) (vmax train0 valid0 : α)
    (evs : List (RoundEv L α)) :
    (fit eps pat ntrain nvalid maxRounds vmax train0 valid0 evs).2 =
      stateAfter eps pat (init vmax) (fitCalls eps pat ntrain nvalid maxRounds vmax train0 valid0 evs) ∧
    FitNumbered (fitCalls eps pat ntrain nvalid maxRounds vmax train0 valid0 evs) ∧
    (∀ pre c post, fitCalls eps pat ntrain nvalid maxRounds vmax train0 valid0 evs = pre ++ c :: post → post ≠ [] →
      (answers eps pat (init vmax) (pre ++ [c])).getLast? = some false) := by
  obtain ⟨h1, h2⟩ := fitLoop_calls eps pat ntrain nvalid maxRounds vmax train0 valid0 evs
  refine ⟨h1, fun pre c post e => (h2 pre c post e).1, ?_⟩
  intro pre c post e hne
  rw [answers_append]
  simp only [answers, List.getLast?_append, List.getLast?_singleton, Option.some_or, Option.some.injEq]
  exact (h2 pre c post e).2.2.2.2 hne

/-- **The number of learners the fold keeps is the round of the last accepted improvement** — for every history the loop
    can produce (first call accepted, i.e. `valid0 < DBL_MAX - ε`): the calls of the fit split as `pre ++ c :: post` where
    `c` was accepted when it was made, no call after `c` was accepted (training error below ε, no validation samples, or
    an improvement of more than ε on `c`'s validation error), the monitor reports exactly `c`, and the fold keeps exactly
    the first `|pre|` learners the iterations appended — `|pre|` being the number of learners `c` saw. -/
theorem fit_keeps_last_accepted (eps : α) (pat ntrain nvalid maxRounds : Nat) (vmax train0 valid0 : α)
    (evs : List (RoundEv L α)) (hv : valid0 < vmax - eps) :
    ∃ pre c post, fitCalls eps pat ntrain nvalid maxRounds vmax train0 valid0 evs = pre ++ c :: post ∧
      Improves eps (stateAfter eps pat (init vmax) pre).value c ∧ (∀ d ∈ post, ¬ Improves eps c.valid d) ∧
      (fit eps pat ntrain nvalid maxRounds vmax train0 valid0 evs).2 = record c ∧ c.n = pre.length ∧
      (fit eps pat ntrain nvalid maxRounds vmax train0 valid0 evs).1 = (learnersOf (evs.take maxRounds)).take pre.length ∧
      (fit eps pat ntrain nvalid maxRounds vmax train0 valid0 evs).1.length = pre.length := by
  obtain ⟨hst, hnum, _⟩ := fit_monitor_history eps pat ntrain nvalid maxRounds vmax train0 valid0 evs
  obtain ⟨hlen, hkept⟩ := fold_keeps_round_learners eps pat ntrain nvalid maxRounds vmax train0 valid0 evs
  rcases es_no_missed_improvement eps pat (init vmax) (fitCalls eps pat ntrain nvalid maxRounds vmax train0 valid0 evs) with
    ⟨_, hall⟩ | ⟨pre, c, post, e, hacc, hrec, hpost⟩
  · -- the call on the bias-only model improves on DBL_MAX
    exfalso
    refine hall { train := train0, valid := valid0, n := 0, ntrain := ntrain, nvalid := nvalid, idx := 1 } ?_
      (Or.inr (Or.inl hv))
    unfold fitCalls; simp
  · have hcn : c.n = pre.length := hnum pre c post e
    have hround : (fit eps pat ntrain nvalid maxRounds vmax train0 valid0 evs).2.round = pre.length := by
      rw [hst, hrec]; exact hcn
    refine ⟨pre, c, post, e, hacc, hpost, by rw [hst, hrec], hcn, ?_, ?_⟩
    · rw [hkept, hround]
    · rw [hlen, hround]

/-- The patience exit of the loop, patience ≥ 1, observed validation errors below `DBL_MAX - ε`: when the last call `d` of the
    fit answered `true` although its training error is not below ε, the reported call `c` is followed by **exactly
    `patience`** calls, none of them accepted, and the fold keeps the `|pre|` learners that `c` saw. -/
theorem fit_patience_stop (eps : α) (pat : Nat) (hpat : 1 ≤ pat) (ntrain nvalid maxRounds : Nat) (vmax train0 valid0 : α)
    (evs : List (RoundEv L α)) (h : List (Call α)) (d : Call α)
    (hcalls : fitCalls eps pat ntrain nvalid maxRounds vmax train0 valid0 evs = h ++ [d])
    (hv : ∀ c ∈ h ++ [d], c.valid < vmax - eps)
    (htrue : (done eps pat (stateAfter eps pat (init vmax) h) d).2 = true) (hd : ¬ d.train < eps) :
    ∃ pre c post, h = pre ++ c :: post ∧ Improves eps (stateAfter eps pat (init vmax) pre).value c ∧
      (fit eps pat ntrain nvalid maxRounds vmax train0 valid0 evs).2 = record c ∧
      (fit eps pat ntrain nvalid maxRounds vmax train0 valid0 evs).1.length = pre.length ∧
      (∀ e ∈ post ++ [d], ¬ Improves eps c.valid e) ∧ (post ++ [d]).length = pat := by
  obtain ⟨hst, hnum, hans⟩ := fit_monitor_history eps pat ntrain nvalid maxRounds vmax train0 valid0 evs
  obtain ⟨hlen, _⟩ := fold_keeps_round_learners eps pat ntrain nvalid maxRounds vmax train0 valid0 evs
  rw [hcalls] at hst hnum hans
  have hfalse : ∀ b ∈ answers eps pat (init vmax) h, b = false := by
    intro b hb
    obtain ⟨pre, c, post, e, hbc⟩ := mem_answers eps pat (init vmax) h b hb
    have := hans pre c (post ++ [d]) (by rw [e]; simp) (by simp)
    rw [answers_append] at this
    simp only [answers, List.getLast?_append, List.getLast?_singleton, Option.some_or, Option.some.injEq] at this
    rw [hbc]; exact this
  obtain ⟨pre, c, post, e, hacc, hrec, hcn, hpost, hcount⟩ :=
    es_patience_rounds eps pat hpat vmax h d hnum hv hfalse htrue hd
  refine ⟨pre, c, post, e, hacc, by rw [hst, hrec], ?_, hpost, hcount⟩
  rw [hlen, hst, hrec]; exact hcn

/-- the observation-driven fit (`fitObs`, what the differential run executes on the logged oracle answers) keeps exactly
    the first `round` learners of those its iterations appended, whatever was observed -/
theorem fitObs_keeps_round_learners (eps : α) (pat ntrain nvalid maxRounds : Nat) (vmax noFit epsMach train0 valid0 : α)
    (obs : List (RoundObs L α)) :
    (fitObs eps pat ntrain nvalid maxRounds vmax noFit epsMach train0 valid0 obs).1.length =
        (fitObs eps pat ntrain nvalid maxRounds vmax noFit epsMach train0 valid0 obs).2.round ∧
    (fitObs eps pat ntrain nvalid maxRounds vmax noFit epsMach train0 valid0 obs).1 =
        (learnersOf ((obs.map (roundEv noFit epsMach)).take maxRounds)).take
          (fitObs eps pat ntrain nvalid maxRounds vmax noFit epsMach train0 valid0 obs).2.round :=
  fold_keeps_round_learners eps pat ntrain nvalid maxRounds vmax train0 valid0 (obs.map (roundEv noFit epsMach))

/-- `loopTrace` (what the differential run prints iteration by iteration) is the loop with its intermediate states: the
    state after the last executed iteration is the loop's result, at most one iteration per event is executed, and only the
    last executed iteration can have left the loop -/
theorem loopTrace_is_loop (eps : α) (pat ntrain nvalid : Nat) (st : LoopSt L α) (evs : List (RoundEv L α)) :
    loop eps pat ntrain nvalid st evs = (((loopTrace eps pat ntrain nvalid st evs).getLast?).map (·.1)).getD st ∧
    (loopTrace eps pat ntrain nvalid st evs).length ≤ evs.length ∧
    (∀ pre r post, loopTrace eps pat ntrain nvalid st evs = pre ++ r :: post → post ≠ [] → r.2 = false) :=
  ⟨loop_eq_loopTrace_last eps pat ntrain nvalid evs st, loopTrace_flags eps pat ntrain nvalid evs st⟩

/-! ### the choice of the weak learner (`best_score` / `best_wlearner`, model.cpp:134-149) -/

/-- the loop is left for want of a learner ⇔ no prototype returned a score below `no_fit_score()` -/
theorem pickBest_none_iff (noFit : α) (cands : List (α × L)) :
    (pickBest noFit cands).2 = none ↔ ∀ c ∈ cands, ¬ c.1 < noFit := by
  unfold pickBest
  rcases pickBest_go cands noFit none with ⟨e, hall⟩ | ⟨pre, s, w, post, e1, e2, h1, _, _⟩
  · rw [e]; exact ⟨fun _ => hall, fun _ => rfl⟩
  · rw [e2]
    constructor
    · intro h; exact absurd h (by simp)
    · intro hall; exact absurd h1 (hall (s, w) (by rw [e1]; simp))

/-- the chosen learner is the **first** candidate with the **smallest** score, that score is below `no_fit_score()` and
    it is the reported `best_score` -/
theorem pickBest_first_min (noFit : α) (cands : List (α × L)) (w : L) (h : (pickBest noFit cands).2 = some w) :
    ∃ pre s post, cands = pre ++ (s, w) :: post ∧ (pickBest noFit cands).1 = s ∧ s < noFit ∧
      (∀ c ∈ pre, s < c.1) ∧ ∀ c ∈ post, s ≤ c.1 := by
  unfold pickBest at h ⊢
  rcases pickBest_go cands noFit none with ⟨e, _⟩ | ⟨pre, s, w', post, e1, e2, h1, h2, h3⟩
  · rw [e] at h; exact absurd h (by simp)
  · rw [e2] at h ⊢
    have hw : w' = w := by simpa using h
    subst hw
    exact ⟨pre, s, post, e1, rfl, h1, h2, h3⟩

/-- which branch an iteration takes, from what it observes: no learner ⇔ no score below `no_fit_score()`; otherwise the
    scaling-failure branch ⇔ `gstate.x().min() < numeric_limits::epsilon()`, with the first best candidate appended -/
theorem roundEv_spec (noFit epsMach : α) (o : RoundObs L α) :
    (roundEv noFit epsMach o = .noLearner ↔ ∀ c ∈ o.cands, ¬ c.1 < noFit) ∧
    (∀ w, roundEv noFit epsMach o = .scaleFail w ↔ ((pickBest noFit o.cands).2 = some w ∧ o.xmin < epsMach)) ∧
    (∀ w t v, roundEv noFit epsMach o = .fitted w t v ↔
      ((pickBest noFit o.cands).2 = some w ∧ ¬ o.xmin < epsMach ∧ t = o.train ∧ v = o.valid)) := by
  rw [← pickBest_none_iff]
  unfold roundEv
  cases hb : (pickBest noFit o.cands).2 with
  | none => simp
  | some w0 =>
    by_cases hx : o.xmin < epsMach
    · simp only [hx, if_true]
      refine ⟨by simp, fun w => ?_, fun w t v => by simp⟩
      constructor
      · intro h; injection h with h; exact ⟨by rw [h], trivial⟩
      · intro h; have : w0 = w := by simpa using h.1
        rw [this]
    · simp only [hx, if_false]
      refine ⟨by simp, fun w => by simp, fun w t v => ?_⟩
      constructor
      · intro h; injection h with h1 h2 h3; exact ⟨by rw [h1], not_false, h2.symm, h3.symm⟩
      · rintro ⟨h1, _, h2, h3⟩
        have : w0 = w := by simpa using h1
        rw [this, h2, h3]

/-- the boosting model's prediction is its bias plus the sum of its weak learners' predictions -/
theorem predict_append (bias : α) (ws : List (X → α)) (x : X) :
    predict bias ws x = bias + (ws.map (fun w => w x)).sum := predict_eq bias ws x

/-- the final model (biases summed and multiplied by `1/folds`, all fold learners concatenated and scaled by
    `1/folds`) predicts the average of the per-fold models, for any number of folds ≥ 1 and any learners -/
theorem averaged_model_predicts_mean (folds : List (α × List (X → α))) (hF : folds ≠ []) (x : X) :
    predict (averaged 0 (1 / (folds.length : α)) folds).1 (averaged 0 (1 / (folds.length : α)) folds).2 x =
      (folds.map (fun f => predict f.1 f.2 x)).sum / (folds.length : α) := by
  have hsum : (folds.map (fun f => f.1 + (f.2.map (fun w => w x)).sum)).sum =
      (folds.map (·.1)).sum + (folds.map (fun f => (f.2.map (fun w => w x)).sum)).sum := by
    clear hF
    induction folds with
    | nil => simp
    | cons f fs ih => simp only [List.map_cons, List.sum_cons, ih]; ring
  have hF' : (folds.length : α) ≠ 0 := by
    have : folds.length ≠ 0 := by simpa using hF
    exact_mod_cast this
  unfold averaged
  simp only [predict_eq]
  rw [sum_scale, sum_flatMap, foldl_bias_eq, hsum]
  field_simp
  ring

/-! ### non-vacuity: two fitted rounds, the second not accepted (exactly ε better), a third worse: patience 2 stops -/

example : (fit (L := Nat) (1/4 : ℚ) 2 1 1 100 1000 1 1
    [.fitted 10 1 (1/2), .fitted 11 1 (1/4), .fitted 12 1 (3/8), .fitted 13 1 0]).1 = [10] := by decide +kernel
/-- scaling failure after one accepted round: the failed learner is appended, then erased -/
example : (fit (L := Nat) (1/4 : ℚ) 2 1 1 100 1000 1 1 [.fitted 10 1 (1/2), .scaleFail 11, .fitted 12 1 0]).1 = [10] := by
  decide +kernel
/-- the same fit from observations: round 0 has two prototypes (scores 5 and 3: the second is chosen), round 1 ties (the
    first is chosen), round 2 fails the scaling (`x.min() = 0`), no score below `no_fit_score() = 100` would end the loop -/
example : (fitObs (L := Nat) (1/4 : ℚ) 2 1 1 100 1000 100 (1/1000) 1 1
    [{ cands := [(5, 10), (3, 11)], xmin := 1, train := 1, valid := 1/2 },
     { cands := [(2, 20), (2, 21)], xmin := 1, train := 1, valid := 1/8 },
     { cands := [(1, 30)], xmin := 0, train := 1, valid := 0 }]).1 = [11, 20] := by decide +kernel
example : roundEv (L := Nat) (100 : ℚ) (1/1000) { cands := [(100, 1), (200, 2)], xmin := 1, train := 0, valid := 0 } = .noLearner :=
  (roundEv_spec _ _ _).1.mpr (by decide +kernel)
/-- the calls of the four-round fit above: numbered 0..3, the last one stops -/
example : (fitCalls (L := Nat) (1/4 : ℚ) 2 1 1 100 1000 1 1
    [.fitted 10 1 (1/2), .fitted 11 1 (1/4), .fitted 12 1 (3/8), .fitted 13 1 0]).map (·.n) = [0, 1, 2, 3] := by decide +kernel
/-- the `DBL_MAX` hypothesis of `fold_model_is_snapshot_model` is necessary: a first validation error that is not below
    `v0 − ε` (e.g. an infinite one) is not accepted, the monitor keeps the tensor it was constructed with (`snap = 0 ≠ round + 1`) -/
example : (fit (L := Nat) (1/4 : ℚ) 2 1 1 100 1000 1 1000 [.fitted 10 1 1000]).2.snap = 0 ∧
    (fit (L := Nat) (1/4 : ℚ) 2 1 1 100 1000 1 1000 [.fitted 10 1 1000]).2.round = 0 := by decide +kernel
/-- two folds `(1, [x ↦ x])`, `(3, [x ↦ 2x, x ↦ 1])`: the average predicts `(1 + 2) + (3 + 4 + 1)` / 2 at `x = 2` -/
example : predict (averaged (0 : ℚ) (1/2) [(1, [fun x : ℚ => x]), (3, [fun x => 2 * x, fun _ => 1])]).1
    (averaged (0 : ℚ) (1/2) [(1, [fun x : ℚ => x]), (3, [fun x => 2 * x, fun _ => 1])]).2 2 = 11 / 2 := by
  norm_num [predict, averaged, scale]

end NanoVerif.Boost

/-! ## the fold fit with its data flow (`Model/BoostFit.lean`): what the reported numbers are numbers *of*

  `cfg` carries every mode (`shrinkage` off / global / local, `subsample`, `wscale`) and parameter, `env` the weak-learner and
  loss operations, `ors` the oracle answers of the iterations (sampler, weak-learner fits, scaling solver), `b` the fitted bias,
  `params` the tuned hyper-parameters: all universally quantified. The only contracts: `ScaleLaw env` — needed in `local` mode
  only, where the code multiplies the tracked predictions by the tuned ratio *instead of* re-predicting with the re-scaled
  learner — and `MergeLaw env` for `wlearner::merge`; both are theorems of C10 for the modelled learners (`scale_scales`,
  `merge_preserves_sum`; instantiated in `Proofs/BoostFitC10.lean`). -/
namespace NanoVerif.BoostFit
open NanoVerif.Gen.EarlyStopping NanoVerif.EarlyStopping NanoVerif.Boost

set_option linter.unusedSectionVars false

variable {W X S α : Type} [Field α] [LinearOrder α] [IsStrictOrderedRing α]

/-- **The invariant that makes the per-round statistics reproducible from the stored model.** After any number of rounds, for
    every oracle behaviour and every mode: the predictions at the call of `optimum.done` made with `k` learners are
    `bias + Σ` predictions of the first `k` stored (scaled, shrunk) learners; the tracked `outputs` are those of the last such call;
    the stored learners are these, plus at most one (the unscaled learner the scaling-failure exit appends). -/
theorem tracked_outputs_eq_model_prediction (cfg : Cfg α) (env : Env W X S α) (hs : cfg.shrinkage = .local_ → ScaleLaw env)
    (train valid : List S) (params : List α) (b : X → α) (ors : List (RoundOr W S α)) :
    (∀ (k : Nat) (h : X → α), (fitRun cfg env train valid params b ors).hist[k]? = some h →
        h = modelOut env b ((fitRun cfg env train valid params b ors).ws.take k)) ∧
    (fitRun cfg env train valid params b ors).out =
      modelOut env b ((fitRun cfg env train valid params b ors).ws.take ((fitRun cfg env train valid params b ors).hist.length - 1)) ∧
    (fitRun cfg env train valid params b ors).hist.length - 1 ≤ (fitRun cfg env train valid params b ors).ws.length ∧
    (fitRun cfg env train valid params b ors).ws.length ≤ (fitRun cfg env train valid params b ors).hist.length := by
  have g := fitRun_good cfg env hs train valid params b ors
  have h1 : ∀ (k : Nat) (h : X → α), (fitRun cfg env train valid params b ors).hist[k]? = some h →
      h = modelOut env b ((fitRun cfg env train valid params b ors).ws.take k) := by
    intro k h hk; funext c; exact g.outs k h hk c
  refine ⟨h1, h1 _ _ g.out_last, ?_, ?_⟩
  · have := g.hist_le; omega
  · exact g.ws_le

/-- the statistics row `k` is (mean training error, mean training loss, mean validation error, mean validation loss) of the
    predictions of the model made of the bias and the first `k` stored learners — on the training / validation samples of the
    fold, in the order of the sample lists, with `mean_error`'s `max(size, 1)` denominator — together with the ratio of the round -/
theorem stats_row_is_means_of_outputs (cfg : Cfg α) (env : Env W X S α) (hs : cfg.shrinkage = .local_ → ScaleLaw env)
    (train valid : List S) (params : List α) (b : X → α) (ors : List (RoundOr W S α)) (k : Nat)
    (hk : k < (fitRun cfg env train valid params b ors).hist.length) :
    ∃ r : α, (fitRun cfg env train valid params b ors).rows[k]? =
      some (statsRow cfg env train valid (modelOut env b ((fitRun cfg env train valid params b ors).ws.take k)) r) := by
  have g := fitRun_good cfg env hs train valid params b ors
  obtain ⟨h, hh⟩ : ∃ h, (fitRun cfg env train valid params b ors).hist[k]? = some h :=
    ⟨_, List.getElem?_eq_getElem hk⟩
  obtain ⟨r, hr⟩ := g.rows k h hh
  have : h = modelOut env b ((fitRun cfg env train valid params b ors).ws.take k) := by
    funext c; exact g.outs k h hh c
  exact ⟨r, by rw [hr, this]⟩

/-- **The kept model reproduces the optimum round's row and the reported per-sample values.** What `::fit` returns after
    `result.done(optimum.round())` (+ `merge`): `round + 1` statistics rows, the last of which is the row of means of the
    *returned* model's own predictions, and the per-sample (error, loss) lists handed to `ml::result_t::store` are
    `loss.error` / `loss.value` of the returned model's predictions on the training / validation samples of the fold. -/
theorem kept_model_reproduces_optimum_row (cfg : Cfg α) (env : Env W X S α) (hs : cfg.shrinkage = .local_ → ScaleLaw env)
    (hm : MergeLaw env) (train valid : List S) (params : List α) (b : X → α) (ors : List (RoundOr W S α)) :
    (fitFold cfg env train valid params b ors).rows.length = (fitRun cfg env train valid params b ors).es.round + 1 ∧
    (∃ r : α, (fitFold cfg env train valid params b ors).rows[(fitRun cfg env train valid params b ors).es.round]? =
      some (statsRow cfg env train valid
        (modelOut env (fitFold cfg env train valid params b ors).bias (fitFold cfg env train valid params b ors).ws) r)) ∧
    (fitFold cfg env train valid params b ors).trainValues = train.map (fun s =>
      (env.err (modelOut env (fitFold cfg env train valid params b ors).bias (fitFold cfg env train valid params b ors).ws) s,
       env.loss (modelOut env (fitFold cfg env train valid params b ors).bias (fitFold cfg env train valid params b ors).ws) s)) ∧
    (fitFold cfg env train valid params b ors).validValues = valid.map (fun s =>
      (env.err (modelOut env (fitFold cfg env train valid params b ors).bias (fitFold cfg env train valid params b ors).ws) s,
       env.loss (modelOut env (fitFold cfg env train valid params b ors).bias (fitFold cfg env train valid params b ors).ws) s)) := by
  have g := fitRun_good cfg env hs train valid params b ors
  generalize hst : fitRun cfg env train valid params b ors = st at g
  have hmodel : modelOut env (fitFold cfg env train valid params b ors).bias (fitFold cfg env train valid params b ors).ws =
      modelOut env b (st.ws.take st.es.round) := by
    unfold fitFold foldResult; rw [hst]; exact modelOut_merge env hm b _
  obtain ⟨h, hh⟩ : ∃ h, st.hist[st.es.round]? = some h := ⟨_, List.getElem?_eq_getElem g.round_lt⟩
  have hsnap : st.hist.getD (st.es.snap - 1) b = modelOut env b (st.ws.take st.es.round) := by
    rw [g.snap, List.getD_eq_getElem?_getD, hh]
    funext c; exact g.outs _ h hh c
  have hrows : (fitFold cfg env train valid params b ors).rows = st.rows.take (st.es.round + 1) := by
    unfold fitFold foldResult; rw [hst]
  have htv : (fitFold cfg env train valid params b ors).trainValues =
      train.map (fun s => (env.err (st.hist.getD (st.es.snap - 1) b) s, env.loss (st.hist.getD (st.es.snap - 1) b) s)) := by
    unfold fitFold foldResult; rw [hst]
  have hvv : (fitFold cfg env train valid params b ors).validValues =
      valid.map (fun s => (env.err (st.hist.getD (st.es.snap - 1) b) s, env.loss (st.hist.getD (st.es.snap - 1) b) s)) := by
    unfold fitFold foldResult; rw [hst]
  rw [hmodel, hrows, htv, hvv, hsnap]
  refine ⟨?_, ?_, rfl, rfl⟩
  · rw [List.length_take]; have := g.round_lt; have := g.rows_ge; omega
  · obtain ⟨r, hr⟩ := g.rows _ h hh
    refine ⟨r, ?_⟩
    rw [List.getElem?_take_of_lt (Nat.lt_succ_self _), hr]
    have : h = modelOut env b (st.ws.take st.es.round) := by funext c; exact g.outs _ h hh c
    rw [this]

/-- the fold fit *is* the control skeleton of `Model/Boost.lean` run on the events its iterations are: every theorem about
    the skeleton (`fit_keeps_last_accepted`, `fit_patience_stop`, `fold_keeps_round_learners`, the `es_*` family) applies to
    the learners the fold keeps (before `merge`) and to its monitor -/
theorem fold_fit_refines_loop (cfg : Cfg α) (env : Env W X S α) (train valid : List S) (params : List α) (b : X → α)
    (ors : List (RoundOr W S α)) :
    ((fitRun cfg env train valid params b ors).ws.take (fitRun cfg env train valid params b ors).es.round,
      (fitRun cfg env train valid params b ors).es) =
    fit cfg.eps cfg.pat train.length valid.length cfg.maxRounds cfg.vmax
      (statsRow cfg env train valid b (startRatio cfg params)).trainErr
      (statsRow cfg env train valid b (startRatio cfg params)).validErr
      (evsOf cfg env train valid (fitStart cfg env train valid params b).1 ors) := by
  have hctl : (fitRun cfg env train valid params b ors).ctl =
      fitLoop cfg.eps cfg.pat train.length valid.length cfg.maxRounds cfg.vmax
        (statsRow cfg env train valid b (startRatio cfg params)).trainErr
        (statsRow cfg env train valid b (startRatio cfg params)).validErr
        (evsOf cfg env train valid (fitStart cfg env train valid params b).1 ors) := by
    unfold fitRun fitLoop
    by_cases hf : (fitStart cfg env train valid params b).2 = true
    · have hf' : (done cfg.eps cfg.pat (init cfg.vmax)
          { train := (statsRow cfg env train valid b (startRatio cfg params)).trainErr,
            valid := (statsRow cfg env train valid b (startRatio cfg params)).validErr, n := 0, ntrain := train.length,
            nvalid := valid.length, idx := 1 }).2 = true := hf
      simp only [hf, hf', if_true]; rfl
    · have hf' : ¬ (done cfg.eps cfg.pat (init cfg.vmax)
          { train := (statsRow cfg env train valid b (startRatio cfg params)).trainErr,
            valid := (statsRow cfg env train valid b (startRatio cfg params)).validErr, n := 0, ntrain := train.length,
            nvalid := valid.length, idx := 1 }).2 = true := hf
      rw [if_neg hf, if_neg hf', loop_refines, evsOf_take]; rfl
  unfold fit
  rw [← hctl]; rfl

/-- `gboost::tune_shrinkage`: the answer is the **first** grid ratio with the **smallest** mean validation loss of
    `outputs + ratio · woutputs` (and `0` only when no grid point has a mean below `DBL_MAX`, e.g. all NaN) -/
theorem tuneShrinkage_spec (cfg : Cfg α) (env : Env W X S α) (valid : List S) (out wout : X → α) :
    (tuneShrinkage cfg env valid out wout = cfg.zero ∧ ∀ s ∈ cfg.grid, ¬ shrinkValue cfg env valid out wout s < cfg.vmax) ∨
    (∃ pre s post, cfg.grid = pre ++ s :: post ∧ tuneShrinkage cfg env valid out wout = s ∧
      shrinkValue cfg env valid out wout s < cfg.vmax ∧
      (∀ t ∈ pre, shrinkValue cfg env valid out wout s < shrinkValue cfg env valid out wout t) ∧
      (∀ t ∈ post, shrinkValue cfg env valid out wout s ≤ shrinkValue cfg env valid out wout t)) := by
  unfold tuneShrinkage shrinkScan
  cases hb : (pickBest cfg.vmax (cfg.grid.map fun s => (shrinkValue cfg env valid out wout s, s))).2 with
  | none =>
    left
    refine ⟨rfl, fun s hsg => ?_⟩
    exact (pickBest_none_iff _ _).mp hb (shrinkValue cfg env valid out wout s, s) (List.mem_map.mpr ⟨s, hsg, rfl⟩)
  | some s =>
    right
    obtain ⟨pre, v, post, e, _, hv, hpre, hpost⟩ := pickBest_first_min _ _ s hb
    obtain ⟨p1, r1, e1, ep, er⟩ := List.map_eq_append_iff.mp e
    obtain ⟨s', q1, e2, es, eq⟩ := List.map_eq_cons_iff.mp er
    have hs' : s' = s := by injection es
    have hvs : v = shrinkValue cfg env valid out wout s := by injection es with h1 h2; rw [← h1, h2]
    subst hs'
    refine ⟨p1, s', q1, by rw [e1, e2], rfl, hvs ▸ hv, ?_, ?_⟩
    · intro t ht
      have := hpre (shrinkValue cfg env valid out wout t, t) (by rw [← ep]; exact List.mem_map.mpr ⟨t, ht, rfl⟩)
      rw [← hvs]; exact this
    · intro t ht
      have := hpost (shrinkValue cfg env valid out wout t, t) (by rw [← eq]; exact List.mem_map.mpr ⟨t, ht, rfl⟩)
      rw [← hvs]; exact this

/-- the scale that is applied is the solver's: in `gboost` mode (one group, `x = [x₀]`) and without local tuning, a round adds
    `x₀ · ratio ·` (the fitted learner's prediction) to every tracked prediction, and stores the learner scaled by `x₀ · ratio` -/
theorem round_update_gboost (cfg : Cfg α) (env : Env W X S α) (hsl : ScaleLaw env) (hl : cfg.shrinkage ≠ .local_)
    (valid : List S) (out : X → α) (ratio x0 : α) (w : W) (c : X) :
    (shrunk cfg env valid out ratio [x0] w).1 = ratio ∧
    (shrunk cfg env valid out ratio [x0] w).2.1 = env.scaleW [x0 * ratio] w ∧
    (shrunk cfg env valid out ratio [x0] w).2.2 c = env.pred w c * (x0 * ratio) := by
  unfold shrunk
  cases h : cfg.shrinkage with
  | local_ => exact absurd h hl
  | off => exact ⟨rfl, rfl, hsl _ _ _⟩
  | global => exact ⟨rfl, rfl, hsl _ _ _⟩

/-- **A second `fit()` starts from the cleared state**: the model `gboost_model_t::fit` leaves is a function of the fold models
    of the optimum trial only — whatever bias and weak learners an earlier fit left in the object. -/
theorem refit_starts_cleared (env : Env W X S α) (zero denom : α) (prev prev' : GModel W X α) (folds : List (GModel W X α)) :
    finalize env zero denom prev folds = finalize env zero denom prev' folds := rfl

/-- the final model predicts the average of the per-fold models of the optimum trial (on every cell), for the learners as
    stored: with the scale law for the `1 / folds` scaling and the merge law -/
theorem finalize_predicts_mean (env : Env W X S α) (hsl : ScaleLaw env) (hm : MergeLaw env) (prev : GModel W X α)
    (folds : List (GModel W X α)) (hF : folds ≠ []) (c : X) :
    modelOut env (finalize env 0 (1 / (folds.length : α)) prev folds).bias (finalize env 0 (1 / (folds.length : α)) prev folds).ws c =
      (folds.map (fun f => modelOut env f.bias f.ws c)).sum / (folds.length : α) :=
  finalize_mean env hsl hm prev folds hF c

/-- the final statistics are statistics of the final model's own predictions on the samples `fit` was given -/
theorem final_values_are_of_final_model (env : Env W X S α) (m : GModel W X α) (samples : List S) :
    finalValues env m samples = samples.map (fun s =>
      (env.err (fun c => predict (m.bias c) (m.ws.map env.pred) c) s, env.loss (fun c => predict (m.bias c) (m.ws.map env.pred) c) s)) :=
  rfl

end NanoVerif.BoostFit

/-! ## `ml::result_t` filled by `ml::tune`: the reported statistics are `store_stats` of what the model callback returned

  Generic in the scalar (core classes only: nothing arithmetic is used), in the model-specific data `E`, in the `nth_element`
  oracle `sort`, in the number / sizes of the batches the tuner asks for and in the order in which the pool runs the tasks of a
  batch (`Scheduled`: every index once — C13 `tune_calls_once`). `trialsOf pre + t` is the global number of the batch's trial `t`. -/
namespace NanoVerif.MLResult
open NanoVerif.Tune NanoVerif.Stats

set_option linter.unusedSectionVars false

section generic
variable {E α : Type} [Add α] [Sub α] [Mul α] [Div α] [LT α] [LE α] [DecidableLT α] [DecidableLE α]
  [OfNat α 0] [OfNat α 1] [OfNat α 2] [OfNat α 50] [OfNat α 100] [FloorI α] [HasSqrt α]

/-- **What `result.stats(trial, fold, split, kind)` returns is `storeStats` of the per-sample values of the fold model on that
    split** — the values the model callback of the trial's batch returned for (trial, fold) — and `extra(trial, fold)` is the
    model-specific data returned with them; `given` = the data of the closest trial the callback was handed. No off-by-one in the
    trial / fold / split / kind indexing, for any history of batches and any execution order. -/
theorem reported_stats_are_stats_of_recomputed (sort : List α → List α) (folds : Nat) (pre : List (Batch E α)) (b : Batch E α)
    (post : List (Batch E α)) (hs : Scheduled folds (pre ++ b :: post)) (t f : Nat) (ht : t < b.k) (hf : f < folds)
    (split : Split) (kind : Kind) :
    stats (runTune sort folds (pre ++ b :: post)) (trialsOf pre + t) f split kind =
      storeStats sort (column ((b.fit t f (extraOf ((runTune sort folds pre).add b.k) (b.closest t) f)).sel split) kind) ∧
    extraOf (runTune sort folds (pre ++ b :: post)) (trialsOf pre + t) f =
      some (b.fit t f (extraOf ((runTune sort folds pre).add b.k) (b.closest t) f)).extra := by
  have h := tune_slot sort folds pre b post hs t f ht hf
  unfold stats extraOf
  rw [h]
  refine ⟨?_, rfl⟩
  simp only [Option.bind_some, cbOf, storeCell_sel]
  cases split <;> rfl

/-- outside the asserts of `stats` / `extra` (trial or fold out of range) the model answers `none` -/
theorem stats_out_of_range (r : Result (Payload E α)) (trial fold : Nat) (split : Split) (kind : Kind)
    (h : r.folds ≤ fold ∨ r.trials ≤ trial) : stats r trial fold split kind = none ∧ extraOf r trial fold = none := by
  have : r.get? trial fold = none := by
    unfold Result.get?
    rw [if_neg]; intro hc; rcases h with h | h
    · exact absurd hc.1 (by omega)
    · exact absurd hc.2 (by omega)
  unfold stats extraOf; rw [this]; exact ⟨rfl, rfl⟩

/-- the final statistics (`result.stats(kind)`) are `storeStats` of the per-sample values handed to `store(values, extra)` -/
theorem final_stats_are_stats_of_values (sort : List α → List α) (r : Result (Payload E α)) (vals : List (α × α))
    (extra : Option E) (kind : Kind) :
    (storeFinal sort r vals extra).stats kind = storeStats sort (column vals kind) ∧
    (storeFinal sort r vals extra).extra = extra ∧ (storeFinal sort r vals extra).tuned = r := by
  cases kind <;> exact ⟨rfl, rfl, rfl⟩

/-- the run is well-formed: `folds` folds, as many trials as the batches asked for, one slot per (trial, fold) -/
theorem tune_shape (sort : List α → List α) (folds : Nat) (bs : List (Batch E α)) :
    (runTune sort folds bs).wf ∧ (runTune sort folds bs).folds = folds ∧ (runTune sort folds bs).trials = trialsOf bs :=
  runTune_wf sort folds bs

/-- in the first batch there is no earlier trial: whatever trial `closest_trial` names, the data read is the empty `std::any` -/
theorem first_batch_reads_nothing (sort : List α → List α) (folds k c f : Nat) :
    extraOf (((runTune sort folds ([] : List (Batch E α))).add k)) c f = none := by
  have hr : (runTune sort folds ([] : List (Batch E α))).add k =
      ⟨folds, 0 + k, [] ++ List.replicate (k * folds) none⟩ := rfl
  unfold extraOf Result.get?
  rw [hr]
  dsimp only
  by_cases h : f < folds ∧ c < 0 + k
  · rw [if_pos h, List.nil_append, List.getElem?_replicate]
    split <;> rfl
  · rw [if_neg h]; rfl

end generic
end NanoVerif.MLResult

namespace NanoVerif.LinearFit
open NanoVerif.Tune NanoVerif.Stats NanoVerif.MLResult

set_option linter.unusedSectionVars false

section generic
variable {P M S α : Type} [Add α] [Sub α] [Mul α] [Div α] [LT α] [LE α] [DecidableLT α] [DecidableLE α]
  [OfNat α 0] [OfNat α 1] [OfNat α 2] [OfNat α 50] [OfNat α 100] [FloorI α] [HasSqrt α]

/-- `linear_t::fit`, the tuning loop: for every trial of every batch and every fold, the stored model `m` is what `::fit`
    returned for the trial's parameters on the fold's **training** samples (started from the data of the closest trial), and the
    four reported statistics blocks are `storeStats` of `linear::evaluate` **of that same model** on the fold's training /
    validation samples -/
theorem linear_fold_stats_are_of_returned_model (sort : List α → List α) (env : Env P M S α) (folds : Nat)
    (pre post : List (Batch M α)) (k : Nat) (order : List Nat) (closest : Nat → Nat) (rows : Nat → P)
    (splits : Nat → List S × List S)
    (hs : Scheduled folds (pre ++ { k := k, order := order, closest := closest, fit := batchFit env rows splits } :: post))
    (t f : Nat) (ht : t < k) (hf : f < folds) :
    ∃ m : M,
      m = env.solve (rows t) (splits f).1 (extraOf ((runTune sort folds pre).add k) (closest t) f) ∧
      extraOf (runTune sort folds (pre ++ { k := k, order := order, closest := closest, fit := batchFit env rows splits } :: post))
        (trialsOf pre + t) f = some m ∧
      ∀ (split : Split) (kind : Kind),
        stats (runTune sort folds (pre ++ { k := k, order := order, closest := closest, fit := batchFit env rows splits } :: post))
          (trialsOf pre + t) f split kind =
        storeStats sort (column ((match split with | .train => (splits f).1 | .valid => (splits f).2).map (env.evalOn m)) kind) := by
  refine ⟨_, rfl, ?_, ?_⟩
  · exact (reported_stats_are_stats_of_recomputed sort folds pre _ post hs t f ht hf .train .errors).2
  · intro split kind
    rw [(reported_stats_are_stats_of_recomputed sort folds pre _ post hs t f ht hf split kind).1]
    cases split <;> rfl

/-- the refit: the final statistics are `storeStats` of `linear::evaluate` of the model fitted on **all** given samples with
    the optimum parameters from a **cold** start; that model is the one the object keeps (`m_bias`, `m_weights`) and the one
    stored as `result.extra()`; the tuned part of the result is untouched -/
theorem linear_final_stats_are_of_refit_model (sort : List α → List α) (env : Env P M S α) (prev : Obj M)
    (tuned : Result (Payload M α)) (optParams : P) (samples : List S) (kind : Kind) :
    (refit sort env prev tuned optParams samples).2.stats kind =
      storeStats sort (column (samples.map (env.evalOn (env.solve optParams samples none))) kind) ∧
    (refit sort env prev tuned optParams samples).1.model = some (env.solve optParams samples none) ∧
    (refit sort env prev tuned optParams samples).2.extra = some (env.solve optParams samples none) ∧
    (refit sort env prev tuned optParams samples).2.tuned = tuned := by
  cases kind <;> exact ⟨rfl, rfl, rfl, rfl⟩

/-- a second `fit()` of the same object does not read what the first one left -/
theorem linear_refit_ignores_previous_object (sort : List α → List α) (env : Env P M S α) (prev prev' : Obj M)
    (tuned : Result (Payload M α)) (optParams : P) (samples : List S) :
    refit sort env prev tuned optParams samples = refit sort env prev' tuned optParams samples := rfl

end generic

/-- the warm start reads only earlier trials (C13 `tune_reads_only_earlier` on this payload): with `old` the parameter rows of
    the earlier batches (at least one trial) and `new` those of the batch in flight, the trial `closest_trial(p, old_trials)`
    names is an earlier one, does not depend on the batch in flight, and its model data is the one the earlier batches stored -/
theorem linear_warm_start_reads_only_earlier {M π β α : Type} [Field β] [LinearOrder β] [IsStrictOrderedRing β]
    [Add α] [Sub α] [Mul α] [Div α] [LT α] [LE α] [DecidableLT α] [DecidableLE α]
    [OfNat α 0] [OfNat α 1] [OfNat α 2] [OfNat α 50] [OfNat α 100] [FloorI α] [HasSqrt α]
    (sort : List α → List α) (folds : Nat) (pre : List (Batch M α)) (top : β) (dist : π → π → β) (old new : List π)
    (hold : old.length = trialsOf pre) (hpos : 0 < trialsOf pre) (p : π) (f : Nat) :
    closestTrial top dist (old ++ new) p (trialsOf pre) < trialsOf pre ∧
    closestTrial top dist (old ++ new) p (trialsOf pre) = closestTrial top dist old p (trialsOf pre) ∧
    extraOf ((runTune sort folds pre).add new.length) (closestTrial top dist (old ++ new) p (trialsOf pre)) f =
      extraOf (runTune sort folds pre) (closestTrial top dist (old ++ new) p (trialsOf pre)) f := by
  obtain ⟨w1, _, w3⟩ := runTune_wf sort folds pre
  have h := Tune.tune_reads_only_earlier top dist (runTune sort folds pre) w1 old new (by rw [w3]; exact hold)
    (by rw [w3]; exact hpos) p f
  rw [w3] at h
  exact ⟨h.1, h.2.1, by unfold extraOf; rw [h.2.2]⟩

end NanoVerif.LinearFit

namespace NanoVerif.BoostFit
open NanoVerif.Tune NanoVerif.Stats NanoVerif.MLResult NanoVerif.Boost

set_option linter.unusedSectionVars false

variable {W X S α : Type} [Field α] [LinearOrder α] [IsStrictOrderedRing α] [FloorI α] [HasSqrt α]

/-- what the model callback of `gboost_model_t::fit` returns (model.cpp:295-305): the fold fit's per-sample values and, as the
    model-specific data, its `gboost::result_t`; the data of the closest trial is ignored (unnamed `const std::any&`) -/
def toFoldFit (R : FoldResult W X α) : FoldFit (FoldResult W X α) α :=
  { trainValues := R.trainValues, validValues := R.validValues, extra := R }

/-- the batch of `ml::tune` whose model callback is the fold fit: trial `t` of the batch has the parameters `cfgOf t`, `rows t`;
    fold `f` the samples `splits f`; `bias t f`, `ors t f` are the oracle answers of that fold fit -/
def gbBatch (env : BoostFit.Env W X S α) (cfgOf : Nat → Cfg α) (k : Nat) (order : List Nat) (closest : Nat → Nat)
    (rows : Nat → List α) (splits : Nat → List S × List S) (bias : Nat → Nat → X → α)
    (ors : Nat → Nat → List (RoundOr W S α)) : Batch (FoldResult W X α) α :=
  ⟨k, order, closest, fun t f _ => toFoldFit (fitFold (cfgOf t) env (splits f).1 (splits f).2 (rows t) (bias t f) (ors t f))⟩

/-- **gboost, end to end in the model**: for every trial of every batch and every fold, the four statistics blocks
    `result.stats(trial, fold, split, kind)` are `storeStats` of `loss.error` / `loss.value` of the predictions of the **stored
    fold model** (`extra(trial, fold)`: bias + its kept, merged weak learners) on the fold's training / validation samples — for
    every mode, every oracle behaviour of sampler / weak-learner fits / solvers, every batch history and execution order. -/
theorem gboost_reported_stats_are_stats_of_recomputed (sort : List α → List α) (env : BoostFit.Env W X S α)
    (cfgOf : Nat → Cfg α) (hs : ∀ t, (cfgOf t).shrinkage = .local_ → ScaleLaw env) (hm : MergeLaw env) (folds : Nat)
    (pre post : List (Batch (FoldResult W X α) α)) (k : Nat) (order : List Nat) (closest : Nat → Nat)
    (rows : Nat → List α) (splits : Nat → List S × List S) (bias : Nat → Nat → X → α) (ors : Nat → Nat → List (RoundOr W S α))
    (hsch : Scheduled folds (pre ++ gbBatch env cfgOf k order closest rows splits bias ors :: post))
    (t f : Nat) (ht : t < k) (hf : f < folds) :
    ∃ R : FoldResult W X α,
      extraOf (runTune sort folds (pre ++ gbBatch env cfgOf k order closest rows splits bias ors :: post))
        (trialsOf pre + t) f = some R ∧
      ∀ (split : Split) (kind : Kind),
        stats (runTune sort folds (pre ++ gbBatch env cfgOf k order closest rows splits bias ors :: post))
          (trialsOf pre + t) f split kind =
        storeStats sort (column ((match split with | .train => (splits f).1 | .valid => (splits f).2).map (fun s =>
          (env.err (modelOut env R.bias R.ws) s, env.loss (modelOut env R.bias R.ws) s))) kind) := by
  obtain ⟨_, _, htv, hvv⟩ := kept_model_reproduces_optimum_row (cfgOf t) env (hs t) hm (splits f).1 (splits f).2 (rows t)
    (bias t f) (ors t f)
  refine ⟨_, (reported_stats_are_stats_of_recomputed sort folds pre _ post hsch t f ht hf .train .errors).2, ?_⟩
  intro split kind
  rw [(reported_stats_are_stats_of_recomputed sort folds pre _ post hsch t f ht hf split kind).1]
  cases split
  · show storeStats sort (column (fitFold (cfgOf t) env (splits f).1 (splits f).2 (rows t) (bias t f) (ors t f)).trainValues kind) = _
    rw [htv]; rfl
  · show storeStats sort (column (fitFold (cfgOf t) env (splits f).1 (splits f).2 (rows t) (bias t f) (ors t f)).validValues kind) = _
    rw [hvv]; rfl

end NanoVerif.BoostFit

/-! ## the two `fit()` functions end to end (`Model/BoostFitTop.lean`) -/
namespace NanoVerif.BoostFit
open NanoVerif.Tune NanoVerif.Stats NanoVerif.MLResult NanoVerif.Boost

set_option linter.unusedSectionVars false

variable {W X S P M α : Type} [Field α] [LinearOrder α] [IsStrictOrderedRing α] [FloorI α] [HasSqrt α]

/-- **`gboost_model_t::fit` end to end**, for every history of tuner batches and pool schedules, every oracle behaviour inside the
    fold fits (they only enter through the stored `extra`s), `folds ≥ 1`, the optimum trial being one of the trials (`hopt`: C13
    `optimum_is_argmin` when at least one trial has a value): (1) what an earlier `fit()` left in the object is irrelevant; (2) every
    fold of the optimum trial has a stored model; (3) **the final model predicts, on every cell, the average of the stored per-fold
    models of the optimum trial**; (4) the final statistics are `storeStats` of `loss.error` / `loss.value` of the final model's own
    predictions on the samples `fit` was given; no model data is stored with them and the tuned part is untouched. -/
theorem gboost_fit_end_to_end (sort : List α → List α) (env : BoostFit.Env W X S α) (hsl : ScaleLaw env) (hm : MergeLaw env)
    (top dflt : α) (folds : Nat) (hfolds : 0 < folds) (bs : List (Batch (FoldResult W X α) α)) (hs : Scheduled folds bs)
    (hopt : optimumOf top dflt (runTune sort folds bs) < trialsOf bs) (samples : List S) (prev prev' : GModel W X α) :
    gboostFit sort env top dflt 0 (1 / (folds : α)) folds bs samples prev =
      gboostFit sort env top dflt 0 (1 / (folds : α)) folds bs samples prev' ∧
    (∀ f, f < folds → (extraOf (runTune sort folds bs) (optimumOf top dflt (runTune sort folds bs)) f).isSome) ∧
    (∀ c : X, modelOut env (gboostFit sort env top dflt 0 (1 / (folds : α)) folds bs samples prev).1.bias
        (gboostFit sort env top dflt 0 (1 / (folds : α)) folds bs samples prev).1.ws c =
      ((List.range folds).map (fun f =>
        match extraOf (runTune sort folds bs) (optimumOf top dflt (runTune sort folds bs)) f with
        | some R => modelOut env R.bias R.ws c
        | none => 0)).sum / (folds : α)) ∧
    (∀ kind : Kind, (gboostFit sort env top dflt 0 (1 / (folds : α)) folds bs samples prev).2.stats kind =
      storeStats sort (column (samples.map (fun s =>
        (env.err (modelOut env (gboostFit sort env top dflt 0 (1 / (folds : α)) folds bs samples prev).1.bias
            (gboostFit sort env top dflt 0 (1 / (folds : α)) folds bs samples prev).1.ws) s,
         env.loss (modelOut env (gboostFit sort env top dflt 0 (1 / (folds : α)) folds bs samples prev).1.bias
            (gboostFit sort env top dflt 0 (1 / (folds : α)) folds bs samples prev).1.ws) s))) kind)) ∧
    (gboostFit sort env top dflt 0 (1 / (folds : α)) folds bs samples prev).2.extra = none ∧
    (gboostFit sort env top dflt 0 (1 / (folds : α)) folds bs samples prev).2.tuned = runTune sort folds bs := by
  generalize hr : runTune sort folds bs = r at hopt
  generalize ho : optimumOf top dflt r = opt at hopt
  have hset : ∀ f, f < folds → ∃ p, r.get? opt f = some p := by
    intro f hf; rw [← hr]; exact all_slots_set sort folds bs hs opt f hopt hf
  refine ⟨rfl, ?_, ?_, ?_, rfl, ?_⟩
  · intro f hf
    obtain ⟨p, hp⟩ := hset f hf
    unfold extraOf; rw [hp]; rfl
  · intro c
    have hfm : foldModels r opt folds = (List.range folds).map (fun f =>
        ((extraOf r opt f).map (fun R => ({ bias := R.bias, ws := R.ws } : GModel W X α))).getD ⟨fun _ => 0, []⟩) := by
      unfold foldModels
      apply filterMap_all_some
      intro f hf
      obtain ⟨p, hp⟩ := hset f (List.mem_range.mp hf)
      exact ⟨_, by unfold extraOf; rw [hp]; rfl⟩
    have hlen : (foldModels r opt folds).length = folds := by rw [hfm]; simp
    have hne : foldModels r opt folds ≠ [] := by
      intro h; rw [h] at hlen; simp at hlen; omega
    have hmean := finalize_mean env hsl hm prev (foldModels r opt folds) hne c
    rw [hlen] at hmean
    show modelOut env (finalize env 0 (1 / (folds : α)) prev (foldModels (runTune sort folds bs) (optimumOf top dflt (runTune sort folds bs)) folds)).bias
      (finalize env 0 (1 / (folds : α)) prev (foldModels (runTune sort folds bs) (optimumOf top dflt (runTune sort folds bs)) folds)).ws c = _
    rw [hr, ho, hmean, hfm, List.map_map]
    congr 1
    congr 1
    apply List.map_congr_left
    intro f _
    dsimp only [Function.comp_apply]
    cases he : extraOf r opt f with
    | some R => rfl
    | none => simp [modelOut, predict]
  · intro kind
    cases kind <;> rfl
  · show runTune sort folds bs = r
    exact hr

/-- **`linear_t::fit` end to end**: the final statistics are `storeStats` of `linear::evaluate` of the model fitted cold on all given
    samples with the parameters of the optimum trial; that model is the one the object keeps and the one stored as `extra()`;
    the per-trial / per-fold part is the tuning run; the previous state of the object is irrelevant -/
theorem linear_fit_end_to_end (sort : List α → List α) (env : LinearFit.Env P M S α) (top dflt : α) (folds : Nat)
    (bs : List (Batch M α)) (rowOf : Nat → P) (samples : List S) (prev prev' : LinearFit.Obj M) (kind : Kind) :
    linearFit sort env top dflt folds bs rowOf samples prev = linearFit sort env top dflt folds bs rowOf samples prev' ∧
    (linearFit sort env top dflt folds bs rowOf samples prev).2.stats kind =
      storeStats sort (column (samples.map (env.evalOn
        (env.solve (rowOf (optimumOf top dflt (runTune sort folds bs))) samples none))) kind) ∧
    (linearFit sort env top dflt folds bs rowOf samples prev).1.model =
      some (env.solve (rowOf (optimumOf top dflt (runTune sort folds bs))) samples none) ∧
    (linearFit sort env top dflt folds bs rowOf samples prev).2.extra =
      some (env.solve (rowOf (optimumOf top dflt (runTune sort folds bs))) samples none) ∧
    (linearFit sort env top dflt folds bs rowOf samples prev).2.tuned = runTune sort folds bs := by
  cases kind <;> exact ⟨rfl, rfl, rfl, rfl, rfl⟩

end NanoVerif.BoostFit

/-! ## non-vacuity of the data-flow theorems, and the necessity of the scale law (ℚ; one cell, one sample; target 3, error = loss
    = squared distance; a learner is the constant it predicts; `local` shrinkage over the grid {1/2, 1}) -/
namespace NanoVerif.BoostFit.Examples
open NanoVerif.BoostFit NanoVerif.Boost NanoVerif.Tune NanoVerif.MLResult

def cfgEx : Cfg ℚ :=
  { eps := 1/4, pat := 2, maxRounds := 5, shrinkage := .local_, subsample := .off, wscale := .gboost, vmax := 1000, noFit := 100,
    epsMach := 1/1000, zero := 0, one := 1, ofNat := fun n => (n : ℚ), grid := [1/2, 1] }

/-- `scale` multiplies the constant: the scale law holds -/
def envEx : Env ℚ Unit Unit ℚ :=
  { pred := fun w _ => w, scaleW := fun sc w => w * sc.headD 1, merge := id, groups := fun _ => 1,
    err := fun out _ => (out () - 3) * (out () - 3), loss := fun out _ => (out () - 3) * (out () - 3) }

/-- the seeded change: the ratio is not applied to the stored learner -/
def envBad : Env ℚ Unit Unit ℚ := { envEx with scaleW := fun _ w => w }

def orsEx : List (RoundOr ℚ Unit ℚ) :=
  [{ fitSamples := [], cands := [(1, 2)], x := [1], xmin := 1 }, { fitSamples := [], cands := [(5, 9), (1, 4)], x := [1], xmin := 1 }]

example : ScaleLaw envEx := by intro c w x; simp [envEx]
example : MergeLaw envEx := by intro ws x; rfl
/-- round 1 adds the learner 2 with the tuned ratio 1, round 2 the learner 4 with the tuned ratio 1/2 (stored as 2): the tracked
    prediction 4 is bias 0 + 2 + 2 -/
example : (fitRun cfgEx envEx [()] [()] [] (fun _ => 0) orsEx).ws = [2, 2] ∧
    (fitRun cfgEx envEx [()] [()] [] (fun _ => 0) orsEx).out () = 4 ∧
    modelOut envEx (fun _ => 0) (fitRun cfgEx envEx [()] [()] [] (fun _ => 0) orsEx).ws () = 4 ∧
    (fitRun cfgEx envEx [()] [()] [] (fun _ => 0) orsEx).ratio = 1/2 ∧
    (fitRun cfgEx envEx [()] [()] [] (fun _ => 0) orsEx).es.round = 1 := by decide +kernel
/-- the fold keeps one learner and two statistics rows: the second is the row of the kept model (error 1) -/
example : (fitFold cfgEx envEx [()] [()] [] (fun _ => 0) orsEx).ws = [2] ∧
    (fitFold cfgEx envEx [()] [()] [] (fun _ => 0) orsEx).rows.map (·.validErr) = [9, 1] ∧
    (fitFold cfgEx envEx [()] [()] [] (fun _ => 0) orsEx).validValues = [(1, 1)] := by decide +kernel
/-- **the scale law is necessary** in `local` mode: with a `scale` that does not multiply the prediction (and nothing else
    changed) the tracked prediction is 4 while the stored model predicts 0 + 2 + 4 = 6 -/
example : ¬ ScaleLaw envBad := by
  intro h; have := h (1/2) 4 (); simp [envBad, envEx] at this
example : (fitRun cfgEx envBad [()] [()] [] (fun _ => 0) orsEx).out () = 4 ∧
    modelOut envBad (fun _ => 0) (fitRun cfgEx envBad [()] [()] [] (fun _ => 0) orsEx).ws () = 6 := by decide +kernel
/-- without `local` shrinkage no law is needed: the same bad `scale`, shrinkage off, and the invariant holds -/
example : (fitRun { cfgEx with shrinkage := .off } envBad [()] [()] [] (fun _ => 0) orsEx).out () =
    modelOut envBad (fun _ => 0) (fitRun { cfgEx with shrinkage := .off } envBad [()] [()] [] (fun _ => 0) orsEx).ws () := by
  decide +kernel
/-- as coded (model.cpp:178 reads the mutable `shrinkage_ratio`): in `local` mode the ratio tuned in round `k − 1` also multiplies
    the solver's scale of round `k` — the learner −4 of round 2 is stored as −4 · (1 · 1/2) · 1/2 = −1, round 1 having tuned 1/2 -/
example : (fitRun cfgEx envEx [()] [()] [] (fun _ => 0)
    [{ fitSamples := [], cands := [(1, 8)], x := [1], xmin := 1 }, { fitSamples := [], cands := [(1, -4)], x := [1], xmin := 1 }]).ws
      = [4, -1] := by decide +kernel
/-- `tune_shrinkage` on the second round: grid values 1 (at 1/2) and 9 (at 1): the first smallest -/
example : tuneShrinkage cfgEx envEx [()] (fun _ => 2) (fun _ => 4) = 1/2 := by decide +kernel
/-- the final model of two such folds predicts their mean -/
example : modelOut envEx (finalize envEx 0 (1/2) ⟨fun _ => 7, [5]⟩ [⟨fun _ => 0, [2]⟩, ⟨fun _ => 1, [2, 2]⟩]).bias
    (finalize envEx 0 (1/2) ⟨fun _ => 7, [5]⟩ [⟨fun _ => 0, [2]⟩, ⟨fun _ => 1, [2, 2]⟩]).ws () = 7/2 := by decide +kernel
/-- a schedule: one batch of two trials on two folds, run in the order 3, 0, 2, 1 -/
example (fit : Nat → Nat → Option Nat → FoldFit Nat ℚ) : Scheduled 2 [(⟨2, [3, 0, 2, 1], id, fit⟩ : Batch Nat ℚ)] := by
  intro b hb
  have : b = ⟨2, [3, 0, 2, 1], id, fit⟩ := by simpa using hb
  subst this
  show List.Perm [3, 0, 2, 1] (List.range (2 * 2))
  decide

end NanoVerif.BoostFit.Examples
