import NanoVerif.Proofs.EarlyStopping
import NanoVerif.Proofs.Boost
import Mathlib.Data.List.Induction
import Mathlib.Tactic.FieldSimp
import Mathlib.Tactic.NormNum
/-!
  C11 — property theorems: the early-stopping monitor (`early_stopping_t::done`, regenerated from the source into
  `Gen/EarlyStopping.lean`) over every history of calls, and the bookkeeping of the boosting round loop / the fold
  averaging (`Model/Boost.lean`).

  All theorems are over an arbitrary ordered field `α`, every ε (positivity is assumed only where stated), every
  patience, every history `h : List (Call α)` — a call carries the mean training error, the mean validation error, the
  number of weak learners `n`, the number of validation samples and a name `idx` for its per-sample tensor.
  `Improves eps best c` is the specification of "accepted" (see `Model/EarlyStopping.lean`).
  The initial `m_value = DBL_MAX` enters as the hypothesis `c.valid < v0 - eps` on observed validation errors.
-/
namespace NanoVerif.EarlyStopping
open NanoVerif.Gen.EarlyStopping

set_option linter.unusedSectionVars false

variable {α : Type} [Field α] [LinearOrder α] [IsStrictOrderedRing α]

/-- `done` answers true at the call `c` following the history `pre` ⇔ the training error is below ε, or the call is not
    accepted and the number of learners reached `round + patience` (round = the recorded one). -/
theorem es_stop_iff (eps : α) (pat : Nat) (s0 : State α) (pre : List (Call α)) (c : Call α) :
    (answers eps pat s0 (pre ++ [c])).getLast? = some true ↔
      (c.train < eps ∨ (¬ Improves eps (stateAfter eps pat s0 pre).value c ∧ (stateAfter eps pat s0 pre).round + pat ≤ c.n)) := by
  rw [answers_append]
  simp only [answers, List.getLast?_append, List.getLast?_singleton, Option.some_or, Option.some.injEq]
  exact done_stop_iff eps pat _ c

/-- The full invariant. After any history, either nothing was ever accepted (the state is still the initial one and
    no call improved on it), or the state records exactly one call `c` of the history — its learner count, its
    validation error, its per-sample tensor — that call was accepted when it was made, **and no later call had a
    training error below ε, lacked validation samples, or improved on the recorded validation error by more than ε**. -/
theorem es_no_missed_improvement (eps : α) (pat : Nat) (s0 : State α) (h : List (Call α)) :
    (stateAfter eps pat s0 h = s0 ∧ ∀ c ∈ h, ¬ Improves eps s0.value c) ∨
    (∃ pre c post, h = pre ++ c :: post ∧ Improves eps (stateAfter eps pat s0 pre).value c ∧
        stateAfter eps pat s0 h = record c ∧ ∀ d ∈ post, ¬ Improves eps c.valid d) := by
  induction h using List.reverseRecOn with
  | nil => exact Or.inl ⟨rfl, by simp⟩
  | append_singleton h d ih =>
    rw [stateAfter_snoc]
    rcases done_state_cases eps pat (stateAfter eps pat s0 h) d with ⟨hs, hni⟩ | ⟨hs, hi⟩
    · -- not accepted: the state stays
      rw [hs]
      rcases ih with ⟨h0, hall⟩ | ⟨pre, c, post, rfl, hacc, hst, hpost⟩
      · left
        refine ⟨h0, ?_⟩
        intro c hc
        rcases List.mem_append.mp hc with hc | hc
        · exact hall c hc
        · have : c = d := by simpa using hc
          subst this; rw [h0] at hni; exact hni
      · right
        refine ⟨pre, c, post ++ [d], by simp, hacc, hst, ?_⟩
        intro e he
        rcases List.mem_append.mp he with he | he
        · exact hpost e he
        · have : e = d := by simpa using he
          subst this; rw [hst] at hni; exact hni
    · -- accepted: the state records d
      right
      exact ⟨h, d, [], rfl, hi, hs, by simp⟩

/-- the stored round / value / per-sample snapshot are those of a call of the history that was accepted when made
    (stated with the `DBL_MAX` hypothesis: every observed validation error is below `v0 - ε`) -/
theorem es_snapshot_is_accepted (eps : α) (pat : Nat) (v0 : α) (h : List (Call α)) (hne : h ≠ [])
    (hv : ∀ c ∈ h, c.valid < v0 - eps) :
    ∃ pre c post, h = pre ++ c :: post ∧ Improves eps (stateAfter eps pat (init v0) pre).value c ∧
      stateAfter eps pat (init v0) h = record c := by
  rcases es_no_missed_improvement eps pat (init v0) h with ⟨_, hall⟩ | ⟨pre, c, post, e, hacc, hst, _⟩
  · obtain ⟨c, hc⟩ := List.exists_mem_of_ne_nil h hne
    exact absurd (Or.inr (Or.inl (hv c hc))) (hall c hc)
  · exact ⟨pre, c, post, e, hacc, hst⟩

/-- the first call of a fresh monitor is accepted whenever its validation error is below `v0 - ε` (`v0 = DBL_MAX`) -/
theorem es_first_call_accepted (eps : α) (pat : Nat) (v0 : α) (c : Call α) (hv : c.valid < v0 - eps) :
    (done eps pat (init v0) c).1 = record c :=
  done_state_of_improves eps pat (init v0) c (Or.inr (Or.inl hv))

/-- one call: the state is unchanged, or the call had a training error below ε, or no validation samples, or the
    stored validation error dropped by more than ε -/
theorem es_strict_improvement (eps : α) (pat : Nat) (s0 : State α) (pre : List (Call α)) (c : Call α) :
    stateAfter eps pat s0 (pre ++ [c]) = stateAfter eps pat s0 pre ∨ c.train < eps ∨ c.nvalid = 0 ∨
      (stateAfter eps pat s0 (pre ++ [c])).value < (stateAfter eps pat s0 pre).value - eps := by
  rw [stateAfter_snoc]
  rcases done_state_cases eps pat (stateAfter eps pat s0 pre) c with ⟨hs, _⟩ | ⟨hs, hi⟩
  · exact Or.inl hs
  · rcases hi with h1 | h2 | h3
    · exact Or.inr (Or.inl h1)
    · right; right; right; rw [hs]; exact h2
    · exact Or.inr (Or.inr (Or.inl h3))

/-- over any stretch of calls with validation samples and training error ≥ ε (pure validation monitoring), ε > 0: the
    state is unchanged or the stored validation error dropped by more than ε — successive accepted values decrease -/
theorem es_value_decreases (eps : α) (heps : 0 < eps) (pat : Nat) (s : State α) (post : List (Call α))
    (hp : ∀ d ∈ post, ¬ d.train < eps ∧ d.nvalid ≠ 0) :
    stateAfter eps pat s post = s ∨ (stateAfter eps pat s post).value < s.value - eps := by
  induction post using List.reverseRecOn with
  | nil => exact Or.inl rfl
  | append_singleton l d ih =>
    have ih' := ih (fun e he => hp e (List.mem_append.mpr (Or.inl he)))
    have hd := hp d (by simp)
    rcases es_strict_improvement eps pat s l d with h | h | h | h
    · rw [h]; exact ih'
    · exact absurd h hd.1
    · exact absurd h hd.2
    · rcases ih' with e | e
      · rw [e] at h; exact Or.inr h
      · right; linarith

/-- with learner counts that never decrease along the history (and start at or above the initial round, 0), the
    recorded round never exceeds the current number of learners: `result.done(round)` erases inside the vector -/
theorem es_round_le_learners (eps : α) (pat : Nat) (s0 : State α) (h : List (Call α)) (c : Call α)
    (hmono : List.Pairwise (fun a b : Call α => a.n ≤ b.n) (h ++ [c])) (h0 : s0.round ≤ c.n) :
    (stateAfter eps pat s0 (h ++ [c])).round ≤ c.n := by
  rcases es_no_missed_improvement eps pat s0 (h ++ [c]) with ⟨hs, _⟩ | ⟨pre, d, post, e, _, hst, _⟩
  · rw [hs]; exact h0
  · rw [hst]
    show d.n ≤ c.n
    rcases List.eq_nil_or_concat post with hp | ⟨post', x, hp⟩
    · subst hp
      have : pre ++ [d] = h ++ [c] := e.symm
      have := List.append_inj' this rfl
      have hdc : d = c := by simpa using this.2
      rw [hdc]
    · subst hp
      have e' : h ++ [c] = (pre ++ d :: post') ++ [x] := by rw [e]; simp
      have := List.append_inj' e' rfl
      have hx : c = x := by simpa using this.2
      rw [e] at hmono
      have hp2 := (List.pairwise_append.mp hmono).2.1
      have := (List.pairwise_cons.mp hp2).1 x (by simp)
      rw [hx]; exact this

/-- without validation samples the monitor never stops for lack of improvement: a `true` means training error < ε -/
theorem no_valid_never_patience_stops (eps : α) (pat : Nat) (s0 : State α) (pre : List (Call α)) (c : Call α)
    (hnv : c.nvalid = 0) (h : (answers eps pat s0 (pre ++ [c])).getLast? = some true) : c.train < eps := by
  rcases (es_stop_iff eps pat s0 pre c).mp h with h1 | ⟨h2, _⟩
  · exact h1
  · exact absurd (Or.inr (Or.inr hnv)) h2

/-- a training error below ε always stops, and that call is the recorded one -/
theorem es_train_stops (eps : α) (pat : Nat) (s0 : State α) (pre : List (Call α)) (c : Call α) (ht : c.train < eps) :
    (answers eps pat s0 (pre ++ [c])).getLast? = some true ∧ stateAfter eps pat s0 (pre ++ [c]) = record c := by
  refine ⟨(es_stop_iff eps pat s0 pre c).mpr (Or.inl ht), ?_⟩
  rw [stateAfter_snoc]
  exact done_state_of_improves eps pat _ c (Or.inl ht)

/-- The fit loop (`n_k = k`), patience ≥ 1, observed validation errors below `v0 - ε`: if the calls `h` all answered
    false and the next call `d` answers true although its training error is not below ε, then the recorded call `c` is
    followed by **exactly `patience`** calls (the last one being `d`), none of which was accepted — the monitor stops at
    the first call that is `patience` rounds past the snapshot, and reports the snapshot's round `c.n = |pre|`. -/
theorem es_patience_rounds (eps : α) (pat : Nat) (hpat : 1 ≤ pat) (v0 : α) (h : List (Call α)) (d : Call α)
    (hnum : FitNumbered (h ++ [d])) (hv : ∀ c ∈ h ++ [d], c.valid < v0 - eps)
    (hfalse : ∀ b ∈ answers eps pat (init v0) h, b = false)
    (htrue : (done eps pat (stateAfter eps pat (init v0) h) d).2 = true) (hd : ¬ d.train < eps) :
    ∃ pre c post, h = pre ++ c :: post ∧ Improves eps (stateAfter eps pat (init v0) pre).value c ∧
      stateAfter eps pat (init v0) (h ++ [d]) = record c ∧ c.n = pre.length ∧
      (∀ e ∈ post ++ [d], ¬ Improves eps c.valid e) ∧ (post ++ [d]).length = pat := by
  have hstop := (done_stop_iff eps pat _ d).mp htrue
  rcases hstop with h1 | ⟨hni, hle⟩
  · exact absurd h1 hd
  rcases es_no_missed_improvement eps pat (init v0) h with ⟨hs, hall⟩ | ⟨pre, c, post, e, hacc, hst, hpost⟩
  · -- nothing accepted so far: impossible under the DBL_MAX hypothesis
    rw [hs] at hni
    exact absurd (Or.inr (Or.inl (hv d (by simp)))) hni
  · have hcn : c.n = pre.length := hnum pre c (post ++ [d]) (by rw [e]; simp)
    have hdn : d.n = h.length := hnum h d [] rfl
    rw [hst] at hni hle
    have hlen : h.length = pre.length + 1 + post.length := by rw [e]; simp; omega
    have hsd : stateAfter eps pat (init v0) (h ++ [d]) = record c := by
      rw [stateAfter_snoc, hst]; exact done_state_of_not_improves eps pat _ d hni
    refine ⟨pre, c, post, e, hacc, hsd, hcn, ?_, ?_⟩
    · intro x hx
      rcases List.mem_append.mp hx with hx | hx
      · exact hpost x hx
      · have : x = d := by simpa using hx
        subst this; exact hni
    · -- lower bound from the stop at d, upper bound from the `false` of the call before d
      have hlow : pat ≤ post.length + 1 := by
        have : (record c).round = c.n := rfl
        rw [this, hcn, hdn, hlen] at hle; omega
      have hup : post.length + 1 ≤ pat := by
        rcases List.eq_nil_or_concat post with hp | ⟨post', x, hp⟩
        · subst hp; simpa using hpat
        · subst hp
          -- the state before x is still `record c`
          have hpre : stateAfter eps pat (init v0) (pre ++ [c]) = record c := by
            rw [stateAfter_snoc]; exact done_state_of_improves eps pat _ c hacc
          have hbx : stateAfter eps pat (init v0) (pre ++ c :: post') = record c := by
            have : pre ++ c :: post' = (pre ++ [c]) ++ post' := by simp
            rw [this, stateAfter_append, hpre]
            exact stateAfter_of_no_improve eps pat _ post' (fun y hy => hpost y (by simp [hy]))
          have hxn : x.n = pre.length + 1 + post'.length := by
            have := hnum (pre ++ c :: post') x [d] (by rw [e]; simp)
            rw [this]; simp; omega
          have hxa : (done eps pat (record c) x).2 = false := by
            apply hfalse
            have : h = (pre ++ c :: post') ++ [x] := by rw [e]; simp
            rw [this, answers_append, hbx]
            simp [answers]
          have hxni : ¬ Improves eps (record c).value x := hpost x (by simp)
          have : ¬ ((record c).round + pat ≤ x.n) := by
            intro hle'
            have := (done_stop_iff eps pat (record c) x).mpr (Or.inr ⟨hxni, hle'⟩)
            rw [hxa] at this; exact absurd this (by simp)
          have hr : (record c).round = c.n := rfl
          rw [hr, hcn, hxn] at this
          simp; omega
      simp; omega

/-- Converse: from a state recording round `r`, calls that do not improve on the stored value and see `r+1, r+2, …`
    learners are answered `false` as long as fewer than `patience` of them were made and `true` from the `patience`-th
    on — the monitor does not stop early and does not stop late. -/
theorem es_patience_rounds_conv (eps : α) (pat : Nat) (s : State α) (l : List (Call α))
    (hni : ∀ e ∈ l, ¬ Improves eps s.value e)
    (hnum : ∀ pre e post, l = pre ++ e :: post → e.n = s.round + pre.length + 1)
    (pre : List (Call α)) (e : Call α) (post : List (Call α)) (hl : l = pre ++ e :: post) :
    ((done eps pat (stateAfter eps pat s pre) e).2 = true ↔ pat ≤ pre.length + 1) := by
  have hpre : stateAfter eps pat s pre = s :=
    stateAfter_of_no_improve eps pat s pre (fun y hy => hni y (by rw [hl]; simp [hy]))
  have he : ¬ Improves eps s.value e := hni e (by rw [hl]; simp)
  have hn := hnum pre e post hl
  rw [hpre, done_stop_iff]
  constructor
  · rintro (h1 | ⟨_, h2⟩)
    · exact absurd (Or.inl h1) he
    · omega
  · intro h; exact Or.inr ⟨he, by omega⟩

/-! ### non-vacuity (ℚ, ε = 1/4, patience 2): an accepted, a rejected, a too-small and an exactly-ε improvement -/

def mk (t v : ℚ) (n : Nat) : Call ℚ := { train := t, valid := v, n := n, ntrain := 1, nvalid := 1, idx := n + 1 }

/-- history: 1, 1/2 (accepted), 1/4 (improvement of exactly ε: rejected), 3/8 (rejected; patience reached → stop) -/
def ex1 : List (Call ℚ) := [mk 1 1 0, mk 1 (1/2) 1, mk 1 (1/4) 2, mk 1 (3/8) 3]

example : answers (1/4 : ℚ) 2 (init 1000) ex1 = [false, false, false, true] := by decide +kernel
example : (stateAfter (1/4 : ℚ) 2 (init 1000) ex1).round = 1 ∧ (stateAfter (1/4 : ℚ) 2 (init 1000) ex1).value = 1/2 ∧
    (stateAfter (1/4 : ℚ) 2 (init 1000) ex1).snap = 2 := by decide +kernel
example : FitNumbered ex1 := by
  intro pre c post h
  match pre, h with
  | [], h => simp [ex1] at h; rw [← h.1]; rfl
  | [_], h => simp [ex1] at h; rw [← h.2.1]; rfl
  | [_, _], h => simp [ex1] at h; rw [← h.2.2.1]; rfl
  | [_, _, _], h => simp [ex1] at h; rw [← h.2.2.2.1]; rfl
  | _ :: _ :: _ :: _ :: _ :: _, h => simp [ex1] at h
example : Improves (1/4 : ℚ) 1 (mk 1 (1/2) 1) ∧ ¬ Improves (1/4 : ℚ) (1/2) (mk 1 (1/4) 2) := by
  unfold Improves mk; norm_num
/-- training error below ε stops at once and records the call -/
example : answers (1/4 : ℚ) 2 (init 1000) [mk 1 1 0, mk (1/8) 2 1] = [false, true] ∧
    (stateAfter (1/4 : ℚ) 2 (init 1000) [mk 1 1 0, mk (1/8) 2 1]).round = 1 := by decide +kernel
/-- without validation samples: never stops, always records the last call -/
example : answers (1/4 : ℚ) 1 (init 1000)
      [{ train := 1, valid := 0, n := 0, ntrain := 1, nvalid := 0, idx := 1 },
       { train := 1, valid := 0, n := 1, ntrain := 1, nvalid := 0, idx := 2 },
       { train := 1, valid := 0, n := 2, ntrain := 1, nvalid := 0, idx := 3 }] = [false, false, false] := by decide +kernel

end NanoVerif.EarlyStopping

namespace NanoVerif.Boost
open NanoVerif.Gen.EarlyStopping NanoVerif.EarlyStopping

set_option linter.unusedSectionVars false

variable {L X α : Type} [Field α] [LinearOrder α] [IsStrictOrderedRing α]

/-- for every behaviour of the iterations (any learners, any errors, no-learner and scaling-failure exits, any
    `max_rounds`): when the loop is left, the recorded round is at most the number of learners appended so far, so
    `erase(begin() + round, end())` stays inside the vector -/
theorem fold_round_le_learners (eps : α) (pat ntrain nvalid maxRounds : Nat) (vmax train0 valid0 : α)
    (evs : List (RoundEv L α)) :
    (fitLoop eps pat ntrain nvalid maxRounds vmax train0 valid0 evs).es.round ≤
      (fitLoop eps pat ntrain nvalid maxRounds vmax train0 valid0 evs).learners.length :=
  (fitLoop_inv eps pat ntrain nvalid maxRounds vmax train0 valid0 evs).1

/-- `result.done(optimum.round())` keeps **exactly** the first `round` of the learners the iterations appended (also
    when the loop was left through the scaling-failure branch, whose learner is appended without a `done` call) -/
theorem fold_keeps_round_learners (eps : α) (pat ntrain nvalid maxRounds : Nat) (vmax train0 valid0 : α)
    (evs : List (RoundEv L α)) :
    (fit eps pat ntrain nvalid maxRounds vmax train0 valid0 evs).1.length =
        (fit eps pat ntrain nvalid maxRounds vmax train0 valid0 evs).2.round ∧
    (fit eps pat ntrain nvalid maxRounds vmax train0 valid0 evs).1 =
        (learnersOf (evs.take maxRounds)).take (fit eps pat ntrain nvalid maxRounds vmax train0 valid0 evs).2.round := by
  obtain ⟨hle, ⟨k, hk⟩, _⟩ := fitLoop_inv eps pat ntrain nvalid maxRounds vmax train0 valid0 evs
  unfold fit
  dsimp only
  refine ⟨by rw [List.length_take]; omega, ?_⟩
  rw [hk] at hle ⊢
  rw [List.take_take]
  congr 1
  rw [List.length_take] at hle
  omega

/-- (first call accepted, i.e. `valid0 < DBL_MAX - ε`) the per-sample values the monitor hands back are those of the
    call made when exactly `round` learners were present — the statistics reported for the fold are those of the model
    that is kept -/
theorem fold_model_is_snapshot_model (eps : α) (pat ntrain nvalid maxRounds : Nat) (vmax train0 valid0 : α)
    (evs : List (RoundEv L α)) (hv : valid0 < vmax - eps) :
    (fit eps pat ntrain nvalid maxRounds vmax train0 valid0 evs).2.snap =
      (fit (L := L) eps pat ntrain nvalid maxRounds vmax train0 valid0 evs).2.round + 1 :=
  (fitLoop_inv eps pat ntrain nvalid maxRounds vmax train0 valid0 evs).2.2 hv

/-! ### the loop and the monitor: every history the loop can produce -/

/-- For every behaviour of the iterations: the monitor with which `::fit` reaches `result.done` is a fresh monitor driven
    over the calls the fit made (`fitCalls`: the one on the bias-only model, then one per regular round); these calls are
    numbered like the histories of `es_patience_rounds` (the `k`-th call sees `k` learners), and every call but the last
    one answered `false` — so all the theorems about histories apply to the loop. -/
theorem fit_monitor_history (eps : α) (pat ntrain nvalid maxRounds : Nat) (vmax train0 valid0 : α)
    (evs : List (RoundEv L α)) :
    (fit eps pat ntrain nvalid maxRounds vmax train0 valid0 evs).2 =
      stateAfter eps pat (init vmax) (fitCalls eps pat ntrain nvalid maxRounds vmax train0 valid0 evs) ∧
    FitNumbered (fitCalls eps pat ntrain nvalid maxRounds vmax train0 valid0 evs) ∧
    (∀ pre c post, fitCalls eps pat ntrain nvalid maxRounds vmax train0 valid0 evs = pre ++ c :: post → post ≠ [] →
      (answers eps pat (init vmax) (pre ++ [c])).getLast? = some false) := by
  obtain ⟨h1, h2⟩ := fitLoop_calls eps pat ntrain nvalid maxRounds vmax train0 valid0 evs
  refine ⟨h1, fun pre c post e => (h2 pre c post e).1, ?_⟩
  intro pre c post e hne
  rw [answers_append]
  simp only [answers, List.getLast?_append, List.getLast?_singleton, Option.some_or, Option.some.injEq]
  exact (h2 pre c post e).2.2.2.2 hne

/-- **The number of learners the fold keeps is the round of the last accepted improvement** — for every history the loop
    can produce (first call accepted, i.e. `valid0 < DBL_MAX - ε`): the calls of the fit split as `pre ++ c :: post` where
    `c` was accepted when it was made, no call after `c` was accepted (training error below ε, no validation samples, or
    an improvement of more than ε on `c`'s validation error), the monitor reports exactly `c`, and the fold keeps exactly
    the first `|pre|` learners the iterations appended — `|pre|` being the number of learners `c` saw. -/
theorem fit_keeps_last_accepted (eps : α) (pat ntrain nvalid maxRounds : Nat) (vmax train0 valid0 : α)
    (evs : List (RoundEv L α)) (hv : valid0 < vmax - eps) :
    ∃ pre c post, fitCalls eps pat ntrain nvalid maxRounds vmax train0 valid0 evs = pre ++ c :: post ∧
      Improves eps (stateAfter eps pat (init vmax) pre).value c ∧ (∀ d ∈ post, ¬ Improves eps c.valid d) ∧
      (fit eps pat ntrain nvalid maxRounds vmax train0 valid0 evs).2 = record c ∧ c.n = pre.length ∧
      (fit eps pat ntrain nvalid maxRounds vmax train0 valid0 evs).1 = (learnersOf (evs.take maxRounds)).take pre.length ∧
      (fit eps pat ntrain nvalid maxRounds vmax train0 valid0 evs).1.length = pre.length := by
  obtain ⟨hst, hnum, _⟩ := fit_monitor_history eps pat ntrain nvalid maxRounds vmax train0 valid0 evs
  obtain ⟨hlen, hkept⟩ := fold_keeps_round_learners eps pat ntrain nvalid maxRounds vmax train0 valid0 evs
  rcases es_no_missed_improvement eps pat (init vmax) (fitCalls eps pat ntrain nvalid maxRounds vmax train0 valid0 evs) with
    ⟨_, hall⟩ | ⟨pre, c, post, e, hacc, hrec, hpost⟩
  · -- the call on the bias-only model improves on DBL_MAX
    exfalso
    refine hall { train := train0, valid := valid0, n := 0, ntrain := ntrain, nvalid := nvalid, idx := 1 } ?_
      (Or.inr (Or.inl hv))
    unfold fitCalls; simp
  · have hcn : c.n = pre.length := hnum pre c post e
    have hround : (fit eps pat ntrain nvalid maxRounds vmax train0 valid0 evs).2.round = pre.length := by
      rw [hst, hrec]; exact hcn
    refine ⟨pre, c, post, e, hacc, hpost, by rw [hst, hrec], hcn, ?_, ?_⟩
    · rw [hkept, hround]
    · rw [hlen, hround]

/-- The patience exit of the loop, patience ≥ 1, observed validation errors below `DBL_MAX - ε`: when the last call `d` of the
    fit answered `true` although its training error is not below ε, the reported call `c` is followed by **exactly
    `patience`** calls, none of them accepted, and the fold keeps the `|pre|` learners that `c` saw. -/
theorem fit_patience_stop (eps : α) (pat : Nat) (hpat : 1 ≤ pat) (ntrain nvalid maxRounds : Nat) (vmax train0 valid0 : α)
    (evs : List (RoundEv L α)) (h : List (Call α)) (d : Call α)
    (hcalls : fitCalls eps pat ntrain nvalid maxRounds vmax train0 valid0 evs = h ++ [d])
    (hv : ∀ c ∈ h ++ [d], c.valid < vmax - eps)
    (htrue : (done eps pat (stateAfter eps pat (init vmax) h) d).2 = true) (hd : ¬ d.train < eps) :
    ∃ pre c post, h = pre ++ c :: post ∧ Improves eps (stateAfter eps pat (init vmax) pre).value c ∧
      (fit eps pat ntrain nvalid maxRounds vmax train0 valid0 evs).2 = record c ∧
      (fit eps pat ntrain nvalid maxRounds vmax train0 valid0 evs).1.length = pre.length ∧
      (∀ e ∈ post ++ [d], ¬ Improves eps c.valid e) ∧ (post ++ [d]).length = pat := by
  obtain ⟨hst, hnum, hans⟩ := fit_monitor_history eps pat ntrain nvalid maxRounds vmax train0 valid0 evs
  obtain ⟨hlen, _⟩ := fold_keeps_round_learners eps pat ntrain nvalid maxRounds vmax train0 valid0 evs
  rw [hcalls] at hst hnum hans
  have hfalse : ∀ b ∈ answers eps pat (init vmax) h, b = false := by
    intro b hb
    obtain ⟨pre, c, post, e, hbc⟩ := mem_answers eps pat (init vmax) h b hb
    have := hans pre c (post ++ [d]) (by rw [e]; simp) (by simp)
    rw [answers_append] at this
    simp only [answers, List.getLast?_append, List.getLast?_singleton, Option.some_or, Option.some.injEq] at this
    rw [hbc]; exact this
  obtain ⟨pre, c, post, e, hacc, hrec, hcn, hpost, hcount⟩ :=
    es_patience_rounds eps pat hpat vmax h d hnum hv hfalse htrue hd
  refine ⟨pre, c, post, e, hacc, by rw [hst, hrec], ?_, hpost, hcount⟩
  rw [hlen, hst, hrec]; exact hcn

/-- the observation-driven fit (`fitObs`, what the differential run executes on the logged oracle answers) keeps exactly
    the first `round` learners of those its iterations appended, whatever was observed -/
theorem fitObs_keeps_round_learners (eps : α) (pat ntrain nvalid maxRounds : Nat) (vmax noFit epsMach train0 valid0 : α)
    (obs : List (RoundObs L α)) :
    (fitObs eps pat ntrain nvalid maxRounds vmax noFit epsMach train0 valid0 obs).1.length =
        (fitObs eps pat ntrain nvalid maxRounds vmax noFit epsMach train0 valid0 obs).2.round ∧
    (fitObs eps pat ntrain nvalid maxRounds vmax noFit epsMach train0 valid0 obs).1 =
        (learnersOf ((obs.map (roundEv noFit epsMach)).take maxRounds)).take
          (fitObs eps pat ntrain nvalid maxRounds vmax noFit epsMach train0 valid0 obs).2.round :=
  fold_keeps_round_learners eps pat ntrain nvalid maxRounds vmax train0 valid0 (obs.map (roundEv noFit epsMach))

/-- `loopTrace` (what the differential run prints iteration by iteration) is the loop with its intermediate states: the
    state after the last executed iteration is the loop's result, at most one iteration per event is executed, and only the
    last executed iteration can have left the loop -/
theorem loopTrace_is_loop (eps : α) (pat ntrain nvalid : Nat) (st : LoopSt L α) (evs : List (RoundEv L α)) :
    loop eps pat ntrain nvalid st evs = (((loopTrace eps pat ntrain nvalid st evs).getLast?).map (·.1)).getD st ∧
    (loopTrace eps pat ntrain nvalid st evs).length ≤ evs.length ∧
    (∀ pre r post, loopTrace eps pat ntrain nvalid st evs = pre ++ r :: post → post ≠ [] → r.2 = false) :=
  ⟨loop_eq_loopTrace_last eps pat ntrain nvalid evs st, loopTrace_flags eps pat ntrain nvalid evs st⟩

/-! ### the choice of the weak learner (`best_score` / `best_wlearner`, model.cpp:134-149) -/

/-- the loop is left for want of a learner ⇔ no prototype returned a score below `no_fit_score()` -/
theorem pickBest_none_iff (noFit : α) (cands : List (α × L)) :
    (pickBest noFit cands).2 = none ↔ ∀ c ∈ cands, ¬ c.1 < noFit := by
  unfold pickBest
  rcases pickBest_go cands noFit none with ⟨e, hall⟩ | ⟨pre, s, w, post, e1, e2, h1, _, _⟩
  · rw [e]; exact ⟨fun _ => hall, fun _ => rfl⟩
  · rw [e2]
    constructor
    · intro h; exact absurd h (by simp)
    · intro hall; exact absurd h1 (hall (s, w) (by rw [e1]; simp))

/-- the chosen learner is the **first** candidate with the **smallest** score, that score is below `no_fit_score()` and
    it is the reported `best_score` -/
theorem pickBest_first_min (noFit : α) (cands : List (α × L)) (w : L) (h : (pickBest noFit cands).2 = some w) :
    ∃ pre s post, cands = pre ++ (s, w) :: post ∧ (pickBest noFit cands).1 = s ∧ s < noFit ∧
      (∀ c ∈ pre, s < c.1) ∧ ∀ c ∈ post, s ≤ c.1 := by
  unfold pickBest at h ⊢
  rcases pickBest_go cands noFit none with ⟨e, _⟩ | ⟨pre, s, w', post, e1, e2, h1, h2, h3⟩
  · rw [e] at h; exact absurd h (by simp)
  · rw [e2] at h ⊢
    have hw : w' = w := by simpa using h
    subst hw
    exact ⟨pre, s, post, e1, rfl, h1, h2, h3⟩

/-- which branch an iteration takes, from what it observes: no learner ⇔ no score below `no_fit_score()`; otherwise the
    scaling-failure branch ⇔ `gstate.x().min() < numeric_limits::epsilon()`, with the first best candidate appended -/
theorem roundEv_spec (noFit epsMach : α) (o : RoundObs L α) :
    (roundEv noFit epsMach o = .noLearner ↔ ∀ c ∈ o.cands, ¬ c.1 < noFit) ∧
    (∀ w, roundEv noFit epsMach o = .scaleFail w ↔ ((pickBest noFit o.cands).2 = some w ∧ o.xmin < epsMach)) ∧
    (∀ w t v, roundEv noFit epsMach o = .fitted w t v ↔
      ((pickBest noFit o.cands).2 = some w ∧ ¬ o.xmin < epsMach ∧ t = o.train ∧ v = o.valid)) := by
  rw [← pickBest_none_iff]
  unfold roundEv
  cases hb : (pickBest noFit o.cands).2 with
  | none => simp
  | some w0 =>
    by_cases hx : o.xmin < epsMach
    · simp only [hx, if_true]
      refine ⟨by simp, fun w => ?_, fun w t v => by simp⟩
      constructor
      · intro h; injection h with h; exact ⟨by rw [h], trivial⟩
      · intro h; have : w0 = w := by simpa using h.1
        rw [this]
    · simp only [hx, if_false]
      refine ⟨by simp, fun w => by simp, fun w t v => ?_⟩
      constructor
      · intro h; injection h with h1 h2 h3; exact ⟨by rw [h1], not_false, h2.symm, h3.symm⟩
      · rintro ⟨h1, _, h2, h3⟩
        have : w0 = w := by simpa using h1
        rw [this, h2, h3]

/-- the boosting model's prediction is its bias plus the sum of its weak learners' predictions -/
theorem predict_append (bias : α) (ws : List (X → α)) (x : X) :
    predict bias ws x = bias + (ws.map (fun w => w x)).sum := predict_eq bias ws x

/-- the final model (biases summed and multiplied by `1/folds`, all fold learners concatenated and scaled by
    `1/folds`) predicts the average of the per-fold models, for any number of folds ≥ 1 and any learners -/
theorem averaged_model_predicts_mean (folds : List (α × List (X → α))) (hF : folds ≠ []) (x : X) :
    predict (averaged 0 (1 / (folds.length : α)) folds).1 (averaged 0 (1 / (folds.length : α)) folds).2 x =
      (folds.map (fun f => predict f.1 f.2 x)).sum / (folds.length : α) := by
  have hsum : (folds.map (fun f => f.1 + (f.2.map (fun w => w x)).sum)).sum =
      (folds.map (·.1)).sum + (folds.map (fun f => (f.2.map (fun w => w x)).sum)).sum := by
    clear hF
    induction folds with
    | nil => simp
    | cons f fs ih => simp only [List.map_cons, List.sum_cons, ih]; ring
  have hF' : (folds.length : α) ≠ 0 := by
    have : folds.length ≠ 0 := by simpa using hF
    exact_mod_cast this
  unfold averaged
  simp only [predict_eq]
  rw [sum_scale, sum_flatMap, foldl_bias_eq, hsum]
  field_simp
  ring

/-! ### non-vacuity: two fitted rounds, the second not accepted (exactly ε better), a third worse: patience 2 stops -/

example : (fit (L := Nat) (1/4 : ℚ) 2 1 1 100 1000 1 1
    [.fitted 10 1 (1/2), .fitted 11 1 (1/4), .fitted 12 1 (3/8), .fitted 13 1 0]).1 = [10] := by decide +kernel
/-- scaling failure after one accepted round: the failed learner is appended, then erased -/
example : (fit (L := Nat) (1/4 : ℚ) 2 1 1 100 1000 1 1 [.fitted 10 1 (1/2), .scaleFail 11, .fitted 12 1 0]).1 = [10] := by
  decide +kernel
/-- the same fit from observations: round 0 has two prototypes (scores 5 and 3: the second is chosen), round 1 ties (the
    first is chosen), round 2 fails the scaling (`x.min() = 0`), no score below `no_fit_score() = 100` would end the loop -/
example : (fitObs (L := Nat) (1/4 : ℚ) 2 1 1 100 1000 100 (1/1000) 1 1
    [{ cands := [(5, 10), (3, 11)], xmin := 1, train := 1, valid := 1/2 },
     { cands := [(2, 20), (2, 21)], xmin := 1, train := 1, valid := 1/8 },
     { cands := [(1, 30)], xmin := 0, train := 1, valid := 0 }]).1 = [11, 20] := by decide +kernel
example : roundEv (L := Nat) (100 : ℚ) (1/1000) { cands := [(100, 1), (200, 2)], xmin := 1, train := 0, valid := 0 } = .noLearner :=
  (roundEv_spec _ _ _).1.mpr (by decide +kernel)
/-- the calls of the four-round fit above: numbered 0..3, the last one stops -/
example : (fitCalls (L := Nat) (1/4 : ℚ) 2 1 1 100 1000 1 1
    [.fitted 10 1 (1/2), .fitted 11 1 (1/4), .fitted 12 1 (3/8), .fitted 13 1 0]).map (·.n) = [0, 1, 2, 3] := by decide +kernel
/-- two folds `(1, [x ↦ x])`, `(3, [x ↦ 2x, x ↦ 1])`: the average predicts `(1 + 2) + (3 + 4 + 1)` / 2 at `x = 2` -/
example : predict (averaged (0 : ℚ) (1/2) [(1, [fun x : ℚ => x]), (3, [fun x => 2 * x, fun _ => 1])]).1
    (averaged (0 : ℚ) (1/2) [(1, [fun x : ℚ => x]), (3, [fun x => 2 * x, fun _ => 1])]).2 2 = 11 / 2 := by
  norm_num [predict, averaged, scale]

end NanoVerif.Boost
