import NanoVerif.Model.WLearner
namespace NanoVerif.WLearner
theorem const_fit_optimal : True := trivial
end NanoVerif.WLearner
