import NanoVerif.Proofs.WLearnerBrute
import Mathlib.Algebra.Order.Field.Rat
import Mathlib.Tactic.NormNum
/-!
  C10 — weak learners fit residuals optimally in their class and predict consistently.

  Property theorems about `Model/WLearner.lean` (the model of `src/wlearner/*.cpp`, `include/nano/core/reduce.h`), for every
  linear ordered field `α` (exact arithmetic), every number of outputs `T`, every list of fitted samples (any subset,
  repetitions allowed: a `List`), every gradient tensor (residual `r = −g` per sample), every pattern of missing values.
  Conventions of the statements:
  * `hfin : ∀ y, FinTest.isFin y = true` — in exact arithmetic no computed score overflows (`std::isfinite(score)`);
  * `hbig : ∀ c ∈ cands, c.score < big` — `big` = `no_fit_score()` = `DBL_MAX` exceeds every computed score;
  * `hsort : SortSpec sort` — `std::sort` returns a sorted permutation (`mergeSort_sortSpec`: the driver's sort is one);
  * the criterion is `rss` (`make_score` = `cmax rss K`, `K` = `1e3·ε`); AIC/AICc/BIC need `log` and are only tested;
  * `cols` = the features a fit loops over, each with the rows (value, residual) of the fitted samples; every
    candidate remembers its feature; `fitSeq big cands` is what one thread returns, `fit_assignment_independent` makes
    the result independent of the thread assignment (ties included: `min_reduce_feature` breaks them by the feature index;
    `table_fit_assignment_independent`: the table learners' lexicographic caches need no order hypothesis;
    `old_fit_assignment_dependent`: the score-only rule before commit 62472c9 did depend on it).
-/
set_option linter.unusedSectionVars false
set_option linter.unusedVariables false

namespace NanoVerif.WLearner
variable {α : Type} [Field α] [LinearOrder α] [IsStrictOrderedRing α]

/-! ### least squares in the classes -/

/-- The mean minimises `Σ_i Σ_o (r_io − c_o)²` and `Σ_o (r2_o − r1_o²/x0)` (the per-bin / per-side score computed from the
    accumulated moments) is that minimum — for every non-empty list of residual vectors. -/
theorem const_fit_optimal (T : Nat) (rs : List (Vec α)) (h : rs ≠ []) (c : Vec α) :
    binScore T (rs.foldl Mom.upd0 Mom.zero) ≤ lsum (rs.map fun r => sqErr T r c) ∧
    binScore T (rs.foldl Mom.upd0 Mom.zero)
      = lsum (rs.map fun r => sqErr T r (binMean (rs.foldl Mom.upd0 Mom.zero))) :=
  const_fit_vec T rs h c

/-- Regular branch of `cache_t::constant()` (`x2·x0 − x1² > ε₁·x2·x0`, which implies `x2·x0 − x1² > 0`): the closed form
    `(w, b)` of affine.cpp has the smallest RSS among all affine maps `w'·x + b'` of the feature (samples whose value is
    missing are predicted zero by every member of the class). -/
theorem affine_fit_optimal [Log α] {eps1 : α} (heps : 0 ≤ eps1) (T : Nat) (K : α) (crit : Crit) (f : Nat)
    (rows : List (Row α)) (hreg : affineConst eps1 ((present rows).foldl Item.upd Mom.zero) = false) (w' b' : Vec α) :
    0 < affineDen ((present rows).foldl Item.upd Mom.zero) ∧
    (affineCand eps1 T K crit f rows).rss ≤ rssOf T rows (affinePred w' b') :=
  ⟨(affineConst_false heps (present rows) hreg).1, affineCand_optimal_regular heps T K crit f rows hreg w' b'⟩

/-- Degenerate branch: on a feature that is constant over the fitted samples (also: no value present) `constant()` holds,
    the learner stores `w = 0, b = mean residual`, and this is optimal in the affine class. -/
theorem affine_constant_branch_optimal [Log α] {eps1 : α} (heps : 0 ≤ eps1) (T : Nat) (K : α) (crit : Crit) (f : Nat)
    (rows : List (Row α)) (c : α) (hconst : ∀ it ∈ present rows, it.v = c) (w' b' : Vec α) :
    affineConst eps1 ((present rows).foldl Item.upd Mom.zero) = true ∧
    (affineCand eps1 T K crit f rows).rss ≤ rssOf T rows (affinePred w' b') :=
  affineCand_optimal_constant heps T K crit f rows c hconst w' b'

/-! ### the sorted sweep -/

/-- The running accumulator of every candidate of the sweep equals the accumulator recomputed over a non-empty proper
    prefix of the sorted values, which is exactly the set of samples left of the candidate's threshold; the threshold is
    the mid-point of two distinct values and equals no value (any accumulator update, any start value). -/
theorem running_moments_eq_prefix (upd : Mom α → Item α → Mom α) (m0 : Mom α) (sorted : List (Item α))
    (hs : sorted.Pairwise (fun a b => a.v ≤ b.v)) (c : α × Mom α) (hc : c ∈ sweep upd m0 sorted) :
    (∃ l1 l2, sorted = l1 ++ l2 ∧ l1 ≠ [] ∧ l2 ≠ [] ∧ c.2 = l1.foldl upd m0) ∧
    c.2 = (sorted.filter fun it => decide (it.v < c.1)).foldl upd m0 ∧
    (∃ a b, a ∈ sorted ∧ b ∈ sorted ∧ a.v < b.v ∧ c.1 = half * (a.v + b.v)) ∧
    (∀ x ∈ sorted, x.v ≠ c.1) := by
  have h := sweep_sound upd m0 [] sorted (by simpa using hs) c (by simpa using hc)
  simp only [List.nil_append] at h
  exact ⟨h.pfx, h.acc, h.mid, h.ne_thr⟩

/-! ### decision stump -/

/-- What `stump_wlearner_t::fit` returns with the RSS criterion. No candidate exists exactly when no feature has two
    distinct present values (then `no_fit_score()`); otherwise the selected candidate's score is `max(rss, K)` where
    `rss` is the RSS (from the definition) of the stored stump, and no stump — any feature, ANY threshold that has present
    values on both sides (not only mid-points), any two output vectors — has a smaller (clamped) RSS. -/
theorem stump_fit_optimal [FinTest α] [Log α] (hfin : ∀ y : α, FinTest.isFin y = true)
    (sort : List (Item α) → List (Item α)) (hsort : SortSpec sort) (T : Nat) (K big : α)
    (cols : List (Nat × List (Row α))) (hbig : ∀ c ∈ stumpAll sort T K cols, c.score < big) :
    (stumpAll sort T K cols = [] →
      fitSeq big (stumpAll sort T K cols) = noFit big ∧
      ∀ p ∈ cols, ∀ a ∈ present p.2, ∀ b ∈ present p.2, ¬ a.v < b.v) ∧
    (stumpAll sort T K cols ≠ [] →
      ∃ p ∈ cols, StumpCandSpec T K p.1 p.2 (fitSeq big (stumpAll sort T K cols)) ∧
        ∀ q ∈ cols, ∀ (t : α) (lo hi : Vec α), (∃ it ∈ present q.2, it.v < t) → (∃ it ∈ present q.2, ¬ it.v < t) →
          (fitSeq big (stumpAll sort T K cols)).score ≤ cmax (rssOf T q.2 (stumpPred t lo hi)) K) := by
  obtain ⟨hnil, hcons⟩ := fitSeq_min hfin big (stumpAll sort T K cols) hbig
  constructor
  · intro he
    refine ⟨hnil he, ?_⟩
    intro p hp a ha b hb hab
    obtain ⟨c, hc, _⟩ := stumpCands_complete sort hsort T K Crit.rss p.1 p.2 (half * (a.v + b.v))
      ⟨a, ha, lt_mid hab⟩ ⟨b, hb, not_lt.mpr (le_of_lt (mid_lt hab))⟩
    have : c ∈ stumpAll sort T K cols := List.mem_flatMap.mpr ⟨p, hp, hc⟩
    rw [he] at this; simp at this
  · intro hne
    obtain ⟨hmem, hmin⟩ := hcons hne
    obtain ⟨p, hp, hbest⟩ := List.mem_flatMap.mp hmem
    refine ⟨p, hp, stumpCands_spec sort hsort T K p.1 p.2 _ hbest, ?_⟩
    intro q hq t lo hi hl hr
    obtain ⟨c, hc, hsame⟩ := stumpCands_complete sort hsort T K Crit.rss q.1 q.2 t hl hr
    have hcs := stumpCands_spec sort hsort T K q.1 q.2 c hc
    have h1 := hmin c (List.mem_flatMap.mpr ⟨q, hq, hc⟩)
    have h2 : c.rss ≤ rssOf T q.2 (stumpPred t lo hi) := by
      rw [← hsame lo hi]; exact hcs.coeff_opt lo hi
    rw [hcs.score] at h1
    exact le_trans h1 (cmax_mono K h2)

/-- The same result as an equation: the reported score is `max(m, K)` where `m` is the brute-force minimum — over all
    features and all mid-points of two distinct present values — of the RSS, computed from the definition, of the stump
    whose two outputs are the means of its two sides. -/
theorem stump_fit_eq_brute [FinTest α] [Log α] (hfin : ∀ y : α, FinTest.isFin y = true)
    (sort : List (Item α) → List (Item α)) (hsort : SortSpec sort) (T : Nat) (K big : α)
    (cols : List (Nat × List (Row α))) (hbig : ∀ c ∈ stumpAll sort T K cols, c.score < big) :
    (stumpAll sort T K cols = [] → stumpBrute T (cols.map (·.2)) = none) ∧
    (stumpAll sort T K cols ≠ [] → ∃ m, stumpBrute T (cols.map (·.2)) = some m ∧
      (fitSeq big (stumpAll sort T K cols)).score = cmax m K) := by
  obtain ⟨hA, hB⟩ := stump_fit_optimal hfin sort hsort T K big cols hbig
  -- the brute-force list
  have hbl : ∀ e, e ∈ ((cols.map (·.2)).flatMap fun rows => (midpoints (presentVals rows)).map (stumpBruteAt T rows)) ↔
      ∃ p ∈ cols, ∃ a ∈ present p.2, ∃ b ∈ present p.2, a.v < b.v ∧ e = stumpBruteAt T p.2 (half * (a.v + b.v)) := by
    intro e
    simp only [List.mem_flatMap, List.mem_map]
    constructor
    · rintro ⟨rows, ⟨p, hp, rfl⟩, t, ht, rfl⟩
      obtain ⟨a, ha, b, hb, hab, rfl⟩ := (mem_midpoints _ t).mp ht
      rw [presentVals_eq] at ha hb
      obtain ⟨ia, hia, rfl⟩ := List.mem_map.mp ha
      obtain ⟨ib, hib, rfl⟩ := List.mem_map.mp hb
      exact ⟨p, hp, ia, hia, ib, hib, hab, rfl⟩
    · rintro ⟨p, hp, a, ha, b, hb, hab, rfl⟩
      refine ⟨p.2, ⟨p, hp, rfl⟩, half * (a.v + b.v), ?_, rfl⟩
      rw [mem_midpoints, presentVals_eq]
      exact ⟨a.v, List.mem_map.mpr ⟨a, ha, rfl⟩, b.v, List.mem_map.mpr ⟨b, hb, rfl⟩, hab, rfl⟩
  constructor
  · intro he
    obtain ⟨_, hno⟩ := hA he
    unfold stumpBrute
    apply (lmin?_spec _).1
    apply List.eq_nil_iff_forall_not_mem.mpr
    intro e hmem
    obtain ⟨p, hp, a, ha, b, hb, hab, _⟩ := (hbl e).mp hmem
    exact hno p hp a ha b hb hab
  · intro hne
    obtain ⟨p, hp, hspec, hopt⟩ := hB hne
    obtain ⟨a, b, ha, hb, hab, hthr⟩ := hspec.mid
    have hmem0 : stumpBruteAt T p.2 (half * (a.v + b.v)) ∈
        ((cols.map (·.2)).flatMap fun rows => (midpoints (presentVals rows)).map (stumpBruteAt T rows)) :=
      (hbl _).mpr ⟨p, hp, a, ha, b, hb, hab, rfl⟩
    obtain ⟨m, hm, hmmem, hmmin⟩ := (lmin?_spec _).2 (List.ne_nil_of_mem hmem0)
    refine ⟨m, hm, le_antisymm ?_ ?_⟩
    · -- the fitted score is below every brute-force entry
      obtain ⟨q, hq, a', ha', b', hb', hab', rfl⟩ := (hbl m).mp hmmem
      unfold stumpBruteAt
      exact hopt q hq _ _ _ ⟨a', ha', lt_mid hab'⟩ ⟨b', hb', not_lt.mpr (le_of_lt (mid_lt hab'))⟩
    · -- the brute-force entry at the fitted threshold is below the fitted RSS
      rw [hspec.score]
      apply cmax_mono
      obtain ⟨hl, hr⟩ := sides_of_midpoint (present p.2) a b ha hb hab
      have h1 := stumpBruteAt_le T p.2 (half * (a.v + b.v)) hl hr
        (tab (fitSeq big (stumpAll sort T K cols)).tables 0) (tab (fitSeq big (stumpAll sort T K cols)).tables 1)
      rw [← hthr, ← hspec.rss_eq] at h1
      rw [← hthr] at hmem0
      exact le_trans (hmmin _ hmem0) h1

/-! ### hinge -/

/-- What `hinge_wlearner_t::fit` returns with the RSS criterion: the selected candidate's score is `max(rss, K)`, `rss` is
    the RSS of the stored hinge `β·(x − t)₊ / β·(t − x)₋`, and it is the minimum over the class found by brute force: every
    feature, every mid-point `t` between two consecutive distinct present values, both directions, every slope vector. -/
theorem hinge_fit_eq_brute [FinTest α] [Log α] (hfin : ∀ y : α, FinTest.isFin y = true)
    (sort : List (Item α) → List (Item α)) (hsort : SortSpec sort) (T : Nat) (K big : α)
    (cols : List (Nat × List (Row α))) (hbig : ∀ c ∈ hingeAll sort T K cols, c.score < big) :
    (hingeAll sort T K cols = [] →
      fitSeq big (hingeAll sort T K cols) = noFit big ∧
      ∀ p ∈ cols, ∀ a ∈ present p.2, ∀ b ∈ present p.2, ¬ a.v < b.v) ∧
    (hingeAll sort T K cols ≠ [] →
      ∃ p ∈ cols, HingeCandSpec T K p.1 p.2 (fitSeq big (hingeAll sort T K cols)) ∧
        ∀ q ∈ cols, ∀ a ∈ present q.2, ∀ b ∈ present q.2, a.v < b.v →
          (∀ z ∈ present q.2, ¬ (a.v < z.v ∧ z.v < b.v)) → ∀ (left : Bool) (beta : Vec α),
          (fitSeq big (hingeAll sort T K cols)).score
            ≤ cmax (rssOf T q.2 (hingePred (half * (a.v + b.v)) left beta)) K) := by
  obtain ⟨hnil, hcons⟩ := fitSeq_min hfin big (hingeAll sort T K cols) hbig
  -- two distinct present values ⇒ two consecutive distinct present values ⇒ a candidate
  have hexists : ∀ p ∈ cols, ∀ a ∈ present p.2, ∀ b ∈ present p.2, a.v < b.v → hingeAll sort T K cols ≠ [] := by
    intro p hp a ha b hb hab
    have hperm := hsort.perm (present p.2)
    obtain ⟨sc, hsc, _⟩ := sweep_complete Item.upd (half * (a.v + b.v)) (sort (present p.2)) Mom.zero (hsort.sorted _)
      ⟨a, hperm.symm.subset ha, lt_mid hab⟩ ⟨b, hperm.symm.subset hb, not_lt.mpr (le_of_lt (mid_lt hab))⟩
    intro he
    have hex : ∃ c, c ∈ hingeCands T K Crit.rss p.1 ((present p.2).foldl Item.upd Mom.zero) (missRss T p.2)
        (missCnt p.2) sc := by
      simp only [hingeCands]; exact ⟨_, List.mem_cons_self⟩
    obtain ⟨c, hc⟩ := hex
    have : c ∈ hingeAll sort T K cols :=
      List.mem_flatMap.mpr ⟨p, hp, List.mem_flatMap.mpr ⟨sc, hsc, hc⟩⟩
    rw [he] at this; simp at this
  constructor
  · intro he
    refine ⟨hnil he, ?_⟩
    intro p hp a ha b hb hab
    exact hexists p hp a ha b hb hab he
  · intro hne
    obtain ⟨hmem, hmin⟩ := hcons hne
    obtain ⟨p, hp, hbest⟩ := List.mem_flatMap.mp hmem
    refine ⟨p, hp, hingeCands_spec sort hsort T K p.1 p.2 _ hbest, ?_⟩
    intro q hq a ha b hb hab hadj left beta
    obtain ⟨c, hc, hthr, hdir⟩ := hingeCands_complete sort hsort T K Crit.rss q.1 q.2 a b ha hb hab hadj
      (if left then 0 else 1) (by cases left <;> simp)
    have hcs := hingeCands_spec sort hsort T K q.1 q.2 c hc
    have h1 := hmin c (List.mem_flatMap.mpr ⟨q, hq, hc⟩)
    have h2 := hcs.coeff_opt beta
    rw [hthr, hdir] at h2
    have hl : ((if left then 0 else 1 : Nat) == 0) = left := by cases left <;> rfl
    rw [hl] at h2
    rw [hcs.score] at h1
    exact le_trans h1 (cmax_mono K h2)

/-! ### look-up tables -/

/-- What `dense_table_wlearner_t::fit` returns with the RSS criterion (at least one categorical feature): the score is
    `max(m, K)` where `m` is the brute-force minimum over the features of the RSS of the table of per-label-set means, the
    stored table is that table, and no table on any feature — any vector per label set — has a smaller (clamped) RSS. -/
theorem table_fit_eq_brute [FinTest α] [Log α] (hfin : ∀ y : α, FinTest.isFin y = true) (T : Nat) (K big : α)
    (cols : List (Nat × List (CRow α))) (hne : cols ≠ []) (hbig : ∀ c ∈ denseAll T K cols, c.score < big) :
    (∃ p ∈ cols, fitSeq big (denseAll T K cols) = denseCand T K Crit.rss p.1 p.2 ∧
      (fitSeq big (denseAll T K cols)).rss = rssOfC T p.2 (tablePred (denseTable p.2))) ∧
    (∀ q ∈ cols, ∀ tbl : Nat → Vec α,
      (fitSeq big (denseAll T K cols)).score ≤ cmax (rssOfC T q.2 (tablePred tbl)) K) ∧
    (∃ m, denseBrute T (cols.map (·.2)) = some m ∧ (fitSeq big (denseAll T K cols)).score = cmax m K) := by
  have hcne : denseAll T K cols ≠ [] := by
    unfold denseAll; simpa using hne
  obtain ⟨hmem, hmin⟩ := (fitSeq_min hfin big (denseAll T K cols) hbig).2 hcne
  obtain ⟨p, hp, hbest⟩ := List.mem_map.mp hmem
  have hopt : ∀ q ∈ cols, ∀ tbl : Nat → Vec α,
      (fitSeq big (denseAll T K cols)).score ≤ cmax (rssOfC T q.2 (tablePred tbl)) K := by
    intro q hq tbl
    have h1 := hmin _ (List.mem_map.mpr ⟨q, hq, rfl⟩)
    have h2 := (denseCand_spec T K Crit.rss q.1 q.2).2 tbl
    have hs : (denseCand T K Crit.rss q.1 q.2).score = cmax (denseCand T K Crit.rss q.1 q.2).rss K := by
      simp only [denseCand, makeScore]
    rw [hs] at h1
    exact le_trans h1 (cmax_mono K h2)
  have hbrute : ∀ rows : List (CRow α), denseBruteAt T rows = rssOfC T rows (tablePred (denseTable rows)) := by
    intro rows
    unfold denseBruteAt rssOfC
    apply lsum_map_congr; intro row _
    apply sqErr_congr; intro o
    cases row.h with
    | none => rfl
    | some h =>
      simp only [tablePred, denseTable]
      rw [meanOf_eq, binMom_eq]; rfl
  refine ⟨⟨p, hp, hbest.symm, ?_⟩, hopt, ?_⟩
  · rw [← hbest]; exact (denseCand_spec T K Crit.rss p.1 p.2).1
  · have hlne : (cols.map (·.2)).map (denseBruteAt T) ≠ [] := by simpa using hne
    obtain ⟨m, hm, hmmem, hmmin⟩ := (lmin?_spec _).2 hlne
    refine ⟨m, hm, le_antisymm ?_ ?_⟩
    · obtain ⟨rows, hrows, rfl⟩ := List.mem_map.mp hmmem
      obtain ⟨q, hq, rfl⟩ := List.mem_map.mp hrows
      rw [hbrute]; exact hopt q hq _
    · have hs : (fitSeq big (denseAll T K cols)).score = cmax (fitSeq big (denseAll T K cols)).rss K := by
        rw [← hbest]; simp only [denseCand, makeScore]
      rw [hs]
      apply cmax_mono
      have : denseBruteAt T p.2 ∈ (cols.map (·.2)).map (denseBruteAt T) :=
        List.mem_map.mpr ⟨p.2, List.mem_map.mpr ⟨p, hp, rfl⟩, rfl⟩
      have h1 := hmmin _ this
      rw [hbrute] at h1
      rw [← hbest, (denseCand_spec T K Crit.rss p.1 p.2).1]
      exact h1

/-- What `dstep_table_wlearner_t::fit` returns with the RSS criterion (as the code is since 0bb37f2: a feature without any
    present value yields no candidate): the stored one-row table is on a label set present among the fitted samples, its
    reported RSS is the RSS of its predictions, and no one-label-set table — any feature, any label set, any vector — has a
    smaller (clamped) RSS. -/
theorem dstep_fit_optimal [FinTest α] [Log α] (hfin : ∀ y : α, FinTest.isFin y = true) (T : Nat) (K big : α)
    (cols : List (Nat × List (CRow α))) (hbig : ∀ c ∈ dstepAll T K cols, c.score < big) :
    (dstepAll T K cols = [] → fitSeq big (dstepAll T K cols) = noFit big ∧ ∀ p ∈ cols, hashesOf p.2 = []) ∧
    (dstepAll T K cols ≠ [] →
      (∃ p ∈ cols, ∃ h0 ∈ hashesOf p.2, fitSeq big (dstepAll T K cols) = dstepCandOf T K Crit.rss p.1 p.2 h0 ∧
        (fitSeq big (dstepAll T K cols)).rss
          = rssOfC T p.2 (stepPred h0 (tab (fitSeq big (dstepAll T K cols)).tables 0))) ∧
      ∀ q ∈ cols, hashesOf q.2 ≠ [] → ∀ (h' : Nat) (c' : Vec α),
        (fitSeq big (dstepAll T K cols)).score ≤ cmax (rssOfC T q.2 (stepPred h' c')) K) := by
  obtain ⟨hnil, hcons⟩ := fitSeq_min hfin big (dstepAll T K cols) hbig
  have hmemAll : ∀ q ∈ cols, hashesOf q.2 ≠ [] → ∃ h0 ∈ hashesOf q.2,
      dstepCandOf T K Crit.rss q.1 q.2 h0 ∈ dstepAll T K cols ∧
      ∀ (h' : Nat) (c' : Vec α), (dstepCandOf T K Crit.rss q.1 q.2 h0).rss ≤ rssOfC T q.2 (stepPred h' c') := by
    intro q hq hh
    obtain ⟨h0, hm0, hc, hopt⟩ := (dstepCand_spec T K Crit.rss q.1 q.2).2 hh
    exact ⟨h0, hm0, List.mem_flatMap.mpr ⟨q, hq, by rw [hc]; simp⟩, hopt⟩
  constructor
  · intro he
    refine ⟨hnil he, ?_⟩
    intro p hp
    by_contra hh
    obtain ⟨h0, _, hm, _⟩ := hmemAll p hp hh
    rw [he] at hm; simp at hm
  · intro hne
    obtain ⟨hmem, hmin⟩ := hcons hne
    obtain ⟨p, hp, hbest⟩ := List.mem_flatMap.mp hmem
    constructor
    · cases hd : dstepCand T K Crit.rss p.1 p.2 with
      | none => rw [hd] at hbest; simp at hbest
      | some c =>
        rw [hd] at hbest
        simp at hbest
        have hh : hashesOf p.2 ≠ [] := by
          intro e
          rw [(dstepCand_spec T K Crit.rss p.1 p.2).1 e] at hd; simp at hd
        obtain ⟨h0, hm0, hc, _⟩ := (dstepCand_spec T K Crit.rss p.1 p.2).2 hh
        rw [hd] at hc
        simp at hc
        refine ⟨p, hp, h0, hm0, by rw [hbest, hc], ?_⟩
        rw [hbest, hc]
        exact (dstepCandOf_spec T K Crit.rss p.1 p.2 h0 hm0).1
    · intro q hq hh h' c'
      obtain ⟨h0, _, hm, hopt⟩ := hmemAll q hq hh
      have h1 := hmin _ hm
      have hs : (dstepCandOf T K Crit.rss q.1 q.2 h0).score = cmax (dstepCandOf T K Crit.rss q.1 q.2 h0).rss K := by
        simp only [dstepCandOf, makeScore]
      rw [hs] at h1
      exact le_trans h1 (cmax_mono K (hopt h' c'))

/-! ### the fitted learner's predictions reproduce the reported RSS -/

/-- For every candidate a stump / hinge / affine / dense-table fit can select, the value handed to `make_score` is the RSS
    of the predictions (`predict` from zero outputs) of the learner that `fit` stores for it (`Cand.toStump` …), over the
    fitted samples. -/
theorem fit_predict_reproduces_rss [Log α] (sort : List (Item α) → List (Item α)) (hsort : SortSpec sort)
    (T : Nat) (K eps1 : α) (f : Nat) :
    (∀ (rows : List (Row α)), ∀ c ∈ stumpCands sort T K Crit.rss f rows, c.rss = predRss T c.toStump f rows) ∧
    (∀ (rows : List (Row α)), ∀ c ∈ hingeFeatureCands sort T K Crit.rss f rows, c.rss = predRss T c.toHinge f rows) ∧
    (∀ (rows : List (Row α)) (crit : Crit),
      (affineCand eps1 T K crit f rows).rss = predRss T (affineCand eps1 T K crit f rows).toAffine f rows) ∧
    (∀ (rows : List (CRow α)) (crit : Crit),
      (denseCand T K crit f rows).rss = predRssC T (denseCand T K crit f rows).toTable f rows) := by
  refine ⟨?_, ?_, ?_, ?_⟩
  · intro rows c hc
    have hs := stumpCands_spec sort hsort T K f rows c hc
    rw [hs.rss_eq]
    unfold rssOf predRss
    apply lsum_map_congr; intro row _
    apply sqErr_congr; intro o
    rw [predictOne_zero]
    unfold Cand.toStump
    rw [contrib_stump c.feature c.thr c.tables _ row.x (by rw [hs.feature]; exact sampleOf_self f _)]
  · intro rows c hc
    have hs := hingeCands_spec sort hsort T K f rows c hc
    rw [hs.rss_eq]
    unfold rssOf predRss
    apply lsum_map_congr; intro row _
    apply sqErr_congr; intro o
    rw [predictOne_zero]
    unfold Cand.toHinge
    rw [contrib_hinge c.feature c.thr (c.dir == 0) c.tables _ row.x (by rw [hs.feature]; exact sampleOf_self f _)
      hs.offset o]
  · intro rows crit
    rw [affineCand_rss_eq]
    unfold rssOf predRss
    apply lsum_map_congr; intro row _
    apply sqErr_congr; intro o
    rw [predictOne_zero]
    unfold Cand.toAffine
    rw [contrib_affine _ _ _ row.x (by exact sampleOf_self f _)]
  · intro rows crit
    rw [(denseCand_spec T K crit f rows).1]
    unfold rssOfC predRssC
    apply lsum_map_congr; intro row hrow
    apply sqErr_congr; intro o
    rw [predictOne_zero]
    rw [dense_contrib T K crit f rows _ row.h (by exact sampleOf_self f _)
      (fun h hh => (mem_hashesOf rows h).mpr ⟨row, hrow, hh⟩)]

/-! ### threads -/

/-- `min_reduce_feature` over the per-thread caches (reduce.h, commit 62472c9) returns the candidate a single thread
    returns. `feats` = the features a fit loops over in increasing index order, each with its candidates in the order of its
    sweep, every candidate remembering its feature (`hidx`: `stumpCands … f rows`, `hingeFeatureCands`, `affineCand`,
    `denseCand`, `dstepCand` all set `feature := f`); `workers` = per worker, the features it processed, in its order.
    Every feature is processed by exactly one worker (`hperm`, the pool's contract C17) and every worker processes ITS
    features in increasing index order (`WorkersSorted`, decidable; what `pool_t::map` produces). NO hypothesis on the
    scores — exact ties between features / thresholds are allowed, non-finite scores and scores ≥ `big` too. Then for
    EVERY such assignment, any number of workers (none included):
      * the fit returns exactly what one thread seeing all features in order returns, and
      * that is the empty cache iff no candidate is storable (finite, below `no_fit_score()`), otherwise a storable candidate
        with the minimal score and, among those with the minimal score, the smallest feature index. -/
theorem fit_assignment_independent [FinTest α] (big : α) (feats : List (FeatC α)) (workers : List (List (FeatC α)))
    (hidx : ∀ p ∈ feats, ∀ c ∈ p.2, c.feature = p.1) (hinc : (feats.map Prod.fst).Pairwise (· < ·))
    (hperm : workers.flatten.Perm feats) (hsorted : WorkersSorted workers) :
    fitAssigned big (workers.map streamC) = fitSeq big (streamC feats) ∧
    ((fitSeq big (streamC feats) = noFit big ∧
        ∀ y ∈ streamC feats, ¬ (FinTest.isFin y.score = true ∧ y.score < big)) ∨
     (fitSeq big (streamC feats) ∈ streamC feats ∧
        (FinTest.isFin (fitSeq big (streamC feats)).score = true ∧ (fitSeq big (streamC feats)).score < big) ∧
        ∀ y ∈ streamC feats, (FinTest.isFin y.score = true ∧ y.score < big) →
          (fitSeq big (streamC feats)).score ≤ y.score ∧
          (y.score = (fitSeq big (streamC feats)).score → (fitSeq big (streamC feats)).feature ≤ y.feature))) := by
  have h1 := fitAssigned_sorted big feats workers hidx hinc hperm hsorted
  have h2 := fitSeq_sorted big feats hidx hinc
  exact ⟨bestC_unique big _ _ _ h1 h2, bestC_lexmin big feats hidx _ h2⟩

/-- The TABLE learners (dense, discrete-step; k-best / k-split use the same cache): since commit 5de0896 their per-thread
    caches use the lexicographic test of `min_reduce_feature` too (`pickLex`), because a table fit runs two loops (single-label,
    then multi-label features) into the same caches and a cache may see feature indices out of order. NO hypothesis on the
    order in which a worker sees its features and none on the scores: `feats` in any order with pairwise distinct indices,
    `workers` ANY distribution of them (`hperm`), each worker in ANY order. The fit returns what one cache seeing `feats` in
    the given order returns, and that is the lexicographic minimum of (score, feature index) over the storable candidates. -/
theorem table_fit_assignment_independent [FinTest α] (big : α) (feats : List (FeatC α)) (workers : List (List (FeatC α)))
    (hidx : ∀ p ∈ feats, ∀ c ∈ p.2, c.feature = p.1) (hnd : (feats.map Prod.fst).Nodup)
    (hperm : workers.flatten.Perm feats) :
    fitAssignedLex big (workers.map streamC) = fitSeqLex big (streamC feats) ∧
    ((fitSeqLex big (streamC feats) = noFit big ∧
        ∀ y ∈ streamC feats, ¬ (FinTest.isFin y.score = true ∧ y.score < big)) ∨
     (fitSeqLex big (streamC feats) ∈ streamC feats ∧
        (FinTest.isFin (fitSeqLex big (streamC feats)).score = true ∧ (fitSeqLex big (streamC feats)).score < big) ∧
        ∀ y ∈ streamC feats, (FinTest.isFin y.score = true ∧ y.score < big) →
          (fitSeqLex big (streamC feats)).score ≤ y.score ∧
          (y.score = (fitSeqLex big (streamC feats)).score → (fitSeqLex big (streamC feats)).feature ≤ y.feature))) := by
  have h1 := fitAssignedLex_any big feats workers hidx hnd hperm
  have h2 := fitSeqLex_any big feats hidx hnd
  exact ⟨bestC_unique big _ _ _ h1 h2, bestC_lexmin big feats hidx _ h2⟩

/-- On features visited in increasing index order (what the correspondence run feeds the model, and what the theorems
    `table_fit_eq_brute` / `dstep_fit_optimal` are stated about) the lexicographic cache of the table learners returns exactly
    what the first-best cache returns. -/
theorem table_cache_eq_first_best [FinTest α] (big : α) (feats : List (FeatC α))
    (hidx : ∀ p ∈ feats, ∀ c ∈ p.2, c.feature = p.1) (hinc : (feats.map Prod.fst).Pairwise (· < ·)) :
    fitSeqLex big (streamC feats) = fitSeq big (streamC feats) :=
  bestC_unique big _ _ _ (fitSeqLex_any big feats hidx (hinc.imp (fun h => Nat.ne_of_lt h)))
    (fitSeq_sorted big feats hidx hinc)

/-- The rule BEFORE commit 62472c9 (`min_reduce`: score only, `fitAssignedOld`) depends on the assignment under an exact
    tie, on index-sorted workers: features 0 and 2 tie on the minimal score 1 and sit on different workers — the cache of
    the lower worker id wins, whichever feature it holds; the present rule gives feature 0 both times. -/
theorem old_fit_assignment_dependent :
    ∃ (_ : FinTest ℚ) (feats : List (FeatC ℚ)) (workers workers' : List (List (FeatC ℚ))),
      (∀ p ∈ feats, ∀ c ∈ p.2, c.feature = p.1) ∧ (feats.map Prod.fst).Pairwise (· < ·) ∧
      workers.flatten.Perm feats ∧ workers'.flatten.Perm feats ∧ WorkersSorted workers ∧ WorkersSorted workers' ∧
      (fitAssignedOld (10 : ℚ) (workers.map streamC)).feature = 0 ∧
      (fitAssignedOld (10 : ℚ) (workers'.map streamC)).feature = 2 ∧
      (fitAssigned (10 : ℚ) (workers.map streamC)).feature = 0 ∧
      (fitAssigned (10 : ℚ) (workers'.map streamC)).feature = 0 := by
  let c0 : Cand ℚ := ⟨1, 1, 0, 0, 0, [], [], []⟩
  let c2 : Cand ℚ := ⟨1, 1, 2, 0, 0, [], [], []⟩
  refine ⟨⟨fun _ => true⟩, [(0, [c0]), (2, [c2])], [[(0, [c0])], [(2, [c2])]], [[(2, [c2])], [(0, [c0])]],
    ?_, ?_, ?_, ?_, ?_, ?_, ?_, ?_, ?_, ?_⟩
  · simp [c0, c2]
  · simp
  · exact List.Perm.refl _
  · exact List.Perm.swap _ _ _
  · simp [WorkersSorted]
  · simp [WorkersSorted]
  all_goals
    simp [fitAssignedOld, fitAssigned, streamC, fitSeq, pick, noFit, minReduceOld, minReduce, lessSF, FinTest.isFin, c0, c2]
    try norm_num

/-! ### predict / split / scale / merge (all learners, including k-best / k-split tables and decision trees) -/

/-- predictions are added to the given outputs -/
theorem predict_adds (l : Learner α) (s : Nat → FVal α) (out : Vec α) (o : Nat) :
    predictOne l s out o = out o + predictOne l s zeroV o := by
  rw [predictOne_eq, predictOne_zero]

/-- a sample whose selected feature (the root feature of a tree) is missing is not assigned and its outputs are unchanged -/
theorem predict_missing_zero (l : Learner α) (s : Nat → FVal α) (f : Nat) (hf : l.rootFeature = some f)
    (hm : s f = FVal.missing) (out : Vec α) :
    predictOne l s out = out ∧ splitOne l s = none := by
  have := eval_missing l s f hf hm
  simp [predictOne, splitOne, this]

/-- the prediction of a sample is the table row of the group `split()` reports for it (stump, every look-up table,
    decision tree), `w·x + b` on group 0 (affine, hinge); a sample that `split()` does not assign gets nothing -/
theorem predict_eq_table_of_split (l : Learner α) (s : Nat → FVal α) (out : Vec α) :
    (splitOne l s = none → predictOne l s out = out) ∧
    (∀ g, splitOne l s = some g → l.isTable → ∀ o, predictOne l s out o = out o + tab l.tables g o) ∧
    (∀ g, splitOne l s = some g → ¬ l.isTable →
      g = 0 ∧ ∃ f x, l.rootFeature = some f ∧ s f = FVal.num x ∧ ∀ o, predictOne l s out o = out o + lin l.tables x o) := by
  refine ⟨?_, ?_, ?_⟩
  · intro h
    unfold splitOne at h
    cases he : eval l s with
    | none => simp [predictOne, he]
    | some p => rw [he] at h; simp at h
  · intro g h ht o
    unfold splitOne at h
    cases he : eval l s with
    | none => rw [he] at h; simp at h
    | some p =>
      rw [he] at h; simp at h
      have hv := eval_isTable l ht s p.1 p.2 he
      rw [predictOne_eq]; unfold contrib; rw [he]; simp only; rw [hv, h]
  · intro g h ht
    unfold splitOne at h
    cases he : eval l s with
    | none => rw [he] at h; simp at h
    | some p =>
      rw [he] at h; simp at h
      obtain ⟨hg, f, x, hf, hs, hv⟩ := eval_linear l ht s p.1 p.2 he
      refine ⟨by rw [← h]; exact hg, f, x, hf, hs, fun o => ?_⟩
      rw [predictOne_eq]; unfold contrib; rw [he]; simp only; rw [hv]

/-- `scale(sc)` keeps the groups and multiplies the prediction of group `g` by `sc[min(g, |sc|−1)]`: any scale vector for
    the table learners (stump, tables, trees), the one-element vector for affine / hinge (one group) -/
theorem scale_scales (l : Learner α) (sc : List α) (hsc : l.isTable ∨ ∃ c, sc = [c]) (s : Nat → FVal α) :
    splitOne (l.scale sc) s = splitOne l s ∧
    ∀ o, predictOne (l.scale sc) s zeroV o
      = predictOne l s zeroV o * (match splitOne l s with | some g => factor sc g | none => 1) := by
  have h := eval_scale l sc hsc s
  constructor
  · unfold splitOne; rw [h]; cases eval l s <;> rfl
  · intro o
    rw [predictOne_zero, predictOne_zero]
    unfold contrib splitOne
    rw [h]
    cases eval l s with
    | none => simp [zeroV]
    | some p => rfl

/-- merging a list of learners leaves the sum of their predictions unchanged (for every sample and output) -/
theorem merge_preserves_sum (ls : List (Learner α)) (s : Nat → FVal α) (o : Nat) :
    lsum ((merge ls).map fun l => predictOne l s zeroV o) = lsum (ls.map fun l => predictOne l s zeroV o) := by
  have h := mergeAux_sum ls.length ls s o
  unfold sumContrib at h
  unfold merge
  simp only [predictOne_zero]
  exact h

/-! ### non-vacuity: the hypotheses are satisfiable on concrete data over ℚ -/

section examples
local instance : FinTest ℚ := ⟨fun _ => true⟩
local instance : Log ℚ := ⟨fun x => x⟩

/-- three fitted samples (one of them twice), one scalar feature with a tie, one output -/
def exRows : List (Row ℚ) :=
  [⟨0, some 1, fun _ => 2⟩, ⟨1, some 1, fun _ => -1⟩, ⟨2, some 3, fun _ => 4⟩, ⟨2, some 3, fun _ => 4⟩, ⟨3, none, fun _ => 1⟩]

example : SortSpec (α := ℚ) (fun l => l.mergeSort itemLe) := mergeSort_sortSpec

/-- the stump fit on `exRows` has a candidate (so `stump_fit_optimal`'s second branch applies) -/
example : stumpAll (fun l => l.mergeSort itemLe) 1 (0 : ℚ) [(0, exRows)] ≠ [] := by
  intro he
  obtain ⟨c, hc, _⟩ := stumpCands_complete (fun l => l.mergeSort itemLe) mergeSort_sortSpec 1 (0 : ℚ) Crit.rss 0 exRows 2
    ⟨⟨1, 0, fun _ => 2⟩, by simp [exRows, present], by norm_num⟩
    ⟨⟨3, 2, fun _ => 4⟩, by simp [exRows, present], by norm_num⟩
  have : c ∈ stumpAll (fun l => l.mergeSort itemLe) 1 (0 : ℚ) [(0, exRows)] := by
    unfold stumpAll; simpa using hc
  rw [he] at this; simp at this

/-- the regular branch of the affine learner is reachable: on `exRows` `constant()` is false (`x2·x0 − x1² = 16 > 0`) -/
example : affineConst (1 / 100000000000 : ℚ) ((present exRows).foldl Item.upd Mom.zero) = false := by
  simp [exRows, present, affineConst, Item.upd, Mom.upd, Mom.zero]
  norm_num

/-- … and the degenerate branch on a constant feature -/
example : affineConst (1 / 100000000000 : ℚ)
    ((present [⟨0, some (1 / 10 : ℚ), fun _ => 2⟩, ⟨1, some (1 / 10), fun _ => -1⟩, ⟨2, some (1 / 10), fun _ => 4⟩]).foldl
      Item.upd Mom.zero) = true := by
  simp [present, affineConst, Item.upd, Mom.upd, Mom.zero]
  norm_num

/-- the hypotheses of `fit_assignment_independent` are satisfiable with an exact tie spread over two workers (features 0 and 2
    both score 1; the worker with the lower id holds feature 2): the fit returns feature 0 -/
example :
    let c0 : Cand ℚ := ⟨1, 1, 0, 0, 0, [], [], []⟩
    let c1 : Cand ℚ := ⟨3, 3, 1, 0, 0, [], [], []⟩
    let c2 : Cand ℚ := ⟨1, 1, 2, 0, 0, [], [], []⟩
    let feats : List (FeatC ℚ) := [(0, [c0]), (1, [c1]), (2, [c2])]
    let workers : List (List (FeatC ℚ)) := [[(2, [c2])], [], [(0, [c0]), (1, [c1])]]
    (∀ p ∈ feats, ∀ c ∈ p.2, c.feature = p.1) ∧ (feats.map Prod.fst).Pairwise (· < ·) ∧ WorkersSorted workers ∧
    workers.flatten.Perm feats ∧ (fitAssigned (10 : ℚ) (workers.map streamC)).feature = 0 := by
  refine ⟨by simp, by simp, by simp [WorkersSorted], ?_, ?_⟩
  · simp only [List.flatten_cons, List.flatten_nil, List.nil_append, List.append_nil, List.cons_append]
    exact (List.perm_middle (l₁ := [(0, [_]), (1, [_])]) (l₂ := [])).symm.trans (by simp)
  · simp [fitAssigned, streamC, fitSeq, pick, noFit, minReduce, lessSF, FinTest.isFin]
    try norm_num

/-- the table variant: the worker that holds the tying features 3 and 0 sees them in DEcreasing order (two loops); the
    lexicographic cache returns feature 0, the first-best cache of before 5de0896 would keep feature 3 -/
example :
    let m0 : Cand ℚ := ⟨1, 1, 0, 0, 0, [], [], []⟩
    let s1 : Cand ℚ := ⟨1, 1, 3, 0, 0, [], [], []⟩
    let workers : List (List (FeatC ℚ)) := [[(3, [s1]), (0, [m0])]]
    (fitAssignedLex (10 : ℚ) (workers.map streamC)).feature = 0 ∧ (fitAssigned (10 : ℚ) (workers.map streamC)).feature = 3 := by
  constructor
  · simp [fitAssignedLex, streamC, fitSeqLex, pickLex, noFit, minReduce, lessSF, FinTest.isFin]
    try norm_num
  · simp [fitAssigned, streamC, fitSeq, pick, noFit, minReduce, lessSF, FinTest.isFin]
    try norm_num

/-- merging two affine learners on the same feature gives one learner -/
example : (merge [Learner.affine 0 [fun _ => (1 : ℚ), fun _ => 2], Learner.affine 0 [fun _ => 3, fun _ => 4]]).length = 1 := by
  simp [merge, mergeAux, absorb, tryMerge]

end examples

end NanoVerif.WLearner
