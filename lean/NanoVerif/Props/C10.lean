import NanoVerif.Proofs.WLearnerBrute
import NanoVerif.Proofs.WLearnerTreeLeaves
import NanoVerif.Proofs.WLearnerKBestPredict
import NanoVerif.Proofs.WLearnerKSplitPredict
import NanoVerif.Proofs.WLearnerGen
import Mathlib.Algebra.Order.Field.Rat
import Mathlib.Tactic.NormNum
/-!
  C10 — weak learners fit residuals optimally in their class and predict consistently.

  Property theorems about `Model/WLearner.lean` (the model of `src/wlearner/*.cpp`, `include/nano/core/reduce.h`), for every
  linear ordered field `α` (exact arithmetic), every number of outputs `T`, every list of fitted samples (any subset,
  repetitions allowed: a `List`), every gradient tensor (residual `r = −g` per sample), every pattern of missing values.
  Conventions of the statements:
  * `hfin : ∀ y, FinTest.isFin y = true` — in exact arithmetic no computed score overflows (`std::isfinite(score)`);
  * `hbig : ∀ c ∈ cands, c.score < big` — `big` = `no_fit_score()` = `DBL_MAX` exceeds every computed score;
  * `hsort : SortSpec sort` — `std::sort` returns a sorted permutation (`mergeSort_sortSpec`: the driver's sort is one);
  * the criterion is `rss` (`make_score` = `cmax rss K`, `K` = `1e3·ε`); AIC/AICc/BIC need `log` and are only tested;
  * `cols` = the features a fit loops over, each with the rows (value, residual) of the fitted samples; every
    candidate remembers its feature; `fitSeq big cands` is what one thread returns, `fit_assignment_independent` makes
    the result independent of the thread assignment (ties included: `min_reduce_feature` breaks them by the feature index;
    `table_fit_assignment_independent`: the table learners' lexicographic caches need no order hypothesis;
    `old_fit_assignment_dependent`: the score-only rule before commit 62472c9 did depend on it).

  ## Translation round: model text regenerated from the C++ source on every check
  `tools/props/c10_translate.py` extracts the functions below BY NAME from the tree under check and writes `Gen/WLearnerCriterion.lean`,
  `Gen/WLearnerAccumulator.lean`, `Gen/WLearnerSweep.lean`, `Gen/WLearnerTable.lean`; `Proofs/WLearnerGen.lean` proves the hand-written text of `Model/WLearner.lean`
  equal to the generated one (all obligations; for EVERY scalar type with the model's operations — so also at `Float`, where the driver
  runs — except the theorems marked (F), which need a linear ordered field).
  | C++ (file: function)                                              | generated                         | model definition = generated (theorem) |
  |-------------------------------------------------------------------|-----------------------------------|-----------------------------------------|
  | criterion.h: `enum class wlearner_criterion`                      | `Criterion`                       | `Crit.toGen`, wire code = declaration index (`model_crit_code_is_generated`) |
  | core/stats.h: `AIC`, `AICc`, `BIC` (asserts → `AICAsserts`, `BICAsserts`) | `AIC`, `AICc`, `BIC`       | `aic`, `aicc`, `bic` (`model_aic_is_generated`) |
  | criterion.cpp: `make_score` (floor `ε·1e+3`, `switch`)             | `scoreFloor`, `makeScore`         | `makeScore` (`model_score_is_generated`); the driver's `clampK` IS `scoreFloor 2^-52` |
  | accumulator.h: `fit_constant`, `rss_zero`, `rss_constant`          | `fitConstant`, `rssZeroTerm`, `rssConstantTerm` | `fitConstant` (`model_fitConstant_is_generated`), `vsum ms.r2` (`model_affineCand_is_generated`); `rss_constant` has no caller in the library |
  | accumulator.h: `update(vgrad)`, `update(value, vgrad)`             | `upd0_x0/r1/r2`, `upd_x1/x2/rx`   | `Mom.upd0`, `Mom.upd` (`model_upd_moments_is_generated`, `model_upd_residuals_is_generated` (F): gradient vs residual form) |
  | affine.cpp: `cache_t::constant`, `w`, `b`, `rss_affine`, `score` (rss, k) | `constant`, `w`, `b`, `rssAffineTerm`, `affineRss`, `affineK` | `affineConst`, `affineW`, `affineB`, `affineRss`, `affineCand` (`model_affineConst/W/B/Rss/Cand_is_generated`) |
  | affine.cpp / hinge.cpp: `do_predict` element `w * value + b`       | `affinePredict`, `hingePredict`   | `lin` (`model_lin_is_generated`) |
  | stump.cpp: `::score`, `x0_pos/r1_pos/r2_pos`, `output_neg/pos`, `cache_t::score` (rss, k) | `stumpScoreTerm`, `stump_*_pos`, `stumpOutput_*`, `stumpRss`, `stumpK` | `sideScore`, `Mom.sub`, `stumpCand` (`model_sideScore/momSub/stumpCand_is_generated`) |
  | stump.cpp / hinge.cpp `do_fit`: `if (ivalue1.first < ivalue2.first)`, `0.5 * (ivalue1.first + ivalue2.first)`, `if (std::isfinite(score) && score < cache.m_score)` | `stump/hingeDistinct`, `stump/hingeThreshold`, `stump/hingeAccept` | `sweep`, `pick` (`model_sweep_is_generated_stump/_hinge`, `model_pick_is_generated`) |
  | stump.cpp: `do_predict` (`value < m_threshold ? lo : hi`), `split` (`? 0 : 1`) | `stumpPredict`, `stumpGroup` | `eval (.stump …)` (`model_stump_predict_is_generated`) |
  | hinge.cpp: `::beta`, `::score`, `*_pos`, `score_neg/score_pos` (both overloads: rss, k), second table row `-threshold * array(0)` | `hingeBeta`, `hingeScoreTerm`, `hinge_*_pos`, `hingeScore_*`, `hingeRss_*`, `hingeK_*`, `hingeIntercept` | `hingeBeta`, `hingeSide`, `hingeCands` (`model_hingeBeta/hingeSide/hingeCands_is_generated`) |
  | hinge.cpp: `do_predict` conditions `value < m_threshold` / `value >= m_threshold` | `hingeActive_left/right` | `eval (.hinge …)` (`model_hinge_predict_is_generated` (F)) |
  | table.cpp: `cache_t::score(bin)`, `score_dense / score_kbest / score_ksplit` (k, table rows, per-cluster RSS, the acceptance rule `std::isfinite(score) && (score < m_score \|\| (score == m_score && feature < m_feature))`), accumulator.cpp: the key of `accumulator_t::sort` | `Gen/WLearnerTable.lean`: `binScoreTerm`, `denseK/kbestK/ksplitK`, `denseRow/kbestRow`, `ksplitScoreTerm`, `tableAccept`, `binDelta` | `binScore`, `binMean`, `binDelta`, `cluScore`, `denseCand`, `kbestCandOf`, `ksplitCands`, `pickLex` (`model_binScore/cluScore/tableK_is_generated`, `model_pickLex_is_generated` (F)) |
  Shape checks without a generated definition (a different text is `vlib.Broken("translate")`): the sample count `n` handed to `make_score`
  (a `double` sum cast to an integer; `Nat` in the model), `return make_score(criterion, rss, k, n)`, the arguments of the `::score` / `::beta`
  calls, `ivalue1/2 = m_ivalues[iv + 0/1]`, the running `m_acc_neg.update` before the distinct-values rule, which table row gets which output.
  Hand-written still (tied by the differential run only): the loops of table.cpp (bins, prefix sums of the sorted deltas, the sorted kept bins,
  `update`, `process`), dtree.cpp, `accumulator_t::cluster`, the `std::sort` of `accumulator_t::sort`,
  `min_reduce_feature`, hashes, `scale` / `merge` of util.cpp, the loops around the element formulas (`clear`, the `loop_scalar` plumbing).
-/
set_option linter.unusedSectionVars false
set_option linter.unusedVariables false

namespace NanoVerif.WLearner
variable {α : Type} [Field α] [LinearOrder α] [IsStrictOrderedRing α]

/-! ### least squares in the classes -/

/-- The mean minimises `Σ_i Σ_o (r_io − c_o)²` and `Σ_o (r2_o − r1_o²/x0)` (the per-bin / per-side score computed from the
    accumulated moments) is that minimum — for every non-empty list of residual vectors. -/
theorem const_fit_optimal (T : Nat) (rs : List (Vec α)) (h : rs ≠ []) (c : Vec α) :
    binScore T (rs.foldl Mom.upd0 Mom.zero) ≤ lsum (rs.map fun r => sqErr T r c) ∧
    binScore T (rs.foldl Mom.upd0 Mom.zero)
      = lsum (rs.map fun r => sqErr T r (binMean (rs.foldl Mom.upd0 Mom.zero))) :=
  const_fit_vec T rs h c

/-- Regular branch of `cache_t::constant()` (`x2·x0 − x1² > ε₁·x2·x0`, which implies `x2·x0 − x1² > 0`): the closed form
    `(w, b)` of affine.cpp has the smallest RSS among all affine maps `w'·x + b'` of the feature (samples whose value is
    missing are predicted zero by every member of the class). -/
theorem affine_fit_optimal [Log α] {eps1 : α} (heps : 0 ≤ eps1) (T : Nat) (K : α) (crit : Crit) (f : Nat)
    (rows : List (Row α)) (hreg : affineConst eps1 ((present rows).foldl Item.upd Mom.zero) = false) (w' b' : Vec α) :
    0 < affineDen ((present rows).foldl Item.upd Mom.zero) ∧
    (affineCand eps1 T K crit f rows).rss ≤ rssOf T rows (affinePred w' b') :=
  ⟨(affineConst_false heps (present rows) hreg).1, affineCand_optimal_regular heps T K crit f rows hreg w' b'⟩

/-- Degenerate branch: on a feature that is constant over the fitted samples (also: no value present) `constant()` holds,
    the learner stores `w = 0, b = mean residual`, and this is optimal in the affine class. -/
theorem affine_constant_branch_optimal [Log α] {eps1 : α} (heps : 0 ≤ eps1) (T : Nat) (K : α) (crit : Crit) (f : Nat)
    (rows : List (Row α)) (c : α) (hconst : ∀ it ∈ present rows, it.v = c) (w' b' : Vec α) :
    affineConst eps1 ((present rows).foldl Item.upd Mom.zero) = true ∧
    (affineCand eps1 T K crit f rows).rss ≤ rssOf T rows (affinePred w' b') :=
  affineCand_optimal_constant heps T K crit f rows c hconst w' b'

/-! ### the sorted sweep -/

/-- The running accumulator of every candidate of the sweep equals the accumulator recomputed over a non-empty proper
    prefix of the sorted values, which is exactly the set of samples left of the candidate's threshold; the threshold is
    the mid-point of two distinct values and equals no value (any accumulator update, any start value). -/
theorem running_moments_eq_prefix (upd : Mom α → Item α → Mom α) (m0 : Mom α) (sorted : List (Item α))
    (hs : sorted.Pairwise (fun a b => a.v ≤ b.v)) (c : α × Mom α) (hc : c ∈ sweep upd m0 sorted) :
    (∃ l1 l2, sorted = l1 ++ l2 ∧ l1 ≠ [] ∧ l2 ≠ [] ∧ c.2 = l1.foldl upd m0) ∧
    c.2 = (sorted.filter fun it => decide (it.v < c.1)).foldl upd m0 ∧
    (∃ a b, a ∈ sorted ∧ b ∈ sorted ∧ a.v < b.v ∧ c.1 = half * (a.v + b.v)) ∧
    (∀ x ∈ sorted, x.v ≠ c.1) := by
  have h := sweep_sound upd m0 [] sorted (by simpa using hs) c (by simpa using hc)
  simp only [List.nil_append] at h
  exact ⟨h.pfx, h.acc, h.mid, h.ne_thr⟩

/-! ### decision stump -/

/-- What `stump_wlearner_t::fit` returns with the RSS criterion. No candidate exists exactly when no feature has two
    distinct present values (then `no_fit_score()`); otherwise the selected candidate's score is `max(rss, K)` where
    `rss` is the RSS (from the definition) of the stored stump, and no stump — any feature, ANY threshold that has present
    values on both sides (not only mid-points), any two output vectors — has a smaller (clamped) RSS. -/
theorem stump_fit_optimal [FinTest α] [Log α] (hfin : ∀ y : α, FinTest.isFin y = true)
    (sort : List (Item α) → List (Item α)) (hsort : SortSpec sort) (T : Nat) (K big : α)
    (cols : List (Nat × List (Row α))) (hbig : ∀ c ∈ stumpAll sort T K cols, c.score < big) :
    (stumpAll sort T K cols = [] →
      fitSeq big (stumpAll sort T K cols) = noFit big ∧
      ∀ p ∈ cols, ∀ a ∈ present p.2, ∀ b ∈ present p.2, ¬ a.v < b.v) ∧
    (stumpAll sort T K cols ≠ [] →
      ∃ p ∈ cols, StumpCandSpec T K p.1 p.2 (fitSeq big (stumpAll sort T K cols)) ∧
        ∀ q ∈ cols, ∀ (t : α) (lo hi : Vec α), (∃ it ∈ present q.2, it.v < t) → (∃ it ∈ present q.2, ¬ it.v < t) →
          (fitSeq big (stumpAll sort T K cols)).score ≤ cmax (rssOf T q.2 (stumpPred t lo hi)) K) := by
  obtain ⟨hnil, hcons⟩ := fitSeq_min hfin big (stumpAll sort T K cols) hbig
  constructor
  · intro he
    refine ⟨hnil he, ?_⟩
    intro p hp a ha b hb hab
    obtain ⟨c, hc, _⟩ := stumpCands_complete sort hsort T K Crit.rss p.1 p.2 (half * (a.v + b.v))
      ⟨a, ha, lt_mid hab⟩ ⟨b, hb, not_lt.mpr (le_of_lt (mid_lt hab))⟩
    have : c ∈ stumpAll sort T K cols := List.mem_flatMap.mpr ⟨p, hp, hc⟩
    rw [he] at this; simp at this
  · intro hne
    obtain ⟨hmem, hmin⟩ := hcons hne
    obtain ⟨p, hp, hbest⟩ := List.mem_flatMap.mp hmem
    refine ⟨p, hp, stumpCands_spec sort hsort T K p.1 p.2 _ hbest, ?_⟩
    intro q hq t lo hi hl hr
    obtain ⟨c, hc, hsame⟩ := stumpCands_complete sort hsort T K Crit.rss q.1 q.2 t hl hr
    have hcs := stumpCands_spec sort hsort T K q.1 q.2 c hc
    have h1 := hmin c (List.mem_flatMap.mpr ⟨q, hq, hc⟩)
    have h2 : c.rss ≤ rssOf T q.2 (stumpPred t lo hi) := by
      rw [← hsame lo hi]; exact hcs.coeff_opt lo hi
    rw [hcs.score] at h1
    exact le_trans h1 (cmax_mono K h2)

/-- The same result as an equation: the reported score is `max(m, K)` where `m` is the brute-force minimum — over all
    features and all mid-points of two distinct present values — of the RSS, computed from the definition, of the stump
    whose two outputs are the means of its two sides. -/
theorem stump_fit_eq_brute [FinTest α] [Log α] (hfin : ∀ y : α, FinTest.isFin y = true)
    (sort : List (Item α) → List (Item α)) (hsort : SortSpec sort) (T : Nat) (K big : α)
    (cols : List (Nat × List (Row α))) (hbig : ∀ c ∈ stumpAll sort T K cols, c.score < big) :
    (stumpAll sort T K cols = [] → stumpBrute T (cols.map (·.2)) = none) ∧
    (stumpAll sort T K cols ≠ [] → ∃ m, stumpBrute T (cols.map (·.2)) = some m ∧
      (fitSeq big (stumpAll sort T K cols)).score = cmax m K) := by
  obtain ⟨hA, hB⟩ := stump_fit_optimal hfin sort hsort T K big cols hbig
  -- the brute-force list
  have hbl : ∀ e, e ∈ ((cols.map (·.2)).flatMap fun rows => (midpoints (presentVals rows)).map (stumpBruteAt T rows)) ↔
      ∃ p ∈ cols, ∃ a ∈ present p.2, ∃ b ∈ present p.2, a.v < b.v ∧ e = stumpBruteAt T p.2 (half * (a.v + b.v)) := by
    intro e
    simp only [List.mem_flatMap, List.mem_map]
    constructor
    · rintro ⟨rows, ⟨p, hp, rfl⟩, t, ht, rfl⟩
      obtain ⟨a, ha, b, hb, hab, rfl⟩ := (mem_midpoints _ t).mp ht
      rw [presentVals_eq] at ha hb
      obtain ⟨ia, hia, rfl⟩ := List.mem_map.mp ha
      obtain ⟨ib, hib, rfl⟩ := List.mem_map.mp hb
      exact ⟨p, hp, ia, hia, ib, hib, hab, rfl⟩
    · rintro ⟨p, hp, a, ha, b, hb, hab, rfl⟩
      refine ⟨p.2, ⟨p, hp, rfl⟩, half * (a.v + b.v), ?_, rfl⟩
      rw [mem_midpoints, presentVals_eq]
      exact ⟨a.v, List.mem_map.mpr ⟨a, ha, rfl⟩, b.v, List.mem_map.mpr ⟨b, hb, rfl⟩, hab, rfl⟩
  constructor
  · intro he
    obtain ⟨_, hno⟩ := hA he
    unfold stumpBrute
    apply (lmin?_spec _).1
    apply List.eq_nil_iff_forall_not_mem.mpr
    intro e hmem
    obtain ⟨p, hp, a, ha, b, hb, hab, _⟩ := (hbl e).mp hmem
    exact hno p hp a ha b hb hab
  · intro hne
    obtain ⟨p, hp, hspec, hopt⟩ := hB hne
    obtain ⟨a, b, ha, hb, hab, hthr⟩ := hspec.mid
    have hmem0 : stumpBruteAt T p.2 (half * (a.v + b.v)) ∈
        ((cols.map (·.2)).flatMap fun rows => (midpoints (presentVals rows)).map (stumpBruteAt T rows)) :=
      (hbl _).mpr ⟨p, hp, a, ha, b, hb, hab, rfl⟩
    obtain ⟨m, hm, hmmem, hmmin⟩ := (lmin?_spec _).2 (List.ne_nil_of_mem hmem0)
    refine ⟨m, hm, le_antisymm ?_ ?_⟩
    · -- the fitted score is below every brute-force entry
      obtain ⟨q, hq, a', ha', b', hb', hab', rfl⟩ := (hbl m).mp hmmem
      unfold stumpBruteAt
      exact hopt q hq _ _ _ ⟨a', ha', lt_mid hab'⟩ ⟨b', hb', not_lt.mpr (le_of_lt (mid_lt hab'))⟩
    · -- the brute-force entry at the fitted threshold is below the fitted RSS
      rw [hspec.score]
      apply cmax_mono
      obtain ⟨hl, hr⟩ := sides_of_midpoint (present p.2) a b ha hb hab
      have h1 := stumpBruteAt_le T p.2 (half * (a.v + b.v)) hl hr
        (tab (fitSeq big (stumpAll sort T K cols)).tables 0) (tab (fitSeq big (stumpAll sort T K cols)).tables 1)
      rw [← hthr, ← hspec.rss_eq] at h1
      rw [← hthr] at hmem0
      exact le_trans (hmmin _ hmem0) h1

/-! ### hinge -/

/-- What `hinge_wlearner_t::fit` returns with the RSS criterion: the selected candidate's score is `max(rss, K)`, `rss` is
    the RSS of the stored hinge `β·(x − t)₊ / β·(t − x)₋`, and it is the minimum over the class found by brute force: every
    feature, every mid-point `t` between two consecutive distinct present values, both directions, every slope vector. -/
theorem hinge_fit_eq_brute [FinTest α] [Log α] (hfin : ∀ y : α, FinTest.isFin y = true)
    (sort : List (Item α) → List (Item α)) (hsort : SortSpec sort) (T : Nat) (K big : α)
    (cols : List (Nat × List (Row α))) (hbig : ∀ c ∈ hingeAll sort T K cols, c.score < big) :
    (hingeAll sort T K cols = [] →
      fitSeq big (hingeAll sort T K cols) = noFit big ∧
      ∀ p ∈ cols, ∀ a ∈ present p.2, ∀ b ∈ present p.2, ¬ a.v < b.v) ∧
    (hingeAll sort T K cols ≠ [] →
      ∃ p ∈ cols, HingeCandSpec T K p.1 p.2 (fitSeq big (hingeAll sort T K cols)) ∧
        ∀ q ∈ cols, ∀ a ∈ present q.2, ∀ b ∈ present q.2, a.v < b.v →
          (∀ z ∈ present q.2, ¬ (a.v < z.v ∧ z.v < b.v)) → ∀ (left : Bool) (beta : Vec α),
          (fitSeq big (hingeAll sort T K cols)).score
            ≤ cmax (rssOf T q.2 (hingePred (half * (a.v + b.v)) left beta)) K) := by
  obtain ⟨hnil, hcons⟩ := fitSeq_min hfin big (hingeAll sort T K cols) hbig
  -- two distinct present values ⇒ two consecutive distinct present values ⇒ a candidate
  have hexists : ∀ p ∈ cols, ∀ a ∈ present p.2, ∀ b ∈ present p.2, a.v < b.v → hingeAll sort T K cols ≠ [] := by
    intro p hp a ha b hb hab
    have hperm := hsort.perm (present p.2)
    obtain ⟨sc, hsc, _⟩ := sweep_complete Item.upd (half * (a.v + b.v)) (sort (present p.2)) Mom.zero (hsort.sorted _)
      ⟨a, hperm.symm.subset ha, lt_mid hab⟩ ⟨b, hperm.symm.subset hb, not_lt.mpr (le_of_lt (mid_lt hab))⟩
    intro he
    have hex : ∃ c, c ∈ hingeCands T K Crit.rss p.1 ((present p.2).foldl Item.upd Mom.zero) (missRss T p.2)
        (missCnt p.2) sc := by
      simp only [hingeCands]; exact ⟨_, List.mem_cons_self⟩
    obtain ⟨c, hc⟩ := hex
    have : c ∈ hingeAll sort T K cols :=
      List.mem_flatMap.mpr ⟨p, hp, List.mem_flatMap.mpr ⟨sc, hsc, hc⟩⟩
    rw [he] at this; simp at this
  constructor
  · intro he
    refine ⟨hnil he, ?_⟩
    intro p hp a ha b hb hab
    exact hexists p hp a ha b hb hab he
  · intro hne
    obtain ⟨hmem, hmin⟩ := hcons hne
    obtain ⟨p, hp, hbest⟩ := List.mem_flatMap.mp hmem
    refine ⟨p, hp, hingeCands_spec sort hsort T K p.1 p.2 _ hbest, ?_⟩
    intro q hq a ha b hb hab hadj left beta
    obtain ⟨c, hc, hthr, hdir⟩ := hingeCands_complete sort hsort T K Crit.rss q.1 q.2 a b ha hb hab hadj
      (if left then 0 else 1) (by cases left <;> simp)
    have hcs := hingeCands_spec sort hsort T K q.1 q.2 c hc
    have h1 := hmin c (List.mem_flatMap.mpr ⟨q, hq, hc⟩)
    have h2 := hcs.coeff_opt beta
    rw [hthr, hdir] at h2
    have hl : ((if left then 0 else 1 : Nat) == 0) = left := by cases left <;> rfl
    rw [hl] at h2
    rw [hcs.score] at h1
    exact le_trans h1 (cmax_mono K h2)

/-! ### look-up tables -/

/-- What `dense_table_wlearner_t::fit` returns with the RSS criterion (at least one categorical feature): the score is
    `max(m, K)` where `m` is the brute-force minimum over the features of the RSS of the table of per-label-set means, the
    stored table is that table, and no table on any feature — any vector per label set — has a smaller (clamped) RSS. -/
theorem table_fit_eq_brute [FinTest α] [Log α] (hfin : ∀ y : α, FinTest.isFin y = true) (T : Nat) (K big : α)
    (cols : List (Nat × List (CRow α))) (hne : cols ≠ []) (hbig : ∀ c ∈ denseAll T K cols, c.score < big) :
    (∃ p ∈ cols, fitSeq big (denseAll T K cols) = denseCand T K Crit.rss p.1 p.2 ∧
      (fitSeq big (denseAll T K cols)).rss = rssOfC T p.2 (tablePred (denseTable p.2))) ∧
    (∀ q ∈ cols, ∀ tbl : Nat → Vec α,
      (fitSeq big (denseAll T K cols)).score ≤ cmax (rssOfC T q.2 (tablePred tbl)) K) ∧
    (∃ m, denseBrute T (cols.map (·.2)) = some m ∧ (fitSeq big (denseAll T K cols)).score = cmax m K) := by
  have hcne : denseAll T K cols ≠ [] := by
    unfold denseAll; simpa using hne
  obtain ⟨hmem, hmin⟩ := (fitSeq_min hfin big (denseAll T K cols) hbig).2 hcne
  obtain ⟨p, hp, hbest⟩ := List.mem_map.mp hmem
  have hopt : ∀ q ∈ cols, ∀ tbl : Nat → Vec α,
      (fitSeq big (denseAll T K cols)).score ≤ cmax (rssOfC T q.2 (tablePred tbl)) K := by
    intro q hq tbl
    have h1 := hmin _ (List.mem_map.mpr ⟨q, hq, rfl⟩)
    have h2 := (denseCand_spec T K Crit.rss q.1 q.2).2 tbl
    have hs : (denseCand T K Crit.rss q.1 q.2).score = cmax (denseCand T K Crit.rss q.1 q.2).rss K := by
      simp only [denseCand, makeScore]
    rw [hs] at h1
    exact le_trans h1 (cmax_mono K h2)
  have hbrute : ∀ rows : List (CRow α), denseBruteAt T rows = rssOfC T rows (tablePred (denseTable rows)) := by
    intro rows
    unfold denseBruteAt rssOfC
    apply lsum_map_congr; intro row _
    apply sqErr_congr; intro o
    cases row.h with
    | none => rfl
    | some h =>
      simp only [tablePred, denseTable]
      rw [meanOf_eq, binMom_eq]; rfl
  refine ⟨⟨p, hp, hbest.symm, ?_⟩, hopt, ?_⟩
  · rw [← hbest]; exact (denseCand_spec T K Crit.rss p.1 p.2).1
  · have hlne : (cols.map (·.2)).map (denseBruteAt T) ≠ [] := by simpa using hne
    obtain ⟨m, hm, hmmem, hmmin⟩ := (lmin?_spec _).2 hlne
    refine ⟨m, hm, le_antisymm ?_ ?_⟩
    · obtain ⟨rows, hrows, rfl⟩ := List.mem_map.mp hmmem
      obtain ⟨q, hq, rfl⟩ := List.mem_map.mp hrows
      rw [hbrute]; exact hopt q hq _
    · have hs : (fitSeq big (denseAll T K cols)).score = cmax (fitSeq big (denseAll T K cols)).rss K := by
        rw [← hbest]; simp only [denseCand, makeScore]
      rw [hs]
      apply cmax_mono
      have : denseBruteAt T p.2 ∈ (cols.map (·.2)).map (denseBruteAt T) :=
        List.mem_map.mpr ⟨p.2, List.mem_map.mpr ⟨p, hp, rfl⟩, rfl⟩
      have h1 := hmmin _ this
      rw [hbrute] at h1
      rw [← hbest, (denseCand_spec T K Crit.rss p.1 p.2).1]
      exact h1

/-- What `dstep_table_wlearner_t::fit` returns with the RSS criterion (as the code is since 0bb37f2: a feature without any
    present value yields no candidate): the stored one-row table is on a label set present among the fitted samples, its
    reported RSS is the RSS of its predictions, and no one-label-set table — any feature, any label set, any vector — has a
    smaller (clamped) RSS. -/
theorem dstep_fit_optimal [FinTest α] [Log α] (hfin : ∀ y : α, FinTest.isFin y = true) (T : Nat) (K big : α)
    (cols : List (Nat × List (CRow α))) (hbig : ∀ c ∈ dstepAll T K cols, c.score < big) :
    (dstepAll T K cols = [] → fitSeq big (dstepAll T K cols) = noFit big ∧ ∀ p ∈ cols, hashesOf p.2 = []) ∧
    (dstepAll T K cols ≠ [] →
      (∃ p ∈ cols, ∃ h0 ∈ hashesOf p.2, fitSeq big (dstepAll T K cols) = dstepCandOf T K Crit.rss p.1 p.2 h0 ∧
        (fitSeq big (dstepAll T K cols)).rss
          = rssOfC T p.2 (stepPred h0 (tab (fitSeq big (dstepAll T K cols)).tables 0))) ∧
      ∀ q ∈ cols, hashesOf q.2 ≠ [] → ∀ (h' : Nat) (c' : Vec α),
        (fitSeq big (dstepAll T K cols)).score ≤ cmax (rssOfC T q.2 (stepPred h' c')) K) := by
  obtain ⟨hnil, hcons⟩ := fitSeq_min hfin big (dstepAll T K cols) hbig
  have hmemAll : ∀ q ∈ cols, hashesOf q.2 ≠ [] → ∃ h0 ∈ hashesOf q.2,
      dstepCandOf T K Crit.rss q.1 q.2 h0 ∈ dstepAll T K cols ∧
      ∀ (h' : Nat) (c' : Vec α), (dstepCandOf T K Crit.rss q.1 q.2 h0).rss ≤ rssOfC T q.2 (stepPred h' c') := by
    intro q hq hh
    obtain ⟨h0, hm0, hc, hopt⟩ := (dstepCand_spec T K Crit.rss q.1 q.2).2 hh
    exact ⟨h0, hm0, List.mem_flatMap.mpr ⟨q, hq, by rw [hc]; simp⟩, hopt⟩
  constructor
  · intro he
    refine ⟨hnil he, ?_⟩
    intro p hp
    by_contra hh
    obtain ⟨h0, _, hm, _⟩ := hmemAll p hp hh
    rw [he] at hm; simp at hm
  · intro hne
    obtain ⟨hmem, hmin⟩ := hcons hne
    obtain ⟨p, hp, hbest⟩ := List.mem_flatMap.mp hmem
    constructor
    · cases hd : dstepCand T K Crit.rss p.1 p.2 with
      | none => rw [hd] at hbest; simp at hbest
      | some c =>
        rw [hd] at hbest
        simp at hbest
        have hh : hashesOf p.2 ≠ [] := by
          intro e
          rw [(dstepCand_spec T K Crit.rss p.1 p.2).1 e] at hd; simp at hd
        obtain ⟨h0, hm0, hc, _⟩ := (dstepCand_spec T K Crit.rss p.1 p.2).2 hh
        rw [hd] at hc
        simp at hc
        refine ⟨p, hp, h0, hm0, by rw [hbest, hc], ?_⟩
        rw [hbest, hc]
        exact (dstepCandOf_spec T K Crit.rss p.1 p.2 h0 hm0).1
    · intro q hq hh h' c'
      obtain ⟨h0, _, hm, hopt⟩ := hmemAll q hq hh
      have h1 := hmin _ hm
      have hs : (dstepCandOf T K Crit.rss q.1 q.2 h0).score = cmax (dstepCandOf T K Crit.rss q.1 q.2 h0).rss K := by
        simp only [dstepCandOf, makeScore]
      rw [hs] at h1
      exact le_trans h1 (cmax_mono K (hopt h' c'))

/-! ### the fitted learner's predictions reproduce the reported RSS -/

/-- For every candidate a stump / hinge / affine / dense-table fit can select, the value handed to `make_score` is the RSS
    of the predictions (`predict` from zero outputs) of the learner that `fit` stores for it (`Cand.toStump` …), over the
    fitted samples. -/
theorem fit_predict_reproduces_rss [Log α] (sort : List (Item α) → List (Item α)) (hsort : SortSpec sort)
    (T : Nat) (K eps1 : α) (f : Nat) :
    (∀ (rows : List (Row α)), ∀ c ∈ stumpCands sort T K Crit.rss f rows, c.rss = predRss T c.toStump f rows) ∧
    (∀ (rows : List (Row α)), ∀ c ∈ hingeFeatureCands sort T K Crit.rss f rows, c.rss = predRss T c.toHinge f rows) ∧
    (∀ (rows : List (Row α)) (crit : Crit),
      (affineCand eps1 T K crit f rows).rss = predRss T (affineCand eps1 T K crit f rows).toAffine f rows) ∧
    (∀ (rows : List (CRow α)) (crit : Crit),
      (denseCand T K crit f rows).rss = predRssC T (denseCand T K crit f rows).toTable f rows) := by
  refine ⟨?_, ?_, ?_, ?_⟩
  · intro rows c hc
    have hs := stumpCands_spec sort hsort T K f rows c hc
    rw [hs.rss_eq]
    unfold rssOf predRss
    apply lsum_map_congr; intro row _
    apply sqErr_congr; intro o
    rw [predictOne_zero]
    unfold Cand.toStump
    rw [contrib_stump c.feature c.thr c.tables _ row.x (by rw [hs.feature]; exact sampleOf_self f _)]
  · intro rows c hc
    have hs := hingeCands_spec sort hsort T K f rows c hc
    rw [hs.rss_eq]
    unfold rssOf predRss
    apply lsum_map_congr; intro row _
    apply sqErr_congr; intro o
    rw [predictOne_zero]
    unfold Cand.toHinge
    rw [contrib_hinge c.feature c.thr (c.dir == 0) c.tables _ row.x (by rw [hs.feature]; exact sampleOf_self f _)
      hs.offset o]
  · intro rows crit
    rw [affineCand_rss_eq]
    unfold rssOf predRss
    apply lsum_map_congr; intro row _
    apply sqErr_congr; intro o
    rw [predictOne_zero]
    unfold Cand.toAffine
    rw [contrib_affine _ _ _ row.x (by exact sampleOf_self f _)]
  · intro rows crit
    rw [(denseCand_spec T K crit f rows).1]
    unfold rssOfC predRssC
    apply lsum_map_congr; intro row hrow
    apply sqErr_congr; intro o
    rw [predictOne_zero]
    rw [dense_contrib T K crit f rows _ row.h (by exact sampleOf_self f _)
      (fun h hh => (mem_hashesOf rows h).mpr ⟨row, hrow, hh⟩)]

/-! ### threads -/

/-- `min_reduce_feature` over the per-thread caches (reduce.h, commit 62472c9) returns the candidate a single thread
    returns. `feats` = the features a fit loops over in increasing index order, each with its candidates in the order of its
    sweep, every candidate remembering its feature (`hidx`: `stumpCands … f rows`, `hingeFeatureCands`, `affineCand`,
    `denseCand`, `dstepCand` all set `feature := f`); `workers` = per worker, the features it processed, in its order.
    Every feature is processed by exactly one worker (`hperm`, the pool's contract C17) and every worker processes ITS
    features in increasing index order (`WorkersSorted`, decidable; what `pool_t::map` produces). NO hypothesis on the
    scores — exact ties between features / thresholds are allowed, non-finite scores and scores ≥ `big` too. Then for
    EVERY such assignment, any number of workers (none included):
      * the fit returns exactly what one thread seeing all features in order returns, and
      * that is the empty cache iff no candidate is storable (finite, below `no_fit_score()`), otherwise a storable candidate
        with the minimal score and, among those with the minimal score, the smallest feature index. -/
theorem fit_assignment_independent [FinTest α] (big : α) (feats : List (FeatC α)) (workers : List (List (FeatC α)))
    (hidx : ∀ p ∈ feats, ∀ c ∈ p.2, c.feature = p.1) (hinc : (feats.map Prod.fst).Pairwise (· < ·))
    (hperm : workers.flatten.Perm feats) (hsorted : WorkersSorted workers) :
    fitAssigned big (workers.map streamC) = fitSeq big (streamC feats) ∧
    ((fitSeq big (streamC feats) = noFit big ∧
        ∀ y ∈ streamC feats, ¬ (FinTest.isFin y.score = true ∧ y.score < big)) ∨
     (fitSeq big (streamC feats) ∈ streamC feats ∧
        (FinTest.isFin (fitSeq big (streamC feats)).score = true ∧ (fitSeq big (streamC feats)).score < big) ∧
        ∀ y ∈ streamC feats, (FinTest.isFin y.score = true ∧ y.score < big) →
          (fitSeq big (streamC feats)).score ≤ y.score ∧
          (y.score = (fitSeq big (streamC feats)).score → (fitSeq big (streamC feats)).feature ≤ y.feature))) := by
  have h1 := fitAssigned_sorted big feats workers hidx hinc hperm hsorted
  have h2 := fitSeq_sorted big feats hidx hinc
  exact ⟨bestC_unique big _ _ _ h1 h2, bestC_lexmin big feats hidx _ h2⟩

/-- The TABLE learners (dense, discrete-step; k-best / k-split use the same cache): since commit 5de0896 their per-thread
    caches use the lexicographic test of `min_reduce_feature` too (`pickLex`), because a table fit runs two loops (single-label,
    then multi-label features) into the same caches and a cache may see feature indices out of order. NO hypothesis on the
    order in which a worker sees its features and none on the scores: `feats` in any order with pairwise distinct indices,
    `workers` ANY distribution of them (`hperm`), each worker in ANY order. The fit returns what one cache seeing `feats` in
    the given order returns, and that is the lexicographic minimum of (score, feature index) over the storable candidates. -/
theorem table_fit_assignment_independent [FinTest α] (big : α) (feats : List (FeatC α)) (workers : List (List (FeatC α)))
    (hidx : ∀ p ∈ feats, ∀ c ∈ p.2, c.feature = p.1) (hnd : (feats.map Prod.fst).Nodup)
    (hperm : workers.flatten.Perm feats) :
    fitAssignedLex big (workers.map streamC) = fitSeqLex big (streamC feats) ∧
    ((fitSeqLex big (streamC feats) = noFit big ∧
        ∀ y ∈ streamC feats, ¬ (FinTest.isFin y.score = true ∧ y.score < big)) ∨
     (fitSeqLex big (streamC feats) ∈ streamC feats ∧
        (FinTest.isFin (fitSeqLex big (streamC feats)).score = true ∧ (fitSeqLex big (streamC feats)).score < big) ∧
        ∀ y ∈ streamC feats, (FinTest.isFin y.score = true ∧ y.score < big) →
          (fitSeqLex big (streamC feats)).score ≤ y.score ∧
          (y.score = (fitSeqLex big (streamC feats)).score → (fitSeqLex big (streamC feats)).feature ≤ y.feature))) := by
  have h1 := fitAssignedLex_any big feats workers hidx hnd hperm
  have h2 := fitSeqLex_any big feats hidx hnd
  exact ⟨bestC_unique big _ _ _ h1 h2, bestC_lexmin big feats hidx _ h2⟩

/-- On features visited in increasing index order (what the correspondence run feeds the model, and what the theorems
    `table_fit_eq_brute` / `dstep_fit_optimal` are stated about) the lexicographic cache of the table learners returns exactly
    what the first-best cache returns. -/
theorem table_cache_eq_first_best [FinTest α] (big : α) (feats : List (FeatC α))
    (hidx : ∀ p ∈ feats, ∀ c ∈ p.2, c.feature = p.1) (hinc : (feats.map Prod.fst).Pairwise (· < ·)) :
    fitSeqLex big (streamC feats) = fitSeq big (streamC feats) :=
  bestC_unique big _ _ _ (fitSeqLex_any big feats hidx (hinc.imp (fun h => Nat.ne_of_lt h)))
    (fitSeq_sorted big feats hidx hinc)

/-- The rule BEFORE commit 62472c9 (`min_reduce`: score only, `fitAssignedOld`) depends on the assignment under an exact
    tie, on index-sorted workers: features 0 and 2 tie on the minimal score 1 and sit on different workers — the cache of
    the lower worker id wins, whichever feature it holds; the present rule gives feature 0 both times. -/
theorem old_fit_assignment_dependent :
    ∃ (_ : FinTest ℚ) (feats : List (FeatC ℚ)) (workers workers' : List (List (FeatC ℚ))),
      (∀ p ∈ feats, ∀ c ∈ p.2, c.feature = p.1) ∧ (feats.map Prod.fst).Pairwise (· < ·) ∧
      workers.flatten.Perm feats ∧ workers'.flatten.Perm feats ∧ WorkersSorted workers ∧ WorkersSorted workers' ∧
      (fitAssignedOld (10 : ℚ) (workers.map streamC)).feature = 0 ∧
      (fitAssignedOld (10 : ℚ) (workers'.map streamC)).feature = 2 ∧
      (fitAssigned (10 : ℚ) (workers.map streamC)).feature = 0 ∧
      (fitAssigned (10 : ℚ) (workers'.map streamC)).feature = 0 := by
  let c0 : Cand ℚ := ⟨1, 1, 0, 0, 0, [], [], []⟩
  let c2 : Cand ℚ := ⟨1, 1, 2, 0, 0, [], [], []⟩
  refine ⟨⟨fun _ => true⟩, [(0, [c0]), (2, [c2])], [[(0, [c0])], [(2, [c2])]], [[(2, [c2])], [(0, [c0])]],
    ?_, ?_, ?_, ?_, ?_, ?_, ?_, ?_, ?_, ?_⟩
  · simp [c0, c2]
  · simp
  · exact List.Perm.refl _
  · exact List.Perm.swap _ _ _
  · simp [WorkersSorted]
  · simp [WorkersSorted]
  all_goals
    simp [fitAssignedOld, fitAssigned, streamC, fitSeq, pick, noFit, minReduceOld, minReduce, lessSF, FinTest.isFin, c0, c2]
    try norm_num

/-! ### predict / split / scale / merge (all learners, including k-best / k-split tables and decision trees) -/

/-- predictions are added to the given outputs -/
theorem predict_adds (l : Learner α) (s : Nat → FVal α) (out : Vec α) (o : Nat) :
    predictOne l s out o = out o + predictOne l s zeroV o := by
  rw [predictOne_eq, predictOne_zero]

/-- a sample whose selected feature (the root feature of a tree) is missing is not assigned and its outputs are unchanged -/
theorem predict_missing_zero (l : Learner α) (s : Nat → FVal α) (f : Nat) (hf : l.rootFeature = some f)
    (hm : s f = FVal.missing) (out : Vec α) :
    predictOne l s out = out ∧ splitOne l s = none := by
  have := eval_missing l s f hf hm
  simp [predictOne, splitOne, this]

/-- the prediction of a sample is the table row of the group `split()` reports for it (stump, every look-up table,
    decision tree), `w·x + b` on group 0 (affine, hinge); a sample that `split()` does not assign gets nothing -/
theorem predict_eq_table_of_split (l : Learner α) (s : Nat → FVal α) (out : Vec α) :
    (splitOne l s = none → predictOne l s out = out) ∧
    (∀ g, splitOne l s = some g → l.isTable → ∀ o, predictOne l s out o = out o + tab l.tables g o) ∧
    (∀ g, splitOne l s = some g → ¬ l.isTable →
      g = 0 ∧ ∃ f x, l.rootFeature = some f ∧ s f = FVal.num x ∧ ∀ o, predictOne l s out o = out o + lin l.tables x o) := by
  refine ⟨?_, ?_, ?_⟩
  · intro h
    unfold splitOne at h
    cases he : eval l s with
    | none => simp [predictOne, he]
    | some p => rw [he] at h; simp at h
  · intro g h ht o
    unfold splitOne at h
    cases he : eval l s with
    | none => rw [he] at h; simp at h
    | some p =>
      rw [he] at h; simp at h
      have hv := eval_isTable l ht s p.1 p.2 he
      rw [predictOne_eq]; unfold contrib; rw [he]; simp only; rw [hv, h]
  · intro g h ht
    unfold splitOne at h
    cases he : eval l s with
    | none => rw [he] at h; simp at h
    | some p =>
      rw [he] at h; simp at h
      obtain ⟨hg, f, x, hf, hs, hv⟩ := eval_linear l ht s p.1 p.2 he
      refine ⟨by rw [← h]; exact hg, f, x, hf, hs, fun o => ?_⟩
      rw [predictOne_eq]; unfold contrib; rw [he]; simp only; rw [hv]

/-- `scale(sc)` keeps the groups and multiplies the prediction of group `g` by `sc[min(g, |sc|−1)]`: any scale vector for
    the table learners (stump, tables, trees), the one-element vector for affine / hinge (one group) -/
theorem scale_scales (l : Learner α) (sc : List α) (hsc : l.isTable ∨ ∃ c, sc = [c]) (s : Nat → FVal α) :
    splitOne (l.scale sc) s = splitOne l s ∧
    ∀ o, predictOne (l.scale sc) s zeroV o
      = predictOne l s zeroV o * (match splitOne l s with | some g => factor sc g | none => 1) := by
  have h := eval_scale l sc hsc s
  constructor
  · unfold splitOne; rw [h]; cases eval l s <;> rfl
  · intro o
    rw [predictOne_zero, predictOne_zero]
    unfold contrib splitOne
    rw [h]
    cases eval l s with
    | none => simp [zeroV]
    | some p => rfl

/-- merging a list of learners leaves the sum of their predictions unchanged (for every sample and output) -/
theorem merge_preserves_sum (ls : List (Learner α)) (s : Nat → FVal α) (o : Nat) :
    lsum ((merge ls).map fun l => predictOne l s zeroV o) = lsum (ls.map fun l => predictOne l s zeroV o) := by
  have h := mergeAux_sum ls.length ls s o
  unfold sumContrib at h
  unfold merge
  simp only [predictOne_zero]
  exact h

/-! ### decision tree: the fit (`dtree_wlearner_t::do_fit`, Model/WLearnerTree.lean)

  `cfg : TreeCfg α` = what do_fit reads from its environment: the dataset size `N`, `max_depth`, `min_samples_size`, the
  feature values `val sample feature` and the stump fit on a sample list as an ORACLE `cfg.fit` (any function): the
  structural theorems hold for every such oracle; `dtree_leaf_table_is_mean` instantiates it with the modelled stump fit
  (`stumpTreeCfg`). `st.log` is the ghost log: entry `j` = the `j`-th processed cache (its sample list, the candidate the
  stump fit returned for it, terminal or not); its node pair is `2j, 2j+1`, a terminal entry owns the table rows
  `tbase st.log j`, `tbase st.log j + 1`. All sample lists (repetitions, any order), all depths, all oracles. -/

/-- do_fit terminates by itself: the model's fuel `2^max_depth` is never exhausted (at most `2^max_depth − 1` caches). -/
theorem dtreeFit_fuel_enough (cfg : TreeCfg α) (hd : 1 ≤ cfg.maxDepth) (samples : List Nat) :
    dtreeFit cfg samples ≠ .fuel :=
  dtreeFit_fuel_enough' cfg hd samples

/-- (a) `max_depth = 1`: the tree is fitted iff the stump is; it then has the stump's score, one node pair carrying the
    stump's feature and threshold, the stump's two tables, and `split` / `predict` (`eval`: group and added vector) agree
    with the stump's on EVERY sample (missing values included). (The statement's "tree of depth 1 = stump"; dtree.cpp fits
    only stumps at its nodes, there is no table alternative in the code.) -/
theorem dtree_depth1_eq_stump (cfg : TreeCfg α) (h1 : cfg.maxDepth = 1) (samples : List Nat) :
    (cfg.fit samples = none → dtreeFit cfg samples = .nofit TState.init) ∧
    (∀ cand, cfg.fit samples = some cand → ∃ st, dtreeFit cfg samples = .ok st ∧ st.score = cand.score ∧
      st.nodes = [⟨cand.feature, cand.thr, 0, 0⟩, ⟨cand.feature, cand.thr, 0, 1⟩] ∧
      st.tables = [tab cand.tables 0, tab cand.tables 1] ∧
      ∀ s : Nat → FVal α, eval st.learner s = eval cand.toStump s) := by
  have h2 : (2 : Nat) ^ cfg.maxDepth = 1 + 1 := by rw [h1]; rfl
  constructor
  · intro hf
    unfold dtreeFit
    rw [h2]
    simp [dtreeLoop, hf]
  · intro cand hf
    refine ⟨(dtreeStep cfg TState.init ⟨samples, 0, 0⟩ cand).1, ?_, ?_, ?_, ?_, ?_⟩
    · unfold dtreeFit
      rw [h2]
      simp [dtreeLoop, hf, dtreeStep, h1]
    · simp [dtreeStep, h1, TState.init]
    · simp [dtreeStep, h1, TState.init, setNext]
    · simp [dtreeStep, h1, TState.init]
    · intro s
      simp only [dtreeStep, h1, TState.init, setNext, TState.learner, Cand.toStump, eval]
      simp only [List.length_nil, Nat.zero_add, Nat.le_refl, or_true, if_true, List.getElem?_nil, List.nil_append,
        List.length_cons, dtreeGroup, List.getElem?_cons_zero]
      cases s cand.feature with
      | num v =>
        by_cases hv : v < cand.thr
        · simp [hv, tab]
        · simp [hv, tab]
      | cls c => rfl
      | missing => rfl

/-- (e) well-formedness of a fitted tree: two nodes per processed cache and two table rows per terminal one; every cache
    has depth `< max_depth` (children one more than their parent: `TInv.entry_origin`); every node is either a leaf node
    (`next = 0`) whose table index is a valid row, or an inner node whose `next` points strictly FORWARD to a node pair inside
    the list (so the node graph is acyclic); and the walk of `do_split` / `do_predict` (`dtreeRoute` = `dtreeGroup` with the
    reason of a `none`) started with `nodes.length` fuel never runs out of fuel nor leaves the list, for ANY sample. -/
theorem dtree_fit_wellformed (cfg : TreeCfg α) (hd : 1 ≤ cfg.maxDepth) (samples : List Nat) (st : TState α)
    (h : dtreeFit cfg samples = .ok st) :
    st.nodes.length = 2 * st.log.length ∧ st.tables.length = 2 * tc st.log ∧ 1 ≤ st.log.length ∧
    (∀ e ∈ st.log, e.cache.depth < cfg.maxDepth) ∧
    (∀ (i : Nat) (nd : Node α), st.nodes[i]? = some nd →
      (nd.next = 0 ∧ ∃ L : Nat, nd.table = (L : Int) ∧ L < st.tables.length) ∨
      (i < nd.next ∧ nd.next + 1 < st.nodes.length)) ∧
    (∀ s : Nat → FVal α, dtreeRoute st.nodes s st.nodes.length 0 ≠ .stuck) := by
  have hinv := dtreeFit_inv cfg samples hd st h
  have hlen : 1 ≤ st.log.length := by
    have := hinv.total
    simp [allCaches] at this
    omega
  refine ⟨hinv.len, hinv.tabs, hlen, ?_, ?_, ?_⟩
  · intro e he
    exact hinv.depth e.cache (by simp [allCaches]; exact ⟨e, he, rfl⟩)
  · intro i nd hi
    have hilt : i < st.nodes.length := (List.getElem?_eq_some_iff.mp hi).1
    rw [hinv.len] at hilt
    have hj : i / 2 < st.log.length := by omega
    have hg : i % 2 < 2 := Nat.mod_lt _ (by omega)
    have hi2 : 2 * (i / 2) + i % 2 = i := Nat.div_add_mod i 2
    obtain ⟨e, he⟩ : ∃ e, st.log[i / 2]? = some e := ⟨st.log[i / 2], List.getElem?_eq_getElem hj⟩
    cases hterm : e.terminal with
    | true =>
      left
      obtain ⟨nd', hnd', hnx, htab, htbl⟩ := hinv.term _ e he hterm _ hg
      rw [hi2, hi] at hnd'
      injection hnd' with hnd'
      subst hnd'
      exact ⟨hnx, _, htab, (List.getElem?_eq_some_iff.mp htbl).1⟩
    | false =>
      right
      obtain ⟨e', he', hlt, _, nd', hnd', hnx⟩ := hinv.child _ e he hterm _ hg
      rw [hi2, hi] at hnd'
      injection hnd' with hnd'
      subst hnd'
      have hclt : cidx st.log (i / 2) (i % 2) < st.log.length := (List.getElem?_eq_some_iff.mp he').1
      rw [hnx, hinv.len]
      omega
  · intro s
    obtain ⟨e, he⟩ : ∃ e, st.log[0]? = some e := ⟨st.log[0], List.getElem?_eq_getElem hlen⟩
    exact route_not_stuck hinv st.log.length 0 e he (by omega) s st.nodes.length (by rw [hinv.len]; omega)

/-- (b) the leaves partition the fitted samples. For a fitted tree and a fitted sample `i` (valid index):
    * `do_split` puts `i` into table row `L` exactly when `i` is in the sample list of a terminal cache, has the value of that
      cache's feature and falls on the side of row `L` (`InLeaf`) — nothing is lost, nothing is invented;
    * `do_split` leaves `i` unassigned exactly when `i` is in the sample list of some processed cache whose selected feature it
      misses (`LostAt`) — never because the walk broke down;
    * no sample is in two leaves, none is both in a leaf and lost;
    and the sample list of every cache consists of fitted samples (below the root: valid indices). -/
theorem dtree_leaves_partition (cfg : TreeCfg α) (hd : 1 ≤ cfg.maxDepth) (samples : List Nat) (st : TState α)
    (h : dtreeFit cfg samples = .ok st) :
    (∀ (j : Nat) (e : TEntry α), st.log[j]? = some e → ∀ i ∈ e.cache.samples, i ∈ samples ∧ (1 ≤ j → i < cfg.N)) ∧
    ∀ i ∈ samples, i < cfg.N →
      (∀ L, dtreeGroup st.nodes (cfg.val i) st.nodes.length 0 = some L ↔ InLeaf cfg st i L) ∧
      (dtreeGroup st.nodes (cfg.val i) st.nodes.length 0 = none ↔ LostAt cfg st i) ∧
      (∀ L L', InLeaf cfg st i L → InLeaf cfg st i L' → L = L') ∧
      (∀ L, InLeaf cfg st i L → ¬ LostAt cfg st i) := by
  have hinv := dtreeFit_inv cfg samples hd st h
  have hlen : 1 ≤ st.log.length := (dtree_fit_wellformed cfg hd samples st h).2.2.1
  refine ⟨fun j e he => hinv.entry_samples j j e (Nat.le_refl _) he, ?_⟩
  intro i hi hiN
  obtain ⟨e0, he0⟩ : ∃ e, st.log[0]? = some e := ⟨st.log[0], List.getElem?_eq_getElem hlen⟩
  have hroot : e0.cache = ⟨samples, 0, 0⟩ := by
    rcases hinv.entry_origin 0 e0 he0 with ⟨_, hc⟩ | ⟨j', _, _, hlt, _⟩
    · exact hc
    · omega
  have hmem0 : i ∈ e0.cache.samples := by rw [hroot]; exact hi
  have hF : st.log.length - 0 ≤ st.nodes.length := by rw [hinv.len]; omega
  obtain ⟨hleaf, hns, hmiss⟩ := route_forward hinv st.log.length 0 e0 he0 (by omega) i hiN hmem0 st.nodes.length hF
  -- from a leaf / a lost position back to the walk from the root
  have hback : ∀ L, InLeaf cfg st i L → dtreeRoute st.nodes (cfg.val i) st.nodes.length 0 = .leaf L := by
    rintro L ⟨j, e, v, he, hterm, hm, hv, rfl⟩
    have hjlt : j < st.log.length := (List.getElem?_eq_some_iff.mp he).1
    obtain ⟨F', hF', heq⟩ := route_through hinv j j e (Nat.le_refl _) he i hm st.nodes.length (by rw [hinv.len]; omega)
    obtain ⟨f, rfl⟩ : ∃ f, F' = f + 1 := ⟨F' - 1, by omega⟩
    rw [heq, route_terminal hinv j e he hterm _ v hv]
  have hbackM : LostAt cfg st i → dtreeRoute st.nodes (cfg.val i) st.nodes.length 0 = .missing := by
    rintro ⟨j, e, he, hm, hv⟩
    have hjlt : j < st.log.length := (List.getElem?_eq_some_iff.mp he).1
    obtain ⟨F', hF', heq⟩ := route_through hinv j j e (Nat.le_refl _) he i hm st.nodes.length (by rw [hinv.len]; omega)
    obtain ⟨f, rfl⟩ : ∃ f, F' = f + 1 := ⟨F' - 1, by omega⟩
    rw [heq, route_missing hinv j e he _ hv]
  refine ⟨?_, ?_, ?_, ?_⟩
  · intro L
    rw [dtreeGroup_eq_route]
    constructor
    · intro hg
      apply hleaf L
      cases hr : dtreeRoute st.nodes (cfg.val i) st.nodes.length (2 * 0) with
      | leaf g => simp only [Nat.mul_zero] at hr; rw [hr] at hg; simp [Route.toOption] at hg; rw [hg]
      | missing => simp only [Nat.mul_zero] at hr; rw [hr] at hg; simp [Route.toOption] at hg
      | stuck => exact absurd hr hns
    · intro hL
      rw [hback L hL]; rfl
  · rw [dtreeGroup_eq_route]
    constructor
    · intro hg
      apply hmiss
      cases hr : dtreeRoute st.nodes (cfg.val i) st.nodes.length (2 * 0) with
      | leaf g => simp only [Nat.mul_zero] at hr; rw [hr] at hg; simp [Route.toOption] at hg
      | missing => rfl
      | stuck => exact absurd hr hns
    · intro hL
      rw [hbackM hL]; rfl
  · intro L L' h1 h2
    have e1 := hback L h1
    rw [hback L' h2] at e1
    injection e1 with e1
    exact e1.symm
  · intro L h1 h2
    have e1 := hback L h1
    rw [hbackM h2] at e1
    cases e1

/-- (c) every leaf's table is the mean residual of the samples in that leaf. With the modelled stump fit at the nodes
    (`stumpTreeCfg`; `resid i` = −gradient of sample `i`), for every terminal cache `e` of a fitted tree and each side `g`: the
    table row `tbase st.log j + g` is the mean residual over the samples of the cache's list that `stump.split` puts on side
    `g` — and these are exactly the samples of the list that `do_split` of the FITTED TREE sends to this row (`hN`: the
    fitted indices are valid, the C++ `assert(samples.max() < dataset.samples())`); that set is not empty. By
    `const_fit_optimal` the row therefore minimises the residual sum of squares of its leaf. -/
theorem dtree_leaf_table_is_mean [Log α] [FinTest α] (sort : List (Item α) → List (Item α)) (hsort : SortSpec sort)
    (T : Nat) (K big : α) (crit : Crit) (feats : List Nat) (val : Nat → Nat → FVal α) (resid : Nat → Vec α)
    (N maxDepth minSplit : Nat) (hd : 1 ≤ maxDepth) (samples : List Nat) (hN : ∀ i ∈ samples, i < N) (st : TState α)
    (h : dtreeFit (stumpTreeCfg sort T K big crit feats val resid N maxDepth minSplit) samples = .ok st)
    (j : Nat) (e : TEntry α) (he : st.log[j]? = some e) (hterm : e.terminal = true) (g : Nat) (hg : g < 2) :
    let leaf := e.cache.samples.filter fun i => stumpSide val e.cand.feature e.cand.thr i == some g
    leaf ≠ [] ∧
    (∃ t, st.tables[tbase st.log j + g]? = some t ∧ ∀ o, t o = meanOf (leaf.map resid) o) ∧
    (∀ i ∈ e.cache.samples, i ∈ leaf ↔
      dtreeGroup st.nodes (val i) st.nodes.length 0 = some (tbase st.log j + g)) := by
  intro leaf
  set cfg := stumpTreeCfg sort T K big crit feats val resid N maxDepth minSplit with hcfg
  have hinv := dtreeFit_inv cfg samples hd st h
  have hfit : stumpFitOn sort T K big crit feats val resid e.cache.samples = some e.cand := hinv.fitrec j e he
  obtain ⟨_, f, _, hc⟩ := stumpFitOn_mem sort T K big crit feats val resid e.cache.samples e.cand hfit
  obtain ⟨hfeat, _, hm0, hm1, hl, hr⟩ := stumpCands_means sort hsort T K crit f _ e.cand hc
  subst hfeat
  obtain ⟨nd, _, _, _, htbl⟩ := hinv.term j e he hterm g hg
  have hg01 : g = 0 ∨ g = 1 := by omega
  have hmean : ∀ o, tab e.cand.tables g o = meanOf (leaf.map resid) o := by
    intro o
    rcases hg01 with rfl | rfl
    · rw [hm0 o, leftRows_rowsOf]
    · rw [hm1 o, rightRows_rowsOf]
  have hne : leaf ≠ [] := by
    intro hnil
    rcases hg01 with rfl | rfl
    · apply hl
      have h2 : (leftRows e.cand.thr (rowsOf val resid e.cache.samples e.cand.feature)).map (·.r) = [] := by
        rw [leftRows_rowsOf]; show (leaf.map resid) = []; rw [hnil]; rfl
      simpa using h2
    · apply hr
      have h2 : (rightRows e.cand.thr (rowsOf val resid e.cache.samples e.cand.feature)).map (·.r) = [] := by
        rw [rightRows_rowsOf]; show (leaf.map resid) = []; rw [hnil]; rfl
      simpa using h2
  refine ⟨hne, ⟨_, htbl, hmean⟩, ?_⟩
  intro i hi
  obtain ⟨hsub, hpart⟩ := dtree_leaves_partition cfg hd samples st h
  have hi0 : i ∈ samples := (hsub j e he i hi).1
  have hiN : i < cfg.N := hN i hi0
  obtain ⟨hiff, _, huniq, _⟩ := hpart i hi0 hiN
  constructor
  · intro hil
    have hs : stumpSide val e.cand.feature e.cand.thr i = some g := by
      have := (List.mem_filter.mp hil).2
      simpa using this
    obtain ⟨v, hv, hside⟩ := (stumpSide_eq_some _ _ _ _ _).mp hs
    exact (hiff _).mpr ⟨j, e, v, he, hterm, hi, hv, by rw [hside]⟩
  · intro hgr
    -- the sample is in this cache's list: it reaches one of the two rows of this cache or is lost here
    cases hs : stumpSide val e.cand.feature e.cand.thr i with
    | none =>
      exfalso
      have hlost : LostAt cfg st i := ⟨j, e, he, hi, fun v hv => by
        have := (stumpSide_eq_some val e.cand.feature e.cand.thr i (sideOf v e.cand.thr)).mpr ⟨v, hv, rfl⟩
        rw [hs] at this; cases this⟩
      exact (hpart i hi0 hiN).2.2.2 _ ((hiff _).mp hgr) hlost
    | some g' =>
      obtain ⟨v, hv, hside⟩ := (stumpSide_eq_some _ _ _ _ _).mp hs
      have h1 : InLeaf cfg st i (tbase st.log j + g') := ⟨j, e, v, he, hterm, hi, hv, by rw [hside]⟩
      have := huniq _ _ h1 ((hiff _).mp hgr)
      have hgg : g' = g := by omega
      apply List.mem_filter.mpr
      refine ⟨hi, ?_⟩
      rw [hs, hgg]; simp

/-- (c′) the same without the ghost log — every row of the fitted tree's table is the mean residual of the samples that the
    FITTED TREE ITSELF routes to that row: for every row `L` of `st.tables`, with `group i` = `do_split`'s answer for sample `i`
    (`dtreeGroup`), the row is the mean of `resid` over
      * the fitted list filtered by `group = L` (repetitions kept) when the tree is a single node pair (depth-1 tree / root
        terminal), and
      * the DISTINCT fitted samples `i < N` with `group i = L`, in increasing order, otherwise (`cluster_t::indices`),
    and that list is not empty. The rows are numbered without gaps: (terminal cache, side) ↦ row is a bijection (`tbase_inj`,
    `tbase_surj`). -/
theorem dtree_leaf_rows_are_means [Log α] [FinTest α] (sort : List (Item α) → List (Item α)) (hsort : SortSpec sort)
    (T : Nat) (K big : α) (crit : Crit) (feats : List Nat) (val : Nat → Nat → FVal α) (resid : Nat → Vec α)
    (N maxDepth minSplit : Nat) (hd : 1 ≤ maxDepth) (samples : List Nat) (hN : ∀ i ∈ samples, i < N) (st : TState α)
    (h : dtreeFit (stumpTreeCfg sort T K big crit feats val resid N maxDepth minSplit) samples = .ok st)
    (L : Nat) (hL : L < st.tables.length) :
    let group := fun i => dtreeGroup st.nodes (val i) st.nodes.length 0
    let base := if st.nodes.length = 2 then samples else (List.range N).filter fun i => samples.contains i
    let leaf := base.filter fun i => group i == some L
    leaf ≠ [] ∧ ∃ t, st.tables[L]? = some t ∧ ∀ o, t o = meanOf (leaf.map resid) o := by
  intro group base leaf
  set cfg := stumpTreeCfg sort T K big crit feats val resid N maxDepth minSplit with hcfg
  have hinv := dtreeFit_inv cfg samples hd st h
  obtain ⟨j, e, g, he, hterm, hg, rfl⟩ := tbase_surj st.log L (by rw [← hinv.tabs]; exact hL)
  obtain ⟨hne, ⟨t, ht, hmean⟩, hiff⟩ :=
    dtree_leaf_table_is_mean sort hsort T K big crit feats val resid N maxDepth minSplit hd samples hN st h j e he hterm g hg
  obtain ⟨hsub, hpart⟩ := dtree_leaves_partition cfg hd samples st h
  -- the leaf of the ghost statement, filtered by the tree's own routing
  have hleaf' : (e.cache.samples.filter fun i => stumpSide val e.cand.feature e.cand.thr i == some g)
      = e.cache.samples.filter fun i => group i == some (tbase st.log j + g) := by
    apply List.filter_congr
    intro i hi
    have := hiff i hi
    rw [List.mem_filter] at this
    by_cases hs : (stumpSide val e.cand.feature e.cand.thr i == some g) = true
    · rw [hs]; symm
      have := this.mp ⟨hi, hs⟩
      simp only [group, this, beq_self_eq_true]
    · have hs' : (stumpSide val e.cand.feature e.cand.thr i == some g) = false := by simpa using hs
      rw [hs']; symm
      apply Bool.eq_false_iff.mpr
      intro hc
      have hc' : group i = some (tbase st.log j + g) := by simpa using hc
      exact hs (this.mpr hc').2
  -- the sample list of the cache in terms of the fitted list
  have hbase : (e.cache.samples.filter fun i => group i == some (tbase st.log j + g)) = leaf := by
    rcases hinv.entry_origin j e he with ⟨rfl, hc⟩ | ⟨j', e', g', hlt, he', hterm', hg', hcx, hc⟩
    · -- the root is terminal: the tree is one node pair
      have hlen1 : st.log.length = 1 := by
        by_contra hne1
        have hl : 1 < st.log.length := by
          have := (List.getElem?_eq_some_iff.mp he).1; omega
        obtain ⟨e1, he1⟩ : ∃ e1, st.log[1]? = some e1 := ⟨st.log[1], List.getElem?_eq_getElem hl⟩
        rcases hinv.entry_origin 1 e1 he1 with ⟨h0, _⟩ | ⟨j0, e0, _, hlt0, he0, hterm0, _⟩
        · omega
        · have : j0 = 0 := by omega
          subst this
          rw [he] at he0; injection he0 with he0
          rw [he0, hterm0] at hterm; cases hterm
      have hn2 : st.nodes.length = 2 := by rw [hinv.len, hlen1]
      simp only [leaf, base, hn2, if_true]
      rw [hc]
    · -- below the root: the distinct valid samples
      have hjpos : 1 ≤ j := by omega
      have hn2 : st.nodes.length ≠ 2 := by
        rw [hinv.len]
        have := (List.getElem?_eq_some_iff.mp he).1
        omega
      simp only [leaf, base, hn2, if_false]
      rw [hc]
      simp only [childSamples]
      rw [List.filter_filter, List.filter_filter]
      apply List.filter_congr
      intro i hi
      have hiN : i < N := List.mem_range.mp hi
      by_cases hgr : (group i == some (tbase st.log j + g)) = true
      · rw [hgr, Bool.true_and, Bool.true_and]
        have hgr' : group i = some (tbase st.log j + g) := by simpa using hgr
        by_cases hs : samples.contains i = true
        · rw [hs]
          have hi0 : i ∈ samples := List.contains_iff_mem.mp hs
          obtain ⟨j2, e2, v2, he2, ht2, hm2, hv2, hL2⟩ := ((hpart i hi0 hiN).1 _).mp hgr'
          have hs2 : sideOf v2 e2.cand.thr < 2 := by unfold sideOf; split <;> omega
          obtain ⟨hjj, _⟩ := tbase_inj st.log j j2 g _ e e2 he he2 hterm ht2 hg hs2 hL2
          subst hjj
          rw [he] at he2; injection he2 with he2
          subst he2
          rw [hc] at hm2
          have := (mem_childSamples _ _ _ _ _ _ _).mp hm2
          obtain ⟨_, hm', v', hv', hside'⟩ := this
          have : (e'.cache.samples.contains i && (stumpSide cfg.val e'.cand.feature e'.cand.thr i == some g')) = true := by
            rw [Bool.and_eq_true, List.contains_iff_mem, beq_iff_eq, stumpSide_eq_some]
            exact ⟨hm', v', hv', hside'⟩
          exact this
        · have hs' : samples.contains i = false := by simpa using hs
          rw [hs']
          apply Bool.eq_false_iff.mpr
          intro hc2
          rw [Bool.and_eq_true, List.contains_iff_mem] at hc2
          have : i ∈ samples := (hsub j' e' he' i hc2.1).1
          exact hs (List.contains_iff_mem.mpr this)
      · have hgr' : (group i == some (tbase st.log j + g)) = false := by simpa using hgr
        rw [hgr', Bool.false_and, Bool.false_and]
  rw [hleaf', hbase] at hne hmean
  exact ⟨hne, t, ht, hmean⟩

/-- (d) fit–predict consistency of a fitted tree (RSS criterion, modelled stump fit at the nodes). For every terminal cache
    `e`: the RSS its stump fit handed to `make_score` is the RSS, over the samples of that cache, of the predictions of the
    WHOLE FITTED TREE (`predict` from zero outputs) — on the samples of a leaf pair the tree predicts what that pair's stump
    predicts, zero where the stump's feature is missing; its score is `max(rss, K)`; and the score `fit` returns is the sum
    of these scores over the terminal caches in processing order. (It is NOT in general the RSS of the tree over the fitted
    list: samples dropped at an inner node for a missing value are counted nowhere, repeated indices only at the root.) -/
theorem dtree_fit_predict_reproduces_rss [Log α] [FinTest α] (sort : List (Item α) → List (Item α)) (hsort : SortSpec sort)
    (T : Nat) (K big : α) (feats : List Nat) (val : Nat → Nat → FVal α) (resid : Nat → Vec α)
    (N maxDepth minSplit : Nat) (hd : 1 ≤ maxDepth) (samples : List Nat) (hN : ∀ i ∈ samples, i < N) (st : TState α)
    (h : dtreeFit (stumpTreeCfg sort T K big Crit.rss feats val resid N maxDepth minSplit) samples = .ok st) :
    (∀ (j : Nat) (e : TEntry α), st.log[j]? = some e → e.terminal = true →
      e.cand.rss = lsum (e.cache.samples.map fun i => sqErr T (resid i) (predictOne st.learner (val i) zeroV)) ∧
      e.cand.score = cmax e.cand.rss K) ∧
    st.score = sumL (fun e : TEntry α => e.cand.score) (st.log.filter fun e => e.terminal) 0 := by
  set cfg := stumpTreeCfg sort T K big Crit.rss feats val resid N maxDepth minSplit with hcfg
  have hinv := dtreeFit_inv cfg samples hd st h
  refine ⟨?_, hinv.scoreInv⟩
  intro j e he hterm
  have hfit : stumpFitOn sort T K big Crit.rss feats val resid e.cache.samples = some e.cand := hinv.fitrec j e he
  obtain ⟨_, f, _, hc⟩ := stumpFitOn_mem sort T K big Crit.rss feats val resid e.cache.samples e.cand hfit
  have hspec := stumpCands_spec sort hsort T K f _ e.cand hc
  have hfeat : e.cand.feature = f := hspec.feature
  subst hfeat
  refine ⟨?_, hspec.score⟩
  rw [hspec.rss_eq]
  unfold rssOf rowsOf
  rw [List.map_map]
  apply lsum_map_congr
  intro i hi
  simp only [Function.comp_def]
  apply sqErr_congr
  intro o
  obtain ⟨hsub, hpart⟩ := dtree_leaves_partition cfg hd samples st h
  have hi0 : i ∈ samples := (hsub j e he i hi).1
  obtain ⟨hiff, hnone, _, _⟩ := hpart i hi0 (hN i hi0)
  have hvalcfg : cfg.val = val := rfl
  rw [hvalcfg] at hiff hnone
  rw [predictOne_zero]
  unfold contrib
  simp only [TState.learner, eval]
  cases hv : val i e.cand.feature with
  | num v =>
    have hL : InLeaf cfg st i (tbase st.log j + sideOf v e.cand.thr) := ⟨j, e, v, he, hterm, hi, hv, rfl⟩
    have hg : sideOf v e.cand.thr < 2 := by unfold sideOf; split <;> omega
    obtain ⟨_, _, _, _, htbl⟩ := hinv.term j e he hterm _ hg
    have hgr : dtreeGroup st.nodes (val i) st.nodes.length 0 = some (tbase st.log j + sideOf v e.cand.thr) := (hiff _).mpr hL
    simp only [hgr, stumpPred]
    have : tab st.tables (tbase st.log j + sideOf v e.cand.thr) = tab e.cand.tables (sideOf v e.cand.thr) := by
      unfold tab
      rw [List.getD_eq_getElem?_getD, htbl]
      rfl
    rw [this]
    unfold sideOf
    split <;> rfl
  | cls c =>
    have hlost : LostAt cfg st i := ⟨j, e, he, hi, fun v hh => by
      have hh' : val i e.cand.feature = FVal.num v := hh
      rw [hv] at hh'; cases hh'⟩
    simp [hnone.mpr hlost, stumpPred]
  | missing =>
    have hlost : LostAt cfg st i := ⟨j, e, he, hi, fun v hh => by
      have hh' : val i e.cand.feature = FVal.num v := hh
      rw [hv] at hh'; cases hh'⟩
    simp [hnone.mpr hlost, stumpPred]

/-! ### k-best tables: the fit (`kbest_table_wlearner_t::do_fit`, `score_kbest`, Model/WLearnerKTable.lean) -/

/-- What `kbest_table_wlearner_t::fit` returns with the RSS criterion. The candidate family of `score_kbest` on one feature
    is: for every `k`, the table on the `k` label sets with the smallest `delta = −|Σr|²/n` (zero prediction elsewhere); every
    delta is `≤ 0`, so under the RSS criterion the greedy sequence ends at the table that keeps every label set, whose RSS is
    the dense table's. Hence: no candidate exists exactly when no categorical feature has a present value; otherwise the
    reported score is `max(m, K)` with `m` the RSS of the DENSE table of the best feature — the minimum over ALL tables on all
    features (any vector per label set), in particular over all tables on any SUBSET of the label sets, which is the
    hypothesis class of the k-best learner. `sortP` = `std::sort` of the `(delta, bin)` pairs: only "it returns a
    permutation" is used. -/
theorem kbest_fit_eq_brute [FinTest α] [Log α] (hfin : ∀ y : α, FinTest.isFin y = true)
    (sortP : List (α × Nat) → List (α × Nat)) (hperm : ∀ l, (sortP l).Perm l) (T : Nat) (K big : α)
    (cols : List (Nat × List (CRow α))) (hbig : ∀ c ∈ kbestAll sortP T K cols, c.score < big) :
    (kbestAll sortP T K cols = [] →
      fitSeq big (kbestAll sortP T K cols) = noFit big ∧ ∀ p ∈ cols, hashesOf p.2 = []) ∧
    (kbestAll sortP T K cols ≠ [] →
      (∃ p ∈ cols, hashesOf p.2 ≠ [] ∧
        (fitSeq big (kbestAll sortP T K cols)).score = cmax (denseCand T K Crit.rss p.1 p.2).rss K) ∧
      ∀ q ∈ cols, hashesOf q.2 ≠ [] → ∀ tbl : Nat → Vec α,
        (fitSeq big (kbestAll sortP T K cols)).score ≤ cmax (rssOfC T q.2 (tablePred tbl)) K) := by
  obtain ⟨hnil, hcons⟩ := fitSeq_min hfin big (kbestAll sortP T K cols) hbig
  have hfull : ∀ q ∈ cols, hashesOf q.2 ≠ [] → ∃ c ∈ kbestAll sortP T K cols,
      c.score = cmax (denseCand T K Crit.rss q.1 q.2).rss K := by
    intro q hq hh
    obtain ⟨c, hc, hrss⟩ := (kbestCands_spec sortP hperm T K q.1 q.2).2 hh
    refine ⟨c, List.mem_flatMap.mpr ⟨q, hq, hc⟩, ?_⟩
    rw [((kbestCands_spec sortP hperm T K q.1 q.2).1 c hc).2.1, hrss]
  constructor
  · intro he
    refine ⟨hnil he, ?_⟩
    intro p hp
    by_contra hh
    obtain ⟨c, hc, _⟩ := hfull p hp hh
    rw [he] at hc; simp at hc
  · intro hne
    obtain ⟨hmem, hmin⟩ := hcons hne
    have hq : ∀ q ∈ cols, hashesOf q.2 ≠ [] →
        (fitSeq big (kbestAll sortP T K cols)).score ≤ cmax (denseCand T K Crit.rss q.1 q.2).rss K := by
      intro q hq hh
      obtain ⟨c, hc, hs⟩ := hfull q hq hh
      rw [← hs]; exact hmin c hc
    constructor
    · obtain ⟨p, hp, hbest⟩ := List.mem_flatMap.mp hmem
      have hh : hashesOf p.2 ≠ [] := by
        intro he
        simp [kbestCands, he] at hbest
      obtain ⟨_, hscore, hle⟩ := (kbestCands_spec sortP hperm T K p.1 p.2).1 _ hbest
      refine ⟨p, hp, hh, le_antisymm (hq p hp hh) ?_⟩
      rw [hscore]; exact cmax_mono K hle
    · intro q hq' hh tbl
      exact le_trans (hq q hq' hh) (cmax_mono K ((denseCand_spec T K Crit.rss q.1 q.2).2 tbl))

/-- The greedy choice of `score_kbest` is optimal for its own candidate family, for EVERY criterion: the candidate `kbest = k`
    keeps the `k` label sets with the smallest deltas (`std::sort` = any sorted permutation, `PairSortSpec`), and its RSS
    `rss0 + Σ (k smallest deltas)` is at most `rss0 + Σ_{b ∈ S} delta(b)` — the RSS of the table that predicts the bin mean on
    the label sets of `S` and zero elsewhere — for every choice `S` of `k` distinct label sets of the feature. As the criteria
    are increasing in the RSS for fixed `(k, n)`, the candidate also has the best criterion value among the `k`-subsets. -/
theorem kbest_greedy_optimal_per_size [Log α] (sortP : List (α × Nat) → List (α × Nat)) (hsort : PairSortSpec sortP)
    (T : Nat) (K : α) (crit : Crit) (f : Nat) (rows : List (CRow α)) (c : Cand α)
    (hc : c ∈ kbestCands sortP T K crit f rows 0) (S : List (α × Nat)) (hS : S.Sublist (binDeltas T rows))
    (hk : S.length = c.tables.length) :
    c.rss ≤ dstepRss0 T rows + lsum (S.map (·.1)) :=
  kbestCands_optimal_per_k sortP hsort T K crit f rows c hc S hS hk

/-- Fit–predict consistency of the k-best table, for EVERY criterion and every candidate `kbest = 1 … bins` the fit can
    select: the RSS handed to `make_score` (the running `rss += mapping[kbest−1].first`) is the RSS, from the definition, of the
    predictions of the table learner that `fit` stores for it — kept hashes re-sorted, `hash2tables = 0 … kbest−1`, bin means,
    looked up by `nano::find`'s binary search; every label set that is not kept and every missing value is predicted zero. -/
theorem kbest_fit_predict_reproduces_rss [Log α] (sortP : List (α × Nat) → List (α × Nat)) (hperm : ∀ l, (sortP l).Perm l)
    (T : Nat) (K : α) (crit : Crit) (f : Nat) (rows : List (CRow α)) :
    ∀ c ∈ kbestCands sortP T K crit f rows 0, c.rss = predRssC T c.toTable f rows :=
  fun c hc => kbestCands_predict sortP hperm T K crit f rows c hc

/-! ### k-split tables: the fit (`ksplit_table_wlearner_t::do_fit`, `score_ksplit`, `accumulator_t::cluster`) -/

/-- What `ksplit_table_wlearner_t::fit` returns with the RSS criterion. The candidate family of `score_ksplit` on one feature
    is the sequence of partitions of the label sets produced by the GREEDY agglomeration of `accumulator_t::cluster` (merge the two
    clusters whose mean outputs are closest), one candidate per number of clusters. Merging two clusters never lowers the RSS
    (`cluScore_merge`, Cauchy–Schwarz), so every candidate has at least the RSS of the first one — every label set its own
    cluster: the DENSE table. Hence with the RSS criterion: no candidate exists exactly when no categorical feature has a
    present value; otherwise the reported score is `max(m, K)` with `m` the dense table's RSS on the best feature, the minimum
    over all tables on all features (in particular over all tables that are constant on the parts of ANY partition of the label
    sets — the hypothesis class of the k-split learner). For a FIXED number of clusters the greedy choice is NOT optimal: see the
    counterexample among the examples below (it matters for AIC / AICc / BIC only). -/
theorem ksplit_fit_eq_brute [FinTest α] [Log α] (hfin : ∀ y : α, FinTest.isFin y = true) (T : Nat) (K big cbig : α)
    (cols : List (Nat × List (CRow α))) (hbig : ∀ c ∈ ksplitAll T K cbig cols, c.score < big) :
    (ksplitAll T K cbig cols = [] →
      fitSeq big (ksplitAll T K cbig cols) = noFit big ∧ ∀ p ∈ cols, hashesOf p.2 = []) ∧
    (ksplitAll T K cbig cols ≠ [] →
      (∃ p ∈ cols, hashesOf p.2 ≠ [] ∧
        (fitSeq big (ksplitAll T K cbig cols)).score = cmax (denseCand T K Crit.rss p.1 p.2).rss K) ∧
      ∀ q ∈ cols, hashesOf q.2 ≠ [] → ∀ tbl : Nat → Vec α,
        (fitSeq big (ksplitAll T K cbig cols)).score ≤ cmax (rssOfC T q.2 (tablePred tbl)) K) := by
  obtain ⟨hnil, hcons⟩ := fitSeq_min hfin big (ksplitAll T K cbig cols) hbig
  have hfull : ∀ q ∈ cols, hashesOf q.2 ≠ [] → ∃ c ∈ ksplitAll T K cbig cols,
      c.score = cmax (denseCand T K Crit.rss q.1 q.2).rss K := by
    intro q hq hh
    obtain ⟨c, hc, hrss, _⟩ := (ksplitCands_spec T K cbig q.1 q.2).2 hh
    refine ⟨c, List.mem_flatMap.mpr ⟨q, hq, hc⟩, ?_⟩
    rw [((ksplitCands_spec T K cbig q.1 q.2).1 c hc).2.1, hrss]
  constructor
  · intro he
    refine ⟨hnil he, ?_⟩
    intro p hp
    by_contra hh
    obtain ⟨c, hc, _⟩ := hfull p hp hh
    rw [he] at hc; simp at hc
  · intro hne
    obtain ⟨hmem, hmin⟩ := hcons hne
    have hq : ∀ q ∈ cols, hashesOf q.2 ≠ [] →
        (fitSeq big (ksplitAll T K cbig cols)).score ≤ cmax (denseCand T K Crit.rss q.1 q.2).rss K := by
      intro q hq hh
      obtain ⟨c, hc, hs⟩ := hfull q hq hh
      rw [← hs]; exact hmin c hc
    constructor
    · obtain ⟨p, hp, hbest⟩ := List.mem_flatMap.mp hmem
      have hh : hashesOf p.2 ≠ [] := by
        intro he
        simp [ksplitCands, he, cluTrials] at hbest
      obtain ⟨_, hscore, hle⟩ := (ksplitCands_spec T K cbig p.1 p.2).1 _ hbest
      refine ⟨p, hp, hh, le_antisymm (hq p hp hh) ?_⟩
      rw [hscore]; exact cmax_mono K hle
    · intro q hq' hh tbl
      exact le_trans (hq q hq' hh) (cmax_mono K ((denseCand_spec T K Crit.rss q.1 q.2).2 tbl))

/-- Fit–predict consistency of the k-split table, for EVERY criterion and every candidate (every trial of the greedy
    agglomeration) the fit can select: the RSS handed to `make_score` (sum of the clusters' `r2 − r1²/x0` + missing) is the RSS,
    from the definition, of the predictions of the table learner that `fit` stores for it — all hashes, `hash2tables =
    cluster_id` of that trial, one row per cluster = its mean output. Through all trials the moments of a cluster are the sums
    of the moments of the bins mapped to it (`CluRel`, `cluTrials_rel`). -/
theorem ksplit_fit_predict_reproduces_rss [Log α] (T : Nat) (K cbig : α) (crit : Crit) (f : Nat) (rows : List (CRow α)) :
    ∀ c ∈ ksplitCands T K cbig crit f rows, c.rss = predRssC T c.toTable f rows :=
  fun c hc => ksplitCands_predict T K cbig crit f rows c hc

/-! ### non-vacuity: the hypotheses are satisfiable on concrete data over ℚ -/

section examples
local instance : FinTest ℚ := ⟨fun _ => true⟩
local instance : Log ℚ := ⟨fun x => x⟩

/-- three fitted samples (one of them twice), one scalar feature with a tie, one output -/
def exRows : List (Row ℚ) :=
  [⟨0, some 1, fun _ => 2⟩, ⟨1, some 1, fun _ => -1⟩, ⟨2, some 3, fun _ => 4⟩, ⟨2, some 3, fun _ => 4⟩, ⟨3, none, fun _ => 1⟩]

example : SortSpec (α := ℚ) (fun l => l.mergeSort itemLe) := mergeSort_sortSpec

/-- the stump fit on `exRows` has a candidate (so `stump_fit_optimal`'s second branch applies) -/
example : stumpAll (fun l => l.mergeSort itemLe) 1 (0 : ℚ) [(0, exRows)] ≠ [] := by
  intro he
  obtain ⟨c, hc, _⟩ := stumpCands_complete (fun l => l.mergeSort itemLe) mergeSort_sortSpec 1 (0 : ℚ) Crit.rss 0 exRows 2
    ⟨⟨1, 0, fun _ => 2⟩, by simp [exRows, present], by norm_num⟩
    ⟨⟨3, 2, fun _ => 4⟩, by simp [exRows, present], by norm_num⟩
  have : c ∈ stumpAll (fun l => l.mergeSort itemLe) 1 (0 : ℚ) [(0, exRows)] := by
    unfold stumpAll; simpa using hc
  rw [he] at this; simp at this

/-- the regular branch of the affine learner is reachable: on `exRows` `constant()` is false (`x2·x0 − x1² = 16 > 0`) -/
example : affineConst (1 / 100000000000 : ℚ) ((present exRows).foldl Item.upd Mom.zero) = false := by
  simp [exRows, present, affineConst, Item.upd, Mom.upd, Mom.zero]
  norm_num

/-- … and the degenerate branch on a constant feature -/
example : affineConst (1 / 100000000000 : ℚ)
    ((present [⟨0, some (1 / 10 : ℚ), fun _ => 2⟩, ⟨1, some (1 / 10), fun _ => -1⟩, ⟨2, some (1 / 10), fun _ => 4⟩]).foldl
      Item.upd Mom.zero) = true := by
  simp [present, affineConst, Item.upd, Mom.upd, Mom.zero]
  norm_num

/-- the hypotheses of `fit_assignment_independent` are satisfiable with an exact tie spread over two workers (features 0 and 2
    both score 1; the worker with the lower id holds feature 2): the fit returns feature 0 -/
example :
    let c0 : Cand ℚ := ⟨1, 1, 0, 0, 0, [], [], []⟩
    let c1 : Cand ℚ := ⟨3, 3, 1, 0, 0, [], [], []⟩
    let c2 : Cand ℚ := ⟨1, 1, 2, 0, 0, [], [], []⟩
    let feats : List (FeatC ℚ) := [(0, [c0]), (1, [c1]), (2, [c2])]
    let workers : List (List (FeatC ℚ)) := [[(2, [c2])], [], [(0, [c0]), (1, [c1])]]
    (∀ p ∈ feats, ∀ c ∈ p.2, c.feature = p.1) ∧ (feats.map Prod.fst).Pairwise (· < ·) ∧ WorkersSorted workers ∧
    workers.flatten.Perm feats ∧ (fitAssigned (10 : ℚ) (workers.map streamC)).feature = 0 := by
  refine ⟨by simp, by simp, by simp [WorkersSorted], ?_, ?_⟩
  · simp only [List.flatten_cons, List.flatten_nil, List.nil_append, List.append_nil, List.cons_append]
    exact (List.perm_middle (l₁ := [(0, [_]), (1, [_])]) (l₂ := [])).symm.trans (by simp)
  · simp [fitAssigned, streamC, fitSeq, pick, noFit, minReduce, lessSF, FinTest.isFin]
    try norm_num

/-- the table variant: the worker that holds the tying features 3 and 0 sees them in DEcreasing order (two loops); the
    lexicographic cache returns feature 0, the first-best cache of before 5de0896 would keep feature 3 -/
example :
    let m0 : Cand ℚ := ⟨1, 1, 0, 0, 0, [], [], []⟩
    let s1 : Cand ℚ := ⟨1, 1, 3, 0, 0, [], [], []⟩
    let workers : List (List (FeatC ℚ)) := [[(3, [s1]), (0, [m0])]]
    (fitAssignedLex (10 : ℚ) (workers.map streamC)).feature = 0 ∧ (fitAssigned (10 : ℚ) (workers.map streamC)).feature = 3 := by
  constructor
  · simp [fitAssignedLex, streamC, fitSeqLex, pickLex, noFit, minReduce, lessSF, FinTest.isFin]
    try norm_num
  · simp [fitAssigned, streamC, fitSeq, pick, noFit, minReduce, lessSF, FinTest.isFin]
    try norm_num

/-- a toy stump oracle for the structural tree theorems: threshold just above the second sample of the list, no fit on fewer
    than two samples -/
def exOracle : List Nat → Option (Cand ℚ)
  | _ :: b :: _ => some ⟨1, 1, 0, (b : ℚ) + 1 / 2, 0, [], [], [fun _ => 1, fun _ => 2]⟩
  | _ => none

def exTreeCfg (depth : Nat) : TreeCfg ℚ :=
  { N := 6, maxDepth := depth, minSamples := 0, fit := exOracle, val := fun i _ => .num (i : ℚ) }

def okShape {β : Type} : TResult β → Nat × Nat × Nat
  | .ok st => (st.nodes.length, st.tables.length, st.log.length)
  | .nofit _ => (0, 0, 1)
  | .fuel => (0, 0, 0)

/-- the hypothesis `dtreeFit cfg samples = .ok st` of `dtree_fit_wellformed` / `dtree_leaves_partition` is satisfiable: a
    tree of depth 2 on seven fitted samples (one repeated) with three processed caches, six nodes, four leaves … -/
example : ∃ st, dtreeFit (exTreeCfg 2) [0, 1, 2, 3, 4, 5, 5] = .ok st ∧ st.nodes.length = 6 ∧ st.tables.length = 4 := by
  have h : okShape (dtreeFit (exTreeCfg 2) [0, 1, 2, 3, 4, 5, 5]) = (6, 4, 3) := by decide +kernel
  cases hr : dtreeFit (exTreeCfg 2) [0, 1, 2, 3, 4, 5, 5] with
  | ok st => rw [hr] at h; simp [okShape] at h; exact ⟨st, rfl, h.1, h.2.1⟩
  | nofit st => rw [hr] at h; simp [okShape] at h
  | fuel => rw [hr] at h; simp [okShape] at h

/-- … and the whole fit fails as soon as one inner stump fit fails (depth 3: the cache `[0, 1]` splits into `[0, 1]` and `[]`) -/
example : okShape (dtreeFit (exTreeCfg 3) [0, 1, 2, 3, 4, 5, 5]) = (0, 0, 1) := by decide +kernel

/-- `dtree_depth1_eq_stump`: both branches occur -/
example : exOracle [3] = none ∧ (exOracle [0, 1, 2]).isSome = true := by decide

/-- `dtree_leaf_table_is_mean`, `dtree_leaf_rows_are_means`, `dtree_fit_predict_reproduces_rss`: their hypotheses are
    satisfiable — the modelled stump fit at the root of a depth-1 tree on three samples with the values 0, 1, 2 of one scalar
    feature and residuals 1, 1, 5 (RSS criterion): a fitted tree with a terminal entry and a non-empty table -/
example : ∃ st e, dtreeFit (stumpTreeCfg (fun l => l.mergeSort itemLe) 1 (0 : ℚ) 1000 Crit.rss [0]
      (fun i _ => FVal.num (i : ℚ)) (fun i _ => if i < 2 then (1 : ℚ) else 5) 3 1 5) [0, 1, 2] = .ok st ∧
    st.log[0]? = some e ∧ e.terminal = true ∧ 0 < st.tables.length := by
  set val : Nat → Nat → FVal ℚ := fun i _ => FVal.num (i : ℚ) with hval
  set resid : Nat → Vec ℚ := fun i _ => if i < 2 then (1 : ℚ) else 5 with hresid
  set sort : List (Item ℚ) → List (Item ℚ) := fun l => l.mergeSort itemLe with hsortd
  have hsort : SortSpec sort := mergeSort_sortSpec
  set rows := rowsOf val resid [0, 1, 2] 0 with hrows
  have hrows' : rows = [⟨0, some 0, resid 0⟩, ⟨1, some 1, resid 1⟩, ⟨2, some 2, resid 2⟩] := by
    simp [hrows, rowsOf, hval]
  -- a candidate exists
  obtain ⟨c0, hc0, _⟩ := stumpCands_complete sort hsort 1 (0 : ℚ) Crit.rss 0 rows (1 / 2)
    ⟨⟨0, 0, resid 0⟩, by simp [hrows', present], by norm_num⟩
    ⟨⟨1, 1, resid 1⟩, by simp [hrows', present], by norm_num⟩
  set cands := [0].flatMap fun f => stumpCands sort 1 (0 : ℚ) Crit.rss f (rowsOf val resid [0, 1, 2] f) with hcands
  have hcs : cands = stumpCands sort 1 (0 : ℚ) Crit.rss 0 rows := by simp [hcands, hrows]
  have hne : cands ≠ [] := by rw [hcs]; exact List.ne_nil_of_mem hc0
  -- every candidate scores at most the sum of the squared residuals
  have hbig : ∀ c ∈ cands, c.score < 1000 := by
    intro c hc
    rw [hcs] at hc
    have hs := stumpCands_spec sort hsort 1 (0 : ℚ) 0 rows c hc
    have h1 := hs.coeff_opt zeroV zeroV
    have h2 : rssOf 1 rows (stumpPred c.thr zeroV zeroV) = 27 := by
      have hp : ∀ x, stumpPred c.thr zeroV zeroV x = (zeroV : Vec ℚ) := by
        intro x; cases x <;> simp [stumpPred]
      rw [hrows']
      simp only [rssOf, List.map_cons, List.map_nil, lsum, hp, sqErr, vsum, hresid]
      simp [zeroV]
      norm_num
    rw [hs.score, cmax_eq_max]
    rw [h2] at h1
    exact max_lt (lt_of_le_of_lt h1 (by norm_num)) (by norm_num)
  obtain ⟨hmem, _⟩ := (fitSeq_min (fun _ => rfl) 1000 cands hbig).2 hne
  have hfit : stumpFitOn sort 1 (0 : ℚ) 1000 Crit.rss [0] val resid [0, 1, 2] = some (fitSeq 1000 cands) := by
    unfold stumpFitOn
    simp only [← hcands]
    rw [if_pos]
    simpa [Cand.fitted] using hbig _ hmem
  obtain ⟨st, hst, _, hnodes, htabs, _⟩ := (dtree_depth1_eq_stump
    (stumpTreeCfg sort 1 (0 : ℚ) 1000 Crit.rss [0] val resid 3 1 5) rfl [0, 1, 2]).2 _ hfit
  have hinv := dtreeFit_inv _ _ (by simp [stumpTreeCfg]) st hst
  have hlen : st.log.length = 1 := by have := hinv.len; rw [hnodes] at this; simp at this; omega
  obtain ⟨e, he⟩ : ∃ e, st.log[0]? = some e := ⟨st.log[0], List.getElem?_eq_getElem (by omega)⟩
  refine ⟨st, e, hst, he, ?_, by rw [htabs]; simp⟩
  -- the only entry of a depth-1 tree is terminal
  by_contra hterm
  have hterm' : e.terminal = false := by simpa using hterm
  obtain ⟨e', he', hlt, _⟩ := hinv.child 0 e he hterm' 0 (by omega)
  have := (List.getElem?_eq_some_iff.mp he').1
  omega

/-- six fitted samples of one categorical feature: label set 0 four times with residual 0, label set 1 once with residual 1,
    label set 2 once with residual 21/10 -/
def exCRows : List (CRow ℚ) :=
  [⟨0, some 0, fun _ => 0⟩, ⟨1, some 0, fun _ => 0⟩, ⟨2, some 0, fun _ => 0⟩, ⟨3, some 0, fun _ => 0⟩,
   ⟨4, some 1, fun _ => 1⟩, ⟨5, some 2, fun _ => 21 / 10⟩]

/-- `kbest_fit_eq_brute` / `ksplit_fit_eq_brute`: the candidate lists are not empty on `exCRows` (3 label sets → 3 candidates
    each), and the sort oracle of the driver is a permutation -/
example : (kbestCands (fun l => l.mergeSort pairLe) 1 (0 : ℚ) Crit.rss 0 exCRows 0).length = 3 ∧
    (ksplitCands 1 (0 : ℚ) 1000 Crit.rss 0 exCRows).length = 3 := by
  constructor
  · simp [kbestCands, exCRows, hashesOf, insertUniq]
  · simp [ksplitCands, exCRows, hashesOf, insertUniq, cluTrials]

example : PairSortSpec (α := ℚ) (fun l => l.mergeSort pairLe) := mergeSort_pairSortSpec

/-- `kbest_greedy_optimal_per_size`: its hypotheses are satisfiable on `exCRows` — a candidate exists, and the first
    `c.tables.length` entries of the delta list are a competing choice of as many bins -/
example : ∃ c ∈ kbestCands (fun l => l.mergeSort pairLe) 1 (0 : ℚ) Crit.rss 0 exCRows 0,
    ∃ S : List (ℚ × Nat), S.Sublist (binDeltas 1 exCRows) ∧ S.length = c.tables.length := by
  have hlen : (kbestCands (fun l => l.mergeSort pairLe) 1 (0 : ℚ) Crit.rss 0 exCRows 0).length = 3 := by
    simp [kbestCands, exCRows, hashesOf, insertUniq]
  obtain ⟨c, hc⟩ := List.exists_mem_of_ne_nil _ (List.ne_nil_of_length_pos (by omega : 0 <
    (kbestCands (fun l => l.mergeSort pairLe) 1 (0 : ℚ) Crit.rss 0 exCRows 0).length))
  refine ⟨c, hc, (binDeltas 1 exCRows).take c.tables.length, List.take_sublist _ _, ?_⟩
  have hle : c.tables.length ≤ (binDeltas 1 exCRows).length := by
    simp only [kbestCands, Nat.lt_irrefl, if_true, Nat.lt_one_iff] at hc
    obtain ⟨i, _, rfl⟩ := List.mem_map.mp hc
    simp only [kbestCandOf, List.length_map, sortAsc_length, List.length_take]
    rw [(List.mergeSort_perm (binDeltas 1 exCRows) pairLe).length_eq]
    exact Nat.min_le_right _ _
  rw [List.length_take, Nat.min_eq_left hle]

/-- COUNTEREXAMPLE to the optimality of the k-split fit for a fixed number of clusters (kernel-checked): on `exCRows` the
    bin means are 0, 1, 21/10; the greedy agglomeration merges the two closest means first (0 and 1: distance 1 < 1.21), so
    its two-cluster candidate is {0, 1} | {2} with RSS 4/5 — but the partition {0} | {1, 2} has RSS 121/200 < 4/5 (the greedy
    rule ignores the cluster sizes). -/
example :
    ((ksplitCands 1 (0 : ℚ) 1000 Crit.rss 0 exCRows)[1]?.map fun c => (c.rss, c.h2t)) = some (4 / 5, [0, 0, 1]) ∧
    rssOfC 1 exCRows (tablePred fun h => if h = 0 then (fun _ => 0) else (fun _ => 31 / 20)) = 121 / 200 ∧
    (121 / 200 : ℚ) < 4 / 5 := by
  refine ⟨by decide +kernel, by decide +kernel, by norm_num⟩

/-- merging two affine learners on the same feature gives one learner -/
example : (merge [Learner.affine 0 [fun _ => (1 : ℚ), fun _ => 2], Learner.affine 0 [fun _ => 3, fun _ => 4]]).length = 1 := by
  simp [merge, mergeAux, absorb, tryMerge]

end examples

end NanoVerif.WLearner
