import NanoVerif.Proofs.Split
/-!
  C12 — splitters and samplers return index sets with the promised set structure.

  Theorems about `Model/Split.lean`. The shuffle, the drawn positions and the sort are oracles: every theorem holds
  for every permutation `perm` of the samples, every list of draws and every `sort` satisfying `SortSpec`
  (instantiated by `sortI_spec` for the merge sort that runs in the driver). `samples.Nodup` is the hypothesis
  "a list of distinct sample indices" of the property. Nothing is `_partial`.
-/
namespace NanoVerif.Split

/-- the sort that runs in the driver satisfies the contract assumed of `std::sort` -/
theorem sortI_spec : SortSpec sortI := ⟨sortI_sorted, sortI_perm⟩

/-! ### k-fold -/

/-- `split` returns one pair per fold -/
theorem kfold_length (sort : List Int → List Int) (perm : List Int) (folds : Nat) :
    (kfold sort perm folds).length = folds := by
  simp [kfold]

/-- Every `(train, valid)` pair of k-fold is strictly sorted, disjoint, and together exactly the input. -/
theorem kfold_pair (sort : List Int → List Int) (hs : SortSpec sort) (samples perm : List Int)
    (hnd : samples.Nodup) (hp : perm.Perm samples) (folds : Nat) :
    ∀ p ∈ kfold sort perm folds, GoodPair samples p := by
  intro p hmem
  simp only [kfold, List.mem_map, List.mem_range] at hmem
  obtain ⟨f, hf, rfl⟩ := hmem
  exact goodPair_of_pieces hs hnd hp
    (outside_inside_perm perm _ _ (validBegin_le_validEnd perm.length folds f hf))

/-- The `folds` validation parts partition the input: in order they are a permutation of the samples, two different
    folds share no index, all but the last have `n / folds` elements, the last has the remaining
    `n - (folds-1)·(n/folds) = n/folds + n mod folds`, so the sizes differ by `n mod folds < folds`. -/
theorem kfold_partition (sort : List Int → List Int) (hs : SortSpec sort) (samples perm : List Int)
    (hnd : samples.Nodup) (hp : perm.Perm samples) (folds : Nat) (hpos : 0 < folds) :
    let V := fun f => (foldSplit sort perm folds f).2
    let n := samples.length
    ((List.range folds).flatMap V).Perm samples ∧
    (∀ f g, f < folds → g < folds → f ≠ g → ∀ x ∈ V f, x ∉ V g) ∧
    (∀ f, f + 1 < folds → (V f).length = n / folds) ∧
    (V (folds - 1)).length = n - (folds - 1) * (n / folds) ∧
    (V (folds - 1)).length = n / folds + n % folds ∧ n % folds < folds := by
  intro V n
  have hn : perm.length = n := hp.length_eq
  -- the concatenation of the sorted validation parts is a permutation of the concatenation of the slices = perm
  have hflat : ((List.range folds).flatMap V).Perm perm := by
    have h := flatMap_validSlice perm folds hpos
    have hperm : ∀ (l : List Nat), (l.flatMap V).Perm (l.flatMap (validSlice perm folds)) := by
      intro l
      induction l with
      | nil => simp
      | cons a l ih => simpa [List.flatMap_cons, V, foldSplit] using (hs.perm (validSlice perm folds a)).append ih
    simpa [h] using hperm (List.range folds)
  have hndflat : ((List.range folds).flatMap V).Nodup := (hflat.trans hp).nodup_iff.mpr hnd
  have hpw := (List.nodup_flatMap.mp hndflat).2
  refine ⟨hflat.trans hp, ?_, ?_, ?_, ?_, Nat.mod_lt _ hpos⟩
  · intro f g hf hg hne x hxf hxg
    -- `range folds` is pairwise ordered, so pairwise-disjointness along the list gives it for any two indices
    have hdisj : ∀ a b, a < b → b < folds → List.Disjoint (V a) (V b) := by
      intro a b hab hb
      have := List.pairwise_iff_getElem.mp hpw a b (by simp; omega) (by simpa using hb) hab
      simpa [Function.onFun] using this
    rcases Nat.lt_or_gt_of_ne hne with h | h
    · exact hdisj f g h hg hxf hxg
    · exact hdisj g f h hf hxg hxf
  · intro f hf
    have hlen := validSlice_length perm folds f (by omega)
    have hV : (V f).length = (validSlice perm folds f).length := hs.length _
    rw [hV, hlen, hn]
    simp only [validEnd, validBegin, if_pos hf, chunk]
    clear hlen hV
    generalize n / folds = c
    omega
  · have hlen := validSlice_length perm folds (folds - 1) (by omega)
    have hlt : ¬ folds - 1 + 1 < folds := by omega
    have hV : (V (folds - 1)).length = (validSlice perm folds (folds - 1)).length := hs.length _
    rw [hV, hlen, hn]
    simp only [validEnd, validBegin, if_neg hlt, chunk]
  · have hlen := validSlice_length perm folds (folds - 1) (by omega)
    have hlt : ¬ folds - 1 + 1 < folds := by omega
    have hV : (V (folds - 1)).length = (validSlice perm folds (folds - 1)).length := hs.length _
    rw [hV, hlen, hn]
    simp only [validEnd, validBegin, if_neg hlt, chunk]
    have h1 := Nat.div_add_mod n folds
    have h2 : (folds - 1) * (n / folds) + n / folds = folds * (n / folds) := by
      obtain ⟨k, rfl⟩ : ∃ k, folds = k + 1 := ⟨folds - 1, by omega⟩
      simp [Nat.add_mul]
    generalize n / folds = c at *
    generalize n % folds = m at *
    omega

/-! ### repeated random sub-sampling -/

/-- Every `(train, valid)` pair of the random splitter is strictly sorted, disjoint, and together exactly the input
    (for every sequence of shuffles). -/
theorem random_pair (sort : List Int → List Int) (hs : SortSpec sort) (samples : List Int) (perms : List (List Int))
    (hnd : samples.Nodup) (hp : ∀ q ∈ perms, q.Perm samples) (trainPer : Nat) :
    ∀ p ∈ randomSplit sort perms trainPer, GoodPair samples p := by
  intro p hmem
  simp only [randomSplit, List.mem_map] at hmem
  obtain ⟨q, hq, rfl⟩ := hmem
  refine goodPair_of_pieces hs hnd (hp q hq) ?_
  have : (q.drop (trainSize trainPer q.length)).take (q.length - trainSize trainPer q.length)
      = q.drop (trainSize trainPer q.length) := List.take_of_length_le (by simp)
  rw [this, List.take_append_drop]

/-- The training part has `idiv(train_per·n, 100) = ⌊(train_per·n + 50)/100⌋` elements — `train_per·n/100` rounded to the
    nearest integer, halves up — for every admissible `train_per` (domain translated from random.cpp), and the validation
    part has the other `n - train_size`. -/
theorem random_train_size (sort : List Int → List Int) (hs : SortSpec sort) (perms : List (List Int)) (trainPer n : Nat)
    (htp : trainPerOk trainPer = true) (hlen : ∀ q ∈ perms, q.length = n) :
    trainSize trainPer n = (trainPer * n + 50) / 100 ∧
    (100 * trainSize trainPer n ≤ trainPer * n + 50 ∧ trainPer * n + 50 < 100 * trainSize trainPer n + 100) ∧
    trainSize trainPer n ≤ n ∧
    ∀ p ∈ randomSplit sort perms trainPer,
      p.1.length = trainSize trainPer n ∧ p.2.length = n - trainSize trainPer n := by
  have heq := trainSize_eq trainPer n
  have hle100 : trainPer ≤ 100 := by
    simp [trainPerOk, Gen.Splitter.trainPerMin, Gen.Splitter.trainPerMax] at htp
    have h2 := of_decide_eq_true htp.2
    omega
  have hmul : trainPer * n ≤ 100 * n := Nat.mul_le_mul_right n hle100
  have hts : trainSize trainPer n ≤ n := by rw [heq]; omega
  refine ⟨heq, by rw [heq]; omega, hts, ?_⟩
  intro p hmem
  simp only [randomSplit, List.mem_map] at hmem
  obtain ⟨q, hq, rfl⟩ := hmem
  have hq := hlen q hq
  simp only [randomFold, hs.length, List.length_take, List.length_drop, hq]
  omega

/-- The shuffles of the random splitter (one generator, the samples shuffled in place once per fold) are `folds`
    permutations of the input, whatever the generator does, as long as every shuffle returns a permutation. -/
theorem randomPerms_perm {G : Type} (shuffle : G → List Int → List Int × G)
    (hsh : ∀ g l, (shuffle g l).1.Perm l) :
    ∀ (k : Nat) (g : G) (l : List Int),
      (randomPerms shuffle g l k).length = k ∧ ∀ q ∈ randomPerms shuffle g l k, q.Perm l
  | 0, _, _ => by simp [randomPerms]
  | k + 1, g, l => by
    obtain ⟨h1, h2⟩ := randomPerms_perm shuffle hsh k (shuffle g l).2 (shuffle g l).1
    refine ⟨by simp [randomPerms, h1], ?_⟩
    intro q hq
    simp only [randomPerms, List.mem_cons] at hq
    rcases hq with rfl | hq
    · exact hsh g l
    · exact (h2 q hq).trans (hsh g l)

/-- The splits are a function of (samples, folds, train_per, the generator seeded by `seed`): equal seeds give equal
    splits, for every seeding function and every shuffle that is a function of the generator state. -/
theorem split_deterministic {G : Type} (sort : List Int → List Int) (seedRng : Nat → G)
    (shuffle : G → List Int → List Int × G) (samples : List Int) (folds trainPer seed1 seed2 : Nat)
    (h : seed1 = seed2) :
    kfold sort (shuffle (seedRng seed1) samples).1 folds = kfold sort (shuffle (seedRng seed2) samples).1 folds ∧
    randomSplit sort (randomPerms shuffle (seedRng seed1) samples folds) trainPer =
      randomSplit sort (randomPerms shuffle (seedRng seed2) samples folds) trainPer := by
  subst h; exact ⟨rfl, rfl⟩

/-! ### samplers -/

/-- Sampling without replacement returns `count` distinct (strictly sorted) members of the input. -/
theorem without_replacement_spec (sort : List Int → List Int) (hs : SortSpec sort) (samples perm : List Int)
    (hnd : samples.Nodup) (hp : perm.Perm samples) (count : Nat) (r : List Int)
    (h : sampleWithout sort perm count = some r) :
    r.length = count ∧ r.Pairwise (· < ·) ∧ ∀ x ∈ r, x ∈ samples := by
  unfold sampleWithout at h
  split at h
  · rename_i hc
    cases h
    have hndp : perm.Nodup := hp.nodup_iff.mpr hnd
    refine ⟨by rw [hs.length, List.length_take]; omega, hs.strict (hndp.sublist (List.take_sublist _ _)), ?_⟩
    intro x hx
    exact hp.mem_iff.mp (List.mem_of_mem_take (hs.mem.mp hx))
  · cases h

/-- … and answers exactly when `assert(count <= samples.size())` holds. -/
theorem without_replacement_guard (sort : List Int → List Int) (perm : List Int) (count : Nat) :
    sampleWithout sort perm count = none ↔ perm.length < count := by
  unfold sampleWithout
  split <;> simp <;> omega

/-- Sampling with replacement returns `count` sorted members of the input. -/
theorem with_replacement_spec (sort : List Int → List Int) (hs : SortSpec sort) (samples : List Int)
    (count : Nat) (draws : List Nat) (r : List Int) (h : sampleWith sort samples count draws = some r) :
    r.length = count ∧ r.Pairwise (· ≤ ·) ∧ ∀ x ∈ r, x ∈ samples := by
  unfold sampleWith at h
  split at h
  · rename_i hc
    cases hpk : pick samples draws with
    | none => simp [hpk] at h
    | some xs =>
      simp only [hpk, Option.map_some, Option.some.injEq] at h
      subst h
      obtain ⟨hl, hm⟩ := pick_spec samples draws xs hpk
      refine ⟨by rw [hs.length, hl, hc], hs.sorted xs, ?_⟩
      intro x hx
      obtain ⟨d, _, hd⟩ := hm x (hs.mem.mp hx)
      exact List.mem_of_getElem? hd
  · cases h

/-- … and answers exactly when it is given `count` draws that are positions of the input. -/
theorem with_replacement_guard (sort : List Int → List Int) (samples : List Int) (count : Nat) (draws : List Nat) :
    (sampleWith sort samples count draws).isSome ↔ draws.length = count ∧ ∀ d ∈ draws, d < samples.length := by
  unfold sampleWith
  split
  · rename_i hc
    simp only [Option.isSome_map, pick_isSome, hc, true_and]
  · rename_i hc
    simp [hc]

/-- Weighted sampling never returns an index of zero weight — *given* the contract of `std::discrete_distribution`
    (`DrawsPositive`: every drawn position has a positive weight; an explicit hypothesis, checked by the driver on every
    generated case, not a result). With distinct samples, every position holding a returned index has positive weight. -/
theorem weighted_never_zero {α : Type} [LT α] [OfNat α 0] (sort : List Int → List Int) (hs : SortSpec sort)
    (samples : List Int) (weights : List α) (count : Nat) (draws : List Nat) (r : List Int)
    (hnd : samples.Nodup) (hc : DrawsPositive weights draws)
    (h : sampleWith sort samples count draws = some r) :
    ∀ x ∈ r, ∀ (i : Nat) (w : α), samples[i]? = some x → weights[i]? = some w → 0 < w := by
  intro x hx i w hi hw
  unfold sampleWith at h
  split at h
  · cases hpk : pick samples draws with
    | none => simp [hpk] at h
    | some xs =>
      simp only [hpk, Option.map_some, Option.some.injEq] at h
      subst h
      obtain ⟨d, hd, hdx⟩ := (pick_spec samples draws xs hpk).2 x (hs.mem.mp hx)
      obtain ⟨w', hw', hpos⟩ := hc d hd
      have hid : i = d := by
        have hi' : i < samples.length := (List.getElem?_eq_some_iff.mp hi).1
        exact (List.getElem?_inj hi' hnd).mp (hi.trans hdx.symm)
      subst hid
      rw [hw] at hw'
      cases hw'
      exact hpos
  · cases h

/-- The gboost sampler: `off` returns the samples unchanged, `subsample` `count` distinct sorted members, the three
    bootstrap modes `count` sorted members; in every mode only members of the input are returned. -/
theorem gboost_spec (sort : List Int → List Int) (hs : SortSpec sort) (mode : Mode) (samples perm : List Int)
    (hnd : samples.Nodup) (hp : perm.Perm samples) (count : Nat) (draws : List Nat) (r : List Int)
    (h : gboostSample sort mode samples count perm draws = some r) :
    (∀ x ∈ r, x ∈ samples) ∧ (mode = .off → r = samples) ∧ (mode ≠ .off → r.length = count ∧ r.Pairwise (· ≤ ·)) ∧
    (mode = .subsample → r.Pairwise (· < ·)) := by
  cases mode <;> simp only [gboostSample] at h
  · cases h; simp
  · obtain ⟨h1, h2, h3⟩ := without_replacement_spec sort hs samples perm hnd hp count r h
    exact ⟨h3, by simp, fun _ => ⟨h1, h2.imp (fun h => Int.le_of_lt h)⟩, fun _ => h2⟩
  all_goals
    obtain ⟨h1, h2, h3⟩ := with_replacement_spec sort hs samples count draws r h
    exact ⟨h3, by simp, fun _ => ⟨h1, h2⟩, by simp⟩

/-! ### ball -/

/-- Exact arithmetic: with `s = ‖u‖₂ > 0` (`s·s = Σu²`), `0 ≤ z ≤ 1` and `r ≥ 0` the point `x0 + r·z·u/s` is at
    squared distance exactly `(r·z)² ≤ r²` from `x0`: it lies inside the ball. -/
theorem ball_inside {α : Type} [Field α] [LinearOrder α] [IsStrictOrderedRing α] (x0 u : List α) (r z s : α)
    (hlen : u.length = x0.length) (hs : s * s = sumSq u) (hspos : 0 < s) (hr : 0 ≤ r) (hz0 : 0 ≤ z) (hz1 : z ≤ 1) :
    distSq (ballPoint x0 u r z s) x0 = (r * z) * (r * z) ∧ distSq (ballPoint x0 u r z s) x0 ≤ r * r := by
  have h := distSq_ballPoint r z s x0 u hlen
  have hne : s ≠ 0 := ne_of_gt hspos
  have heq : distSq (ballPoint x0 u r z s) x0 = (r * z) * (r * z) := by
    rw [h, ← hs]; field_simp
  refine ⟨heq, ?_⟩
  rw [heq]
  have hrz : r * z ≤ r := by nlinarith
  have hrz0 : 0 ≤ r * z := mul_nonneg hr hz0
  nlinarith

/-! ### non-vacuity: the hypotheses are satisfiable and the conclusions say something on concrete inputs -/

-- 7 samples, 3 folds (7 mod 3 = 1): the hypotheses of `kfold_pair` / `kfold_partition` hold for a concrete shuffle
example : ∀ p ∈ kfold sortI [8, 20, 3, 10, 5, 1, 4] 3, GoodPair [10, 3, 5, 8, 20, 1, 4] p :=
  kfold_pair sortI sortI_spec [10, 3, 5, 8, 20, 1, 4] [8, 20, 3, 10, 5, 1, 4] (by decide) (by decide) 3
example := kfold_partition sortI sortI_spec [10, 3, 5, 8, 20, 1, 4] [8, 20, 3, 10, 5, 1, 4] (by decide) (by decide) 3
  (by decide)
-- the boundaries of that case: chunks [0,2) [2,4) [4,7): sizes 2, 2, 3
example : (List.range 3).map (fun f => (validBegin 7 3 f, validEnd 7 3 f)) = [(0, 2), (2, 4), (4, 7)] := by decide
example : validSlice [8, 20, 3, 10, 5, 1, 4] 3 2 = [5, 1, 4] ∧ trainSlice [8, 20, 3, 10, 5, 1, 4] 3 2 = [8, 20, 3, 10] := by
  decide
-- 25 samples at 90 %: 22.5 is rounded up to 23 (truncation would give 22); 90 is admissible, 95 is not
example : trainSize 90 25 = 23 ∧ trainSize 80 21 = 17 ∧ trainSize 10 2 = 0 := by decide
example : trainPerOk 90 = true ∧ trainPerOk 95 = false ∧ paramsOk 2 1024 = true ∧ paramsOk 1 0 = false := by decide
example := random_train_size sortI sortI_spec [[3, 1, 2, 0], [0, 2, 1, 3]] 80 4 (by decide) (by decide)
example : ∀ p ∈ randomSplit sortI [[3, 1, 2, 0], [0, 2, 1, 3]] 80, GoodPair [0, 1, 2, 3] p :=
  random_pair sortI sortI_spec [0, 1, 2, 3] [[3, 1, 2, 0], [0, 2, 1, 3]] (by decide) (by decide) 80
-- samplers
example : sampleWithout sortI [5, 9, 7] 4 = none ∧ (sampleWithout sortI [5, 9, 7] 2).isSome = true := by
  constructor
  · decide
  · simp [sampleWithout]
example : pick [10, 3, 5, 8] [3, 3, 1] = some [8, 8, 3] ∧ pick [10, 3, 5, 8] [4] = none := by decide
example : (sampleWith sortI [10, 3, 5, 8] 3 [3, 3, 1]).isSome = true :=
  (with_replacement_guard sortI [10, 3, 5, 8] 3 [3, 3, 1]).mpr (by decide)
-- the contract of the weighted draw is satisfiable with zero weights present, and excludes a zero-weight position
example : DrawsPositive ([0, 1, 0, 2] : List Int) [3, 1, 3] := by
  intro d hd
  simp only [List.mem_cons, List.not_mem_nil, or_false] at hd
  rcases hd with rfl | rfl | rfl <;> simp
example : ¬ DrawsPositive ([0, 1, 0, 2] : List Int) [0] := by
  intro h
  obtain ⟨w, hw, hpos⟩ := h 0 (by simp)
  simp at hw; omega
-- ball: u = (3, 4), s = 5, r = 2, z = 1/2 over ℚ: squared distance 1 ≤ 4
example : distSq (ballPoint [1, 1] [3, 4] (2 : Rat) (1 / 2) 5) [1, 1] = 1 := by
  have := (ball_inside [1, 1] [3, 4] (2 : Rat) (1 / 2) 5 rfl (by norm_num [sumSq]) (by norm_num) (by norm_num)
    (by norm_num) (by norm_num)).1
  rw [this]; norm_num

end NanoVerif.Split
