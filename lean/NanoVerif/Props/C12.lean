import NanoVerif.Proofs.Split
import NanoVerif.Proofs.SplitSampler
import NanoVerif.Proofs.SplitBall
import NanoVerif.Proofs.SplitGen
import NanoVerif.Proofs.SplitGenSampling
import NanoVerif.Proofs.SplitGenGboost
/-!
  C12 — splitters and samplers return index sets with the promised set structure.

  Theorems about `Model/Split.lean` and `Model/SplitSampler.lean`. `std::shuffle`, `uniform_int_distribution` and the sort are
  oracles: every theorem holds for every permutation `perm` of the samples, every list of draws and every `sort` satisfying
  `SortSpec` (instantiated by `sortI_spec` for the merge sort that runs in the driver). `samples.Nodup` is the hypothesis
  "a list of distinct sample indices" of the property. Nothing is `_partial`.

  ## Gap table (every function of the anchored files)

  | C++ | status | Lean |
  |---|---|---|
  | splitter.cpp:7-12 `splitter_t::splitter_t` (registers folds, seed) | translated + modelled | `Gen.Splitter.*`, `Splitter.fresh`, `Splitter.set`, `paramsOk` |
  | splitter.cpp:14-27 `splitter_t::all` (factory, call_once) | outside (C19 owns the factories; the harness obtains every object through it) | — |
  | kfold.cpp:6-9 constructor | modelled | `Splitter.fresh .kfold` |
  | kfold.cpp:11-45 `kfold_splitter_t::split` | modelled + TRANSLATED (`Gen/SplitKFold.lean`: `trainPieces`, `validPieces`, `foldPair`, `split`; `model_kfold_*_is_generated`, `model_foldSplit_is_generated`, `gen_kfold_pieces_tile`) | `kfold`, `foldSplit`, `validBegin/End`, object level `Splitter.split`, `hStep` |
  | kfold.cpp:47-50 `clone` | modelled | `HCmd.clone` (`hist_clone_copies`) |
  | random.cpp:7-11 constructor (registers train_per) | translated + modelled | `Gen.Splitter.trainPer*`, `Splitter.set .trainPer` (random only) |
  | random.cpp:13-45 `random_splitter_t::split` | modelled + TRANSLATED (`Gen/SplitRandom.lean`: `outer0/1`, pieces, `loop`, `split`; `model_random_*_is_generated`, `model_splitter_split_is_generated`) | `trainSize` (through translated `Gen.idiv`), `randomPerms`, `randomSplit`, `Splitter.split` |
  | random.cpp:47-50 `clone` | modelled | `HCmd.clone` |
  | sampling.cpp:5-13 `sample_with_replacement(samples, count, rng)` | modelled + TRANSLATED (`Gen/SplitSampling.lean` `withBody/withDist/withGuards`; `model_withG_is_generated`) | `sampleWith`, `pick`, `withG` (generator threaded) |
  | sampling.cpp:21-33 `sample_with_replacement(samples, weights, count, rng)` | modelled, incl. the distribution; skeleton TRANSLATED (`weightedBody`, `model_wwithG_is_generated`) | `wwithG`, `ddCp`, `ddDraw`, `lowerBound` |
  | sampling.cpp:41-51 `sample_without_replacement(samples, count, rng)` | modelled + TRANSLATED (`withoutGuards/withoutBody`; `model_withoutG_is_generated`) | `sampleWithout`, `withoutG` |
  | sampling.cpp:15-19, 35-39, 53-57, 59-63, 75-79 overloads without a generator | outside: `make_rng()` reads `std::random_device`; their answers go to the property oracle (family `unseeded`) | — |
  | sampling.cpp:65-73, 81-100 `sample_from_ball(x0, radius[, x], rng)` | modelled; normal / uniform draws, `pow`, `lpNorm<2>` are oracles (`u`, `z`, `s`) | `ballPoint`, `distSq`, `ball_inside` |
  | random.cpp (core):6-17 `make_rng(seed)` | seeded branch modelled, branch condition + seed value TRANSLATED (`makeRngSeeded`, `model_make_rng_is_generated`); unseeded branch outside | `lcgSeed`, `lcgNext` |
  | gboost/sampler.cpp:7-15 constructor | modelled + TRANSLATED (`Gen/SplitGboost.lean` `weightsEmpty`; `model_sampler_make_is_generated`) | `Sampler.make` |
  | gboost/sampler.cpp:17-62 `sampler_t::sample` | TRANSLATED dispatch (`route`, `count`; `model_sampler_sample_is_generated`) + modelled: count, weights, the routine called per mode, the member generator | `Sampler.count`, `Sampler.newWeights`, `Sampler.sample`, `Sampler.run` |
  | numeric.h `idiv`, `iround` | translated | `Gen.idiv`, `Gen.iround` |
  | numeric.h `square`, `cube`, `quartic`, `close`, `roundpow10`, `epsilon*`, … | outside: not used by the anchored code | — |
  | libstdc++ `minstd_rand`, `generate_canonical<double,53>`, `discrete_distribution` | modelled as coded (gcc 12 `bits/random.tcc`) | `lcgNext`, `canonNum` / `canonical`, `accum`, `normalize`, `partialSums`, `setLast`, `ddCp`, `lbGo` |
  | libstdc++ `std::shuffle`, `uniform_int_distribution`, `std::sort`, `normal_distribution`, `std::pow` | oracle: contracts `StdLib.Ok`, `SortSpec`, hypotheses of `ball_inside`; monitored on every call by the driver (`isShuffleOf`, range of each draw) | — |
-/
namespace NanoVerif.Split

/-- the sort that runs in the driver satisfies the contract assumed of `std::sort` -/
theorem sortI_spec : SortSpec sortI := ⟨sortI_sorted, sortI_perm⟩

/-! ### k-fold -/

/-- `split` returns one pair per fold -/
theorem kfold_length (sort : List Int → List Int) (perm : List Int) (folds : Nat) :
    (kfold sort perm folds).length = folds := by
  simp [kfold]

/-- Every `(train, valid)` pair of k-fold is strictly sorted, disjoint, and together exactly the input. -/
theorem kfold_pair (sort : List Int → List Int) (hs : SortSpec sort) (samples perm : List Int)
    (hnd : samples.Nodup) (hp : perm.Perm samples) (folds : Nat) :
    ∀ p ∈ kfold sort perm folds, GoodPair samples p := by
  intro p hmem
  simp only [kfold, List.mem_map, List.mem_range] at hmem
  obtain ⟨f, hf, rfl⟩ := hmem
  exact goodPair_of_pieces hs hnd hp
    (outside_inside_perm perm _ _ (validBegin_le_validEnd perm.length folds f hf))

/-- The `folds` validation parts partition the input: in order they are a permutation of the samples, two different
    folds share no index, all but the last have `n / folds` elements, the last has the remaining
    `n - (folds-1)·(n/folds) = n/folds + n mod folds`, so the sizes differ by `n mod folds < folds`. -/
theorem kfold_partition (sort : List Int → List Int) (hs : SortSpec sort) (samples perm : List Int)
    (hnd : samples.Nodup) (hp : perm.Perm samples) (folds : Nat) (hpos : 0 < folds) :
    let V := fun f => (foldSplit sort perm folds f).2
    let n := samples.length
    ((List.range folds).flatMap V).Perm samples ∧
    (∀ f g, f < folds → g < folds → f ≠ g → ∀ x ∈ V f, x ∉ V g) ∧
    (∀ f, f + 1 < folds → (V f).length = n / folds) ∧
    (V (folds - 1)).length = n - (folds - 1) * (n / folds) ∧
    (V (folds - 1)).length = n / folds + n % folds ∧ n % folds < folds := by
  intro V n
  have hn : perm.length = n := hp.length_eq
  -- the concatenation of the sorted validation parts is a permutation of the concatenation of the slices = perm
  have hflat : ((List.range folds).flatMap V).Perm perm := by
    have h := flatMap_validSlice perm folds hpos
    have hperm : ∀ (l : List Nat), (l.flatMap V).Perm (l.flatMap (validSlice perm folds)) := by
      intro l
      induction l with
      | nil => simp
      | cons a l ih => simpa [List.flatMap_cons, V, foldSplit] using (hs.perm (validSlice perm folds a)).append ih
    simpa [h] using hperm (List.range folds)
  have hndflat : ((List.range folds).flatMap V).Nodup := (hflat.trans hp).nodup_iff.mpr hnd
  have hpw := (List.nodup_flatMap.mp hndflat).2
  refine ⟨hflat.trans hp, ?_, ?_, ?_, ?_, Nat.mod_lt _ hpos⟩
  · intro f g hf hg hne x hxf hxg
    -- `range folds` is pairwise ordered, so pairwise-disjointness along the list gives it for any two indices
    have hdisj : ∀ a b, a < b → b < folds → List.Disjoint (V a) (V b) := by
      intro a b hab hb
      have := List.pairwise_iff_getElem.mp hpw a b (by simp; omega) (by simpa using hb) hab
      simpa [Function.onFun] using this
    rcases Nat.lt_or_gt_of_ne hne with h | h
    · exact hdisj f g h hg hxf hxg
    · exact hdisj g f h hf hxg hxf
  · intro f hf
    have hlen := validSlice_length perm folds f (by omega)
    have hV : (V f).length = (validSlice perm folds f).length := hs.length _
    rw [hV, hlen, hn]
    simp only [validEnd, validBegin, if_pos hf, chunk]
    clear hlen hV
    generalize n / folds = c
    omega
  · have hlen := validSlice_length perm folds (folds - 1) (by omega)
    have hlt : ¬ folds - 1 + 1 < folds := by omega
    have hV : (V (folds - 1)).length = (validSlice perm folds (folds - 1)).length := hs.length _
    rw [hV, hlen, hn]
    simp only [validEnd, validBegin, if_neg hlt, chunk]
  · have hlen := validSlice_length perm folds (folds - 1) (by omega)
    have hlt : ¬ folds - 1 + 1 < folds := by omega
    have hV : (V (folds - 1)).length = (validSlice perm folds (folds - 1)).length := hs.length _
    rw [hV, hlen, hn]
    simp only [validEnd, validBegin, if_neg hlt, chunk]
    have h1 := Nat.div_add_mod n folds
    have h2 : (folds - 1) * (n / folds) + n / folds = folds * (n / folds) := by
      obtain ⟨k, rfl⟩ : ∃ k, folds = k + 1 := ⟨folds - 1, by omega⟩
      simp [Nat.add_mul]
    generalize n / folds = c at *
    generalize n % folds = m at *
    omega

/-! ### repeated random sub-sampling -/

/-- Every `(train, valid)` pair of the random splitter is strictly sorted, disjoint, and together exactly the input
    (for every sequence of shuffles). -/
theorem random_pair (sort : List Int → List Int) (hs : SortSpec sort) (samples : List Int) (perms : List (List Int))
    (hnd : samples.Nodup) (hp : ∀ q ∈ perms, q.Perm samples) (trainPer : Nat) :
    ∀ p ∈ randomSplit sort perms trainPer, GoodPair samples p := by
  intro p hmem
  simp only [randomSplit, List.mem_map] at hmem
  obtain ⟨q, hq, rfl⟩ := hmem
  refine goodPair_of_pieces hs hnd (hp q hq) ?_
  have : (q.drop (trainSize trainPer q.length)).take (q.length - trainSize trainPer q.length)
      = q.drop (trainSize trainPer q.length) := List.take_of_length_le (by simp)
  rw [this, List.take_append_drop]

/-- The training part has `idiv(train_per·n, 100) = ⌊(train_per·n + 50)/100⌋` elements — `train_per·n/100` rounded to the
    nearest integer, halves up — for every admissible `train_per` (domain translated from random.cpp), and the validation
    part has the other `n - train_size`. -/
theorem random_train_size (sort : List Int → List Int) (hs : SortSpec sort) (perms : List (List Int)) (trainPer n : Nat)
    (htp : trainPerOk trainPer = true) (hlen : ∀ q ∈ perms, q.length = n) :
    trainSize trainPer n = (trainPer * n + 50) / 100 ∧
    (100 * trainSize trainPer n ≤ trainPer * n + 50 ∧ trainPer * n + 50 < 100 * trainSize trainPer n + 100) ∧
    trainSize trainPer n ≤ n ∧
    ∀ p ∈ randomSplit sort perms trainPer,
      p.1.length = trainSize trainPer n ∧ p.2.length = n - trainSize trainPer n := by
  have heq := trainSize_eq trainPer n
  have hle100 : trainPer ≤ 100 := by
    simp [trainPerOk, Gen.Splitter.trainPerMin, Gen.Splitter.trainPerMax] at htp
    have h2 := of_decide_eq_true htp.2
    omega
  have hmul : trainPer * n ≤ 100 * n := Nat.mul_le_mul_right n hle100
  have hts : trainSize trainPer n ≤ n := by rw [heq]; omega
  refine ⟨heq, by rw [heq]; omega, hts, ?_⟩
  intro p hmem
  simp only [randomSplit, List.mem_map] at hmem
  obtain ⟨q, hq, rfl⟩ := hmem
  have hq := hlen q hq
  simp only [randomFold, hs.length, List.length_take, List.length_drop, hq]
  omega

/-- The shuffles of the random splitter (one generator, the samples shuffled in place once per fold) are `folds`
    permutations of the input, whatever the generator does, as long as every shuffle returns a permutation. -/
theorem randomPerms_perm {G : Type} (shuffle : G → List Int → List Int × G)
    (hsh : ∀ g l, (shuffle g l).1.Perm l) :
    ∀ (k : Nat) (g : G) (l : List Int),
      (randomPerms shuffle g l k).length = k ∧ ∀ q ∈ randomPerms shuffle g l k, q.Perm l
  | 0, _, _ => by simp [randomPerms]
  | k + 1, g, l => by
    obtain ⟨h1, h2⟩ := randomPerms_perm shuffle hsh k (shuffle g l).2 (shuffle g l).1
    refine ⟨by simp [randomPerms, h1], ?_⟩
    intro q hq
    simp only [randomPerms, List.mem_cons] at hq
    rcases hq with rfl | hq
    · exact hsh g l
    · exact (h2 q hq).trans (hsh g l)

/-- The splits are a function of (samples, folds, train_per, the generator seeded by `seed`): equal seeds give equal
    splits, for every seeding function and every shuffle that is a function of the generator state. -/
theorem split_deterministic {G : Type} (sort : List Int → List Int) (seedRng : Nat → G)
    (shuffle : G → List Int → List Int × G) (samples : List Int) (folds trainPer seed1 seed2 : Nat)
    (h : seed1 = seed2) :
    kfold sort (shuffle (seedRng seed1) samples).1 folds = kfold sort (shuffle (seedRng seed2) samples).1 folds ∧
    randomSplit sort (randomPerms shuffle (seedRng seed1) samples folds) trainPer =
      randomSplit sort (randomPerms shuffle (seedRng seed2) samples folds) trainPer := by
  subst h; exact ⟨rfl, rfl⟩

/-! ### samplers -/

/-- Sampling without replacement returns `count` distinct (strictly sorted) members of the input. -/
theorem without_replacement_spec (sort : List Int → List Int) (hs : SortSpec sort) (samples perm : List Int)
    (hnd : samples.Nodup) (hp : perm.Perm samples) (count : Nat) (r : List Int)
    (h : sampleWithout sort perm count = some r) :
    r.length = count ∧ r.Pairwise (· < ·) ∧ ∀ x ∈ r, x ∈ samples := by
  unfold sampleWithout at h
  split at h
  · rename_i hc
    cases h
    have hndp : perm.Nodup := hp.nodup_iff.mpr hnd
    refine ⟨by rw [hs.length, List.length_take]; omega, hs.strict (hndp.sublist (List.take_sublist _ _)), ?_⟩
    intro x hx
    exact hp.mem_iff.mp (List.mem_of_mem_take (hs.mem.mp hx))
  · cases h

/-- … and answers exactly when `assert(count <= samples.size())` holds. -/
theorem without_replacement_guard (sort : List Int → List Int) (perm : List Int) (count : Nat) :
    sampleWithout sort perm count = none ↔ perm.length < count := by
  unfold sampleWithout
  split <;> simp <;> omega

/-- Sampling with replacement returns `count` sorted members of the input. -/
theorem with_replacement_spec (sort : List Int → List Int) (hs : SortSpec sort) (samples : List Int)
    (count : Nat) (draws : List Nat) (r : List Int) (h : sampleWith sort samples count draws = some r) :
    r.length = count ∧ r.Pairwise (· ≤ ·) ∧ ∀ x ∈ r, x ∈ samples := by
  unfold sampleWith at h
  split at h
  · rename_i hc
    cases hpk : pick samples draws with
    | none => simp [hpk] at h
    | some xs =>
      simp only [hpk, Option.map_some, Option.some.injEq] at h
      subst h
      obtain ⟨hl, hm⟩ := pick_spec samples draws xs hpk
      refine ⟨by rw [hs.length, hl, hc], hs.sorted xs, ?_⟩
      intro x hx
      obtain ⟨d, _, hd⟩ := hm x (hs.mem.mp hx)
      exact List.mem_of_getElem? hd
  · cases h

/-- … and answers exactly when it is given `count` draws that are positions of the input. -/
theorem with_replacement_guard (sort : List Int → List Int) (samples : List Int) (count : Nat) (draws : List Nat) :
    (sampleWith sort samples count draws).isSome ↔ draws.length = count ∧ ∀ d ∈ draws, d < samples.length := by
  unfold sampleWith
  split
  · rename_i hc
    simp only [Option.isSome_map, pick_isSome, hc, true_and]
  · rename_i hc
    simp [hc]

/-- Weighted sampling never returns an index of zero weight — *given* the contract of `std::discrete_distribution`
    (`DrawsPositive`: every drawn position has a positive weight; an explicit hypothesis, checked by the driver on every
    generated case, not a result). With distinct samples, every position holding a returned index has positive weight. -/
theorem weighted_never_zero {α : Type} [LT α] [OfNat α 0] (sort : List Int → List Int) (hs : SortSpec sort)
    (samples : List Int) (weights : List α) (count : Nat) (draws : List Nat) (r : List Int)
    (hnd : samples.Nodup) (hc : DrawsPositive weights draws)
    (h : sampleWith sort samples count draws = some r) :
    ∀ x ∈ r, ∀ (i : Nat) (w : α), samples[i]? = some x → weights[i]? = some w → 0 < w := by
  intro x hx i w hi hw
  unfold sampleWith at h
  split at h
  · cases hpk : pick samples draws with
    | none => simp [hpk] at h
    | some xs =>
      simp only [hpk, Option.map_some, Option.some.injEq] at h
      subst h
      obtain ⟨d, hd, hdx⟩ := (pick_spec samples draws xs hpk).2 x (hs.mem.mp hx)
      obtain ⟨w', hw', hpos⟩ := hc d hd
      have hid : i = d := by
        have hi' : i < samples.length := (List.getElem?_eq_some_iff.mp hi).1
        exact (List.getElem?_inj hi' hnd).mp (hi.trans hdx.symm)
      subst hid
      rw [hw] at hw'
      cases hw'
      exact hpos
  · cases h

/-- The gboost sampler: `off` returns the samples unchanged, `subsample` `count` distinct sorted members, the three
    bootstrap modes `count` sorted members; in every mode only members of the input are returned. -/
theorem gboost_spec (sort : List Int → List Int) (hs : SortSpec sort) (mode : Mode) (samples perm : List Int)
    (hnd : samples.Nodup) (hp : perm.Perm samples) (count : Nat) (draws : List Nat) (r : List Int)
    (h : gboostSample sort mode samples count perm draws = some r) :
    (∀ x ∈ r, x ∈ samples) ∧ (mode = .off → r = samples) ∧ (mode ≠ .off → r.length = count ∧ r.Pairwise (· ≤ ·)) ∧
    (mode = .subsample → r.Pairwise (· < ·)) := by
  cases mode <;> simp only [gboostSample] at h
  · cases h; simp
  · obtain ⟨h1, h2, h3⟩ := without_replacement_spec sort hs samples perm hnd hp count r h
    exact ⟨h3, by simp, fun _ => ⟨h1, h2.imp (fun h => Int.le_of_lt h)⟩, fun _ => h2⟩
  all_goals
    obtain ⟨h1, h2, h3⟩ := with_replacement_spec sort hs samples count draws r h
    exact ⟨h3, by simp, fun _ => ⟨h1, h2⟩, by simp⟩

/-! ### ball -/

/-- Exact arithmetic: with `s = ‖u‖₂ > 0` (`s·s = Σu²`), `0 ≤ z ≤ 1` and `r ≥ 0` the point `x0 + r·z·u/s` is at
    squared distance exactly `(r·z)² ≤ r²` from `x0`: it lies inside the ball. -/
theorem ball_inside {α : Type} [Field α] [LinearOrder α] [IsStrictOrderedRing α] (x0 u : List α) (r z s : α)
    (hlen : u.length = x0.length) (hs : s * s = sumSq u) (hspos : 0 < s) (hr : 0 ≤ r) (hz0 : 0 ≤ z) (hz1 : z ≤ 1) :
    distSq (ballPoint x0 u r z s) x0 = (r * z) * (r * z) ∧ distSq (ballPoint x0 u r z s) x0 ≤ r * r := by
  have h := distSq_ballPoint r z s x0 u hlen
  have hne : s ≠ 0 := ne_of_gt hspos
  have heq : distSq (ballPoint x0 u r z s) x0 = (r * z) * (r * z) := by
    rw [h, ← hs]; field_simp
  refine ⟨heq, ?_⟩
  rw [heq]
  have hrz : r * z ≤ r := by nlinarith
  have hrz0 : 0 ≤ r * z := mul_nonneg hr hz0
  nlinarith


/-! ## gap-closing round: the objects (generator threaded through), the discrete distribution, the edge cases -/

/-! ### `sampling.cpp` edge cases -/

/-- All samples asked (`count = n`): the answer is the sorted input, whatever the shuffle did — for unsorted inputs and inputs
    with repeated values too (a seeded change returned the unsorted copy on this path). -/
theorem without_full_is_sorted_input (sort : List Int → List Int) (hs : SortSpec sort) (samples perm : List Int)
    (hp : perm.Perm samples) : sampleWithout sort perm samples.length = some (sortI samples) := by
  unfold sampleWithout
  rw [if_pos (by rw [hp.length_eq]), ← hp.length_eq, List.take_length, hs.eq_sortI]
  exact congrArg some (sortI_spec.congr hp)

/-- Without the hypothesis "distinct": `count` sorted values, none more often than the input holds it (a sub-multiset). -/
theorem without_replacement_submultiset (sort : List Int → List Int) (hs : SortSpec sort) (samples perm : List Int)
    (hp : perm.Perm samples) (count : Nat) (r : List Int) (h : sampleWithout sort perm count = some r) :
    r.length = count ∧ r.Pairwise (· ≤ ·) ∧ r.Subperm samples := by
  unfold sampleWithout at h
  split at h
  · rename_i hc
    cases h
    refine ⟨by rw [hs.length, List.length_take]; omega, hs.sorted _, ?_⟩
    exact ((hs.perm _).subperm_right).mpr (((List.take_sublist count perm).subperm).trans hp.subperm)
  · cases h

/-- `count = 0`: both samplers answer the empty selection (nothing is read from the samples, which may be empty). -/
theorem sampling_zero (sort : List Int → List Int) (hs : SortSpec sort) (samples perm : List Int) :
    sampleWithout sort perm 0 = some [] ∧ sampleWith sort samples 0 [] = some [] := by
  have h0 : sort [] = [] := List.Perm.eq_nil (hs.perm [])
  constructor
  · simp [sampleWithout, h0]
  · simp [sampleWith, pick, h0]

/-! ### the weighted draw -/

/-- **Weighted sampling never returns an index of zero weight — for the model of the code that draws** (`minstd_rand` →
    `generate_canonical` → libstdc++ `discrete_distribution` → `samples(position)` → sort), in exact arithmetic, with NO
    contract assumed of the distribution: weights non-negative, one per sample, positive sum; canonical draws in `(0, 1]`
    (`CanonOk`; for `minstd_rand` see `canonNum_pos`, `canonNum_lt`). The answer exists, has `count` sorted members, and every
    position holding a returned index has positive weight. -/
theorem weighted_never_zero_model {G α : Type} [Field α] [LinearOrder α] [IsStrictOrderedRing α]
    (L : StdLib G α) (hc : L.CanonOk) (sort : List Int → List Int) (hs : SortSpec sort)
    (samples : List Int) (weights : List α) (count : Nat) (g : G)
    (hnd : samples.Nodup) (hlen : weights.length = samples.length) (hw : ∀ x ∈ weights, 0 ≤ x) (hS : 0 < weights.sum) :
    ∃ r, (wwithG L sort samples weights count g).1 = some r ∧ r.length = count ∧ r.Pairwise (· ≤ ·) ∧
      (∀ x ∈ r, x ∈ samples) ∧
      ∀ x ∈ r, ∀ (i : Nat) (w : α), samples[i]? = some x → weights[i]? = some w → 0 < w := by
  -- every draw is a position of positive weight
  have hdraw : ∀ g', DrawsPositive weights [(ddDrawG L (ddCp weights).toArray g').1] := by
    intro g' d hd
    simp only [List.mem_singleton] at hd
    subst hd
    by_cases hn : 2 ≤ weights.length
    · have hsz : (ddCp weights).toArray.size = weights.length := by simp [ddCp_length weights hn]
      have hne : ¬ ((ddCp weights).toArray.size = 0) := by rw [hsz]; omega
      obtain ⟨h1, h2⟩ := ddDraw_positive weights (L.canon g').1 hn hw hS (hc g').1 (hc g').2
      have hd : (ddDrawG L (ddCp weights).toArray g').1 = ddDraw (ddCp weights).toArray (L.canon g').1 := by
        unfold ddDrawG; rw [if_neg hne]
      rw [hd]
      exact ⟨_, List.getElem?_eq_getElem h1, h2⟩
    · have hcp : ddCp weights = [] := ddCp_short weights (by omega)
      match weights, hn, hS, hcp with
      | [], _, hS, _ => simp at hS
      | [w0], _, hS, hcp => exact ⟨w0, by simp [ddDrawG, hcp], by simpa using hS⟩
      | _ :: _ :: _, hn, _, _ => simp at hn
  have hall : DrawsPositive weights (drawsG (ddDrawG L (ddCp weights).toArray) count g).1 :=
    drawsG_forall _ (fun d => ∃ w, weights[d]? = some w ∧ 0 < w) (fun g' => hdraw g' _ (by simp)) count g
  have hrange : ∀ d ∈ (drawsG (ddDrawG L (ddCp weights).toArray) count g).1, d < samples.length := by
    intro d hd
    obtain ⟨w, hw', _⟩ := hall d hd
    rw [← hlen]; exact (List.getElem?_eq_some_iff.mp hw').1
  have hsome := (with_replacement_guard sort samples count _).mpr ⟨drawsG_length _ count g, hrange⟩
  obtain ⟨r, hr⟩ := Option.isSome_iff_exists.mp hsome
  have hr' : (wwithG L sort samples weights count g).1 = some r := hr
  obtain ⟨h1, h2, h3⟩ := with_replacement_spec sort hs samples count _ r hr
  exact ⟨r, hr', h1, h2, h3, weighted_never_zero sort hs samples weights count _ r hnd hall hr⟩

/-- What the code does where the property has no valid answer (all-zero weights, a NaN weight: the cumulative table is NaN
    closed by 1 and no comparison `cp[i] < u` succeeds): every draw is position 0, the answer is `count` copies of the FIRST
    sample. This is why `0 < Σ weights` cannot be dropped from `weighted_never_zero_model` (replayed on the real code: corpus
    line `split wwith … all-zero`). -/
theorem weighted_no_comparison_first_sample {G α : Type} [Add α] [Div α] [LT α] [DecidableLT α] [OfNat α 0] [OfNat α 1]
    (L : StdLib G α) (sort : List Int → List Int) (hs : SortSpec sort) (samples : List Int) (weights : List α)
    (count : Nat) (g : G) (x0 : Int) (h0 : samples[0]? = some x0)
    (hnan : ∀ g' i, decide ((ddCp weights).toArray.getD i 0 < (L.canon g').1) = false) :
    (wwithG L sort samples weights count g).1 = some (List.replicate count x0) := by
  have hd : ∀ g', (ddDrawG L (ddCp weights).toArray g').1 = 0 := by
    intro g'
    unfold ddDrawG
    split
    · rfl
    · exact lowerBound_all_false _ _ (fun i _ => hnan g' i)
  unfold wwithG
  simp only [drawsG_const _ 0 hd count g, sampleWith, List.length_replicate, if_true,
    pick_replicate_zero samples x0 h0 count, Option.map_some, hs.replicate]

/-! ### `gboost::sampler_t` -/

section sampler
set_option linter.unusedSectionVars false
variable {G α : Type} [Field α] [LinearOrder α] [IsStrictOrderedRing α]

/-- The guard of `sample_without_replacement` (`assert(count <= samples.size())`, compiled out in release builds) is
    established by the caller for every admissible ratio (`gboost::subsample_ratio ∈ (0, 1]`). -/
theorem sampler_count_le (N : Num α) (hN : N.Ok) (s : Sampler G α) (h1 : s.ratio ≤ 1) :
    s.count N ≤ s.samples.length := by
  unfold Sampler.count
  apply hN.trunc_le
  have := hN.ofNat_nonneg s.samples.length
  nlinarith

/-- the weights of the two weighted modes are exactly the per-sample loss / the 2-norm of the per-sample gradient, in the
    order of the samples; the other modes do not touch the buffer -/
theorem sampler_weights_formula (N : Num α) (s : Sampler G α) (loss : Int → α) (grad : Int → List α) :
    (s.mode = .weiLoss → s.newWeights N loss grad = s.samples.map loss) ∧
    (s.mode = .weiGrad → s.newWeights N loss grad = s.samples.map (fun i => N.norm2 (grad i))) ∧
    (s.mode ≠ .weiLoss → s.mode ≠ .weiGrad → s.newWeights N loss grad = s.weights) := by
  unfold Sampler.newWeights
  cases s.mode <;> simp

/-- `off`: the samples, unchanged and in the caller's order; the object does not change. -/
theorem sampler_off_spec (N : Num α) (L : StdLib G α) (sort : List Int → List Int) (s : Sampler G α)
    (loss : Int → α) (grad : Int → List α) (hm : s.mode = .off) :
    s.sample N L sort loss grad = (some s.samples, s) := by
  unfold Sampler.sample; rw [hm]

/-- `subsample`: `count = trunc(ratio·n)` distinct sorted members (the answer exists for every admissible ratio), one
    `std::shuffle` is consumed. -/
theorem sampler_subsample_spec (N : Num α) (hN : N.Ok) (L : StdLib G α) (hL : L.Ok) (sort : List Int → List Int)
    (hs : SortSpec sort) (s : Sampler G α) (loss : Int → α) (grad : Int → List α) (hm : s.mode = .subsample)
    (hnd : s.samples.Nodup) (h1 : s.ratio ≤ 1) :
    ∃ r, (s.sample N L sort loss grad).1 = some r ∧ r.length = s.count N ∧ r.Pairwise (· < ·) ∧ (∀ x ∈ r, x ∈ s.samples) ∧
      (s.sample N L sort loss grad).2 = { s with rng := (L.shuffle s.rng s.samples).2 } := by
  have hperm := hL.shuffle_perm s.rng s.samples
  have hc : s.count N ≤ (L.shuffle s.rng s.samples).1.length := by
    rw [hperm.length_eq]; exact sampler_count_le N hN s h1
  have hr : sampleWithout sort (L.shuffle s.rng s.samples).1 (s.count N)
      = some (sort ((L.shuffle s.rng s.samples).1.take (s.count N))) := by
    unfold sampleWithout; rw [if_pos hc]
  obtain ⟨a, b, c⟩ := without_replacement_spec sort hs s.samples _ hnd hperm (s.count N) _ hr
  refine ⟨_, ?_, a, b, c, ?_⟩
  · unfold Sampler.sample; rw [hm]; exact hr
  · unfold Sampler.sample; rw [hm]; rfl

/-- `bootstrap`: `count` sorted members (repetitions allowed), `count` uniform draws are consumed. -/
theorem sampler_bootstrap_spec (N : Num α) (L : StdLib G α) (hL : L.Ok) (sort : List Int → List Int)
    (hs : SortSpec sort) (s : Sampler G α) (loss : Int → α) (grad : Int → List α) (hm : s.mode = .bootstrap)
    (hne : s.samples ≠ []) :
    ∃ r, (s.sample N L sort loss grad).1 = some r ∧ r.length = s.count N ∧ r.Pairwise (· ≤ ·) ∧ (∀ x ∈ r, x ∈ s.samples) := by
  have hpos : 0 < s.samples.length := List.length_pos_iff.mpr hne
  have hrange : ∀ d ∈ (drawsG (fun g => L.uniform g (s.samples.length - 1)) (s.count N) s.rng).1, d < s.samples.length :=
    drawsG_forall _ (fun d => d < s.samples.length) (fun g => by have := hL.uniform_le g (s.samples.length - 1); omega) _ _
  have hsome := (with_replacement_guard sort s.samples (s.count N) _).mpr ⟨drawsG_length _ _ _, hrange⟩
  obtain ⟨r, hr⟩ := Option.isSome_iff_exists.mp hsome
  obtain ⟨a, b, c⟩ := with_replacement_spec sort hs s.samples _ _ r hr
  refine ⟨r, ?_, a, b, c⟩
  unfold Sampler.sample; rw [hm]; exact hr

/-- `wei_loss_bootstrap` / `wei_grad_bootstrap`: the weights are the losses / gradient norms; when they are non-negative
    with a positive sum the answer exists, has `count` sorted members and never holds a sample of zero weight; the object
    keeps the weights it computed. -/
theorem sampler_weighted_spec (N : Num α) (L : StdLib G α) (hc : L.CanonOk) (sort : List Int → List Int)
    (hs : SortSpec sort) (s : Sampler G α) (loss : Int → α) (grad : Int → List α)
    (hm : s.mode = .weiLoss ∨ s.mode = .weiGrad) (hnd : s.samples.Nodup)
    (hw : ∀ x ∈ s.newWeights N loss grad, 0 ≤ x) (hS : 0 < (s.newWeights N loss grad).sum) :
    ∃ r, (s.sample N L sort loss grad).1 = some r ∧ r.length = s.count N ∧ r.Pairwise (· ≤ ·) ∧ (∀ x ∈ r, x ∈ s.samples) ∧
      (∀ x ∈ r, ∀ (i : Nat) (w : α), s.samples[i]? = some x → (s.newWeights N loss grad)[i]? = some w → 0 < w) ∧
      (s.sample N L sort loss grad).2.weights = s.newWeights N loss grad := by
  have hlen : (s.newWeights N loss grad).length = s.samples.length := by
    rcases hm with h | h
    · rw [(sampler_weights_formula N s loss grad).1 h]; simp
    · rw [(sampler_weights_formula N s loss grad).2.1 h]; simp
  obtain ⟨r, h1, h2, h3, h4, h5⟩ :=
    weighted_never_zero_model L hc sort hs s.samples (s.newWeights N loss grad) (s.count N) s.rng hnd hlen hw hS
  refine ⟨r, ?_, h2, h3, h4, h5, ?_⟩
  · rcases hm with h | h <;> (unfold Sampler.sample; rw [h]; exact h1)
  · rcases hm with h | h <;> (unfold Sampler.sample; rw [h])

/-- All five modes at once (what `gboost_spec` said of the core routine, now for the object with the count, the weights and the
    generator inside): any answer holds members of the input only; `off` is the input itself; the other modes give `count`
    sorted indices, strictly increasing for `subsample`. -/
theorem sampler_mode_spec (N : Num α) (L : StdLib G α) (hL : L.Ok) (sort : List Int → List Int) (hs : SortSpec sort)
    (s : Sampler G α) (loss : Int → α) (grad : Int → List α) (hnd : s.samples.Nodup) (r : List Int)
    (h : (s.sample N L sort loss grad).1 = some r) :
    (∀ x ∈ r, x ∈ s.samples) ∧ (s.mode = .off → r = s.samples) ∧
    (s.mode ≠ .off → r.length = s.count N ∧ r.Pairwise (· ≤ ·)) ∧ (s.mode = .subsample → r.Pairwise (· < ·)) := by
  unfold Sampler.sample at h
  cases hm : s.mode <;> rw [hm] at h <;> simp only at h
  · cases h; simp
  · obtain ⟨a, b, c⟩ := without_replacement_spec sort hs s.samples _ hnd (hL.shuffle_perm s.rng s.samples) _ r h
    exact ⟨c, by simp, fun _ => ⟨a, b.imp (fun h => Int.le_of_lt h)⟩, fun _ => b⟩
  all_goals
    obtain ⟨a, b, c⟩ := with_replacement_spec sort hs s.samples _ _ r h
    exact ⟨c, by simp, fun _ => ⟨a, b⟩, by simp⟩

/-- the configuration of the object never changes, and neither the answer nor the generator depend on what the weight buffer
    held before the call (it is overwritten before it is read) -/
theorem sampler_sample_frame (N : Num α) (L : StdLib G α) (sort : List Int → List Int) (s : Sampler G α)
    (loss : Int → α) (grad : Int → List α) (buf : List α) :
    (s.sample N L sort loss grad).2.samples = s.samples ∧ (s.sample N L sort loss grad).2.mode = s.mode ∧
    (s.sample N L sort loss grad).2.ratio = s.ratio ∧
    ({ s with weights := buf }.sample N L sort loss grad).1 = (s.sample N L sort loss grad).1 ∧
    ({ s with weights := buf }.sample N L sort loss grad).2.rng = (s.sample N L sort loss grad).2.rng := by
  unfold Sampler.sample Sampler.count Sampler.newWeights
  cases hm : s.mode <;> simp [hm]

/-- consecutive calls: one answer per call, the configuration is that of the constructor; two objects built from equal
    arguments give equal answers (the object is a function of its constructor arguments and its call history) -/
theorem sampler_run_spec (N : Num α) (L : StdLib G α) (sort : List Int → List Int) :
    ∀ (calls : List ((Int → α) × (Int → List α))) (s : Sampler G α),
      (Sampler.run N L sort s calls).1.length = calls.length ∧
      (Sampler.run N L sort s calls).2.samples = s.samples ∧ (Sampler.run N L sort s calls).2.mode = s.mode ∧
      (Sampler.run N L sort s calls).2.ratio = s.ratio
  | [], s => by simp [Sampler.run]
  | c :: cs, s => by
    obtain ⟨a, b, c', d⟩ := sampler_run_spec N L sort cs (s.sample N L sort c.1 c.2).2
    obtain ⟨f1, f2, f3, _⟩ := sampler_sample_frame N L sort s c.1 c.2 []
    simp only [Sampler.run, List.length_cons, a, b, c', d, f1, f2, f3, and_self]

end sampler

/-! ### splitter objects: the parameters are the only state -/

/-- `parameter(name) = value` succeeds exactly inside the registered domain (and, for `train_per`, on the random splitter
    only), changes that one value and keeps the domains; a refused value changes nothing (`none`: the object is kept). -/
theorem splitter_set_spec (s : Splitter) (p : PName) (v : Int) (hok : s.Ok) :
    (∀ s', s.set p v = some s' → s'.Ok ∧ s'.kind = s.kind ∧
      (p = .folds → s' = { s with folds := v.toNat }) ∧ (p = .seed → s' = { s with seed := v.toNat }) ∧
      (p = .trainPer → s' = { s with trainPer := v.toNat })) ∧
    (p = .seed → ((s.set p v).isSome ↔ (Int.ofNat Gen.Splitter.seedMin ≤ v ∧ v ≤ Int.ofNat Gen.Splitter.seedMax))) ∧
    (p = .folds → ((s.set p v).isSome ↔ (Int.ofNat Gen.Splitter.foldsMin ≤ v ∧ v ≤ Int.ofNat Gen.Splitter.foldsMax))) ∧
    (p = .trainPer → ((s.set p v).isSome ↔
      (s.kind = .random ∧ Int.ofNat Gen.Splitter.trainPerMin ≤ v ∧ v ≤ Int.ofNat Gen.Splitter.trainPerMax))) := by
  obtain ⟨hp, ht⟩ := hok
  simp only [paramsOk, trainPerOk, Bool.and_eq_true, decide_eq_true_eq] at hp ht
  refine ⟨?_, ?_, ?_, ?_⟩
  · intro s' h
    cases p <;> simp only [Splitter.set] at h <;> split at h <;> cases h <;>
      refine ⟨⟨?_, ?_⟩, rfl, by simp, by simp, by simp⟩ <;>
      simp only [paramsOk, trainPerOk, Bool.and_eq_true, decide_eq_true_eq] <;>
      rename_i hv <;> simp only [Int.ofNat_eq_natCast] at hv <;> omega
  · rintro rfl; simp only [Splitter.set]; split <;> simp_all
  · rintro rfl; simp only [Splitter.set]; split <;> simp_all
  · rintro rfl; simp only [Splitter.set]; split <;> simp_all

/-- changing the seed and restoring it restores the object -/
theorem splitter_seed_restore (s s1 : Splitter) (v : Int) (hok : s.Ok) (h : s.set .seed v = some s1) :
    s1.set .seed (Int.ofNat s.seed) = some s := by
  obtain ⟨hp, _⟩ := hok
  simp only [paramsOk, Bool.and_eq_true, decide_eq_true_eq] at hp
  simp only [Splitter.set] at h
  split at h
  · cases h
    simp only [Splitter.set, Int.ofNat_eq_natCast, Int.toNat_natCast]
    rw [if_pos ⟨by omega, by omega⟩]
  · cases h

variable {G : Type} (seedRng : Nat → G) (shuffle : G → List Int → List Int × G) (sort : List Int → List Int)

/-- `split` is const: the objects after the call are the objects before it; its answer is `Splitter.split` of the parameter
    values in force — a function of (kind, folds, seed, train_per, samples) and nothing else. -/
theorem hist_split_function (objs : List Splitter) (slot : Nat) (samples : List Int) (s : Splitter) (h : objs[slot]? = some s) :
    hStep seedRng shuffle sort objs (.split slot samples) = (.splits (s.split seedRng shuffle sort samples), objs) := by
  simp [hStep, h]

/-- a clone is a new object with the parameter values of the source, the source is kept -/
theorem hist_clone_copies (objs : List Splitter) (slot : Nat) (s : Splitter) (h : objs[slot]? = some s) :
    (hStep seedRng shuffle sort objs (.clone slot)).2 = objs ++ [s] ∧
    (hStep seedRng shuffle sort objs (.clone slot)).2[objs.length]? = some s := by
  simp [hStep, h]

/-- the objects after ANY history do not depend on the generator, the shuffle or the sort: no object holds generator state -/
theorem hist_objects_oracle_free {G' : Type} (seedRng' : Nat → G') (shuffle' : G' → List Int → List Int × G')
    (sort' : List Int → List Int) : ∀ (cmds : List HCmd) (objs : List Splitter),
    (hRun seedRng shuffle sort objs cmds).2 = (hRun seedRng' shuffle' sort' objs cmds).2
  | [], _ => rfl
  | c :: cs, objs => by
    have h : (hStep seedRng shuffle sort objs c).2 = (hStep seedRng' shuffle' sort' objs c).2 := by
      cases c with
      | set slot p v => simp only [hStep]
      | split slot samples => simp only [hStep]; split <;> rfl
      | clone slot => simp only [hStep]
    simp only [hRun, h]
    exact hist_objects_oracle_free seedRng' shuffle' sort' cs _

/-- **Equal seeds give equal splits, at object level, for every pair of histories**: two objects (of one history or of two)
    whose parameter values are equal answer `split(samples)` equally — after any number of earlier splits, clones and
    parameter changes (a seeded change kept the generator as a mutable member: a second `split()` continued the stream). -/
theorem hist_equal_params_equal_splits (objs1 objs2 : List Splitter) (cmds1 cmds2 : List HCmd) (a b : Nat)
    (samples : List Int) (s : Splitter)
    (ha : (hRun seedRng shuffle sort objs1 cmds1).2[a]? = some s)
    (hb : (hRun seedRng shuffle sort objs2 cmds2).2[b]? = some s) :
    (hStep seedRng shuffle sort (hRun seedRng shuffle sort objs1 cmds1).2 (.split a samples)).1 =
    (hStep seedRng shuffle sort (hRun seedRng shuffle sort objs2 cmds2).2 (.split b samples)).1 := by
  rw [hist_split_function seedRng shuffle sort _ a samples s ha, hist_split_function seedRng shuffle sort _ b samples s hb]

/-- a history of splits only leaves every object as it was: the second `split()` of an object sees the same parameters -/
theorem hist_splits_keep_objects : ∀ (cmds : List HCmd) (objs : List Splitter),
    (∀ c ∈ cmds, ∃ slot samples, c = .split slot samples) → (hRun seedRng shuffle sort objs cmds).2 = objs
  | [], _, _ => rfl
  | c :: cs, objs, h => by
    obtain ⟨slot, samples, rfl⟩ := h c (List.mem_cons_self)
    have h1 : (hStep seedRng shuffle sort objs (.split slot samples)).2 = objs := by
      simp only [hStep]; split <;> rfl
    simp only [hRun, h1]
    exact hist_splits_keep_objects cs objs (fun c hc => h c (List.mem_cons_of_mem _ hc))

/-- The same with rounding made explicit: if the binary64 answer differs from the exact point by `eₖ` in coordinate `k` and
    `‖e‖₂ ≤ E`, it is within `r + E` of the centre. The python oracle uses `E = √Σ(ulp(xₖ)/2 + 2⁻¹⁰⁷³)²` (the rounding of
    `x0ₖ + dₖ`: of the size `ulp(‖x0‖)`, independent of the radius) on top of the radius widened by `(n+8)·2⁻⁵³` (the rounding
    of `dₖ` itself). -/
theorem ball_inside_rounded {α : Type} [Field α] [LinearOrder α] [IsStrictOrderedRing α] (x0 u e : List α) (r z s E : α)
    (hlen : u.length = x0.length) (hel : e.length = x0.length) (hs : s * s = sumSq u) (hspos : 0 < s) (hr : 0 ≤ r)
    (hz0 : 0 ≤ z) (hz1 : z ≤ 1) (hE : 0 ≤ E) (he : sumSq e ≤ E * E) :
    distSq (List.zipWith (fun a b => a + b) (ballPoint x0 u r z s) e) x0 ≤ (r + E) * (r + E) := by
  have hbl : (ballPoint x0 u r z s).length = x0.length := by simp [ballPoint, hlen]
  rw [distSq_add _ e x0 hbl hel]
  refine sumSq_add_le _ e (by simp [hbl, hel]) r E hr hE ?_ he
  exact (ball_inside x0 u r z s hlen hs hspos hr hz0 hz1).2

/-! ### non-vacuity: the hypotheses are satisfiable and the conclusions say something on concrete inputs -/

-- 7 samples, 3 folds (7 mod 3 = 1): the hypotheses of `kfold_pair` / `kfold_partition` hold for a concrete shuffle
example : ∀ p ∈ kfold sortI [8, 20, 3, 10, 5, 1, 4] 3, GoodPair [10, 3, 5, 8, 20, 1, 4] p :=
  kfold_pair sortI sortI_spec [10, 3, 5, 8, 20, 1, 4] [8, 20, 3, 10, 5, 1, 4] (by decide) (by decide) 3
example := kfold_partition sortI sortI_spec [10, 3, 5, 8, 20, 1, 4] [8, 20, 3, 10, 5, 1, 4] (by decide) (by decide) 3
  (by decide)
-- the boundaries of that case: chunks [0,2) [2,4) [4,7): sizes 2, 2, 3
example : (List.range 3).map (fun f => (validBegin 7 3 f, validEnd 7 3 f)) = [(0, 2), (2, 4), (4, 7)] := by decide
example : validSlice [8, 20, 3, 10, 5, 1, 4] 3 2 = [5, 1, 4] ∧ trainSlice [8, 20, 3, 10, 5, 1, 4] 3 2 = [8, 20, 3, 10] := by
  decide
-- 25 samples at 90 %: 22.5 is rounded up to 23 (truncation would give 22); 90 is admissible, 95 is not
example : trainSize 90 25 = 23 ∧ trainSize 80 21 = 17 ∧ trainSize 10 2 = 0 := by decide
example : trainPerOk 90 = true ∧ trainPerOk 95 = false ∧ paramsOk 2 1024 = true ∧ paramsOk 1 0 = false := by decide
example := random_train_size sortI sortI_spec [[3, 1, 2, 0], [0, 2, 1, 3]] 80 4 (by decide) (by decide)
example : ∀ p ∈ randomSplit sortI [[3, 1, 2, 0], [0, 2, 1, 3]] 80, GoodPair [0, 1, 2, 3] p :=
  random_pair sortI sortI_spec [0, 1, 2, 3] [[3, 1, 2, 0], [0, 2, 1, 3]] (by decide) (by decide) 80
-- samplers
example : sampleWithout sortI [5, 9, 7] 4 = none ∧ (sampleWithout sortI [5, 9, 7] 2).isSome = true := by
  constructor
  · decide
  · simp [sampleWithout]
example : pick [10, 3, 5, 8] [3, 3, 1] = some [8, 8, 3] ∧ pick [10, 3, 5, 8] [4] = none := by decide
example : (sampleWith sortI [10, 3, 5, 8] 3 [3, 3, 1]).isSome = true :=
  (with_replacement_guard sortI [10, 3, 5, 8] 3 [3, 3, 1]).mpr (by decide)
-- the contract of the weighted draw is satisfiable with zero weights present, and excludes a zero-weight position
example : DrawsPositive ([0, 1, 0, 2] : List Int) [3, 1, 3] := by
  intro d hd
  simp only [List.mem_cons, List.not_mem_nil, or_false] at hd
  rcases hd with rfl | rfl | rfl <;> simp
example : ¬ DrawsPositive ([0, 1, 0, 2] : List Int) [0] := by
  intro h
  obtain ⟨w, hw, hpos⟩ := h 0 (by simp)
  simp at hw; omega
-- ball: u = (3, 4), s = 5, r = 2, z = 1/2 over ℚ: squared distance 1 ≤ 4
example : distSq (ballPoint [1, 1] [3, 4] (2 : Rat) (1 / 2) 5) [1, 1] = 1 := by
  have := (ball_inside [1, 1] [3, 4] (2 : Rat) (1 / 2) 5 rfl (by norm_num [sumSq]) (by norm_num) (by norm_num)
    (by norm_num) (by norm_num)).1
  rw [this]; norm_num

-- the rounded ball: u = (3, 4), s = 5, r = 2, z = 1/2, coordinate errors (1/10, 0): within 2 + 1/10
example := ball_inside_rounded [1, 1] [3, 4] [1 / 10, 0] (2 : Rat) (1 / 2) 5 (1 / 10) rfl rfl (by norm_num [sumSq]) (by norm_num)
  (by norm_num) (by norm_num) (by norm_num) (by norm_num) (by norm_num [sumSq])
-- gap-closing round -------------------------------------------------------------------------------------------------
-- count = n on an unsorted input with a repeated value: the sorted input whatever the shuffle was
example : sampleWithout sortI [5, 3, 5] 3 = some (sortI [3, 5, 5]) :=
  without_full_is_sorted_input sortI sortI_spec [3, 5, 5] [5, 3, 5] (by decide)
example := without_replacement_submultiset sortI sortI_spec [3, 5, 5] [5, 3, 5] (by decide) 2
-- the generator: seed 0 becomes state 1, the first output is the multiplier; the canonical numerator is positive
example : lcgSeed 0 = 1 ∧ lcgSeed 42 = 42 ∧ lcgSeed 2147483647 = 1 ∧ lcgNext 1 = 48271 ∧ 0 < canonNum 1 := by decide
example := canonNum_pos 42 (by decide) (by decide)
-- the table of libstdc++ for the weights 0, 1, 2 over ℚ is 0, 1/3, 1; the draw u = 1/2 is position 2, u = 1/3 position 1,
-- and no u in (0, 1] gives position 0 (the zero weight)
example : ddCp ([0, 1, 2] : List ℚ) = [0, 1 / 3, 1] := by norm_num [ddCp, accum, normalize, partialSums, psGo, setLast]
example : lowerBound (fun i => decide (([0, 1 / 3, 1] : List ℚ).getD i 0 < 1 / 2)) 3 = 2 := by
  norm_num [lowerBound, lbGo, List.getD]
example := lcgNext_range 42 (by decide) (by decide)
example := canonNum_lt 42 (by decide) (by decide)
example := lowerBound_spec (fun i => decide (i < 2)) 5 (by intro i j hij _ h; simp only [decide_eq_true_eq] at h ⊢; omega)
example : lowerBound (fun i => decide (i < 2)) 5 = 2 ∧ lowerBound (fun _ => false) 5 = 0 ∧ lowerBound (fun _ => true) 5 = 5 := by
  decide
example := lowerBound_all_false (fun _ => false) 5 (fun _ _ => rfl)
example := ddDraw_positive ([0, 1, 2] : List ℚ) (1 / 2) (by simp)
  (by intro x hx; simp only [List.mem_cons, List.not_mem_nil, or_false] at hx; rcases hx with rfl | rfl | rfl <;> norm_num)
  (by norm_num) (by norm_num) (by norm_num)
example := ddCp_get ([0, 1, 2] : List ℚ) (by simp) 1 (by simp)
/-- a library whose generator is trivial: the shuffle reverses, the uniform draw is 0, the canonical draw is 1/2 -/
def toyLib : StdLib Unit ℚ := ⟨fun g l => (l.reverse, g), fun g _ => (0, g), fun g => (1 / 2, g)⟩
theorem toyLib_ok : toyLib.Ok := ⟨fun _ l => List.reverse_perm l, fun _ _ => Nat.zero_le _⟩
theorem toyLib_canon : toyLib.CanonOk := fun _ => by norm_num [toyLib]
/-- conversions over ℚ: the cast, a truncation that is at most its argument's integer bound (here: constantly 0 … the
    contract only bounds it from above), a non-negative "norm" -/
def toyNum : Num ℚ := ⟨fun n => (n : ℚ), fun _ => 0, fun l => sumSq l⟩
theorem toyNum_ok : toyNum.Ok := ⟨fun n => Nat.cast_nonneg n, fun _ _ _ => Nat.zero_le _, sumSq_nonneg'⟩
example := weighted_never_zero_model toyLib toyLib_canon sortI sortI_spec [10, 3, 5] [0, 1, 2] 4 () (by decide) rfl
  (by intro x hx; simp only [List.mem_cons, List.not_mem_nil, or_false] at hx; rcases hx with rfl | rfl | rfl <;> norm_num)
  (by norm_num)
-- the degenerate branch: an empty table or a draw that no entry is less than
example := weighted_no_comparison_first_sample (α := ℚ) ⟨fun g l => (l, g), fun g _ => (0, g), fun g => (0, g)⟩ sortI
  sortI_spec [10, 3, 5] [] 4 () 10 rfl (by intro g i; simp [ddCp])
-- the sampler object in its five modes
example := sampler_count_le toyNum toyNum_ok (Sampler.make [10, 3, 5] .subsample () (1 / 2 : ℚ)) (by norm_num [Sampler.make])
example := sampler_off_spec toyNum toyLib sortI (Sampler.make [10, 3, 5] .off () (1 : ℚ)) (fun _ => 1) (fun _ => []) rfl
example := sampler_subsample_spec toyNum toyNum_ok toyLib toyLib_ok sortI sortI_spec
  (Sampler.make [10, 3, 5] .subsample () (1 / 2 : ℚ)) (fun _ => 1) (fun _ => []) rfl (by decide) (by norm_num [Sampler.make])
example := sampler_bootstrap_spec toyNum toyLib toyLib_ok sortI sortI_spec
  (Sampler.make [10, 3, 5] .bootstrap () (1 / 2 : ℚ)) (fun _ => 1) (fun _ => []) rfl (by simp [Sampler.make])
example := sampler_weighted_spec toyNum toyLib toyLib_canon sortI sortI_spec
  (Sampler.make [10, 3, 5] .weiLoss () (1 / 2 : ℚ)) (fun i => if i = 3 then 0 else 1) (fun _ => []) (Or.inl rfl) (by decide)
  (by intro x hx; simp [Sampler.newWeights, Sampler.make] at hx; rcases hx with rfl | rfl | rfl <;> norm_num)
  (by norm_num [Sampler.newWeights, Sampler.make])
example : (Sampler.make [10, 3, 5] .weiGrad () (1 : ℚ)).weights = [0, 0, 0] ∧
    (Sampler.make [10, 3, 5] .bootstrap () (1 : ℚ)).weights = [] := ⟨rfl, rfl⟩
-- splitter objects: domains, refusal, restoring the seed; a clone taken after two splits holds the same parameters
example : ((Splitter.fresh .random).set .seed 7).isSome = true ∧ (Splitter.fresh .random).set .seed 1025 = none ∧
    (Splitter.fresh .kfold).set .trainPer 50 = none ∧ ((Splitter.fresh .random).set .trainPer 50).isSome = true ∧
    (Splitter.fresh .kfold).set .folds 1 = none := by decide
example := splitter_set_spec (Splitter.fresh .random) .seed 7 (Splitter.fresh_ok _)
example := splitter_seed_restore (Splitter.fresh .random) _ 7 (Splitter.fresh_ok _) rfl
example := hist_equal_params_equal_splits (fun _ => ()) (fun g l => (l.reverse, g)) id [Splitter.fresh .random] [Splitter.fresh .random]
  [.split 0 [1, 2, 3], .split 0 [1, 2, 3], .clone 0] [] 1 0 [1, 2, 3] (Splitter.fresh .random) rfl rfl
example := hist_splits_keep_objects (fun _ => ()) (fun g l => (l.reverse, g)) id [.split 0 [1, 2, 3], .split 0 [4]]
  [Splitter.fresh .kfold] (by intro c hc; simp only [List.mem_cons, List.not_mem_nil, or_false] at hc; rcases hc with rfl | rfl <;> exact ⟨_, _, rfl⟩)

/-! ### the property for the text regenerated from the source (translation round)

The statements below are about `Gen/SplitKFold.lean`, `Gen/SplitRandom.lean`, `Gen/SplitSampling.lean` — the files that
`tools/props/c12_translate.py` rewrites from `kfold.cpp`, `random.cpp`, `sampling.cpp` on every run — through the
`model_*_is_generated` equalities of `Proofs/SplitGen.lean` / `Proofs/SplitGenSampling.lean`. -/

/-- `kfold_splitter_t::split` as it stands in the source: one pair per fold, each pair strictly sorted, disjoint and together
    exactly the input — for every generator and every shuffle that returns a permutation -/
theorem kfold_split_generated {G : Type} (seedRng : Nat → G) (shuffle : G → List Int → List Int × G)
    (hsh : ∀ g l, (shuffle g l).1.Perm l) (sort : List Int → List Int) (hs : SortSpec sort) (samples : List Int)
    (hnd : samples.Nodup) (seed folds : Nat) :
    (Gen.SplitKFold.split seedRng shuffle sort seed (folds : Int) samples).length = folds ∧
    ∀ p ∈ Gen.SplitKFold.split seedRng shuffle sort seed (folds : Int) samples, GoodPair samples p := by
  rw [← model_kfold_is_generated]
  exact ⟨kfold_length _ _ _, kfold_pair sort hs samples _ hnd (hsh _ _) folds⟩

/-- `random_splitter_t::split` as it stands in the source: the same promise for each of its `folds` pairs -/
theorem random_split_generated {G : Type} (seedRng : Nat → G) (shuffle : G → List Int → List Int × G)
    (hsh : ∀ g l, (shuffle g l).1.Perm l) (sort : List Int → List Int) (hs : SortSpec sort) (samples : List Int)
    (hnd : samples.Nodup) (seed folds trainPer : Nat) :
    (Gen.SplitRandom.split seedRng shuffle sort seed (folds : Int) (trainPer : Int) samples).length = folds ∧
    ∀ p ∈ Gen.SplitRandom.split seedRng shuffle sort seed (folds : Int) (trainPer : Int) samples, GoodPair samples p := by
  have hlen : ∀ g l, (shuffle g l).1.length = l.length := fun g l => (hsh g l).length_eq
  rw [← model_random_split_is_generated seedRng shuffle sort hlen]
  obtain ⟨h1, h2⟩ := randomPerms_perm shuffle hsh folds (seedRng seed) samples
  exact ⟨by simp [randomSplit, h1], random_pair sort hs samples _ hnd h2 trainPer⟩

/-- `sample_without_replacement(samples, count, rng)` as it stands in the source: under its own assert the answer has `count`
    distinct (strictly sorted) members of the input -/
theorem without_replacement_generated {G : Type} (shuffle : G → List Int → List Int × G)
    (hsh : ∀ g l, (shuffle g l).1.Perm l) (sort : List Int → List Int) (hs : SortSpec sort) (samples : List Int)
    (hnd : samples.Nodup) (count : Nat) (g : G)
    (hguard : (Gen.SplitSampling.withoutGuards samples.length count).all id = true) :
    let r := (Gen.SplitSampling.withoutBody shuffle sort samples count g).1
    r.length = count ∧ r.Pairwise (· < ·) ∧ ∀ x ∈ r, x ∈ samples := by
  intro r
  have hlen : (shuffle g samples).1.length = samples.length := (hsh g samples).length_eq
  have h := model_sampleWithout_is_generated sort (shuffle g samples).1 count
  rw [hlen, if_pos hguard] at h
  exact without_replacement_spec sort hs samples _ hnd (hsh g samples) count _ h

example := kfold_split_generated (fun _ => ()) (fun g l => (l.reverse, g)) (fun _ l => List.reverse_perm l) sortI sortI_spec
  [10, 3, 5, 8] (by decide) 42 2
example := random_split_generated (fun _ => ()) (fun g l => (l.reverse, g)) (fun _ l => List.reverse_perm l) sortI sortI_spec
  [10, 3, 5, 8] (by decide) 42 2 80
example := without_replacement_generated (fun (g : Unit) l => (l.reverse, g)) (fun _ l => List.reverse_perm l) sortI sortI_spec
  [10, 3, 5, 8] (by decide) 2 () (by decide)

end NanoVerif.Split
