import NanoVerif.Proofs.LSearchQuadCG
import NanoVerif.Proofs.LSearchQuadLem
import NanoVerif.Proofs.LSearchQuadFl
import NanoVerif.Proofs.LSearchQuadMTFull
import NanoVerif.Proofs.LSearchStepGen
import NanoVerif.Proofs.LSearchInit
/-!
  C07 — line-search steps honour the acceptance conditions they advertise: the property theorems.

  Setting (see `Model/LSearch.lean`): `get m cfg φ s0 t0` is the model of `lsearchk_t::get(state, descent, t0)` for the
  method `m`; `s0 = (f(x0), ∇f(x0)·d, valid)` is the state on entry; the line function is the oracle `φ k t` (answer to the
  `k`-th request, made at step `t`); `cfg` carries `(c1, c2)`, `max_iterations`, the per-method parameters, the numeric
  constants, `std::isfinite` and the interpolation formulas. Every theorem below except those of the last section (convex
  quadratics, where the oracle is the quadratic line function) holds

    for every ordered field `α`, every oracle `φ` (even one that answers inconsistently), every interpolation function,
    every `isfinite`, every `(c1, c2)` (the conditions `0 < c1 < c2 < 1` are not even needed), every `t0`,

  and the acceptance conditions are the definitions GENERATED from the C++ text (`Gen/LsPredicates.lean`).
  `0 < max_iterations` is the parameter's domain `[1, 10000]`.

  Moré–Thuente (since the repair 3b214f8 of /repo) reports success only from its convergence test:
  `morethuente_success_conditions` is success ⇒ Armijo ∧ strong Wolfe. CG_DESCENT reports success also from its "bracketing
  failed" exit, on which NO acceptance condition was tested; the exact disjunction is `cgdescent_success_cases`, with a
  kernel-checked model run over ℚ (`cgdescent_bracket_failed_reachable`). The runs that exhibited the old Moré–Thuente rule
  (five `return {true, stp}`) are kept in the section "pre-3b214f8", next to the same runs under the present rule (they fail).

  What is NOT proved here (tested by the oracle of tools/props/c07.py only): finiteness of the step (meaningless over a
  field). Positivity of the step for Moré–Thuente and CG_DESCENT needs an oracle that answers the slope of the origin when
  asked at step `0` (both searches can evaluate at `0`); `0 ≤ t` holds for every oracle. Success on convex quadratics: the last
  section (exact arithmetic; all five searches, every `t0`, explicit budgets; nothing there is `_partial` any more).

  COVERAGE of the anchored files (gap-closing round; `modelled` = hand-written Lean definition tied by the oracle-replay correspondence,
  `translated` = regenerated into Gen/ from the source text on every run, `oracle` = parameter of the model, `outside` = not in the model):

    src/lsearchk.cpp
      lsearchk_t::lsearchk_t, ::all, ::type (get/set)     outside   parameter registration / factory / accessor (domains: C19; the theorems
                                                                    take `0 < max_iterations`, the registered domain, as a hypothesis)
      lsearchk_t::get                                     modelled  `get` = descent guard + `initialStep` + `shrink` + validity guard + `grow`
                                                                    + `doGet` (`get_initial_step_clamped`, `nondescent_refused`, `get_spec`)
      lsearchk_t::update                                  modelled  `ask` (the log line it prints: outside)
      lsearchk_t::stpmin, ::stpmax                        translated Gen/LsPredicates.lean `stpmin`, `stpmax` (`stpmin_stpmax_values`)
    src/lsearchk/backtrack.cpp   ctor, clone              outside;  do_get  modelled `backtrack`
    src/lsearchk/lemarechal.cpp  ctor, clone              outside;  do_get  modelled `lemarechal`, `lemInterp`
    src/lsearchk/fletcher.cpp    ctor, clone              outside;  zoom, do_get  modelled `zoom`, `fletcher`
    src/lsearchk/morethuente.cpp ctor, clone              outside;  dcstep  modelled `dcstep` (`dcstep_case1/2/3_unbracketed`);
                                                                    do_get  modelled `morethuenteInit`, `morethuente`, `mtConverged`, `mtGiveUp`,
                                                                    `mtDcstep`, `mtBounds`, `mtNext`
    src/lsearchk/cgdescent.cpp   ctor, clone, make_params outside (`epsilonk = epsilon·|f0|` is inside `cgdescent`);
                                 interval_t (ctor, updateA, updateB, done), move, updateU, update, bracket, do_get (with its lambda
                                 move_update_and_check_done)        modelled `CG`, `cgDone`, `cgMove`, `cgUpdateU`, `cgUpdate`, `cgBracket`,
                                                                    `cgTry`, `cgSecond`, `cgLoop`, `cgdescent`
    src/solver/lstep.cpp         lsearch_step_t ctors               modelled `Step`, `stepOf`
                                 cubic, quadratic (+ `*convexity`), secant, bisection, interpolate; enum interpolation_type (lstep.h)
                                                                    translated Gen/LsStep.lean; the text used inside the model is the generated text
                                                                    (`model_lstep_is_generated`, `rfl`); `std::sqrt` = parameter `sqrt` with the
                                                                    contract "a root of the radicand" stated in each theorem; `std::isfinite` =
                                                                    parameter `fin`, arbitrary
    src/solver/state.cpp         has_armijo, has_approx_armijo, has_wolfe, has_strong_wolfe, has_approx_wolfe, nano::converged;
                                 has_descent (state.h)              translated Gen/LsPredicates.lean
                                 update (x ↦ f, ∇f), dg, fx, valid  oracle    `Oracle α = Nat → α → Eval α`: NO contract (the theorems hold for oracles
                                                                    that answer inconsistently), except where stated (`hφ` of the positivity theorems;
                                                                    the quadratic section takes the quadratic line function itself)
                                 constructors, update_if_better, update_calls, update_constraints, value_test, gradient_test, status,
                                 kkt_optimality_test*               outside   (not used by a line search; C01-C05)
  Former oracle contracts now established for the code: `InterpExact` / `CubicExact` (the interpolation is exact on quadratics) hold for
  the generated formulas (`generated_interpolation_contracts`); they were hypotheses about arbitrary functions before.
-/
namespace NanoVerif.LSearch
open NanoVerif.Gen.LsPredicates

variable {α : Type} [Field α] [LinearOrder α] [IsStrictOrderedRing α]

/-- explicit bound on the number of function evaluations of one `get`, as a function of `max_iterations`:
    `2·M` for the two step-adjusting loops of the preamble plus the method's own loop(s) -/
def evalsBound (m : Method) (M : Nat) : Nat := 2 * M + doGetBound m M

/-! ### refusal of non-descent directions (all five methods) -/

/-- A direction with `g·d ≥ 0` (not `< 0`) is refused: failure, the given step handed back, the state untouched and
    not a single evaluation requested. -/
theorem nondescent_refused (m : Method) (cfg : Cfg α) (φ : Oracle α) (s0 : Eval α) (t0 : α) (h : ¬ s0.g < 0) :
    get m cfg φ s0 t0 = ⟨false, t0, ⟨s0, []⟩⟩ :=
  get_nondescent m cfg φ s0 t0 h

/-! ### the returned state is the evaluation at the returned step (all five methods) -/

/-- On success the last evaluation requested was at the returned step and the returned state is the oracle's answer to
    exactly that request. -/
theorem success_state_is_last_answer (m : Method) (cfg : Cfg α) (φ : Oracle α) (s0 : Eval α) (t0 : α)
    (hM : 0 < cfg.maxIter) (h : (get m cfg φ s0 t0).ok = true) :
    ∃ rest, (get m cfg φ s0 t0).ctx.trace = (get m cfg φ s0 t0).t :: rest ∧
      (get m cfg φ s0 t0).ctx.cur = φ rest.length (get m cfg φ s0 t0).t :=
  ((get_spec m cfg φ s0 t0 hM).2 h).2

/-- For a line function `ψ` (an oracle that does not look at the request index): on success the returned state is `ψ` at
    the returned step, i.e. the evaluation of the objective at `x0 + t·d`. -/
theorem success_state_is_eval (m : Method) (cfg : Cfg α) (ψ : α → Eval α) (s0 : Eval α) (t0 : α)
    (hM : 0 < cfg.maxIter) (h : (get m cfg (fun _ => ψ) s0 t0).ok = true) :
    (get m cfg (fun _ => ψ) s0 t0).ctx.cur = ψ (get m cfg (fun _ => ψ) s0 t0).t := by
  obtain ⟨rest, _, h2⟩ := success_state_is_last_answer m cfg (fun _ => ψ) s0 t0 hM h
  exact h2

/-- Backtracking additionally only ever returns a valid state. -/
theorem backtrack_success_state_is_eval (cfg : Cfg α) (ψ : α → Eval α) (s0 : Eval α) (t0 : α)
    (hM : 0 < cfg.maxIter) (h : (get .backtrack cfg (fun _ => ψ) s0 t0).ok = true) :
    (get .backtrack cfg (fun _ => ψ) s0 t0).ctx.cur = ψ (get .backtrack cfg (fun _ => ψ) s0 t0).t ∧
    (get .backtrack cfg (fun _ => ψ) s0 t0).ctx.cur.ok = true :=
  ⟨success_state_is_eval .backtrack cfg ψ s0 t0 hM h, ((get_spec .backtrack cfg _ s0 t0 hM).2 h).1.2⟩

/-! ### success ⇒ the advertised conditions, evaluated on the returned state and the returned step -/

/-- backtracking: Armijo -/
theorem backtrack_success_armijo (cfg : Cfg α) (φ : Oracle α) (s0 : Eval α) (t0 : α) (hM : 0 < cfg.maxIter)
    (h : (get .backtrack cfg φ s0 t0).ok = true) :
    hasArmijo s0.f s0.g (get .backtrack cfg φ s0 t0).ctx.cur.f (get .backtrack cfg φ s0 t0).t cfg.c1 = true :=
  ((get_spec .backtrack cfg φ s0 t0 hM).2 h).1.1

/-- LeMaréchal: Armijo and Wolfe -/
theorem lemarechal_success_armijo_wolfe (cfg : Cfg α) (φ : Oracle α) (s0 : Eval α) (t0 : α) (hM : 0 < cfg.maxIter)
    (h : (get .lemarechal cfg φ s0 t0).ok = true) :
    hasArmijo s0.f s0.g (get .lemarechal cfg φ s0 t0).ctx.cur.f (get .lemarechal cfg φ s0 t0).t cfg.c1 = true ∧
    hasWolfe s0.g (get .lemarechal cfg φ s0 t0).ctx.cur.g cfg.c2 = true :=
  ((get_spec .lemarechal cfg φ s0 t0 hM).2 h).1

/-- Fletcher (bracketing and zoom phases): Armijo and strong Wolfe -/
theorem fletcher_success_armijo_strong_wolfe (cfg : Cfg α) (φ : Oracle α) (s0 : Eval α) (t0 : α) (hM : 0 < cfg.maxIter)
    (h : (get .fletcher cfg φ s0 t0).ok = true) :
    hasArmijo s0.f s0.g (get .fletcher cfg φ s0 t0).ctx.cur.f (get .fletcher cfg φ s0 t0).t cfg.c1 = true ∧
    hasStrongWolfe s0.g (get .fletcher cfg φ s0 t0).ctx.cur.g cfg.c2 = true :=
  ((get_spec .fletcher cfg φ s0 t0 hM).2 h).1

/-- The generated predicates mean what the statement says (so the three theorems above are about the textbook
    conditions as long as the C++ text says so): Armijo `f ≤ f0 + t·c1·g0`, Wolfe `g ≥ c2·g0`, strong Wolfe `|g| ≤ c2·|g0|`. -/
theorem generated_predicates_meaning (f0 dg0 f dg t c1 c2 : α) :
    (hasArmijo f0 dg0 f t c1 = true ↔ f ≤ f0 + t * c1 * dg0) ∧
    (hasWolfe dg0 dg c2 = true ↔ c2 * dg0 ≤ dg) ∧
    (hasStrongWolfe dg0 dg c2 = true ↔ |dg| ≤ c2 * |dg0|) := by
  refine ⟨by simp [hasArmijo], by simp [hasWolfe], ?_⟩
  simp [hasStrongWolfe, absv_eq_abs]

/-! ### the accepted step is positive (backtracking, LeMaréchal, Fletcher) -/

/-- parameter domains used by the positivity proofs (all implied by the domains registered in the constructors:
    `0 < safeguard < 0.5`, `2 < tau1`, `0 < tau2 < tau3 ≤ 0.5`, `0 < c2`; `macheps`, `epsilon0` are positive constants) -/
structure PosDomain (cfg : Cfg α) : Prop where
  macheps : 0 < cfg.macheps
  eps0 : 0 ≤ cfg.eps0
  safeguard0 : 0 < cfg.safeguard
  safeguard1 : cfg.safeguard < 1
  tau1 : 0 < cfg.tau1
  tau2 : 0 < cfg.tau2
  tau3 : cfg.tau3 < 1
  c2 : 0 < cfg.c2

/-- For every initial step `t0` (of any sign; "non-finite" = `cfg.fin t0 = false`) the step accepted by backtracking,
    LeMaréchal or Fletcher is strictly positive. -/
theorem success_step_positive (m : Method) (hm : m = .backtrack ∨ m = .lemarechal ∨ m = .fletcher) (cfg : Cfg α)
    (φ : Oracle α) (s0 : Eval α) (t0 : α) (hd : PosDomain cfg) (h : (get m cfg φ s0 t0).ok = true) :
    0 < (get m cfg φ s0 t0).t := by
  refine get_pos m cfg φ s0 t0 hd.macheps ?_ h
  intro t ctx ht hok
  rcases hm with rfl | rfl | rfl
  · exact backtrack_pos cfg φ s0 hd.safeguard0 hd.safeguard1 _ t ctx ht
  · exact lemarechal_pos cfg φ s0 hd.safeguard0 hd.safeguard1 hd.tau1 _ _ _ t ctx (le_refl _) (le_refl _) ht
  · exact fletcher_pos cfg φ s0 hd.tau1 hd.tau2 hd.c2 hd.tau3 hd.eps0 _ _ _ t ctx (le_refl _) ht rfl hok

/-! ### evaluations per call (all five methods; used by C02) -/

/-- One call of `get` requests at most `evalsBound m max_iterations` evaluations, whatever the oracle answers:
    `3M` (backtracking, Moré–Thuente), `3M - 1` (LeMaréchal), `4M - 1` (Fletcher), `9M + 1` (CG_DESCENT). -/
theorem evals_per_get_le (m : Method) (cfg : Cfg α) (φ : Oracle α) (s0 : Eval α) (t0 : α) (hM : 0 < cfg.maxIter) :
    (get m cfg φ s0 t0).ctx.trace.length ≤ evalsBound m cfg.maxIter :=
  (get_spec m cfg φ s0 t0 hM).1

/-- the bound at the default `max_iterations = 128` -/
theorem evalsBound_default :
    evalsBound .backtrack 128 = 384 ∧ evalsBound .lemarechal 128 = 383 ∧ evalsBound .fletcher 128 = 511 ∧
    evalsBound .morethuente 128 = 384 ∧ evalsBound .cgdescent 128 = 1153 := by decide

/-! ### the initial step: what `t0 ∈ {0, negative, NaN, ±inf, huge}` becomes (lsearchk.cpp:52, `stpmin()`, `stpmax()`) -/

/-- `lsearchk_t::stpmin() = 10·eps`, `stpmax() = 1/stpmin()` (generated definitions): positive, reciprocal. -/
theorem stpmin_stpmax_values (e : α) (he : 0 < e) :
    stpmin e = 10 * e ∧ stpmax e = 1 / (10 * e) ∧ 0 < stpmin e ∧ 0 < stpmax e ∧ stpmin e * stpmax e = 1 :=
  stpmin_stpmax e he

/-- For every method, oracle, `isfinite` and given `t0`, along a descent direction with `max_iterations ≥ 1` and `stpmin() ≤ 1`:
    the first evaluation `get` requests is at the CLAMPED step `t1 = initialStep(t0)`, which is
      `1` when `t0` is not finite (NaN, `+inf`, `-inf`),  `stpmin()` when `t0` is finite and `< stpmin()` (`0`, negative, denormal),
      `1` when `t0` is finite and `> 1`,  `t0` itself otherwise — always within `[stpmin(), 1]`;
    when the state there is valid, the tripling loop and then `do_get` are entered with that state and that step (so the returned step
    and the returned state stem from the same variable: the seeded change "shrink a local copy" breaks exactly this equation); when it
    is not, the next trial is `0.3·t1`. -/
theorem get_initial_step_clamped (m : Method) (cfg : Cfg α) (φ : Oracle α) (s0 : Eval α) (t0 : α) (hg : s0.g < 0) (n : Nat)
    (hM : cfg.maxIter = n + 1) (hmin1 : stpmin cfg.macheps ≤ 1) :
    ((cfg.fin t0 = false → initialStep cfg t0 = 1) ∧
     (cfg.fin t0 = true → t0 < stpmin cfg.macheps → initialStep cfg t0 = stpmin cfg.macheps) ∧
     (cfg.fin t0 = true → 1 < t0 → initialStep cfg t0 = 1) ∧
     (cfg.fin t0 = true → stpmin cfg.macheps ≤ t0 → t0 ≤ 1 → initialStep cfg t0 = t0) ∧
     stpmin cfg.macheps ≤ initialStep cfg t0 ∧ initialStep cfg t0 ≤ 1) ∧
    ((φ 0 (initialStep cfg t0)).ok = true →
      get m cfg φ s0 t0 =
        match grow φ cfg.eps1 s0.f cfg.maxIter (initialStep cfg t0) ⟨φ 0 (initialStep cfg t0), [initialStep cfg t0]⟩ with
        | .inl q => ⟨false, q.1, q.2⟩
        | .inr q => doGet m cfg φ s0 q.1 q.2) ∧
    ((φ 0 (initialStep cfg t0)).ok = false →
      shrink φ cfg.maxIter (initialStep cfg t0) ⟨s0, []⟩ =
        shrink φ n (initialStep cfg t0 * (3 / 10)) ⟨φ 0 (initialStep cfg t0), [initialStep cfg t0]⟩) :=
  ⟨initialStep_cases cfg t0 hmin1, get_enters_at_initialStep m cfg φ s0 t0 hg n hM⟩

def witnessCfg : Cfg ℚ :=
  { c1 := 1 / 10000, c2 := 1 / 10, maxIter := 128, fin := fun _ => true, interp := fun u v => (u.t + v.t) / 2,
    cubic := fun _ _ => 10, eps0 := 1 / 10 ^ 15, eps1 := 1 / 10 ^ 10, macheps := 1 / 1000, safeguard := 1 / 10, tau1 := 9,
    tau2 := 1 / 10, tau3 := 1 / 2, delta := 66 / 100, cgEpsilon := 1 / 10 ^ 6, cgTheta := 1 / 2, cgGamma := 66 / 100,
    cgRo := 5 }

/-- non-vacuity of `get_initial_step_clamped` (`witnessCfg`: `macheps = 1/1000`, `stpmin() = 1/100`; "not finite" modelled by an
    `isfinite` that rejects `7`): `0`, `-1` ↦ `stpmin()`; `5` ↦ `1`; non-finite ↦ `1`; `1/2` ↦ `1/2`; and the first request of a run
    from `t0 = -1` is at `1/100` -/
example : initialStep witnessCfg 0 = 1 / 100 ∧ initialStep witnessCfg (-1) = 1 / 100 ∧ initialStep witnessCfg 5 = 1 ∧
    initialStep { witnessCfg with fin := fun x => decide (x ≠ 7) } 7 = 1 ∧ initialStep witnessCfg (1 / 2) = 1 / 2 ∧
    stpmin witnessCfg.macheps ≤ 1 ∧
    (get .backtrack witnessCfg (fun _ t => ⟨(t - 1) * (t - 1), 2 * (t - 1), true⟩) ⟨1, -2, true⟩ (-1)).ctx.trace.getLast? =
      some (1 / 100) := by
  decide +kernel

/-! ### Moré–Thuente: success ⇒ Armijo and strong Wolfe (the only `return {true, stp}` is the convergence test) -/

/-- For every oracle, interpolation, `isfinite`, `(c1, c2)`, `t0`: a success of Moré–Thuente satisfies Armijo and strong Wolfe
    (generated predicates) on the returned state and step. -/
theorem morethuente_success_conditions (cfg : Cfg α) (φ : Oracle α) (s0 : Eval α) (t0 : α) (hM : 0 < cfg.maxIter)
    (h : (get .morethuente cfg φ s0 t0).ok = true) :
    hasArmijo s0.f s0.g (get .morethuente cfg φ s0 t0).ctx.cur.f (get .morethuente cfg φ s0 t0).t cfg.c1 = true ∧
    hasStrongWolfe s0.g (get .morethuente cfg φ s0 t0).ctx.cur.g cfg.c2 = true :=
  ((get_spec .morethuente cfg φ s0 t0 hM).2 h).1

/-- Moré–Thuente never accepts a negative step, whatever the oracle answers (every trial step is `stx`, which is `0` or an
    earlier trial step, or a value clamped to `[stpmin(), stpmax()]`). -/
theorem morethuente_success_step_nonneg (cfg : Cfg α) (φ : Oracle α) (s0 : Eval α) (t0 : α)
    (he : 0 < cfg.macheps) (h : (get .morethuente cfg φ s0 t0).ok = true) : 0 ≤ (get .morethuente cfg φ s0 t0).t := by
  refine get_step_prop (fun x => 0 ≤ x) .morethuente cfg φ s0 t0 he ?_ h
  intro t ctx ht _
  exact morethuente_nonneg cfg φ s0 he _ (morethuenteInit cfg s0 t) ctx (by simp [morethuenteInit])
    (by simpa [morethuenteInit] using le_of_lt ht)

/-- The step accepted by Moré–Thuente is strictly positive for every oracle that answers the slope of the origin whenever it
    is asked at step `0` (`(φ k 0).g = g0`; in particular for every line function with `ψ 0 = s0`), `c2 < 1`: the fallback
    `stp = stx` (morethuente.cpp:267-270) can make the search evaluate at `0`, but strong Wolfe fails there. -/
theorem morethuente_success_step_positive (cfg : Cfg α) (φ : Oracle α) (s0 : Eval α) (t0 : α) (he : 0 < cfg.macheps)
    (hc2 : cfg.c2 < 1) (hM : 0 < cfg.maxIter) (hφ : ∀ k, (φ k 0).g = s0.g)
    (h : (get .morethuente cfg φ s0 t0).ok = true) : 0 < (get .morethuente cfg φ s0 t0).t := by
  rcases lt_or_eq_of_le (morethuente_success_step_nonneg cfg φ s0 t0 he h) with h0 | h0
  · exact h0
  · exfalso
    obtain ⟨rest, _, hcur⟩ := success_state_is_last_answer .morethuente cfg φ s0 t0 hM h
    obtain ⟨_, _, _, _, hg, _⟩ := get_eq_doGet .morethuente cfg φ s0 t0 hM h
    have hS := (morethuente_success_conditions cfg φ s0 t0 hM h).2
    rw [hcur, ← h0, hφ] at hS
    simp only [hasStrongWolfe, decide_eq_true_eq, absv_eq_abs, abs_of_neg hg] at hS
    nlinarith

/-- `φ(0) = (0, -1)`, elsewhere `(1, 1)`; the second one answers `(-1, 0)` at step `0`, inconsistently with the origin -/
def witnessPsi (t : ℚ) : Eval ℚ := if t = 0 then ⟨0, -1, true⟩ else ⟨1, 1, true⟩
def witnessPsiInconsistent (t : ℚ) : Eval ℚ := if t = 0 then ⟨-1, 0, true⟩ else ⟨1, 1, true⟩

/-- With an interpolation that answers outside the bracket (`cubic := 10`) the fallback `stp = stx = 0` makes Moré–Thuente
    evaluate at step `0`; the consistent oracle is then refused (failure, `t = 0`), and an oracle that does NOT answer the
    slope of the origin at step `0` gets the step `0` accepted: the consistency hypothesis of
    `morethuente_success_step_positive` cannot be dropped. -/
theorem morethuente_zero_step_accepted_if_inconsistent :
    (get .morethuente witnessCfg (fun _ => witnessPsi) ⟨0, -1, true⟩ 1).ok = false ∧
    (get .morethuente witnessCfg (fun _ => witnessPsi) ⟨0, -1, true⟩ 1).t = 0 ∧
    (get .morethuente witnessCfg (fun _ => witnessPsiInconsistent) ⟨0, -1, true⟩ 1).ok = true ∧
    (get .morethuente witnessCfg (fun _ => witnessPsiInconsistent) ⟨0, -1, true⟩ 1).t = 0 := by
  decide +kernel

/-! ### CG_DESCENT: what a success implies (exact disjunction over the exits of `interval_t::done`) -/

/-- For every oracle, `isfinite`, `(c1, c2)`, `t0` and the parameters in their registered domains (`CgDom`:
    `0 ≤ epsilon`, `0 < ro`, `0 < theta < 1`): a success of CG_DESCENT returns a valid state and is one of
    * Wolfe: Armijo and Wolfe (generated predicates) hold of the returned state and step;
    * approximate Wolfe: `has_approx_armijo(epsilon·|f0|)` and `has_approx_wolfe(c1, c2)` hold;
    * "bracketing failed" (`interval_t::done`: `b.g < 0` with a valid state): the upper end `b` of the bracketing interval is
      an evaluated trial point with a NEGATIVE slope, and either more than `max_iterations` evaluations were made (the
      shared budget `params.m_max_iterations` is exhausted) or the interval `[a, b]` is not wider than `stpmin()`;
      NOTHING was tested on the returned state. -/
theorem cgdescent_success_cases (cfg : Cfg α) (φ : Oracle α) (s0 : Eval α) (t0 : α) (hd : CgDom cfg) (he : 0 < cfg.macheps)
    (hM : 0 < cfg.maxIter) (h : (get .cgdescent cfg φ s0 t0).ok = true) :
    (get .cgdescent cfg φ s0 t0).ctx.cur.ok = true ∧
    ((hasArmijo s0.f s0.g (get .cgdescent cfg φ s0 t0).ctx.cur.f (get .cgdescent cfg φ s0 t0).t cfg.c1 = true ∧
        hasWolfe s0.g (get .cgdescent cfg φ s0 t0).ctx.cur.g cfg.c2 = true) ∨
     (hasApproxArmijo s0.f (get .cgdescent cfg φ s0 t0).ctx.cur.f (cfg.cgEpsilon * absv s0.f) = true ∧
        hasApproxWolfe s0.g (get .cgdescent cfg φ s0 t0).ctx.cur.g cfg.c1 cfg.c2 = true) ∨
     (∃ a b : Step α, CgPoint φ s0 (get .cgdescent cfg φ s0 t0).ctx a ∧ CgPoint φ s0 (get .cgdescent cfg φ s0 t0).ctx b ∧
        b.g < 0 ∧ (cfg.maxIter + 1 ≤ (get .cgdescent cfg φ s0 t0).ctx.trace.length ∨ b.t - a.t ≤ stpmin cfg.macheps))) := by
  obtain ⟨t, ctx, ht, hc, hg, e⟩ := get_eq_doGet .cgdescent cfg φ s0 t0 hM h
  rw [e] at h ⊢
  obtain ⟨q1, q2, _⟩ := cgdescent_cases cfg φ s0 t ctx hd hg (ht he) hc h
  refine ⟨q1, ?_⟩
  rcases q2 with q2 | q2 | ⟨a, b, b1, b2, b3, b4⟩
  · exact Or.inl q2
  · exact Or.inr (Or.inl q2)
  · refine Or.inr (Or.inr ⟨a, b, b1, b2, b3, ?_⟩)
    rcases b4 with b4 | b4
    · left
      obtain ⟨rest, hr, _⟩ := hc
      have : 1 ≤ ctx.trace.length := by rw [hr]; simp
      exact le_trans (by omega) b4
    · exact Or.inr b4

/-- Consequence: when at most `max_iterations` evaluations were made and no two of the evaluated steps (or `0`) are within
    `stpmin()` of each other, a success of CG_DESCENT satisfies Wolfe or approximate Wolfe. -/
theorem cgdescent_success_within_budget (cfg : Cfg α) (φ : Oracle α) (s0 : Eval α) (t0 : α) (hd : CgDom cfg)
    (he : 0 < cfg.macheps) (hM : 0 < cfg.maxIter) (h : (get .cgdescent cfg φ s0 t0).ok = true)
    (hbudget : (get .cgdescent cfg φ s0 t0).ctx.trace.length ≤ cfg.maxIter)
    (hsep : ∀ a b : Step α, CgPoint φ s0 (get .cgdescent cfg φ s0 t0).ctx a → CgPoint φ s0 (get .cgdescent cfg φ s0 t0).ctx b →
      b.g < 0 → stpmin cfg.macheps < b.t - a.t) :
    (hasArmijo s0.f s0.g (get .cgdescent cfg φ s0 t0).ctx.cur.f (get .cgdescent cfg φ s0 t0).t cfg.c1 = true ∧
        hasWolfe s0.g (get .cgdescent cfg φ s0 t0).ctx.cur.g cfg.c2 = true) ∨
     (hasApproxArmijo s0.f (get .cgdescent cfg φ s0 t0).ctx.cur.f (cfg.cgEpsilon * absv s0.f) = true ∧
        hasApproxWolfe s0.g (get .cgdescent cfg φ s0 t0).ctx.cur.g cfg.c1 cfg.c2 = true) := by
  rcases (cgdescent_success_cases cfg φ s0 t0 hd he hM h).2 with h1 | h1 | ⟨a, b, b1, b2, b3, b4⟩
  · exact Or.inl h1
  · exact Or.inr h1
  · rcases b4 with b4 | b4
    · omega
    · exact absurd b4 (not_le.mpr (hsep a b b1 b2 b3))

/-- CG_DESCENT never accepts a negative step, whatever the oracle answers. -/
theorem cgdescent_success_step_nonneg (cfg : Cfg α) (φ : Oracle α) (s0 : Eval α) (t0 : α) (hd : CgDom cfg)
    (he : 0 < cfg.macheps) (hM : 0 < cfg.maxIter) (h : (get .cgdescent cfg φ s0 t0).ok = true) :
    0 ≤ (get .cgdescent cfg φ s0 t0).t := by
  obtain ⟨t, ctx, ht, hc, hg, e⟩ := get_eq_doGet .cgdescent cfg φ s0 t0 hM h
  rw [e] at h ⊢
  obtain ⟨_, _, q3⟩ := cgdescent_cases cfg φ s0 t ctx hd hg (ht he) hc h
  rcases q3 with q3 | ⟨q3, _⟩
  · exact le_of_lt q3
  · exact le_of_eq q3.symm

/-- The step accepted by CG_DESCENT is strictly positive for every oracle that answers the slope of the origin whenever it
    is asked at step `0` (`(φ k 0).g = g0`; in particular for every line function with `ψ 0 = s0`), `c2 < 1`: the second
    secant step `secant(b0, b)` can be exactly `0` (see `cgdescent_zero_step_tried`), but Wolfe fails there. -/
theorem cgdescent_success_step_positive (cfg : Cfg α) (φ : Oracle α) (s0 : Eval α) (t0 : α) (hd : CgDom cfg)
    (he : 0 < cfg.macheps) (hc2 : cfg.c2 < 1) (hM : 0 < cfg.maxIter) (hφ : ∀ k, (φ k 0).g = s0.g)
    (h : (get .cgdescent cfg φ s0 t0).ok = true) : 0 < (get .cgdescent cfg φ s0 t0).t := by
  obtain ⟨rest, _, hcur⟩ := success_state_is_last_answer .cgdescent cfg φ s0 t0 hM h
  obtain ⟨t, ctx, ht, hc, hg, e⟩ := get_eq_doGet .cgdescent cfg φ s0 t0 hM h
  rw [e] at h hcur ⊢
  obtain ⟨_, _, q3⟩ := cgdescent_cases cfg φ s0 t ctx hd hg (ht he) hc h
  rcases q3 with q3 | ⟨q3, q4⟩
  · exact q3
  · exfalso
    have hcur' : (cgdescent cfg φ s0 t ctx).ctx.cur = φ rest.length (cgdescent cfg φ s0 t ctx).t := hcur
    rw [hcur', q3, hφ] at q4
    simp only [hasWolfe, decide_eq_true_eq] at q4
    nlinarith

/-! ### kernel-checked model runs (over ℚ, line functions = consistent oracles): CG_DESCENT's exit without the advertised
  conditions, and Moré–Thuente's former ones ("pre-3b214f8") next to what the present rule does on the same inputs

  The interpolation formulas are the REAL ones of `lstep.cpp` (`cubic`, `quadratic`, `secant` of `Model/LSearch.lean`); the
  square root of `cubic` is `ratSqrt`, exact on squares of rationals — which is what `cubic` takes the root of on quadratic
  data (`¼h²(u.t - v.t)²`, see `interpolation_exact_on_quadratics`). The floating-point replays of these runs on the real code are
  the ops of corpus/C07/ops.txt section 7 (and, for the ones the property oracle flags, the report of the C07 worker). -/

/-- integer square root (Newton iteration, structural on the fuel) -/
def isqrtGo : Nat → Nat → Nat → Nat
  | 0, _, x => x
  | fuel + 1, n, x => if (x + n / x) / 2 < x then isqrtGo fuel n ((x + n / x) / 2) else x

def isqrt (n : Nat) : Nat := if n = 0 then 0 else isqrtGo (n.log2 + 8) n n

/-- square root on ℚ, exact on squares of rationals -/
def ratSqrt (q : ℚ) : ℚ := if q.num ≤ 0 then 0 else (isqrt q.num.toNat : ℚ) / (isqrt q.den : ℚ)

example : ratSqrt (49 / 4) = 7 / 2 ∧ ratSqrt 0 = 0 ∧ ratSqrt (998001 / 1000000) = 999 / 1000 := by decide +kernel

/-- `witnessCfg` with the real formulas `cubic` (root = `ratSqrt`) and `interpolate(cubic)` of lstep.cpp, in their RE-TRANSLATED form
    (`Gen/LsStep.lean` through `genCubic`, `genInterpolate`) -/
def realCfg : Cfg ℚ :=
  letI : Sqrt ℚ := ⟨ratSqrt⟩
  { witnessCfg with cubic := genCubic, interp := genInterpolate (fun _ => true) Interp.cubic }

/-- `φ(t) = -t`: linear, unbounded below along the direction -/
def linearDown (t : ℚ) : Eval ℚ := ⟨-t, -1, true⟩

/-- the loop body of `lsearchk_morethuente_t::do_get` BEFORE the repair 3b214f8 ("pre-3b214f8"): the two "no further progress"
    tests, `stp >= stpmax()`, `stp <= stpmin()` and the convergence test, in this order, ALL returned `{true, stp}` (MINPACK-2
    `dcsrch` reports the first four as warnings). Kept only to record what the old rule did on the runs below. -/
def mtExitPre3b214f8 (cfg : Cfg ℚ) (s0 : Eval ℚ) (m : MT ℚ) (f g : ℚ) : Bool :=
  mtGiveUp cfg s0 m f g || mtConverged cfg s0 m f g

/-- pre-3b214f8 loop (same `mtNext`, same budget) -/
def morethuentePre3b214f8 (cfg : Cfg ℚ) (φ : Oracle ℚ) (s0 : Eval ℚ) : Nat → MT ℚ → Ctx ℚ → Res ℚ
  | 0, m, ctx => ⟨false, m.dc.stp, ctx⟩
  | n + 1, m, ctx =>
    if mtExitPre3b214f8 cfg s0 m ctx.cur.f ctx.cur.g then ⟨true, m.dc.stp, ctx⟩
    else
      let m' := mtNext cfg s0 m ctx.cur.f ctx.cur.g
      let ctx' := ask φ ctx m'.dc.stp
      if ctx'.cur.ok then morethuentePre3b214f8 cfg φ s0 n m' ctx' else ⟨false, m'.dc.stp, ctx'⟩

/-- pre-3b214f8 `do_get` entered at the step `1` with the state evaluated there -/
def mtRunPre3b214f8 (cfg : Cfg ℚ) (ψ : ℚ → Eval ℚ) : Res ℚ :=
  morethuentePre3b214f8 cfg (fun _ => ψ) (ψ 0) cfg.maxIter (morethuenteInit cfg (ψ 0) 1) ⟨ψ 1, [1]⟩

/-- `φ(t) = -t` (unbounded below): the step grows `1, 5, 21, 85, 100 = stpmax()` (`macheps = 1/1000`) with the slope unchanged.
    pre-3b214f8: success was reported there — Armijo holds, Wolfe and strong Wolfe do NOT. Now: the search fails at `stpmax()`. -/
theorem morethuente_at_stpmax_pre3b214f8_and_now :
    (mtRunPre3b214f8 realCfg linearDown).ok = true ∧ (mtRunPre3b214f8 realCfg linearDown).t = 100 ∧
    hasStrongWolfe (linearDown 0).g (mtRunPre3b214f8 realCfg linearDown).ctx.cur.g realCfg.c2 = false ∧
    hasWolfe (linearDown 0).g (mtRunPre3b214f8 realCfg linearDown).ctx.cur.g realCfg.c2 = false ∧
    (get .morethuente realCfg (fun _ => linearDown) (linearDown 0) 1).ok = false ∧
    (get .morethuente realCfg (fun _ => linearDown) (linearDown 0) 1).t = 100 ∧
    (get .morethuente realCfg (fun _ => linearDown) (linearDown 0) 1).ctx.trace = [100, 85, 21, 5, 1] := by
  decide +kernel

/-- the convex quadratic `φ(t) = -t + 500 t²` (minimiser `t* = 1/1000`, below `stpmin() = 1/100`) -/
def steepQuadratic (t : ℚ) : Eval ℚ := ⟨-t + 500 * t * t, -1 + 1000 * t, true⟩

/-- A convex quadratic whose minimiser along the line is below `stpmin()`: the interpolated step `t*` is clamped to `stpmin()`,
    where the function value has INCREASED (`φ(1/100) = 1/25 > 0 = φ(0)`).
    pre-3b214f8: success was reported there, with neither Armijo nor strong Wolfe. Now: the search FAILS there — honestly, but
    the property's clause "on convex quadratics all five succeed" is not met in exact arithmetic either when `t* < stpmin()`. -/
theorem morethuente_at_stpmin_pre3b214f8_and_now :
    (mtRunPre3b214f8 realCfg steepQuadratic).ok = true ∧ (mtRunPre3b214f8 realCfg steepQuadratic).t = 1 / 100 ∧
    (steepQuadratic 0).f < (mtRunPre3b214f8 realCfg steepQuadratic).ctx.cur.f ∧
    hasArmijo (steepQuadratic 0).f (steepQuadratic 0).g (mtRunPre3b214f8 realCfg steepQuadratic).ctx.cur.f (1 / 100) realCfg.c1
      = false ∧
    hasStrongWolfe (steepQuadratic 0).g (mtRunPre3b214f8 realCfg steepQuadratic).ctx.cur.g realCfg.c2 = false ∧
    (get .morethuente realCfg (fun _ => steepQuadratic) (steepQuadratic 0) 1).ok = false ∧
    (get .morethuente realCfg (fun _ => steepQuadratic) (steepQuadratic 0) 1).t = 1 / 100 ∧
    (get .morethuente realCfg (fun _ => steepQuadratic) (steepQuadratic 0) 1).ctx.trace = [1 / 100, 1] := by
  decide +kernel

/-- pre-3b214f8, "no further progress" exit: with an interpolation that answers outside the bracket (`cubic := 10`) the fallback
    `stp = stx = 0` made the old rule report success with `t = 0`. (Now: `morethuente_zero_step_accepted_if_inconsistent`.) -/
theorem morethuente_step_zero_pre3b214f8 :
    (mtRunPre3b214f8 witnessCfg witnessPsi).ok = true ∧ (mtRunPre3b214f8 witnessCfg witnessPsi).t = 0 := by
  decide +kernel

/-- `φ(t) = (t - 10)²` -/
def parabola10 (t : ℚ) : Eval ℚ := ⟨(t - 10) * (t - 10), 2 * (t - 10), true⟩

/-- CG_DESCENT, "bracketing failed" exit — the model counterpart of the known finding
    `cgdescent-success-violates-on-convex-quadratic`: on `φ(t) = (t - 10)²` with `max_iterations = 1` success is reported at
    `t = 5` after 2 evaluations (`> max_iterations`); neither Wolfe nor approximate Wolfe holds there. -/
theorem cgdescent_bracket_failed_reachable :
    (get .cgdescent { realCfg with maxIter := 1 } (fun _ => parabola10) (parabola10 0) 1).ok = true ∧
    (get .cgdescent { realCfg with maxIter := 1 } (fun _ => parabola10) (parabola10 0) 1).t = 5 ∧
    (get .cgdescent { realCfg with maxIter := 1 } (fun _ => parabola10) (parabola10 0) 1).ctx.trace = [5, 1] ∧
    hasWolfe (parabola10 0).g (get .cgdescent { realCfg with maxIter := 1 } (fun _ => parabola10) (parabola10 0) 1).ctx.cur.g
      realCfg.c2 = false := by
  decide +kernel

/-- a line function with `φ(0) = 0, φ'(0) = -1`, `φ(1/2) = 1, φ'(1/2) = 1/2`, `φ(1) = 2, φ'(1) = 1` (e.g. the C¹ piecewise
    cubic through these knots, harness function `herm`); elsewhere a point that is accepted at once -/
def zeroStepPsi (t : ℚ) : Eval ℚ :=
  if t = 0 then ⟨0, -1, true⟩ else if t = 1 / 2 then ⟨1, 1 / 2, true⟩ else if t = 1 then ⟨2, 1, true⟩ else ⟨-1, 0, true⟩

/-- CG_DESCENT evaluates at the step `0`: with `a = (0, g=-1)`, `b0 = (1, g=1)` the secant step is `1/2`, `b = (1/2, g=1/2)`
    and the second secant step `secant(b0, b)` is exactly `0`; the origin is re-evaluated (and rejected: Wolfe fails there). -/
theorem cgdescent_zero_step_tried :
    (get .cgdescent realCfg (fun _ => zeroStepPsi) (zeroStepPsi 0) 1).ctx.trace.reverse.take 3 = [1, 1 / 2, 0] := by
  decide +kernel

/-- …and an oracle that does NOT answer the slope of the origin at step `0` gets the step `0` accepted: the consistency
    hypothesis of `cgdescent_success_step_positive` cannot be dropped. -/
theorem cgdescent_zero_step_accepted_if_inconsistent :
    (get .cgdescent realCfg (fun _ t => if t = 0 then ⟨0, 0, true⟩ else zeroStepPsi t) (zeroStepPsi 0) 1).ok = true ∧
    (get .cgdescent realCfg (fun _ t => if t = 0 then ⟨0, 0, true⟩ else zeroStepPsi t) (zeroStepPsi 0) 1).t = 0 := by
  decide +kernel


/-! ### convex quadratics along the line, in exact arithmetic: `φ(t) = f0 + g0 t + h t²/2`, `g0 < 0 < h`, `t* = -g0/h`

  The property's last sentence ("on convex quadratic objectives all five line-searches succeed and satisfy their advertised
  conditions") is a convergence claim. Proved here, for every ordered field:
    * the acceptance conditions as intervals of the step, and at the minimiser: strong Wolfe for every `c2 ≥ 0`, Armijo IFF
      `c1 ≤ 1/2` (`quadratic_acceptance_intervals`, `quadratic_minimizer_accepted_iff`) — with `c1 > 1/2` every search whose
      interpolation lands on `t*` must reject it: the known findings `…-fails-on-convex-quadratic/c1>=0.5`;
    * the three interpolation formulas of lstep.cpp return exactly `t*` on quadratic data (`interpolation_exact_on_quadratics`);
    * backtracking succeeds within `k + 1` iterations for the explicit `k` with `(1 - safeguard)^k · max(t1, 3B) ≤ 2(1 - c1) t*`,
      whatever the interpolation function (`backtrack_succeeds_on_quadratic`);
    * CG_DESCENT succeeds for EVERY `t0` with Wolfe or approximate Wolfe, given `ro^K·t1 ≥ t*` for some `K < max_iterations`
      (`cgdescent_succeeds_on_quadratic`);
    * LeMaréchal succeeds for EVERY `t0` with Armijo and Wolfe, given an explicit iteration budget `k + J + 3` (expansions +
      clamped interpolations) (`lemarechal_succeeds_on_quadratic`);
    * Fletcher succeeds for EVERY `t0` with Armijo and strong Wolfe, `c1 < 1/2`, given an explicit budget of `k` extrapolations
      and `J` clamped zoom steps (`fletcher_succeeds_on_quadratic`);
    * Moré–Thuente succeeds for EVERY `t0` with Armijo and strong Wolfe, `c1 ≤ 1/2`, `c1 ≤ c2 < 1`, `stpmin() ≤ t* ≤ stpmax()`, given
      `4^k·t1 ≥ (1 - c2) t*` and `max_iterations ≥ k + 2`, within `max_iterations + k + 2` evaluations (`morethuente_succeeds_on_quadratic`:
      the extrapolation phase `stp + 4 (stp - stx)` / `stp + 1.1 (stp - stx)` as coded, `dcstep` cases 1-3, the tripling loop of the
      preamble); refinements say WHERE it stops when the first trial does not undershoot: at `t1`, at `t*`, or — when Armijo fails at
      `t1 ≤ 2t*` — at the minimiser `(1 - c1) t*` of the MODIFIED function (`morethuente_quadratic_no_undershoot_two_evaluations`,
      `morethuente_quadratic_overshoot_exact_step`).
  The hypotheses that are not mere parameter domains are necessary, each with a kernel-checked run: `stpmin() ≤ t*`
  (`morethuente_at_stpmin_pre3b214f8_and_now`: the search FAILS at `stpmin()`; before 3b214f8 it reported success with the value increased),
  `t* ≤ stpmax()` (`morethuente_fails_beyond_stpmax`), `c1 ≤ 1/2` (`quadratic_minimizer_accepted_iff`; known findings `…/c1>=0.5`). The
  statement's "all five succeed" does not get these cases, which are honest failures. In floating point the claim is tested by the oracle. -/

/-- `get` on the quadratic line function from its own origin -/
def quadGet (m : Method) (cfg : Cfg α) (f0 g0 h t0 : α) : Res α :=
  get m cfg (fun _ => quadLine f0 g0 h) ⟨f0, g0, true⟩ t0

/-- The generated predicates on a convex quadratic, as intervals of the step `t > 0`:
    Armijo ⇔ `t ≤ 2(1 - c1) t*`, Wolfe ⇔ `(1 - c2) t* ≤ t`, strong Wolfe ⇔ `|t - t*| ≤ c2 t*`. -/
theorem quadratic_acceptance_intervals (f0 g0 h c1 c2 t : α) (hg : g0 < 0) (hh : 0 < h) (ht : 0 < t) :
    (hasArmijo f0 g0 (quadLine f0 g0 h t).f t c1 = true ↔ t ≤ 2 * (1 - c1) * tstar g0 h) ∧
    (hasWolfe g0 (quadLine f0 g0 h t).g c2 = true ↔ (1 - c2) * tstar g0 h ≤ t) ∧
    (hasStrongWolfe g0 (quadLine f0 g0 h t).g c2 = true ↔ |t - tstar g0 h| ≤ c2 * tstar g0 h) :=
  ⟨armijo_quad_iff hh ht, wolfe_quad_iff hh, strongWolfe_quad_iff hg hh⟩

/-- At the exact minimiser `t* = -g0/h > 0`: Wolfe and strong Wolfe hold for every `c2 ≥ 0`; Armijo holds IFF `c1 ≤ 1/2`. -/
theorem quadratic_minimizer_accepted_iff (f0 g0 h c1 c2 : α) (hg : g0 < 0) (hh : 0 < h) (hc2 : 0 ≤ c2) :
    0 < tstar g0 h ∧ (quadLine f0 g0 h (tstar g0 h)).g = 0 ∧
    hasStrongWolfe g0 (quadLine f0 g0 h (tstar g0 h)).g c2 = true ∧ hasWolfe g0 (quadLine f0 g0 h (tstar g0 h)).g c2 = true ∧
    (hasArmijo f0 g0 (quadLine f0 g0 h (tstar g0 h)).f (tstar g0 h) c1 = true ↔ c1 ≤ 1 / 2) :=
  ⟨tstar_pos hg hh, quadLine_tstar_g hh, (strongWolfe_at_tstar hg hh hc2).1, (strongWolfe_at_tstar hg hh hc2).2,
    armijo_at_tstar_iff hg hh⟩

/-- The formulas RE-TRANSLATED from src/solver/lstep.cpp (`Gen/LsStep.lean`; `model_lstep_is_generated`: they are the ones the model
    uses): `lsearch_step_t::quadratic`, `::secant` and `::cubic` (with any square root that is one on non-negative arguments)
    return exactly `t*` for any two distinct points of the quadratic; so does `lsearch_step_t::interpolate` in the modes
    `quadratic` and `cubic` when `isfinite(t*)`. -/
theorem interpolation_exact_on_quadratics (sqrt : α → α)
    (hs : ∀ x : α, 0 ≤ x → 0 ≤ sqrt x ∧ sqrt x * sqrt x = x) (f0 g0 h : α) (hh : 0 < h) (u v : Step α)
    (hu : OnQuad f0 g0 h u) (hv : OnQuad f0 g0 h v) (hne : u.t ≠ v.t) :
    Gen.LsStep.quadratic u.t u.f u.g v.t v.f v.g = tstar g0 h ∧ Gen.LsStep.secant u.t u.f u.g v.t v.f v.g = tstar g0 h ∧
    Gen.LsStep.cubic sqrt u.t u.f u.g v.t v.f v.g = tstar g0 h ∧
    (∀ (fin : α → Bool) (mode : Gen.LsStep.InterpolationType), fin (tstar g0 h) = true → mode ≠ .bisection →
      Gen.LsStep.interpolate fin sqrt u.t u.f u.g v.t v.f v.g mode = tstar g0 h) :=
  generated_exact_on_quadratics sqrt hs hh u v hu hv hne

/-- … hence the interpolation the model (and the driver) builds from the generated formulas satisfies the contracts the
    "succeeds on quadratics" theorems ask of `Cfg.interp` (`InterpExact`) and `Cfg.cubic` (`CubicExact`). -/
theorem generated_interpolation_contracts [Sqrt α]
    (hs : ∀ x : α, 0 ≤ x → 0 ≤ (Sqrt.sqrt x : α) ∧ (Sqrt.sqrt x : α) * Sqrt.sqrt x = x) (cfg : Cfg α) (fin : α → Bool) (mode : Interp)
    (hm : mode ≠ .bisection) (f0 g0 h : α) (hh : 0 < h) (hfin : fin (tstar g0 h) = true)
    (hi : cfg.interp = genInterpolate fin mode) (hc : cfg.cubic = genCubic) :
    InterpExact cfg f0 g0 h ∧ CubicExact cfg h := by
  constructor
  · intro u v hu hv hne
    rw [hi]
    refine (generated_exact_on_quadratics Sqrt.sqrt hs hh u v hu hv hne).2.2.2 fin mode.toGen hfin ?_
    cases mode <;> simp_all [Interp.toGen]
  · exact generated_cubic_exact cfg Sqrt.sqrt hs (fun u v => by rw [hc]; rfl) hh

/-- What the re-translated `lsearch_step_t::cubic` computes, for ANY data (not only quadratics): with `q` the cubic Hermite interpolant of
    the two step records (`hermite_interpolates`: values and slopes at both ends), the returned step is a STATIONARY POINT of `q` and the
    curvature of `q` there is `2·d2/(v.t - u.t)`, `d2 = sign(v.t - u.t)·sqrt(d1² - u.g·v.g)` — non-negative: a local minimiser.
    Hypotheses: distinct steps, the root exists (`sqrt r · sqrt r = r` for the radicand), the formula's denominator is not `0`. -/
theorem cubic_is_stationary_point_of_hermite_cubic (sqrt : α → α) (ut uf ug vt vf vg : α) (hne : ut ≠ vt)
    (hs : sqrt ((ug + vg - 3 * (uf - vf) / (ut - vt)) * (ug + vg - 3 * (uf - vf) / (ut - vt)) - ug * vg) *
          sqrt ((ug + vg - 3 * (uf - vf) / (ut - vt)) * (ug + vg - 3 * (uf - vf) / (ut - vt)) - ug * vg) =
          (ug + vg - 3 * (uf - vf) / (ut - vt)) * (ug + vg - 3 * (uf - vf) / (ut - vt)) - ug * vg)
    (hD : vg - ug + 2 * ((if vt > ut then 1 else -1) *
          sqrt ((ug + vg - 3 * (uf - vf) / (ut - vt)) * (ug + vg - 3 * (uf - vf) / (ut - vt)) - ug * vg)) ≠ 0) :
    (hermite ut uf ug vt vf vg ut = uf ∧ hermite ut uf ug vt vf vg vt = vf ∧
      hermiteSlope ut uf ug vt vf vg ut = ug ∧ hermiteSlope ut uf ug vt vf vg vt = vg) ∧
    hermiteSlope ut uf ug vt vf vg (Gen.LsStep.cubic sqrt ut uf ug vt vf vg) = 0 ∧
    hermiteCurv ut uf ug vt vf vg (Gen.LsStep.cubic sqrt ut uf ug vt vf vg) =
      2 * ((if vt > ut then 1 else -1) *
        sqrt ((ug + vg - 3 * (uf - vf) / (ut - vt)) * (ug + vg - 3 * (uf - vf) / (ut - vt)) - ug * vg)) / (vt - ut) :=
  ⟨hermite_interpolates ut uf ug vt vf vg hne, generated_cubic_stationary sqrt ut uf ug vt vf vg hne hs hD⟩

/-- non-vacuity: `u = (0, 0, -1)`, `v = (1, 1, 3)` (two points of `-t + 2t²`), `sqrt := |·|/… ` replaced by the exact root `2` of the
    radicand `4`: the hypotheses hold and the formula returns `1/4` -/
example : (fun _ : ℚ => (2 : ℚ)) (((-1 : ℚ) + 3 - 3 * (0 - 1) / (0 - 1)) * ((-1) + 3 - 3 * (0 - 1) / (0 - 1)) - (-1) * 3) *
      (fun _ : ℚ => (2 : ℚ)) (((-1 : ℚ) + 3 - 3 * (0 - 1) / (0 - 1)) * ((-1) + 3 - 3 * (0 - 1) / (0 - 1)) - (-1) * 3) =
      ((-1 : ℚ) + 3 - 3 * (0 - 1) / (0 - 1)) * ((-1) + 3 - 3 * (0 - 1) / (0 - 1)) - (-1) * 3 ∧
    Gen.LsStep.cubic (fun _ : ℚ => (2 : ℚ)) 0 0 (-1) 1 1 3 = 1 / 4 := by decide +kernel

/-- The re-translated `lsearch_step_t::quadratic` returns the stationary point of the parabola through `(u.t, u.f)` with slope `u.g`
    and through `(v.t, v.f)` (`interpParabola_interpolates`), and `*convexity` is `true` exactly when that parabola is strictly convex, i.e.
    when the returned step is its MINIMISER. -/
theorem quadratic_is_parabola_minimiser (ut uf ug vt vf vg : α) (hne : ut ≠ vt) (hq : ug - (uf - vf) / (ut - vt) ≠ 0) :
    (interpParabola ut uf ug vt vf ut = uf ∧ interpParabolaSlope ut uf ug vt vf ut = ug ∧ interpParabola ut uf ug vt vf vt = vf) ∧
    interpParabolaSlope ut uf ug vt vf (Gen.LsStep.quadratic ut uf ug vt vf vg) = 0 ∧
    (Gen.LsStep.quadraticConvexity ut uf ug vt vf vg = true ↔ 0 < parabolaCoef ut uf ug vt vf) :=
  ⟨interpParabola_interpolates ut uf ug vt vf hne, generated_quadratic_stationary ut uf ug vt vf vg hne hq⟩

example : (0 : ℚ) ≠ 1 ∧ ((-1 : ℚ) - (0 - 1) / (0 - 1) ≠ 0) ∧ Gen.LsStep.quadratic (0 : ℚ) 0 (-1) 1 1 3 = 1 / 4 ∧
    Gen.LsStep.quadraticConvexity (0 : ℚ) 0 (-1) 1 1 3 = true := by decide +kernel

/-- The re-translated `lsearch_step_t::secant` returns the root of the linear interpolant of the slopes. -/
theorem secant_is_root_of_linear_slope (ut uf ug vt vf vg : α) (hne : ut ≠ vt) (hg : ug ≠ vg) :
    slopeLine ut ug vt vg ut = ug ∧ slopeLine ut ug vt vg vt = vg ∧
    slopeLine ut ug vt vg (Gen.LsStep.secant ut uf ug vt vf vg) = 0 :=
  generated_secant_root ut uf ug vt vf vg hne hg

example : (0 : ℚ) ≠ 1 ∧ (-1 : ℚ) ≠ 3 ∧ Gen.LsStep.secant (0 : ℚ) 0 (-1) 1 1 3 = 1 / 4 := by decide +kernel

/-- The re-translated `lsearch_step_t::bisection` returns the midpoint. -/
theorem bisection_is_midpoint (ut uf ug vt vf vg : α) : 2 * Gen.LsStep.bisection ut uf ug vt vf vg = ut + vt :=
  generated_bisection_midpoint ut uf ug vt vf vg

/-- Backtracking on a convex quadratic, every interpolation function, every `t0`: with `t1 = initialStep(t0)` (the clamped
    initial step), any `B ≥ 4t*` with `epsilon1 ≤ h B²/4` (the second loop of `get` cannot triple the step beyond `3B`) and
    any `k < max_iterations` with `(1 - safeguard)^k · max(t1, 3B) ≤ 2(1 - c1) t*`, the search succeeds; the accepted step is
    positive, satisfies Armijo, and the state is the evaluation there. -/
theorem backtrack_succeeds_on_quadratic (cfg : Cfg α) (f0 g0 h t0 B : α) (k : Nat) (hg : g0 < 0) (hh : 0 < h)
    (hs0 : 0 < cfg.safeguard) (hs1 : cfg.safeguard ≤ 1 / 2) (he : 0 < cfg.macheps) (hk : k < cfg.maxIter)
    (hB : 4 * tstar g0 h ≤ B) (hB2 : cfg.eps1 ≤ h * B * B / 4)
    (hT : (1 - cfg.safeguard) ^ k * max (initialStep cfg t0) (3 * B) ≤ 2 * (1 - cfg.c1) * tstar g0 h) :
    (quadGet .backtrack cfg f0 g0 h t0).ok = true ∧
    hasArmijo f0 g0 (quadGet .backtrack cfg f0 g0 h t0).ctx.cur.f (quadGet .backtrack cfg f0 g0 h t0).t cfg.c1 = true ∧
    0 < (quadGet .backtrack cfg f0 g0 h t0).t ∧
    (quadGet .backtrack cfg f0 g0 h t0).ctx.cur = quadLine f0 g0 h (quadGet .backtrack cfg f0 g0 h t0).t := by
  have hM : 0 < cfg.maxIter := by omega
  obtain ⟨t, ctx, e, hcur, hle, hcase⟩ := get_line_eq_doGet (quadLine f0 g0 h) (fun _ => rfl) .backtrack cfg ⟨f0, g0, true⟩ t0
    hg hM he
  have ht0 : 0 < t := lt_of_lt_of_le (initialStep_pos cfg t0 he) hle
  have hmax : t ≤ max (initialStep cfg t0) (3 * B) := by
    rcases hcase with h1 | ⟨t'', _, h2, h3⟩
    · rw [h1]; exact le_max_left _ _
    · have := quad_small_change_lt hg hh hB hB2 h3
      exact le_trans (by rw [h2]; linarith) (le_max_right _ _)
  have hk' : (1 - cfg.safeguard) ^ k * t ≤ 2 * (1 - cfg.c1) * tstar g0 h :=
    le_trans (mul_le_mul_of_nonneg_left hmax (pow_nonneg (by linarith) k)) hT
  obtain ⟨r1, r2, _, r4⟩ := backtrack_quad_run cfg f0 g0 h hg hh hs0 hs1 k cfg.maxIter t ctx hk ht0 hcur hk'
  have hok : (quadGet .backtrack cfg f0 g0 h t0).ok = true := by unfold quadGet; rw [e]; exact r1
  refine ⟨hok, backtrack_success_armijo cfg _ ⟨f0, g0, true⟩ t0 hM hok, ?_, ?_⟩
  · unfold quadGet; rw [e]; exact r2
  · unfold quadGet; rw [e]; exact r4

/-- LeMaréchal on a convex quadratic, EVERY `t0` (full statement, no `_partial`), for an interpolation that is exact on
    quadratics (`InterpExact`: the modes `quadratic` and `cubic` of `lsearch_step_t::interpolate`,
    `interpolation_exact_on_quadratics`), `0 < safeguard ≤ 1/2`, `1 < tau1`, `c1 ≤ 1/2`, `0 < c2 < 1`, `0 < epsilon0 ≤ 2(1 - c1)t*`.
    Write `A = (1 - c2)t*` (Wolfe ⇔ `A ≤ t`), `T = 2(1 - c1)t*` (Armijo ⇔ `t ≤ T`), `t1 = initialStep(t0)`, `B` as for backtracking.
    If `tau1^k · t1 ≥ A` (at most `k` expansions), `safeguard^J · max(t1, 3B, tau1·A) < T - A` (at most `J` clamped interpolations:
    each multiplies the width of the bracket, which always contains `[A, T]`, by `safeguard`) and `max_iterations ≥ k + J + 3`, the
    search succeeds at a positive step with Armijo and Wolfe, the state being the evaluation there. -/
theorem lemarechal_succeeds_on_quadratic (cfg : Cfg α) (f0 g0 h t0 B : α) (k J : Nat) (hg : g0 < 0) (hh : 0 < h)
    (hI : InterpExact cfg f0 g0 h) (hs0 : 0 < cfg.safeguard) (hs1 : cfg.safeguard ≤ 1 / 2) (htau : 1 < cfg.tau1)
    (hc1 : cfg.c1 ≤ 1 / 2) (hc20 : 0 < cfg.c2) (hc21 : cfg.c2 < 1) (heps0 : 0 < cfg.eps0)
    (heps1 : cfg.eps0 ≤ 2 * (1 - cfg.c1) * tstar g0 h) (he : 0 < cfg.macheps) (hM : k + J + 3 ≤ cfg.maxIter)
    (hB : 4 * tstar g0 h ≤ B) (hB2 : cfg.eps1 ≤ h * B * B / 4)
    (hk : (1 - cfg.c2) * tstar g0 h ≤ cfg.tau1 ^ k * initialStep cfg t0)
    (hJ : cfg.safeguard ^ J * max (max (initialStep cfg t0) (3 * B)) (cfg.tau1 * ((1 - cfg.c2) * tstar g0 h)) <
      2 * (1 - cfg.c1) * tstar g0 h - (1 - cfg.c2) * tstar g0 h) :
    (quadGet .lemarechal cfg f0 g0 h t0).ok = true ∧ 0 < (quadGet .lemarechal cfg f0 g0 h t0).t ∧
    (quadGet .lemarechal cfg f0 g0 h t0).ctx.cur = quadLine f0 g0 h (quadGet .lemarechal cfg f0 g0 h t0).t ∧
    hasArmijo f0 g0 (quadGet .lemarechal cfg f0 g0 h t0).ctx.cur.f (quadGet .lemarechal cfg f0 g0 h t0).t cfg.c1 = true ∧
    hasWolfe g0 (quadGet .lemarechal cfg f0 g0 h t0).ctx.cur.g cfg.c2 = true := by
  have hM0 : 0 < cfg.maxIter := by omega
  have hp := tstar_pos hg hh
  obtain ⟨t, ctx, e, hcur, hle, hcase⟩ := get_line_eq_doGet (quadLine f0 g0 h) (fun _ => rfl) .lemarechal cfg ⟨f0, g0, true⟩ t0
    hg hM0 he
  have ht0 : 0 < t := lt_of_lt_of_le (initialStep_pos cfg t0 he) hle
  have hmax : t ≤ max (initialStep cfg t0) (3 * B) := by
    rcases hcase with h1 | ⟨t'', _, h2, h3⟩
    · rw [h1]; exact le_max_left _ _
    · have := quad_small_change_lt hg hh hB hB2 h3
      exact le_trans (by rw [h2]; linarith) (le_max_right _ _)
  have hk' : (1 - cfg.c2) * tstar g0 h ≤ cfg.tau1 ^ k * t :=
    le_trans hk (mul_le_mul_of_nonneg_left hle (pow_nonneg (by linarith) k))
  have hJ' : cfg.safeguard ^ J * max t (cfg.tau1 * ((1 - cfg.c2) * tstar g0 h)) <
      2 * (1 - cfg.c1) * tstar g0 h - (1 - cfg.c2) * tstar g0 h :=
    lt_of_le_of_lt (mul_le_mul_of_nonneg_left (max_le_max hmax (le_refl _)) (pow_nonneg (le_of_lt hs0) J)) hJ
  have hA0 : (0 : α) < (1 - cfg.c2) * tstar g0 h := mul_pos (by linarith) hp
  obtain ⟨r1, r2, r3⟩ := lemarechal_quad_expand cfg f0 g0 h hg hh hI hs0 hs1 hc1 hc20 hc21 heps0 heps1 htau J k (cfg.maxIter - 1)
    ⟨0, f0, g0⟩ t ctx (by omega) (onQuad_origin f0 g0 h) (le_refl _) hA0 ht0 hcur hk' hJ'
  have e3 : quadGet .lemarechal cfg f0 g0 h t0 =
      lemarechal cfg (fun _ => quadLine f0 g0 h) ⟨f0, g0, true⟩ (cfg.maxIter - 1) ⟨0, f0, g0⟩ ⟨0, f0, g0⟩ t ctx := by
    unfold quadGet; rw [e]; rfl
  have hok : (quadGet .lemarechal cfg f0 g0 h t0).ok = true := by rw [e3]; exact r1
  have hcond := lemarechal_success_armijo_wolfe cfg (fun _ => quadLine f0 g0 h) ⟨f0, g0, true⟩ t0 hM0 hok
  refine ⟨hok, by rw [e3]; exact r2, by rw [e3]; exact r3, hcond.1, hcond.2⟩

/-- LeMaréchal on a convex quadratic, overshooting first trial (a refinement of the theorem above): if the clamped initial step
    `t1` is not tripled by the preamble (`epsilon1 ≤ |φ(t1) - φ(0)|`), violates Armijo (`2(1 - c1) t* < t1`) and the safeguards do
    not clamp the interpolated step (`safeguard·t1 ≤ t* ≤ (1 - safeguard)·t1`), then with `c1 ≤ 1/2`, `0 ≤ c2`,
    `max_iterations ≥ 3` the search succeeds after TWO evaluations, exactly at `t*`, with Armijo and Wolfe. -/
theorem lemarechal_quadratic_overshoot_exact_step (cfg : Cfg α) (f0 g0 h t0 : α) (hg : g0 < 0) (hh : 0 < h)
    (hI : InterpExact cfg f0 g0 h) (hM : 3 ≤ cfg.maxIter)
    (hng : cfg.eps1 ≤ |(quadLine f0 g0 h (initialStep cfg t0)).f - f0|)
    (ht : 2 * (1 - cfg.c1) * tstar g0 h < initialStep cfg t0)
    (hlo : cfg.safeguard * initialStep cfg t0 ≤ tstar g0 h) (hhi : tstar g0 h ≤ (1 - cfg.safeguard) * initialStep cfg t0)
    (hc1 : cfg.c1 ≤ 1 / 2) (hc2 : 0 ≤ cfg.c2) :
    (quadGet .lemarechal cfg f0 g0 h t0).ok = true ∧ (quadGet .lemarechal cfg f0 g0 h t0).t = tstar g0 h ∧
    (quadGet .lemarechal cfg f0 g0 h t0).ctx.cur = quadLine f0 g0 h (tstar g0 h) ∧
    hasArmijo f0 g0 (quadGet .lemarechal cfg f0 g0 h t0).ctx.cur.f (quadGet .lemarechal cfg f0 g0 h t0).t cfg.c1 = true ∧
    hasWolfe g0 (quadGet .lemarechal cfg f0 g0 h t0).ctx.cur.g cfg.c2 = true := by
  have e := get_line_nogrow (quadLine f0 g0 h) (fun _ => rfl) .lemarechal cfg ⟨f0, g0, true⟩ t0 hg (by omega)
    (by rw [absv_eq_abs]; exact not_lt.mpr hng)
  obtain ⟨n, hn⟩ : ∃ n, cfg.maxIter - 1 = n + 2 := ⟨cfg.maxIter - 3, by omega⟩
  have e2 := lemarechal_quad_overshoot cfg f0 g0 h hg hh hI n (initialStep cfg t0)
    ⟨quadLine f0 g0 h (initialStep cfg t0), [initialStep cfg t0]⟩ rfl ht hlo hhi hc1 hc2
  have e3 : quadGet .lemarechal cfg f0 g0 h t0 = ⟨true, tstar g0 h, ask (fun _ => quadLine f0 g0 h)
      ⟨quadLine f0 g0 h (initialStep cfg t0), [initialStep cfg t0]⟩ (tstar g0 h)⟩ := by
    unfold quadGet; rw [e]; simp only [doGet]; rw [hn]; exact e2
  rw [e3]
  refine ⟨rfl, rfl, by simp [ask], ?_, ?_⟩
  · simpa [ask] using (armijo_at_tstar_iff hg hh).mpr hc1
  · simpa [ask] using (strongWolfe_at_tstar (f0 := f0) hg hh hc2).2

/-- Fletcher on a convex quadratic, EVERY `t0` (full statement, no `_partial`), for an interpolation that is exact on quadratics,
    `c1 < 1/2`, `0 < c2 < 1`, `0 < tau2 ≤ tau3 ≤ 1/2`, `2 ≤ tau1`, `epsilon0 ≤ c2·t*`. With `t1 = initialStep(t0)`, `B` as for
    backtracking: if `tau1^k · t1 ≥ t*` (at most `k` extrapolations in the bracketing phase), `tau3^J · max(t1, 3B, (1 + tau1)t*) ≤
    min(c2, 1 - 2c1)·t*` (at most `J` clamped interpolations in `zoom`: each multiplies the width of the bracket, which always
    contains `t*` and a point that fails strong Wolfe, by at most `tau3`; a trial within `min(c2, 1 - 2c1)t*` of `t*` is accepted),
    `max_iterations ≥ k + 2` and `max_iterations > J`, the search succeeds at a positive step with Armijo and strong Wolfe, the
    state being the evaluation there. -/
theorem fletcher_succeeds_on_quadratic (cfg : Cfg α) (f0 g0 h t0 B : α) (k J : Nat) (hg : g0 < 0) (hh : 0 < h)
    (hI : InterpExact cfg f0 g0 h) (hc1 : cfg.c1 < 1 / 2) (hc20 : 0 < cfg.c2) (hc21 : cfg.c2 < 1)
    (htau2 : 0 < cfg.tau2) (htau23 : cfg.tau2 ≤ cfg.tau3) (htau3 : cfg.tau3 ≤ 1 / 2) (htau1 : 2 ≤ cfg.tau1)
    (heps1 : cfg.eps0 ≤ cfg.c2 * tstar g0 h) (he : 0 < cfg.macheps) (hM : k + 2 ≤ cfg.maxIter) (hMJ : J < cfg.maxIter)
    (hB : 4 * tstar g0 h ≤ B) (hB2 : cfg.eps1 ≤ h * B * B / 4)
    (hk : tstar g0 h ≤ cfg.tau1 ^ k * initialStep cfg t0)
    (hJ : cfg.tau3 ^ J * max (max (initialStep cfg t0) (3 * B)) ((1 + cfg.tau1) * tstar g0 h) ≤
      min cfg.c2 (1 - 2 * cfg.c1) * tstar g0 h) :
    (quadGet .fletcher cfg f0 g0 h t0).ok = true ∧ 0 < (quadGet .fletcher cfg f0 g0 h t0).t ∧
    (quadGet .fletcher cfg f0 g0 h t0).ctx.cur = quadLine f0 g0 h (quadGet .fletcher cfg f0 g0 h t0).t ∧
    hasArmijo f0 g0 (quadGet .fletcher cfg f0 g0 h t0).ctx.cur.f (quadGet .fletcher cfg f0 g0 h t0).t cfg.c1 = true ∧
    hasStrongWolfe g0 (quadGet .fletcher cfg f0 g0 h t0).ctx.cur.g cfg.c2 = true := by
  have hM0 : 0 < cfg.maxIter := by omega
  have hp := tstar_pos hg hh
  have htau30 : 0 < cfg.tau3 := lt_of_lt_of_le htau2 htau23
  obtain ⟨t, ctx, e, hcur, hle, hcase⟩ := get_line_eq_doGet (quadLine f0 g0 h) (fun _ => rfl) .fletcher cfg ⟨f0, g0, true⟩ t0
    hg hM0 he
  have ht0 : 0 < t := lt_of_lt_of_le (initialStep_pos cfg t0 he) hle
  have hmax : t ≤ max (initialStep cfg t0) (3 * B) := by
    rcases hcase with h1 | ⟨t'', _, h2, h3⟩
    · rw [h1]; exact le_max_left _ _
    · have := quad_small_change_lt hg hh hB hB2 h3
      exact le_trans (by rw [h2]; linarith) (le_max_right _ _)
  have hk' : tstar g0 h ≤ (⟨0, f0, g0⟩ : Step α).t + cfg.tau1 ^ k * (t - (⟨0, f0, g0⟩ : Step α).t) := by
    simp only [zero_add, sub_zero]
    exact le_trans hk (mul_le_mul_of_nonneg_left hle (pow_nonneg (by linarith) k))
  have hJ' : cfg.tau3 ^ J * max t ((1 + cfg.tau1) * tstar g0 h) ≤ min cfg.c2 (1 - 2 * cfg.c1) * tstar g0 h :=
    le_trans (mul_le_mul_of_nonneg_left (max_le_max hmax (le_refl _)) (pow_nonneg (le_of_lt htau30) J)) hJ
  have hnsw0 : cfg.c2 * tstar g0 h < |(⟨0, f0, g0⟩ : Step α).t - tstar g0 h| := by
    simp only [zero_sub, abs_neg, abs_of_pos hp]; nlinarith
  obtain ⟨r1, r2, r3⟩ := fletcher_quad cfg f0 g0 h hg hh hI hc1 hc20 hc21 htau2 htau23 htau3 heps1 htau1 J hMJ k (cfg.maxIter - 1)
    ⟨0, f0, g0⟩ t ctx (by omega) (onQuad_origin f0 g0 h) (le_refl _) ht0 hp hnsw0 hcur hk' hJ'
  have e3 : quadGet .fletcher cfg f0 g0 h t0 =
      fletcher cfg (fun _ => quadLine f0 g0 h) ⟨f0, g0, true⟩ (cfg.maxIter - 1) ⟨0, f0, g0⟩ (stepOf ctx t) t ctx := by
    unfold quadGet; rw [e]; rfl
  have hok : (quadGet .fletcher cfg f0 g0 h t0).ok = true := by rw [e3]; exact r1
  have hcond := fletcher_success_armijo_strong_wolfe cfg (fun _ => quadLine f0 g0 h) ⟨f0, g0, true⟩ t0 hM0 hok
  refine ⟨hok, by rw [e3]; exact r2, by rw [e3]; exact r3, hcond.1, hcond.2⟩

/-- Fletcher on a convex quadratic, overshooting first trial (a refinement of the theorem above; `c1 = 1/2` allowed): if `t1`
    is not tripled, violates Armijo and the zoom safeguards do not clamp (`min(tau2, c2)·t1 ≤ t* ≤ (1 - tau3)·t1`), `epsilon0 < t1`,
    `max_iterations ≥ 2`: success after TWO evaluations, exactly at `t*`, with Armijo and strong Wolfe. -/
theorem fletcher_quadratic_overshoot_exact_step (cfg : Cfg α) (f0 g0 h t0 : α) (hg : g0 < 0) (hh : 0 < h)
    (hI : InterpExact cfg f0 g0 h) (hM : 2 ≤ cfg.maxIter) (he : 0 < cfg.macheps)
    (hng : cfg.eps1 ≤ |(quadLine f0 g0 h (initialStep cfg t0)).f - f0|)
    (ht : 2 * (1 - cfg.c1) * tstar g0 h < initialStep cfg t0)
    (hlo : min cfg.tau2 cfg.c2 * initialStep cfg t0 ≤ tstar g0 h) (hhi : tstar g0 h ≤ (1 - cfg.tau3) * initialStep cfg t0)
    (heps : cfg.eps0 < initialStep cfg t0) (hc1 : cfg.c1 ≤ 1 / 2) (hc2 : 0 ≤ cfg.c2) :
    (quadGet .fletcher cfg f0 g0 h t0).ok = true ∧ (quadGet .fletcher cfg f0 g0 h t0).t = tstar g0 h ∧
    (quadGet .fletcher cfg f0 g0 h t0).ctx.cur = quadLine f0 g0 h (tstar g0 h) ∧
    hasArmijo f0 g0 (quadGet .fletcher cfg f0 g0 h t0).ctx.cur.f (quadGet .fletcher cfg f0 g0 h t0).t cfg.c1 = true ∧
    hasStrongWolfe g0 (quadGet .fletcher cfg f0 g0 h t0).ctx.cur.g cfg.c2 = true := by
  have e := get_line_nogrow (quadLine f0 g0 h) (fun _ => rfl) .fletcher cfg ⟨f0, g0, true⟩ t0 hg (by omega)
    (by rw [absv_eq_abs]; exact not_lt.mpr hng)
  obtain ⟨n, hn⟩ : ∃ n, cfg.maxIter - 1 = n + 1 := ⟨cfg.maxIter - 2, by omega⟩
  have e2 := fletcher_quad_overshoot cfg f0 g0 h hg hh hI n (initialStep cfg t0)
    ⟨quadLine f0 g0 h (initialStep cfg t0), [initialStep cfg t0]⟩ rfl ht (initialStep_pos cfg t0 he) hlo hhi hc1 hc2
    (by omega) heps
  have e3 : quadGet .fletcher cfg f0 g0 h t0 = ⟨true, tstar g0 h, ask (fun _ => quadLine f0 g0 h)
      ⟨quadLine f0 g0 h (initialStep cfg t0), [initialStep cfg t0]⟩ (tstar g0 h)⟩ := by
    unfold quadGet; rw [e]; simp only [doGet]; rw [hn]; exact e2
  rw [e3]
  refine ⟨rfl, rfl, by simp [ask], ?_, ?_⟩
  · simpa [ask] using (armijo_at_tstar_iff hg hh).mpr hc1
  · simpa [ask] using (strongWolfe_at_tstar (f0 := f0) hg hh hc2).1

/-- Moré–Thuente on a convex quadratic, first trial with the value increased (a refinement of `morethuente_succeeds_on_quadratic`;
    `c1 = 1/2` and `c2 < c1` allowed): if `t1` is not tripled, `2t* < t1`,
    `stpmin() ≤ t* ≤ stpmax()`, no bisection is forced (`t1 < 1.32 (stpmax() - stpmin())`), `0 ≤ c1 ≤ 1/2`, `0 ≤ c2`,
    `epsilon0 < 1`, `max_iterations ≥ 2` and `cfg.cubic` is exact on quadratics (`interpolation_exact_on_quadratics`): success at
    `t*` with Armijo and strong Wolfe. -/
theorem morethuente_quadratic_overshoot_exact_step (cfg : Cfg α) (f0 g0 h t0 : α) (hg : g0 < 0) (hh : 0 < h)
    (hC : ∀ u v : Step α, OnQuad f0 g0 h u → OnQuad f0 g0 h v → u.t ≠ v.t → cfg.cubic u v = tstar g0 h)
    (hM : 2 ≤ cfg.maxIter) (hng : cfg.eps1 ≤ |(quadLine f0 g0 h (initialStep cfg t0)).f - f0|)
    (ht : 2 * tstar g0 h < initialStep cfg t0) (hlo : stpmin cfg.macheps ≤ tstar g0 h) (hhi : tstar g0 h ≤ stpmax cfg.macheps)
    (hbis : initialStep cfg t0 < 2 * (stpmax cfg.macheps - stpmin cfg.macheps) * (66 / 100))
    (hc10 : 0 ≤ cfg.c1) (hc1 : cfg.c1 ≤ 1 / 2) (hc2 : 0 ≤ cfg.c2) (heps : cfg.eps0 < 1) :
    (quadGet .morethuente cfg f0 g0 h t0).ok = true ∧ (quadGet .morethuente cfg f0 g0 h t0).t = tstar g0 h ∧
    (quadGet .morethuente cfg f0 g0 h t0).ctx.cur = quadLine f0 g0 h (tstar g0 h) ∧
    hasArmijo f0 g0 (quadGet .morethuente cfg f0 g0 h t0).ctx.cur.f (quadGet .morethuente cfg f0 g0 h t0).t cfg.c1 = true ∧
    hasStrongWolfe g0 (quadGet .morethuente cfg f0 g0 h t0).ctx.cur.g cfg.c2 = true := by
  have e := get_line_nogrow (quadLine f0 g0 h) (fun _ => rfl) .morethuente cfg ⟨f0, g0, true⟩ t0 hg (by omega)
    (by rw [absv_eq_abs]; exact not_lt.mpr hng)
  obtain ⟨n, hn⟩ : ∃ n, cfg.maxIter = n + 2 := ⟨cfg.maxIter - 2, by omega⟩
  have e2 := morethuente_quad_overshoot cfg f0 g0 h hg hh hC n (initialStep cfg t0)
    ⟨quadLine f0 g0 h (initialStep cfg t0), [initialStep cfg t0]⟩ rfl ht hlo hhi hbis hc10 hc1 hc2 heps
  have e3 : quadGet .morethuente cfg f0 g0 h t0 = ⟨true, tstar g0 h, ask (fun _ => quadLine f0 g0 h)
      ⟨quadLine f0 g0 h (initialStep cfg t0), [initialStep cfg t0]⟩ (tstar g0 h)⟩ := by
    unfold quadGet; rw [e]; simp only [doGet]; rw [hn]; exact e2
  rw [e3]
  refine ⟨rfl, rfl, by simp [ask], ?_, ?_⟩
  · simpa [ask] using (armijo_at_tstar_iff hg hh).mpr hc1
  · simpa [ask] using (strongWolfe_at_tstar (f0 := f0) hg hh hc2).1

/-- Moré–Thuente on a convex quadratic, every first trial that does not undershoot (a refinement of
    `morethuente_succeeds_on_quadratic`: WHERE the search stops): if the clamped initial step `t1`
    is not tripled by the preamble and `(1 - c2) t* ≤ t1`, then with `cfg.cubic` exact on quadratics of curvature `h`
    (`CubicExact`; the real formula is: `interpolation_exact_on_quadratics`), `0 ≤ c1 ≤ 1/2`, `c1 ≤ c2`, `epsilon0 < 1`,
    `stpmin() ≤ (1 - c1) t*`, `t* ≤ stpmax()`, `t1 < 1.32 (stpmax() - stpmin())` (no forced bisection), `max_iterations ≥ 2`,
    the search succeeds after at most TWO evaluations with Armijo and strong Wolfe, at
      * `t1` itself when it is acceptable,
      * `t*` when `(1 + c2) t* < t1 ≤ 2(1 - c1) t*` (stage 2, slopes of opposite sign) or `2t* < t1` (the value increased),
      * `(1 - c1) t*` — NOT `t*` — when `2(1 - c1) t* < t1 ≤ 2t*`: stage 1 interpolates the modified function
        `φ(t) - φ(0) - c1 φ'(0) t`, whose minimiser that is.
    (The undershooting first trial `t1 < (1 - c2) t*` is the extrapolation phase of `morethuente_succeeds_on_quadratic`.) -/
theorem morethuente_quadratic_no_undershoot_two_evaluations (cfg : Cfg α) (f0 g0 h t0 : α) (hg : g0 < 0) (hh : 0 < h)
    (hC : CubicExact cfg h) (hM : 2 ≤ cfg.maxIter) (he : 0 < cfg.macheps)
    (hng : cfg.eps1 ≤ |(quadLine f0 g0 h (initialStep cfg t0)).f - f0|)
    (ht : (1 - cfg.c2) * tstar g0 h ≤ initialStep cfg t0)
    (hlo : stpmin cfg.macheps ≤ (1 - cfg.c1) * tstar g0 h) (hhi : tstar g0 h ≤ stpmax cfg.macheps)
    (hbis : initialStep cfg t0 < 2 * (stpmax cfg.macheps - stpmin cfg.macheps) * (66 / 100))
    (hc10 : 0 ≤ cfg.c1) (hc1 : cfg.c1 ≤ 1 / 2) (hc12 : cfg.c1 ≤ cfg.c2) (heps : cfg.eps0 < 1) :
    (quadGet .morethuente cfg f0 g0 h t0).ok = true ∧
    ((quadGet .morethuente cfg f0 g0 h t0).t = initialStep cfg t0 ∨ (quadGet .morethuente cfg f0 g0 h t0).t = tstar g0 h ∨
      (quadGet .morethuente cfg f0 g0 h t0).t = (1 - cfg.c1) * tstar g0 h) ∧
    (quadGet .morethuente cfg f0 g0 h t0).ctx.cur = quadLine f0 g0 h (quadGet .morethuente cfg f0 g0 h t0).t ∧
    hasArmijo f0 g0 (quadGet .morethuente cfg f0 g0 h t0).ctx.cur.f (quadGet .morethuente cfg f0 g0 h t0).t cfg.c1 = true ∧
    hasStrongWolfe g0 (quadGet .morethuente cfg f0 g0 h t0).ctx.cur.g cfg.c2 = true := by
  have hp := tstar_pos hg hh
  have hc20 : 0 ≤ cfg.c2 := le_trans hc10 hc12
  have ht10 := initialStep_pos cfg t0 he
  have hlo' : stpmin cfg.macheps ≤ tstar g0 h := le_trans hlo (by nlinarith)
  have hhi' : (1 - cfg.c1) * tstar g0 h ≤ stpmax cfg.macheps := le_trans (by nlinarith) hhi
  have e := get_line_nogrow (quadLine f0 g0 h) (fun _ => rfl) .morethuente cfg ⟨f0, g0, true⟩ t0 hg (by omega)
    (by rw [absv_eq_abs]; exact not_lt.mpr hng)
  obtain ⟨n, hn⟩ : ∃ n, cfg.maxIter = n + 2 := ⟨cfg.maxIter - 2, by omega⟩
  have e0 : quadGet .morethuente cfg f0 g0 h t0 = morethuente cfg (fun _ => quadLine f0 g0 h) ⟨f0, g0, true⟩ (n + 2)
      (morethuenteInit cfg ⟨f0, g0, true⟩ (initialStep cfg t0)) ⟨quadLine f0 g0 h (initialStep cfg t0), [initialStep cfg t0]⟩ := by
    unfold quadGet; rw [e]; simp only [doGet]; rw [hn]
  -- what the three landing points satisfy
  have hstar : hasArmijo f0 g0 (quadLine f0 g0 h (tstar g0 h)).f (tstar g0 h) cfg.c1 = true ∧
      hasStrongWolfe g0 (quadLine f0 g0 h (tstar g0 h)).g cfg.c2 = true :=
    ⟨(armijo_at_tstar_iff hg hh).mpr hc1, (strongWolfe_at_tstar hg hh hc20).1⟩
  have htm0 : 0 < (1 - cfg.c1) * tstar g0 h := mul_pos (by linarith) hp
  have hmod : hasArmijo f0 g0 (quadLine f0 g0 h ((1 - cfg.c1) * tstar g0 h)).f ((1 - cfg.c1) * tstar g0 h) cfg.c1 = true ∧
      hasStrongWolfe g0 (quadLine f0 g0 h ((1 - cfg.c1) * tstar g0 h)).g cfg.c2 = true := by
    refine ⟨(armijo_quad_iff hh htm0).mpr (by nlinarith), (strongWolfe_quad_iff hg hh).mpr ?_⟩
    have : (1 - cfg.c1) * tstar g0 h - tstar g0 h = -(cfg.c1 * tstar g0 h) := by ring
    rw [this, abs_neg, abs_of_nonneg (mul_nonneg hc10 (le_of_lt hp))]
    exact mul_le_mul_of_nonneg_right hc12 (le_of_lt hp)
  by_cases h2 : 2 * tstar g0 h < initialStep cfg t0
  · -- the value increased
    have e2 := morethuente_quad_overshoot cfg f0 g0 h hg hh (hC f0 g0) n (initialStep cfg t0)
      ⟨quadLine f0 g0 h (initialStep cfg t0), [initialStep cfg t0]⟩ rfl h2 hlo' hhi hbis hc10 hc1 hc20 heps
    rw [e0, e2]
    exact ⟨rfl, Or.inr (Or.inl rfl), by simp [ask], by simpa [ask] using hstar.1, by simpa [ask] using hstar.2⟩
  · have h2' : initialStep cfg t0 ≤ 2 * tstar g0 h := not_lt.mp h2
    by_cases hT : 2 * (1 - cfg.c1) * tstar g0 h < initialStep cfg t0
    · -- Armijo fails: modified function
      have e2 := morethuente_quad_modified cfg f0 g0 h hg hh hC hc10 hc1 hc12 heps n (initialStep cfg t0)
        ⟨quadLine f0 g0 h (initialStep cfg t0), [initialStep cfg t0]⟩ rfl hT h2' hlo hhi' hbis
      rw [e0, e2]
      exact ⟨rfl, Or.inr (Or.inr rfl), by simp [ask], by simpa [ask] using hmod.1, by simpa [ask] using hmod.2⟩
    · have hT' : initialStep cfg t0 ≤ 2 * (1 - cfg.c1) * tstar g0 h := not_lt.mp hT
      by_cases hS : (1 + cfg.c2) * tstar g0 h < initialStep cfg t0
      · -- Armijo holds, positive slope: stage 2
        have e2 := morethuente_quad_opposite cfg f0 g0 h hg hh hC hc10 hc1 hc12 heps n (initialStep cfg t0)
          ⟨quadLine f0 g0 h (initialStep cfg t0), [initialStep cfg t0]⟩ rfl hc20 hS hT' hlo' hhi hbis
        rw [e0, e2]
        exact ⟨rfl, Or.inr (Or.inl rfl), by simp [ask], by simpa [ask] using hstar.1, by simpa [ask] using hstar.2⟩
      · -- acceptable at once
        have hS' : initialStep cfg t0 ≤ (1 + cfg.c2) * tstar g0 h := not_lt.mp hS
        have hSW : |initialStep cfg t0 - tstar g0 h| ≤ cfg.c2 * tstar g0 h := by
          rw [abs_le]; constructor <;> linarith
        have hx := mt_convergence_quad cfg f0 g0 h hg hh hC hc10 hc1 hc12 heps
          (morethuenteInit cfg ⟨f0, g0, true⟩ (initialStep cfg t0)) ht10 hT' hSW
        have e2 := morethuente_exit_now cfg (fun _ => quadLine f0 g0 h) ⟨f0, g0, true⟩ (n + 1)
          (morethuenteInit cfg ⟨f0, g0, true⟩ (initialStep cfg t0))
          ⟨quadLine f0 g0 h (initialStep cfg t0), [initialStep cfg t0]⟩ hx
        rw [e0, e2]
        refine ⟨rfl, Or.inl rfl, rfl, ?_, ?_⟩
        · exact (armijo_quad_iff hh ht10).mpr hT'
        · exact (strongWolfe_quad_iff hg hh).mpr hSW

/-- Moré–Thuente on a convex quadratic, EVERY `t0` (full statement, no `_partial`; undershooting first trials and the preamble's
    tripling loop included), in exact arithmetic. For `cfg.cubic` exact on quadratics of curvature `h` (`CubicExact`; the formula
    re-translated from lstep.cpp is: `generated_cubic_exact`), `isfinite(t*)`, `0 ≤ c1 ≤ 1/2`, `c1 ≤ c2 < 1`, `epsilon0 ≤ c2`,
    `stpmin() ≤ min(1, t*)`, `t* ≤ stpmax()`; with `t1 = initialStep(t0)` (the clamped initial step, `get_initial_step_clamped`), `B` as
    for backtracking (`4t* ≤ B`, `epsilon1 ≤ h B²/4`: the second loop of `get` cannot triple the step beyond `3B`), no bisection forced
    on the first bracket (`max(t1, 3B) < 1.32 (stpmax() - stpmin())`): if `4^k · t1 ≥ (1 - c2) t*` and `max_iterations ≥ k + 2`, the
    search SUCCEEDS at a positive step with Armijo and strong Wolfe, the state being the evaluation there.
    How (Proofs/LSearchQuadMTFull.lean, `dcstep` case by case with cubic = quadratic = secant = `t*` on quadratic data):
      * while the trial `t` undershoots (`t < (1 - c2) t*`; convergence test false, none of the four give-up tests fires): `dcstep`
        case 3, no bracket — next trial `clamp(max(stmin, min(stmax, t*)))` with `stmin = t + 1.1 (t - stx)`, `stmax = t + 4 (t - stx)`
        as coded (first iteration `0`, `5 t1`): the distance `t - stx` at least quadruples per evaluation, `t*` may be OVERSHOT (up to
        `stmin`, at most `stpmax()`), at most `k` such evaluations;
      * a trial in `[(1 - c2) t*, t*]` is accepted; a trial beyond `t*` is accepted or ONE more `dcstep` brackets `[stx, t]` (case 1: value
        increased; case 2: stage 2, slopes of opposite sign; case 1 on the modified function `φ(t) - c1 φ'(0) t` in stage 1) and the
        next trial is `t*`, resp. `clamp((1 - c1) t*)`, both accepted.
    `do_get` thus makes at most `k + 1` evaluations after the preamble's (`mt_quad_run`); the preamble makes one plus one per tripling
    (`≤ max_iterations`): at most `max_iterations + k + 2` evaluations in all, and at most `k + 2` when the first trial already changes
    the value by `epsilon1`. What remains outside: floating point. -/
theorem morethuente_succeeds_on_quadratic (cfg : Cfg α) (f0 g0 h t0 B : α) (k : Nat) (hg : g0 < 0) (hh : 0 < h)
    (hC : CubicExact cfg h) (hfin : cfg.fin (tstar g0 h) = true)
    (hc10 : 0 ≤ cfg.c1) (hc1 : cfg.c1 ≤ 1 / 2) (hc12 : cfg.c1 ≤ cfg.c2) (hc21 : cfg.c2 < 1) (heps : cfg.eps0 ≤ cfg.c2)
    (he : 0 < cfg.macheps) (hmin1 : stpmin cfg.macheps ≤ 1) (hlo : stpmin cfg.macheps ≤ tstar g0 h)
    (hhi : tstar g0 h ≤ stpmax cfg.macheps) (hB : 4 * tstar g0 h ≤ B) (hB2 : cfg.eps1 ≤ h * B * B / 4)
    (hbis : max (initialStep cfg t0) (3 * B) < 2 * (stpmax cfg.macheps - stpmin cfg.macheps) * (66 / 100))
    (hk : (1 - cfg.c2) * tstar g0 h ≤ 4 ^ k * initialStep cfg t0) (hM : k + 2 ≤ cfg.maxIter) :
    (quadGet .morethuente cfg f0 g0 h t0).ok = true ∧ 0 < (quadGet .morethuente cfg f0 g0 h t0).t ∧
    (quadGet .morethuente cfg f0 g0 h t0).ctx.cur = quadLine f0 g0 h (quadGet .morethuente cfg f0 g0 h t0).t ∧
    hasArmijo f0 g0 (quadGet .morethuente cfg f0 g0 h t0).ctx.cur.f (quadGet .morethuente cfg f0 g0 h t0).t cfg.c1 = true ∧
    hasStrongWolfe g0 (quadGet .morethuente cfg f0 g0 h t0).ctx.cur.g cfg.c2 = true ∧
    (quadGet .morethuente cfg f0 g0 h t0).ctx.trace.length ≤ cfg.maxIter + k + 2 ∧
    (cfg.eps1 ≤ |(quadLine f0 g0 h (initialStep cfg t0)).f - f0| → (quadGet .morethuente cfg f0 g0 h t0).ctx.trace.length ≤ k + 2) := by
  have hM0 : 0 < cfg.maxIter := by omega
  have hp := tstar_pos hg hh
  obtain ⟨t, ctx, e, hcur, hle, hcase, hlen, hlen1⟩ := get_line_eq_doGet_len (quadLine f0 g0 h) (fun _ => rfl) .morethuente cfg
    ⟨f0, g0, true⟩ t0 hg hM0 he
  have ht1 : stpmin cfg.macheps ≤ initialStep cfg t0 := by
    unfold initialStep; split
    · have := clamp_ge t0 (stpmin cfg.macheps) 1
      rwa [min_eq_left hmin1] at this
    · exact hmin1
  have ht0 : 0 < t := lt_of_lt_of_le (initialStep_pos cfg t0 he) hle
  have hmax : t ≤ max (initialStep cfg t0) (3 * B) := by
    rcases hcase with h1 | ⟨t'', _, h2, h3⟩
    · rw [h1]; exact le_max_left _ _
    · have := quad_small_change_lt hg hh hB hB2 h3
      exact le_trans (by rw [h2]; linarith) (le_max_right _ _)
  have U : Unbr cfg f0 g0 h (morethuenteInit cfg ⟨f0, g0, true⟩ t) 0 t :=
    ⟨rfl, rfl, rfl, by simp [morethuenteInit, quadLine], by simp [morethuenteInit, quadLine], rfl, le_refl _, ht0,
      by simp only [morethuenteInit]; linarith, rfl, le_trans ht1 hle, by linarith [lt_of_le_of_lt hmax hbis]⟩
  have hk' : (1 - cfg.c2) * tstar g0 h ≤ t ∨ (1 - cfg.c2) * tstar g0 h ≤ 4 ^ k * (t - 0) := by
    right; rw [sub_zero]
    exact le_trans hk (mul_le_mul_of_nonneg_left hle (by positivity))
  obtain ⟨r1, r2, r3, r4, r5⟩ := mt_quad_run cfg f0 g0 h hg hh hC hfin hc10 hc1 hc12 hc21 heps hlo hhi k cfg.maxIter
    (morethuenteInit cfg ⟨f0, g0, true⟩ t) 0 t ctx U hcur (mul_pos (by linarith) hp) hk' hM
  have e3 : quadGet .morethuente cfg f0 g0 h t0 = morethuente cfg (fun _ => quadLine f0 g0 h) ⟨f0, g0, true⟩ cfg.maxIter
      (morethuenteInit cfg ⟨f0, g0, true⟩ t) ctx := by
    unfold quadGet; rw [e]; rfl
  have hok : (quadGet .morethuente cfg f0 g0 h t0).ok = true := by rw [e3]; exact r1
  have hcond := morethuente_success_conditions cfg (fun _ => quadLine f0 g0 h) ⟨f0, g0, true⟩ t0 hM0 hok
  refine ⟨hok, by rw [e3]; exact r3, by rw [e3]; exact r2, hcond.1, hcond.2, by rw [e3]; omega, fun hng => ?_⟩
  have := hlen1 (by rw [absv_eq_abs]; exact not_lt.mpr hng)
  rw [e3]; omega

/-- the hypotheses of `morethuente_succeeds_on_quadratic` are satisfiable: `φ(t) = -t + t²/6` (`t* = 3`), `t0 = 1/10` (undershoots:
    `(1 - c2) t* = 2.7`), `k = 3`, `B = 12`, a configuration whose `cubic` is the secant formula (exact on quadratics) -/
example : CubicExact { witnessCfg with cubic := fun u v => secant u v } (1 / 3 : ℚ) ∧
    tstar (-1 : ℚ) (1 / 3) = 3 ∧ initialStep witnessCfg (1 / 10) = 1 / 10 ∧ witnessCfg.eps0 ≤ witnessCfg.c2 ∧
    stpmin witnessCfg.macheps ≤ 1 ∧ stpmin witnessCfg.macheps ≤ tstar (-1 : ℚ) (1 / 3) ∧
    tstar (-1 : ℚ) (1 / 3) ≤ stpmax witnessCfg.macheps ∧ 4 * tstar (-1 : ℚ) (1 / 3) ≤ 12 ∧ witnessCfg.eps1 ≤ 1 / 3 * 12 * 12 / 4 ∧
    max (initialStep witnessCfg (1 / 10)) (3 * 12) < 2 * (stpmax witnessCfg.macheps - stpmin witnessCfg.macheps) * (66 / 100) ∧
    (1 - witnessCfg.c2) * tstar (-1 : ℚ) (1 / 3) ≤ 4 ^ 3 * initialStep witnessCfg (1 / 10) ∧ 3 + 2 ≤ witnessCfg.maxIter :=
  ⟨fun f0 g0 u v hu hv hne => secant_exact (by norm_num) u v hu hv hne, by decide +kernel⟩

/-- `φ(t) = -t + t²/60` (`t* = 30`): an undershooting first trial (`t0 = 1`, `c2 = 1/10`) -/
def shallowQuadratic (t : ℚ) : Eval ℚ := quadLine 0 (-1) (1 / 30) t

/-- The extrapolation phase of Moré–Thuente, run by the kernel on the model with the real formulas of lstep.cpp: trials `1, 5, 21`
    (`stmax = t + 4 (t - stx)`), then `t* = 30 < stmin = 21 + 1.1·16 = 38.6`: the safeguard OVERSHOOTS the minimiser to `38.6`, not
    acceptable (`(1 + c2) t* = 33`); stage 2, `dcstep` case 2 brackets `[21, 38.6]`, the secant/cubic step is `t* = 30`, accepted.
    (`k = 2`: `4² · 1 ≥ 0.9 · 30` fails, `k = 3` — the theorem's count is an upper bound: here `do_get` makes 4 evaluations.)
    Replayed on the real code: corpus/C07 section 10. -/
theorem morethuente_undershoot_run :
    (get .morethuente realCfg (fun _ => shallowQuadratic) (shallowQuadratic 0) 1).ok = true ∧
    (get .morethuente realCfg (fun _ => shallowQuadratic) (shallowQuadratic 0) 1).t = 30 ∧
    (get .morethuente realCfg (fun _ => shallowQuadratic) (shallowQuadratic 0) 1).ctx.trace = [30, 193 / 5, 21, 5, 1] := by
  decide +kernel

/-- The hypothesis `t* ≤ stpmax()` of `morethuente_succeeds_on_quadratic` cannot be dropped: `φ(t) = -t + t²/400` has `t* = 200 > stpmax() =
    100` (`macheps = 1/1000`); the extrapolation `1, 5, 21, 85` is then clamped to `stpmax()`, where the third give-up test fires (Armijo
    holds, the slope is still below `c1 φ'(0)`): an honest failure. (For `t* < stpmin()`: `morethuente_at_stpmin_pre3b214f8_and_now`; for
    `c1 > 1/2`: `quadratic_minimizer_accepted_iff`. In binary64 `stpmax() = 4.5e14`: outside the statement's quantifier.) -/
theorem morethuente_fails_beyond_stpmax :
    tstar (-1 : ℚ) (1 / 200) = 200 ∧ stpmax realCfg.macheps = 100 ∧
    (get .morethuente realCfg (fun _ => quadLine 0 (-1) (1 / 200)) ⟨0, -1, true⟩ 1).ok = false ∧
    (get .morethuente realCfg (fun _ => quadLine 0 (-1) (1 / 200)) ⟨0, -1, true⟩ 1).ctx.trace = [100, 85, 21, 5, 1] := by
  decide +kernel

/-- CG_DESCENT on a convex quadratic, EVERY `t0` (full statement, no `_partial`): with `t1 = initialStep(t0) > stpmin()`, any
    `K < max_iterations` with `ro^K · t1 ≥ t*` (the bracketing phase multiplies the step by `ro` at most `K` times), `1 < ro`,
    `stpmin()·ro < (ro - 1)·t*` (the bracket `[t/ro, t] ∋ t*` is wider than `stpmin()`), `c1 ≤ 1/2`, `0 ≤ c2`, `0 ≤ epsilon`,
    `isfinite(t*)`: the search succeeds at a positive step with Wolfe or approximate Wolfe, the state being the evaluation there.
    (`bracket` stops at the first step `≥ t*`; unless that step is accepted, the first secant step of the loop is exactly `t*`.) -/
theorem cgdescent_succeeds_on_quadratic (cfg : Cfg α) (f0 g0 h t0 : α) (K : Nat) (hg : g0 < 0) (hh : 0 < h)
    (he : 0 < cfg.macheps) (hK : K < cfg.maxIter) (hKt : tstar g0 h ≤ cfg.cgRo ^ K * initialStep cfg t0)
    (hro : 1 < cfg.cgRo) (heps : 0 ≤ cfg.cgEpsilon) (hw : stpmin cfg.macheps * cfg.cgRo < (cfg.cgRo - 1) * tstar g0 h)
    (hw0 : stpmin cfg.macheps < initialStep cfg t0) (hc1 : cfg.c1 ≤ 1 / 2) (hc2 : 0 ≤ cfg.c2)
    (hfin : cfg.fin (tstar g0 h) = true) :
    (quadGet .cgdescent cfg f0 g0 h t0).ok = true ∧ 0 < (quadGet .cgdescent cfg f0 g0 h t0).t ∧
    (quadGet .cgdescent cfg f0 g0 h t0).ctx.cur = quadLine f0 g0 h (quadGet .cgdescent cfg f0 g0 h t0).t ∧
    (CgWolfe cfg ⟨f0, g0, true⟩ (quadGet .cgdescent cfg f0 g0 h t0) ∨ CgApprox cfg ⟨f0, g0, true⟩ (quadGet .cgdescent cfg f0 g0 h t0)) := by
  obtain ⟨t, ctx, e, hcur, hle, _⟩ := get_line_eq_doGet (quadLine f0 g0 h) (fun _ => rfl) .cgdescent cfg ⟨f0, g0, true⟩ t0
    hg (by omega) he
  have ht0 : 0 < t := lt_of_lt_of_le (initialStep_pos cfg t0 he) hle
  have hkt : tstar g0 h ≤ cfg.cgRo ^ K * t :=
    le_trans hKt (mul_le_mul_of_nonneg_left hle (pow_nonneg (by linarith) K))
  have e3 : quadGet .cgdescent cfg f0 g0 h t0 = cgdescent cfg (fun _ => quadLine f0 g0 h) ⟨f0, g0, true⟩ t ctx := by
    unfold quadGet; rw [e]; rfl
  rw [e3]
  exact cgdescent_quad_succeeds cfg f0 g0 h hg hh t ctx hcur ht0 K hK hkt hro heps hw (lt_of_lt_of_le hw0 hle) hc1 hc2 hfin

/-- CG_DESCENT on a convex quadratic, overshooting first trial (a refinement of the theorem above): if `t1` is not tripled and
    `t* ≤ t1` (non-negative slope at the first trial), `stpmin() < t1`, `c1 ≤ 1/2`, `0 ≤ c2`, `0 ≤ epsilon`, `isfinite(t*)`,
    `max_iterations ≥ 1`: success, either at `t1` itself or — after ONE secant step — at `t*`, with Wolfe or approximate Wolfe. -/
theorem cgdescent_quadratic_overshoot_exact_step (cfg : Cfg α) (f0 g0 h t0 : α) (hg : g0 < 0) (hh : 0 < h)
    (hM : 0 < cfg.maxIter) (hng : cfg.eps1 ≤ |(quadLine f0 g0 h (initialStep cfg t0)).f - f0|)
    (ht : tstar g0 h ≤ initialStep cfg t0) (hw : stpmin cfg.macheps < initialStep cfg t0)
    (hc1 : cfg.c1 ≤ 1 / 2) (hc2 : 0 ≤ cfg.c2) (heps : 0 ≤ cfg.cgEpsilon) (hfin : cfg.fin (tstar g0 h) = true) :
    (quadGet .cgdescent cfg f0 g0 h t0).ok = true ∧
    ((quadGet .cgdescent cfg f0 g0 h t0).t = initialStep cfg t0 ∨ (quadGet .cgdescent cfg f0 g0 h t0).t = tstar g0 h) ∧
    (quadGet .cgdescent cfg f0 g0 h t0).ctx.cur = quadLine f0 g0 h (quadGet .cgdescent cfg f0 g0 h t0).t ∧
    (CgWolfe cfg ⟨f0, g0, true⟩ (quadGet .cgdescent cfg f0 g0 h t0) ∨ CgApprox cfg ⟨f0, g0, true⟩ (quadGet .cgdescent cfg f0 g0 h t0)) := by
  have e := get_line_nogrow (quadLine f0 g0 h) (fun _ => rfl) .cgdescent cfg ⟨f0, g0, true⟩ t0 hg hM
    (by rw [absv_eq_abs]; exact not_lt.mpr hng)
  have e2 := cgdescent_quad_overshoot cfg f0 g0 h hg hh (initialStep cfg t0)
    ⟨quadLine f0 g0 h (initialStep cfg t0), [initialStep cfg t0]⟩ rfl ht hc1 hc2 heps hfin hM hw
  have e3 : quadGet .cgdescent cfg f0 g0 h t0 = cgdescent cfg (fun _ => quadLine f0 g0 h) ⟨f0, g0, true⟩ (initialStep cfg t0)
      ⟨quadLine f0 g0 h (initialStep cfg t0), [initialStep cfg t0]⟩ := by
    unfold quadGet; rw [e]; rfl
  rw [e3]; exact e2

/-- non-vacuity of the section over ℚ (`realCfg`: `macheps = 1/1000`, `safeguard = 1/10`, `tau2 = 1/10`, `tau3 = 1/2`, the real
    interpolation formulas; `φ(t) = -t + 2t²`, i.e. `f0 = 0, g0 = -1, h = 4, t* = 1/4`, `t0 = 1 = t1`): the numeric hypotheses of
    the five theorems hold (`k = 40`, `B = 4` for backtracking) … -/
example : tstar (-1 : ℚ) 4 = 1 / 4 ∧ initialStep realCfg 1 = 1 ∧
    (1 - realCfg.safeguard) ^ 40 * max (initialStep realCfg 1) (3 * 4) ≤ 2 * (1 - realCfg.c1) * tstar (-1 : ℚ) 4 ∧
    4 * tstar (-1 : ℚ) 4 ≤ 4 ∧ realCfg.eps1 ≤ 4 * 4 * 4 / 4 ∧
    realCfg.eps1 ≤ |(quadLine (0 : ℚ) (-1) 4 (initialStep realCfg 1)).f - 0| ∧
    2 * (1 - realCfg.c1) * tstar (-1 : ℚ) 4 < initialStep realCfg 1 ∧
    realCfg.safeguard * initialStep realCfg 1 ≤ tstar (-1 : ℚ) 4 ∧
    tstar (-1 : ℚ) 4 ≤ (1 - realCfg.safeguard) * initialStep realCfg 1 ∧
    min realCfg.tau2 realCfg.c2 * initialStep realCfg 1 ≤ tstar (-1 : ℚ) 4 ∧
    tstar (-1 : ℚ) 4 ≤ (1 - realCfg.tau3) * initialStep realCfg 1 ∧
    stpmin realCfg.macheps ≤ tstar (-1 : ℚ) 4 ∧ tstar (-1 : ℚ) 4 ≤ stpmax realCfg.macheps ∧
    initialStep realCfg 1 < 2 * (stpmax realCfg.macheps - stpmin realCfg.macheps) * (66 / 100) := by
  decide +kernel

/-- … and the model runs end where the theorems say: backtracking after shrinking, the four others at `t* = 1/4` -/
example : (quadGet .backtrack realCfg 0 (-1) 4 1).ok = true ∧ (quadGet .backtrack realCfg 0 (-1) 4 1).t = 1 / 4 ∧
    (quadGet .lemarechal realCfg 0 (-1) 4 1).ok = true ∧ (quadGet .lemarechal realCfg 0 (-1) 4 1).t = 1 / 4 ∧
    (quadGet .fletcher realCfg 0 (-1) 4 1).ok = true ∧ (quadGet .fletcher realCfg 0 (-1) 4 1).t = 1 / 4 ∧
    (quadGet .morethuente realCfg 0 (-1) 4 1).ok = true ∧ (quadGet .morethuente realCfg 0 (-1) 4 1).t = 1 / 4 ∧
    (quadGet .cgdescent realCfg 0 (-1) 4 1).ok = true ∧ (quadGet .cgdescent realCfg 0 (-1) 4 1).t = 1 / 4 := by
  decide +kernel

/-! ### non-vacuity: the searches do succeed, fail and refuse on concrete inputs (model run over ℚ) -/

/-- `φ(t) = (t - 1)²` along `d`: value, slope `2(t - 1)`, always valid -/
def parabola (t : ℚ) : Eval ℚ := ⟨(t - 1) * (t - 1), 2 * (t - 1), true⟩

example : (get .backtrack witnessCfg (fun _ => parabola) (parabola 0) 1).ok = true ∧
    (get .backtrack witnessCfg (fun _ => parabola) (parabola 0) 1).t = 1 := by decide +kernel
example : (get .lemarechal witnessCfg (fun _ => parabola) (parabola 0) 3).ok = true := by decide +kernel
example : (get .fletcher witnessCfg (fun _ => parabola) (parabola 0) (1 / 4)).ok = true ∧
    0 < (get .fletcher witnessCfg (fun _ => parabola) (parabola 0) (1 / 4)).t := by decide +kernel
/-- a budget of one iteration: LeMaréchal never enters its loop and fails although the first trial is the minimiser -/
example : (get .lemarechal { witnessCfg with maxIter := 1 } (fun _ => parabola) (parabola 0) 1).ok = false := by
  decide +kernel
/-- an ascent direction is refused -/
example : (get .fletcher witnessCfg (fun _ => parabola) ⟨1, 2, true⟩ 1).ok = false := by decide +kernel
/-- an oracle that never returns a valid state: failure after exactly `max_iterations` requests (the guard added to
    `lsearchk_t::get` between its two loops) -/
example : (get .morethuente { witnessCfg with maxIter := 5 } (fun _ _ => ⟨0, 0, false⟩) (parabola 0) 1).ok = false ∧
    (get .morethuente { witnessCfg with maxIter := 5 } (fun _ _ => ⟨0, 0, false⟩) (parabola 0) 1).ctx.trace.length = 5 := by
  decide +kernel

end NanoVerif.LSearch
