import NanoVerif.Proofs.LSearchGet
/-!
  C07 — line-search steps honour the acceptance conditions they advertise: the property theorems.

  Setting (see `Model/LSearch.lean`): `get m cfg φ s0 t0` is the model of `lsearchk_t::get(state, descent, t0)` for the
  method `m`; `s0 = (f(x0), ∇f(x0)·d, valid)` is the state on entry; the line function is the oracle `φ k t` (answer to the
  `k`-th request, made at step `t`); `cfg` carries `(c1, c2)`, `max_iterations`, the per-method parameters, the numeric
  constants, `std::isfinite` and the interpolation formulas. Every theorem below holds

    for every ordered field `α`, every oracle `φ` (even one that answers inconsistently), every interpolation function,
    every `isfinite`, every `(c1, c2)` (the conditions `0 < c1 < c2 < 1` are not even needed), every `t0`,

  and the acceptance conditions are the definitions GENERATED from the C++ text (`Gen/LsPredicates.lean`).
  `0 < max_iterations` is the parameter's domain `[1, 10000]`.

  What is NOT proved here (tested by the oracle of tools/props/c07.py only): finiteness of the step (meaningless over a
  field), success on convex quadratics, positivity of the step for Moré–Thuente (false in the model for an arbitrary
  interpolation function: only `0 ≤ t` is proved, `morethuente_success_step_positive_partial`, and a model witness with
  `t = 0` is given, `morethuente_step_zero_reachable`) and for CG_DESCENT.
-/
namespace NanoVerif.LSearch
open NanoVerif.Gen.LsPredicates

variable {α : Type} [Field α] [LinearOrder α] [IsStrictOrderedRing α]

/-- explicit bound on the number of function evaluations of one `get`, as a function of `max_iterations`:
    `2·M` for the two step-adjusting loops of the preamble plus the method's own loop(s) -/
def evalsBound (m : Method) (M : Nat) : Nat := 2 * M + doGetBound m M

/-! ### refusal of non-descent directions (all five methods) -/

/-- A direction with `g·d ≥ 0` (not `< 0`) is refused: failure, the given step handed back, the state untouched and
    not a single evaluation requested. -/
theorem nondescent_refused (m : Method) (cfg : Cfg α) (φ : Oracle α) (s0 : Eval α) (t0 : α) (h : ¬ s0.g < 0) :
    get m cfg φ s0 t0 = ⟨false, t0, ⟨s0, []⟩⟩ :=
  get_nondescent m cfg φ s0 t0 h

/-! ### the returned state is the evaluation at the returned step (all five methods) -/

/-- On success the last evaluation requested was at the returned step and the returned state is the oracle's answer to
    exactly that request. -/
theorem success_state_is_last_answer (m : Method) (cfg : Cfg α) (φ : Oracle α) (s0 : Eval α) (t0 : α)
    (hM : 0 < cfg.maxIter) (h : (get m cfg φ s0 t0).ok = true) :
    ∃ rest, (get m cfg φ s0 t0).ctx.trace = (get m cfg φ s0 t0).t :: rest ∧
      (get m cfg φ s0 t0).ctx.cur = φ rest.length (get m cfg φ s0 t0).t :=
  ((get_spec m cfg φ s0 t0 hM).2 h).2

/-- For a line function `ψ` (an oracle that does not look at the request index): on success the returned state is `ψ` at
    the returned step, i.e. the evaluation of the objective at `x0 + t·d`. -/
theorem success_state_is_eval (m : Method) (cfg : Cfg α) (ψ : α → Eval α) (s0 : Eval α) (t0 : α)
    (hM : 0 < cfg.maxIter) (h : (get m cfg (fun _ => ψ) s0 t0).ok = true) :
    (get m cfg (fun _ => ψ) s0 t0).ctx.cur = ψ (get m cfg (fun _ => ψ) s0 t0).t := by
  obtain ⟨rest, _, h2⟩ := success_state_is_last_answer m cfg (fun _ => ψ) s0 t0 hM h
  exact h2

/-- Backtracking additionally only ever returns a valid state. -/
theorem backtrack_success_state_is_eval (cfg : Cfg α) (ψ : α → Eval α) (s0 : Eval α) (t0 : α)
    (hM : 0 < cfg.maxIter) (h : (get .backtrack cfg (fun _ => ψ) s0 t0).ok = true) :
    (get .backtrack cfg (fun _ => ψ) s0 t0).ctx.cur = ψ (get .backtrack cfg (fun _ => ψ) s0 t0).t ∧
    (get .backtrack cfg (fun _ => ψ) s0 t0).ctx.cur.ok = true :=
  ⟨success_state_is_eval .backtrack cfg ψ s0 t0 hM h, ((get_spec .backtrack cfg _ s0 t0 hM).2 h).1.2⟩

/-! ### success ⇒ the advertised conditions, evaluated on the returned state and the returned step -/

/-- backtracking: Armijo -/
theorem backtrack_success_armijo (cfg : Cfg α) (φ : Oracle α) (s0 : Eval α) (t0 : α) (hM : 0 < cfg.maxIter)
    (h : (get .backtrack cfg φ s0 t0).ok = true) :
    hasArmijo s0.f s0.g (get .backtrack cfg φ s0 t0).ctx.cur.f (get .backtrack cfg φ s0 t0).t cfg.c1 = true :=
  ((get_spec .backtrack cfg φ s0 t0 hM).2 h).1.1

/-- LeMaréchal: Armijo and Wolfe -/
theorem lemarechal_success_armijo_wolfe (cfg : Cfg α) (φ : Oracle α) (s0 : Eval α) (t0 : α) (hM : 0 < cfg.maxIter)
    (h : (get .lemarechal cfg φ s0 t0).ok = true) :
    hasArmijo s0.f s0.g (get .lemarechal cfg φ s0 t0).ctx.cur.f (get .lemarechal cfg φ s0 t0).t cfg.c1 = true ∧
    hasWolfe s0.g (get .lemarechal cfg φ s0 t0).ctx.cur.g cfg.c2 = true :=
  ((get_spec .lemarechal cfg φ s0 t0 hM).2 h).1

/-- Fletcher (bracketing and zoom phases): Armijo and strong Wolfe -/
theorem fletcher_success_armijo_strong_wolfe (cfg : Cfg α) (φ : Oracle α) (s0 : Eval α) (t0 : α) (hM : 0 < cfg.maxIter)
    (h : (get .fletcher cfg φ s0 t0).ok = true) :
    hasArmijo s0.f s0.g (get .fletcher cfg φ s0 t0).ctx.cur.f (get .fletcher cfg φ s0 t0).t cfg.c1 = true ∧
    hasStrongWolfe s0.g (get .fletcher cfg φ s0 t0).ctx.cur.g cfg.c2 = true :=
  ((get_spec .fletcher cfg φ s0 t0 hM).2 h).1

/-- The generated predicates mean what the statement says (so the three theorems above are about the textbook
    conditions as long as the C++ text says so): Armijo `f ≤ f0 + t·c1·g0`, Wolfe `g ≥ c2·g0`, strong Wolfe `|g| ≤ c2·|g0|`. -/
theorem generated_predicates_meaning (f0 dg0 f dg t c1 c2 : α) :
    (hasArmijo f0 dg0 f t c1 = true ↔ f ≤ f0 + t * c1 * dg0) ∧
    (hasWolfe dg0 dg c2 = true ↔ c2 * dg0 ≤ dg) ∧
    (hasStrongWolfe dg0 dg c2 = true ↔ |dg| ≤ c2 * |dg0|) := by
  refine ⟨by simp [hasArmijo], by simp [hasWolfe], ?_⟩
  simp [hasStrongWolfe, absv_eq_abs]

/-! ### the accepted step is positive (backtracking, LeMaréchal, Fletcher) -/

/-- parameter domains used by the positivity proofs (all implied by the domains registered in the constructors:
    `0 < safeguard < 0.5`, `2 < tau1`, `0 < tau2 < tau3 ≤ 0.5`, `0 < c2`; `macheps`, `epsilon0` are positive constants) -/
structure PosDomain (cfg : Cfg α) : Prop where
  macheps : 0 < cfg.macheps
  eps0 : 0 ≤ cfg.eps0
  safeguard0 : 0 < cfg.safeguard
  safeguard1 : cfg.safeguard < 1
  tau1 : 0 < cfg.tau1
  tau2 : 0 < cfg.tau2
  tau3 : cfg.tau3 < 1
  c2 : 0 < cfg.c2

/-- For every initial step `t0` (of any sign; "non-finite" = `cfg.fin t0 = false`) the step accepted by backtracking,
    LeMaréchal or Fletcher is strictly positive. -/
theorem success_step_positive (m : Method) (hm : m = .backtrack ∨ m = .lemarechal ∨ m = .fletcher) (cfg : Cfg α)
    (φ : Oracle α) (s0 : Eval α) (t0 : α) (hd : PosDomain cfg) (h : (get m cfg φ s0 t0).ok = true) :
    0 < (get m cfg φ s0 t0).t := by
  refine get_pos m cfg φ s0 t0 hd.macheps ?_ h
  intro t ctx ht hok
  rcases hm with rfl | rfl | rfl
  · exact backtrack_pos cfg φ s0 hd.safeguard0 hd.safeguard1 _ t ctx ht
  · exact lemarechal_pos cfg φ s0 hd.safeguard0 hd.safeguard1 hd.tau1 _ _ _ t ctx (le_refl _) (le_refl _) ht
  · exact fletcher_pos cfg φ s0 hd.tau1 hd.tau2 hd.c2 hd.tau3 hd.eps0 _ _ _ t ctx (le_refl _) ht rfl hok

/-! ### evaluations per call (all five methods; used by C02) -/

/-- One call of `get` requests at most `evalsBound m max_iterations` evaluations, whatever the oracle answers:
    `3M` (backtracking, Moré–Thuente), `3M - 1` (LeMaréchal), `4M - 1` (Fletcher), `9M + 1` (CG_DESCENT). -/
theorem evals_per_get_le (m : Method) (cfg : Cfg α) (φ : Oracle α) (s0 : Eval α) (t0 : α) (hM : 0 < cfg.maxIter) :
    (get m cfg φ s0 t0).ctx.trace.length ≤ evalsBound m cfg.maxIter :=
  (get_spec m cfg φ s0 t0 hM).1

/-- the bound at the default `max_iterations = 128` -/
theorem evalsBound_default :
    evalsBound .backtrack 128 = 384 ∧ evalsBound .lemarechal 128 = 383 ∧ evalsBound .fletcher 128 = 511 ∧
    evalsBound .morethuente 128 = 384 ∧ evalsBound .cgdescent 128 = 1153 := by decide

/-! ### Moré–Thuente: positivity is only partial

  Full statement (NOT proved, and false in the model when the interpolation function is arbitrary):
    `(get .morethuente cfg φ s0 t0).ok = true → 0 < (get .morethuente cfg φ s0 t0).t`.
  Proved: `0 ≤ t` (`morethuente_success_step_positive_partial`).
  Missing case `t = 0`: after a bracketing step (`f(stp) > f(stx)`, `stx = 0`) whose interpolated step falls outside
  `(stmin, stmax)` the code sets `stp = stx = 0` (morethuente.cpp:266-269), evaluates at `t = 0` and returns `{true, 0}`
  from the "no further progress" exit in the next iteration. `morethuente_step_zero_reachable` exhibits this in the model
  over ℚ with a cubic-interpolation function that answers `10`; with the real cubic formula the interpolated step lies
  strictly inside the bracket in exact arithmetic, and the oracle of tools/props/c07.py never observed `t ≤ 0` on the
  implementation. -/

/-- Moré–Thuente never accepts a negative step (every trial step is `stx`, which is `0` or an earlier trial step, or a
    value clamped to `[stpmin(), stpmax()]`). -/
theorem morethuente_success_step_positive_partial (cfg : Cfg α) (φ : Oracle α) (s0 : Eval α) (t0 : α)
    (he : 0 < cfg.macheps) (h : (get .morethuente cfg φ s0 t0).ok = true) : 0 ≤ (get .morethuente cfg φ s0 t0).t := by
  refine get_step_prop (fun x => 0 ≤ x) .morethuente cfg φ s0 t0 he ?_ h
  intro t ctx ht _
  exact morethuente_nonneg cfg φ s0 he _ (morethuenteInit cfg s0 t) ctx (by simp [morethuenteInit])
    (by simpa [morethuenteInit] using le_of_lt ht)

def witnessCfg : Cfg ℚ :=
  { c1 := 1 / 10000, c2 := 1 / 10, maxIter := 128, fin := fun _ => true, interp := fun u v => (u.t + v.t) / 2,
    cubic := fun _ _ => 10, eps0 := 1 / 10 ^ 15, eps1 := 1 / 10 ^ 10, macheps := 1 / 1000, safeguard := 1 / 10, tau1 := 9,
    tau2 := 1 / 10, tau3 := 1 / 2, delta := 66 / 100, cgEpsilon := 1 / 10 ^ 6, cgTheta := 1 / 2, cgGamma := 66 / 100,
    cgRo := 5 }

/-- `φ(t) = t²`-like line function: value `t·t - t`… only three points matter: `φ(0) = (0, -1)`, `φ(1) = (1, 1)` -/
def witnessPsi (t : ℚ) : Eval ℚ := if t = 0 then ⟨0, -1, true⟩ else ⟨1, 1, true⟩

/-- Moré–Thuente reports success with `t = 0` in the model (arbitrary cubic interpolation): positivity of the accepted
    step cannot be proved for it without a contract on the interpolation. -/
theorem morethuente_step_zero_reachable :
    (get .morethuente witnessCfg (fun _ => witnessPsi) ⟨0, -1, true⟩ 1).ok = true ∧
    (get .morethuente witnessCfg (fun _ => witnessPsi) ⟨0, -1, true⟩ 1).t = 0 := by
  decide +kernel

/-! ### non-vacuity: the searches do succeed, fail and refuse on concrete inputs (model run over ℚ) -/

/-- `φ(t) = (t - 1)²` along `d`: value, slope `2(t - 1)`, always valid -/
def parabola (t : ℚ) : Eval ℚ := ⟨(t - 1) * (t - 1), 2 * (t - 1), true⟩

example : (get .backtrack witnessCfg (fun _ => parabola) (parabola 0) 1).ok = true ∧
    (get .backtrack witnessCfg (fun _ => parabola) (parabola 0) 1).t = 1 := by decide +kernel
example : (get .lemarechal witnessCfg (fun _ => parabola) (parabola 0) 3).ok = true := by decide +kernel
example : (get .fletcher witnessCfg (fun _ => parabola) (parabola 0) (1 / 4)).ok = true ∧
    0 < (get .fletcher witnessCfg (fun _ => parabola) (parabola 0) (1 / 4)).t := by decide +kernel
/-- a budget of one iteration: LeMaréchal never enters its loop and fails although the first trial is the minimiser -/
example : (get .lemarechal { witnessCfg with maxIter := 1 } (fun _ => parabola) (parabola 0) 1).ok = false := by
  decide +kernel
/-- an ascent direction is refused -/
example : (get .fletcher witnessCfg (fun _ => parabola) ⟨1, 2, true⟩ 1).ok = false := by decide +kernel
/-- an oracle that never returns a valid state: failure after exactly `max_iterations` requests (the guard added to
    `lsearchk_t::get` between its two loops) -/
example : (get .morethuente { witnessCfg with maxIter := 5 } (fun _ _ => ⟨0, 0, false⟩) (parabola 0) 1).ok = false ∧
    (get .morethuente { witnessCfg with maxIter := 5 } (fun _ _ => ⟨0, 0, false⟩) (parabola 0) 1).ctx.trace.length = 5 := by
  decide +kernel

end NanoVerif.LSearch
