import NanoVerif.Proofs.SolverSkeleton
import NanoVerif.Proofs.SolverAlgebra
/-!
  C02 — every solver returns an honest, self-consistent result within bounded budget: the property theorems about the
  shared skeleton (`solver_t::done`, the loop of the line-search solvers, `update_if_better` / `value_test`, the generic
  non-monotonic loop, the call counters).

  The 35+3 solver bodies are NOT modelled one by one: what each of them hands to `update_if_better` / `done` is the
  hypothesis of the theorems about `nmLoop` (`hstep`) and is monitored at run time against the wrapper's evaluation log.
  Termination of the bodies and the numerical value of the per-iteration evaluation bound `K` are observed, not proved.
-/
namespace NanoVerif.Solver
open NanoVerif.Gen.DoneLogic
set_option linter.unusedSectionVars false

section generic
variable {α : Type} [Add α] [Sub α] [Mul α] [Div α] [Neg α] [LT α] [LE α] [DecidableLT α] [DecidableLE α] [∀ n, OfNat α n]

/-- `solver_t::done`, as generated from the source: stops iff `converged || !(iter_ok && valid)`; `converged` wins over
    `failed`; a call that does not stop leaves the status alone and certifies a valid state and an ok step; it never
    touches the point, the value or the gradient. -/
theorem done_decision (env : Env α) (s : State α) (iterOk conv : Bool) :
    ((done env s iterOk conv).2 = true ↔ (conv = true ∨ ¬ (iterOk = true ∧ valid env s = true))) ∧
    ((done env s iterOk conv).2 = true →
      (done env s iterOk conv).1.status = (if conv then Status.converged else Status.failed)) ∧
    ((done env s iterOk conv).2 = false →
      (done env s iterOk conv).1.status = s.status ∧ iterOk = true ∧ valid env s = true ∧ conv = false) ∧
    (done env s iterOk conv).1.x = s.x ∧ (done env s iterOk conv).1.fx = s.fx ∧ (done env s iterOk conv).1.gx = s.gx :=
  ⟨(done_spec env s iterOk conv).1, (done_spec env s iterOk conv).2.1, (done_spec env s iterOk conv).2.2, rfl, rfl, rfl⟩

/-- line-search family (gd, 10 cgd, lbfgs, 5 quasi-Newton = any `rule`): for every objective and every line search within
    the contract, the returned `(x, fx, gx)` is an evaluation of `f` -/
theorem ls_solver_consistent {M : Type} (env : Env α) (rule : Rule α M) (ls : Ls α) (f : Objective α)
    (hls : LsContract f ls) (eps : α) (maxEvals fuel : Nat) (x0 : Vec α) :
    let r := lsMinimize env rule ls f eps maxEvals fuel x0
    r.fx = (f r.x).1 ∧ r.gx = (f r.x).2 := by
  intro r
  have h := lsRun_good env f rule ls hls eps maxEvals fuel (initState f x0) (initState_consistent f x0)
    (initState_status f x0)
  exact ⟨h.cons.1, h.cons.2⟩

/-- … and its status is `max_iters`, `converged` or `failed` (for any line search that leaves the status alone) -/
theorem ls_status_trichotomy {M : Type} (env : Env α) (rule : Rule α M) (ls : Ls α) (f : Objective α)
    (hst : ∀ k s d, (ls k s d).1.status = s.status) (eps : α) (maxEvals fuel : Nat) (x0 : Vec α) :
    let r := lsMinimize env rule ls f eps maxEvals fuel x0
    r.status = Status.max_iters ∨ r.status = Status.converged ∨ r.status = Status.failed :=
  lsRun_tri env rule ls hst eps maxEvals fuel (initState f x0) (Or.inl rfl)

/-- `return cstate.valid() ? cstate : pstate` (cgd.cpp, lbfgs.cpp, quasi.cpp — the three generated return rules are the
    identity on the validity flag): when the start is not already a stopping point, what is returned is a valid state,
    for ANY line search, direction rule and objective -/
theorem ls_result_valid (env : Env α) (ls : Ls α) (eps : α) (maxEvals fuel : Nat) (c0 : State α) :
    (∀ (kind : CgdKind) (eta orthotest : α),
      (done env c0 true (cgdConvergedInit (gradientTestS c0) eps)).2 = false →
      valid env (lsRun env (cgdRule env kind eta orthotest) ls eps maxEvals fuel c0).1 = true) ∧
    (∀ history : Nat,
      (done env c0 true (lbfgsConvergedInit (gradientTestS c0) eps)).2 = false →
      valid env (lsRun env (lbfgsRule history) ls eps maxEvals fuel c0).1 = true) ∧
    (∀ (kind : QuasiKind) (r : α) (scaled : Bool) (n : Nat),
      (done env c0 true (quasiConvergedInit (gradientTestS c0) eps)).2 = false →
      valid env (lsRun env (quasiRule env kind r scaled n) ls eps maxEvals fuel c0).1 = true) := by
  refine ⟨fun kind eta orthotest h => ?_, fun history h => ?_, fun kind r scaled n h => ?_⟩
  · exact lsRun_valid env (cgdRule env kind eta orthotest) ls eps maxEvals fuel c0
      (fun b => by cases b <;> rfl) h
  · exact lsRun_valid env (lbfgsRule history) ls eps maxEvals fuel c0 (fun b => by cases b <;> rfl) h
  · exact lsRun_valid env (quasiRule env kind r scaled n) ls eps maxEvals fuel c0 (fun b => by cases b <;> rfl) h

/-- the budget of the line-search family, for EVERY line-search oracle that performs at most `K` evaluations per call
    (`K` is C07's `evals_per_get_le` + the evaluations of `lsearch0`; it is a hypothesis here and measured by the oracle):
    the reported evaluations never reach `max_evals + K` -/
theorem budget_overshoot_le (env : Env α) (ls : Ls α) (f : Objective α) (eps : α) (maxEvals K fuel : Nat) (x0 : Vec α)
    (hK : ∀ k s d, evals (ls k s d).1 ≤ evals s + K) (h0 : 2 < maxEvals + K) :
    (∀ (kind : CgdKind) (eta orthotest : α),
      evals (lsMinimize env (cgdRule env kind eta orthotest) ls f eps maxEvals fuel x0) < maxEvals + K) ∧
    (∀ history : Nat, evals (lsMinimize env (lbfgsRule history) ls f eps maxEvals fuel x0) < maxEvals + K) ∧
    (∀ (kind : QuasiKind) (r : α) (scaled : Bool) (n : Nat),
      evals (lsMinimize env (quasiRule env kind r scaled n) ls f eps maxEvals fuel x0) < maxEvals + K) ∧
    evals (lsMinimize env (gdRule : Rule α Unit) ls f eps maxEvals fuel x0) < maxEvals + K := by
  have key : ∀ {M : Type} (rule : Rule α M), (∀ a b m, rule.guard a b m = true → a + b < m) →
      evals (lsMinimize env rule ls f eps maxEvals fuel x0) < maxEvals + K := by
    intro M rule hguard
    have hi : evals (initState f x0) < maxEvals + K := by
      show (1 : Nat) + 1 < maxEvals + K
      omega
    simp only [lsMinimize, lsRun]
    split
    · exact hi
    · have h := lsLoop_budget env rule ls eps maxEvals K hguard hK fuel 0 rule.init
        (done env (initState f x0) true (rule.convInit (gradientTestS (initState f x0)) eps)).1
        (done env (initState f x0) true (rule.convInit (gradientTestS (initState f x0)) eps)).1 hi hi
      rcases lsResult_cases env rule
        (lsLoop env rule ls eps maxEvals fuel 0 rule.init
          (done env (initState f x0) true (rule.convInit (gradientTestS (initState f x0)) eps)).1
          (done env (initState f x0) true (rule.convInit (gradientTestS (initState f x0)) eps)).1) with hr | hr
      · simp only [hr]; exact h.2
      · simp only [hr]; exact h.1
  refine ⟨fun kind eta orthotest => key _ ?_, fun history => key _ ?_, fun kind r scaled n => key _ ?_, key _ ?_⟩
  · intro a b m h; simpa [cgdRule, cgdGuard] using h
  · intro a b m h; simpa [lbfgsRule, lbfgsGuard] using h
  · intro a b m h; simpa [quasiRule, quasiGuard] using h
  · intro a b m h; simpa [gdRule, gdGuard] using h

/-- best-state tracking: the state a non-monotonic solver returns is one of the triples it handed to `update_if_better`
    or its initial state — stated for every predicate `P` (take `P := "is the initial triple or one of the candidates"`,
    `P := "fx = f(x)"`, …): if the initial state and every candidate satisfy `P`, so does the returned state -/
theorem best_state_is_an_evaluation (env : Env α) (P : Vec α → Vec α → α → Prop)
    (step : Nat → Nat × Nat → BState α → NmStep α) (patience : Nat) (eps : α) (maxEvals fuel : Nat) (b0 : BState α)
    (h0 : P b0.st.x b0.st.gx b0.st.fx) (hstep : ∀ k g b, ∀ c ∈ (step k g b).cands, P c.1 c.2.1 c.2.2) :
    let r := (nmLoop env step patience eps maxEvals fuel 0 b0.st.fcalls b0.st.gcalls b0).1
    P r.st.x r.st.gx r.st.fx :=
  nmLoop_inv env P step patience eps maxEvals hstep fuel 0 _ _ b0 h0

/-- the instance the statement asks for: if every candidate is an evaluation of `f` (value; and gradient when the solver
    passes the gradient of that point), the returned value is `f` at the returned point -/
theorem best_state_value (env : Env α) (f : Objective α) (step : Nat → Nat × Nat → BState α → NmStep α) (patience : Nat)
    (eps : α) (maxEvals fuel : Nat) (b0 : BState α) (h0 : b0.st.fx = (f b0.st.x).1)
    (hstep : ∀ k g b, ∀ c ∈ (step k g b).cands, c.2.2 = (f c.1).1) :
    let r := (nmLoop env step patience eps maxEvals fuel 0 b0.st.fcalls b0.st.gcalls b0).1
    r.st.fx = (f r.st.x).1 :=
  best_state_is_an_evaluation env (fun x _ fx => fx = (f x).1) step patience eps maxEvals fuel b0 h0 hstep

/-- the status of a non-monotonic solver is `max_iters`, `converged` or `failed` -/
theorem nm_status_trichotomy (env : Env α) (step : Nat → Nat × Nat → BState α → NmStep α) (patience : Nat) (eps : α)
    (maxEvals fuel : Nat) (b0 : BState α) (h0 : b0.st.status = Status.initial) :
    let r := (nmLoop env step patience eps maxEvals fuel 0 b0.st.fcalls b0.st.gcalls b0).1
    r.st.status = Status.max_iters ∨ r.st.status = Status.converged ∨ r.st.status = Status.failed :=
  nmLoop_tri env step patience eps maxEvals fuel 0 _ _ b0 (Or.inl h0)

/-- budget of the generic loop: if one iteration performs at most `K` evaluations and `done` reports counters read no
    later than the next loop guard, the reported evaluations never reach `max_evals + K` -/
theorem nm_budget_overshoot_le (env : Env α) (step : Nat → Nat × Nat → BState α → NmStep α) (patience : Nat) (eps : α)
    (maxEvals K fuel : Nat) (b0 : BState α)
    (hK : ∀ k g b, (step k g b).fcalls + (step k g b).gcalls ≤ (step k g b).guardF + (step k g b).guardG ∧
      (step k g b).guardF + (step k g b).guardG ≤ g.1 + g.2 + K)
    (h0 : evals b0.st < maxEvals + K) :
    evals (nmLoop env step patience eps maxEvals fuel 0 b0.st.fcalls b0.st.gcalls b0).1.st < maxEvals + K :=
  nmLoop_budget env step patience eps maxEvals K hK fuel 0 _ _ b0 h0

/-- `value_test(patience)`: 0 ("converged" for every ε > 0) exactly when none of the `patience` most recent
    `update_if_better` calls improved and at least `patience` calls were made; `max(df, dx)` of the most recent
    improvement when one of them did; `numeric_limits::max()` before `patience` calls without any improvement -/
theorem valueTest_spec (env : Env α) (patience : Nat) (b : BState α) :
    ((∀ e ∈ b.hist.take patience, ¬ (e.1 > 0)) → patience ≤ b.hist.length → valueTest env patience b = 0) ∧
    ((∃ e ∈ b.hist.take patience, e.1 > 0) →
      ∃ df dx, (df, dx) ∈ b.hist.take patience ∧ df > 0 ∧ valueTest env patience b = cmax df dx) ∧
    ((∀ e ∈ b.hist, ¬ (e.1 > 0)) → b.hist.length < patience → valueTest env patience b = env.maxv) :=
  valueTest_cases env patience b

/-- the reported counters are copies (`update_calls`) of the function's counters, which only grow (`function_t::vgrad`):
    whenever a state copies them — after any prefix of the evaluations performed — the copies are at most the number of
    value evaluations / gradient evaluations actually performed by the end -/
theorem calls_never_exceed_actual (evs : List Bool) (k : Nat) :
    (updateCalls (countersAfter (evs.take k)).1 (countersAfter (evs.take k)).2).1 ≤ evs.length ∧
    (updateCalls (countersAfter (evs.take k)).1 (countersAfter (evs.take k)).2).2 ≤ evs.count true ∧
    (countersAfter evs).1 = evs.length ∧ (countersAfter evs).2 = evs.count true := by
  have h1 := countersAfter_eq (evs.take k)
  have h2 := countersAfter_eq evs
  refine ⟨?_, ?_, h2.1, h2.2⟩
  · show (countersAfter (evs.take k)).1 ≤ evs.length
    rw [h1.1, List.length_take]; exact Nat.min_le_right _ _
  · show (countersAfter (evs.take k)).2 ≤ evs.count true
    rw [h1.2]
    exact List.Sublist.count_le true (List.take_sublist k evs)

end generic

section field
variable {α : Type} [Field α] [LinearOrder α] [IsStrictOrderedRing α]

/-- `update_if_better` replaces the stored state only on a STRICT decrease of the value (exact arithmetic); then the stored
    triple is exactly the candidate; otherwise the state is untouched -/
theorem update_only_on_strict_decrease (env : Env α) (b : BState α) (x gx : Vec α) (fx : α) :
    ((updateIfBetter env b x gx fx).2 = true →
      fx < b.st.fx ∧ (updateIfBetter env b x gx fx).1.st = { b.st with x := x, fx := fx, gx := gx }) ∧
    ((updateIfBetter env b x gx fx).2 = false → (updateIfBetter env b x gx fx).1.st = b.st) := by
  rcases updateIfBetter_cases env b x gx fx with ⟨h1, h2⟩ | ⟨h1, _, h3, h4⟩
  · exact ⟨fun h => (by rw [h1] at h; cases h), fun _ => h2⟩
  · exact ⟨fun _ => ⟨(uibBetter_iff _ _).mp h3, h4⟩, fun h => (by rw [h1] at h; cases h)⟩

/-- the value a non-monotonic solver returns is never larger than the value at its start, whatever its steps propose -/
theorem best_value_nonincreasing (env : Env α) (step : Nat → Nat × Nat → BState α → NmStep α) (patience : Nat) (eps : α)
    (maxEvals fuel : Nat) (b0 : BState α) :
    (nmLoop env step patience eps maxEvals fuel 0 b0.st.fcalls b0.st.gcalls b0).1.st.fx ≤ b0.st.fx :=
  nmLoop_fx_le env step patience eps maxEvals fuel 0 _ _ b0

end field

/-! ### non-vacuity -/
section examples

def envZ2 : Env Int := ⟨fun _ => true, fun x => x, -1000000, 1000000⟩

/-- a step oracle proposing worse, better, and equal candidates -/
def stepZ : Nat → Nat × Nat → BState Int → NmStep Int := fun k g _ =>
  ⟨[([Int.ofNat k], [0], 10 - Int.ofNat k), ([7], [0], 10)], true, none, g.1 + 1, g.2 + 1, g.1 + 1, g.2 + 1⟩

def b0Z : BState Int := ⟨⟨[100], 9, [1], Status.initial, 1, 1⟩, []⟩

/-- the loop really updates (value 9 → 7 until the budget of 10 evaluations is used up; the candidates with value 10 and 9 are
    refused: no update without a strict decrease) and keeps the candidate's point -/
example : (nmLoop envZ2 stepZ 10 1 10 20 0 1 1 b0Z).1.st.fx = 7 := by decide
example : (nmLoop envZ2 stepZ 10 1 10 20 0 1 1 b0Z).1.st.x = [3] := by decide
example : (nmLoop envZ2 stepZ 10 1 10 20 0 1 1 b0Z).1.st.status = Status.max_iters := by decide
/-- stagnation: with candidates that never improve, `value_test` becomes 0 after `patience` calls and the status is `converged` -/
example : (nmLoop envZ2 (fun _ g _ => ⟨[([7], [0], 10)], true, none, g.1 + 1, g.2 + 1, g.1 + 1, g.2 + 1⟩) 3 1 100 20 0 1 1 b0Z).1.st.status
    = Status.converged := by decide
/-- `value_test` before `patience` calls -/
example : valueTest envZ2 3 ⟨b0Z.st, [(-1, 0)]⟩ = 1000000 := by decide
example : valueTest envZ2 3 ⟨b0Z.st, [(-1, 0), (4, 2), (-3, 1)]⟩ = 4 := by decide
example : valueTest envZ2 2 ⟨b0Z.st, [(-1, 0), (-1, 0), (4, 2)]⟩ = 0 := by decide

end examples

end NanoVerif.Solver
