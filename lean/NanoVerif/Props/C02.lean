import NanoVerif.Proofs.SolverSkeleton
import NanoVerif.Proofs.SolverAlgebra
import NanoVerif.Proofs.SolverNM
/-!
  C02 — every solver returns an honest, self-consistent result within bounded budget: the property theorems about the
  shared skeleton (`solver_t::done`, the loop of the line-search solvers, `update_if_better` / `value_test`, the generic
  non-monotonic loop, the call counters).

  The iteration bodies of sgm, cocob, sda, wda, pgm, dgm, fgm, asga2, asga4, osga (`Model/SolverNM.lean`) are in the model: for them the hypotheses of the skeleton
  theorems (`hstep`, `hK`) are discharged here, for every objective, every parameter value and every start. For the other
  solver bodies what each hands to `update_if_better` / `done` is the hypothesis of the theorems about `nmLoop` (`hstep`) and is
  monitored at run time against the wrapper's evaluation log; termination of the bodies and the numerical value of their
  per-iteration evaluation bound `K` are observed, not proved.
-/
namespace NanoVerif.Solver
open NanoVerif.Gen.DoneLogic
set_option linter.unusedSectionVars false

section generic
variable {α : Type} [Add α] [Sub α] [Mul α] [Div α] [Neg α] [LT α] [LE α] [DecidableLT α] [DecidableLE α] [∀ n, OfNat α n]

/-- `solver_t::done`, as generated from the source: stops iff `converged || !(iter_ok && valid)`; `converged` wins over
    `failed`; a call that does not stop leaves the status alone and certifies a valid state and an ok step; it never
    touches the point, the value or the gradient. -/
theorem done_decision (env : Env α) (s : State α) (iterOk conv : Bool) :
    ((done env s iterOk conv).2 = true ↔ (conv = true ∨ ¬ (iterOk = true ∧ valid env s = true))) ∧
    ((done env s iterOk conv).2 = true →
      (done env s iterOk conv).1.status = (if conv then Status.converged else Status.failed)) ∧
    ((done env s iterOk conv).2 = false →
      (done env s iterOk conv).1.status = s.status ∧ iterOk = true ∧ valid env s = true ∧ conv = false) ∧
    (done env s iterOk conv).1.x = s.x ∧ (done env s iterOk conv).1.fx = s.fx ∧ (done env s iterOk conv).1.gx = s.gx :=
  ⟨(done_spec env s iterOk conv).1, (done_spec env s iterOk conv).2.1, (done_spec env s iterOk conv).2.2, rfl, rfl, rfl⟩

/-- line-search family (gd, 10 cgd, lbfgs, 5 quasi-Newton = any `rule`): for every objective and every line search within
    the contract, the returned `(x, fx, gx)` is an evaluation of `f` -/
theorem ls_solver_consistent {M : Type} (env : Env α) (rule : Rule α M) (ls : Ls α) (f : Objective α)
    (hls : LsContract f ls) (eps : α) (maxEvals fuel : Nat) (x0 : Vec α) :
    let r := lsMinimize env rule ls f eps maxEvals fuel x0
    r.fx = (f r.x).1 ∧ r.gx = (f r.x).2 := by
  intro r
  have h := lsRun_good env f rule ls hls eps maxEvals fuel (initState f x0) (initState_consistent f x0)
    (initState_status f x0)
  exact ⟨h.cons.1, h.cons.2⟩

/-- … and its status is `max_iters`, `converged` or `failed` (for any line search that leaves the status alone) -/
theorem ls_status_trichotomy {M : Type} (env : Env α) (rule : Rule α M) (ls : Ls α) (f : Objective α)
    (hst : ∀ k s d, (ls k s d).1.status = s.status) (eps : α) (maxEvals fuel : Nat) (x0 : Vec α) :
    let r := lsMinimize env rule ls f eps maxEvals fuel x0
    r.status = Status.max_iters ∨ r.status = Status.converged ∨ r.status = Status.failed :=
  lsRun_tri env rule ls hst eps maxEvals fuel (initState f x0) (Or.inl rfl)

/-- `return cstate.valid() ? cstate : pstate` (cgd.cpp, lbfgs.cpp, quasi.cpp — the three generated return rules are the
    identity on the validity flag): when the start is not already a stopping point, what is returned is a valid state,
    for ANY line search, direction rule and objective -/
theorem ls_result_valid (env : Env α) (ls : Ls α) (eps : α) (maxEvals fuel : Nat) (c0 : State α) :
    (∀ (kind : CgdKind) (eta orthotest : α),
      (done env c0 true (cgdConvergedInit (gradientTestS c0) eps)).2 = false →
      valid env (lsRun env (cgdRule env kind eta orthotest) ls eps maxEvals fuel c0).1 = true) ∧
    (∀ history : Nat,
      (done env c0 true (lbfgsConvergedInit (gradientTestS c0) eps)).2 = false →
      valid env (lsRun env (lbfgsRule history) ls eps maxEvals fuel c0).1 = true) ∧
    (∀ (kind : QuasiKind) (r : α) (scaled : Bool) (n : Nat),
      (done env c0 true (quasiConvergedInit (gradientTestS c0) eps)).2 = false →
      valid env (lsRun env (quasiRule env kind r scaled n) ls eps maxEvals fuel c0).1 = true) := by
  refine ⟨fun kind eta orthotest h => ?_, fun history h => ?_, fun kind r scaled n h => ?_⟩
  · exact lsRun_valid env (cgdRule env kind eta orthotest) ls eps maxEvals fuel c0
      (fun b => by cases b <;> rfl) h
  · exact lsRun_valid env (lbfgsRule history) ls eps maxEvals fuel c0 (fun b => by cases b <;> rfl) h
  · exact lsRun_valid env (quasiRule env kind r scaled n) ls eps maxEvals fuel c0 (fun b => by cases b <;> rfl) h

/-- the budget of the line-search family, for EVERY line-search oracle that performs at most `K` evaluations per call
    (`K` is C07's `evals_per_get_le` + the evaluations of `lsearch0`; it is a hypothesis here and measured by the oracle):
    the reported evaluations never reach `max_evals + K` -/
theorem budget_overshoot_le (env : Env α) (ls : Ls α) (f : Objective α) (eps : α) (maxEvals K fuel : Nat) (x0 : Vec α)
    (hK : ∀ k s d, evals (ls k s d).1 ≤ evals s + K) (h0 : 2 < maxEvals + K) :
    (∀ (kind : CgdKind) (eta orthotest : α),
      evals (lsMinimize env (cgdRule env kind eta orthotest) ls f eps maxEvals fuel x0) < maxEvals + K) ∧
    (∀ history : Nat, evals (lsMinimize env (lbfgsRule history) ls f eps maxEvals fuel x0) < maxEvals + K) ∧
    (∀ (kind : QuasiKind) (r : α) (scaled : Bool) (n : Nat),
      evals (lsMinimize env (quasiRule env kind r scaled n) ls f eps maxEvals fuel x0) < maxEvals + K) ∧
    evals (lsMinimize env (gdRule : Rule α Unit) ls f eps maxEvals fuel x0) < maxEvals + K := by
  have key : ∀ {M : Type} (rule : Rule α M), (∀ a b m, rule.guard a b m = true → a + b < m) →
      evals (lsMinimize env rule ls f eps maxEvals fuel x0) < maxEvals + K := by
    intro M rule hguard
    have hi : evals (initState f x0) < maxEvals + K := by
      show (1 : Nat) + 1 < maxEvals + K
      omega
    simp only [lsMinimize, lsRun]
    split
    · exact hi
    · have h := lsLoop_budget env rule ls eps maxEvals K hguard hK fuel 0 rule.init
        (done env (initState f x0) true (rule.convInit (gradientTestS (initState f x0)) eps)).1
        (done env (initState f x0) true (rule.convInit (gradientTestS (initState f x0)) eps)).1 hi hi
      rcases lsResult_cases env rule
        (lsLoop env rule ls eps maxEvals fuel 0 rule.init
          (done env (initState f x0) true (rule.convInit (gradientTestS (initState f x0)) eps)).1
          (done env (initState f x0) true (rule.convInit (gradientTestS (initState f x0)) eps)).1) with hr | hr
      · simp only [hr]; exact h.2
      · simp only [hr]; exact h.1
  refine ⟨fun kind eta orthotest => key _ ?_, fun history => key _ ?_, fun kind r scaled n => key _ ?_, key _ ?_⟩
  · intro a b m h; simpa [cgdRule, cgdGuard] using h
  · intro a b m h; simpa [lbfgsRule, lbfgsGuard] using h
  · intro a b m h; simpa [quasiRule, quasiGuard] using h
  · intro a b m h; simpa [gdRule, gdGuard] using h

/-- best-state tracking: the state a non-monotonic solver returns is one of the triples it handed to `update_if_better`
    or its initial state — stated for every predicate `P` (take `P := "is the initial triple or one of the candidates"`,
    `P := "fx = f(x)"`, …): if the initial state and every candidate satisfy `P`, so does the returned state -/
theorem best_state_is_an_evaluation (env : Env α) (P : Vec α → Vec α → α → Prop)
    (step : Nat → Nat × Nat → BState α → NmStep α) (patience : Nat) (eps : α) (maxEvals fuel : Nat) (b0 : BState α)
    (h0 : P b0.st.x b0.st.gx b0.st.fx) (hstep : ∀ k g b, ∀ c ∈ (step k g b).cands, P c.1 c.2.1 c.2.2) :
    let r := (nmLoop env step patience eps maxEvals fuel 0 b0.st.fcalls b0.st.gcalls b0).1
    P r.st.x r.st.gx r.st.fx :=
  nmLoop_inv env P step patience eps maxEvals hstep fuel 0 _ _ b0 h0

/-- the instance the statement asks for: if every candidate is an evaluation of `f` (value; and gradient when the solver
    passes the gradient of that point), the returned value is `f` at the returned point -/
theorem best_state_value (env : Env α) (f : Objective α) (step : Nat → Nat × Nat → BState α → NmStep α) (patience : Nat)
    (eps : α) (maxEvals fuel : Nat) (b0 : BState α) (h0 : b0.st.fx = (f b0.st.x).1)
    (hstep : ∀ k g b, ∀ c ∈ (step k g b).cands, c.2.2 = (f c.1).1) :
    let r := (nmLoop env step patience eps maxEvals fuel 0 b0.st.fcalls b0.st.gcalls b0).1
    r.st.fx = (f r.st.x).1 :=
  best_state_is_an_evaluation env (fun x _ fx => fx = (f x).1) step patience eps maxEvals fuel b0 h0 hstep

/-- the status of a non-monotonic solver is `max_iters`, `converged` or `failed` -/
theorem nm_status_trichotomy (env : Env α) (step : Nat → Nat × Nat → BState α → NmStep α) (patience : Nat) (eps : α)
    (maxEvals fuel : Nat) (b0 : BState α) (h0 : b0.st.status = Status.initial) :
    let r := (nmLoop env step patience eps maxEvals fuel 0 b0.st.fcalls b0.st.gcalls b0).1
    r.st.status = Status.max_iters ∨ r.st.status = Status.converged ∨ r.st.status = Status.failed :=
  nmLoop_tri env step patience eps maxEvals fuel 0 _ _ b0 (Or.inl h0)

/-- budget of the generic loop: if one iteration performs at most `K` evaluations and `done` reports counters read no
    later than the next loop guard, the reported evaluations never reach `max_evals + K` -/
theorem nm_budget_overshoot_le (env : Env α) (step : Nat → Nat × Nat → BState α → NmStep α) (patience : Nat) (eps : α)
    (maxEvals K fuel : Nat) (b0 : BState α)
    (hK : ∀ k g b, (step k g b).fcalls + (step k g b).gcalls ≤ (step k g b).guardF + (step k g b).guardG ∧
      (step k g b).guardF + (step k g b).guardG ≤ g.1 + g.2 + K)
    (h0 : evals b0.st < maxEvals + K) :
    evals (nmLoop env step patience eps maxEvals fuel 0 b0.st.fcalls b0.st.gcalls b0).1.st < maxEvals + K :=
  nmLoop_budget env step patience eps maxEvals K hK fuel 0 _ _ b0 h0

/-- `value_test(patience)`: 0 ("converged" for every ε > 0) exactly when none of the `patience` most recent
    `update_if_better` calls improved and at least `patience` calls were made; `max(df, dx)` of the most recent
    improvement when one of them did; `numeric_limits::max()` before `patience` calls without any improvement -/
theorem valueTest_spec (env : Env α) (patience : Nat) (b : BState α) :
    ((∀ e ∈ b.hist.take patience, ¬ (e.1 > 0)) → patience ≤ b.hist.length → valueTest env patience b = 0) ∧
    ((∃ e ∈ b.hist.take patience, e.1 > 0) →
      ∃ df dx, (df, dx) ∈ b.hist.take patience ∧ df > 0 ∧ valueTest env patience b = cmax df dx) ∧
    ((∀ e ∈ b.hist, ¬ (e.1 > 0)) → b.hist.length < patience → valueTest env patience b = env.maxv) :=
  valueTest_cases env patience b

/-- the reported counters are copies (`update_calls`) of the function's counters, which only grow (`function_t::vgrad`):
    whenever a state copies them — after any prefix of the evaluations performed — the copies are at most the number of
    value evaluations / gradient evaluations actually performed by the end -/
theorem calls_never_exceed_actual (evs : List Bool) (k : Nat) :
    (updateCalls (countersAfter (evs.take k)).1 (countersAfter (evs.take k)).2).1 ≤ evs.length ∧
    (updateCalls (countersAfter (evs.take k)).1 (countersAfter (evs.take k)).2).2 ≤ evs.count true ∧
    (countersAfter evs).1 = evs.length ∧ (countersAfter evs).2 = evs.count true := by
  have h1 := countersAfter_eq (evs.take k)
  have h2 := countersAfter_eq evs
  refine ⟨?_, ?_, h2.1, h2.2⟩
  · show (countersAfter (evs.take k)).1 ≤ evs.length
    rw [h1.1, List.length_take]; exact Nat.min_le_right _ _
  · show (countersAfter (evs.take k)).2 ≤ evs.count true
    rw [h1.2]
    exact List.Sublist.count_le true (List.take_sublist k evs)

end generic

section field
variable {α : Type} [Field α] [LinearOrder α] [IsStrictOrderedRing α]

/-- `update_if_better` replaces the stored state only on a STRICT decrease of the value (exact arithmetic); then the stored
    triple is exactly the candidate; otherwise the state is untouched -/
theorem update_only_on_strict_decrease (env : Env α) (b : BState α) (x gx : Vec α) (fx : α) :
    ((updateIfBetter env b x gx fx).2 = true →
      fx < b.st.fx ∧ (updateIfBetter env b x gx fx).1.st = { b.st with x := x, fx := fx, gx := gx }) ∧
    ((updateIfBetter env b x gx fx).2 = false → (updateIfBetter env b x gx fx).1.st = b.st) := by
  rcases updateIfBetter_cases env b x gx fx with ⟨h1, h2⟩ | ⟨h1, _, h3, h4⟩
  · exact ⟨fun h => (by rw [h1] at h; cases h), fun _ => h2⟩
  · exact ⟨fun _ => ⟨(uibBetter_iff _ _).mp h3, h4⟩, fun h => (by rw [h1] at h; cases h)⟩

/-- the value a non-monotonic solver returns is never larger than the value at its start, whatever its steps propose -/
theorem best_value_nonincreasing (env : Env α) (step : Nat → Nat × Nat → BState α → NmStep α) (patience : Nat) (eps : α)
    (maxEvals fuel : Nat) (b0 : BState α) :
    (nmLoop env step patience eps maxEvals fuel 0 b0.st.fcalls b0.st.gcalls b0).1.st.fx ≤ b0.st.fx :=
  nmLoop_fx_le env step patience eps maxEvals fuel 0 _ _ b0

end field


/-! ### the modelled non-monotonic bodies (`Model/SolverNM.lean`): the hypotheses of the skeleton theorems discharged

  For every objective `f` (an arbitrary function `Vec α → α × Vec α`), every value of the solver's parameters (no domain
  restriction is needed), every start `x0`, every `epsilon`, `max_evals`, `patience` and any number of iterations (`fuel`). -/
section modelled
variable {α : Type} [Add α] [Sub α] [Mul α] [Div α] [Neg α] [LT α] [LE α] [DecidableLT α] [DecidableLE α] [∀ n, OfNat α n]

/-- sgm (sgm.cpp): every triple handed to `update_if_better` is `(x, ∇f(x), f(x))` at the point `x` the recurrence produced, so the
    returned `(x, gx, fx)` is an evaluation of `f`; one iteration makes exactly one `vgrad(x, g)` (2 evaluations) or none, so the
    reported evaluations stay below `max_evals + 2`; the status is one of the three -/
theorem sgm_honest (env : Env α) (nm : EnvNM α) (f : Objective α) (power : α) (patience : Nat) (eps : α)
    (maxEvals fuel : Nat) (x0 : Vec α) :
    (∀ c m, ∀ cand ∈ (sgmBody env nm (fun _ => f) power c m).cands, cand.2.2 = (f cand.1).1 ∧ cand.2.1 = (f cand.1).2) ∧
    ((sgmMinimize env nm (fun _ => f) power patience eps maxEvals fuel x0).st.fx =
        (f (sgmMinimize env nm (fun _ => f) power patience eps maxEvals fuel x0).st.x).1 ∧
      (sgmMinimize env nm (fun _ => f) power patience eps maxEvals fuel x0).st.gx =
        (f (sgmMinimize env nm (fun _ => f) power patience eps maxEvals fuel x0).st.x).2) ∧
    (1 ≤ maxEvals → evals (sgmMinimize env nm (fun _ => f) power patience eps maxEvals fuel x0).st < maxEvals + 2) ∧
    ((sgmMinimize env nm (fun _ => f) power patience eps maxEvals fuel x0).st.status = Status.max_iters ∨
      (sgmMinimize env nm (fun _ => f) power patience eps maxEvals fuel x0).st.status = Status.converged ∨
      (sgmMinimize env nm (fun _ => f) power patience eps maxEvals fuel x0).st.status = Status.failed) :=
  ⟨sgmBody_cands env nm f power,
   nmMinimize_honest env f _ _ patience eps maxEvals 2 fuel x0 (sgmBody_cands env nm f power)
    (fun c m => (sgmBody_evals env nm _ power c m).1) (Nat.le_refl 2)⟩

/-- sgm reports `converged` only through its two documented tests: `value_test(patience) < epsilon` on the history of the
    returned state, or a gradient with `‖g‖∞ < numeric_limits::epsilon()` at the current iterate of some iteration `k` -/
theorem sgm_converged_only_by_test (env : Env α) (nm : EnvNM α) (F : ObjectiveI α) (power : α) (patience : Nat) (eps : α)
    (maxEvals fuel : Nat) (x0 : Vec α)
    (h : (sgmMinimize env nm F power patience eps maxEvals fuel x0).st.status = Status.converged) :
    valueTest env patience (sgmMinimize env nm F power patience eps maxEvals fuel x0) < eps ∨
    ∃ k, infNorm (memAt (sgmBody env nm F power) (sgmInit F x0) 1 k).1.g < nm.epsMach := by
  obtain ⟨k, hk | ⟨_, hk⟩⟩ := nmMinimize_converged env _ _ patience eps maxEvals fuel _
    (by rw [initBState_status]; decide) h
  · exact Or.inr ⟨k, (sgmBody_evals env nm F power _ _).2.2.1.mp hk⟩
  · exact Or.inl hk

/-- cocob (cocob.cpp): as `sgm_honest`; every iteration makes exactly one `vgrad(x, gx)`: 2 evaluations -/
theorem cocob_honest (env : Env α) (nm : EnvNM α) (f : Objective α) (l0 : α) (patience : Nat) (eps : α)
    (maxEvals fuel : Nat) (x0 : Vec α) :
    (∀ c m, ∀ cand ∈ (cocobBody env nm (fun _ => f) x0 c m).cands, cand.2.2 = (f cand.1).1 ∧ cand.2.1 = (f cand.1).2) ∧
    ((cocobMinimize env nm (fun _ => f) l0 patience eps maxEvals fuel x0).st.fx =
        (f (cocobMinimize env nm (fun _ => f) l0 patience eps maxEvals fuel x0).st.x).1 ∧
      (cocobMinimize env nm (fun _ => f) l0 patience eps maxEvals fuel x0).st.gx =
        (f (cocobMinimize env nm (fun _ => f) l0 patience eps maxEvals fuel x0).st.x).2) ∧
    (1 ≤ maxEvals → evals (cocobMinimize env nm (fun _ => f) l0 patience eps maxEvals fuel x0).st < maxEvals + 2) ∧
    ((cocobMinimize env nm (fun _ => f) l0 patience eps maxEvals fuel x0).st.status = Status.max_iters ∨
      (cocobMinimize env nm (fun _ => f) l0 patience eps maxEvals fuel x0).st.status = Status.converged ∨
      (cocobMinimize env nm (fun _ => f) l0 patience eps maxEvals fuel x0).st.status = Status.failed) :=
  ⟨cocobBody_cands env nm f x0,
   nmMinimize_honest env f _ _ patience eps maxEvals 2 fuel x0 (cocobBody_cands env nm f x0)
    (fun c m => Nat.le_of_eq (cocobBody_evals env nm _ x0 c m).1) (Nat.le_refl 2)⟩

/-- cocob reports `converged` only through `value_test(patience) < epsilon` on the history of the returned state -/
theorem cocob_converged_only_by_test (env : Env α) (nm : EnvNM α) (F : ObjectiveI α) (l0 : α) (patience : Nat) (eps : α)
    (maxEvals fuel : Nat) (x0 : Vec α)
    (h : (cocobMinimize env nm F l0 patience eps maxEvals fuel x0).st.status = Status.converged) :
    valueTest env patience (cocobMinimize env nm F l0 patience eps maxEvals fuel x0) < eps := by
  obtain ⟨k, hk | ⟨_, hk⟩⟩ := nmMinimize_converged env _ _ patience eps maxEvals fuel _
    (by rw [initBState_status]; decide) h
  · rw [(cocobBody_evals env nm F x0 _ _).2.1] at hk; cases hk
  · exact hk

/-- sda and wda (pdsgm.cpp; `wda = false / true`): as `sgm_honest` -/
theorem pdsgm_honest (env : Env α) (nm : EnvNM α) (f : Objective α) (wda : Bool) (D : α) (patience : Nat) (eps : α)
    (maxEvals fuel : Nat) (x0 : Vec α) :
    (∀ c m, ∀ cand ∈ (pdsgmBody env nm (fun _ => f) wda D x0 c m).cands, cand.2.2 = (f cand.1).1 ∧ cand.2.1 = (f cand.1).2) ∧
    ((pdsgmMinimize env nm (fun _ => f) wda D patience eps maxEvals fuel x0).st.fx =
        (f (pdsgmMinimize env nm (fun _ => f) wda D patience eps maxEvals fuel x0).st.x).1 ∧
      (pdsgmMinimize env nm (fun _ => f) wda D patience eps maxEvals fuel x0).st.gx =
        (f (pdsgmMinimize env nm (fun _ => f) wda D patience eps maxEvals fuel x0).st.x).2) ∧
    (1 ≤ maxEvals → evals (pdsgmMinimize env nm (fun _ => f) wda D patience eps maxEvals fuel x0).st < maxEvals + 2) ∧
    ((pdsgmMinimize env nm (fun _ => f) wda D patience eps maxEvals fuel x0).st.status = Status.max_iters ∨
      (pdsgmMinimize env nm (fun _ => f) wda D patience eps maxEvals fuel x0).st.status = Status.converged ∨
      (pdsgmMinimize env nm (fun _ => f) wda D patience eps maxEvals fuel x0).st.status = Status.failed) :=
  ⟨pdsgmBody_cands env nm f wda D x0,
   nmMinimize_honest env f _ _ patience eps maxEvals 2 fuel x0 (pdsgmBody_cands env nm f wda D x0)
    (fun c m => (pdsgmBody_evals env nm _ wda D x0 c m).1) (Nat.le_refl 2)⟩

/-- sda / wda report `converged` only through `value_test(patience) < epsilon` on the history of the returned state, or a
    gradient with `‖g‖∞ < numeric_limits::epsilon()` at the current iterate of some iteration `k` -/
theorem pdsgm_converged_only_by_test (env : Env α) (nm : EnvNM α) (F : ObjectiveI α) (wda : Bool) (D : α) (patience : Nat)
    (eps : α) (maxEvals fuel : Nat) (x0 : Vec α)
    (h : (pdsgmMinimize env nm F wda D patience eps maxEvals fuel x0).st.status = Status.converged) :
    valueTest env patience (pdsgmMinimize env nm F wda D patience eps maxEvals fuel x0) < eps ∨
    ∃ k, infNorm (memAt (pdsgmBody env nm F wda D x0) (pdsgmInit F x0) 1 k).1.gx < nm.epsMach := by
  obtain ⟨k, hk | ⟨_, hk⟩⟩ := nmMinimize_converged env _ _ patience eps maxEvals fuel _
    (by rw [initBState_status]; decide) h
  · exact Or.inr ⟨k, (pdsgmBody_evals env nm F wda D x0 _ _).2.2.1.mp hk⟩
  · exact Or.inl hk

/-- pgm (universal.cpp): only an accepted trial `(xk1, ∇f(xk1), f(xk1))` of the inner line search is handed to `update_if_better`, so the
    returned triple is an evaluation of `f`; one iteration makes at most `lsearch_max_iters` calls `vgrad(xk1, gxk1)`, so the reported
    evaluations stay below `max_evals + 2·lsearch_max_iters` (registered domain of `lsearch_max_iters`: [10, 100]); the status is one
    of the three -/
theorem pgm_honest (env : Env α) (f : Objective α) (l0 : α) (lsmax patience : Nat) (eps : α)
    (maxEvals fuel : Nat) (x0 : Vec α) (hls : 1 ≤ lsmax) :
    (∀ c m, ∀ cand ∈ (pgmBody env (fun _ => f) eps lsmax c m).cands, cand.2.2 = (f cand.1).1 ∧ cand.2.1 = (f cand.1).2) ∧
    ((pgmMinimize env (fun _ => f) l0 lsmax patience eps maxEvals fuel x0).st.fx = (f (pgmMinimize env (fun _ => f) l0 lsmax patience eps maxEvals fuel x0).st.x).1 ∧
      (pgmMinimize env (fun _ => f) l0 lsmax patience eps maxEvals fuel x0).st.gx = (f (pgmMinimize env (fun _ => f) l0 lsmax patience eps maxEvals fuel x0).st.x).2) ∧
    (∀ (F : ObjectiveI α) c m, (pgmBody env F eps lsmax c m).nf + (pgmBody env F eps lsmax c m).ng ≤ 2 * lsmax) ∧
    (1 ≤ maxEvals → evals (pgmMinimize env (fun _ => f) l0 lsmax patience eps maxEvals fuel x0).st < maxEvals + 2 * lsmax) ∧
    ((pgmMinimize env (fun _ => f) l0 lsmax patience eps maxEvals fuel x0).st.status = Status.max_iters ∨
      (pgmMinimize env (fun _ => f) l0 lsmax patience eps maxEvals fuel x0).st.status = Status.converged ∨
      (pgmMinimize env (fun _ => f) l0 lsmax patience eps maxEvals fuel x0).st.status = Status.failed) :=
  ⟨pgmBody_cands env f eps lsmax,
   (nmMinimize_honest env f _ _ patience eps maxEvals (2 * lsmax) fuel x0 (pgmBody_cands env f eps lsmax)
    (fun c m => (pgmBody_evals env _ eps lsmax c m).1) (by omega)).1,
   fun F c m => (pgmBody_evals env F eps lsmax c m).1,
   (nmMinimize_honest env f _ _ patience eps maxEvals (2 * lsmax) fuel x0 (pgmBody_cands env f eps lsmax)
    (fun c m => (pgmBody_evals env _ eps lsmax c m).1) (by omega)).2⟩

/-- pgm reports `converged` only through `value_test(patience) < epsilon` on the history of the returned state (an iteration
    whose line search fails hands `converged = false` to `done`) -/
theorem pgm_converged_only_by_test (env : Env α) (F : ObjectiveI α) (l0 : α) (lsmax patience : Nat) (eps : α)
    (maxEvals fuel : Nat) (x0 : Vec α)
    (h : (pgmMinimize env F l0 lsmax patience eps maxEvals fuel x0).st.status = Status.converged) :
    valueTest env patience (pgmMinimize env F l0 lsmax patience eps maxEvals fuel x0) < eps := by
  obtain ⟨k, hk | ⟨_, hk⟩⟩ := nmMinimize_converged env _ _ patience eps maxEvals fuel _
    (by rw [initBState_status]; decide) h
  · exact absurd hk (pgmBody_evals env F eps lsmax _ _).2
  · exact hk

/-- dgm (universal.cpp): as `pgm_honest`; one trial is `vgrad(xk1, gxk1)` plus, when that value is finite, the value-only `vgrad(yk)`:
    at most `3·lsearch_max_iters` evaluations per iteration -/
theorem dgm_honest (env : Env α) (f : Objective α) (l0 : α) (lsmax patience : Nat) (eps : α)
    (maxEvals fuel : Nat) (x0 : Vec α) (hls : 1 ≤ lsmax) :
    (∀ c m, ∀ cand ∈ (dgmBody env (fun _ => f) eps lsmax c m).cands, cand.2.2 = (f cand.1).1 ∧ cand.2.1 = (f cand.1).2) ∧
    ((dgmMinimize env (fun _ => f) l0 lsmax patience eps maxEvals fuel x0).st.fx = (f (dgmMinimize env (fun _ => f) l0 lsmax patience eps maxEvals fuel x0).st.x).1 ∧
      (dgmMinimize env (fun _ => f) l0 lsmax patience eps maxEvals fuel x0).st.gx = (f (dgmMinimize env (fun _ => f) l0 lsmax patience eps maxEvals fuel x0).st.x).2) ∧
    (∀ (F : ObjectiveI α) c m, (dgmBody env F eps lsmax c m).nf + (dgmBody env F eps lsmax c m).ng ≤ 3 * lsmax) ∧
    (1 ≤ maxEvals → evals (dgmMinimize env (fun _ => f) l0 lsmax patience eps maxEvals fuel x0).st < maxEvals + 3 * lsmax) ∧
    ((dgmMinimize env (fun _ => f) l0 lsmax patience eps maxEvals fuel x0).st.status = Status.max_iters ∨
      (dgmMinimize env (fun _ => f) l0 lsmax patience eps maxEvals fuel x0).st.status = Status.converged ∨
      (dgmMinimize env (fun _ => f) l0 lsmax patience eps maxEvals fuel x0).st.status = Status.failed) :=
  ⟨dgmBody_cands env f eps lsmax,
   (nmMinimize_honest env f _ _ patience eps maxEvals (3 * lsmax) fuel x0 (dgmBody_cands env f eps lsmax)
    (fun c m => (dgmBody_evals env _ eps lsmax c m).1) (by omega)).1,
   fun F c m => (dgmBody_evals env F eps lsmax c m).1,
   (nmMinimize_honest env f _ _ patience eps maxEvals (3 * lsmax) fuel x0 (dgmBody_cands env f eps lsmax)
    (fun c m => (dgmBody_evals env _ eps lsmax c m).1) (by omega)).2⟩

/-- dgm reports `converged` only through `value_test(patience) < epsilon` on the history of the returned state (an iteration
    whose line search fails hands `converged = false` to `done`) -/
theorem dgm_converged_only_by_test (env : Env α) (F : ObjectiveI α) (l0 : α) (lsmax patience : Nat) (eps : α)
    (maxEvals fuel : Nat) (x0 : Vec α)
    (h : (dgmMinimize env F l0 lsmax patience eps maxEvals fuel x0).st.status = Status.converged) :
    valueTest env patience (dgmMinimize env F l0 lsmax patience eps maxEvals fuel x0) < eps := by
  obtain ⟨k, hk | ⟨_, hk⟩⟩ := nmMinimize_converged env _ _ patience eps maxEvals fuel _
    (by rw [initBState_status]; decide) h
  · exact absurd hk (dgmBody_evals env F eps lsmax _ _).2
  · exact hk

/-- fgm (universal.cpp): as `pgm_honest`, the candidate is `(yk1, ∇f(yk1), f(yk1))`; one trial is `vgrad(xk1, gxk1)` and
    `vgrad(yk1, gyk1)`: at most `4·lsearch_max_iters` evaluations per iteration -/
theorem fgm_honest (env : Env α) (f : Objective α) (l0 : α) (lsmax patience : Nat) (eps : α)
    (maxEvals fuel : Nat) (x0 : Vec α) (hls : 1 ≤ lsmax) :
    (∀ c m, ∀ cand ∈ (fgmBody env (fun _ => f) eps lsmax c m).cands, cand.2.2 = (f cand.1).1 ∧ cand.2.1 = (f cand.1).2) ∧
    ((fgmMinimize env (fun _ => f) l0 lsmax patience eps maxEvals fuel x0).st.fx = (f (fgmMinimize env (fun _ => f) l0 lsmax patience eps maxEvals fuel x0).st.x).1 ∧
      (fgmMinimize env (fun _ => f) l0 lsmax patience eps maxEvals fuel x0).st.gx = (f (fgmMinimize env (fun _ => f) l0 lsmax patience eps maxEvals fuel x0).st.x).2) ∧
    (∀ (F : ObjectiveI α) c m, (fgmBody env F eps lsmax c m).nf + (fgmBody env F eps lsmax c m).ng ≤ 4 * lsmax) ∧
    (1 ≤ maxEvals → evals (fgmMinimize env (fun _ => f) l0 lsmax patience eps maxEvals fuel x0).st < maxEvals + 4 * lsmax) ∧
    ((fgmMinimize env (fun _ => f) l0 lsmax patience eps maxEvals fuel x0).st.status = Status.max_iters ∨
      (fgmMinimize env (fun _ => f) l0 lsmax patience eps maxEvals fuel x0).st.status = Status.converged ∨
      (fgmMinimize env (fun _ => f) l0 lsmax patience eps maxEvals fuel x0).st.status = Status.failed) :=
  ⟨fgmBody_cands env f eps lsmax,
   (nmMinimize_honest env f _ _ patience eps maxEvals (4 * lsmax) fuel x0 (fgmBody_cands env f eps lsmax)
    (fun c m => (fgmBody_evals env _ eps lsmax c m).1) (by omega)).1,
   fun F c m => (fgmBody_evals env F eps lsmax c m).1,
   (nmMinimize_honest env f _ _ patience eps maxEvals (4 * lsmax) fuel x0 (fgmBody_cands env f eps lsmax)
    (fun c m => (fgmBody_evals env _ eps lsmax c m).1) (by omega)).2⟩

/-- fgm reports `converged` only through `value_test(patience) < epsilon` on the history of the returned state (an iteration
    whose line search fails hands `converged = false` to `done`) -/
theorem fgm_converged_only_by_test (env : Env α) (F : ObjectiveI α) (l0 : α) (lsmax patience : Nat) (eps : α)
    (maxEvals fuel : Nat) (x0 : Vec α)
    (h : (fgmMinimize env F l0 lsmax patience eps maxEvals fuel x0).st.status = Status.converged) :
    valueTest env patience (fgmMinimize env F l0 lsmax patience eps maxEvals fuel x0) < eps := by
  obtain ⟨k, hk | ⟨_, hk⟩⟩ := nmMinimize_converged env _ _ patience eps maxEvals fuel _
    (by rw [initBState_status]; decide) h
  · exact absurd hk (fgmBody_evals env F eps lsmax _ _).2
  · exact hk

/-- asga2 (asga.cpp): the triple handed to `update_if_better` after the inner loop is `(xk1, ∇f(xk1), f(xk1))` of its last trial
    (`lsearch_max_iters ≥ 1`; registered domain [10, 1000]), so the returned triple is an evaluation of `f`; one trial is `vgrad(yk, gyk)`
    and `vgrad(xk1, gxk1)`: at most `4·lsearch_max_iters` evaluations per iteration; the status is one of the three -/
theorem asga2_honest (env : Env α) (nm : EnvNM α) (f : Objective α) (miu l0 gamma1 gamma2 : α) (lsmax patience : Nat) (eps : α)
    (maxEvals fuel : Nat) (x0 : Vec α) (hls : 1 ≤ lsmax) :
    (∀ c m, ∀ cand ∈ (asga2Body env (fun _ => f) eps miu gamma1 gamma2 lsmax x0 c m).cands,
      cand.2.2 = (f cand.1).1 ∧ cand.2.1 = (f cand.1).2) ∧
    ((asga2Minimize env nm (fun _ => f) miu l0 gamma1 gamma2 lsmax patience eps maxEvals fuel x0).st.fx = (f (asga2Minimize env nm (fun _ => f) miu l0 gamma1 gamma2 lsmax patience eps maxEvals fuel x0).st.x).1 ∧
      (asga2Minimize env nm (fun _ => f) miu l0 gamma1 gamma2 lsmax patience eps maxEvals fuel x0).st.gx = (f (asga2Minimize env nm (fun _ => f) miu l0 gamma1 gamma2 lsmax patience eps maxEvals fuel x0).st.x).2) ∧
    (∀ (F : ObjectiveI α) c m, (asga2Body env F eps miu gamma1 gamma2 lsmax x0 c m).nf +
      (asga2Body env F eps miu gamma1 gamma2 lsmax x0 c m).ng ≤ 4 * lsmax) ∧
    (1 ≤ maxEvals → evals (asga2Minimize env nm (fun _ => f) miu l0 gamma1 gamma2 lsmax patience eps maxEvals fuel x0).st < maxEvals + 4 * lsmax) ∧
    ((asga2Minimize env nm (fun _ => f) miu l0 gamma1 gamma2 lsmax patience eps maxEvals fuel x0).st.status = Status.max_iters ∨
      (asga2Minimize env nm (fun _ => f) miu l0 gamma1 gamma2 lsmax patience eps maxEvals fuel x0).st.status = Status.converged ∨
      (asga2Minimize env nm (fun _ => f) miu l0 gamma1 gamma2 lsmax patience eps maxEvals fuel x0).st.status = Status.failed) := by
  have h := nmMinimize_honest env f (asga2Body env (fun _ => f) eps miu gamma1 gamma2 lsmax x0) (asga2Init env l0 x0) patience eps
    maxEvals (4 * lsmax) fuel x0 (asga2Body_cands env f eps miu gamma1 gamma2 lsmax x0 hls)
    (fun c m => (asga2Body_evals env _ eps miu gamma1 gamma2 lsmax x0 c m).1) (by omega)
  refine ⟨asga2Body_cands env f eps miu gamma1 gamma2 lsmax x0 hls, ?_,
    fun F c m => (asga2Body_evals env F eps miu gamma1 gamma2 lsmax x0 c m).1, ?_, ?_⟩
  · unfold asga2Minimize; split
    · exact initBState_eval f x0
    · exact h.1
  · unfold asga2Minimize; split
    · intro h1; rw [initBState_evals]; omega
    · exact h.2.1
  · unfold asga2Minimize; split
    · exact Or.inl rfl
    · exact h.2.2

/-- asga2 reports `converged` only through `value_test(patience) < epsilon` on the history of the returned state (the early
    `return state` at a stationary start leaves the status `max_iters`) -/
theorem asga2_converged_only_by_test (env : Env α) (nm : EnvNM α) (F : ObjectiveI α) (miu l0 gamma1 gamma2 : α)
    (lsmax patience : Nat) (eps : α) (maxEvals fuel : Nat) (x0 : Vec α)
    (h : (asga2Minimize env nm F miu l0 gamma1 gamma2 lsmax patience eps maxEvals fuel x0).st.status = Status.converged) :
    valueTest env patience (asga2Minimize env nm F miu l0 gamma1 gamma2 lsmax patience eps maxEvals fuel x0) < eps := by
  unfold asga2Minimize at h ⊢
  split at h
  · rw [initBState_status] at h; cases h
  · rename_i hg
    rw [if_neg hg]
    obtain ⟨k, hk | ⟨_, hk⟩⟩ := nmMinimize_converged env _ _ patience eps maxEvals fuel _
      (by rw [initBState_status]; decide) h
    · rw [(asga2Body_evals env F eps miu gamma1 gamma2 lsmax x0 _ _).2] at hk; cases hk
    · exact hk

/-- asga4 (asga.cpp): as `asga2_honest`, the candidate is `(yk1, ∇f(yk1), f(yk1))` -/
theorem asga4_honest (env : Env α) (nm : EnvNM α) (f : Objective α) (miu l0 gamma1 gamma2 : α) (lsmax patience : Nat) (eps : α)
    (maxEvals fuel : Nat) (x0 : Vec α) (hls : 1 ≤ lsmax) :
    (∀ c m, ∀ cand ∈ (asga4Body env (fun _ => f) eps miu gamma1 gamma2 lsmax x0 c m).cands,
      cand.2.2 = (f cand.1).1 ∧ cand.2.1 = (f cand.1).2) ∧
    ((asga4Minimize env nm (fun _ => f) miu l0 gamma1 gamma2 lsmax patience eps maxEvals fuel x0).st.fx = (f (asga4Minimize env nm (fun _ => f) miu l0 gamma1 gamma2 lsmax patience eps maxEvals fuel x0).st.x).1 ∧
      (asga4Minimize env nm (fun _ => f) miu l0 gamma1 gamma2 lsmax patience eps maxEvals fuel x0).st.gx = (f (asga4Minimize env nm (fun _ => f) miu l0 gamma1 gamma2 lsmax patience eps maxEvals fuel x0).st.x).2) ∧
    (∀ (F : ObjectiveI α) c m, (asga4Body env F eps miu gamma1 gamma2 lsmax x0 c m).nf +
      (asga4Body env F eps miu gamma1 gamma2 lsmax x0 c m).ng ≤ 4 * lsmax) ∧
    (1 ≤ maxEvals → evals (asga4Minimize env nm (fun _ => f) miu l0 gamma1 gamma2 lsmax patience eps maxEvals fuel x0).st < maxEvals + 4 * lsmax) ∧
    ((asga4Minimize env nm (fun _ => f) miu l0 gamma1 gamma2 lsmax patience eps maxEvals fuel x0).st.status = Status.max_iters ∨
      (asga4Minimize env nm (fun _ => f) miu l0 gamma1 gamma2 lsmax patience eps maxEvals fuel x0).st.status = Status.converged ∨
      (asga4Minimize env nm (fun _ => f) miu l0 gamma1 gamma2 lsmax patience eps maxEvals fuel x0).st.status = Status.failed) := by
  have h := nmMinimize_honest env f (asga4Body env (fun _ => f) eps miu gamma1 gamma2 lsmax x0) (asga4Init env l0 x0) patience eps
    maxEvals (4 * lsmax) fuel x0 (asga4Body_cands env f eps miu gamma1 gamma2 lsmax x0 hls)
    (fun c m => (asga4Body_evals env _ eps miu gamma1 gamma2 lsmax x0 c m).1) (by omega)
  refine ⟨asga4Body_cands env f eps miu gamma1 gamma2 lsmax x0 hls, ?_,
    fun F c m => (asga4Body_evals env F eps miu gamma1 gamma2 lsmax x0 c m).1, ?_, ?_⟩
  · unfold asga4Minimize; split
    · exact initBState_eval f x0
    · exact h.1
  · unfold asga4Minimize; split
    · intro h1; rw [initBState_evals]; omega
    · exact h.2.1
  · unfold asga4Minimize; split
    · exact Or.inl rfl
    · exact h.2.2

/-- asga4 reports `converged` only through `value_test(patience) < epsilon` on the history of the returned state (the early
    `return state` at a stationary start leaves the status `max_iters`) -/
theorem asga4_converged_only_by_test (env : Env α) (nm : EnvNM α) (F : ObjectiveI α) (miu l0 gamma1 gamma2 : α)
    (lsmax patience : Nat) (eps : α) (maxEvals fuel : Nat) (x0 : Vec α)
    (h : (asga4Minimize env nm F miu l0 gamma1 gamma2 lsmax patience eps maxEvals fuel x0).st.status = Status.converged) :
    valueTest env patience (asga4Minimize env nm F miu l0 gamma1 gamma2 lsmax patience eps maxEvals fuel x0) < eps := by
  unfold asga4Minimize at h ⊢
  split at h
  · rw [initBState_status] at h; cases h
  · rename_i hg
    rw [if_neg hg]
    obtain ⟨k, hk | ⟨_, hk⟩⟩ := nmMinimize_converged env _ _ patience eps maxEvals fuel _
      (by rw [initBState_status]; decide) h
    · rw [(asga4Body_evals env F eps miu gamma1 gamma2 lsmax x0 _ _).2] at hk; cases hk
    · exact hk

/-- osga (osga.cpp): the pair handed to `update_if_better(xb_hat, fb_hat)` is the best of `x`, `x_prime` (both evaluated in this
    iteration) and the previous best `xb` — always a point with ITS value of `f` (the stored gradient stays the one of the start:
    `update_if_better(x, fx)` does not change it); so the returned value is `f` at the returned point and the returned gradient
    is the gradient at `x0`; one iteration is `vgrad(x, g)` and the value-only `vgrad(x_prime)`: 3 evaluations; the status is one
    of the three -/
theorem osga_honest (env : Env α) (nm : EnvNM α) (f : Objective α) (miu lambda alphaMax kappaP kappa : α) (patience : Nat) (eps : α)
    (maxEvals fuel : Nat) (x0 : Vec α) :
    ((osgaMinimize env nm (fun _ => f) miu lambda alphaMax kappaP kappa patience eps maxEvals fuel x0).st.fx = (f (osgaMinimize env nm (fun _ => f) miu lambda alphaMax kappaP kappa patience eps maxEvals fuel x0).st.x).1 ∧
      (osgaMinimize env nm (fun _ => f) miu lambda alphaMax kappaP kappa patience eps maxEvals fuel x0).st.gx = (f x0).2) ∧
    (∀ (F : ObjectiveI α) z0 g0 c m, (osgaBody env nm F eps miu lambda alphaMax kappaP kappa z0 g0 c m).nf +
      (osgaBody env nm F eps miu lambda alphaMax kappaP kappa z0 g0 c m).ng ≤ 3) ∧
    (1 ≤ maxEvals → evals (osgaMinimize env nm (fun _ => f) miu lambda alphaMax kappaP kappa patience eps maxEvals fuel x0).st < maxEvals + 3) ∧
    ((osgaMinimize env nm (fun _ => f) miu lambda alphaMax kappaP kappa patience eps maxEvals fuel x0).st.status = Status.max_iters ∨
      (osgaMinimize env nm (fun _ => f) miu lambda alphaMax kappaP kappa patience eps maxEvals fuel x0).st.status = Status.converged ∨
      (osgaMinimize env nm (fun _ => f) miu lambda alphaMax kappaP kappa patience eps maxEvals fuel x0).st.status = Status.failed) := by
  refine ⟨?_, fun F z0 g0 c m => (osgaBody_evals env nm F eps miu lambda alphaMax kappaP kappa z0 g0 c m).1, fun h1 => ?_, ?_⟩
  · exact nmMinimize_inv_mem env (fun m => m.fb = (f m.xb).1) (fun x gx fx => fx = (f x).1 ∧ gx = (f x0).2) _ _ patience eps
      maxEvals fuel _ ⟨rfl, rfl⟩ rfl
      (fun c m hm => osgaBody_cands env nm f eps miu lambda alphaMax kappaP kappa x0 (f x0).2 c m hm)
  · apply nmMinimize_budget env _ _ patience eps maxEvals 3 fuel _
      (fun c m => (osgaBody_evals env nm _ eps miu lambda alphaMax kappaP kappa x0 _ c m).1)
    rw [initBState_evals]; omega
  · exact nmMinimize_tri env _ _ patience eps maxEvals fuel _ (Or.inl rfl)

/-- osga reports `converged` only through its documented tests: `value_test(patience) < epsilon` on the history of the returned
    state, `eta_hat < epsilon` in some iteration `k`, or a gradient at the start with `‖g‖∞ < epsilon0` -/
theorem osga_converged_only_by_test (env : Env α) (nm : EnvNM α) (F : ObjectiveI α) (miu lambda alphaMax kappaP kappa : α)
    (patience : Nat) (eps : α) (maxEvals fuel : Nat) (x0 : Vec α)
    (h : (osgaMinimize env nm F miu lambda alphaMax kappaP kappa patience eps maxEvals fuel x0).st.status = Status.converged) :
    valueTest env patience (osgaMinimize env nm F miu lambda alphaMax kappaP kappa patience eps maxEvals fuel x0) < eps ∨
    infNorm (F 0 x0).2 < nm.eps0 ∨
    ∃ k, (osgaIter env F miu (osgaQ0 env nm x0) x0
      (memAt (osgaBody env nm F eps miu lambda alphaMax kappaP kappa x0 (F 0 x0).2) (osgaInit env nm F miu alphaMax x0) 1 k).2
      (memAt (osgaBody env nm F eps miu lambda alphaMax kappaP kappa x0 (F 0 x0).2) (osgaInit env nm F miu alphaMax x0) 1 k).1).etaHat
        < eps := by
  obtain ⟨k, hk | ⟨_, hk⟩⟩ := nmMinimize_converged env _ _ patience eps maxEvals fuel _
    (by rw [initBState_status]; decide) h
  · rcases (osgaBody_evals env nm F eps miu lambda alphaMax kappaP kappa x0 _ _ _).2 hk with h1 | h1
    · exact Or.inr (Or.inl h1)
    · exact Or.inr (Or.inr ⟨k, h1⟩)
  · exact Or.inl hk

/-- the loop the driver runs (`nmLoopM`, private variables threaded) IS `nmLoop` with the body in its oracle slot: the
    correspondence runs of the family `solvernm` exercise the very definitions the theorems above are about -/
theorem modelled_loop_is_nmLoop {M : Type} (env : Env α) (body : Body α M) (m0 : M) (patience : Nat) (eps : α)
    (maxEvals fuel : Nat) (b0 : BState α) :
    (nmLoopM env body patience eps maxEvals fuel m0 1 b0.st.fcalls b0.st.gcalls b0).1 =
      nmMinimize env body m0 patience eps maxEvals fuel b0 :=
  (nmLoopM_eq env body m0 1 patience eps maxEvals fuel 0 _ _ b0).1

end modelled

/-! ### non-vacuity -/
section examples

def envZ2 : Env Int := ⟨fun _ => true, fun x => x, -1000000, 1000000⟩

/-- a step oracle proposing worse, better, and equal candidates -/
def stepZ : Nat → Nat × Nat → BState Int → NmStep Int := fun k g _ =>
  ⟨[([Int.ofNat k], [0], 10 - Int.ofNat k), ([7], [0], 10)], true, none, g.1 + 1, g.2 + 1, g.1 + 1, g.2 + 1⟩

def b0Z : BState Int := ⟨⟨[100], 9, [1], Status.initial, 1, 1⟩, []⟩

/-- the loop really updates (value 9 → 7 until the budget of 10 evaluations is used up; the candidates with value 10 and 9 are
    refused: no update without a strict decrease) and keeps the candidate's point -/
example : (nmLoop envZ2 stepZ 10 1 10 20 0 1 1 b0Z).1.st.fx = 7 := by decide
example : (nmLoop envZ2 stepZ 10 1 10 20 0 1 1 b0Z).1.st.x = [3] := by decide
example : (nmLoop envZ2 stepZ 10 1 10 20 0 1 1 b0Z).1.st.status = Status.max_iters := by decide
/-- stagnation: with candidates that never improve, `value_test` becomes 0 after `patience` calls and the status is `converged` -/
example : (nmLoop envZ2 (fun _ g _ => ⟨[([7], [0], 10)], true, none, g.1 + 1, g.2 + 1, g.1 + 1, g.2 + 1⟩) 3 1 100 20 0 1 1 b0Z).1.st.status
    = Status.converged := by decide
/-- `value_test` before `patience` calls -/
example : valueTest envZ2 3 ⟨b0Z.st, [(-1, 0)]⟩ = 1000000 := by decide
example : valueTest envZ2 3 ⟨b0Z.st, [(-1, 0), (4, 2), (-3, 1)]⟩ = 4 := by decide
example : valueTest envZ2 2 ⟨b0Z.st, [(-1, 0), (-1, 0), (4, 2)]⟩ = 0 := by decide

/-! the modelled bodies over `Int` (`sqrt = id`, `pow a _ = a`, `tanh = exp = id`, machine epsilon 1) -/
def nmZ : EnvNM Int := ⟨fun a _ => a, fun x => x, fun x => x, 1, 1, Int.ofNat⟩
/-- `f(x) = x·x`, `∇f(x) = 2x` -/
def fZ : Objective Int := fun x => (vdot x x, x.map (fun v => 2 * v))

/-- sgm really moves and really hands evaluations over: from 5 the first step (λ = 1, g / ‖g‖ = 10 / 100 = 0 in `Int`) … -/
example : (sgmMinimize envZ2 nmZ (fun _ => fZ) 1 3 1 100 50 [5]).st.fx = 25 := by decide
/-- … the candidates never improve: `value_test(3)` becomes 0 after three calls and the status is `converged` (hypothesis of
    `sgm_converged_only_by_test`, first disjunct), after 1 + 3 calls of the function -/
example : (sgmMinimize envZ2 nmZ (fun _ => fZ) 1 3 1 100 50 [5]).st.status = Status.converged ∧
    evals (sgmMinimize envZ2 nmZ (fun _ => fZ) 1 3 1 100 50 [5]).st = 8 := by decide
/-- second disjunct: a start with a zero gradient stops in the first iteration without a call -/
example : (sgmMinimize envZ2 nmZ (fun _ => fZ) 1 3 1 100 50 [0]).st.status = Status.converged ∧
    evals (sgmMinimize envZ2 nmZ (fun _ => fZ) 1 3 1 100 50 [0]).st = 2 := by decide
/-- the budget bound of `sgm_honest` is attained: `max_evals = 3` allows one iteration, the run ends with 4 = 3 + 2 - 1 evaluations -/
example : evals (sgmMinimize envZ2 nmZ (fun _ => fZ) 1 10 1 3 50 [5]).st = 4 ∧
    (sgmMinimize envZ2 nmZ (fun _ => fZ) 1 10 1 3 50 [5]).st.status = Status.max_iters := by decide
/-- `f(x) = Σ x_i`, `∇f(x) = (1, …, 1)` -/
def fLin : Objective Int := fun x => (vdot x (x.map (fun _ => 1)), x.map (fun _ => 1))
/-- cocob on the linear function from 5 with `L0 = 1`: four iterations within `max_evals = 9`, every one improves, 10 = 9 + 2 - 1
    evaluations -/
example : (cocobMinimize envZ2 nmZ (fun _ => fLin) 1 3 1 9 50 [5]).st.fx = -3 ∧
    evals (cocobMinimize envZ2 nmZ (fun _ => fLin) 1 3 1 9 50 [5]).st = 10 ∧
    (cocobMinimize envZ2 nmZ (fun _ => fLin) 1 3 1 9 50 [5]).st.status = Status.max_iters := by decide
/-- … and stagnation on `x·x` from 0: `converged` through `value_test` (hypothesis of `cocob_converged_only_by_test`) -/
example : (cocobMinimize envZ2 nmZ (fun _ => fZ) 1 2 1 100 50 [0]).st.status = Status.converged := by decide
/-- sda / wda (with `sqrt = 1`): improving steps on the linear function; a zero gradient at the start stops at once -/
example : (pdsgmMinimize ⟨fun _ => true, fun _ => 1, -1000000, 1000000⟩ nmZ (fun _ => fLin) false 2 3 1 9 50 [5]).st.fx < 5 ∧
    (pdsgmMinimize ⟨fun _ => true, fun _ => 1, -1000000, 1000000⟩ nmZ (fun _ => fLin) true 2 3 1 9 50 [5]).st.fx < 5 := by decide
example : (pdsgmMinimize envZ2 nmZ (fun _ => fZ) false 2 3 1 100 50 [5]).st.status = Status.converged := by decide
example : (pdsgmMinimize envZ2 nmZ (fun _ => fZ) true 2 3 1 100 50 [0]).st.status = Status.converged ∧
    evals (pdsgmMinimize envZ2 nmZ (fun _ => fZ) true 2 3 1 100 50 [0]).st = 2 := by decide
/-- pgm / dgm / fgm on the linear function from 5 with `L0 = 1`: the first trial is accepted (value 4), then stagnation and
    `converged` through `value_test` (hypothesis of `…_converged_only_by_test`) -/
example : (pgmMinimize envZ2 (fun _ => fLin) 1 10 3 1 100 50 [5]).st.fx = 4 ∧
    (pgmMinimize envZ2 (fun _ => fLin) 1 10 3 1 100 50 [5]).st.status = Status.converged := by decide
example : (dgmMinimize envZ2 (fun _ => fLin) 1 10 3 1 100 50 [5]).st.fx = 4 ∧
    (dgmMinimize envZ2 (fun _ => fLin) 1 10 3 1 100 50 [5]).st.status = Status.converged := by decide
example : (fgmMinimize envZ2 (fun _ => fLin) 1 10 3 1 100 50 [5]).st.fx = 4 ∧
    (fgmMinimize envZ2 (fun _ => fLin) 1 10 3 1 100 50 [5]).st.status = Status.converged := by decide
/-- pgm on `x·x` from 5: four rejected trials (M = 1, 2, 4, 8), the fifth is accepted: 2 + 2·5 evaluations with `max_evals = 3`;
    with `lsearch_max_iters = 3` the line search fails after 3 trials: status `failed`, and the bound of `pgm_honest` is attained
    (8 = 3 + 2·3 - 1) -/
example : evals (pgmMinimize envZ2 (fun _ => fZ) 1 10 3 1 3 50 [5]).st = 12 ∧
    (pgmMinimize envZ2 (fun _ => fZ) 1 10 3 1 3 50 [5]).st.status = Status.max_iters := by decide
example : evals (pgmMinimize envZ2 (fun _ => fZ) 1 3 3 1 3 50 [5]).st = 8 ∧
    (pgmMinimize envZ2 (fun _ => fZ) 1 3 3 1 3 50 [5]).st.status = Status.failed := by decide
/-- dgm: a trial costs 3 evaluations (`vgrad(xk1, gxk1)` and the value-only `vgrad(yk)`), fgm: 4 -/
example : evals (dgmMinimize envZ2 (fun _ => fLin) 1 10 3 1 3 50 [5]).st = 5 ∧
    evals (fgmMinimize envZ2 (fun _ => fLin) 1 10 3 1 3 50 [5]).st = 6 ∧
    evals (fgmMinimize envZ2 (fun _ => fZ) 1 3 3 1 3 50 [5]).st = 10 := by decide
/-- asga2 / asga4 on the linear function from 5 (`L0 = 1`, `gamma1 = gamma2 = 1`, `miu = 0`, machine epsilon 0): the first iteration
    improves to 4, then stagnation and `converged` through `value_test`; one trial costs 4 evaluations; with machine epsilon 1
    the gradient test at the start returns the initial state at once with status `max_iters` -/
example : (asga2Minimize envZ2 {nmZ with epsMach := 0} (fun _ => fLin) 0 1 1 1 10 3 1 100 50 [5]).st.fx = 4 ∧
    (asga2Minimize envZ2 {nmZ with epsMach := 0} (fun _ => fLin) 0 1 1 1 10 3 1 100 50 [5]).st.status = Status.converged ∧
    evals (asga2Minimize envZ2 {nmZ with epsMach := 0} (fun _ => fLin) 0 1 1 1 10 3 1 3 50 [5]).st = 6 := by decide
example : (asga4Minimize envZ2 {nmZ with epsMach := 0} (fun _ => fLin) 0 1 1 1 10 3 1 100 50 [5]).st.fx = 4 ∧
    (asga4Minimize envZ2 {nmZ with epsMach := 0} (fun _ => fLin) 0 1 1 1 10 3 1 100 50 [5]).st.status = Status.converged ∧
    evals (asga4Minimize envZ2 {nmZ with epsMach := 0} (fun _ => fLin) 0 1 1 1 10 3 1 3 50 [5]).st = 6 := by decide
example : (asga2Minimize envZ2 nmZ (fun _ => fLin) 0 1 1 1 10 3 1 100 50 [5]).st.status = Status.max_iters ∧
    evals (asga2Minimize envZ2 nmZ (fun _ => fLin) 0 1 1 1 10 3 1 100 50 [5]).st = 2 := by decide
/-- osga over `Int` (where `0.5 = 0` degenerates its formulas; the control flow is what the examples exercise): `converged` through
    `eta_hat < epsilon` after one iteration of 3 evaluations; with a negative `epsilon` no test fires and the budget of 100 is
    used up to 101 = 100 + 3 - 2 evaluations; a zero gradient at the start stops at once (`epsilon0 = 1`) -/
example : (osgaMinimize envZ2 {nmZ with eps0 := 0} (fun _ => fZ) 0 1 1 1 1 3 1 100 50 [5]).st.status = Status.converged ∧
    evals (osgaMinimize envZ2 {nmZ with eps0 := 0} (fun _ => fZ) 0 1 1 1 1 3 1 100 50 [5]).st = 5 := by decide
example : (osgaMinimize envZ2 {nmZ with eps0 := 0} (fun _ => fZ) 0 1 1 1 1 3 (-100) 100 50 [5]).st.status = Status.max_iters ∧
    evals (osgaMinimize envZ2 {nmZ with eps0 := 0} (fun _ => fZ) 0 1 1 1 1 3 (-100) 100 50 [5]).st = 101 := by decide
example : (osgaMinimize envZ2 nmZ (fun _ => fZ) 0 1 1 1 1 3 1 100 50 [0]).st.status = Status.converged ∧
    evals (osgaMinimize envZ2 nmZ (fun _ => fZ) 0 1 1 1 1 3 1 100 50 [0]).st = 2 := by decide
/-- a non-finite value fails the run: `iter_ok = isfinite(f)` -/
example : (sgmMinimize ⟨fun v => decide (v < 20), fun x => x, -1000000, 1000000⟩ nmZ (fun _ => fZ) 1 3 1 100 50 [5]).st.status
    = Status.failed := by decide

end examples

end NanoVerif.Solver
