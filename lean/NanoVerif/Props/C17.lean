import NanoVerif.Proofs.PoolAll
/-!
  C17 — property theorems about the thread-pool protocol model (`Model/Pool.lean`): every statement quantifies over
  every reachable state, i.e. over every interleaving of any number of workers, tasks and client calls (several
  submitters, a concurrent destructor), every spurious wake-up and every choice of `notify_one`.
  Core Lean only. Nothing here is weakened to make a proof pass.
-/
namespace NanoVerif.Pool

/-- The bookkeeping of tasks is consistent in every reachable state: the queue holds exactly the queued tasks, once each;
    a task is `running w` exactly when worker `w < size` is running it; a task has been started once if it is running or
    done and never otherwise. -/
theorem task_bookkeeping (s : St) (hr : Reachable s) : Inv s := (reachable_invs s hr).1

/-- No task is ever started twice. -/
theorem executed_at_most_once (s : St) (hr : Reachable s) (t : Nat) : s.exec t ≤ 1 := by
  have := (task_bookkeeping s hr).exec_le t
  rw [this]; split <;> simp

/-- A finished task ran exactly once; a task that ran is running or finished; a dropped or queued task never ran. -/
theorem done_implies_executed_once (s : St) (hr : Reachable s) (t : Nat) :
    (s.ts t = .done → s.exec t = 1) ∧
    (s.exec t = 1 → s.ts t = .done ∨ ∃ w, s.ts t = .running w) ∧
    (s.ts t = .dropped ∨ s.ts t = .queued ∨ s.ts t = .fresh → s.exec t = 0) := by
  have h := (task_bookkeeping s hr).exec_le t
  refine ⟨?_, ?_, ?_⟩
  · intro hd; rw [h, hd]
  · intro h1
    cases hts : s.ts t with
    | done => exact Or.inl rfl
    | running w => exact Or.inr ⟨w, rfl⟩
    | fresh => rw [h, hts] at h1; cases h1
    | queued => rw [h, hts] at h1; cases h1
    | dropped => rw [h, hts] at h1; cases h1
  · rintro (hd | hd | hd) <;> rw [h, hd]

/-- The worker id passed to a running task is below the pool size (and is the id of the worker running it). -/
theorem tnum_lt_size (s : St) (hr : Reachable s) (t w : Nat) (h : s.ts t = .running w) :
    w < s.nw ∧ s.wpc w = .running t :=
  ((task_bookkeeping s hr).run_iff t w).mp h

/-- Two different tasks running at the same time (of the same call or not) have different worker ids: a worker runs
    one task at a time. -/
theorem tnum_exclusive (s : St) (hr : Reachable s) (t1 t2 w1 w2 : Nat)
    (h1 : s.ts t1 = .running w1) (h2 : s.ts t2 = .running w2) (hne : t1 ≠ t2) : w1 ≠ w2 := by
  intro heq
  subst heq
  have a := (tnum_lt_size s hr t1 w1 h1).2
  have b := (tnum_lt_size s hr t2 w1 h2).2
  rw [a] at b
  cases b
  exact hne rfl

/-- The sequential path (`size()==1 || …`, operator called by the caller with `tnum = 0`): while `i` calls are over,
    exactly the calls `0..i-1` ran once each, at most call `i` is in progress, none after it has started, and `err` is
    the first position that threw; the loop ends (normally or by re-throwing) only after all `n` calls ran exactly
    once, and what leaves `map` is the first stored exception iff `raise`. -/
theorem seq_runs_each_once_in_order (s : St) (hr : Reachable s) (c : Nat) :
    (∀ n i b err, s.cpc c = .seq n i b err →
      i ≤ n ∧ (∀ k, s.sexec c k = seqCount i b k) ∧ err = (List.range i).find? (fun k => s.sthrew c k)) ∧
    (∀ s', step s (.sReturn c) = some s' → ∃ n err, s.cpc c = .seq n n false err ∧
      (∀ k, s.sexec c k = if k < n then 1 else 0) ∧
      (∀ raise, seqResult err raise = if raise then (List.range n).find? (fun k => s.sthrew c k) else none)) := by
  have hs := (reachable_invs s hr).2.2.2
  refine ⟨?_, ?_⟩
  · intro n i b err hpc
    obtain ⟨h1, _, h3, _, h5⟩ := hs.seq_ok c n i b err hpc
    exact ⟨h1, h3, h5⟩
  · intro s' h
    obtain ⟨n, err, hpc, _⟩ := step_sReturn h
    obtain ⟨_, _, h3, _, h5⟩ := hs.seq_ok c n n false err hpc
    refine ⟨n, err, hpc, ?_, ?_⟩
    · intro k; rw [h3 k]; simp [seqCount]
    · intro raise; rw [h5]; rfl

/-- `map` (and the wait on an `enqueue` future) returns only when every future of the call is ready; as long as no
    destructor has run, ready means that the task finished and ran exactly once. -/
theorem map_returns_after_all_done (s s' : St) (hr : Reachable s) (c : Nat) (h : step s (.cReturn c) = some s') :
    ∃ ts, s.cpc c = .waiting ts ∧ (∀ t ∈ ts, ready? (s.ts t) = true) ∧
      (s.stop = false → ∀ t ∈ ts, s.ts t = .done ∧ s.exec t = 1) := by
  obtain ⟨ts, hpc, hready, _⟩ := step_cReturn h
  refine ⟨ts, hpc, hready, ?_⟩
  intro hstop t ht
  have hd : s.ts t = .done := by
    have h1 := hready t ht
    have h2 := (reachable_invs s hr).2.2.1.D hstop t
    cases hts : s.ts t <;> simp [hts, ready?] at h1 h2 ⊢
  exact ⟨hd, (done_implies_executed_once s hr t).1 hd⟩

/-- `block(raise)`: with `raise = false` nothing leaves the call; with `raise = true` the exception that leaves is the one
    stored by the first task (in index order) whose future holds one; without a destructor that task finished, ran
    exactly once and its operator threw, and there is such a task iff some operator of the call threw. -/
theorem raise_rethrows (s s' : St) (hr : Reachable s) (c : Nat) (h : step s (.cReturn c) = some s') :
    ∃ ts, s.cpc c = .waiting ts ∧ blockResult s ts false = none ∧
      (∀ t, blockResult s ts true = some t →
        t ∈ ts ∧ ((s.ts t = .done ∧ s.exec t = 1 ∧ s.threw t = true) ∨ s.ts t = .dropped)) ∧
      (s.stop = false → blockResult s ts true = ts.find? (fun t => s.threw t)) := by
  obtain ⟨ts, hpc, _, hdone⟩ := map_returns_after_all_done s s' hr c h
  refine ⟨ts, hpc, rfl, ?_, ?_⟩
  · intro t ht
    simp only [blockResult, if_true] at ht
    refine ⟨List.mem_of_find?_eq_some ht, ?_⟩
    have hp := List.find?_some ht
    simp only [holdsExc] at hp
    cases hts : s.ts t with
    | done =>
      rw [hts] at hp
      exact Or.inl ⟨rfl, (done_implies_executed_once s hr t).1 hts, hp⟩
    | dropped => exact Or.inr rfl
    | fresh => rw [hts] at hp; cases hp
    | queued => rw [hts] at hp; cases hp
    | running w => rw [hts] at hp; cases hp
  · intro hstop
    simp only [blockResult, if_true]
    apply find?_ext
    intro t ht
    simp [holdsExc, (hdone hstop t ht).1]

/-- The ranges built by `map(elements, chunksize, op)` tile `[0, elements)` in order without gap or overlap; each is
    non-empty, not longer than `chunksize`, inside `[0, elements)`; there are `ceil(elements / chunksize)` of them. -/
theorem chunks_tile (n c : Nat) (hc : 0 < c) :
    ((chunks n c).map fun p => rangeList p.1 p.2).flatten = List.range n ∧
    (∀ p ∈ chunks n c, p.1 < p.2 ∧ p.2 - p.1 ≤ c ∧ p.2 ≤ n) ∧
    (chunks n c).length = (n + c - 1) / c := by
  refine ⟨?_, ?_, chunks_length n c hc⟩
  · unfold chunks
    rw [chunksFrom_tile n c hc n 0 (by
      have : n ≤ n * c := Nat.le_mul_of_pos_right n hc
      omega) (Nat.zero_le _)]
    simp [rangeList]
  · intro p hp
    obtain ⟨k, hk⟩ := List.mem_iff_getElem?.mp hp
    rw [chunks_get' n c k hc] at hk
    by_cases hlt : k * c < n
    · rw [if_pos hlt] at hk
      cases hk
      simp only
      refine ⟨?_, ?_, ?_⟩ <;> omega
    · rw [if_neg hlt] at hk; cases hk

/-- The `k`-th range is `[k·chunksize, min(k·chunksize + chunksize, elements))` (the position ↔ range correspondence
    used by the trace checker), and the per-element overload is the case of unit ranges. -/
theorem chunks_get (n c k : Nat) (hc : 0 < c) :
    (chunks n c)[k]? = (if k * c < n then some (k * c, min (k * c + c) n) else none) ∧
    (elemRanges n)[k]? = (if k < n then some (k, k + 1) else none) := by
  refine ⟨chunks_get' n c k hc, ?_⟩
  unfold elemRanges
  by_cases hk : k < n
  · simp [hk]
  · simp [hk]

/-- No lost wake-up: whenever work is queued or stop is requested, a worker is on its way to the wait predicate, or a
    client still owes its notification, or every worker has already exited. -/
theorem no_lost_wakeup (s : St) (hr : Reachable s) : J s := (reachable_invs s hr).2.1

/-- In a reachable state of a pool with at least one worker in which no event other than a wake-up (and other than the
    start of a new client call, which is an input) is enabled: every client call has returned, no task is left in the
    queue, and if a destructor ran every worker has exited. (So a run can only stop in a complete state: no deadlock
    of `map`, of a future wait or of `~pool_t`.) -/
theorem quiescent_complete (s : St) (hr : Reachable s) (hnw : 0 < s.nw) (hq : Quiescent s) :
    (∀ c, s.cpc c = .idle ∨ s.cpc c = .finished) ∧ s.queue = [] ∧
    (s.stop = true → ∀ w, w < s.nw → s.wpc w = .exited) := by
  obtain ⟨hi, hj, h2, hs⟩ := reachable_invs s hr
  have hqe := quiescent_queue_empty s hj h2 hnw hq
  refine ⟨?_, hqe, fun hstop => quiescent_all_exited s hj hq (Or.inr hstop)⟩
  intro c
  cases hpc : s.cpc c with
  | idle => exact Or.inl rfl
  | finished => exact Or.inr rfl
  | pushed ts all => have := quiescent_no_debt s hq c; rw [hpc] at this; cases this
  | stopSet => have := quiescent_no_debt s hq c; rw [hpc] at this; cases this
  | waiting ts =>
    exfalso
    have hall : ∀ t ∈ ts, ready? (s.ts t) = true := by
      intro t ht
      cases hts : s.ts t with
      | done => rfl
      | dropped => rfl
      | fresh => exact absurd hts (h2.C c ts (Or.inl hpc) t ht)
      | queued =>
        have := (hi.q_iff t).mpr hts
        rw [hqe] at this; cases this
      | running w =>
        obtain ⟨hw, hrun⟩ := (hi.run_iff t w).mp hts
        rcases quiescent_workers s hq w hw with h1 | h1 <;> rw [h1] at hrun <;> cases hrun
    have := hq (.cReturn c) rfl rfl
    simp only [step, hpc] at this
    rw [if_pos hall] at this
    cases this
  | joining =>
    exfalso
    have hstop := h2.S c (Or.inr hpc)
    have hall := quiescent_all_exited s hj hq (Or.inr hstop)
    have := hq (.dJoined c) rfl rfl
    simp only [step] at this
    rw [if_pos ⟨hpc, hall⟩] at this
    cases this
  | seq n i b err =>
    exfalso
    obtain ⟨hle, _, _, _, _⟩ := hs.seq_ok c n i b err hpc
    cases b with
    | true =>
      have := hq (.sOpEnd c false) rfl rfl
      simp [step, hpc] at this
    | false =>
      by_cases hlt : i < n
      · have := hq (.sOpBegin c) rfl rfl
        simp [step, hpc, hlt] at this
      · have hin : i = n := by omega
        have := hq (.sReturn c) rfl rfl
        simp [step, hpc, hin] at this

/-! ### non-vacuity: concrete runs of the model -/

/-- two workers, one `map` of two tasks (the second throws), then the destructor: everything completes -/
def demoRun : List Ev :=
  [.wSleep 0, .cPush 0 [0, 1] true, .wTake 1, .cNotify 0 none, .wTake 0, .wRunEnd 1 false, .wRunEnd 0 true,
   .wSleep 1, .cReturn 0, .dStop 1, .wExit 0, .cNotify 1 none, .wExit 1, .dJoined 1]

example : (run (init 2) demoRun).isSome = true := by decide

example : ((run (init 2) demoRun).map fun s => (s.ts 0, s.ts 1, s.exec 0, s.exec 1, s.threw 1))
    = some (.done, .done, 1, 1, true) := by decide

example : ((run (init 2) demoRun).map fun s => (s.cpc 0, s.cpc 1, s.wpc 0, s.wpc 1))
    = some (.finished, .finished, .exited, .exited) := by decide

example : ((run (init 2) demoRun).map fun s => (s.queue, s.stop)) = some ([], true) := by decide

/-- the exception of task 1 is what `block(true)` observes just before `cReturn` -/
example : ((run (init 2) (demoRun.take 8)).map fun s => (blockResult s [0, 1] true, blockResult s [0, 1] false))
    = some (some 1, none) := by decide

/-- a destructor with a queued task: the task is dropped, its future is ready, the waiting call returns -/
example : ((run (init 1) [.cPush 0 [0] false, .cNotify 0 none, .cPush 1 [1] false, .cNotify 1 none, .wTake 0,
      .dStop 2, .cNotify 2 none, .wRunEnd 0 false, .wExit 0, .dJoined 2, .cReturn 0, .cReturn 1]).map fun s =>
    (s.ts 0, s.ts 1, s.exec 1, s.cpc 0, s.cpc 1, s.cpc 2)) = some (.done, .dropped, 0, .finished, .finished, .finished) := by
  decide

/-- the sequential path: two operator calls, the first throws, both run, the call ends -/
example : ((run (init 1) [.sStart 0 2, .sOpBegin 0, .sOpEnd 0 true, .sOpBegin 0, .sOpEnd 0 false]).map fun s =>
    (s.cpc 0, s.sexec 0 0, s.sexec 0 1)) = some (.seq 2 2 false (some 0), 1, 1) := by decide

/-- a task cannot be taken twice, a waiting call cannot return early -/
example : run (init 2) [.cPush 0 [0] false, .wTake 0, .wTake 1] = none := by decide
example : run (init 2) [.cPush 0 [0] false, .cNotify 0 none, .wTake 0, .cReturn 0] = none := by decide

example : chunks 10 3 = [(0, 3), (3, 6), (6, 9), (9, 10)] := by decide
example : chunks 0 3 = [] ∧ chunks 3 3 = [(0, 3)] ∧ chunks 3 4 = [(0, 3)] := by decide

end NanoVerif.Pool
