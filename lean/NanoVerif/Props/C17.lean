import NanoVerif.Proofs.PoolAll
import NanoVerif.Proofs.PoolGap
import NanoVerif.Proofs.PoolProgress
import NanoVerif.Proofs.PoolFine
import NanoVerif.Proofs.PoolScopesGen
/-!
  C17 — property theorems about the thread-pool protocol model (`Model/Pool.lean`): every statement quantifies over
  every reachable state, i.e. over every interleaving of any number of workers, tasks and client calls (several
  submitters, a concurrent destructor), every spurious wake-up and every choice of `notify_one`.
  Core Lean only. Nothing here is weakened to make a proof pass.

  ## Gap table (gap-closing round): every function of the anchored files and where it lives

  include/nano/core/parallel.h
  | code                                              | status    | Lean definition / check                                                        |
  |---------------------------------------------------|-----------|--------------------------------------------------------------------------------|
  | `nano::verif::pool_hook / pool_emit / NANO_VERIF_POOL` | outside | instrumentation H1 itself; `static_checks` counts the call sites and compares the `#ifdef` twin of the wait predicate with the original |
  | `queue_t::queue_t`, members `m_tasks / m_stop`    | modelled  | `init` (`queue = []`, `stop = false`); `St.queue` is a FIFO (push at the back `cPush`, pop at the front `wTake`) |
  | `queue_t::m_mutex`                                | modelled + monitored | every critical section = ONE event of `step`; justified per trace by `Ck.acquire/holds/release` and, independently, `Mon.needHolder` |
  | `queue_t::m_condition`                            | oracle (contract: wait releases atomically, may wake spuriously, notify_one wakes ≤ 1 waiter, notify_all all) | `wSleep`, `wWake`, `cNotify`, `wake`; fine-grained `stepF` (`predFalse`, `block`) proved to refine the atomic events (`locked_fine_grained_no_lost_wakeup`) |
  | `queue_t::enqueue`                                | modelled  | `cPush c [t] false` + `cNotify c w?`; trace states `eq0 … eq4`                           |
  | `queue_t::enqueue_no_lock`                        | modelled  | one element of the `ts` of `cPush c ts true` (inside `map`'s critical section); trace state `mpP3` |
  | `worker_t::worker_t`                              | modelled  | worker index `w < nw` of `init nw`; `Mon.bindWorker` (thread ↔ index bijection on every trace) |
  | `section_t` constructors / move (`= default`)      | outside   | compiler-generated, no behaviour of their own (`map` only default-constructs, `reserve`s and `emplace_back`s) |
  | `section_t::block(raise)` (parallel.cpp:82-91)     | modelled  | `step2`: `bBegin`, `bWait` (get vs wait, rethrow), `bDone`; `blockResult`              |
  | `section_t::~section_t` (parallel.cpp:93-96)       | modelled  | `step2`: `dWait`, `exit` (unguarded), `dtorSees`; theorem `map_exit_implies_all_ready`   |
  | `pool_t::pool_t()`, `pool_t(size_t)`               | modelled  | `defaultSize`, `clampSize`, `init nw`; `pool_size_bounds`; driver `szok=`               |
  | `pool_t::~pool_t`                                  | modelled  | `dStop`, `cNotify` (from `stopSet`), `dJoined`; seeded variant `stopNoLock` of `stepF`  |
  | `pool_t::enqueue`                                  | modelled  | forwards to `queue_t::enqueue`                                                         |
  | `pool_t::size()`                                   | modelled  | `St.nw` = `clampSize threads hc`                                                       |
  | `pool_t::max_size()`                               | modelled; `hardware_concurrency()` = oracle without contract (any number, 0 included) | `maxSize hc` |
  | `pool_t::map(elements, op, raise)`                 | modelled  | `seqPathElems`, `sStart/sOpBegin/sOpEnd/sReturn` (tnum 0, `firstErr`, `seqResult`), `elemRanges`, `cPush … true`, section |
  | `pool_t::map(elements, chunksize, op, raise)`      | modelled  | `seqPathChunk`, `chunks`, same events; `assert(chunksize >= 1)` = hypothesis `0 < c`    |
  | deleted copy / move of `pool_t`, `section_t`       | outside   | compile-time only                                                                      |
  | `loopi`, `loopr`                                   | —         | do not exist in this version of the library (only `map` and `enqueue`)                  |

  src/core/parallel.cpp
  | `worker_t::operator()` (33-80)                     | modelled  | `wTake`, `wSleep`, `wWake`, `wExit` (clear + notify_all under the lock), `wRunEnd`; program order `wPre … wClr3` |
  | `pool_hook()`, `trace_sink()`                      | outside   | instrumentation                                                                        |
  | std::mutex / packaged_task / shared_future / thread::join | oracle | contracts in DESIGN §3; monitored on every run where observable: mutual exclusion (`acquire`), a future is ready only after its task ran or was dropped (`cReturn` enabled, harness `late` / `fin`), `broken_promise` after `clear` (`dropped-future`) |

  Hypotheses re-examined: `0 < s.nw` of `quiescent_complete` / `deadlock_free` holds for every pool (`pool_size_bounds`: size ≥ 1);
  `s.stop = false` in "ready ⇒ done" is necessary (kernel-checked run with a dropped task below, replayed on the real code by the
  corpus lines with waitmode 2); the usage contract "no submission after `~pool_t` started" stays an assumption. No `_partial` theorem.
-/
/-!
  LOCK SCOPES (round 5): `tools/props/c17_translate.py` re-reads `src/core/parallel.cpp` / `include/nano/core/parallel.h` on every run
  (hook statements and `NANO_VERIF` branches removed) into `Gen/PoolScopes.lean`: per function the accesses to `m_tasks` / `m_stop` /
  `m_condition` in program order with the flag "lexically under a lock on the queue's mutex". `Proofs/PoolScopesGen.lean` (namespace
  `Pool.Scopes`): `model_pool_scopes_is_generated` (= the program order this model follows), `shared_state_only_under_lock`,
  `enqueue_no_lock_called_under_lock`, `never_blocks_or_runs_under_lock`, `wake_up_after_publication`, `every_access_classified`.
  The trace monitors (`Model/PoolMon.lean`) check the same membership at run time, but only through the hook statements; this ties
  the statements themselves.
-/
namespace NanoVerif.Pool

/-- The bookkeeping of tasks is consistent in every reachable state: the queue holds exactly the queued tasks, once each;
    a task is `running w` exactly when worker `w < size` is running it; a task has been started once if it is running or
    done and never otherwise. -/
theorem task_bookkeeping (s : St) (hr : Reachable s) : Inv s := (reachable_invs s hr).1

/-- No task is ever started twice. -/
theorem executed_at_most_once (s : St) (hr : Reachable s) (t : Nat) : s.exec t ≤ 1 := by
  have := (task_bookkeeping s hr).exec_le t
  rw [this]; split <;> simp

/-- A finished task ran exactly once; a task that ran is running or finished; a dropped or queued task never ran. -/
theorem done_implies_executed_once (s : St) (hr : Reachable s) (t : Nat) :
    (s.ts t = .done → s.exec t = 1) ∧
    (s.exec t = 1 → s.ts t = .done ∨ ∃ w, s.ts t = .running w) ∧
    (s.ts t = .dropped ∨ s.ts t = .queued ∨ s.ts t = .fresh → s.exec t = 0) := by
  have h := (task_bookkeeping s hr).exec_le t
  refine ⟨?_, ?_, ?_⟩
  · intro hd; rw [h, hd]
  · intro h1
    cases hts : s.ts t with
    | done => exact Or.inl rfl
    | running w => exact Or.inr ⟨w, rfl⟩
    | fresh => rw [h, hts] at h1; cases h1
    | queued => rw [h, hts] at h1; cases h1
    | dropped => rw [h, hts] at h1; cases h1
  · rintro (hd | hd | hd) <;> rw [h, hd]

/-- The worker id passed to a running task is below the pool size (and is the id of the worker running it). -/
theorem tnum_lt_size (s : St) (hr : Reachable s) (t w : Nat) (h : s.ts t = .running w) :
    w < s.nw ∧ s.wpc w = .running t :=
  ((task_bookkeeping s hr).run_iff t w).mp h

/-- Two different tasks running at the same time (of the same call or not) have different worker ids: a worker runs
    one task at a time. -/
theorem tnum_exclusive (s : St) (hr : Reachable s) (t1 t2 w1 w2 : Nat)
    (h1 : s.ts t1 = .running w1) (h2 : s.ts t2 = .running w2) (hne : t1 ≠ t2) : w1 ≠ w2 := by
  intro heq
  subst heq
  have a := (tnum_lt_size s hr t1 w1 h1).2
  have b := (tnum_lt_size s hr t2 w1 h2).2
  rw [a] at b
  cases b
  exact hne rfl

/-- The sequential path (`size()==1 || …`, operator called by the caller with `tnum = 0`): while `i` calls are over,
    exactly the calls `0..i-1` ran once each, at most call `i` is in progress, none after it has started, and `err` is
    the first position that threw; the loop ends (normally or by re-throwing) only after all `n` calls ran exactly
    once, and what leaves `map` is the first stored exception iff `raise`. -/
theorem seq_runs_each_once_in_order (s : St) (hr : Reachable s) (c : Nat) :
    (∀ n i b err, s.cpc c = .seq n i b err →
      i ≤ n ∧ (∀ k, s.sexec c k = seqCount i b k) ∧ err = (List.range i).find? (fun k => s.sthrew c k)) ∧
    (∀ s', step s (.sReturn c) = some s' → ∃ n err, s.cpc c = .seq n n false err ∧
      (∀ k, s.sexec c k = if k < n then 1 else 0) ∧
      (∀ raise, seqResult err raise = if raise then (List.range n).find? (fun k => s.sthrew c k) else none)) := by
  have hs := (reachable_invs s hr).2.2.2
  refine ⟨?_, ?_⟩
  · intro n i b err hpc
    obtain ⟨h1, _, h3, _, h5⟩ := hs.seq_ok c n i b err hpc
    exact ⟨h1, h3, h5⟩
  · intro s' h
    obtain ⟨n, err, hpc, _⟩ := step_sReturn h
    obtain ⟨_, _, h3, _, h5⟩ := hs.seq_ok c n n false err hpc
    refine ⟨n, err, hpc, ?_, ?_⟩
    · intro k; rw [h3 k]; simp [seqCount]
    · intro raise; rw [h5]; rfl

/-- `map` (and the wait on an `enqueue` future) returns only when every future of the call is ready; as long as no
    destructor has run, ready means that the task finished and ran exactly once. -/
theorem map_returns_after_all_done (s s' : St) (hr : Reachable s) (c : Nat) (h : step s (.cReturn c) = some s') :
    ∃ ts, s.cpc c = .waiting ts ∧ (∀ t ∈ ts, ready? (s.ts t) = true) ∧
      (s.stop = false → ∀ t ∈ ts, s.ts t = .done ∧ s.exec t = 1) := by
  obtain ⟨ts, hpc, hready, _⟩ := step_cReturn h
  refine ⟨ts, hpc, hready, ?_⟩
  intro hstop t ht
  have hd : s.ts t = .done := by
    have h1 := hready t ht
    have h2 := (reachable_invs s hr).2.2.1.D hstop t
    cases hts : s.ts t <;> simp [hts, ready?] at h1 h2 ⊢
  exact ⟨hd, (done_implies_executed_once s hr t).1 hd⟩

/-- `block(raise)`: with `raise = false` nothing leaves the call; with `raise = true` the exception that leaves is the one
    stored by the first task (in index order) whose future holds one; without a destructor that task finished, ran
    exactly once and its operator threw, and there is such a task iff some operator of the call threw. -/
theorem raise_rethrows (s s' : St) (hr : Reachable s) (c : Nat) (h : step s (.cReturn c) = some s') :
    ∃ ts, s.cpc c = .waiting ts ∧ blockResult s ts false = none ∧
      (∀ t, blockResult s ts true = some t →
        t ∈ ts ∧ ((s.ts t = .done ∧ s.exec t = 1 ∧ s.threw t = true) ∨ s.ts t = .dropped)) ∧
      (s.stop = false → blockResult s ts true = ts.find? (fun t => s.threw t)) := by
  obtain ⟨ts, hpc, _, hdone⟩ := map_returns_after_all_done s s' hr c h
  refine ⟨ts, hpc, rfl, ?_, ?_⟩
  · intro t ht
    simp only [blockResult, if_true] at ht
    refine ⟨List.mem_of_find?_eq_some ht, ?_⟩
    have hp := List.find?_some ht
    simp only [holdsExc] at hp
    cases hts : s.ts t with
    | done =>
      rw [hts] at hp
      exact Or.inl ⟨rfl, (done_implies_executed_once s hr t).1 hts, hp⟩
    | dropped => exact Or.inr rfl
    | fresh => rw [hts] at hp; cases hp
    | queued => rw [hts] at hp; cases hp
    | running w => rw [hts] at hp; cases hp
  · intro hstop
    simp only [blockResult, if_true]
    apply find?_ext
    intro t ht
    simp [holdsExc, (hdone hstop t ht).1]

/-- The ranges built by `map(elements, chunksize, op)` tile `[0, elements)` in order without gap or overlap; each is
    non-empty, not longer than `chunksize`, inside `[0, elements)`; there are `ceil(elements / chunksize)` of them. -/
theorem chunks_tile (n c : Nat) (hc : 0 < c) :
    ((chunks n c).map fun p => rangeList p.1 p.2).flatten = List.range n ∧
    (∀ p ∈ chunks n c, p.1 < p.2 ∧ p.2 - p.1 ≤ c ∧ p.2 ≤ n) ∧
    (chunks n c).length = (n + c - 1) / c := by
  refine ⟨?_, ?_, chunks_length n c hc⟩
  · unfold chunks
    rw [chunksFrom_tile n c hc n 0 (by
      have : n ≤ n * c := Nat.le_mul_of_pos_right n hc
      omega) (Nat.zero_le _)]
    simp [rangeList]
  · intro p hp
    obtain ⟨k, hk⟩ := List.mem_iff_getElem?.mp hp
    rw [chunks_get' n c k hc] at hk
    by_cases hlt : k * c < n
    · rw [if_pos hlt] at hk
      cases hk
      simp only
      refine ⟨?_, ?_, ?_⟩ <;> omega
    · rw [if_neg hlt] at hk; cases hk

/-- The `k`-th range is `[k·chunksize, min(k·chunksize + chunksize, elements))` (the position ↔ range correspondence
    used by the trace checker), and the per-element overload is the case of unit ranges. -/
theorem chunks_get (n c k : Nat) (hc : 0 < c) :
    (chunks n c)[k]? = (if k * c < n then some (k * c, min (k * c + c) n) else none) ∧
    (elemRanges n)[k]? = (if k < n then some (k, k + 1) else none) := by
  refine ⟨chunks_get' n c k hc, ?_⟩
  unfold elemRanges
  by_cases hk : k < n
  · simp [hk]
  · simp [hk]

/-- No lost wake-up: whenever work is queued or stop is requested, a worker is on its way to the wait predicate, or a
    client still owes its notification, or every worker has already exited. -/
theorem no_lost_wakeup (s : St) (hr : Reachable s) : J s := (reachable_invs s hr).2.1

/-- In a reachable state of a pool with at least one worker in which no event other than a wake-up (and other than the
    start of a new client call, which is an input) is enabled: every client call has returned, no task is left in the
    queue, and if a destructor ran every worker has exited. (So a run can only stop in a complete state: no deadlock
    of `map`, of a future wait or of `~pool_t`.) -/
theorem quiescent_complete (s : St) (hr : Reachable s) (hnw : 0 < s.nw) (hq : Quiescent s) :
    (∀ c, s.cpc c = .idle ∨ s.cpc c = .finished) ∧ s.queue = [] ∧
    (s.stop = true → ∀ w, w < s.nw → s.wpc w = .exited) := by
  obtain ⟨hi, hj, h2, hs⟩ := reachable_invs s hr
  have hqe := quiescent_queue_empty s hj h2 hnw hq
  refine ⟨?_, hqe, fun hstop => quiescent_all_exited s hj hq (Or.inr hstop)⟩
  intro c
  cases hpc : s.cpc c with
  | idle => exact Or.inl rfl
  | finished => exact Or.inr rfl
  | pushed ts all => have := quiescent_no_debt s hq c; rw [hpc] at this; cases this
  | stopSet => have := quiescent_no_debt s hq c; rw [hpc] at this; cases this
  | waiting ts =>
    exfalso
    have hall : ∀ t ∈ ts, ready? (s.ts t) = true := by
      intro t ht
      cases hts : s.ts t with
      | done => rfl
      | dropped => rfl
      | fresh => exact absurd hts (h2.C c ts (Or.inl hpc) t ht)
      | queued =>
        have := (hi.q_iff t).mpr hts
        rw [hqe] at this; cases this
      | running w =>
        obtain ⟨hw, hrun⟩ := (hi.run_iff t w).mp hts
        rcases quiescent_workers s hq w hw with h1 | h1 <;> rw [h1] at hrun <;> cases hrun
    have := hq (.cReturn c) rfl rfl
    simp only [step, hpc] at this
    rw [if_pos hall] at this
    cases this
  | joining =>
    exfalso
    have hstop := h2.S c (Or.inr hpc)
    have hall := quiescent_all_exited s hj hq (Or.inr hstop)
    have := hq (.dJoined c) rfl rfl
    simp only [step] at this
    rw [if_pos ⟨hpc, hall⟩] at this
    cases this
  | seq n i b err =>
    exfalso
    obtain ⟨hle, _, _, _, _⟩ := hs.seq_ok c n i b err hpc
    cases b with
    | true =>
      have := hq (.sOpEnd c false) rfl rfl
      simp [step, hpc] at this
    | false =>
      by_cases hlt : i < n
      · have := hq (.sOpBegin c) rfl rfl
        simp [step, hpc, hlt] at this
      · have hin : i = n := by omega
        have := hq (.sReturn c) rfl rfl
        simp [step, hpc, hin] at this

/-! ### non-vacuity: concrete runs of the model -/

/-- two workers, one `map` of two tasks (the second throws), then the destructor: everything completes -/
def demoRun : List Ev :=
  [.wSleep 0, .cPush 0 [0, 1] true, .wTake 1, .cNotify 0 none, .wTake 0, .wRunEnd 1 false, .wRunEnd 0 true,
   .wSleep 1, .cReturn 0, .dStop 1, .wExit 0, .cNotify 1 none, .wExit 1, .dJoined 1]

example : (run (init 2) demoRun).isSome = true := by decide

example : ((run (init 2) demoRun).map fun s => (s.ts 0, s.ts 1, s.exec 0, s.exec 1, s.threw 1))
    = some (.done, .done, 1, 1, true) := by decide

example : ((run (init 2) demoRun).map fun s => (s.cpc 0, s.cpc 1, s.wpc 0, s.wpc 1))
    = some (.finished, .finished, .exited, .exited) := by decide

example : ((run (init 2) demoRun).map fun s => (s.queue, s.stop)) = some ([], true) := by decide

/-- the exception of task 1 is what `block(true)` observes just before `cReturn` -/
example : ((run (init 2) (demoRun.take 8)).map fun s => (blockResult s [0, 1] true, blockResult s [0, 1] false))
    = some (some 1, none) := by decide

/-- a destructor with a queued task: the task is dropped, its future is ready, the waiting call returns -/
example : ((run (init 1) [.cPush 0 [0] false, .cNotify 0 none, .cPush 1 [1] false, .cNotify 1 none, .wTake 0,
      .dStop 2, .cNotify 2 none, .wRunEnd 0 false, .wExit 0, .dJoined 2, .cReturn 0, .cReturn 1]).map fun s =>
    (s.ts 0, s.ts 1, s.exec 1, s.cpc 0, s.cpc 1, s.cpc 2)) = some (.done, .dropped, 0, .finished, .finished, .finished) := by
  decide

/-- the sequential path: two operator calls, the first throws, both run, the call ends -/
example : ((run (init 1) [.sStart 0 2, .sOpBegin 0, .sOpEnd 0 true, .sOpBegin 0, .sOpEnd 0 false]).map fun s =>
    (s.cpc 0, s.sexec 0 0, s.sexec 0 1)) = some (.seq 2 2 false (some 0), 1, 1) := by decide

/-- a task cannot be taken twice, a waiting call cannot return early -/
example : run (init 2) [.cPush 0 [0] false, .wTake 0, .wTake 1] = none := by decide
example : run (init 2) [.cPush 0 [0] false, .cNotify 0 none, .wTake 0, .cReturn 0] = none := by decide

example : chunks 10 3 = [(0, 3), (3, 6), (6, 9), (9, 10)] := by decide
example : chunks 0 3 = [] ∧ chunks 3 3 = [(0, 3)] ∧ chunks 3 4 = [(0, 3)] := by decide

/-! ## gap-closing round: `section_t`, task shape, pool size, `m_stop` without the mutex, deadlock freedom -/

/-- **`section_t` modelled explicitly** (`Model/PoolSection.lean`: `block(raise)` future by future, the rethrow, `~section_t` =
    `block(false)` over all futures, an UNGUARDED exit). In every reachable state of the refined model: when the client leaves
    `map` — returning normally (`exc = none`) or with the exception of task `exc` propagating — the destructor has waited
    every future of the section and every future is ready; what leaves is exactly `blockResult` (the first future in index
    order holding an exception iff `raise`); and unless a destructor of the pool ran, every task of the call is done and ran
    exactly once. -/
theorem map_exit_implies_all_ready (s s' : St2) (hr : Reachable2 s) (c : Nat) (h : step2 false s (.exit c) = some s') :
    ∃ ts raise exc, s.spc c = .dtor ts raise ts.length exc ∧ s.base.cpc c = .waiting ts ∧ s'.spc c = .out exc ∧
      (∀ t ∈ ts, ready? (s.base.ts t) = true) ∧
      exc = blockResult s.base ts raise ∧
      (s.base.stop = false → ∀ t ∈ ts, s.base.ts t = .done ∧ s.base.exec t = 1) := by
  obtain ⟨hrb, hs⟩ := reachable2_invs s hr
  obtain ⟨ts, raise, exc, hpc, rfl⟩ := step2_exit h
  obtain ⟨h1, _, h3, h4⟩ := hs.dt c ts raise ts.length exc hpc
  have hall : ∀ t ∈ ts, ready? (s.base.ts t) = true := by
    intro t ht
    obtain ⟨j, hj, hjt⟩ := List.getElem_of_mem ht
    exact h3 j t hj (by rw [List.getElem?_eq_getElem hj, hjt])
  refine ⟨ts, raise, exc, hpc, h1, by simp [upd_same], hall, ?_, ?_⟩
  · cases exc with
    | none =>
      cases raise with
      | false => rfl
      | true =>
        obtain ⟨_, hn⟩ := h4 rfl
        simp only [blockResult, if_true]
        exact (find?_none_of_all ts hn).symm
    | some t =>
      obtain ⟨hraise, k, hk, _, hex, _, hn⟩ := h4
      subst hraise
      simp only [blockResult, if_true]
      exact (find?_of_first ts k t hk hex hn).symm
  · intro hstop t ht
    have hd : s.base.ts t = .done := by
      have a := hall t ht
      have b := (reachable_invs s.base hrb).2.2.1.D hstop t
      cases hts : s.base.ts t <;> simp [hts, ready?] at a b ⊢
    exact ⟨hd, (done_implies_executed_once s.base hrb t).1 hd⟩

/-- The guarded `cReturn` of the protocol model is what the code does: the (unguarded) exit of the section is a `cReturn`
    step of the base model. -/
theorem exit_refines_cReturn (s s' : St2) (hr : Reachable2 s) (c : Nat) (h : step2 false s (.exit c) = some s') :
    step s.base (.cReturn c) = some s'.base := by
  obtain ⟨ts, raise, exc, hpc, h1, _, hall, _, _⟩ := map_exit_implies_all_ready s s' hr c h
  obtain ⟨_, _, _, _, rfl⟩ := step2_exit h
  simp only [step, h1]
  rw [if_pos hall]

/-- The seeded change "block() swaps the futures into a local before waiting" (`swapped = true`: the destructor sees an
    empty vector): task 0 throws, `get()` rethrows, the destructor waits nothing and `map` is left with the exception
    while task 1 of the call has not even started. The same schedule is not a run of the code as it is. -/
theorem swapped_section_exits_with_unfinished_task :
    ((run2 true (init2 2) [.base (.cPush 0 [0, 1] true), .base (.cNotify 0 none), .base (.wTake 0), .bBegin 0 true,
        .base (.wRunEnd 0 true), .bWait 0, .exit 0]).map fun s => (s.spc 0, s.base.ts 1, s.base.exec 1))
      = some (.out (some 0), .queued, 0) ∧
    run2 false (init2 2) [.base (.cPush 0 [0, 1] true), .base (.cNotify 0 none), .base (.wTake 0), .bBegin 0 true,
        .base (.wRunEnd 0 true), .bWait 0, .exit 0] = none := by
  refine ⟨by decide, by decide⟩

/-- **Task shape**: `map(elements, op)` pushes one task per index, `map(elements, chunksize, op)` one task per chunk
    (`Call.ranges`; the trace checker verifies on every recorded run that each task makes exactly one operator call with the
    range of its position). Hence, whatever `raise` is and whichever tasks throw (`threw` is arbitrary): when the client
    leaves `map` without a pool destructor having run, every task of the call is done and ran exactly once, and every index
    `i < elements` lies in the range of exactly one task position (`i` itself / chunk `i / chunksize`) — so the operator was
    invoked exactly once for every index, also when some invocations threw. -/
theorem every_index_invoked_once_even_if_some_throw (s s' : St2) (hr : Reachable2 s) (c : Nat)
    (h : step2 false s (.exit c) = some s') (hstop : s.base.stop = false) :
    (∃ ts raise exc, s.spc c = .dtor ts raise ts.length exc ∧ ∀ t ∈ ts, s.base.ts t = .done ∧ s.base.exec t = 1) ∧
    (∀ n i k, i < n → ((∃ p, (elemRanges n)[k]? = some p ∧ p.1 ≤ i ∧ i < p.2) ↔ k = i)) ∧
    (∀ n cs i k, 0 < cs → i < n → ((∃ p, (chunks n cs)[k]? = some p ∧ p.1 ≤ i ∧ i < p.2) ↔ k = i / cs)) := by
  obtain ⟨ts, raise, exc, hpc, _, _, _, _, hdone⟩ := map_exit_implies_all_ready s s' hr c h
  exact ⟨⟨ts, raise, exc, hpc, hdone hstop⟩, fun n i k hi => elem_of_index n i k hi,
    fun n cs i k hc hi => chunk_of_index n cs i k hc hi⟩

/-- `pool_t::pool_t(threads)`, `pool_t()`, `max_size()`, `size()`: the pool has between 1 and `max_size()` workers, exactly
    the requested number when that is in range, `max_size()` by default; and `max_size() ≥ 1` whatever
    `hardware_concurrency()` answers (0 included). -/
theorem pool_size_bounds (threads hc : Nat) :
    1 ≤ clampSize threads hc ∧ clampSize threads hc ≤ maxSize hc ∧
    (1 ≤ threads → threads ≤ maxSize hc → clampSize threads hc = threads) ∧
    (threads = 0 → clampSize threads hc = 1) ∧ (maxSize hc ≤ threads → clampSize threads hc = maxSize hc) ∧
    defaultSize hc = maxSize hc ∧ 1 ≤ maxSize hc ∧ (1 ≤ hc → maxSize hc = hc) := by
  have hm := maxSize_pos hc
  refine ⟨?_, ?_, ?_, ?_, ?_, ?_, hm, ?_⟩
  · unfold clampSize; split <;> (try split) <;> omega
  · unfold clampSize; split <;> (try split) <;> omega
  · intro h1 h2; unfold clampSize; split <;> (try split) <;> omega
  · intro h0; unfold clampSize; subst h0; simp
  · intro h1; unfold clampSize; split <;> (try split) <;> omega
  · unfold defaultSize clampSize; split <;> (try split) <;> omega
  · intro h1; unfold maxSize; split <;> omega

/-- **Why `m_stop` is written under the mutex** (next to `no_lost_wakeup`). In the fine-grained model (`stepF`: predicate
    evaluation and blocking are two events, the mutex is held in between) with the seeded destructor that sets an atomic
    flag WITHOUT the mutex, a pool of ONE worker reaches, by the schedule `lostWakeupTrace` = worker evaluates the
    predicate (false) · destructor sets stop · destructor notifies (nobody waits yet) · worker blocks, a state in which
    invariant `J` fails and nothing but a spurious wake-up can ever happen: the destructor is in `join`, the worker sleeps.
    With the destructor as coded (`dStop` needs the mutex) the schedule is impossible. -/
theorem stop_without_lock_loses_wakeup :
    ∃ sf, runF 1 (initF 1) lostWakeupTrace = some sf ∧ ¬ J sf.s ∧ Quiescent sf.s ∧
      sf.s.cpc 1 = .joining ∧ sf.s.wpc 0 = .sleeping ∧ sf.s.stop = true ∧
      runF 1 (initF 1) [.predFalse 0, .atom (.dStop 1)] = none :=
  ⟨_, lost_run, lost_not_J, lost_quiescent, by simp [lostState, upd], by simp [lostState, upd], rfl, by decide⟩

/-- **The atomic `wSleep` is justified by the mutex**: in the fine-grained model (predicate evaluation and blocking are two
    events, the mutex is held in between, events that need the mutex are disabled meanwhile) every run in which `m_stop` is
    only written under the mutex stays inside the reachable states of the atomic model; in particular `no_lost_wakeup`
    (invariant `J`) holds at every point of it. `stop_without_lock_loses_wakeup` is the converse: one `stopNoLock` breaks it. -/
theorem locked_fine_grained_no_lost_wakeup (nw : Nat) (es : List EvF) (f : StF)
    (hne : ∀ e ∈ es, usesStopNoLock e = false) (h : runF nw (initF nw) es = some f) : Reachable f.s ∧ J f.s := by
  obtain ⟨hr, _⟩ := fine_refines_atomic nw es (initF nw) f ⟨nw, [], rfl⟩ rfl (fun w hw => by cases hw) hne h
  exact ⟨hr, no_lost_wakeup f.s hr⟩

/-- every client call has returned, no task is queued, and if a destructor ran every worker has exited -/
def Complete (s : St) : Prop :=
  (∀ c, s.cpc c = .idle ∨ s.cpc c = .finished) ∧ s.queue = [] ∧ (s.stop = true → ∀ w, w < s.nw → s.wpc w = .exited)

/-- **Deadlock freedom**: in every reachable state of a pool with at least one worker that is not complete (a call has not
    returned, a task is queued, or a destructor waits for a worker) some event of the pool itself — not a wake-up, not
    the start of a new call — is enabled. -/
theorem deadlock_free (s : St) (hr : Reachable s) (hnw : 0 < s.nw) (hnc : ¬ Complete s) :
    ∃ e s', isWake e = false ∧ startsCall e = false ∧ step s e = some s' := by
  apply Classical.byContradiction
  intro hne
  apply hnc
  apply quiescent_complete s hr hnw
  intro e h1 h2
  cases hst : step s e with
  | none => rfl
  | some s' => exact absurd ⟨e, s', h1, h2, hst⟩ hne

/-- **Variant function** (liveness beyond `quiescent_complete`). `mu C T s` = Σ workers (`exited` 0, `sleeping` nw, `ready` /
    `running` nw+1) + Σ tasks below `T` (`queued` 2, `running` 1) + Σ client calls below `C` (`pushed` / `stopSet` nw+2,
    `waiting` / `joining` 1, sequential loop 2·(calls left) + 1 between calls). In every reachable state whose client calls
    and tasks have ids below `C`, `T`: every event that is not the start of a new client call keeps these bounds, strictly
    DECREASES `mu` unless it is a wake-up, and a wake-up (spurious or the one `notify_one` chose) raises it by exactly 1. -/
theorem progress_measure_decreases (C T : Nat) (s s' : St) (e : Ev) (hr : Reachable s) (hb : Bnd C T s)
    (hstart : startsCall e = false) (h : step s e = some s') :
    Bnd C T s' ∧ (isWake e = false → mu C T s' < mu C T s) ∧ (isWake e = true → mu C T s' = mu C T s + 1) :=
  progress_step C T s s' e hr hb hstart h

/-- Hence a run without new client calls makes at most `mu + (number of wake-ups)` steps of the pool itself: with finitely
    many spurious wake-ups every run stops, and by `deadlock_free` / `quiescent_complete` it can only stop in a complete
    state (every call returned, queue empty, after a destructor every worker exited). -/
theorem run_without_new_calls_bounded (C T : Nat) (es : List Ev) (s s' : St) (hr : Reachable s) (hb : Bnd C T s)
    (hns : ∀ e ∈ es, startsCall e = false) (h : run s es = some s') :
    others es + mu C T s' ≤ mu C T s + wakes es :=
  (run_bounded C T es s s' hr hb hns h).1

/-- The hypothesis `0 < nw` of `quiescent_complete` / `deadlock_free` is discharged for every pool the constructors can
    build: whatever number of threads is requested and whatever `hardware_concurrency()` answers, a run of the pool
    `pool_t(threads)` can only stop (nothing but wake-ups and new calls enabled) in a complete state. -/
theorem constructed_pool_quiescent_complete (threads hc : Nat) (es : List Ev) (s : St)
    (h : run (init (clampSize threads hc)) es = some s) (hq : Quiescent s) : Complete s := by
  have hnw : s.nw = clampSize threads hc := run_nw _ es s h
  exact quiescent_complete s ⟨_, es, h⟩ (by rw [hnw]; exact (pool_size_bounds threads hc).1) hq

/-! ### non-vacuity of the gap-closing theorems -/

/-- two workers, `map` of two tasks with `raise`, task 0 throws: `get()` rethrows, the destructor waits both futures, the
    exception of task 0 leaves `map` after task 1 finished -/
def sectionRun : List Ev2 :=
  [.base (.cPush 0 [0, 1] true), .base (.cNotify 0 none), .base (.wTake 0), .base (.wTake 1), .bBegin 0 true,
   .base (.wRunEnd 0 true), .bWait 0, .base (.wRunEnd 1 false), .dWait 0, .dWait 0, .exit 0]

example : ((run2 false (init2 2) sectionRun).map fun s => (s.spc 0, s.base.cpc 0, s.base.ts 0, s.base.ts 1, s.base.exec 1))
    = some (.out (some 0), .finished, .done, .done, 1) := by decide

/-- the state before the exit: its hypotheses (`Reachable2`, an enabled `exit`) are satisfiable -/
example : ∃ s s', Reachable2 s ∧ step2 false s (.exit 0) = some s' ∧ s.base.stop = false := by
  have h : (run2 false (init2 2) (sectionRun.take 10)).isSome = true := by decide
  obtain ⟨s, hs⟩ := Option.isSome_iff_exists.mp h
  have h2 : ((run2 false (init2 2) (sectionRun.take 10)).bind fun s => step2 false s (.exit 0)).isSome = true := by decide
  rw [hs] at h2
  obtain ⟨s', hs'⟩ := Option.isSome_iff_exists.mp h2
  have h3 : ((run2 false (init2 2) (sectionRun.take 10)).map fun s => s.base.stop) = some false := by decide
  rw [hs] at h3
  exact ⟨s, s', ⟨2, _, hs⟩, hs', by simpa using h3⟩

/-- the normal path: no exception, `block` waits both, the destructor waits both again, `map` returns -/
example : ((run2 false (init2 1) [.base (.cPush 0 [0, 1] true), .base (.cNotify 0 none), .base (.wTake 0), .bBegin 0 false,
      .base (.wRunEnd 0 true), .bWait 0, .base (.wTake 0), .base (.wRunEnd 0 false), .bWait 0, .bDone 0, .dWait 0, .dWait 0,
      .exit 0]).map fun s => (s.spc 0, s.base.cpc 0)) = some (.out none, .finished) := by decide

/-- the exit is not enabled while the destructor still has a future to wait; a future that is not ready cannot be waited -/
example : run2 false (init2 2) (sectionRun.take 8 ++ [.exit 0]) = none := by decide
example : run2 false (init2 2) (sectionRun.take 7 ++ [.dWait 0, .dWait 0]) = none := by decide

example : clampSize 0 8 = 1 ∧ clampSize 3 8 = 3 ∧ clampSize 40 8 = 8 ∧ defaultSize 8 = 8 ∧ maxSize 0 = 1 ∧ sizeFor 1000 0 = 1 := by
  decide

/-- an incomplete reachable state (a queued task, the worker still ready) -/
example : ∃ s, Reachable s ∧ 0 < s.nw ∧ ¬ Complete s := by
  have h : (run (init 1) [.cPush 0 [0] false]).isSome = true := by decide
  obtain ⟨s, hs⟩ := Option.isSome_iff_exists.mp h
  have h2 : ((run (init 1) [.cPush 0 [0] false]).map fun s => (s.nw, s.queue)) = some (1, [0]) := by decide
  rw [hs] at h2
  simp only [Option.map_some, Option.some.injEq, Prod.mk.injEq] at h2
  refine ⟨s, ⟨1, _, hs⟩, by omega, ?_⟩
  rintro ⟨_, hq, _⟩
  rw [hq] at h2; cases h2.2

/-- the measure along the tail of `demoRun` (after the `map` call was pushed): 2 workers, tasks 0 and 1, client 0 -/
example : ((run (init 2) (demoRun.take 2)).map fun s => mu 1 2 s) = some 13 ∧
    ((run (init 2) (demoRun.take 3)).map fun s => mu 1 2 s) = some 12 ∧
    ((run (init 2) (demoRun.take 4)).map fun s => mu 1 2 s) = some 10 ∧
    ((run (init 2) (demoRun.take 9)).map fun s => mu 1 2 s) = some 5 := by decide

/-- `Bnd` and the hypotheses of `progress_measure_decreases` are satisfiable -/
example : Bnd 0 0 (init 3) := ⟨fun _ _ => rfl, fun _ _ => rfl⟩

/-- a fine-grained run with the lock discipline: the worker evaluates its predicate, blocks, THEN the destructor gets the mutex -/
example : ((runF 1 (initF 1) [.predFalse 0, .block 0, .atom (.dStop 1), .atom (.cNotify 1 none), .atom (.wExit 0),
    .atom (.dJoined 1)]).map fun f => (f.s.wpc 0, f.s.cpc 1)) = some (.exited, .finished) := by decide

end NanoVerif.Pool
