import NanoVerif.Proofs.Objective
import NanoVerif.Proofs.Reduce
/-!
  C09 — ML objectives equal their definitions for any thread count and batch size.

  Property theorems about `Model/Objective.lean` (the model of `src/linear/function.cpp`, `src/linear/accumulator.cpp`,
  `src/linear/util.cpp`, `src/gboost/function.cpp`, `src/gboost/accumulator.cpp`, `include/nano/core/reduce.h` and the
  chunking of `pool_t::map` / `*_iterator_t::loop`), in exact arithmetic: `α` is any linear ordered field.

  Quantifiers of every `*_eq_def` theorem: every number of samples `n`, every batch size `batch ≥ 1`, every number of
  workers `≥ 1`, **every** assignment `asg` of the chunks to existing workers (`ValidAsg`: one worker per chunk — the
  schedule the pool happened to produce), every loss (`L i o`, `dL i o`: value and gradient w.r.t. the outputs of sample
  `i`; arbitrary functions), every input matrix `x`, every parameter vector. The conclusion has the form
  `∃ out, <modelled computation> = some out ∧ out = <naive definition>`: the computation does not hit an assert and its
  result is the plain per-sample definition. A batch that is dropped or counted twice under some partition, an
  accumulator that is skipped or added twice by `sum_reduce`, a division by anything but the number of samples would
  contradict them.

  (`n = 0` is not excluded: both sides are then `0 / 0`, which is `0` in a Lean field and NaN in C++; the property is
  about `n ≥ 1`.)

  Also in `Proofs/ObjectiveSkeleton.lean` (listed as obligations): `chunks_tile`, `mapReduce_eq`, `fillChunks_chunks`,
  `runChunks_none_of_bad_worker`, `mapReduce_none_of_batch_zero`, `mapReduce_none_of_no_worker`.
-/
set_option linter.unusedSectionVars false
set_option linter.unusedVariables false

namespace NanoVerif.Objective
variable {α : Type} [Field α] [LinearOrder α] [IsStrictOrderedRing α]

/-! ### linear models -/

/-- the post-processing of the reduced accumulator in `linear::function_t::do_vgrad`, as a function -/
theorem linear_canonical {t s : Nat} (sqrt : α → α) (l1 l2 : α) (W : Nat → Nat → α) (b : Nat → α)
    (L : Nat → Vector α t → α) (dL : Nat → Vector α t → Vector α t) (x : Nat → Nat → α)
    (workers n batch : Nat) (asg : List Nat) (workers' batch' : Nat) (asg' : List Nat)
    (hw : 0 < workers) (hb : 0 < batch) (hasg : ValidAsg workers n batch asg)
    (hw' : 0 < workers') (hb' : 0 < batch') (hasg' : ValidAsg workers' n batch' asg') :
    linearVGrad (s := s) sqrt l1 l2 W b L dL x workers n batch asg
      = linearVGrad (s := s) sqrt l1 l2 W b L dL x workers' n batch' asg' := by
  unfold linearVGrad
  rw [linear_acc_canonical W b L dL x workers n batch asg hw hb hasg,
    linear_acc_canonical W b L dL x workers' n batch' asg' hw' hb' hasg']

/-- **value of the linear objective** = `mean_i loss_i(W x_i + b) + l1·mean|W| + (l2/2)·mean W²`, for every
    assignment of chunks to workers, batch size and worker count (`sqrt` is any function with `sqrt l2 ² = l2`) -/
theorem linear_value_eq_def {t s : Nat} (sqrt : α → α) (l1 l2 : α) (W : Nat → Nat → α) (b : Nat → α)
    (L : Nat → Vector α t → α) (dL : Nat → Vector α t → Vector α t) (x : Nat → Nat → α)
    (workers n batch : Nat) (asg : List Nat)
    (hw : 0 < workers) (hb : 0 < batch) (hasg : ValidAsg workers n batch asg)
    (h1 : 0 ≤ l1) (h2 : 0 ≤ l2) (hs : sqrt l2 * sqrt l2 = l2) :
    ∃ out, linearVGrad (s := s) sqrt l1 l2 W b L dL x workers n batch asg = some out ∧
      out.fx = linearDefValue t s l1 l2 W b L x n := by
  unfold linearVGrad
  rw [linear_acc_canonical W b L dL x workers n batch asg hw hb hasg]
  refine ⟨_, rfl, ?_⟩
  simp only [LinAcc.divN, lin_msum_vm1, List.map_map]
  unfold linearDefValue
  have hdata : ((fun a : LinAcc α t s => a.vm1) ∘ linTerm W b L dL x) = fun i => L i (predict t s W b (x i)) := rfl
  rw [hdata]
  have hsq : (fun w : α => (sqrt l2 * w) * (sqrt l2 * w)) = fun w => l2 * (w * w) := by
    funext w
    calc (sqrt l2 * w) * (sqrt l2 * w) = (sqrt l2 * sqrt l2) * (w * w) := by ring
      _ = l2 * (w * w) := by rw [hs]
  rw [hsq, fsum_map_mul_left]
  rcases h1.lt_or_eq with hl1 | hl1
  · rcases h2.lt_or_eq with hl2 | hl2
    · simp only [hl1, hl2, if_true]; ring
    · subst hl2
      simp only [hl1, if_true, lt_irrefl, if_false]; ring
  · subst hl1
    rcases h2.lt_or_eq with hl2 | hl2
    · simp only [hl2, if_true, lt_irrefl, if_false]; ring
    · subst hl2
      simp only [lt_irrefl, if_false]; ring

/-- **gradient of the linear objective**: `∂/∂b_k = mean_i ∂loss_i/∂o_k`,
    `∂/∂W_kj = mean_i ∂loss_i/∂o_k · x_ij + l1·sign(W_kj)/|W| + l2·W_kj/|W|` (`idx = k·s + j` row-major) -/
theorem linear_grad_eq_def {t s : Nat} (sqrt : α → α) (l1 l2 : α) (W : Nat → Nat → α) (b : Nat → α)
    (L : Nat → Vector α t → α) (dL : Nat → Vector α t → Vector α t) (x : Nat → Nat → α)
    (workers n batch : Nat) (asg : List Nat)
    (hw : 0 < workers) (hb : 0 < batch) (hasg : ValidAsg workers n batch asg)
    (h1 : 0 ≤ l1) (h2 : 0 ≤ l2) :
    ∃ out, linearVGrad (s := s) sqrt l1 l2 W b L dL x workers n batch asg = some out ∧
      (∀ (k : Nat) (hk : k < t), out.gb[k] = linearDefGradB t s W b dL x n ⟨k, hk⟩) ∧
      (∀ (idx : Nat) (hi : idx < t * s),
        out.gW[idx] = linearDefGradW t s l1 l2 W b dL x n ⟨idx / s, idx_div_lt hi⟩ (idx % s)) := by
  unfold linearVGrad
  rw [linear_acc_canonical W b L dL x workers n batch asg hw hb hasg]
  refine ⟨_, rfl, ?_, ?_⟩
  · intro k hk
    simp only [LinAcc.divN, vdivN_get, lin_msum_gb1 _ k hk, List.map_map]
    rfl
  · intro idx hi
    have hacc : (LinAcc.divN (msum LinAcc.add LinAcc.zero ((List.range n).map (linTerm (s := s) W b L dL x))) n).gW1[idx]
        = fsum ((List.range n).map fun i => (dL i (predict t s W b (x i)))[idx / s]'(idx_div_lt hi) * x i (idx % s))
          / (n : α) := by
      simp only [LinAcc.divN, vdivN_get, lin_msum_gW1 _ idx hi, List.map_map]
      congr 2
      apply List.map_congr_left
      intro i _
      simp [linTerm]
    unfold linearDefGradW
    simp only [Fin.getElem_fin]
    rcases h1.lt_or_eq with hl1 | hl1
    · rcases h2.lt_or_eq with hl2 | hl2
      · simp only [hl1, hl2, if_true, Vector.getElem_ofFn, hacc]
      · subst hl2
        simp only [hl1, if_true, lt_irrefl, if_false, Vector.getElem_ofFn, hacc]; ring
    · subst hl1
      rcases h2.lt_or_eq with hl2 | hl2
      · simp only [hl2, if_true, lt_irrefl, if_false, Vector.getElem_ofFn, hacc]; ring
      · subst hl2
        simp only [lt_irrefl, if_false, hacc]; ring

/-- the regularisation terms of `linearDefValue` in textbook notation -/
theorem linearDefValue_spec {t s : Nat} (l1 l2 : α) (W : Nat → Nat → α) (b : Nat → α) (L : Nat → Vector α t → α)
    (x : Nat → Nat → α) (n : Nat) :
    linearDefValue t s l1 l2 W b L x n
      = ((List.range n).map fun i => L i (predict t s W b (x i))).sum / (n : α)
        + l1 * (((wlist t s W).map fun w => |w|).sum / ((t * s : Nat) : α))
        + l2 / 2 * (((wlist t s W).map fun w => w ^ 2).sum / ((t * s : Nat) : α)) := by
  unfold linearDefValue
  rw [fsum_eq_sum, fsum_eq_sum, fsum_eq_sum]
  have ha : (fun w : α => absF w) = fun w => |w| := funext absF_eq
  have hq : (fun w : α => w * w) = fun w => w ^ 2 := by funext w; ring
  rw [show (absF : α → α) = fun w => absF w from rfl, ha, hq]

/-- the result does not depend on which worker executed which chunk, nor on the number of workers -/
theorem linear_assignment_independent {t s : Nat} (sqrt : α → α) (l1 l2 : α) (W : Nat → Nat → α) (b : Nat → α)
    (L : Nat → Vector α t → α) (dL : Nat → Vector α t → Vector α t) (x : Nat → Nat → α)
    (n batch workers workers' : Nat) (asg asg' : List Nat) (hb : 0 < batch)
    (hw : 0 < workers) (hasg : ValidAsg workers n batch asg)
    (hw' : 0 < workers') (hasg' : ValidAsg workers' n batch asg') :
    linearVGrad (s := s) sqrt l1 l2 W b L dL x workers n batch asg
      = linearVGrad (s := s) sqrt l1 l2 W b L dL x workers' n batch asg' :=
  linear_canonical sqrt l1 l2 W b L dL x workers n batch asg workers' batch asg' hw hb hasg hw' hb hasg'

/-- the result does not depend on the batch size (nor on the schedules of the two runs) -/
theorem linear_batch_independent {t s : Nat} (sqrt : α → α) (l1 l2 : α) (W : Nat → Nat → α) (b : Nat → α)
    (L : Nat → Vector α t → α) (dL : Nat → Vector α t → Vector α t) (x : Nat → Nat → α)
    (n batch batch' workers workers' : Nat) (asg asg' : List Nat) (hb : 0 < batch) (hb' : 0 < batch')
    (hw : 0 < workers) (hasg : ValidAsg workers n batch asg)
    (hw' : 0 < workers') (hasg' : ValidAsg workers' n batch' asg') :
    linearVGrad (s := s) sqrt l1 l2 W b L dL x workers n batch asg
      = linearVGrad (s := s) sqrt l1 l2 W b L dL x workers' n batch' asg' :=
  linear_canonical sqrt l1 l2 W b L dL x workers n batch asg workers' batch' asg' hw hb hasg hw' hb' hasg'

/-- error branches: `assert(chunksize >= 1)`, and no accumulator to reduce into -/
theorem linear_none_of_batch_zero {t s : Nat} (sqrt : α → α) (l1 l2 : α) (W : Nat → Nat → α) (b : Nat → α)
    (L : Nat → Vector α t → α) (dL : Nat → Vector α t → Vector α t) (x : Nat → Nat → α)
    (workers n : Nat) (asg : List Nat) :
    linearVGrad (s := s) sqrt l1 l2 W b L dL x workers n 0 asg = none := by
  unfold linearVGrad
  rw [mapReduce_none_of_batch_zero]

/-! ### gradient boosting: bias -/

/-- **bias objective** = `(mean_i loss_i(x), mean_i ∇loss_i(x))` -/
theorem bias_eq_def {t : Nat} (L : Nat → Vector α t → α) (dL : Nat → Vector α t → Vector α t) (x : Vector α t)
    (workers n batch : Nat) (asg : List Nat)
    (hw : 0 < workers) (hb : 0 < batch) (hasg : ValidAsg workers n batch asg) :
    ∃ out, biasVGrad L dL x workers n batch asg = some out ∧
      out.1 = biasDefValue L x n ∧
      ∀ (k : Nat) (hk : k < t), out.2[k] = biasDefGrad dL x n ⟨k, hk⟩ := by
  unfold biasVGrad
  rw [bias_acc_canonical L dL x workers n batch asg hw hb hasg]
  refine ⟨_, rfl, ?_, ?_⟩
  · simp only [GbAcc.divN, gb_msum_vm1, List.map_map]
    rfl
  · intro k hk
    simp only [GbAcc.divN, vdivN_get, gb_msum_gb1 _ k hk, List.map_map]
    rfl

theorem bias_assignment_independent {t : Nat} (L : Nat → Vector α t → α) (dL : Nat → Vector α t → Vector α t)
    (x : Vector α t) (n batch workers workers' : Nat) (asg asg' : List Nat) (hb : 0 < batch)
    (hw : 0 < workers) (hasg : ValidAsg workers n batch asg)
    (hw' : 0 < workers') (hasg' : ValidAsg workers' n batch asg') :
    biasVGrad L dL x workers n batch asg = biasVGrad L dL x workers' n batch asg' := by
  unfold biasVGrad
  rw [bias_acc_canonical L dL x workers n batch asg hw hb hasg,
    bias_acc_canonical L dL x workers' n batch asg' hw' hb hasg']

theorem bias_batch_independent {t : Nat} (L : Nat → Vector α t → α) (dL : Nat → Vector α t → Vector α t)
    (x : Vector α t) (n batch batch' workers workers' : Nat) (asg asg' : List Nat) (hb : 0 < batch) (hb' : 0 < batch')
    (hw : 0 < workers) (hasg : ValidAsg workers n batch asg)
    (hw' : 0 < workers') (hasg' : ValidAsg workers' n batch' asg') :
    biasVGrad L dL x workers n batch asg = biasVGrad L dL x workers' n batch' asg' := by
  unfold biasVGrad
  rw [bias_acc_canonical L dL x workers n batch asg hw hb hasg,
    bias_acc_canonical L dL x workers' n batch' asg' hw' hb' hasg']

/-! ### gradient boosting: scale -/

/-- the output the loss is evaluated at: unassigned samples (`group = -1`) are **not** scaled (strong learner output
    only), assigned ones get `soutput + x[group] · woutput` -/
theorem scale_output_spec {t G : Nat} (x : Vector α G) (grp : Nat → Int) (so wo : Nat → Vector α t) (i : Nat) :
    (grp i < 0 → scaleOutput x grp so wo i = so i) ∧
    (∀ (q : Nat) (hq : q < G), grp i = (q : Int) → ∀ (k : Nat) (hk : k < t),
        (scaleOutput x grp so wo i)[k] = (so i)[k] + x[q] * (wo i)[k]) := by
  constructor
  · intro h
    apply Vector.ext
    intro k hk
    simp [scaleOutput, scaleOf, h]
  · intro q hq hg k hk
    have hn : ¬ ((q : Int) < 0) := by omega
    simp [scaleOutput, scaleOf, hg, hn, hq]

/-- **scale objective** = `mean_i loss_i(o_i)` with `o_i` as in `scale_output_spec`; the gradient w.r.t. the scale of
    group `q` is `mean_i [group_i = q] ∇loss_i(o_i) · w_i` (the mean is over **all** `n` samples; unassigned samples
    contribute to the value but to no gradient coordinate) -/
theorem scale_eq_def {t G : Nat} (L : Nat → Vector α t → α) (dL : Nat → Vector α t → Vector α t) (x : Vector α G)
    (grp : Nat → Int) (so wo : Nat → Vector α t) (workers n batch : Nat) (asg : List Nat)
    (hw : 0 < workers) (hb : 0 < batch) (hasg : ValidAsg workers n batch asg)
    (hgrp : ∀ i, i < n → grp i < (G : Int)) :
    ∃ out, scaleVGrad L dL x grp so wo workers n batch asg = some out ∧
      out.1 = scaleDefValue L x grp so wo n ∧
      ∀ (q : Nat) (hq : q < G), out.2[q] = scaleDefGrad dL x grp so wo n q := by
  unfold scaleVGrad
  have hall : (List.range n).all (fun i => decide (grp i < (G : Int))) = true := by
    rw [List.all_eq_true]
    intro i hi
    simpa using hgrp i (List.mem_range.1 hi)
  rw [if_pos hall, scale_acc_canonical L dL x grp so wo workers n batch asg hw hb hasg]
  refine ⟨_, rfl, ?_, ?_⟩
  · simp only [GbAcc.divN, gb_msum_vm1, List.map_map]
    rfl
  · intro q hq
    simp only [GbAcc.divN, vdivN_get, gb_msum_gb1 _ q hq, List.map_map]
    congr 2
    apply List.map_congr_left
    intro i _
    simp [scaleTerm]

/-- a sample assigned to a group the parameter vector does not have is refused (C++: out-of-bounds read of `x(group)`) -/
theorem scale_none_of_bad_group {t G : Nat} (L : Nat → Vector α t → α) (dL : Nat → Vector α t → Vector α t)
    (x : Vector α G) (grp : Nat → Int) (so wo : Nat → Vector α t) (workers n batch : Nat) (asg : List Nat)
    (i : Nat) (hi : i < n) (hbad : (G : Int) ≤ grp i) :
    scaleVGrad L dL x grp so wo workers n batch asg = none := by
  unfold scaleVGrad
  rw [if_neg]
  intro hall
  rw [List.all_eq_true] at hall
  have := hall i (List.mem_range.2 hi)
  simp at this
  omega

theorem scale_assignment_independent {t G : Nat} (L : Nat → Vector α t → α) (dL : Nat → Vector α t → Vector α t)
    (x : Vector α G) (grp : Nat → Int) (so wo : Nat → Vector α t) (n batch workers workers' : Nat)
    (asg asg' : List Nat) (hb : 0 < batch)
    (hw : 0 < workers) (hasg : ValidAsg workers n batch asg)
    (hw' : 0 < workers') (hasg' : ValidAsg workers' n batch asg') :
    scaleVGrad L dL x grp so wo workers n batch asg = scaleVGrad L dL x grp so wo workers' n batch asg' := by
  unfold scaleVGrad
  rw [scale_acc_canonical L dL x grp so wo workers n batch asg hw hb hasg,
    scale_acc_canonical L dL x grp so wo workers' n batch asg' hw' hb hasg']

theorem scale_batch_independent {t G : Nat} (L : Nat → Vector α t → α) (dL : Nat → Vector α t → Vector α t)
    (x : Vector α G) (grp : Nat → Int) (so wo : Nat → Vector α t) (n batch batch' workers workers' : Nat)
    (asg asg' : List Nat) (hb : 0 < batch) (hb' : 0 < batch')
    (hw : 0 < workers) (hasg : ValidAsg workers n batch asg)
    (hw' : 0 < workers') (hasg' : ValidAsg workers' n batch' asg') :
    scaleVGrad L dL x grp so wo workers n batch asg = scaleVGrad L dL x grp so wo workers' n batch' asg' := by
  unfold scaleVGrad
  rw [scale_acc_canonical L dL x grp so wo workers n batch asg hw hb hasg,
    scale_acc_canonical L dL x grp so wo workers' n batch' asg' hw' hb' hasg']

/-! ### gradient boosting: per-sample gradients -/

/-- **grads objective**: value `mean_i loss_i(o_i)`, gradient `∇loss_i(o_i) / n` for every sample — whatever the
    buffers `m_values` / `m_vgrads` held before the call (they are completely overwritten) and whatever the batch -/
theorem grads_eq_def {t : Nat} (L : Nat → Vector α t → α) (dL : Nat → Vector α t → Vector α t) (o : Nat → Vector α t)
    (values0 : List α) (vgrads0 : List (Vector α t)) (n batch : Nat) (hb : 0 < batch)
    (hv : values0.length = n) (hg : vgrads0.length = n) :
    gradsVGrad L dL o values0 vgrads0 n batch = some (gradsDef L dL o n) := by
  unfold gradsVGrad
  rw [if_neg (by omega)]
  simp only [fillChunks_chunks _ values0 n batch hb hv, fillChunks_chunks _ vgrads0 n batch hb hg,
    List.length_map, List.length_range, List.map_map]
  rfl

theorem grads_batch_independent {t : Nat} (L : Nat → Vector α t → α) (dL : Nat → Vector α t → Vector α t)
    (o : Nat → Vector α t) (values0 values0' : List α) (vgrads0 vgrads0' : List (Vector α t)) (n batch batch' : Nat)
    (hb : 0 < batch) (hb' : 0 < batch') (hv : values0.length = n) (hg : vgrads0.length = n)
    (hv' : values0'.length = n) (hg' : vgrads0'.length = n) :
    gradsVGrad L dL o values0 vgrads0 n batch = gradsVGrad L dL o values0' vgrads0' n batch' := by
  rw [grads_eq_def L dL o values0 vgrads0 n batch hb hv hg, grads_eq_def L dL o values0' vgrads0' n batch' hb' hv' hg']

/-! ### the reduction alone (`include/nano/core/reduce.h`), as run by the driver op `reduce sum` for explicit schedules -/

/-- the `sum_reduce` of this model is the function the `reduce sum` correspondence op executes (`Model/Reduce.lean`) -/
theorem sumReduce_eq_reduce_model {M : Type} (add : M → M → M) (divN : M → Nat → M) (n : Nat) (accs : List M) :
    sumReduce add divN n accs = NanoVerif.Reduce.sumReduce add divN n accs := by
  cases accs <;> rfl

/-- `sum_reduce` over any number `≥ 1` of per-worker accumulators returns (the sum of ALL of them) / samples: no accumulator
    is left out or folded in twice, whatever the number of workers -/
theorem sumReduce_total {M : Type} [AddCommMonoid M] (divN : M → Nat → M) (n : Nat) (accs : List M) (h : accs ≠ []) :
    sumReduce (· + ·) divN n accs = some (divN accs.sum n) := by
  cases accs with
  | nil => exact absurd rfl h
  | cons a0 rest =>
    show some (divN (rest.foldl (· + ·) a0) n) = some (divN (a0 :: rest).sum n)
    rw [NanoVerif.Reduce.foldl_add_eq, List.sum_cons]

/-- … and for every schedule (which worker processed which contributions, in which order): the reduced value is
    (the sum of all contributions) / samples -/
theorem sumReduce_schedule_total {M : Type} [AddCommMonoid M] (divN : M → Nat → M) (n : Nat) (sched : List (List M))
    (hw : sched ≠ []) :
    sumReduce (· + ·) divN n (sched.map (NanoVerif.Reduce.accumulate (· + ·) 0)) = some (divN (sched.map List.sum).sum n) := by
  have hm : sched.map (NanoVerif.Reduce.accumulate (· + ·) (0 : M)) = sched.map List.sum :=
    List.map_congr_left (fun x _ => NanoVerif.Reduce.accumulate_eq_sum x)
  rw [sumReduce_total divN n _ (by simpa using hw), hm]

example : sumReduce (· + ·) (fun (a : Nat) n => a / n) 2 [1, 2, 3, 4, 5, 6, 7] = some 14 := by decide

/-! ### non-vacuity -/

-- 5 samples in batches of 2 on 3 workers: three chunks; the schedule "chunk 0 → worker 2, chunk 1 → worker 0,
-- chunk 2 → worker 2" is valid, a schedule naming worker 3 is not, a schedule with a missing entry is not
example : chunks 5 2 = [(0, 2), (2, 4), (4, 5)] := by decide
example : ValidAsg 3 5 2 [2, 0, 2] := by decide
example : ¬ ValidAsg 3 5 2 [2, 3, 2] := by decide
example : ¬ ValidAsg 3 5 2 [2, 0] := by decide
-- batch larger than the number of samples: one chunk; batch 1: one chunk per sample
example : chunks 5 7 = [(0, 5)] := by decide
example : chunks 3 1 = [(0, 1), (1, 2), (2, 3)] := by decide
example : chunks 0 4 = [] := by decide
-- the hypotheses of `linear_value_eq_def` are satisfiable over ℚ-like fields: `sqrt := fun _ => 3` at `l2 = 9`
example : ∃ (sqrt : α → α) (l2 : α), 0 ≤ l2 ∧ sqrt l2 * sqrt l2 = l2 ∧ 0 < l2 :=
  ⟨fun _ => 3, 9, by norm_num, by norm_num, by norm_num⟩
-- the skeleton on integers-as-accumulators (M = Nat, term i = i + 1): 5 samples, batch 2, schedule [2, 0, 2]
example : mapReduce (· + ·) 0 (fun a n => a / n) (fun a b e => a + msum (· + ·) 0 ((rangeList b e).map (· + 1)))
    3 5 2 [2, 0, 2] = some 3 := by decide
-- … and it refuses a schedule that names a worker without accumulator, and a zero batch
example : mapReduce (· + ·) 0 (fun a n => a / n) (fun a b e => a + msum (· + ·) 0 ((rangeList b e).map (· + 1)))
    3 5 2 [2, 3, 2] = none := by decide
example : mapReduce (· + ·) 0 (fun a n => a / n) (fun a b e => a + msum (· + ·) 0 ((rangeList b e).map (· + 1)))
    3 5 0 [] = none := by decide
-- the slice-writing loop overwrites stale contents
example : fillChunks (fun i => i * 10) [7, 7, 7, 7, 7] (chunks 5 2) = [0, 10, 20, 30, 40] := by decide

end NanoVerif.Objective
