import NanoVerif.Proofs.Objective
import NanoVerif.Proofs.Reduce
import NanoVerif.Proofs.ObjectiveIter
/-!
  C09 — ML objectives equal their definitions for any thread count and batch size.

  Property theorems about `Model/Objective.lean` + `Model/ObjectiveIter.lean` (the model of `src/linear/function.cpp`,
  `src/linear/accumulator.cpp`, `src/linear/util.cpp`, `src/gboost/function.cpp`, `src/gboost/accumulator.cpp`,
  `include/nano/core/reduce.h`, the chunking of `pool_t::map`) and `Model/Iterator.lean` (the model of
  `src/dataset/iterator.cpp`, `include/nano/dataset/iterator.h` and the `make_*_stats` loops of `src/dataset/stats.cpp`, on top
  of the C14 scaling model `Model/Scaling.lean`); the objectives in exact arithmetic (`α` any linear ordered field), the
  iterator theorems for EVERY scalar type (they are about which cells go where, so they hold at `Float` too).

  ## Gap table (gap-closing round): every function of the anchored files

  `modelled` = executable Lean definition, run in `driver_c09` against the code; `outside` = not needed by the statement.

  src/dataset/iterator.cpp + include/nano/dataset/iterator.h
    features_per_thread, select_iterator_t (ctor, 12 `loop`s)      outside  (feature-selection models: the weak learners, C10)
    base_dataset_iterator_t::concurrency / dataset / map           modelled `Iter.workers`; `map` = `Objective.chunks` + schedule `asg`
    targets_iterator_t::targets_iterator_t                         modelled `Iter.make` (`makeStats … D.enT D.targ`; no-target branch outside)
    targets_iterator_t::targets(tensor4d_map_t)                    modelled `scaleRows` (C14 `scaleRow`, NaN → 0)
    targets_iterator_t::targets(tnum, range)                       modelled `Iter.serveT` (cached / uncached, `assert(tnum < …)`)
    targets_iterator_t::cache_targets                              modelled `Iter.cacheTargets` (budget, no reset, `fillCache`)
    targets_iterator_t::batch / scaling (setters + getters)        modelled `Iter.setBatch` / `Iter.setScaling`, fields
    targets_iterator_t::samples / targets_stats                    modelled fields `samples`, `tstats` (dumped and compared)
    targets_iterator_t::loop                                       modelled `Iter.loopT`
    flatten_iterator_t::flatten_iterator_t                         modelled `Iter.make` (`makeStats … D.enF D.flat`)
    flatten_iterator_t::flatten(tensor2d_map_t) / (tnum, range)    modelled `scaleRows` / `Iter.serveF`
    flatten_iterator_t::cache_flatten                              modelled `Iter.cacheFlatten` (reset, budget, `fillCache`);
                                                                   the `catch (...)` (only `std::bad_alloc` can reach it) outside
    flatten_iterator_t::loop ×2, flatten_stats                     modelled `Iter.loopFT`, `Iter.loopF`, field `fstats`
    m_flatten_buffers / m_targets_buffers [tnum]                   scratch: written and read inside one chunk by worker `tnum`;
                                                                   only the guard is modelled; races are outside (TSan, C18)
  src/dataset/stats.cpp
    nan2zero, ::update, ::done, scalar_stats_t ctor, scale ×2      modelled by C14 (`Scaling.nan2zero/Acc.push/finalize/Acc.init/scaleRow`), imported
    make_flatten_stats / make_targets_stats                        modelled `statsAcc`, `makeStats` (THEIR batching) = `defStats` (proved)
    make_feature_stats, upscale ×3, make_scaling, make_*_features,
    xclass_stats_t::*, alloc/update/done(xclass)                   outside  (C14 / C10; not used by the four objectives)
  src/linear/function.cpp
    isize / tsize / function_t ctor                                modelled `linearSize`, the two asserts (`linearVGradIter` guards); the
                                                                   convex / smooth / strong-convexity flags are C06's (Gen/Flags)
    clone                                                          outside  (C18 / C19)
    do_vgrad                                                       modelled `linearVGrad` (+ `linearVGradIter` on the iterator),
                                                                   value-only branch `gx.size() == 0`: `linearValue`; `weights(x)` /
                                                                   `bias(x)`: `unpackW` / `unpackB`
  src/linear/accumulator.cpp   ctor, clear, +=, /=                 modelled `LinAcc.zero/add/divN` (m_outputs/m_values/m_vgrads: scratch)
  src/linear/util.cpp
    predict ×2                                                     modelled `predict`
    evaluate                                                       outside  (loss.error; same loop as `Iter.loopFT` with scaling none)
    feature_importance, sparsity_ratio, make_param_space           outside  (reporting / tuning: C11, C13)
  src/gboost/function.cpp
    ::clear                                                        modelled `List.replicate workers GbAcc.zero` in `mapReduce`
    scale_function_t ctor / clone                                  outside  (flags: C06; the ctor's dims asserts are never violated by the harness)
    scale_function_t::do_vgrad                                     modelled `scaleVGrad`, `scaleVGradIter` (any number of groups incl. 1; unassigned ⇒ scale 0)
    bias_function_t ctor / clone / do_vgrad                        outside / outside / modelled `biasVGrad`, `biasVGradIter`
    grads_function_t ctor / clone / do_vgrad / gradients           outside / outside / modelled `gradsVGrad`, `gradsVGradIter` (`loss(target, output)` order)
  src/gboost/accumulator.cpp   ctor, clear, +=, /=, update, vgrad  modelled `GbAcc.zero/add/divN/update/vgrad`
  include/nano/core/reduce.h
    sum_reduce                                                     modelled `sumReduce` (+ `Model/Reduce.lean`, op family `reduce sum`)
    min_reduce, min_reduce_feature                                 modelled in `Model/Reduce.lean` (C10's use; theorems in `Proofs/Reduce.lean`)
  include/nano/core/parallel.h
    pool_t::map(elements, chunksize, op)                           modelled `chunks` + an ARBITRARY schedule `asg` (observed through hook H1)
    queue_t, worker_t, section_t, pool_t ctor/enqueue/size, map/1  outside  (the pool protocol is C17's model)

  Contracts that remain parameters of the model
    the loss (`L i o`, `loss tg o`: arbitrary functions)           C06's subject; the harness dumps the library's values, the python oracle has own kernels
    `Data.flat s` / `Data.targ s` (raw rows of a stored sample)    PROVED for the C08 dataset model: `flatten_samplewise`, `flatten_slice`, `targets_samplewise`,
                                                                   `data_flat_is_dataset_flatten` (`Proofs/IteratorDataset.lean`); monitored at run time: the python oracle
                                                                   recomputes everything served from ONE whole-list `dataset.flatten(samples)` dump
    schedule `asg`                                                 every schedule (theorems); the observed one (driver)

  Hypotheses of the property theorems, re-examined
    `ValidAsg`, `0 < batch`, `0 < workers`       the code's asserts; error branches covered (`*_none_of_*`)
    `0 ≤ l1, l2`, `sqrt l2 ² = l2`               parameter domain of the library (`linear::l1reg/l2reg ≥ 0`)
    `Data.WF` (rows have `columns()` cells)      C08 `columns_total`; `mapM_scaleRow_none` shows what happens otherwise (the size assert)
    `Iter.Fresh` (no stale cache)                NECESSARY: `stale_cache_witness` (kernel-checked, replayed on the real classes by corpus/C09);
                                                 guaranteed by the library's call order: `fresh_configure_then_cache`
    no `_partial` theorem.

  Quantifiers of every `*_eq_def` theorem: every number of samples `n`, every batch size `batch ≥ 1`, every number of
  workers `≥ 1`, **every** assignment `asg` of the chunks to existing workers (`ValidAsg`: one worker per chunk — the
  schedule the pool happened to produce), every loss (`L i o`, `dL i o`: value and gradient w.r.t. the outputs of sample
  `i`; arbitrary functions), every input matrix `x`, every parameter vector. The conclusion has the form
  `∃ out, <modelled computation> = some out ∧ out = <naive definition>`: the computation does not hit an assert and its
  result is the plain per-sample definition. A batch that is dropped or counted twice under some partition, an
  accumulator that is skipped or added twice by `sum_reduce`, a division by anything but the number of samples would
  contradict them. The `*_end_to_end` theorems restate them from the RAW dataset: the definition is evaluated on
  `nan2zero (scale mode stats (flatten raw))` with the C14 statistics of the raw columns, the computation runs on the
  iterator object after any configuration history.

  (`n = 0` is not excluded: both sides are then `0 / 0`, which is `0` in a Lean field and NaN in C++; the property is
  about `n ≥ 1`.)

  Also in `Proofs/ObjectiveSkeleton.lean` (listed as obligations): `chunks_tile`, `mapReduce_eq`, `fillChunks_chunks`,
  `runChunks_none_of_bad_worker`, `mapReduce_none_of_batch_zero`, `mapReduce_none_of_no_worker`; in `Proofs/Iterator*.lean`:
  `chunks_tiles`, `tiles_flatten`, `makeStats_eq_defStats`, `computeRows_eq`, `fillCache_eq`, `loopWith_eq`, `inv_make`, `inv_step`,
  `inv_run`, `fresh_step`, `fresh_configure_then_cache`.
-/
set_option linter.unusedSectionVars false
set_option linter.unusedVariables false

namespace NanoVerif.Objective
variable {α : Type} [Field α] [LinearOrder α] [IsStrictOrderedRing α]

/-! ### linear models -/

/-- the post-processing of the reduced accumulator in `linear::function_t::do_vgrad`, as a function -/
theorem linear_canonical {t s : Nat} (sqrt : α → α) (l1 l2 : α) (W : Nat → Nat → α) (b : Nat → α)
    (L : Nat → Vector α t → α) (dL : Nat → Vector α t → Vector α t) (x : Nat → Nat → α)
    (workers n batch : Nat) (asg : List Nat) (workers' batch' : Nat) (asg' : List Nat)
    (hw : 0 < workers) (hb : 0 < batch) (hasg : ValidAsg workers n batch asg)
    (hw' : 0 < workers') (hb' : 0 < batch') (hasg' : ValidAsg workers' n batch' asg') :
    linearVGrad (s := s) sqrt l1 l2 W b L dL x workers n batch asg
      = linearVGrad (s := s) sqrt l1 l2 W b L dL x workers' n batch' asg' := by
  unfold linearVGrad
  rw [linear_acc_canonical W b L dL x workers n batch asg hw hb hasg,
    linear_acc_canonical W b L dL x workers' n batch' asg' hw' hb' hasg']

/-- **value of the linear objective** = `mean_i loss_i(W x_i + b) + l1·mean|W| + (l2/2)·mean W²`, for every
    assignment of chunks to workers, batch size and worker count (`sqrt` is any function with `sqrt l2 ² = l2`) -/
theorem linear_value_eq_def {t s : Nat} (sqrt : α → α) (l1 l2 : α) (W : Nat → Nat → α) (b : Nat → α)
    (L : Nat → Vector α t → α) (dL : Nat → Vector α t → Vector α t) (x : Nat → Nat → α)
    (workers n batch : Nat) (asg : List Nat)
    (hw : 0 < workers) (hb : 0 < batch) (hasg : ValidAsg workers n batch asg)
    (h1 : 0 ≤ l1) (h2 : 0 ≤ l2) (hs : sqrt l2 * sqrt l2 = l2) :
    ∃ out, linearVGrad (s := s) sqrt l1 l2 W b L dL x workers n batch asg = some out ∧
      out.fx = linearDefValue t s l1 l2 W b L x n := by
  unfold linearVGrad
  rw [linear_acc_canonical W b L dL x workers n batch asg hw hb hasg]
  refine ⟨_, rfl, ?_⟩
  simp only [LinAcc.divN, lin_msum_vm1, List.map_map]
  unfold linearDefValue
  have hdata : ((fun a : LinAcc α t s => a.vm1) ∘ linTerm W b L dL x) = fun i => L i (predict t s W b (x i)) := rfl
  rw [hdata]
  have hsq : (fun w : α => (sqrt l2 * w) * (sqrt l2 * w)) = fun w => l2 * (w * w) := by
    funext w
    calc (sqrt l2 * w) * (sqrt l2 * w) = (sqrt l2 * sqrt l2) * (w * w) := by ring
      _ = l2 * (w * w) := by rw [hs]
  rw [hsq, fsum_map_mul_left]
  rcases h1.lt_or_eq with hl1 | hl1
  · rcases h2.lt_or_eq with hl2 | hl2
    · simp only [hl1, hl2, if_true]; ring
    · subst hl2
      simp only [hl1, if_true, lt_irrefl, if_false]; ring
  · subst hl1
    rcases h2.lt_or_eq with hl2 | hl2
    · simp only [hl2, if_true, lt_irrefl, if_false]; ring
    · subst hl2
      simp only [lt_irrefl, if_false]; ring

/-- **gradient of the linear objective**: `∂/∂b_k = mean_i ∂loss_i/∂o_k`,
    `∂/∂W_kj = mean_i ∂loss_i/∂o_k · x_ij + l1·sign(W_kj)/|W| + l2·W_kj/|W|` (`idx = k·s + j` row-major) -/
theorem linear_grad_eq_def {t s : Nat} (sqrt : α → α) (l1 l2 : α) (W : Nat → Nat → α) (b : Nat → α)
    (L : Nat → Vector α t → α) (dL : Nat → Vector α t → Vector α t) (x : Nat → Nat → α)
    (workers n batch : Nat) (asg : List Nat)
    (hw : 0 < workers) (hb : 0 < batch) (hasg : ValidAsg workers n batch asg)
    (h1 : 0 ≤ l1) (h2 : 0 ≤ l2) :
    ∃ out, linearVGrad (s := s) sqrt l1 l2 W b L dL x workers n batch asg = some out ∧
      (∀ (k : Nat) (hk : k < t), out.gb[k] = linearDefGradB t s W b dL x n ⟨k, hk⟩) ∧
      (∀ (idx : Nat) (hi : idx < t * s),
        out.gW[idx] = linearDefGradW t s l1 l2 W b dL x n ⟨idx / s, idx_div_lt hi⟩ (idx % s)) := by
  unfold linearVGrad
  rw [linear_acc_canonical W b L dL x workers n batch asg hw hb hasg]
  refine ⟨_, rfl, ?_, ?_⟩
  · intro k hk
    simp only [LinAcc.divN, vdivN_get, lin_msum_gb1 _ k hk, List.map_map]
    rfl
  · intro idx hi
    have hacc : (LinAcc.divN (msum LinAcc.add LinAcc.zero ((List.range n).map (linTerm (s := s) W b L dL x))) n).gW1[idx]
        = fsum ((List.range n).map fun i => (dL i (predict t s W b (x i)))[idx / s]'(idx_div_lt hi) * x i (idx % s))
          / (n : α) := by
      simp only [LinAcc.divN, vdivN_get, lin_msum_gW1 _ idx hi, List.map_map]
      congr 2
      apply List.map_congr_left
      intro i _
      simp [linTerm]
    unfold linearDefGradW
    simp only [Fin.getElem_fin]
    rcases h1.lt_or_eq with hl1 | hl1
    · rcases h2.lt_or_eq with hl2 | hl2
      · simp only [hl1, hl2, if_true, Vector.getElem_ofFn, hacc]
      · subst hl2
        simp only [hl1, if_true, lt_irrefl, if_false, Vector.getElem_ofFn, hacc]; ring
    · subst hl1
      rcases h2.lt_or_eq with hl2 | hl2
      · simp only [hl2, if_true, lt_irrefl, if_false, Vector.getElem_ofFn, hacc]; ring
      · subst hl2
        simp only [lt_irrefl, if_false, hacc]; ring

/-- the regularisation terms of `linearDefValue` in textbook notation -/
theorem linearDefValue_spec {t s : Nat} (l1 l2 : α) (W : Nat → Nat → α) (b : Nat → α) (L : Nat → Vector α t → α)
    (x : Nat → Nat → α) (n : Nat) :
    linearDefValue t s l1 l2 W b L x n
      = ((List.range n).map fun i => L i (predict t s W b (x i))).sum / (n : α)
        + l1 * (((wlist t s W).map fun w => |w|).sum / ((t * s : Nat) : α))
        + l2 / 2 * (((wlist t s W).map fun w => w ^ 2).sum / ((t * s : Nat) : α)) := by
  unfold linearDefValue
  rw [fsum_eq_sum, fsum_eq_sum, fsum_eq_sum]
  have ha : (fun w : α => absF w) = fun w => |w| := funext absF_eq
  have hq : (fun w : α => w * w) = fun w => w ^ 2 := by funext w; ring
  rw [show (absF : α → α) = fun w => absF w from rfl, ha, hq]

/-- the result does not depend on which worker executed which chunk, nor on the number of workers -/
theorem linear_assignment_independent {t s : Nat} (sqrt : α → α) (l1 l2 : α) (W : Nat → Nat → α) (b : Nat → α)
    (L : Nat → Vector α t → α) (dL : Nat → Vector α t → Vector α t) (x : Nat → Nat → α)
    (n batch workers workers' : Nat) (asg asg' : List Nat) (hb : 0 < batch)
    (hw : 0 < workers) (hasg : ValidAsg workers n batch asg)
    (hw' : 0 < workers') (hasg' : ValidAsg workers' n batch asg') :
    linearVGrad (s := s) sqrt l1 l2 W b L dL x workers n batch asg
      = linearVGrad (s := s) sqrt l1 l2 W b L dL x workers' n batch asg' :=
  linear_canonical sqrt l1 l2 W b L dL x workers n batch asg workers' batch asg' hw hb hasg hw' hb hasg'

/-- the result does not depend on the batch size (nor on the schedules of the two runs) -/
theorem linear_batch_independent {t s : Nat} (sqrt : α → α) (l1 l2 : α) (W : Nat → Nat → α) (b : Nat → α)
    (L : Nat → Vector α t → α) (dL : Nat → Vector α t → Vector α t) (x : Nat → Nat → α)
    (n batch batch' workers workers' : Nat) (asg asg' : List Nat) (hb : 0 < batch) (hb' : 0 < batch')
    (hw : 0 < workers) (hasg : ValidAsg workers n batch asg)
    (hw' : 0 < workers') (hasg' : ValidAsg workers' n batch' asg') :
    linearVGrad (s := s) sqrt l1 l2 W b L dL x workers n batch asg
      = linearVGrad (s := s) sqrt l1 l2 W b L dL x workers' n batch' asg' :=
  linear_canonical sqrt l1 l2 W b L dL x workers n batch asg workers' batch' asg' hw hb hasg hw' hb' hasg'

/-- error branches: `assert(chunksize >= 1)`, and no accumulator to reduce into -/
theorem linear_none_of_batch_zero {t s : Nat} (sqrt : α → α) (l1 l2 : α) (W : Nat → Nat → α) (b : Nat → α)
    (L : Nat → Vector α t → α) (dL : Nat → Vector α t → Vector α t) (x : Nat → Nat → α)
    (workers n : Nat) (asg : List Nat) :
    linearVGrad (s := s) sqrt l1 l2 W b L dL x workers n 0 asg = none := by
  unfold linearVGrad
  rw [mapReduce_none_of_batch_zero]

/-! ### gradient boosting: bias -/

/-- **bias objective** = `(mean_i loss_i(x), mean_i ∇loss_i(x))` -/
theorem bias_eq_def {t : Nat} (L : Nat → Vector α t → α) (dL : Nat → Vector α t → Vector α t) (x : Vector α t)
    (workers n batch : Nat) (asg : List Nat)
    (hw : 0 < workers) (hb : 0 < batch) (hasg : ValidAsg workers n batch asg) :
    ∃ out, biasVGrad L dL x workers n batch asg = some out ∧
      out.1 = biasDefValue L x n ∧
      ∀ (k : Nat) (hk : k < t), out.2[k] = biasDefGrad dL x n ⟨k, hk⟩ := by
  unfold biasVGrad
  rw [bias_acc_canonical L dL x workers n batch asg hw hb hasg]
  refine ⟨_, rfl, ?_, ?_⟩
  · simp only [GbAcc.divN, gb_msum_vm1, List.map_map]
    rfl
  · intro k hk
    simp only [GbAcc.divN, vdivN_get, gb_msum_gb1 _ k hk, List.map_map]
    rfl

theorem bias_assignment_independent {t : Nat} (L : Nat → Vector α t → α) (dL : Nat → Vector α t → Vector α t)
    (x : Vector α t) (n batch workers workers' : Nat) (asg asg' : List Nat) (hb : 0 < batch)
    (hw : 0 < workers) (hasg : ValidAsg workers n batch asg)
    (hw' : 0 < workers') (hasg' : ValidAsg workers' n batch asg') :
    biasVGrad L dL x workers n batch asg = biasVGrad L dL x workers' n batch asg' := by
  unfold biasVGrad
  rw [bias_acc_canonical L dL x workers n batch asg hw hb hasg,
    bias_acc_canonical L dL x workers' n batch asg' hw' hb hasg']

theorem bias_batch_independent {t : Nat} (L : Nat → Vector α t → α) (dL : Nat → Vector α t → Vector α t)
    (x : Vector α t) (n batch batch' workers workers' : Nat) (asg asg' : List Nat) (hb : 0 < batch) (hb' : 0 < batch')
    (hw : 0 < workers) (hasg : ValidAsg workers n batch asg)
    (hw' : 0 < workers') (hasg' : ValidAsg workers' n batch' asg') :
    biasVGrad L dL x workers n batch asg = biasVGrad L dL x workers' n batch' asg' := by
  unfold biasVGrad
  rw [bias_acc_canonical L dL x workers n batch asg hw hb hasg,
    bias_acc_canonical L dL x workers' n batch' asg' hw' hb' hasg']

/-! ### gradient boosting: scale -/

/-- the output the loss is evaluated at: unassigned samples (`group = -1`) are **not** scaled (strong learner output
    only), assigned ones get `soutput + x[group] · woutput` -/
theorem scale_output_spec {t G : Nat} (x : Vector α G) (grp : Nat → Int) (so wo : Nat → Vector α t) (i : Nat) :
    (grp i < 0 → scaleOutput x grp so wo i = so i) ∧
    (∀ (q : Nat) (hq : q < G), grp i = (q : Int) → ∀ (k : Nat) (hk : k < t),
        (scaleOutput x grp so wo i)[k] = (so i)[k] + x[q] * (wo i)[k]) := by
  constructor
  · intro h
    apply Vector.ext
    intro k hk
    simp [scaleOutput, scaleOf, h]
  · intro q hq hg k hk
    have hn : ¬ ((q : Int) < 0) := by omega
    simp [scaleOutput, scaleOf, hg, hn, hq]

/-- **scale objective** = `mean_i loss_i(o_i)` with `o_i` as in `scale_output_spec`; the gradient w.r.t. the scale of
    group `q` is `mean_i [group_i = q] ∇loss_i(o_i) · w_i` (the mean is over **all** `n` samples; unassigned samples
    contribute to the value but to no gradient coordinate) -/
theorem scale_eq_def {t G : Nat} (L : Nat → Vector α t → α) (dL : Nat → Vector α t → Vector α t) (x : Vector α G)
    (grp : Nat → Int) (so wo : Nat → Vector α t) (workers n batch : Nat) (asg : List Nat)
    (hw : 0 < workers) (hb : 0 < batch) (hasg : ValidAsg workers n batch asg)
    (hgrp : ∀ i, i < n → grp i < (G : Int)) :
    ∃ out, scaleVGrad L dL x grp so wo workers n batch asg = some out ∧
      out.1 = scaleDefValue L x grp so wo n ∧
      ∀ (q : Nat) (hq : q < G), out.2[q] = scaleDefGrad dL x grp so wo n q := by
  unfold scaleVGrad
  have hall : (List.range n).all (fun i => decide (grp i < (G : Int))) = true := by
    rw [List.all_eq_true]
    intro i hi
    simpa using hgrp i (List.mem_range.1 hi)
  rw [if_pos hall, scale_acc_canonical L dL x grp so wo workers n batch asg hw hb hasg]
  refine ⟨_, rfl, ?_, ?_⟩
  · simp only [GbAcc.divN, gb_msum_vm1, List.map_map]
    rfl
  · intro q hq
    simp only [GbAcc.divN, vdivN_get, gb_msum_gb1 _ q hq, List.map_map]
    congr 2
    apply List.map_congr_left
    intro i _
    simp [scaleTerm]

/-- a sample assigned to a group the parameter vector does not have is refused (C++: out-of-bounds read of `x(group)`) -/
theorem scale_none_of_bad_group {t G : Nat} (L : Nat → Vector α t → α) (dL : Nat → Vector α t → Vector α t)
    (x : Vector α G) (grp : Nat → Int) (so wo : Nat → Vector α t) (workers n batch : Nat) (asg : List Nat)
    (i : Nat) (hi : i < n) (hbad : (G : Int) ≤ grp i) :
    scaleVGrad L dL x grp so wo workers n batch asg = none := by
  unfold scaleVGrad
  rw [if_neg]
  intro hall
  rw [List.all_eq_true] at hall
  have := hall i (List.mem_range.2 hi)
  simp at this
  omega

theorem scale_assignment_independent {t G : Nat} (L : Nat → Vector α t → α) (dL : Nat → Vector α t → Vector α t)
    (x : Vector α G) (grp : Nat → Int) (so wo : Nat → Vector α t) (n batch workers workers' : Nat)
    (asg asg' : List Nat) (hb : 0 < batch)
    (hw : 0 < workers) (hasg : ValidAsg workers n batch asg)
    (hw' : 0 < workers') (hasg' : ValidAsg workers' n batch asg') :
    scaleVGrad L dL x grp so wo workers n batch asg = scaleVGrad L dL x grp so wo workers' n batch asg' := by
  unfold scaleVGrad
  rw [scale_acc_canonical L dL x grp so wo workers n batch asg hw hb hasg,
    scale_acc_canonical L dL x grp so wo workers' n batch asg' hw' hb hasg']

theorem scale_batch_independent {t G : Nat} (L : Nat → Vector α t → α) (dL : Nat → Vector α t → Vector α t)
    (x : Vector α G) (grp : Nat → Int) (so wo : Nat → Vector α t) (n batch batch' workers workers' : Nat)
    (asg asg' : List Nat) (hb : 0 < batch) (hb' : 0 < batch')
    (hw : 0 < workers) (hasg : ValidAsg workers n batch asg)
    (hw' : 0 < workers') (hasg' : ValidAsg workers' n batch' asg') :
    scaleVGrad L dL x grp so wo workers n batch asg = scaleVGrad L dL x grp so wo workers' n batch' asg' := by
  unfold scaleVGrad
  rw [scale_acc_canonical L dL x grp so wo workers n batch asg hw hb hasg,
    scale_acc_canonical L dL x grp so wo workers' n batch' asg' hw' hb' hasg']

/-! ### gradient boosting: per-sample gradients -/

/-- **grads objective**: value `mean_i loss_i(o_i)`, gradient `∇loss_i(o_i) / n` for every sample — whatever the
    buffers `m_values` / `m_vgrads` held before the call (they are completely overwritten) and whatever the batch -/
theorem grads_eq_def {t : Nat} (L : Nat → Vector α t → α) (dL : Nat → Vector α t → Vector α t) (o : Nat → Vector α t)
    (values0 : List α) (vgrads0 : List (Vector α t)) (n batch : Nat) (hb : 0 < batch)
    (hv : values0.length = n) (hg : vgrads0.length = n) :
    gradsVGrad L dL o values0 vgrads0 n batch = some (gradsDef L dL o n) := by
  unfold gradsVGrad
  rw [if_neg (by omega)]
  simp only [fillChunks_chunks _ values0 n batch hb hv, fillChunks_chunks _ vgrads0 n batch hb hg,
    List.length_map, List.length_range, List.map_map]
  rfl

theorem grads_batch_independent {t : Nat} (L : Nat → Vector α t → α) (dL : Nat → Vector α t → Vector α t)
    (o : Nat → Vector α t) (values0 values0' : List α) (vgrads0 vgrads0' : List (Vector α t)) (n batch batch' : Nat)
    (hb : 0 < batch) (hb' : 0 < batch') (hv : values0.length = n) (hg : vgrads0.length = n)
    (hv' : values0'.length = n) (hg' : vgrads0'.length = n) :
    gradsVGrad L dL o values0 vgrads0 n batch = gradsVGrad L dL o values0' vgrads0' n batch' := by
  rw [grads_eq_def L dL o values0 vgrads0 n batch hb hv hg, grads_eq_def L dL o values0' vgrads0' n batch' hb' hv' hg']

/-! ### the reduction alone (`include/nano/core/reduce.h`), as run by the driver op `reduce sum` for explicit schedules -/

/-- the `sum_reduce` of this model is the function the `reduce sum` correspondence op executes (`Model/Reduce.lean`) -/
theorem sumReduce_eq_reduce_model {M : Type} (add : M → M → M) (divN : M → Nat → M) (n : Nat) (accs : List M) :
    sumReduce add divN n accs = NanoVerif.Reduce.sumReduce add divN n accs := by
  cases accs <;> rfl

/-- `sum_reduce` over any number `≥ 1` of per-worker accumulators returns (the sum of ALL of them) / samples: no accumulator
    is left out or folded in twice, whatever the number of workers -/
theorem sumReduce_total {M : Type} [AddCommMonoid M] (divN : M → Nat → M) (n : Nat) (accs : List M) (h : accs ≠ []) :
    sumReduce (· + ·) divN n accs = some (divN accs.sum n) := by
  cases accs with
  | nil => exact absurd rfl h
  | cons a0 rest =>
    show some (divN (rest.foldl (· + ·) a0) n) = some (divN (a0 :: rest).sum n)
    rw [NanoVerif.Reduce.foldl_add_eq, List.sum_cons]

/-- … and for every schedule (which worker processed which contributions, in which order): the reduced value is
    (the sum of all contributions) / samples -/
theorem sumReduce_schedule_total {M : Type} [AddCommMonoid M] (divN : M → Nat → M) (n : Nat) (sched : List (List M))
    (hw : sched ≠ []) :
    sumReduce (· + ·) divN n (sched.map (NanoVerif.Reduce.accumulate (· + ·) 0)) = some (divN (sched.map List.sum).sum n) := by
  have hm : sched.map (NanoVerif.Reduce.accumulate (· + ·) (0 : M)) = sched.map List.sum :=
    List.map_congr_left (fun x _ => NanoVerif.Reduce.accumulate_eq_sum x)
  rw [sumReduce_total divN n _ (by simpa using hw), hm]

example : sumReduce (· + ·) (fun (a : Nat) n => a / n) 2 [1, 2, 3, 4, 5, 6, 7] = some 14 := by decide

/-! ### non-vacuity -/

-- 5 samples in batches of 2 on 3 workers: three chunks; the schedule "chunk 0 → worker 2, chunk 1 → worker 0,
-- chunk 2 → worker 2" is valid, a schedule naming worker 3 is not, a schedule with a missing entry is not
example : chunks 5 2 = [(0, 2), (2, 4), (4, 5)] := by decide
example : ValidAsg 3 5 2 [2, 0, 2] := by decide
example : ¬ ValidAsg 3 5 2 [2, 3, 2] := by decide
example : ¬ ValidAsg 3 5 2 [2, 0] := by decide
-- batch larger than the number of samples: one chunk; batch 1: one chunk per sample
example : chunks 5 7 = [(0, 5)] := by decide
example : chunks 3 1 = [(0, 1), (1, 2), (2, 3)] := by decide
example : chunks 0 4 = [] := by decide
-- the hypotheses of `linear_value_eq_def` are satisfiable over ℚ-like fields: `sqrt := fun _ => 3` at `l2 = 9`
example : ∃ (sqrt : α → α) (l2 : α), 0 ≤ l2 ∧ sqrt l2 * sqrt l2 = l2 ∧ 0 < l2 :=
  ⟨fun _ => 3, 9, by norm_num, by norm_num, by norm_num⟩
-- the skeleton on integers-as-accumulators (M = Nat, term i = i + 1): 5 samples, batch 2, schedule [2, 0, 2]
example : mapReduce (· + ·) 0 (fun a n => a / n) (fun a b e => a + msum (· + ·) 0 ((rangeList b e).map (· + 1)))
    3 5 2 [2, 0, 2] = some 3 := by decide
-- … and it refuses a schedule that names a worker without accumulator, and a zero batch
example : mapReduce (· + ·) 0 (fun a n => a / n) (fun a b e => a + msum (· + ·) 0 ((rangeList b e).map (· + 1)))
    3 5 2 [2, 3, 2] = none := by decide
example : mapReduce (· + ·) 0 (fun a n => a / n) (fun a b e => a + msum (· + ·) 0 ((rangeList b e).map (· + 1)))
    3 5 0 [] = none := by decide
-- the slice-writing loop overwrites stale contents
example : fillChunks (fun i => i * 10) [7, 7, 7, 7, 7] (chunks 5 2) = [0, 10, 20, 30, 40] := by decide

end NanoVerif.Objective

/-! ## the iterators: what is served is the scaled flattened data, for every batch, schedule, cache state

  Every scalar type (no field structure is needed: these are statements about which cells are read, in which order the
  statistics see them and which rows go where; they hold at `Float` as well). -/
namespace NanoVerif.Iterator
open NanoVerif.Scaling NanoVerif.Objective

section iter
variable {α : Type} [Add α] [Sub α] [Mul α] [Div α] [Neg α] [LT α] [DecidableLT α]
  [OfNat α 0] [OfNat α 1] [NatCast α]

/-- **statistics**: `make_flatten_stats` / `make_targets_stats`, run in batches of ANY size `≥ 1`, return for every column the
    C14 statistics (`Scaling.columnStats`: count, min, max, mean, stdev, ε-guarded `div/mul` pairs, enable mask) of that
    column's cells over the iterator's samples in sample order — every sample once, no stale buffer row, whatever the
    remainder `n mod batch` -/
theorem stats_batch_independent [Sqrt α] (hi lo eps : α) (en : List Bool) (rowOf : Nat → List (Option α))
    (samples : List Nat) (sb sb' : Nat) (h : 0 < sb) (h' : 0 < sb') (hrows : ∀ s ∈ samples, (rowOf s).length = en.length) :
    makeStats hi lo eps en rowOf samples sb = makeStats hi lo eps en rowOf samples sb' ∧
    ∀ c, c < en.length → (makeStats hi lo eps en rowOf samples sb)[c]?
      = some (columnStats hi lo eps (en.getD c false) (columnOf rowOf samples c)) := by
  rw [makeStats_eq_defStats hi lo eps en rowOf samples sb h hrows, makeStats_eq_defStats hi lo eps en rowOf samples sb' h' hrows]
  refine ⟨rfl, ?_⟩
  intro c hc
  simp [defStats, hc]

/-- the cells of the definition's data: cell `(i, j)` is `scaleCell mode stats_j (raw cell)` — C14's `(x − c)·d` followed by
    `nan2zero`, a missing cell is served as `0`, a categorical column (disabled statistics) is left as it is -/
theorem scaled_cell_spec [FinTest α] (m : Mode) (ss : List (Stats α)) (rowOf : Nat → List (Option α)) (samples : List Nat)
    (i j : Nat) (s : Nat) (st : Stats α) (x : Option α) (hs : samples[i]? = some s) (hst : ss[j]? = some st)
    (hx : (rowOf s)[j]? = some x) :
    ((scaledAll m ss rowOf samples)[i]?.bind fun r => r[j]?) = some (scaleCell m st x) ∧ scaleCell m st none = 0 := by
  refine ⟨?_, rfl⟩
  simp [scaledAll, hs, List.getElem?_zipWith, hst, hx]

/-- **`served_eq_scaled_flatten`**: take the iterator built over `samples` (statistics batches `sbF, sbT ≥ 1`), configure it
    by ANY history of `batch` / `scaling` / `cache_flatten(max_bytes)` / `cache_targets(max_bytes)` calls that leaves no stale
    cache (`Fresh`; see `fresh_configure_then_cache`, `stale_cache_witness`), and loop with any batch `≥ 1` and any schedule
    `asg` (one existing worker per chunk). Then the callback is called exactly once per chunk of `map(n, batch)`, in queue
    order, by the scheduled worker, with rows `[b, e)` of

        X = nan2zero (scale mode stats (flatten D samples)),   T = the same for the targets,

    where `stats` are the C14 statistics of the raw flattened samples (independent of `sbF`, `sbT`) — whether the cache was
    filled, refused for lack of budget, or never requested; and the blocks concatenated are `X` and `T`: every sample
    exactly once. -/
theorem served_eq_scaled_flatten [Sqrt α] [FinTest α] (hi lo eps : α) (D : Data α) (samples : List Nat)
    (workers sbF sbT : Nat) (hF : 0 < sbF) (hT : 0 < sbT) (hwf : D.WF samples) (junk : List α) (cfgs : List Cfg) (it : Iter α)
    (hrun : Iter.run D junk (Iter.make hi lo eps D samples workers sbF sbT) cfgs = some it) (hfresh : it.Fresh)
    (hb : 0 < it.batch) (asg : List Nat) (hasg : ValidAsg it.workers samples.length it.batch asg) :
    ∃ served, it.loopFT D asg = some served ∧
      served = List.zipWith (mkServed (scaledInputs hi lo eps D samples it.mode) (scaledTargets hi lo eps D samples it.mode))
        (chunks samples.length it.batch) asg ∧
      (served.map Served.inputs).flatten = scaledInputs hi lo eps D samples it.mode ∧
      (served.map Served.targets).flatten = scaledTargets hi lo eps D samples it.mode := by
  have hinv := inv_run hi lo eps D samples junk cfgs _ it (inv_make hi lo eps D samples workers sbF sbT hF hT hwf) hrun
  refine ⟨_, loopFT_eq hi lo eps D samples it hinv hb asg hasg, ?_, ?_⟩
  · rw [servedX_eq hi lo eps D samples it hinv hfresh, servedT_eq hi lo eps D samples it hinv hfresh]
  · rw [servedX_eq hi lo eps D samples it hinv hfresh, servedT_eq hi lo eps D samples it hinv hfresh]
    exact served_concat _ _ samples.length it.batch hb asg hasg.1 (length_scaledInputs ..) (length_scaledTargets ..)

/-- the same for the targets-only loop of `targets_iterator_t` (used by the three gradient-boosting objectives) -/
theorem served_targets_eq_scaled [Sqrt α] [FinTest α] (hi lo eps : α) (D : Data α) (samples : List Nat)
    (workers sbF sbT : Nat) (hF : 0 < sbF) (hT : 0 < sbT) (hwf : D.WF samples) (junk : List α) (cfgs : List Cfg) (it : Iter α)
    (hrun : Iter.run D junk (Iter.make hi lo eps D samples workers sbF sbT) cfgs = some it) (hfresh : it.Fresh)
    (hb : 0 < it.batch) (asg : List Nat) (hasg : ValidAsg it.workers samples.length it.batch asg) :
    ∃ served, it.loopT D asg = some served ∧
      served = List.zipWith (mkServed [] (scaledTargets hi lo eps D samples it.mode)) (chunks samples.length it.batch) asg ∧
      (served.map Served.targets).flatten = scaledTargets hi lo eps D samples it.mode := by
  have hinv := inv_run hi lo eps D samples junk cfgs _ it (inv_make hi lo eps D samples workers sbF sbT hF hT hwf) hrun
  refine ⟨_, loopT_eq hi lo eps D samples it hinv hb asg hasg, ?_, ?_⟩
  · rw [servedT_eq hi lo eps D samples it hinv hfresh]
  · rw [servedT_eq hi lo eps D samples it hinv hfresh]
    have hc := tiles_flatten (scaledTargets hi lo eps D samples it.mode) _ 0 samples.length
      (chunks_tiles samples.length it.batch hb)
    rw [List.map_zipWith]
    have hz := zipWith_map_left (γ := Nat)
      (fun c : Nat × Nat => sliceOf (scaledTargets hi lo eps D samples it.mode) c.1 c.2) (chunks samples.length it.batch) asg hasg.1
    simp only [mkServed]
    rw [hz, hc]
    have := sliceOf_full (scaledTargets hi lo eps D samples it.mode)
    rwa [length_scaledTargets] at this

/-- the inputs-only loop (`linear_t::do_predict`) -/
theorem served_inputs_eq_scaled [Sqrt α] [FinTest α] (hi lo eps : α) (D : Data α) (samples : List Nat)
    (workers sbF sbT : Nat) (hF : 0 < sbF) (hT : 0 < sbT) (hwf : D.WF samples) (junk : List α) (cfgs : List Cfg) (it : Iter α)
    (hrun : Iter.run D junk (Iter.make hi lo eps D samples workers sbF sbT) cfgs = some it) (hfresh : it.Fresh)
    (hb : 0 < it.batch) (asg : List Nat) (hasg : ValidAsg it.workers samples.length it.batch asg) :
    it.loopF D asg = some (List.zipWith (mkServed (scaledInputs hi lo eps D samples it.mode) [])
      (chunks samples.length it.batch) asg) := by
  have hinv := inv_run hi lo eps D samples junk cfgs _ it (inv_make hi lo eps D samples workers sbF sbT hF hT hwf) hrun
  rw [loopF_eq hi lo eps D samples it hinv hb asg hasg, servedX_eq hi lo eps D samples it hinv hfresh]

/-- **cached = uncached**: after a successful `cache_flatten` + `cache_targets` a loop serves exactly what the same iterator
    serves without any cache (same mode, same batch or any other batch, any two schedules) -/
theorem cached_eq_uncached [Sqrt α] [FinTest α] (hi lo eps : α) (D : Data α) (samples : List Nat)
    (itc itu : Iter α) (hc : itc.Inv hi lo eps D samples) (hu : itu.Inv hi lo eps D samples)
    (hfc : itc.Fresh) (hfu : itu.Fresh) (hm : itc.mode = itu.mode) :
    itc.servedX D = itu.servedX D ∧ itc.servedT D = itu.servedT D := by
  rw [servedX_eq hi lo eps D samples itc hc hfc, servedX_eq hi lo eps D samples itu hu hfu,
    servedT_eq hi lo eps D samples itc hc hfc, servedT_eq hi lo eps D samples itu hu hfu, hm]
  exact ⟨rfl, rfl⟩

/-- **the budget**: `cache_flatten(max_bytes)` with `8·n·columns > max_bytes` reports `false` and leaves the iterator on the
    uncached path (the cache is emptied first); with enough budget, a batch `≥ 1` and a valid schedule it reports `true` and
    the cache holds the scaled matrix of all the samples under the current mode, whatever the fresh tensor held -/
theorem cache_flatten_spec [FinTest α] (it : Iter α) (D : Data α) (maxBytes : Int) (asg : List Nat) (junk : List α) :
    (maxBytes < ((8 * it.samples.length * D.cols : Nat) : Int) →
      it.cacheFlatten D maxBytes asg junk = some ({ it with fcache := [] }, false)) ∧
    (((8 * it.samples.length * D.cols : Nat) : Int) ≤ maxBytes → 0 < it.batch →
      ValidAsg it.workers it.samples.length it.batch asg → (∀ s ∈ it.samples, (D.flat s).length = it.fstats.length) →
      it.cacheFlatten D maxBytes asg junk
        = some ({ it with fcache := scaledAll it.mode it.fstats D.flat it.samples, fmode := it.mode }, true)) := by
  constructor
  · intro h
    unfold Iter.cacheFlatten
    simp only
    rw [if_neg (by omega)]
  · intro h hb hasg hrows
    unfold Iter.cacheFlatten
    simp only
    rw [if_pos h, if_neg (by omega), fill_total it.mode it.fstats D.flat it.samples hrows it.workers it.batch hb asg hasg junk]

/-- `cache_targets(max_bytes)` does NOT empty `m_targets` first: with too small a budget it reports `false` and the iterator is
    unchanged — a cache filled earlier stays in use -/
theorem cache_targets_spec [FinTest α] (it : Iter α) (D : Data α) (maxBytes : Int) (asg : List Nat) (junk : List α) :
    (maxBytes < ((8 * it.samples.length * D.tcols : Nat) : Int) → it.cacheTargets D maxBytes asg junk = some (it, false)) ∧
    (((8 * it.samples.length * D.tcols : Nat) : Int) ≤ maxBytes → 0 < it.batch →
      ValidAsg it.workers it.samples.length it.batch asg → (∀ s ∈ it.samples, (D.targ s).length = it.tstats.length) →
      it.cacheTargets D maxBytes asg junk
        = some ({ it with tcache := scaledAll it.mode it.tstats D.targ it.samples, tmode := it.mode }, true)) := by
  constructor
  · intro h
    unfold Iter.cacheTargets
    simp only
    rw [if_neg (by omega)]
  · intro h hb hasg hrows
    unfold Iter.cacheTargets
    simp only
    rw [if_pos h, if_neg (by omega), fill_total it.mode it.tstats D.targ it.samples hrows it.workers it.batch hb asg hasg junk]

/-- error branches: `assert(chunksize >= 1)` and `assert(tnum < m_flatten_buffers.size())` -/
theorem loop_none_of_batch_zero [FinTest α] (it : Iter α) (D : Data α) (asg : List Nat) (h : it.batch = 0) :
    it.loopFT D asg = none ∧ it.loopF D asg = none ∧ it.loopT D asg = none := by
  simp [Iter.loopFT, Iter.loopF, Iter.loopT, h]

theorem serve_none_of_bad_worker [FinTest α] (it : Iter α) (D : Data α) (tnum b e : Nat) (h : it.workers ≤ tnum)
    (hf : it.fcached = false) (ht : it.tcached = false) : it.serveF D tnum b e = none ∧ it.serveT D tnum b e = none := by
  have : ¬ tnum < it.workers := by omega
  simp [Iter.serveF, Iter.serveT, hf, ht, this]

/-- the same at binary64: instantiated at `Float` (IEEE operations, `std::sqrt`, `std::isfinite`), the theorem says that every
    configuration — any batch, schedule, pool size, cache filled / refused / absent, any statistics batches — hands out
    BIT-IDENTICAL values (the harness checks exactly this with a hash of what every configuration serves) -/
theorem served_bit_identical_float [NatCast Float] (hi lo eps : Float) (D : Data Float) (samples : List Nat)
    (workers sbF sbT workers' sbF' sbT' : Nat) (hF : 0 < sbF) (hT : 0 < sbT) (hF' : 0 < sbF') (hT' : 0 < sbT')
    (hwf : D.WF samples) (junk junk' : List Float) (cfgs cfgs' : List Cfg) (it it' : Iter Float)
    (hrun : Iter.run D junk (Iter.make hi lo eps D samples workers sbF sbT) cfgs = some it)
    (hrun' : Iter.run D junk' (Iter.make hi lo eps D samples workers' sbF' sbT') cfgs' = some it')
    (hfresh : it.Fresh) (hfresh' : it'.Fresh) (hm : it.mode = it'.mode)
    (hb : 0 < it.batch) (hb' : 0 < it'.batch) (asg asg' : List Nat)
    (hasg : ValidAsg it.workers samples.length it.batch asg) (hasg' : ValidAsg it'.workers samples.length it'.batch asg') :
    ∃ served served', it.loopFT D asg = some served ∧ it'.loopFT D asg' = some served' ∧
      (served.map Served.inputs).flatten = (served'.map Served.inputs).flatten ∧
      (served.map Served.targets).flatten = (served'.map Served.targets).flatten := by
  obtain ⟨sv, h1, _, h3, h4⟩ := served_eq_scaled_flatten hi lo eps D samples workers sbF sbT hF hT hwf junk cfgs it hrun hfresh hb asg hasg
  obtain ⟨sv', h1', _, h3', h4'⟩ := served_eq_scaled_flatten hi lo eps D samples workers' sbF' sbT' hF' hT' hwf junk' cfgs' it' hrun'
    hfresh' hb' asg' hasg'
  exact ⟨sv, sv', h1, h1', by rw [h3, h3', hm], by rw [h4, h4', hm]⟩

end iter

/-! ### the hypothesis `Fresh` is necessary: a kernel-checked history on which the cached path serves stale data

  Scalars `Int` (`sqrt := id`, every value finite). One column, two samples with values `1, 2`; `cache_flatten` under
  `scaling_type::none`, then `scaling(minmax)`: the loop serves the cached `[[1], [2]]`, the uncached path of the very same
  iterator state would serve `[[0], [1]]`. Replayed on the real classes by the corpus op `iter hist … stale` (corpus/C09). -/

def wD : Data Int := ⟨fun s => [some ((s : Int) + 1)], fun s => [some ((s : Int) + 1)], [true], [true]⟩

theorem stale_cache_witness :
    letI : Sqrt Int := ⟨id⟩
    letI : FinTest Int := ⟨fun _ => true⟩
    ∃ it : Iter Int,
      Iter.run wD [] (Iter.make 1000 (-1000) 0 wD [0, 1] 1 1000 1000) [.batch 2, .cacheF 1000 [0], .scaling .minmax] = some it ∧
      ¬ it.Fresh ∧
      (it.loopF wD [0]).map (fun l => l.map Served.inputs) = some [[[1], [2]]] ∧
      scaledInputs 1000 (-1000) 0 wD [0, 1] it.mode = [[0], [1]] := by
  letI : Sqrt Int := ⟨id⟩
  letI : FinTest Int := ⟨fun _ => true⟩
  refine ⟨_, rfl, ?_, by decide, by decide⟩
  intro h
  have := h.1 (by decide)
  revert this
  decide

-- the hypotheses are satisfiable: a well-formed dataset, a history in library order, a fresh cached iterator
example : wD.WF [0, 1] := ⟨by decide, by decide⟩
example :
    letI : Sqrt Int := ⟨id⟩
    letI : FinTest Int := ⟨fun _ => true⟩
    ∃ it : Iter Int, Iter.run wD [] (Iter.make 1000 (-1000) 0 wD [0, 1] 2 1 1000)
        [.batch 1, .scaling .minmax, .cacheF 1000 [1, 0], .cacheT 1000 [0, 0]] = some it ∧
      it.fcache = [[0], [1]] ∧ ValidAsg it.workers 2 it.batch [1, 1] ∧
      (it.loopFT wD [1, 1]).map (fun l => l.map Served.inputs) = some [[[0]], [[1]]] := by
  letI : Sqrt Int := ⟨id⟩
  letI : FinTest Int := ⟨fun _ => true⟩
  exact ⟨_, rfl, by decide, by decide, by decide⟩
-- a too small budget leaves the iterator uncached; `cache_targets` then keeps an older cache
example :
    letI : Sqrt Int := ⟨id⟩
    letI : FinTest Int := ⟨fun _ => true⟩
    ((Iter.make 1000 (-1000) 0 wD [0, 1] 1 1 1).cacheFlatten wD 15 [0] []).map (fun p => (p.1.fcached, p.2))
      = some (false, false) := by
  letI : Sqrt Int := ⟨id⟩
  letI : FinTest Int := ⟨fun _ => true⟩
  decide

end NanoVerif.Iterator

/-! ## end to end: the objectives on the raw dataset

  `loss tg o` / `dloss tg o`: loss value / gradient w.r.t. the outputs for one (scaled) target row. The objective is run on
  the iterator (`linearVGradIter` …: ONE loop with the schedule `asg` feeds the callback, which reads row `i − begin` of its
  block); the definition is evaluated on `scaledInputs` / `scaledTargets` — `nan2zero (scale mode stats (flatten raw))` with
  the C14 statistics of the raw data — so nothing is "taken as served". -/
namespace NanoVerif.Objective
open NanoVerif.Iterator NanoVerif.Scaling
variable {α : Type} [Field α] [LinearOrder α] [IsStrictOrderedRing α] [Sqrt α] [FinTest α] {β : Type}

/-- the definition's inputs / per-sample losses, from the raw dataset -/
def defX (hi lo eps : α) (D : Data α) (samples : List Nat) (m : Mode) (i j : Nat) : α :=
  ((scaledInputs hi lo eps D samples m).getD i []).getD j 0
def defL {t : Nat} (loss : List α → Vector α t → β) (hi lo eps : α) (D : Data α) (samples : List Nat) (m : Mode) (i : Nat) :
    Vector α t → β := loss ((scaledTargets hi lo eps D samples m).getD i [])

/-- what the callbacks read is the definition's data, position by position -/
theorem callback_reads_def (hi lo eps : α) (D : Data α) (samples : List Nat) (it : Iter α)
    (hinv : it.Inv hi lo eps D samples) (hf : it.Fresh) (hb : 0 < it.batch) (asg : List Nat)
    (hasg : ValidAsg it.workers samples.length it.batch asg) (X0 : List (List α)) (hX : X0 = [] ∨ X0 = it.servedX D) :
    ∀ i, i < samples.length →
      targetOf (List.zipWith (mkServed X0 (it.servedT D)) (chunks samples.length it.batch) asg) i
        = (scaledTargets hi lo eps D samples it.mode).getD i [] ∧
      (X0 = it.servedX D →
        inputsOf (List.zipWith (mkServed X0 (it.servedT D)) (chunks samples.length it.batch) asg) i
          = defX hi lo eps D samples it.mode i) := by
  intro i hlt
  obtain ⟨h1, h2⟩ := servedRow_zip X0 (it.servedT D) _ asg 0 samples.length
    (chunks_tiles samples.length it.batch hb) hasg.1 i (Nat.zero_le _) hlt
  refine ⟨?_, ?_⟩
  · unfold targetOf
    rw [h2, servedT_eq hi lo eps D samples it hinv hf]
  · intro hx
    funext j
    unfold inputsOf defX
    rw [h1, hx, servedX_eq hi lo eps D samples it hinv hf]

/-- **linear objective, end to end**: value `= mean_i loss(t_i, W x_i + b) + l1·mean|W| + (l2/2)·mean W²` and its gradient,
    with `x_i`, `t_i` the scaled (missing → 0) flattened inputs / targets computed from the RAW dataset by the definition — for
    every configuration history without stale cache, batch, schedule, worker count -/
theorem linear_end_to_end {t s : Nat} (sqrt : α → α) (l1 l2 : α) (W : Nat → Nat → α) (b : Nat → α)
    (loss : List α → Vector α t → α) (dloss : List α → Vector α t → Vector α t)
    (hi lo eps : α) (D : Data α) (samples : List Nat) (it : Iter α)
    (hinv : it.Inv hi lo eps D samples) (hf : it.Fresh) (hb : 0 < it.batch) (hw : 0 < it.workers) (asg : List Nat)
    (hasg : ValidAsg it.workers samples.length it.batch asg) (hs0 : 0 < s) (ht0 : 0 < t)
    (h1 : 0 ≤ l1) (h2 : 0 ≤ l2) (hs : sqrt l2 * sqrt l2 = l2) :
    ∃ out, linearVGradIter (s := s) sqrt l1 l2 W b loss dloss it D asg = some out ∧
      out.fx = linearDefValue t s l1 l2 W b (defL loss hi lo eps D samples it.mode) (defX hi lo eps D samples it.mode)
        samples.length ∧
      (∀ (k : Nat) (hk : k < t), out.gb[k]
        = linearDefGradB t s W b (defL dloss hi lo eps D samples it.mode) (defX hi lo eps D samples it.mode)
          samples.length ⟨k, hk⟩) ∧
      (∀ (idx : Nat) (hi' : idx < t * s), out.gW[idx]
        = linearDefGradW t s l1 l2 W b (defL dloss hi lo eps D samples it.mode) (defX hi lo eps D samples it.mode)
          samples.length ⟨idx / s, idx_div_lt hi'⟩ (idx % s)) := by
  unfold linearVGradIter
  rw [if_neg (by omega), loopFT_eq hi lo eps D samples it hinv hb asg hasg]
  simp only [hinv.hsamples]
  have hrd := callback_reads_def hi lo eps D samples it hinv hf hb asg hasg (it.servedX D) (Or.inr rfl)
  obtain ⟨out, hout, hfx⟩ := linear_value_eq_def (s := s) sqrt l1 l2 W b
    (fun i => loss (targetOf (List.zipWith (mkServed (it.servedX D) (it.servedT D)) (chunks samples.length it.batch) asg) i))
    (fun i => dloss (targetOf (List.zipWith (mkServed (it.servedX D) (it.servedT D)) (chunks samples.length it.batch) asg) i))
    (inputsOf (List.zipWith (mkServed (it.servedX D) (it.servedT D)) (chunks samples.length it.batch) asg))
    it.workers samples.length it.batch asg hw hb hasg h1 h2 hs
  obtain ⟨out', hout', hgb, hgW⟩ := linear_grad_eq_def (s := s) sqrt l1 l2 W b
    (fun i => loss (targetOf (List.zipWith (mkServed (it.servedX D) (it.servedT D)) (chunks samples.length it.batch) asg) i))
    (fun i => dloss (targetOf (List.zipWith (mkServed (it.servedX D) (it.servedT D)) (chunks samples.length it.batch) asg) i))
    (inputsOf (List.zipWith (mkServed (it.servedX D) (it.servedT D)) (chunks samples.length it.batch) asg))
    it.workers samples.length it.batch asg hw hb hasg h1 h2
  have heq : out' = out := by rw [hout] at hout'; exact (Option.some.inj hout').symm
  subst heq
  refine ⟨out', hout, ?_, ?_, ?_⟩
  · rw [hfx]
    apply linearDefValue_congr
    intro i hi'
    obtain ⟨ha, hb'⟩ := hrd i hi'
    exact ⟨by simp only [defL, ha], hb' rfl⟩
  · intro k hk
    rw [hgb k hk]
    apply linearDefGradB_congr
    intro i hi'
    obtain ⟨ha, hb'⟩ := hrd i hi'
    exact ⟨by simp only [defL, ha], hb' rfl⟩
  · intro idx hi'
    rw [hgW idx hi']
    apply linearDefGradW_congr
    intro i hi''
    obtain ⟨ha, hb'⟩ := hrd i hi''
    exact ⟨by simp only [defL, ha], hb' rfl⟩

/-- the constructor's asserts: no inputs or no targets — refused -/
theorem linear_iter_none_of_empty {t s : Nat} (sqrt : α → α) (l1 l2 : α) (W : Nat → Nat → α) (b : Nat → α)
    (loss : List α → Vector α t → α) (dloss : List α → Vector α t → Vector α t) (it : Iter α) (D : Data α) (asg : List Nat)
    (h : s = 0 ∨ t = 0) : linearVGradIter (s := s) sqrt l1 l2 W b loss dloss it D asg = none := by
  unfold linearVGradIter
  rw [if_pos h]

/-- **value-only call** (`vgrad(x)` without `gx`): skipping the gradient accumulation does not change the value — it is the
    definition's value for every batch, schedule, worker count -/
theorem linear_value_only_eq_def {t s : Nat} (sqrt : α → α) (l1 l2 : α) (W : Nat → Nat → α) (b : Nat → α)
    (L : Nat → Vector α t → α) (x : Nat → Nat → α) (workers n batch : Nat) (asg : List Nat)
    (hw : 0 < workers) (hb : 0 < batch) (hasg : ValidAsg workers n batch asg)
    (h1 : 0 ≤ l1) (h2 : 0 ≤ l2) (hs : sqrt l2 * sqrt l2 = l2) :
    linearValue (s := s) sqrt l1 l2 W b L x workers n batch asg = some (linearDefValue t s l1 l2 W b L x n) := by
  unfold linearValue
  rw [linearV_acc_canonical W b L x workers n batch asg hw hb hasg]
  simp only [LinAcc.divN, lin_msum_vm1, List.map_map, Option.some.injEq]
  unfold linearDefValue
  have hdata : ((fun a : LinAcc α t s => a.vm1) ∘ linTermV W b L x) = fun i => L i (predict t s W b (x i)) := rfl
  rw [hdata]
  have hsq : (fun w : α => (sqrt l2 * w) * (sqrt l2 * w)) = fun w => l2 * (w * w) := by
    funext w
    calc (sqrt l2 * w) * (sqrt l2 * w) = (sqrt l2 * sqrt l2) * (w * w) := by ring
      _ = l2 * (w * w) := by rw [hs]
  rw [hsq, fsum_map_mul_left]
  rcases h1.lt_or_eq with hl1 | hl1
  · rcases h2.lt_or_eq with hl2 | hl2
    · simp only [hl1, hl2, if_true]; ring
    · subst hl2
      simp only [hl1, if_true, lt_irrefl, if_false]; ring
  · subst hl1
    rcases h2.lt_or_eq with hl2 | hl2
    · simp only [hl2, if_true, lt_irrefl, if_false]; ring
    · subst hl2
      simp only [lt_irrefl, if_false]; ring

/-- **bias objective, end to end** -/
theorem bias_end_to_end {t : Nat} (loss : List α → Vector α t → α) (dloss : List α → Vector α t → Vector α t)
    (x : Vector α t) (hi lo eps : α) (D : Data α) (samples : List Nat) (it : Iter α)
    (hinv : it.Inv hi lo eps D samples) (hf : it.Fresh) (hb : 0 < it.batch) (hw : 0 < it.workers) (asg : List Nat)
    (hasg : ValidAsg it.workers samples.length it.batch asg) :
    ∃ out, biasVGradIter loss dloss x it D asg = some out ∧
      out.1 = biasDefValue (defL loss hi lo eps D samples it.mode) x samples.length ∧
      ∀ (k : Nat) (hk : k < t), out.2[k] = biasDefGrad (defL dloss hi lo eps D samples it.mode) x samples.length ⟨k, hk⟩ := by
  unfold biasVGradIter
  rw [loopT_eq hi lo eps D samples it hinv hb asg hasg]
  simp only [hinv.hsamples]
  have hrd := callback_reads_def hi lo eps D samples it hinv hf hb asg hasg [] (Or.inl rfl)
  obtain ⟨out, hout, hv, hg⟩ := bias_eq_def
    (fun i => loss (targetOf (List.zipWith (mkServed [] (it.servedT D)) (chunks samples.length it.batch) asg) i))
    (fun i => dloss (targetOf (List.zipWith (mkServed [] (it.servedT D)) (chunks samples.length it.batch) asg) i))
    x it.workers samples.length it.batch asg hw hb hasg
  refine ⟨out, hout, ?_, ?_⟩
  · rw [hv]
    exact meanOver_congr _ _ _ fun i hi' => by simp only [defL, (hrd i hi').1]
  · intro k hk
    rw [hg k hk]
    exact meanOver_congr _ _ _ fun i hi' => by simp only [defL, (hrd i hi').1]

/-- **scale objective, end to end** (`grp i`, `so i`, `wo i`: group and strong / weak learner outputs of the sample at
    position `i`; unassigned samples are not scaled) -/
theorem scale_end_to_end {t G : Nat} (loss : List α → Vector α t → α) (dloss : List α → Vector α t → Vector α t)
    (x : Vector α G) (grp : Nat → Int) (so wo : Nat → Vector α t)
    (hi lo eps : α) (D : Data α) (samples : List Nat) (it : Iter α)
    (hinv : it.Inv hi lo eps D samples) (hf : it.Fresh) (hb : 0 < it.batch) (hw : 0 < it.workers) (asg : List Nat)
    (hasg : ValidAsg it.workers samples.length it.batch asg) (hgrp : ∀ i, i < samples.length → grp i < (G : Int)) :
    ∃ out, scaleVGradIter loss dloss x grp so wo it D asg = some out ∧
      out.1 = scaleDefValue (defL loss hi lo eps D samples it.mode) x grp so wo samples.length ∧
      ∀ (q : Nat) (hq : q < G), out.2[q] = scaleDefGrad (defL dloss hi lo eps D samples it.mode) x grp so wo samples.length q := by
  unfold scaleVGradIter
  rw [loopT_eq hi lo eps D samples it hinv hb asg hasg]
  simp only [hinv.hsamples]
  have hrd := callback_reads_def hi lo eps D samples it hinv hf hb asg hasg [] (Or.inl rfl)
  obtain ⟨out, hout, hv, hg⟩ := scale_eq_def
    (fun i => loss (targetOf (List.zipWith (mkServed [] (it.servedT D)) (chunks samples.length it.batch) asg) i))
    (fun i => dloss (targetOf (List.zipWith (mkServed [] (it.servedT D)) (chunks samples.length it.batch) asg) i))
    x grp so wo it.workers samples.length it.batch asg hw hb hasg hgrp
  refine ⟨out, hout, ?_, ?_⟩
  · rw [hv]
    exact meanOver_congr _ _ _ fun i hi' => by simp only [defL, (hrd i hi').1]
  · intro q hq
    rw [hg q hq]
    exact meanOver_congr _ _ _ fun i hi' => by simp only [defL, (hrd i hi').1]

/-- **per-sample gradients, end to end** -/
theorem grads_end_to_end {t : Nat} (loss : List α → Vector α t → α) (dloss : List α → Vector α t → Vector α t)
    (o : Nat → Vector α t) (values0 : List α) (vgrads0 : List (Vector α t))
    (hi lo eps : α) (D : Data α) (samples : List Nat) (it : Iter α)
    (hinv : it.Inv hi lo eps D samples) (hf : it.Fresh) (hb : 0 < it.batch) (asg : List Nat)
    (hasg : ValidAsg it.workers samples.length it.batch asg)
    (hv : values0.length = samples.length) (hg : vgrads0.length = samples.length) :
    gradsVGradIter loss dloss o values0 vgrads0 it D asg
      = some (gradsDef (defL loss hi lo eps D samples it.mode) (defL dloss hi lo eps D samples it.mode) o samples.length) := by
  unfold gradsVGradIter
  rw [loopT_eq hi lo eps D samples it hinv hb asg hasg]
  simp only [hinv.hsamples]
  have hrd := callback_reads_def hi lo eps D samples it hinv hf hb asg hasg [] (Or.inl rfl)
  rw [grads_eq_def _ _ o values0 vgrads0 samples.length it.batch hb hv hg]
  unfold gradsDef
  congr 2
  · exact meanOver_congr _ _ _ fun i hi' => by simp only [defL, (hrd i hi').1]
  · exact List.map_congr_left fun i hi' => by simp only [defL, (hrd i (List.mem_range.1 hi')).1]

/-- **the property, from the raw dataset, with no hypothesis about the iterator's state**: build the iterator over `samples`
    (statistics batches `≥ 1`), make the configuration calls in the library's order (`pre`: any `batch` / `scaling` calls,
    then `post`: any `batch` / `cache_flatten` / `cache_targets` calls with any budgets and schedules), evaluate the linear
    objective with any schedule: value and gradient are the definition's over `nan2zero (scale mode stats (flatten raw))` -/
theorem linear_from_raw {t s : Nat} (sqrt : α → α) (l1 l2 : α) (W : Nat → Nat → α) (b : Nat → α)
    (loss : List α → Vector α t → α) (dloss : List α → Vector α t → Vector α t)
    (hi lo eps : α) (D : Data α) (samples : List Nat) (workers sbF sbT : Nat) (hF : 0 < sbF) (hT : 0 < sbT)
    (hwf : D.WF samples) (junk : List α) (pre post : List Cfg) (it : Iter α)
    (hpre : ∀ c ∈ pre, c.isCache = false) (hpost : ∀ c ∈ post, c.isScaling = false)
    (hrun : Iter.run D junk (Iter.make hi lo eps D samples workers sbF sbT) (pre ++ post) = some it)
    (hb : 0 < it.batch) (hw : 0 < it.workers) (asg : List Nat)
    (hasg : ValidAsg it.workers samples.length it.batch asg) (hs0 : 0 < s) (ht0 : 0 < t)
    (h1 : 0 ≤ l1) (h2 : 0 ≤ l2) (hs : sqrt l2 * sqrt l2 = l2) :
    ∃ out, linearVGradIter (s := s) sqrt l1 l2 W b loss dloss it D asg = some out ∧
      out.fx = linearDefValue t s l1 l2 W b (defL loss hi lo eps D samples it.mode) (defX hi lo eps D samples it.mode)
        samples.length ∧
      (∀ (k : Nat) (hk : k < t), out.gb[k]
        = linearDefGradB t s W b (defL dloss hi lo eps D samples it.mode) (defX hi lo eps D samples it.mode)
          samples.length ⟨k, hk⟩) ∧
      (∀ (idx : Nat) (hi' : idx < t * s), out.gW[idx]
        = linearDefGradW t s l1 l2 W b (defL dloss hi lo eps D samples it.mode) (defX hi lo eps D samples it.mode)
          samples.length ⟨idx / s, idx_div_lt hi'⟩ (idx % s)) :=
  linear_end_to_end sqrt l1 l2 W b loss dloss hi lo eps D samples it
    (inv_run hi lo eps D samples junk _ _ it (inv_make hi lo eps D samples workers sbF sbT hF hT hwf) hrun)
    (fresh_configure_then_cache hi lo eps D samples workers sbF sbT junk pre post it hpre hpost hrun)
    hb hw asg hasg hs0 ht0 h1 h2 hs

/-- the same for the three gradient-boosting objectives (values; the gradients follow in the same way from `*_end_to_end`) -/
theorem gboost_from_raw {t G : Nat} (loss : List α → Vector α t → α) (dloss : List α → Vector α t → Vector α t)
    (xb : Vector α t) (xs : Vector α G) (grp : Nat → Int) (so wo : Nat → Vector α t) (o : Nat → Vector α t)
    (hi lo eps : α) (D : Data α) (samples : List Nat) (workers sbF sbT : Nat) (hF : 0 < sbF) (hT : 0 < sbT)
    (hwf : D.WF samples) (junk : List α) (pre post : List Cfg) (it : Iter α)
    (hpre : ∀ c ∈ pre, c.isCache = false) (hpost : ∀ c ∈ post, c.isScaling = false)
    (hrun : Iter.run D junk (Iter.make hi lo eps D samples workers sbF sbT) (pre ++ post) = some it)
    (hb : 0 < it.batch) (hw : 0 < it.workers) (asg : List Nat)
    (hasg : ValidAsg it.workers samples.length it.batch asg) (hgrp : ∀ i, i < samples.length → grp i < (G : Int)) :
    (∃ out, biasVGradIter loss dloss xb it D asg = some out ∧
      out.1 = biasDefValue (defL loss hi lo eps D samples it.mode) xb samples.length) ∧
    (∃ out, scaleVGradIter loss dloss xs grp so wo it D asg = some out ∧
      out.1 = scaleDefValue (defL loss hi lo eps D samples it.mode) xs grp so wo samples.length) ∧
    gradsVGradIter loss dloss o (List.replicate samples.length 0) (List.replicate samples.length (vzero t)) it D asg
      = some (gradsDef (defL loss hi lo eps D samples it.mode) (defL dloss hi lo eps D samples it.mode) o samples.length) := by
  have hinv := inv_run hi lo eps D samples junk _ _ it (inv_make hi lo eps D samples workers sbF sbT hF hT hwf) hrun
  have hfr := fresh_configure_then_cache hi lo eps D samples workers sbF sbT junk pre post it hpre hpost hrun
  refine ⟨?_, ?_, ?_⟩
  · obtain ⟨out, h1, h2, _⟩ := bias_end_to_end loss dloss xb hi lo eps D samples it hinv hfr hb hw asg hasg
    exact ⟨out, h1, h2⟩
  · obtain ⟨out, h1, h2, _⟩ := scale_end_to_end loss dloss xs grp so wo hi lo eps D samples it hinv hfr hb hw asg hasg hgrp
    exact ⟨out, h1, h2⟩
  · exact grads_end_to_end loss dloss o _ _ hi lo eps D samples it hinv hfr hb asg hasg (by simp) (by simp)

end NanoVerif.Objective
