import NanoVerif.Proofs.Bundle
import NanoVerif.Proofs.BundleCapacity
import NanoVerif.Proofs.Ellipsoid
import NanoVerif.Proofs.EllipsoidLoop
import Mathlib.Algebra.Order.Field.Rat
import Mathlib.Tactic.NormNum
import Mathlib.Analysis.Real.Sqrt
/-!
  C03 — the bundle of sub-gradients is a global lower model of the objective, and the stopping tests of the proximal
  bundle solvers (RQB / FPBA) and of the ellipsoid method certify a bound on the optimality gap.

  Property theorems about `Model/Bundle.lean` and `Model/Ellipsoid.lean` (the models of `src/solver/bundle.cpp`,
  `src/solver/csearch.cpp`, `src/solver/ellipsoid.cpp`), for every linear ordered field `α` (exact arithmetic), every
  objective `f : List α → α` and every dimension `n`. The theorems about the OUTER LOOPS of RQB / FPBA1 / FPBA2
  (`Model/BundleSolver.lean`) build on this file and are in `Proofs/BundleSolver.lean` (`solver_run_certificate`,
  `solver_run_statement_bound`, …). Conventions of the statements:
  * convexity enters only through `SubGrad n f y gy` (the oracle returns a sub-gradient at the trial point);
  * the multipliers of the quadratic sub-problem enter only through `Simplex` (its contract);
  * `std::sqrt` is the class `Sqrt α`, axiomatised by `hsqrt : ∀ v ≥ 0, 0 ≤ sqrt v ∧ sqrt v * sqrt v = v`;
  * the definitions `LB`, `SubGrad`, `Simplex`, `Valid`, `Kept`, `Step`, `Reach` are in `Proofs/Bundle.lean`, `InE` in
    `Proofs/Ellipsoid.lean`, `WellH` in `Proofs/EllipsoidStep.lean`, `InvN` / `CertN` in `Proofs/EllipsoidLoop.lean`.

  COVERAGE TABLE (every function of the anchored files; `modelled` = hand-written Lean definition replayed against the code,
  `oracle` = parameter of the model with a stated contract, `outside` = not in the model):

  src/solver/bundle.cpp
    bundle_t::bundle_t                modelled  `Bundle.init`
    moveto / append (public)          modelled  `appendFull … true / false` (+ centre update in `appendStep`)
    solve, 1 row / 2 rows             modelled  `solve1`, `solve2` (`solveB`); simplex PROVED (6a, 6b)
    solve, ≥ 3 rows (program::solver_t::solve, src/program/solver.cpp — owned by C04)
                                      oracle    `Env.qp`; contract = simplex point (hypothesis `Simplex` / `EnvOK.hsolve`), MONITORED
                                                at run time on every call of every run: |Σα − 1| ≤ 1e-9, α ≥ −1e-12, and KKT
                                                optimality (Frank–Wolfe gap ≤ 1e-6 of the gradient's terms) whenever the QP solver
                                                itself reported `converged` (harness sink + python oracle `fw_gap`)
    delete_inactive                   modelled  `active`
    delete_largest                    modelled  `reduce`, `deleteFrom`; the `std::nth_element` threshold is an oracle (`thres` /
                                                `Env.thr`) with contract `NthElement` (6d)
    store_aggregate/append_aggregate  modelled  `aggregate` (inside `reduce`)
    append (private, 4 arguments)     modelled  `appendStep`, `nullError`, `shiftError`
    econverged / sconverged           modelled  `econverged`, `sconverged`, `tol`
    config / make                     outside   parameter registration and lookup (C19)
  include/nano/solver/bundle.h
    smeared_e, smeared_s, delta, proximal   modelled  `smearedE`, `smearedS`, `delta`, `proximal`
    size, x, gx, fx, dims, capacity, alpha, S, e   modelled as the fields of `State` / `SolverSt` (`e()`'s assert is not modelled)
    remove_if                         modelled  as the order-preserving filters `active` / `deleteFrom` (nano::remove_if: C16)
  src/solver/csearch.cpp
    csearch_t::search                 modelled  one pass `csearchStep`, `newTrial`; the whole loop `BundleSolver.csearchLoop`, `csearch`
    csearch_t::csearch_t, config, make, enum_string   outside (buffers, parameters: C19)
  src/solver/proximity.cpp
    make_miu0, proximity_t::proximity_t   modelled  `makeMiu0`, `miuInit`, `clamp`
    make_miu                          modelled  `makeMiu`
    update (5 arguments, FPBA)        modelled  `proxUpdate1`
    update (7 arguments, RQB)         modelled  `proxUpdate2`, `nuComb`
    miu                               modelled  the field `SolverSt.miu`; its `assert(m_miu > 0)` is PROVED (`proxUpdate*_pos`)
    config / make                     outside   (C19)
  src/solver/nesterov.cpp, include/nano/solver/nesterov.h
    reset, lambda, update(), update(z), make_alpha_beta (1 and 2)   modelled  `Seq`, `Seq.reset`, `lambdaNext`, `Seq.update`, `extrap`
  src/solver/rqb.cpp
    solver_rqb_t::do_minimize         modelled  `BundleSolver.start`, `pass .rqb`, `seriousR`, `run`
    constructor, clone                outside
  src/solver/fpba.cpp
    base_solver_fpba_t::do_minimize (+ lambda apply_nesterov_sequence)   modelled  `pass .fpba1/.fpba2`, `seriousF`, `run`
    constructor, clone                outside
  src/solver/ellipsoid.cpp
    solver_ellipsoid_t::do_minimize   modelled  n = 1: `start1d`, `iter1d`, `run1d`; n ≥ 2: `startND`, `iterND`, `runND`,
                                                `stepND` (`alphaCut`, `stepX`, `stepH`), `initH`, `earlyStop`, `converged`, `fuelOf`
    constructor, clone                outside
  src/solver.cpp  solver_t::done      modelled  `Ellipsoid.doneE` (C01/C02 use the regenerated `Gen.DoneLogic`)
  src/solver/state.cpp  update_if_better / update   modelled  `better`, `betterF`, `BundleSolver.upBetter` (value and point of the
                                                best state; histories: C02)
  the objective `function_t::vgrad`   oracle    `f`, `g'` with contract `SubGrad` (monitored against the known `f` by the python oracle)
  `std::isfinite`, `state.valid()`    oracle    arbitrary predicates in the ellipsoid theorems; `fin ≡ true` in `EnvOK`

  TRANSLATED (translation round; `tools/props/c03_translate.py` regenerates the text from the source of the tree under check on every
  run; the theorems `model_…_is_generated` of `Proofs/EllipsoidGen.lean` / `Proofs/BundleGen.lean` state that the model's definition IS
  the generated one — `rfl`, except where noted):
  src/solver/ellipsoid.cpp  do_minimize: the loop body is walked statement by statement (an unexpected statement breaks the translation)
      start scale `R` / `R*R`, `gHg < epsilon()`, flags of the early exit, 1-D step, `alpha`, the centre step and the H update
      (element-wise), `iter_ok`, `sqrt(gHg) < epsilon`          → Gen/EllipsoidStep.lean `initScale earlyStop earlyIterOk earlyConverged
      step1dX step1dH alphaCut stepXElem stepHElem iterOk converged` ↔ `initH earlyStop step1d alphaCut stepX stepH converged iterND`
  src/solver/bundle.cpp  econverged, sconverged, append (4 arguments: count of delete_largest, the error re-basing of a serious step,
      the error of the new row), moveto (text check), solve for 1 and 2 rows; bundle.h delta, proximal   → Gen/BundleStep.lean
      `econverged sconverged delCount shiftError seriousError nullError solve1 solve2 delta proximalElem` ↔ `econverged sconverged
      delCount appendStep solve1 solve2 delta proximal` (`solve2` over a field: `0.5 * x` vs `x / 2`, Proofs/BundleGenField.lean)
  src/solver/csearch.cpp  search: start values, lambda new_trial, the decision chain of one pass by symbolic execution of the loop body;
      csearch.h enum csearch_status   → `startT startTL startTR startStatus newTrial csearchStep statusOrder` ↔ `CState.start newTrial
      csearchStep Status.toNat` (by cases on `tR`, then `rfl`)
  src/solver/proximity.cpp  make_miu0, make_miu (guard and results; `u` element-wise, equal to the model's `vaxpy` under commutativity
      of `+`), the nu combination, the alpha grid and the `!= max` guards of both `update`s (their plumbing and the constructor's
      initialisers pinned as text)   → `makeMiu0 makeMiu makeMiuU nuCombElem alphaGrid proxKeep1 proxKeep2` ↔ `makeMiu0 makeMiu
      nuComb proxUpdate1 proxUpdate2`
  src/solver/rqb.cpp, src/solver/fpba.cpp  do_minimize: `iter_ok`, `converged`, the dispatch on the curve-search status (branch bodies,
      the lambda apply_nesterov_sequence and the start statements pinned as text)   → `rqbIterOk rqbConverged rqbBranch fpba…` ↔
      `BundleSolver.pass` (`model_pass_is_generated`, by cases on solver and status)
  HAND-WRITTEN still: reductions (`dot`, `smearedE/S` — their C++ text is pinned —, `mv`, `quad`), `active`/`reduce`/
  aggregation, `std::clamp`, `std::min`, Nesterov sequences, the bodies of the serious steps (`seriousR/F`), `update_if_better`.
-/
set_option linter.unusedSectionVars false
set_option linter.unusedVariables false

namespace NanoVerif.Bundle
variable {α : Type} [Field α] [LinearOrder α] [IsStrictOrderedRing α]

/-! ### A. the bundle is a lower model -/

/-- 1. `store_aggregate` (n-ary): the smeared pair `(Σ wᵢ sᵢ, Σ wᵢ eᵢ)` of valid pairs with simplex weights is a valid
    cutting plane for the same centre. -/
theorem aggregate_valid (n : Nat) (f : List α → α) (x : List α) (hx : x.length = n) (pairs : List (Pair α))
    (ws : List α) (hp : ∀ p ∈ pairs, p.s.length = n ∧ LB n f x p.s p.e) (hl : ws.length = pairs.length)
    (hw : Simplex ws) : LB n f x (smearedS n pairs ws) (smearedE pairs ws) := by
  intro z hz
  have := weighted_lb n f x z hx hz pairs ws hp hw.1 hl
  rw [hw.2, one_mul, one_mul] at this
  exact this

/-- 2. whatever survives `delete_inactive; delete_largest` (any sub-collection, plus possibly an aggregate) is valid -/
theorem kept_valid (n : Nat) (f : List α → α) (x : List α) (hx : x.length = n) (pairs kept : List (Pair α))
    (hv : ∀ p ∈ pairs, p.s.length = n ∧ LB n f x p.s p.e) (hk : Kept n pairs kept) :
    ∀ p ∈ kept, p.s.length = n ∧ LB n f x p.s p.e := by
  cases hk with
  | sub k hs => exact fun p hp => hv p (hs.subset hp)
  | agg k ps ws hs hps hl hw =>
    intro p hp
    rcases List.mem_append.mp hp with h | h
    · exact hv p (hs.subset h)
    · rw [List.mem_singleton] at h
      subst h
      have hps' : ∀ q ∈ ps, q.s.length = n ∧ LB n f x q.s q.e := fun q hq => hv q (hps.subset hq)
      exact ⟨smearedS_length n ps ws (fun q hq => (hps' q hq).1), aggregate_valid n f x hx ps ws hps' hl hw⟩

/-- 3. the executable `reduce` (= `delete_inactive(eps0); delete_largest(2)` with the oracle threshold) only produces
    `Kept` collections; the multipliers of the active rows must be a simplex point only when the bundle is full (the
    branch that stores the aggregate). -/
theorem reduce_kept (capacity : Nat) (eps0 thres : α) (n : Nat) (pairs : List (Pair α)) (alphas : List α)
    (hw : (active eps0 pairs alphas).length + 1 = capacity → Simplex ((active eps0 pairs alphas).map (·.2))) :
    Kept n pairs (reduce capacity eps0 thres n pairs alphas) := by
  unfold reduce
  simp only
  split
  · rename_i hfull
    exact Kept.agg _ _ _ ((deleteFrom_sublist thres _).trans (active_fst_sublist eps0 pairs alphas))
      (active_fst_sublist eps0 pairs alphas) (by simp) (hw hfull)
  · exact Kept.sub _ (active_fst_sublist eps0 pairs alphas)

/-- 4. `bundle_t::append` / `moveto` after the deletions: with a sub-gradient at the trial point the new bundle is valid
    — null step (centre kept, new pair `(gy, fx − (fy + gy·(x − y)))`) and serious step (centre moved to `y`, every
    error shifted by `fy − fx − sᵢ·(y − x)`, new pair `(gy, 0)`). -/
theorem appendStep_valid (n : Nat) (f : List α → α) (b : State α) (serious : Bool) (kept : List (Pair α))
    (y gy : List α) (hb : Valid n f b) (hk : ∀ p ∈ kept, p.s.length = n ∧ LB n f b.x p.s p.e) (hy : y.length = n)
    (hsub : SubGrad n f y gy) : Valid n f (appendStep serious kept b.x b.fx y gy (f y)) := by
  obtain ⟨hx, hfx, -⟩ := hb
  obtain ⟨hg, hsg⟩ := hsub
  cases serious with
  | true =>
    simp only [appendStep, if_true]
    refine ⟨hy, rfl, ?_⟩
    intro p hp
    rcases List.mem_append.mp hp with h | h
    · obtain ⟨q, hq, rfl⟩ := List.mem_map.mp h
      obtain ⟨hs, hlb⟩ := hk q hq
      refine ⟨hs, ?_⟩
      intro z hz
      have h1 := hlb z hz
      have h2 := dot_vsub_split q.s z y b.x (by rw [hs, hz]) (by rw [hz, hy]) (by rw [hy, hx])
      simp only [shiftError]
      rw [hfx]
      linarith
    · rw [List.mem_singleton] at h
      subst h
      refine ⟨hg, ?_⟩
      intro z hz
      have := hsg z hz
      simp only
      linarith
  | false =>
    simp only [appendStep, Bool.false_eq_true, if_false]
    refine ⟨hx, hfx, ?_⟩
    intro p hp
    rcases List.mem_append.mp hp with h | h
    · exact hk p h
    · rw [List.mem_singleton] at h
      subst h
      refine ⟨hg, ?_⟩
      intro z hz
      have h1 := hsg z hz
      have h2 := dot_vsub_split gy z b.x y (by rw [hg, hz]) (by rw [hz, hx]) (by rw [hx, hy])
      simp only [nullError]
      rw [hfx]
      linarith

/-- 5. INVARIANT: every bundle reachable from the constructor by null / serious steps with sub-gradients (whatever the
    deletions keep) has only valid rows, and so has every simplex combination of its rows: for all `z`
    `f(x̂) + ŝ·(z − x̂) − ê ≤ f(z)`. -/
theorem bundle_lower_bound_invariant (n : Nat) (f : List α → α) (x0 g0 : List α) (hx0 : x0.length = n)
    (hg0 : SubGrad n f x0 g0) (b : State α) (h : Reach n f x0 g0 b) :
    Valid n f b ∧ ∀ ws : List α, ws.length = b.pairs.length → Simplex ws →
      LB n f b.x (smearedS n b.pairs ws) (smearedE b.pairs ws) := by
  have hv : Valid n f b := by
    induction h with
    | init =>
      exact appendStep_valid n f ⟨x0, f x0, []⟩ true [] x0 g0 ⟨hx0, rfl, by simp⟩ (by simp) hx0 hg0
    | @step b1 b2 hr hs ih =>
      cases hs with
      | mk serious kept y gy hk hy hsub =>
        exact appendStep_valid n f b1 serious kept y gy ih (kept_valid n f b1.x ih.1 b1.pairs kept ih.2.2 hk) hy hsub
  exact ⟨hv, fun ws hl hw => aggregate_valid n f b.x hv.1 b.pairs ws hv.2.2 hl hw⟩

/-- 6. the model's whole `append` call (`delete_inactive; delete_largest; append`) preserves validity -/
theorem appendFull_valid (capacity : Nat) (eps0 thres : α) (n : Nat) (f : List α → α) (serious : Bool) (b : State α)
    (alphas : List α) (y gy : List α) (hb : Valid n f b)
    (hw : (active eps0 b.pairs alphas).length + 1 = capacity → Simplex ((active eps0 b.pairs alphas).map (·.2)))
    (hy : y.length = n) (hsub : SubGrad n f y gy) :
    Valid n f (appendFull capacity eps0 thres n serious b alphas y gy (f y)) := by
  unfold appendFull
  exact appendStep_valid n f b serious _ y gy hb
    (kept_valid n f b.x hb.1 b.pairs _ hb.2.2 (reduce_kept capacity eps0 thres n b.pairs alphas hw)) hy hsub

/-- an `appendFull` is a `Step` (so the invariant 5 covers the executable model) -/
theorem appendFull_step (capacity : Nat) (eps0 thres : α) (n : Nat) (f : List α → α) (serious : Bool) (b : State α)
    (alphas : List α) (y gy : List α)
    (hw : (active eps0 b.pairs alphas).length + 1 = capacity → Simplex ((active eps0 b.pairs alphas).map (·.2)))
    (hy : y.length = n) (hsub : SubGrad n f y gy) :
    Step n f b (appendFull capacity eps0 thres n serious b alphas y gy (f y)) :=
  Step.mk b serious _ y gy (reduce_kept capacity eps0 thres n b.pairs alphas hw) hy hsub

/-! ### the multipliers for one and two rows are computed, not assumed -/

/-- 6a. `bundle_t::solve`, `m_size == 1`: the multiplier list `[1]` is a simplex point -/
theorem solve1_simplex : Simplex (solve1 : List α) := by
  refine ⟨?_, by simp [solve1]⟩
  intro a ha
  simp only [solve1, List.mem_singleton] at ha
  subst ha
  exact zero_le_one

/-- 6b. `bundle_t::solve`, `m_size == 2` (the analytic path, bundle.cpp:41-55): whatever the rows, `miu` and the outcome
    of `std::isfinite`, the two multipliers form a simplex point — the QP contract is an assumption only for three or
    more rows. -/
theorem solve2_simplex (fin : α → Bool) (miu : α) (p0 p1 : Pair α) : Simplex (solve2 fin miu p0 p1) := by
  unfold solve2
  simp only
  split
  · rename_i h
    simp only [Bool.and_eq_true, decide_eq_true_eq] at h
    obtain ⟨⟨-, h0⟩, h1⟩ := h
    refine ⟨?_, by simp⟩
    intro a ha
    simp only [List.mem_cons, List.not_mem_nil, or_false] at ha
    rcases ha with rfl | rfl
    · exact h0
    · linarith
  · split
    · refine ⟨?_, by simp⟩
      intro a ha
      simp only [List.mem_cons, List.not_mem_nil, or_false] at ha
      rcases ha with rfl | rfl <;> norm_num
    · refine ⟨?_, by simp⟩
      intro a ha
      simp only [List.mem_cons, List.not_mem_nil, or_false] at ha
      rcases ha with rfl | rfl <;> norm_num

/-! ### the bundle never outgrows its buffers -/

/-- 6c. `assert(m_size < capacity())` (bundle.cpp:160) is an invariant of `append`: if the bundle was below its capacity
    and — when it is full after `delete_inactive` — at least `count = 2` of the active rows satisfy the removal test
    `e_i >= thres`, then it is below its capacity again after the aggregate and the new row were added. (Before commit
    1327552 the threshold could exceed every error, nothing was removed and row `capacity` was written: max_size 2, 3.) -/
theorem append_stays_below_capacity (capacity : Nat) (eps0 thres : α) (n : Nat) (serious : Bool) (b : State α)
    (alphas : List α) (y gy : List α) (fy : α) (hsize : b.pairs.length < capacity)
    (hdel : (active eps0 b.pairs alphas).length + 1 = capacity →
      delCount ≤ ((active eps0 b.pairs alphas).filter (fun pa => decide (thres ≤ pa.1.e))).length) :
    (appendFull capacity eps0 thres n serious b alphas y gy fy).pairs.length < capacity := by
  unfold appendFull
  rw [appendStep_length]
  unfold reduce
  simp only
  have hact := active_length_le eps0 b.pairs alphas
  split
  · rename_i hfull
    have h1 := deleteFrom_length thres (active eps0 b.pairs alphas)
    have h2 := hdel hfull
    simp only [delCount] at h2
    simp only [List.length_append, List.length_cons, List.length_nil]
    omega
  · rename_i hnot
    rw [List.length_map]
    omega

/-- 6d. the hypothesis of 6c follows from the contract of `std::nth_element` (bundle.cpp:106-108): the errors of the
    active rows are copied, `nth_element(first, first + (size − count), last)` reorders the copy `a`, and the threshold is
    read at position `min(count, size − count) ≤ size − count`; `count ≤ size` is the code's `assert(count <= size())`. -/
theorem append_stays_below_capacity_nth (capacity : Nat) (eps0 thres ak : α) (n : Nat) (serious : Bool) (b : State α)
    (alphas : List α) (y gy : List α) (fy : α) (a : List α) (hsize : b.pairs.length < capacity)
    (hcount : delCount ≤ (active eps0 b.pairs alphas).length)
    (hnth : NthElement ((active eps0 b.pairs alphas).length - delCount)
      ((active eps0 b.pairs alphas).map (fun pa => pa.1.e)) a ak)
    (hthres : a[min delCount ((active eps0 b.pairs alphas).length - delCount)]? = some thres) :
    (appendFull capacity eps0 thres n serious b alphas y gy fy).pairs.length < capacity := by
  apply append_stays_below_capacity capacity eps0 thres n serious b alphas y gy fy hsize
  intro _
  have h := nth_element_removes _ a _ _ ak thres hnth (Nat.min_le_right _ _) hthres
  rw [List.length_map] at h
  have hf : (((active eps0 b.pairs alphas).map (fun pa => pa.1.e)).filter (fun e => decide (thres ≤ e))).length =
      ((active eps0 b.pairs alphas).filter (fun pa => decide (thres ≤ pa.1.e))).length := by
    rw [List.filter_map, List.length_map]
    rfl
  rw [hf] at h
  omega

/-! ### stopping certificate -/

/-- 7a. -/
theorem dot_self_nonneg (a : List α) : 0 ≤ dot a a := dot_self_nonneg' a

/-- 7b. Cauchy–Schwarz for list vectors (any lengths) -/
theorem cauchy_schwarz (a b : List α) : dot a b * dot a b ≤ dot a a * dot b b := dot_sq_le a b

/-- 8. `econverged ∧ sconverged` certify `f(x̂) − f(z) ≤ ε√n (1 + ‖z − x̂‖₂)` for EVERY `z` -/
theorem bundle_stop_certificate [Sqrt α]
    (hsqrt : ∀ v : α, 0 ≤ v → 0 ≤ Sqrt.sqrt v ∧ Sqrt.sqrt v * Sqrt.sqrt v = v)
    (n : Nat) (f : List α → α) (b : State α) (ws : List α) (eps : α) (hb : Valid n f b)
    (hl : ws.length = b.pairs.length) (hw : Simplex ws) (heps : 0 ≤ eps)
    (he : econverged n eps b.pairs ws = true) (hs : sconverged n eps b.pairs ws = true)
    (z : List α) (hz : z.length = n) :
    f b.x - f z ≤ tol n eps * (1 + norm2 (vsub z b.x)) := by
  have hlb := aggregate_valid n f b.x hb.1 b.pairs ws hb.2.2 hl hw z hz
  have he' : smearedE b.pairs ws ≤ tol n eps := of_decide_eq_true he
  have hs' : norm2 (smearedS n b.pairs ws) ≤ tol n eps := of_decide_eq_true hs
  have hcs := neg_norm_mul_le_dot hsqrt (smearedS n b.pairs ws) (vsub z b.x)
  have hD : 0 ≤ norm2 (vsub z b.x) := (hsqrt _ (dot_self_nonneg' _)).1
  have h2 := mul_le_mul_of_nonneg_right hs' hD
  nlinarith

/-- 9a. the curve search reports `converged` exactly when the trial value is finite and both bundle tests hold -/
theorem csearch_converged_iff (P : CParams α) (c : CState α) (fin econv sconv : Bool) (fx fy e dl gyd sd : α) :
    csearchStep P c fin econv sconv fx fy e dl gyd sd = .stop .converged ↔
      (fin = true ∧ econv = true ∧ sconv = true) := by
  unfold csearchStep
  cases fin <;> cases econv <;> cases sconv <;> simp <;> (repeat' split) <;> simp

/-- 9b. when RQB / FPBA hand `converged = true` to `solver_t::done` (status `converged` of the curve search run on the
    bundle `b` with multipliers `ws`), the gap bound of 8 holds for every `z`. -/
theorem solver_converged_certificate [Sqrt α]
    (hsqrt : ∀ v : α, 0 ≤ v → 0 ≤ Sqrt.sqrt v ∧ Sqrt.sqrt v * Sqrt.sqrt v = v)
    (n : Nat) (f : List α → α) (b : State α) (ws : List α) (eps : α) (hb : Valid n f b)
    (hl : ws.length = b.pairs.length) (hw : Simplex ws) (heps : 0 ≤ eps)
    (P : CParams α) (c : CState α) (fin : Bool) (fx fy e dl gyd sd : α) (st : Status)
    (hstep : csearchStep P c fin (econverged n eps b.pairs ws) (sconverged n eps b.pairs ws) fx fy e dl gyd sd =
      .stop st)
    (hconv : solverConverged st = true) (z : List α) (hz : z.length = n) :
    f b.x - f z ≤ tol n eps * (1 + norm2 (vsub z b.x)) := by
  have hst : st = .converged := by simpa [solverConverged] using hconv
  subst hst
  obtain ⟨-, he, hs⟩ := (csearch_converged_iff P c fin _ _ fx fy e dl gyd sd).mp hstep
  exact bundle_stop_certificate hsqrt n f b ws eps hb hl hw heps he hs z hz

end NanoVerif.Bundle

namespace NanoVerif.Ellipsoid
open NanoVerif.Bundle
variable {α : Type} [Field α] [LinearOrder α] [IsStrictOrderedRing α]

/-! ### B. ellipsoid method -/

/-- 10. if `z` lies in the current ellipsoid `E(x, H)` then `f(x) − f(z) ≤ √(gᵀHg)` (`gᵀHg ≥ 0` follows from `InE`) -/
theorem ellipsoid_stop_certificate [Sqrt α]
    (hsqrt : ∀ v : α, 0 ≤ v → 0 ≤ Sqrt.sqrt v ∧ Sqrt.sqrt v * Sqrt.sqrt v = v)
    (n : Nat) (f : List α → α) (x g : List α) (H : List (List α)) (z : List α) (hz : z.length = n)
    (hsub : SubGrad n f x g) (hin : InE n x H z) :
    f x - f z ≤ Sqrt.sqrt (quad H g) := by
  obtain ⟨hg, hs⟩ := hsub
  have h1 := hs z hz
  have h2 := hin g hg
  obtain ⟨hr0, hr⟩ := hsqrt _ (le_trans (mul_self_nonneg _) h2)
  rw [← hr] at h2
  have := neg_le_of_sq_le _ _ hr0 h2
  linarith

/-- 11a. the stopping test `sqrt(gHg) < epsilon` (ellipsoid.cpp:75) certifies `best − f(z) < ε` on the ellipsoid -/
theorem ellipsoid_converged_certificate [Sqrt α]
    (hsqrt : ∀ v : α, 0 ≤ v → 0 ≤ Sqrt.sqrt v ∧ Sqrt.sqrt v * Sqrt.sqrt v = v)
    (n : Nat) (f : List α → α) (x g : List α) (H : List (List α)) (z : List α) (eps best : α) (hz : z.length = n)
    (hsub : SubGrad n f x g) (hin : InE n x H z) (hc : converged eps (quad H g) = true) (hbest : best ≤ f x) :
    best - f z < eps := by
  have h1 := ellipsoid_stop_certificate hsqrt n f x g H z hz hsub hin
  have h2 : Sqrt.sqrt (quad H g) < eps := of_decide_eq_true hc
  linarith

/-- 11b. the early exit `gHg < numeric_limits::epsilon()` (ellipsoid.cpp:47): the gap is at most `√gHg` with
    `gHg < epsM`, i.e. its square is below `epsM` unless it is non-positive -/
theorem ellipsoid_early_certificate [Sqrt α]
    (hsqrt : ∀ v : α, 0 ≤ v → 0 ≤ Sqrt.sqrt v ∧ Sqrt.sqrt v * Sqrt.sqrt v = v)
    (n : Nat) (f : List α → α) (x g : List α) (H : List (List α)) (z : List α) (epsM best : α) (hz : z.length = n)
    (hsub : SubGrad n f x g) (hin : InE n x H z) (hc : earlyStop epsM (quad H g) = true) (hbest : best ≤ f x) :
    (best - f z) * (best - f z) < epsM ∨ best - f z ≤ 0 := by
  have h1 := ellipsoid_stop_certificate hsqrt n f x g H z hz hsub hin
  have h2 : quad H g < epsM := of_decide_eq_true hc
  have hq : 0 ≤ quad H g := le_trans (mul_self_nonneg _) (hin g hsub.1)
  obtain ⟨hr0, hr⟩ := hsqrt _ hq
  by_cases hpos : best - f z ≤ 0
  · exact Or.inr hpos
  · left
    have h3 := mul_self_le_mul_self (le_of_lt (not_le.mp hpos)) (show best - f z ≤ Sqrt.sqrt (quad H g) by linarith)
    linarith

/-- 12. `update_if_better` never increases the best value, and the result is not above the new value -/
theorem best_le (best f : α) : better best f ≤ best ∧ better best f ≤ f := better_le best f

/-- 13. primal ⇒ support form: `z = x + L u`, `‖u‖₂ ≤ 1`, `H = L Lᵀ` (as quadratic forms) give `z ∈ E(x, H)` -/
theorem ellipsoid_mem_of_factor (n m : Nat) (x z : List α) (H L : List (List α)) (u : List α)
    (hL : ∀ r ∈ L, r.length = m) (hu : u.length = m) (hu1 : dot u u ≤ 1) (hz : vsub z x = mv L u)
    (hH : ∀ w : List α, w.length = n → quad H w = dot (vm m w L) (vm m w L)) : InE n x H z := by
  intro w hw
  rw [hz, vm_adjoint m u hu w L hL, hH w hw]
  have h1 := dot_sq_le (vm m w L) u
  have h2 := mul_le_mul_of_nonneg_left hu1 (dot_self_nonneg' (vm m w L))
  linarith

/-- 14. the deep cut of ellipsoid.cpp:64 contains every point not worse than the best value:
    `g·(z − x) ≤ −α √(gHg)` with `α = (f(x) − best)/√(gHg)` -/
theorem deep_cut_valid [Sqrt α] (n : Nat) (f : List α → α) (x g z : List α) (best gHg r : α) (hz : z.length = n)
    (hsub : SubGrad n f x g) (hbest : f z ≤ best) (hr : 0 < r) (hrs : r = Sqrt.sqrt gHg) :
    dot g (vsub z x) ≤ -(alphaCut (f x) best gHg) * r := by
  have h1 := hsub.2 z hz
  have h2 : alphaCut (f x) best gHg * r = f x - best := by
    unfold alphaCut
    rw [← hrs]
    exact div_mul_cancel₀ _ hr.ne'
  rw [neg_mul, h2]
  linarith

/-! ### 15. the 1-D branch (what the code does: the centre moves by the full `H`, `H` is halved, so the interval
    maintained around the centre is `x ± 2H`) -/

/-- one 1-D step keeps every minimiser that was within `2h` of the centre within `2h'` of the new centre -/
theorem ellipsoid_1d_contains (f : α → α) (x h g z : α) (hh : 0 ≤ h) (hz : |z - x| ≤ 2 * h) (hg : g ≠ 0)
    (hsub : ∀ w, f x + g * (w - x) ≤ f w) (hmin : ∀ w, f z ≤ f w) :
    |z - (step1d x h g).1| ≤ 2 * (step1d x h g).2 ∧ 0 ≤ (step1d x h g).2 :=
  step1d_contains f x h g z hh hz hg hsub hmin

/-- gap bound of the 1-D branch: `2 |g| H`, and `2 g H g` when the sub-gradient is not smaller than 1 in modulus -/
theorem ellipsoid_1d_stop_certificate (f : α → α) (x h g z : α) (hh : 0 ≤ h) (hz : |z - x| ≤ 2 * h)
    (hsub : ∀ w, f x + g * (w - x) ≤ f w) :
    f x - f z ≤ 2 * |g| * h ∧ (1 ≤ |g| → f x - f z ≤ 2 * (g * (h * g))) :=
  ⟨gap1d f x h g z hh hz hsub, gap1d_sharp f x h g z hh hz hsub⟩

/-- the whole 1-D loop: if it stops with `converged` then the best value is within `2ε²` (test `sqrt(gHg) < ε`) or
    `2 epsM` (early exit `gHg < epsM`) of the minimum, for a sharp objective (`g = 0` or `|g| ≥ 1`, e.g. `|x − c|`),
    any minimiser `z` within `2R` of the starting point, and any evaluation budget. -/
theorem ellipsoid_1d_run_certificate [Sqrt α]
    (hsqrt : ∀ v : α, 0 ≤ v → 0 ≤ Sqrt.sqrt v ∧ Sqrt.sqrt v * Sqrt.sqrt v = v)
    (f g' : α → α) (z R x0 eps epsM : α) (hsub : ∀ x w, f x + g' x * (w - x) ≤ f w) (hmin : ∀ w, f z ≤ f w)
    (hsharp : ∀ x, g' x = 0 ∨ 1 ≤ |g' x|) (hR : 0 ≤ R) (hz : |z - x0| ≤ 2 * R) (hepsM : 0 < epsM)
    (fuel : Nat) (s : S1 α)
    (hrun : run1d eps epsM (fun x => (f x, g' x)) fuel (start1d R x0 (fun x => (f x, g' x))) = (true, s)) :
    s.best - f z < 2 * (eps * eps) ∨ s.best - f z < 2 * epsM :=
  run1d_spec hsqrt f g' z eps epsM hsub hmin hsharp hepsM fuel _ s ⟨hz, hR, rfl, rfl, le_refl _⟩ hrun

/-! ### 16. n-D: the Löwner–John step and the whole loop -/

/-- 16a. the starting ball (ellipsoid.cpp:36-37, `H = R² I` for `n ≥ 2`) contains every `z` with `‖z − x0‖₂ ≤ R`, and is
    a symmetric `n × n` matrix -/
theorem ellipsoid_init_contains (n : Nat) (hn : n ≠ 1) (R : α) (x0 z : List α) (hx : x0.length = n) (hz : z.length = n)
    (hR : dot (vsub z x0) (vsub z x0) ≤ R * R) : InE n x0 (initH n R) z ∧ WellH n (initH n R) :=
  ⟨initH_contains n hn R x0 z hx hz hR, initH_wellH n R⟩

/-- 16b. THE LÖWNER–JOHN STEP as coded (ellipsoid.cpp:64-68): for `n ≥ 2`, `H` symmetric with `gᵀHg > 0` and a cut
    parameter `−1/n ≤ α ≤ 1`, every point `z` of the half-ellipsoid `{z ∈ E(x, H) | g·(z − x) ≤ −α √(gᵀHg)}` lies in the
    updated ellipsoid `E(x⁺, H⁺)`, `x⁺ = x − (1 + nα)/(n + 1) · Hg/√(gᵀHg)`,
    `H⁺ = n²/(n² − 1) (1 − α²) (H − 2(1 + nα)/((n + 1)(1 + α)) · Hg gᵀH/(gᵀHg))`; `H⁺` is again symmetric `n × n`. Membership is
    in support-function form (`InE`: `(w·(z − x))² ≤ wᵀHw` for all `w`), which needs no inverse of `H`. -/
theorem ellipsoid_deep_cut_contains [Sqrt α]
    (hsqrt : ∀ v : α, 0 ≤ v → 0 ≤ Sqrt.sqrt v ∧ Sqrt.sqrt v * Sqrt.sqrt v = v)
    (n : Nat) (hn : 2 ≤ n) (x g z : List α) (H : List (List α)) (al : α) (hx : x.length = n) (hg : g.length = n)
    (hz : z.length = n) (hH : WellH n H) (hpos : 0 < quad H g) (hin : InE n x H z) (hlo : -1 ≤ (n : α) * al)
    (hhi : al ≤ 1) (hcut : dot g (vsub z x) ≤ -al * Sqrt.sqrt (quad H g)) :
    InE n (stepX (n : α) x (mv H g) al (quad H g)) (stepH (n : α) H (mv H g) (vm n g H) al (quad H g)) z ∧
      WellH n (stepH (n : α) H (mv H g) (vm n g H) al (quad H g)) :=
  ⟨stepND_contains hsqrt n hn x g z H al hx hg hz hH hpos hin hlo hhi hcut, stepH_wellH n (n : α) al H hH g hg⟩

/-- 16c. THE WHOLE n-D LOOP (ellipsoid.cpp:28-82, `n ≥ 2`): for a convex `f` whose oracle returns sub-gradients, a
    minimiser `z` with `‖z − x0‖₂ ≤ R` (the only containment that is assumed: the starting ball), every evaluation budget
    `fuel`, every `std::isfinite` / `state.valid()` behaviour: when the run stops with `solver_status::converged`, the
    returned point `bx` (value `best`) satisfies `f(bx) − f(z) < ε` (test `sqrt(gHg) < ε`) or `(f(bx) − f(z))² < epsM` (early
    exit `gHg < epsM`). No containment hypothesis on the iterates: it is the loop invariant, by 16a/16b and the deep cut
    `α = (f(x) − best)/√(gᵀHg) ∈ [0, 1]`. -/
theorem ellipsoid_nd_run_certificate [Sqrt α]
    (hsqrt : ∀ v : α, 0 ≤ v → 0 ≤ Sqrt.sqrt v ∧ Sqrt.sqrt v * Sqrt.sqrt v = v)
    (n : Nat) (hn : 2 ≤ n) (f : List α → α) (g' : List α → List α) (z x0 : List α) (R eps epsM : α)
    (fin : α → Bool) (valid : SN α → Bool)
    (hsub : ∀ x : List α, x.length = n → SubGrad n f x (g' x)) (hz : z.length = n) (hx0 : x0.length = n)
    (hmin : ∀ w : List α, w.length = n → f z ≤ f w) (hepsM : 0 < epsM)
    (hR : dot (vsub z x0) (vsub z x0) ≤ R * R) (fuel : Nat) (s : SN α)
    (hrun : runND n eps epsM fin valid (fun x => (f x, g' x)) fuel (startND n R x0 (fun x => (f x, g' x))) =
      (EStatus.converged, s)) :
    s.best = f s.bx ∧ (f s.bx - f z < eps ∨ (f s.bx - f z) * (f s.bx - f z) < epsM) := by
  have h := runND_spec hsqrt n hn f g' z eps epsM fin valid hsub hz hmin hepsM fuel _ s
    ⟨hx0, initH_wellH n R, initH_contains n (by omega) R x0 z hx0 hz hR, rfl, rfl, le_refl _, hmin x0 hx0, rfl, hx0⟩
    hrun
  obtain ⟨h1, h2⟩ := h
  rw [h1] at h2
  exact ⟨h1, h2⟩

/-- 16d. the bound of the statement: with `epsM ≤ (10 ε)²` (binary64: `epsM = 2.2e-16`, `ε ≥ 1e-8`) a run that reports
    `converged` returns a point with `f(bx) − f(z) < 10 ε` -/
theorem ellipsoid_nd_converged_10eps [Sqrt α]
    (hsqrt : ∀ v : α, 0 ≤ v → 0 ≤ Sqrt.sqrt v ∧ Sqrt.sqrt v * Sqrt.sqrt v = v)
    (n : Nat) (hn : 2 ≤ n) (f : List α → α) (g' : List α → List α) (z x0 : List α) (R eps epsM : α)
    (fin : α → Bool) (valid : SN α → Bool)
    (hsub : ∀ x : List α, x.length = n → SubGrad n f x (g' x)) (hz : z.length = n) (hx0 : x0.length = n)
    (hmin : ∀ w : List α, w.length = n → f z ≤ f w) (hepsM : 0 < epsM) (heps : 0 < eps)
    (hM : epsM ≤ (10 * eps) * (10 * eps))
    (hR : dot (vsub z x0) (vsub z x0) ≤ R * R) (fuel : Nat) (s : SN α)
    (hrun : runND n eps epsM fin valid (fun x => (f x, g' x)) fuel (startND n R x0 (fun x => (f x, g' x))) =
      (EStatus.converged, s)) :
    f s.bx - f z < 10 * eps := by
  obtain ⟨-, h | h⟩ := ellipsoid_nd_run_certificate hsqrt n hn f g' z x0 R eps epsM fin valid hsub hz hx0 hmin hepsM hR
    fuel s hrun
  · linarith
  · by_contra hc
    have hc : 10 * eps ≤ f s.bx - f z := not_lt.mp hc
    have := mul_self_le_mul_self (by linarith : (0 : α) ≤ 10 * eps) hc
    linarith

/-- 16e. the status logic of the loop: `converged` is reported exactly by the early exit (`gHg < epsM`) or by a pass whose
    `sqrt(gHg) < ε` held at the point that was left (`converged` wins over a non-finite value); `failed` only by a pass with
    a non-finite value or an invalid state; a pass that goes on had a finite value -/
theorem ellipsoid_done_logic (iterOk conv valid : Bool) :
    (doneE iterOk conv valid = some EStatus.converged ↔ conv = true) ∧
      (doneE iterOk conv valid = some EStatus.failed ↔ (conv = false ∧ (iterOk = false ∨ valid = false))) ∧
      (doneE iterOk conv valid = none ↔ (conv = false ∧ iterOk = true ∧ valid = true)) ∧
      doneE iterOk conv valid ≠ some EStatus.maxIters := by
  cases iterOk <;> cases conv <;> cases valid <;> simp [doneE]

/-- 16f. a run never reports anything but its own last decision: with no budget the status is `max_iters` and the state
    is the starting state -/
theorem ellipsoid_no_budget (n : Nat) (eps epsM : α) [Sqrt α] (fin : α → Bool) (valid : SN α → Bool)
    (oracle : List α → α × List α) (s : SN α) : runND n eps epsM fin valid oracle 0 s = (EStatus.maxIters, s) := rfl

end NanoVerif.Ellipsoid

/-! ### C. non-vacuity (ℚ; ℝ with `Real.sqrt` for the hypotheses about `sqrt`) -/

namespace NanoVerif.C03Examples
open NanoVerif.Bundle NanoVerif.Ellipsoid

/-- `f(z) = |z₀|`, n = 1 -/
def exF : List ℚ → ℚ := fun z => |z.headD 0|

theorem sg1 : SubGrad 1 exF [1] [1] := by
  refine ⟨rfl, ?_⟩
  intro z hz
  match z, hz with
  | [a], _ =>
    simp only [exF, dot, vsub, List.headD_cons]
    have := le_abs_self a
    norm_num
    linarith

theorem sg2 : SubGrad 1 exF [-2] [-1] := by
  refine ⟨rfl, ?_⟩
  intro z hz
  match z, hz with
  | [a], _ =>
    simp only [exF, dot, vsub, List.headD_cons]
    have := neg_abs_le a
    norm_num
    linarith

theorem sg0 : SubGrad 1 exF [0] [0] := by
  refine ⟨rfl, ?_⟩
  intro z hz
  match z, hz with
  | [a], _ =>
    simp only [exF, dot, vsub, List.headD_cons]
    norm_num

theorem simplexHalf : Simplex [(1 / 2 : ℚ), 1 / 2] := by
  refine ⟨?_, by norm_num⟩
  intro a ha
  simp only [List.mem_cons, List.not_mem_nil, or_false] at ha
  rcases ha with rfl | rfl <;> norm_num

example : SubGrad 1 exF [1] [1] := sg1
example : Simplex [(1 / 2 : ℚ), 1 / 2] := simplexHalf

/-- a reachable state: constructor at `x0 = 1`, a null step at `y = −2` keeping both rows, a serious step to `y = 0`
    that keeps only the aggregate (weights ½, ½) of the two rows: centre 0, two rows -/
def exState : State ℚ :=
  appendStep true [aggregate 1 [⟨[1], 0⟩, ⟨[-1], nullError 1 2 [1] [-2] [-1]⟩] [1 / 2, 1 / 2]] [1] 1 [0] [0] 0

theorem exReach : Reach 1 exF [1] [1] exState := by
  have h0 : Reach 1 exF [1] [1] (Bundle.init [1] [1] (exF [1])) := Reach.init
  have h1 := Reach.step h0 (Step.mk _ false _ [-2] [-1] (Kept.sub _ (List.Sublist.refl _)) rfl sg2)
  have h2 := Reach.step h1 (Step.mk _ true _ [0] [0]
    (Kept.agg [] _ [1 / 2, 1 / 2] (List.nil_sublist _) (List.Sublist.refl _) rfl simplexHalf) rfl sg0)
  have e1 : exF [1] = 1 := by norm_num [exF]
  have e2 : exF [-2] = 2 := by norm_num [exF]
  have e0 : exF [0] = 0 := by norm_num [exF]
  simpa [exState, Bundle.init, appendStep, e0, e1, e2] using h2

example : exState.x = [0] ∧ exState.pairs.length = 2 := ⟨rfl, rfl⟩

/-- the invariant applies to it -/
example : Valid 1 exF exState := (bundle_lower_bound_invariant 1 exF [1] [1] rfl sg1 exState exReach).1

/-- the full bundle (capacity 3 reached with two active rows): `reduce` stores the aggregate; with fewer rows it does not -/
example : (reduce 3 (1 / 1000) 1 1 [⟨[1], 0⟩, ⟨[-1], (2 : ℚ)⟩] [1 / 2, 1 / 2]).length = 2 := by
  norm_num [reduce, active, deleteFrom, aggregate]
/-- `nth_element`'s contract is satisfiable: errors `[5, 1, 3]`, `k = 3 − 2 = 1`, reordered copy `[1, 3, 5]` -/
example : NthElement 1 [(5 : ℚ), 1, 3] [1, 3, 5] 3 := by
  refine ⟨?_, rfl, ?_, ?_⟩
  · exact (List.Perm.cons 1 (List.Perm.swap 5 3 [])).trans (List.Perm.swap 5 1 [3])
  · intro x hx; simp at hx; subst hx; norm_num
  · intro y hy; simp at hy; rcases hy with rfl | rfl <;> norm_num
example : (reduce 4 (1 / 1000) 0 1 [⟨[1], 0⟩, ⟨[-1], (2 : ℚ)⟩] [1 / 2, 1 / 2]).length = 2 := by
  norm_num [reduce, active]

/-- the curve search does report `converged` -/
example : csearchStep (⟨1 / 2, 1 / 20, 1 / 2, 1 / 2, 3 / 10, 5, 1 / 1000⟩ : CParams ℚ) CState.start true true true
    1 0 0 0 0 0 = .stop .converged := by
  simp [csearchStep]
example : solverConverged .converged = true := rfl

/-- 1-D ellipsoid: `f(x) = |x − 1|`, sharp sub-gradient `sign(x − 1)`, minimiser `1`, start `x0 = 0`, `R = 1` -/
def f1 : ℚ → ℚ := fun x => |x - 1|
def g1 : ℚ → ℚ := fun x => if x < 1 then -1 else if x = 1 then 0 else 1

example : ∀ x w, f1 x + g1 x * (w - x) ≤ f1 w := by
  intro x w
  have h1 := le_abs_self (w - 1)
  have h2 := neg_abs_le (w - 1)
  have h3 := abs_nonneg (w - 1)
  unfold f1 g1
  split_ifs with ha hb
  · rw [abs_of_neg (by linarith)]; linarith
  · subst hb; simp
  · have : 1 < x := lt_of_le_of_ne (not_lt.mp ha) (Ne.symm hb)
    rw [abs_of_pos (by linarith)]; linarith
example : ∀ w, f1 1 ≤ f1 w := by intro w; simp [f1]
example : ∀ x, g1 x = 0 ∨ 1 ≤ |g1 x| := by
  intro x
  unfold g1
  split_ifs <;> simp
example : |(1 : ℚ) - 0| ≤ 2 * 1 := by norm_num
example : step1d (0 : ℚ) 1 (-1) = (1, 1 / 2) := by norm_num [step1d]
example : better (1 : ℚ) 0 = 0 ∧ better (0 : ℚ) 1 = 0 := by norm_num [better]

section
local instance : Sqrt ℚ := ⟨fun v => if v = 1 then 1 else 0⟩
/-- the loop on this instance: one step to the minimiser, then the early exit reports `converged` with best value 0 -/
example : run1d (1 / 10) (1 / 100) (fun x => (f1 x, g1 x)) 2 (start1d 1 0 (fun x => (f1 x, g1 x))) =
    (true, ⟨1, 1 / 2, 0, 0, 0⟩) := by
  norm_num [run1d, iter1d, start1d, step1d, better, converged, Sqrt.sqrt, f1, g1]
end

/-! the square-root axiomatisation is satisfiable (ℝ), together with all hypotheses of the stopping certificates -/
section real
noncomputable local instance : Sqrt ℝ := ⟨Real.sqrt⟩

theorem hsqrtReal : ∀ v : ℝ, 0 ≤ v → 0 ≤ Sqrt.sqrt v ∧ Sqrt.sqrt v * Sqrt.sqrt v = v :=
  fun v hv => ⟨Real.sqrt_nonneg v, Real.mul_self_sqrt hv⟩

def exFR : List ℝ → ℝ := fun z => |z.headD 0|

/-- centre 0 with the two cutting planes `±z` of `|z|` -/
def exStateR : State ℝ := ⟨[0], 0, [⟨[1], 0⟩, ⟨[-1], 0⟩]⟩

theorem exValidR : Valid 1 exFR exStateR := by
  refine ⟨rfl, by simp [exStateR, exFR], ?_⟩
  intro p hp
  simp only [exStateR, List.mem_cons, List.not_mem_nil, or_false] at hp
  rcases hp with rfl | rfl
  · refine ⟨rfl, ?_⟩
    intro z hz
    match z, hz with
    | [a], _ =>
      simp only [exStateR, exFR, dot, vsub, List.headD_cons]
      have := le_abs_self a
      norm_num
      linarith
  · refine ⟨rfl, ?_⟩
    intro z hz
    match z, hz with
    | [a], _ =>
      simp only [exStateR, exFR, dot, vsub, List.headD_cons]
      have := neg_abs_le a
      norm_num
      linarith

theorem simplexHalfR : Simplex [(1 / 2 : ℝ), 1 / 2] := by
  refine ⟨?_, by norm_num⟩
  intro a ha
  simp only [List.mem_cons, List.not_mem_nil, or_false] at ha
  rcases ha with rfl | rfl <;> norm_num

theorem exEconvR : econverged 1 (1 / 100 : ℝ) exStateR.pairs [1 / 2, 1 / 2] = true := by
  simp [econverged, exStateR, smearedE, tol, Sqrt.sqrt]

theorem exSconvR : sconverged 1 (1 / 100 : ℝ) exStateR.pairs [1 / 2, 1 / 2] = true := by
  simp [sconverged, norm2, exStateR, smearedS, vaxpy, zeros, dot, tol, Sqrt.sqrt]

/-- all hypotheses of `bundle_stop_certificate` hold at once; its conclusion here: `0 − |a| ≤ ε (1 + ‖[a] − [0]‖₂)` -/
example (a : ℝ) : exFR exStateR.x - exFR [a] ≤ tol 1 (1 / 100 : ℝ) * (1 + norm2 (vsub [a] exStateR.x)) :=
  bundle_stop_certificate hsqrtReal 1 exFR exStateR [1 / 2, 1 / 2] (1 / 100) exValidR rfl simplexHalfR (by norm_num)
    exEconvR exSconvR [a] rfl

/-- the hypotheses of `ellipsoid_stop_certificate` hold at once: `x = 0`, `H = [[4]]` (the interval `[−2, 2]`),
    `z = 1`, sub-gradient `0` of `|·|` at `0` -/
example : InE 1 [0] [[(4 : ℝ)]] [1] := by
  intro w hw
  match w, hw with
  | [c], _ =>
    simp only [quad, mv, dot, vsub, List.map_cons, List.map_nil]
    nlinarith [mul_self_nonneg c]
example : SubGrad 1 exFR [0] [0] := by
  refine ⟨rfl, ?_⟩
  intro z hz
  match z, hz with
  | [a], _ =>
    simp only [exFR, dot, vsub, List.headD_cons]
    norm_num

/-! the hypotheses of the Löwner–John step and of the n-D run certificate are satisfiable (n = 2, over ℝ) -/
example : (quad (initH 2 (2 : ℝ)) [1, 0] : ℝ) = 4 := by
  norm_num [quad, mv, dot, initH, List.range_succ]

/-- `x = 0`, `H = 4 I`, `g = e₁`, central cut `α = 0`, `z = −e₁` (on the kept side) -/
example : InE 2 (stepX ((2 : ℕ) : ℝ) [0, 0] (mv (initH 2 2) [1, 0]) 0 (quad (initH 2 2) [1, 0]))
    (stepH ((2 : ℕ) : ℝ) (initH 2 2) (mv (initH 2 2) [1, 0]) (vm 2 [1, 0] (initH 2 2)) 0 (quad (initH 2 2) [1, 0]))
    [-1, 0] :=
  (ellipsoid_deep_cut_contains hsqrtReal 2 (le_refl _) [0, 0] [1, 0] [-1, 0] (initH 2 2) 0 rfl rfl rfl
    (initH_wellH 2 2) (by norm_num [quad, mv, dot, initH, List.range_succ])
    (initH_contains 2 (by decide) 2 [0, 0] [-1, 0] rfl rfl (by norm_num [dot, vsub])) (by norm_num) (by norm_num)
    (by norm_num [dot, vsub])).1

/-- the constant function: every hypothesis of `ellipsoid_nd_run_certificate` holds, the run stops at once by the early exit -/
example : runND 2 (1 / 100 : ℝ) (1 / 1000) (fun _ => true) (fun _ => true) (fun x => ((0 : ℝ), [0, 0])) 1
    (startND 2 1 [0, 0] (fun x => ((0 : ℝ), [0, 0]))) = (EStatus.converged, ⟨[0, 0], initH 2 1, 0, [0, 0], 0, [0, 0]⟩) := by
  norm_num [runND, iterND, startND, doneE, quad, mv, dot, initH, List.range_succ]
example : ∀ x : List ℝ, x.length = 2 → SubGrad 2 (fun _ => (0 : ℝ)) x ((fun _ => [0, 0]) x) := by
  intro x hx
  refine ⟨rfl, ?_⟩
  intro z hz
  match x, hx, z, hz with
  | [c, d], _, [a, b], _ => simp [dot, vsub]
end real

end NanoVerif.C03Examples
