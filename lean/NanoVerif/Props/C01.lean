import NanoVerif.Proofs.SolverSkeleton
import NanoVerif.Proofs.SolverAlgebra
import NanoVerif.Proofs.SolverStepCompose
/-!
  C01 — L-BFGS/BFGS solve well-conditioned smooth convex problems, truthfully: the property theorems.

  * `converged_truthful*` hold for EVERY scalar type with the core operation classes (so also for `Float`, the type the
    driver runs the same definitions at), every objective, every direction rule and every line search that meets the
    contract `LsContract` (the state it leaves behind is an evaluation of `f`; proved for the five line searches in C07
    and monitored at run time against the wrapper's evaluation log). They are statements about the generated fragments
    (`doneCond`, `doneStatus`, `lbfgsConverged`, …): an edit of `solver_t::done` or of a `converged = …` line re-elaborates them.
  * the remaining theorems are exact arithmetic over an arbitrary linear ordered field.
  * `converged_truthful_composed*` (last section) need NO line-search hypothesis: the line search is the model
    `lsearch_t::get = lsearch0 ∘ lsearchk` of `Model/SolverStep.lean` (four step-initialisation strategies with their private
    members, the glue of lsearch.cpp, and the C07 model of `lsearchk_t::get` with the five searches); only `f` is an oracle.
  * NOT proved here (tested by `tools/props/c01.py` on the statement's problem class): "status `converged` within 1500
    evaluations" — a floating-point convergence-rate claim.
-/
namespace NanoVerif.Solver
open NanoVerif.Gen.DoneLogic
set_option linter.unusedSectionVars false

section generic
variable {α : Type} [Add α] [Sub α] [Mul α] [Div α] [Neg α] [LT α] [LE α] [DecidableLT α] [DecidableLE α] [∀ n, OfNat α n]

/-- For every objective `f`, direction rule (with any memory), line-search oracle meeting the contract, ε, budget and
    fuel: what `minimize` returns is an evaluation of `f`, and if its status is `converged` then the solver's convergence
    test holds for the gradient and value of `f` AT THE RETURNED POINT. -/
theorem converged_truthful {M : Type} (env : Env α) (rule : Rule α M) (ls : Ls α) (f : Objective α)
    (hls : LsContract f ls) (eps : α) (maxEvals fuel : Nat) (x0 : Vec α) :
    let r := lsMinimize env rule ls f eps maxEvals fuel x0
    r.fx = (f r.x).1 ∧ r.gx = (f r.x).2 ∧
    (r.status = Status.converged →
      rule.conv (gradientTest (infNorm (f r.x).2) (f r.x).1) eps = true ∨
      rule.convInit (gradientTest (infNorm (f r.x).2) (f r.x).1) eps = true) := by
  intro r
  have h := lsRun_good env f rule ls hls eps maxEvals fuel (initState f x0) (initState_consistent f x0)
    (initState_status f x0)
  have hc : Consistent f r := h.cons
  refine ⟨hc.1, hc.2, fun hs => ?_⟩
  have := h.conv hs
  unfold gradientTestS at this
  rw [← hc.1, ← hc.2]
  exact this

/-- the conclusion in the form of the statement, for any rule whose two generated tests imply `gradient_test < ε` -/
theorem converged_truthful_lt {M : Type} (env : Env α) (rule : Rule α M) (ls : Ls α) (f : Objective α)
    (hls : LsContract f ls) (eps : α) (maxEvals fuel : Nat) (x0 : Vec α)
    (h1 : ∀ g e, rule.conv g e = true → g < e) (h2 : ∀ g e, rule.convInit g e = true → g < e) :
    let r := lsMinimize env rule ls f eps maxEvals fuel x0
    r.status = Status.converged →
      r.fx = (f r.x).1 ∧ r.gx = (f r.x).2 ∧ gradientTest (infNorm (f r.x).2) (f r.x).1 < eps := by
  intro r hs
  have h := converged_truthful env rule ls f hls eps maxEvals fuel x0
  refine ⟨h.1, h.2.1, ?_⟩
  rcases h.2.2 hs with h3 | h3
  · exact h1 _ _ h3
  · exact h2 _ _ h3

/-- gd (gd.cpp): `converged` ⇒ returned `gx = ∇f(x)`, `fx = f(x)` and `‖∇f(x)‖∞ / max(1, |f(x)|) < ε` -/
theorem converged_truthful_gd (env : Env α) (ls : Ls α) (f : Objective α) (hls : LsContract f ls) (eps : α)
    (maxEvals fuel : Nat) (x0 : Vec α) :
    let r := lsMinimize env (gdRule : Rule α Unit) ls f eps maxEvals fuel x0
    r.status = Status.converged →
      r.fx = (f r.x).1 ∧ r.gx = (f r.x).2 ∧ gradientTest (infNorm (f r.x).2) (f r.x).1 < eps :=
  converged_truthful_lt env gdRule ls f hls eps maxEvals fuel x0
    (fun g e h => by simpa [gdRule, gdConverged] using h) (fun g e h => by simpa [gdRule, gdConvergedInit] using h)

/-- the ten cgd variants (cgd.cpp), whatever β formula, `orthotest` and `eta` -/
theorem converged_truthful_cgd (env : Env α) (kind : CgdKind) (eta orthotest : α) (ls : Ls α) (f : Objective α)
    (hls : LsContract f ls) (eps : α) (maxEvals fuel : Nat) (x0 : Vec α) :
    let r := lsMinimize env (cgdRule env kind eta orthotest) ls f eps maxEvals fuel x0
    r.status = Status.converged →
      r.fx = (f r.x).1 ∧ r.gx = (f r.x).2 ∧ gradientTest (infNorm (f r.x).2) (f r.x).1 < eps :=
  converged_truthful_lt env (cgdRule env kind eta orthotest) ls f hls eps maxEvals fuel x0
    (fun g e h => by simpa [cgdRule, cgdConverged] using h) (fun g e h => by simpa [cgdRule, cgdConvergedInit] using h)

/-- L-BFGS (lbfgs.cpp), whatever the history size -/
theorem converged_truthful_lbfgs (env : Env α) (history : Nat) (ls : Ls α) (f : Objective α) (hls : LsContract f ls)
    (eps : α) (maxEvals fuel : Nat) (x0 : Vec α) :
    let r := lsMinimize env (lbfgsRule history) ls f eps maxEvals fuel x0
    r.status = Status.converged →
      r.fx = (f r.x).1 ∧ r.gx = (f r.x).2 ∧ gradientTest (infNorm (f r.x).2) (f r.x).1 < eps :=
  converged_truthful_lt env (lbfgsRule history) ls f hls eps maxEvals fuel x0
    (fun g e h => by simpa [lbfgsRule, lbfgsConverged] using h)
    (fun g e h => by simpa [lbfgsRule, lbfgsConvergedInit] using h)

/-- SR1 / DFP / BFGS / Hoshino / Fletcher (quasi.cpp), whatever the initialisation and `r` -/
theorem converged_truthful_quasi (env : Env α) (kind : QuasiKind) (r0 : α) (scaled : Bool) (n : Nat) (ls : Ls α)
    (f : Objective α) (hls : LsContract f ls) (eps : α) (maxEvals fuel : Nat) (x0 : Vec α) :
    let r := lsMinimize env (quasiRule env kind r0 scaled n) ls f eps maxEvals fuel x0
    r.status = Status.converged →
      r.fx = (f r.x).1 ∧ r.gx = (f r.x).2 ∧ gradientTest (infNorm (f r.x).2) (f r.x).1 < eps :=
  converged_truthful_lt env (quasiRule env kind r0 scaled n) ls f hls eps maxEvals fuel x0
    (fun g e h => by simpa [quasiRule, quasiConverged] using h)
    (fun g e h => by simpa [quasiRule, quasiConvergedInit] using h)

end generic

section field
variable {α : Type} [Field α] [LinearOrder α] [IsStrictOrderedRing α]

/-- reading of the conclusion of `converged_truthful_*` in exact arithmetic: every component of the gradient of `f` at the
    returned point is below `ε · max(1, |f(x)|)` -/
theorem converged_components (g : Vec α) (fx eps : α) (h : gradientTest (infNorm g) fx < eps) :
    ∀ v ∈ g, |v| < eps * max 1 |fx| := components_lt_of_gradientTest_lt g fx eps h

/-- the L-BFGS two-loop recursion gives a descent direction whenever every stored pair has `s·y > 0`
    (it is the product form of a positive definite operator). NB: lbfgs.cpp does NOT test `s·y > 0` when it stores a pair —
    hence `direction_is_descent_lbfgs` below, which needs no such hypothesis. -/
theorem twoloop_descent (n : Nat) (hist : List (Vec α × Vec α)) (g : Vec α) (hok : HistOK n hist) (hg : g.length = n)
    (hne : ∃ a ∈ g, a ≠ 0) : vdot g (lbfgsRaw hist g) < 0 := by
  unfold lbfgsRaw
  rw [vdot_vneg_right]
  have := twoLoop_pos (lbfgsGamma hist) (lbfgsGamma_ok n hist hok) n hist g hok hg hne
  linarith

theorem vdot_self_vneg_neg (g : Vec α) (hne : ∃ a ∈ g, a ≠ 0) : vdot g (vneg g) < 0 := by
  rw [vdot_vneg_right]; have := vdot_self_pos g hne; linarith

/-- what L-BFGS hands to the line search is ALWAYS a descent direction (recursion result, or the forced `−g` fallback),
    for any history whatsoever -/
theorem direction_is_descent_lbfgs (m : LbfgsMem α) (c : State α) (hne : ∃ a ∈ c.gx, a ≠ 0) :
    vdot c.gx (lbfgsDirection m c).1 < 0 := by
  unfold lbfgsDirection
  simp only
  split
  · rename_i h; simpa [hasDescent] using h
  · exact vdot_self_vneg_neg c.gx hne

/-- the same for the quasi-Newton solvers (restart with `H = I` when `−H g` is not a descent direction) -/
theorem direction_is_descent_quasi (n : Nat) (m : QuasiMem α) (c : State α) (hne : ∃ a ∈ c.gx, a ≠ 0) :
    vdot c.gx (quasiDirection n m c).1 < 0 := by
  unfold quasiDirection
  simp only
  split
  · rename_i h; simpa [hasDescent] using h
  · exact vdot_self_vneg_neg c.gx hne

/-- the same for the ten cgd variants (restart with `−g`), whatever β is (even a division by zero) -/
theorem direction_is_descent_cgd (env : Env α) (kind : CgdKind) (eta orthotest : α) (m : Option (Vec α)) (p c : State α)
    (hne : ∃ a ∈ c.gx, a ≠ 0) : vdot c.gx (cgdDirection env kind eta orthotest m p c).1 < 0 := by
  unfold cgdDirection
  cases m with
  | none => exact vdot_self_vneg_neg c.gx hne
  | some pd =>
    simp only
    split
    · exact vdot_self_vneg_neg c.gx hne
    · rename_i h
      simp only [Bool.or_eq_true, Bool.not_eq_true', not_or] at h
      have h1 := h.1
      simp only [Bool.not_eq_false] at h1
      simpa [hasDescent] using h1

theorem direction_is_descent_gd (p c : State α) (hne : ∃ a ∈ c.gx, a ≠ 0) :
    vdot c.gx ((gdRule : Rule α Unit).direction () p c).1 < 0 := vdot_self_vneg_neg c.gx hne

/-- the BFGS update satisfies the secant equation `H⁺ y = s` (for any `H`, when `s·y ≠ 0`) -/
theorem bfgs_update_secant (env : Env α) (r : α) (n : Nat) (H : Mat α) (s y : Vec α) (hs : s.length = n)
    (hy : y.length = n) (hsy : vdot s y ≠ 0) : matVec (quasiUpdateH env QuasiKind.bfgs r n H s y) y = s :=
  bfgs_secant n H s y hs hy hsy

/-- gradient of `½ xᵀA x + aᵀx` -/
def quadGrad (A : Mat α) (a x : Vec α) : Vec α := vadd (matVec A x) a

/-- strongly convex quadratics (exact): if `vᵀA v ≥ λ‖v‖²` for all `v` and `∇f(x*) = 0`, then
    `λ² ‖x − x*‖₂² ≤ ‖∇f(x)‖₂²` -/
theorem strongly_convex_gradient_bound (n : Nat) (A : Mat α) (a xs x : Vec α) (lam : α) (hlam : 0 ≤ lam)
    (hA : ∀ r ∈ A, r.length = n) (hAl : A.length = n) (ha : a.length = n) (hxs : xs.length = n) (hx : x.length = n)
    (hstar : quadGrad A a xs = List.replicate n 0)
    (hconv : ∀ v : Vec α, v.length = n → lam * vdot v v ≤ vdot v (matVec A v)) :
    lam * lam * vdot (vsub x xs) (vsub x xs) ≤ vdot (quadGrad A a x) (quadGrad A a x) := by
  have hv : (vsub x xs).length = n := by rw [vsub_length x xs (by rw [hx, hxs]), hx]
  have hAx : (matVec A x).length = n := by rw [matVec_length, hAl]
  have hAxs : (matVec A xs).length = n := by rw [matVec_length, hAl]
  -- v·∇f(x) = v·A v
  have h0 : vdot (vsub x xs) (matVec A xs) + vdot (vsub x xs) a = 0 := by
    rw [← vdot_vadd_right _ _ _ (by rw [hv, hAxs]) (by rw [hAxs, ha])]
    show vdot (vsub x xs) (quadGrad A a xs) = 0
    rw [hstar, vdot_replicate_zero_right]
  have h1 : vdot (vsub x xs) (quadGrad A a x) = vdot (vsub x xs) (matVec A (vsub x xs)) := by
    unfold quadGrad
    rw [vdot_vadd_right _ _ _ (by rw [hv, hAx]) (by rw [hAx, ha]), matVec_vsub A x xs n hA hx hxs,
      vdot_vsub_right _ _ _ (by rw [hv, hAx]) (by rw [hAx, hAxs])]
    linarith
  have h2 := hconv (vsub x xs) hv
  rw [← h1] at h2
  have hcs := vdot_sq_le (vsub x xs) (quadGrad A a x)
  have hvv := vdot_self_nonneg (vsub x xs)
  have hgg := vdot_self_nonneg (quadGrad A a x)
  rcases eq_or_lt_of_le hvv with h | h
  · rw [← h]; simpa using hgg
  · -- λ² (v·v)² ≤ (v·g)² ≤ (v·v)(g·g)
    have h3 : 0 ≤ lam * vdot (vsub x xs) (vsub x xs) := mul_nonneg hlam hvv
    have h4 : (lam * vdot (vsub x xs) (vsub x xs)) * (lam * vdot (vsub x xs) (vsub x xs))
        ≤ vdot (vsub x xs) (quadGrad A a x) * vdot (vsub x xs) (quadGrad A a x) :=
      mul_le_mul h2 h2 h3 (le_trans h3 h2)
    have h5 : vdot (vsub x xs) (vsub x xs) * (lam * lam * vdot (vsub x xs) (vsub x xs))
        ≤ vdot (vsub x xs) (vsub x xs) * vdot (quadGrad A a x) (quadGrad A a x) := by nlinarith
    exact le_of_mul_le_mul_left h5 h

/-- the accuracy clause of the statement (squared, exact): for `f(x) = ½xᵀAx + aᵀx` with `vᵀAv ≥ λ‖v‖²`, minimiser `x*`, ANY
    line-search solver of the model, ANY line search meeting the contract: status `converged` implies
    `λ² ‖x − x*‖₂² ≤ n · (ε · max(1, |f(x)|))²`, i.e. `‖x − x*‖₂ ≤ √n · ε · max(1, |f(x)|) / λ`. -/
theorem strongly_convex_accuracy {M : Type} (env : Env α) (rule : Rule α M) (ls : Ls α) (n : Nat) (A : Mat α)
    (a xs : Vec α) (lam : α) (value : Vec α → α) (hlam : 0 ≤ lam)
    (hA : ∀ r ∈ A, r.length = n) (hAl : A.length = n) (ha : a.length = n) (hxs : xs.length = n)
    (hstar : quadGrad A a xs = List.replicate n 0)
    (hconv : ∀ v : Vec α, v.length = n → lam * vdot v v ≤ vdot v (matVec A v))
    (hls : LsContract (fun x => (value x, quadGrad A a x)) ls)
    (h1 : ∀ g e, rule.conv g e = true → g < e) (h2 : ∀ g e, rule.convInit g e = true → g < e)
    (eps : α) (maxEvals fuel : Nat) (x0 : Vec α)
    (hx : (lsMinimize env rule ls (fun x => (value x, quadGrad A a x)) eps maxEvals fuel x0).x.length = n) :
    let r := lsMinimize env rule ls (fun x => (value x, quadGrad A a x)) eps maxEvals fuel x0
    r.status = Status.converged →
      lam * lam * vdot (vsub r.x xs) (vsub r.x xs) ≤ (n : α) * ((eps * max 1 |value r.x|) * (eps * max 1 |value r.x|)) := by
  intro r hs
  have ht := converged_truthful_lt env rule ls (fun x => (value x, quadGrad A a x)) hls eps maxEvals fuel x0 h1 h2 hs
  have hcomp := converged_components _ _ _ ht.2.2
  have hb := strongly_convex_gradient_bound n A a xs r.x lam hlam hA hAl ha hxs hx hstar hconv
  have hlen : (quadGrad A a r.x).length = n := by
    unfold quadGrad
    have : ∀ (u v : Vec α), u.length = v.length → (vadd u v).length = u.length := by
      intro u
      induction u with
      | nil => intro v h; cases v <;> simp_all [vadd]
      | cons c u ih => intro v h; cases v with
        | nil => simp at h
        | cons d v => simp [vadd, ih v (by simpa using h)]
    rw [this _ _ (by rw [matVec_length, hAl, ha]), matVec_length, hAl]
  have hle := vdot_self_le_of_components (quadGrad A a r.x) (eps * max 1 |value r.x|)
    (fun c hc => le_of_lt (hcomp c hc))
  rw [hlen] at hle
  exact le_trans hb hle

end field

/-! ### non-vacuity: `converged` is reached, and the hypotheses of the theorems are satisfiable -/

section examples

def envZ : Env Int := ⟨fun _ => true, fun x => x, -1000000, 1000000⟩
/-- `f(x) = x²` in one dimension over `Int` -/
def sqF : Objective Int := fun x => (vdot x x, x.map (fun v => 2 * v))
/-- an exact line search: jumps to the minimiser and evaluates `f` there -/
def lsExact : Ls Int := fun _ s _ => (⟨[0], (sqF [0]).1, (sqF [0]).2, s.status, s.fcalls + 1, s.gcalls + 1⟩, true)

theorem lsExact_contract : LsContract sqF lsExact := fun _ _ _ => ⟨fun _ => ⟨rfl, rfl⟩, rfl⟩

/-- gd, L-BFGS and BFGS do not stop at the start `x0 = [1]` (gradient test 2 ≥ ε = 1), take one iteration and report
    `converged` at `[0]`: the premise of `converged_truthful` is not vacuous -/
example : (lsMinimize envZ (gdRule : Rule Int Unit) lsExact sqF 1 100 5 [1]).status = Status.converged := by decide
example : (lsMinimize envZ (gdRule : Rule Int Unit) lsExact sqF 1 100 5 [1]).x = [0] := by decide
example : (lsMinimize envZ (lbfgsRule 5) lsExact sqF 1 100 5 [1]).status = Status.converged := by decide
example : (lsMinimize envZ (quasiRule envZ QuasiKind.bfgs 0 false 1) lsExact sqF 1 100 5 [1]).x = [0] := by decide
/-- … and a run whose line search makes no progress stops on the budget and keeps the default status -/
example : (lsMinimize envZ (gdRule : Rule Int Unit) (fun _ s _ => ({ s with fcalls := s.fcalls + 60 }, true)) sqF 1 100 5 [1]).status
    = Status.max_iters := by decide
/-- … and a failing line search gives `failed` -/
example : (lsMinimize envZ (lbfgsRule 5) (fun _ s _ => (s, false)) sqF 1 100 5 [1]).status = Status.failed := by decide

/-- a history with `s·y > 0` exists: the hypothesis of `twoloop_descent` is satisfiable -/
example : HistOK (α := ℚ) 2 [([1, 0], [2, 1]), ([0, 1], [1, 3])] := by
  intro p hp
  simp only [List.mem_cons, List.not_mem_nil, or_false] at hp
  rcases hp with rfl | rfl <;> refine ⟨rfl, rfl, ?_⟩ <;> norm_num [vdot]

/-- the identity matrix is strongly convex with λ = 1: the hypotheses of `strongly_convex_gradient_bound` are satisfiable -/
example {α : Type} [Field α] [LinearOrder α] [IsStrictOrderedRing α] :
    ∀ v : Vec α, v.length = 2 → (1 : α) * vdot v v ≤ vdot v (matVec (identity 2) v) := by
  intro v hv
  have h := matVec_identity v
  rw [hv] at h
  rw [h, one_mul]

end examples

end NanoVerif.Solver

/-! ## the line search modelled: `lsearch_t::get = lsearch0 ∘ lsearchk` (Model/SolverStep.lean), only `f` left as an oracle -/
namespace NanoVerif.SolverStep
open NanoVerif.Gen.DoneLogic NanoVerif.Solver
set_option linter.unusedSectionVars false

section generic
variable {α : Type} [Add α] [Sub α] [Mul α] [Div α] [Neg α] [LT α] [LE α] [DecidableLT α] [DecidableLE α] [∀ n, OfNat α n]

/-- `converged_truthful` WITHOUT a line-search hypothesis: for every objective `f`, direction rule, step-initialisation strategy,
    line search (of the five), parameter values (in or out of their domains), ε, budget and fuel — and every scalar type —
    what `minimize` returns is an evaluation of `f`, and `converged` implies the solver's convergence test on the gradient and
    value of `f` at the returned point. -/
theorem converged_truthful_composed {M : Type} (env : Env α) (rule : Rule α M) (st : Strategy) (P : Params α)
    (m : LSearch.Method) (cfg : LSearch.Cfg α) (f : Objective α) (eps : α) (maxEvals fuel : Nat) (x0 : Vec α) :
    let r := lsMinimizeS env rule st P m cfg f eps maxEvals fuel x0
    r.fx = (f r.x).1 ∧ r.gx = (f r.x).2 ∧
    (r.status = Status.converged →
      rule.conv (gradientTest (infNorm (f r.x).2) (f r.x).1) eps = true ∨
      rule.convInit (gradientTest (infNorm (f r.x).2) (f r.x).1) eps = true) := by
  obtain ⟨ls, hls, e⟩ := lsMinimizeS_eq_lsMinimize env rule st P m cfg f eps maxEvals fuel x0
  intro r
  have h := converged_truthful env rule ls f hls eps maxEvals fuel x0
  simp only at h
  rw [← e] at h
  exact h

/-- the conclusion in the form of the statement, for any rule whose two generated tests imply `gradient_test < ε` -/
theorem converged_truthful_composed_lt {M : Type} (env : Env α) (rule : Rule α M) (st : Strategy) (P : Params α)
    (m : LSearch.Method) (cfg : LSearch.Cfg α) (f : Objective α) (eps : α) (maxEvals fuel : Nat) (x0 : Vec α)
    (h1 : ∀ g e, rule.conv g e = true → g < e) (h2 : ∀ g e, rule.convInit g e = true → g < e) :
    let r := lsMinimizeS env rule st P m cfg f eps maxEvals fuel x0
    r.status = Status.converged →
      r.fx = (f r.x).1 ∧ r.gx = (f r.x).2 ∧ gradientTest (infNorm (f r.x).2) (f r.x).1 < eps := by
  intro r hs
  have h := converged_truthful_composed env rule st P m cfg f eps maxEvals fuel x0
  refine ⟨h.1, h.2.1, ?_⟩
  rcases h.2.2 hs with h3 | h3
  · exact h1 _ _ h3
  · exact h2 _ _ h3

/-- L-BFGS with the line search modelled, whatever the history size: `converged` ⇒ the returned state is an evaluation of `f`
    and `‖∇f(x)‖∞ / max(1, |f(x)|) < ε` -/
theorem converged_truthful_composed_lbfgs (env : Env α) (history : Nat) (st : Strategy) (P : Params α) (m : LSearch.Method)
    (cfg : LSearch.Cfg α) (f : Objective α) (eps : α) (maxEvals fuel : Nat) (x0 : Vec α) :
    let r := lsMinimizeS env (lbfgsRule history) st P m cfg f eps maxEvals fuel x0
    r.status = Status.converged →
      r.fx = (f r.x).1 ∧ r.gx = (f r.x).2 ∧ gradientTest (infNorm (f r.x).2) (f r.x).1 < eps :=
  converged_truthful_composed_lt env (lbfgsRule history) st P m cfg f eps maxEvals fuel x0
    (fun g e h => by simpa [lbfgsRule, lbfgsConverged] using h)
    (fun g e h => by simpa [lbfgsRule, lbfgsConvergedInit] using h)

/-- BFGS (and SR1 / DFP / Hoshino / Fletcher) with the line search modelled, whatever the initialisation and `r` -/
theorem converged_truthful_composed_quasi (env : Env α) (kind : QuasiKind) (r0 : α) (scaled : Bool) (n : Nat) (st : Strategy)
    (P : Params α) (m : LSearch.Method) (cfg : LSearch.Cfg α) (f : Objective α) (eps : α) (maxEvals fuel : Nat) (x0 : Vec α) :
    let r := lsMinimizeS env (quasiRule env kind r0 scaled n) st P m cfg f eps maxEvals fuel x0
    r.status = Status.converged →
      r.fx = (f r.x).1 ∧ r.gx = (f r.x).2 ∧ gradientTest (infNorm (f r.x).2) (f r.x).1 < eps :=
  converged_truthful_composed_lt env (quasiRule env kind r0 scaled n) st P m cfg f eps maxEvals fuel x0
    (fun g e h => by simpa [quasiRule, quasiConverged] using h)
    (fun g e h => by simpa [quasiRule, quasiConvergedInit] using h)

/-- gd and the ten cgd variants with the line search modelled -/
theorem converged_truthful_composed_gd_cgd (env : Env α) (kind : CgdKind) (eta orthotest : α) (st : Strategy)
    (P : Params α) (m : LSearch.Method) (cfg : LSearch.Cfg α) (f : Objective α) (eps : α) (maxEvals fuel : Nat) (x0 : Vec α) :
    ((lsMinimizeS env (gdRule : Rule α Unit) st P m cfg f eps maxEvals fuel x0).status = Status.converged →
      gradientTest (infNorm (f (lsMinimizeS env (gdRule : Rule α Unit) st P m cfg f eps maxEvals fuel x0).x).2)
        (f (lsMinimizeS env (gdRule : Rule α Unit) st P m cfg f eps maxEvals fuel x0).x).1 < eps) ∧
    ((lsMinimizeS env (cgdRule env kind eta orthotest) st P m cfg f eps maxEvals fuel x0).status = Status.converged →
      gradientTest (infNorm (f (lsMinimizeS env (cgdRule env kind eta orthotest) st P m cfg f eps maxEvals fuel x0).x).2)
        (f (lsMinimizeS env (cgdRule env kind eta orthotest) st P m cfg f eps maxEvals fuel x0).x).1 < eps) := by
  exact ⟨fun hs => (converged_truthful_composed_lt env (gdRule : Rule α Unit) st P m cfg f eps maxEvals fuel x0
      (fun g e h => by simpa [gdRule, gdConverged] using h) (fun g e h => by simpa [gdRule, gdConvergedInit] using h) hs).2.2,
    fun hs => (converged_truthful_composed_lt env (cgdRule env kind eta orthotest) st P m cfg f eps maxEvals fuel x0
      (fun g e h => by simpa [cgdRule, cgdConverged] using h) (fun g e h => by simpa [cgdRule, cgdConvergedInit] using h) hs).2.2⟩

end generic

section field
variable {α : Type} [Field α] [LinearOrder α] [IsStrictOrderedRing α]

/-- `lsearch_t::get` reports success ⇒ the state it leaves is the evaluation of `f` at `x + t d` with `t > 0` the step it stores
    as `m_last_step_size` (every strategy, every search, parameters in their domains, every earlier history of the object) -/
theorem lsearch_success_is_evaluation_at_positive_step (env : Env α) (st : Strategy) (P : Params α) (m : LSearch.Method)
    (cfg : LSearch.Cfg α) (f : Objective α) (o : Obj α) (c : State α) (d : Vec α) (hd : LkDom cfg) (hc : Consistent f c)
    (hlen : (m = .morethuente ∨ m = .cgdescent) → d.length = c.x.length)
    (hok : (lsearchGetM env st P m cfg f o c d).ok = true) :
    ∃ t, t = (lsearchGetM env st P m cfg f o c d).obj.last ∧ 0 < t ∧
      (lsearchGetM env st P m cfg f o c d).state.x = axpy c.x t d ∧
      (lsearchGetM env st P m cfg f o c d).state.fx = (f (axpy c.x t d)).1 ∧
      (lsearchGetM env st P m cfg f o c d).state.gx = (f (axpy c.x t d)).2 :=
  ⟨_, rfl, lsearchGetM_success env st P m cfg f o c d hd hc hlen hok⟩

/-- the initial step handed to `lsearchk_t::get` is what the strategy's formula gives on the members left by the previous call,
    the last step size, and this call's state — spelled out per strategy (`min`/`max` are the mathematical ones):
    constant `t0`; linear / quadratic `1` on a first call (`last < 0`), else `min(1, α·max(−last·dg_prev, βε)/(−dg))` resp.
    `min(1, α·2·max(f_prev − f, βε)/(−dg_prev))`; CG_DESCENT `phi0‖x‖∞/‖g‖∞`, `phi0|f|/‖g‖₂²` or `1` on a first call, else the
    parabola minimiser `dg·t1²/(2(dg·t1 + f − f1))` (`t1 = last·phi1`, `f1 = f(x + t1 d)`) when `f1 < f` and the parabola is convex,
    else `last·phi2` -/
theorem initial_step_formula (env : Env α) (P : Params α) (m : LSearch.Method) (cfg : LSearch.Cfg α) (f : Objective α)
    (o : Obj α) (c : State α) (d : Vec α) :
    let dg := vdot c.gx d
    let t1 := o.last * P.phi1
    let f1 := (f (axpy c.x t1 d)).1
    (lsearchGetM env .constant P m cfg f o c d).t0 = P.constT0 ∧
    (lsearchGetM env .linear P m cfg f o c d).t0 =
      (if o.last < 0 then 1 else min 1 (P.linAlpha * max (-(o.last * o.mem.prevdg)) (P.linBeta * P.epsilon) / (-dg))) ∧
    (lsearchGetM env .quadratic P m cfg f o c d).t0 =
      (if o.last < 0 then 1
       else min 1 (P.quadAlpha * (2 * max (o.mem.prevf - c.fx) (P.quadBeta * P.epsilon)) / (-o.mem.prevdg))) ∧
    (lsearchGetM env .cgdescent P m cfg f o c d).t0 =
      (if o.last < 0 then
        (if 0 < infNorm c.x then P.phi0 * infNorm c.x / infNorm c.gx
         else if 0 < |c.fx| then P.phi0 * |c.fx| / sqNorm c.gx else 1)
       else if f1 < c.fx ∧ c.fx + t1 * dg < f1 then dg * t1 * t1 / (2 * (dg * t1 + (c.fx - f1)))
       else o.last * P.phi2) := by
  intro dg t1 f1
  refine ⟨rfl, ?_, ?_, ?_⟩
  · rw [lsearchGetM_t0]
    by_cases h : o.last < 0
    · simp only [t0Of, if_pos h]; exact linear_first P o.mem _ h
    · simp only [t0Of, if_neg h]; exact linear_formula P o.mem _ h
  · rw [lsearchGetM_t0]
    by_cases h : o.last < 0
    · simp only [t0Of, if_pos h]; exact quadratic_first P o.mem _ h
    · simp only [t0Of, if_neg h]; exact quadratic_formula P o.mem _ h
  · rw [lsearchGetM_t0]
    by_cases h : o.last < 0
    · simp only [t0Of, if_pos h]; exact cg_first_formula P _ h
    · simp only [t0Of, if_neg h]
      rw [cg_next_formula P _ h]
      simp [scalOf, needsTrial, h, trialPoint, dg, t1, f1]

/-- the members of the strategy after a call are the documented function of the call: quadratic `(f, g·d)`, linear `g·d`
    (whatever branch computed the step, whether the search then succeeds or not); constant and CG_DESCENT keep none -/
theorem strategy_members_after_call (env : Env α) (P : Params α) (m : LSearch.Method) (cfg : LSearch.Cfg α)
    (f : Objective α) (o : Obj α) (c : State α) (d : Vec α) :
    (lsearchGetM env .quadratic P m cfg f o c d).obj.mem = ⟨c.fx, vdot c.gx d⟩ ∧
    (lsearchGetM env .linear P m cfg f o c d).obj.mem = ⟨o.mem.prevf, vdot c.gx d⟩ ∧
    (lsearchGetM env .constant P m cfg f o c d).obj.mem = o.mem ∧
    (lsearchGetM env .cgdescent P m cfg f o c d).obj.mem = o.mem := ⟨rfl, rfl, rfl, rfl⟩

/-- positivity of the initial step under the conditions that hold at every call inside a solver run: parameters in their
    domains, a descent direction now, and `ObjInv`: either the first call or a previous call that returned a positive step
    (for the quadratic strategy: along a descent direction). (Outside: `linear_neg_of_ascent`, `quadratic_neg_of_prev_ascent`, `cg_zero_last`,
    `cg_first_zero_gradient`, and the kernel-checked runs below.) -/
theorem initial_step_positive_in_run (env : Env α) (st : Strategy) (P : Params α) (m : LSearch.Method)
    (cfg : LSearch.Cfg α) (f : Objective α) (o : Obj α) (c : State α) (d : Vec α) (hd : Dom P) (hdg : vdot c.gx d < 0)
    (hprev : ObjInv st o) : 0 < (lsearchGetM env st P m cfg f o c d).t0 :=
  t0_pos_in_run st P _ o c d hd hdg hprev

/-- `ObjInv` does hold at every call of every run (from the fresh object of `make_lsearch` on): so inside a run the initial step
    of every call made along a descent direction is positive -/
theorem initial_step_positive_throughout_run {M : Type} (env : Env α) (rule : Rule α M) (st : Strategy) (P : Params α)
    (m : LSearch.Method) (cfg : LSearch.Cfg α) (f : Objective α) (eps : α) (maxEvals fuel : Nat) (hP : Dom P) (hd : LkDom cfg)
    (hdir : (m = .morethuente ∨ m = .cgdescent) →
      (∀ x, (f x).2.length = x.length) ∧ ∀ mem p c, c.gx.length = c.x.length → (rule.direction mem p c).1.length = c.x.length)
    (mem : M) (p c0 : State α) (hc : Consistent f c0) :
    ∀ ob ∈ (lsLoopS env rule (lsearchGetM env st P m cfg f) eps maxEvals fuel mem Obj.init p c0).2,
      ∀ (c : State α) (d : Vec α), vdot c.gx d < 0 → 0 < (lsearchGetM env st P m cfg f ob c d).t0 :=
  fun ob hob c d hdg => t0_pos_in_run st P _ ob c d hP hdg
    (objects_of_run_inv env rule st P m cfg f eps maxEvals hd hdir fuel mem Obj.init p c0 (objInv_init st) hc ob hob)

/-- the invariant behind `hprev`: after a SUCCESSFUL call along a descent direction the object satisfies the second disjunct
    for the linear and quadratic strategies (positive last step, `m_prevdg < 0`), and the last step is positive for all four -/
theorem object_after_success (env : Env α) (st : Strategy) (P : Params α) (m : LSearch.Method) (cfg : LSearch.Cfg α)
    (f : Objective α) (o : Obj α) (c : State α) (d : Vec α) (hd : LkDom cfg) (hc : Consistent f c)
    (hlen : (m = .morethuente ∨ m = .cgdescent) → d.length = c.x.length) (hdg : vdot c.gx d < 0) (hok : (lsearchGetM env st P m cfg f o c d).ok = true) :
    0 < (lsearchGetM env st P m cfg f o c d).obj.last ∧
    ((st = .linear ∨ st = .quadratic) → (lsearchGetM env st P m cfg f o c d).obj.mem.prevdg < 0) := by
  refine ⟨(lsearchGetM_success env st P m cfg f o c d hd hc hlen hok).1, ?_⟩
  rintro (rfl | rfl) <;> exact hdg

end field

/-! ### non-vacuity and kernel-checked runs (over ℚ) -/
section examples

def envQ : Env ℚ := ⟨fun _ => true, fun x => x, -1000000, 1000000⟩
/-- `f(x) = Σ xᵢ²` -/
def sqQ : Objective ℚ := fun x => (vdot x x, x.map (fun v => 2 * v))
/-- the registered defaults (`lsearch0::epsilon` as `make_lsearch` sets it from `solver::epsilon = 1e-8`) -/
def paramsQ : Params ℚ :=
  { epsilon := 1 / 100000000, constT0 := 1, linBeta := 10, linAlpha := 101 / 100, quadBeta := 10, quadAlpha := 101 / 100,
    phi0 := 1 / 100, phi1 := 1 / 10, phi2 := 2 }
/-- the registered defaults of the searches with quadratic interpolation -/
def cfgQ : LSearch.Cfg ℚ :=
  { c1 := 1 / 10000, c2 := 9 / 10, maxIter := 20, fin := fun _ => true,
    interp := fun u v => LSearch.quadratic u v, cubic := fun u v => LSearch.bisection u v,
    eps0 := 1 / 1000000000000, eps1 := 1 / 1000000000, macheps := 1 / 10000000000000000, safeguard := 1 / 10,
    tau1 := 9, tau2 := 1 / 10, tau3 := 1 / 2, delta := 66 / 100, cgEpsilon := 1 / 1000000, cgTheta := 1 / 2,
    cgGamma := 66 / 100, cgRo := 5 }

example : Dom paramsQ := by constructor <;> norm_num [paramsQ]
example : LkDom cfgQ := by
  refine ⟨⟨?_, ?_, ?_, ?_, ?_, ?_, ?_, ?_⟩, ⟨?_, ?_, ?_, ?_⟩, ?_, ?_⟩ <;> norm_num [cfgQ]

/-- L-BFGS and BFGS with the quadratic strategy and backtracking, gd with CG_DESCENT's strategy and LeMaréchal, on `x²` from
    `x0 = 1`: `converged` at the minimiser — the premise of `converged_truthful_composed*` is reachable -/
example : (lsMinimizeS envQ (lbfgsRule 5) .quadratic paramsQ .backtrack cfgQ sqQ (1 / 10) 100 10 [1]).status
    = Status.converged := by decide +kernel
example : (lsMinimizeS envQ (lbfgsRule 5) .quadratic paramsQ .backtrack cfgQ sqQ (1 / 10) 100 10 [1]).x = [0] := by
  decide +kernel
example : (lsMinimizeS envQ (quasiRule envQ QuasiKind.bfgs 0 false 1) .linear paramsQ .backtrack cfgQ sqQ (1 / 10) 100 10 [1]).status
    = Status.converged := by decide +kernel

/-- the state at `x = 1` of `x²` -/
def atOne : State ℚ := ⟨[1], 1, [2], Status.initial, 1, 1⟩

example : Consistent sqQ atOne := ⟨by decide +kernel, by decide +kernel⟩

/-- a successful call: quadratic strategy, first call (`t0 = 1`), backtracking along `−g`: success, `t = 1/2`, the state left is
    the evaluation at `1 + (1/2)(−2) = 0`, the object remembers `t`, `f = 1`, `g·d = −4` -/
example : (lsearchGetM envQ .quadratic paramsQ .backtrack cfgQ sqQ Obj.init atOne [-2]).ok = true ∧
    (lsearchGetM envQ .quadratic paramsQ .backtrack cfgQ sqQ Obj.init atOne [-2]).t0 = 1 ∧
    (lsearchGetM envQ .quadratic paramsQ .backtrack cfgQ sqQ Obj.init atOne [-2]).obj.last = 1 / 2 ∧
    (lsearchGetM envQ .quadratic paramsQ .backtrack cfgQ sqQ Obj.init atOne [-2]).state.x = [0] ∧
    (lsearchGetM envQ .quadratic paramsQ .backtrack cfgQ sqQ Obj.init atOne [-2]).obj.mem.prevf = 1 ∧
    (lsearchGetM envQ .quadratic paramsQ .backtrack cfgQ sqQ Obj.init atOne [-2]).obj.mem.prevdg = -4 := by decide +kernel

/-- WITNESS (quadratic strategy, a stand-alone `lsearch_t` used twice): a first call along the ASCENT direction `d = +1` is
    refused, but the object now holds `last = 1` (the refused initial step) and `m_prevdg = +2`; the second call, along the
    descent direction `d = −1`, hands the NEGATIVE initial step `−101/1000000000` to `lsearchk_t::get` — which clamps it to
    `stpmin()` (lsearchk.cpp:52), so the search starts from a step of `1e-15`. Replayed on the real code: corpus/C01/ops.txt,
    `ls0 glue quadratic backtrack … # witness-negative-t0`. Cannot happen inside a solver run (a refused search ends the run). -/
theorem quadratic_negative_step_after_refusal :
    let first := lsearchGetM envQ .quadratic paramsQ .backtrack cfgQ sqQ Obj.init atOne [1]
    let second := lsearchGetM envQ .quadratic paramsQ .backtrack cfgQ sqQ first.obj atOne [-1]
    first.ok = false ∧ first.obj.last = 1 ∧ first.obj.mem.prevdg = 2 ∧ first.state.x = [1] ∧
    second.t0 = -(101 / 1000000000) ∧ LSearch.initialStep cfgQ second.t0 = 1 / 1000000000000000 := by decide +kernel

/-- WITNESS (linear strategy): not a first call, ascent direction: the initial step is negative (the search then refuses) -/
theorem linear_negative_step_on_ascent :
    (lsearchGetM envQ .linear paramsQ .backtrack cfgQ sqQ ⟨1 / 2, ⟨0, -4⟩⟩ atOne [1]).t0 = -(101 / 100) ∧
    (lsearchGetM envQ .linear paramsQ .backtrack cfgQ sqQ ⟨1 / 2, ⟨0, -4⟩⟩ atOne [1]).ok = false := by decide +kernel

/-- WITNESS (CG_DESCENT's strategy): after a last step `0` the initial step is `0`; at a stationary point away from the origin
    the first step is `phi0‖x‖∞ / 0` (`0` here, `+inf` in binary64: corpus `ls0 hist cgdescent … # zero-gradient`) -/
theorem cgdescent_zero_steps :
    (lsearchGetM envQ .cgdescent paramsQ .backtrack cfgQ sqQ ⟨0, Mem.init⟩ atOne [-2]).t0 = 0 ∧
    (l0get .cgdescent paramsQ (fun x => (sqQ x).1) Mem.init ⟨[1], 5, [0], Status.initial, 1, 1⟩ [-1] (-1)).t0 = 0 := by
  decide +kernel

/-- a later call of CG_DESCENT's strategy: last step `1/2` ⇒ trial step `1/20`, `f(1 − 1/10) = 81/100 < 1` above the tangent ⇒
    the parabola minimiser `1/2` (exact on a quadratic: the true minimiser of `t ↦ (1 − 2t)²`), one extra value evaluation -/
example : (l0get .cgdescent paramsQ (fun x => (sqQ x).1) Mem.init atOne [-2] (1 / 2)).t0 = 1 / 2 ∧
    (l0get .cgdescent paramsQ (fun x => (sqQ x).1) Mem.init atOne [-2] (1 / 2)).extra = 1 := by decide +kernel

/-- the hypotheses of `initial_step_positive_in_run` hold at the second call of a run -/
example : ObjInv .quadratic (lsearchGetM envQ .quadratic paramsQ .backtrack cfgQ sqQ Obj.init atOne [-2]).obj ∧
    vdot ([2] : Vec ℚ) [-2] < 0 :=
  ⟨Or.inr ⟨by decide +kernel, fun _ => by decide +kernel⟩, by decide +kernel⟩
/-- the hypothesis `hdir` of `initial_step_positive_throughout_run` holds for gd -/
example : ∀ (mem : Unit) (p c : State ℚ), c.gx.length = c.x.length →
    ((gdRule : Rule ℚ Unit).direction mem p c).1.length = c.x.length := by
  intro _ _ c h; simp [gdRule, vneg, h]

end examples
end NanoVerif.SolverStep
